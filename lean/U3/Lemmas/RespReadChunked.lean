import U3.Lemmas.RespChunked
/-! urllib3's own chunk parser (`read_chunked` = `_update_chunk_length` + `_handle_chunk(amt)` +
decode + flush + trailer loop + close) on a well-framed chunked body, judged by the same reference
reader `refBody` as `http.client`'s: for every chunk vector, size-line spelling, extension, trailer
list, every `amt ≠ 0`, every segmentation, with decoding on (any decoder obeying the `StreamLaw`) or
off: the generator terminates, never raises, and its pieces concatenate to the payload; afterwards
the response is at its end (`Inv … []`), so every later `read` / `read1` returns b"".
`stream(amt)` on a chunked response is `read_chunked(amt)`, iteration re-splits it on `\n`. -/
namespace U3.Resp
open U3

section
variable {δ : Type} (D : Dec δ) (cfg : Cfg δ) {G : δ → Bytes → Bytes → Prop}

/-- what `read_chunked` leaves alone -/
def SameResp (r r' : R H δ) : Prop :=
  r'.buf = r.buf ∧ r'.lengthRemaining = r.lengthRemaining ∧ SameFrame r.fp r'.fp

theorem SameResp.refl (r : R H δ) : SameResp r r := ⟨rfl, rfl, SameFrame.refl _⟩
theorem SameResp.trans {a b c : R H δ} (h1 : SameResp a b) (h2 : SameResp b c) : SameResp a c :=
  ⟨h2.1.trans h1.1, h2.2.1.trans h1.2.1, SameFrame.trans h1.2.2 h2.2.2⟩

/-- `_update_chunk_length` on a well-framed body -/
theorem updateChunkLength_ref (r : R H δ) (f : Fp) (p : Bytes) (hf : r.fp.fp = some f)
    (hcl : r.chunkLeft ≠ some 0) (hp : refBody r.chunkLeft f.content = some p) :
    ∃ r' f', updateChunkLength hSrc r = (.ok (), r') ∧ r'.fp.fp = some f' ∧ SameResp r r' ∧
      r'.decoder = r.decoder ∧ r'.hasDecoded = r.hasDecoded ∧ f'.content.length ≤ f.content.length ∧
      ((r'.chunkLeft = some 0 ∧ p = []) ∨
       (∃ n, r'.chunkLeft = some (n + 1) ∧ refBody (some (n + 1)) f'.content = some p)) := by
  cases hc : r.chunkLeft with
  | some k =>
    cases k with
    | zero => exact absurd hc hcl
    | succ n =>
      rw [hc] at hp
      exact ⟨r, f, by simp [updateChunkLength, hc], hf, SameResp.refl r, rfl, rfl, Nat.le_refl _,
        Or.inr ⟨n, hc, hp⟩⟩
  | none =>
    rw [hc] at hp
    have hrl : hSrc.readline r.fp = (.ok (lineOf f.content), { r.fp with fp := some (fpReadline f).2 }) :=
      hFpReadline_eq r.fp f hf
    have hlen : (fpReadline f).2.content.length ≤ f.content.length := by
      rw [(fpReadline_spec f).2.1, List.length_drop]; omega
    rcases refBody_line hp with ⟨hz, hp0⟩ | ⟨n, hn, hp1⟩
    · refine ⟨{ r with fp := { r.fp with fp := some (fpReadline f).2 }, chunkLeft := some 0 }, (fpReadline f).2,
        ?_, rfl, ⟨rfl, rfl, rfl, rfl, rfl, rfl⟩, rfl, rfl, hlen, Or.inl ⟨rfl, hp0⟩⟩
      unfold updateChunkLength
      simp only [hc, hrl, hz]
    · refine ⟨{ r with fp := { r.fp with fp := some (fpReadline f).2 }, chunkLeft := some (n + 1) }, (fpReadline f).2,
        ?_, rfl, ⟨rfl, rfl, rfl, rfl, rfl, rfl⟩, rfl, rfl, hlen, Or.inr ⟨n, rfl, ?_⟩⟩
      · unfold updateChunkLength
        simp only [hc, hrl, hn]
      · rw [(fpReadline_spec f).2.1]; exact hp1

theorem safeRead'_ok (r : R H δ) (f : Fp) (n : Nat) (hf : r.fp.fp = some f) (hlen : n ≤ f.content.length) :
    ∃ f', safeRead' hSrc r n = (.ok (f.content.take n), { r with fp := { r.fp with fp := some f' } }) ∧
      f'.content = f.content.drop n := by
  obtain ⟨f', e, c, _⟩ := hSafeRead_ok r.fp f n hf hlen
  refine ⟨f', ?_, c⟩
  unfold safeRead'
  have hsr : hSrc.safeRead r.fp n = hSafeRead r.fp n := rfl
  rw [hsr, e]

/-- read the rest of the chunk and toss the CRLF -/
theorem readAndToss_ref (r : R H δ) (f : Fp) (p : Bytes) (n : Nat) (hf : r.fp.fp = some f)
    (hp : refBody (some (n + 1)) f.content = some p) :
    ∃ f' p', readAndToss hSrc r (n + 1) =
        (.ok (f.content.take (n + 1)), { r with fp := { r.fp with fp := some f' }, chunkLeft := none }) ∧
      p = f.content.take (n + 1) ++ p' ∧ refBody none f'.content = some p' ∧
      f'.content.length < f.content.length := by
  obtain ⟨hlen, p2, h2, hpp⟩ := refBody_pos hp
  obtain ⟨hlen2, h3⟩ := refBody_zero h2
  obtain ⟨f1, e1, c1⟩ := safeRead'_ok r f (n + 1) hf hlen
  obtain ⟨f2, e2, c2⟩ := safeRead'_ok { r with fp := { r.fp with fp := some f1 } } f1 2 rfl (by rw [c1]; exact hlen2)
  refine ⟨f2, p2, ?_, hpp, by rw [c2, c1]; exact h3, ?_⟩
  · unfold readAndToss
    rw [e1]
    simp only []
    rw [e2]
  · rw [c2, c1, List.length_drop, List.length_drop]; omega

/-- `_handle_chunk(amt)`, `amt ≠ 0`, inside a chunk with `n + 1` bytes left -/
theorem handleChunk_ref (r : R H δ) (f : Fp) (p : Bytes) (n : Nat) (amt : Option Nat) (hamt : amt ≠ some 0)
    (hf : r.fp.fp = some f) (hcl : r.chunkLeft = some (n + 1))
    (hp : refBody (some (n + 1)) f.content = some p) :
    ∃ d r' f' p', handleChunk hSrc r amt = (.ok d, r') ∧ r'.fp.fp = some f' ∧ SameResp r r' ∧
      r'.decoder = r.decoder ∧ r'.hasDecoded = r.hasDecoded ∧ p = d ++ p' ∧
      refBody r'.chunkLeft f'.content = some p' ∧ r'.chunkLeft ≠ some 0 ∧
      f'.content.length < f.content.length := by
  have whole : ∃ d r' f' p', readAndToss hSrc r (n + 1) = (.ok d, r') ∧ r'.fp.fp = some f' ∧ SameResp r r' ∧
      r'.decoder = r.decoder ∧ r'.hasDecoded = r.hasDecoded ∧ p = d ++ p' ∧
      refBody r'.chunkLeft f'.content = some p' ∧ r'.chunkLeft ≠ some 0 ∧
      f'.content.length < f.content.length := by
    obtain ⟨f', p', e1, e2, e3, e4⟩ := readAndToss_ref r f p n hf hp
    exact ⟨_, _, f', p', e1, rfl, ⟨rfl, rfl, rfl, rfl, rfl, rfl⟩, rfl, rfl, e2, e3, by simp, e4⟩
  unfold handleChunk
  rw [hcl]
  simp only []
  cases amt with
  | none => exact whole
  | some a =>
    simp only []
    by_cases hlt : a < n + 1
    · rw [if_pos hlt]
      have ha : 0 < a := Nat.pos_of_ne_zero (fun h0 => hamt (by rw [h0]))
      obtain ⟨g1, g2, g3⟩ := refBody_advance a (Nat.le_of_lt hlt) hp
      obtain ⟨f1, e1, c1⟩ := safeRead'_ok r f a hf (by omega)
      rw [e1]
      simp only []
      obtain ⟨j, hj⟩ : ∃ j, n + 1 - a = j + 1 := ⟨n - a, by omega⟩
      refine ⟨_, _, f1, p.drop a, rfl, rfl, ⟨rfl, rfl, rfl, rfl, rfl, rfl⟩, rfl, rfl, ?_, ?_, ?_, ?_⟩
      · rw [← g2, List.take_append_drop]
      · show refBody (some (n + 1 - a)) f1.content = _
        rw [c1]; exact g1
      · show some (n + 1 - a) ≠ some 0
        rw [hj]; simp
      · rw [c1, List.length_drop]; omega
    · rw [if_neg hlt]
      by_cases heq : a = n + 1
      · rw [if_pos heq, heq]; exact whole
      · rw [if_neg heq]; exact whole

/-- the obligation of `_decode(chunk, decode_content, False)`: with decoding on what the decoder
owes for the raw bytes to come, with decoding off the raw bytes themselves (and nothing decoded yet) -/
def OwesDc (G : δ → Bytes → Bytes → Prop) (dc : Bool) (r : R H δ) (p q : Bytes) : Prop :=
  if dc then Settled cfg r.decoder ∧ Owes G r.decoder p q else r.hasDecoded = false ∧ q = p

theorem decode_step (hD : StreamLaw D G) (dc : Bool) (r : R H δ) (a b q : Bytes)
    (h : OwesDc cfg G dc r (a ++ b) q) :
    ∃ o od hd, decode D r a dc false = (.ok o, { r with decoder := od, hasDecoded := hd }) ∧
      ∃ q', q = o ++ q' ∧ OwesDc cfg G dc { r with decoder := od, hasDecoded := hd } b q' := by
  cases dc with
  | false =>
    obtain ⟨h1, h2⟩ : r.hasDecoded = false ∧ q = a ++ b := by simpa [OwesDc] using h
    have hdec : decode D r a false false = (.ok a, r) := by simp [decode, h1]
    refine ⟨a, r.decoder, r.hasDecoded, by rw [hdec], b, h2, ?_⟩
    simp [OwesDc, h1]
  | true =>
    obtain ⟨hs, hO⟩ : Settled cfg r.decoder ∧ Owes G r.decoder (a ++ b) q := by simpa [OwesDc] using h
    cases hd : r.decoder with
    | none =>
      rw [hd] at hO hs
      have hdec : decode D r a true false = (.ok a, r) := by simp [decode, hd]
      refine ⟨a, none, r.hasDecoded, by rw [hdec]; cases r; simp_all, b, by simpa [Owes] using hO, ?_⟩
      simp only [OwesDc, if_true]
      exact ⟨hs, by simp [Owes]⟩
    | some d =>
      rw [hd] at hO
      obtain ⟨o, d', hdec, p', hp, hG'⟩ := hD.feed d a b q hO
      refine ⟨o, some d', true, decode_ok D r d d' a o hd hdec, p', hp, ?_⟩
      simp only [OwesDc, if_true]
      exact ⟨settled_some cfg d', hG'⟩

/-- the `while True` loop of `read_chunked` over a well-framed body: it ends at the last-chunk
line, and its pieces followed by what the decoder still owes are the payload -/
theorem rcLoop_ref (hD : StreamLaw D G) (amt : Option Nat) (hamt : amt ≠ some 0) (dc : Bool) :
    ∀ (fuel : Nat) (r : R H δ) (f : Fp) (p q : Bytes) (acc : List Bytes),
      r.fp.fp = some f → r.chunkLeft ≠ some 0 → refBody r.chunkLeft f.content = some p →
      OwesDc cfg G dc r p q → f.content.length < fuel →
      ∃ ps r' f' q', rcLoop hSrc D amt dc fuel r acc = ((acc ++ ps, .ok ()), r') ∧
        r'.fp.fp = some f' ∧ SameResp r r' ∧ OwesDc cfg G dc r' [] q' ∧ ps.flatten ++ q' = q ∧
        f'.content.length ≤ f.content.length := by
  intro fuel
  induction fuel with
  | zero => intro r f p q acc _ _ _ _ hl; omega
  | succ k ih =>
    intro r f p q acc hf hcl hp hO hl
    unfold rcLoop
    obtain ⟨r1, f1, e1, hf1, hs1, hd1, hh1, hl1, hcase⟩ := updateChunkLength_ref r f p hf hcl hp
    rw [e1]
    simp only []
    have hO1 : OwesDc cfg G dc r1 p q := by
      unfold OwesDc at hO ⊢
      rw [hd1, hh1]; exact hO
    rcases hcase with ⟨hz, hp0⟩ | ⟨n, hn, hp1⟩
    · rw [if_pos hz]
      subst hp0
      exact ⟨[], r1, f1, q, by simp, hf1, hs1, hO1, by simp, hl1⟩
    · rw [if_neg (by rw [hn]; simp)]
      obtain ⟨d, r2, f2, p', e2, hf2, hs2, hd2, hh2, hpd, hp2, hcl2, hl2⟩ :=
        handleChunk_ref r1 f1 p n amt hamt hf1 hn hp1
      rw [e2]
      simp only []
      have hO2 : OwesDc cfg G dc r2 (d ++ p') q := by
        unfold OwesDc at hO1 ⊢
        rw [hd2, hh2, ← hpd]; exact hO1
      obtain ⟨o, od, hd, e3, q1, hq, hO3⟩ := decode_step D cfg hD dc r2 d p' q hO2
      rw [e3]
      simp only []
      obtain ⟨ps, r', f', q', e4, hf', hs', hO', hcat, hl'⟩ :=
        ih { r2 with decoder := od, hasDecoded := hd } f2 p' q1 (if o.isEmpty then acc else acc ++ [o])
          hf2 hcl2 hp2 hO3 (by omega)
      rw [e4]
      refine ⟨(if o.isEmpty then [] else [o]) ++ ps, r', f', q', ?_, hf', ?_, hO', ?_, by omega⟩
      · by_cases ho : o.isEmpty = true
        · simp [ho]
        · simp [ho]
      · exact SameResp.trans hs1 (SameResp.trans hs2 hs')
      · rw [hq, ← hcat]
        by_cases ho : o.isEmpty = true
        · have : o = [] := List.isEmpty_iff.mp ho
          simp [this]
        · simp [ho]

/-- the trailer loop of `read_chunked` only moves the file position -/
theorem rcTrailer_ok : ∀ (fuel : Nat) (r : R H δ) (f : Fp), r.fp.fp = some f → f.content.length < fuel →
    ∃ f', rcTrailer hSrc fuel r = (.ok (), { r with fp := { r.fp with fp := some f' } }) := by
  intro fuel
  induction fuel with
  | zero => intro r f _ hl; omega
  | succ k ih =>
    intro r f hf hl
    unfold rcTrailer
    have hrl : hSrc.readline r.fp = (.ok (lineOf f.content), { r.fp with fp := some (fpReadline f).2 }) :=
      hFpReadline_eq r.fp f hf
    rw [hrl]
    simp only []
    by_cases hc : (lineOf f.content).isEmpty = true ∨ lineOf f.content = crlf
    · rw [if_pos hc]; exact ⟨_, rfl⟩
    · rw [if_neg hc]
      have hne : 0 < (lineOf f.content).length := by
        apply List.length_pos_iff.mpr
        intro h0; exact hc (Or.inl (by simp [h0]))
      have := lineOf_length_le f.content
      obtain ⟨f', e⟩ := ih { r with fp := { r.fp with fp := some (fpReadline f).2 } } (fpReadline f).2 rfl
        (by rw [(fpReadline_spec f).2.1, List.length_drop]; omega)
      exact ⟨f', e⟩

end

section
variable {δ : Type} (D : Dec δ) (cfg : Cfg δ) {G : δ → Bytes → Bytes → Prop}

/-- the state `read_chunked` must be started in: nothing buffered, urllib3's and `http.client`'s
chunk bookkeeping both at a size line (the start of the body; `read(0)` calls do not matter) -/
structure Fresh (r : R H δ) : Prop where
  nobuf : bqAll r.buf = []
  noleft : r.chunkLeft = none
  hleft : r.fp.chunkLeft = none

/-- **`read_chunked(amt, decode_content)`** from the start of a well-framed chunked body, `amt ≠ 0`:
terminates, never raises, and the pieces concatenate to the payload — the decoded one with
decoding on (`Inv`), the de-chunked raw one with decoding off (`RawInv`) — and leaves the response
at its end -/
theorem readChunked_on (hD : StreamLaw D G) (amt : Option Nat) (hamt : amt ≠ some 0)
    (hch : cfg.chunked = true) (hhd : cfg.head = false) (r : R H δ) (payload : Bytes)
    (hinv : Inv cfg cRem CI G r payload) (hfr : Fresh r)
    (hfuel : ∀ f, r.fp.fp = some f → f.content.length < cfg.fuel) :
    ∃ ps r', readChunked hSrc D cfg r amt true = ((ps, none), r') ∧ ps.flatten = payload ∧
      Inv cfg cRem CI G r' [] ∧ hSrc.isclosed r'.fp = true := by
  obtain ⟨⟨hci, hlr⟩, p, hO, hrest⟩ := hinv
  rw [hfr.nobuf, List.nil_append] at hrest
  subst hrest
  have hdec0 := initDec_decoder cfg r
  obtain ⟨g1, g2, g3, _⟩ := initDec_other cfg r
  have gcl : (initDec cfg r).chunkLeft = r.chunkLeft := by unfold initDec; cases r.decoder <;> rfl
  unfold readChunked
  simp only [hch, hhd, Bool.not_true, Bool.false_eq_true, if_false]
  generalize initDec cfg r = r0 at *
  have hs0 : Settled cfg r0.decoder := by rw [hdec0]; exact settled_effDec cfg _
  have hO0 : Owes G r0.decoder (cRem r.fp) p := by rw [hdec0]; exact hO
  -- the final state: an `Inv … []` for a closed response
  have fin : ∀ (r1 : R H δ), r1.fp.fp = none → CInv r1.fp → r1.lengthRemaining = none → bqAll r1.buf = [] →
      Settled cfg r1.decoder → Owes G r1.decoder [] [] → Inv cfg cRem CI G r1 [] := by
    intro r1 a1 a2 a3 a4 a5 a6
    refine ⟨⟨a2, a3⟩, [], ?_, by rw [a4]; rfl⟩
    rw [a5, cRem_none a1]; exact a6
  cases hf : r.fp.fp with
  | none =>
    -- already closed: nothing is yielded
    have hicl : hSrc.isclosed r0.fp = true := by rw [g1]; simp [hSrc, H.isclosed, hf]
    rw [if_pos hicl]
    obtain ⟨r', e0, e1, e2, e3, e4, e5, _⟩ := errorCatcher_ok hSrc r0 ()
    simp only [e0]
    have hrem : cRem r.fp = [] := cRem_none hf
    have hp : p = [] := owes_nil D hD _ p (hrem ▸ hO)
    subst hp
    refine ⟨[], r', rfl, rfl, fin r' (by rw [e1, g1]; exact hf) (by rw [e1, g1]; exact hci)
      (by rw [e5, g3]; exact hlr) (by rw [e2, g2]; exact hfr.nobuf) (by rw [e3]; exact hs0)
      (by rw [e3]; rw [hrem] at hO0; exact hO0), by rw [e1]; exact hicl⟩
  | some f =>
    have hicl : ¬ hSrc.isclosed r0.fp = true := by rw [g1]; simp [hSrc, H.isclosed, hf]
    rw [if_neg hicl]
    obtain ⟨hclosed, href⟩ := hci.view f hf
    rw [hfr.hleft] at href
    obtain ⟨ps, r1, f1, q', e1, hf1, hs1, hO1, hcat, hl1⟩ :=
      rcLoop_ref D cfg hD amt hamt true cfg.fuel r0 f (cRem r.fp) p [] (by rw [g1]; exact hf)
        (by rw [gcl, hfr.noleft]; simp) (by rw [gcl, hfr.noleft]; exact href)
        (by simp only [OwesDc, if_true]; exact ⟨hs0, hO0⟩) (hfuel f hf)
    rw [e1]
    simp only [List.nil_append, if_true]
    obtain ⟨hs1', hO1'⟩ : Settled cfg r1.decoder ∧ Owes G r1.decoder [] q' := by simpa [OwesDc] using hO1
    obtain ⟨hq, r2, e2, hO2, hs2, k1, k2, k3⟩ := flushDecoder_done D cfg hD r1 q' hs1' hO1'
    subst hq
    rw [e2]
    simp only [List.isEmpty_nil, if_true]
    obtain ⟨f3, e3⟩ := rcTrailer_ok cfg.fuel r2 f1 (by rw [k1]; exact hf1)
      (Nat.lt_of_le_of_lt hl1 (hfuel f hf))
    rw [e3]
    simp only []
    obtain ⟨r', e0, m1, m2, m3, m4, m5, _⟩ := errorCatcher_ok hSrc
      ({ { r2 with fp := { r2.fp with fp := some f3 } } with
          fp := hSrc.close ({ r2 with fp := { r2.fp with fp := some f3 } } : R H δ).fp } : R H δ) ()
    simp only [e0]
    have hfp' : r'.fp.fp = none := by rw [m1]; rfl
    have hci' : CInv r'.fp := by
      rw [m1]
      obtain ⟨s1, s2, _⟩ := hs1.2.2
      refine ⟨?_, ?_, fun g hg => by simp [hSrc, H.close] at hg⟩
      · show r2.fp.head = false; rw [k1, s1, g1]; exact hci.head
      · show r2.fp.chunked = true; rw [k1, s2, g1]; exact hci.chunked
    refine ⟨ps, r', rfl, by simpa using hcat, fin r' hfp' hci' ?_ ?_ ?_ ?_, by rw [m1]; rfl⟩
    · rw [m5]; show r2.lengthRemaining = none; rw [k3, hs1.2.1, g3]; exact hlr
    · rw [m2]; show bqAll r2.buf = []; rw [k2, hs1.1, g2]; exact hfr.nobuf
    · rw [m3]; exact hs2
    · rw [m3]; exact hO2

/-- the same with `decode_content=False`: the pieces are the de-chunked raw body -/
theorem readChunked_raw (amt : Option Nat) (hamt : amt ≠ some 0)
    (hch : cfg.chunked = true) (hhd : cfg.head = false) (r : R H δ) (raw : Bytes)
    (hinv : RawInv cRem CI r raw) (hfr : Fresh r)
    (hfuel : ∀ f, r.fp.fp = some f → f.content.length < cfg.fuel) :
    ∃ ps r', readChunked hSrc D cfg r amt false = ((ps, none), r') ∧ ps.flatten = raw ∧
      hSrc.isclosed r'.fp = true := by
  obtain ⟨⟨hci, hlr⟩, hnd, _, hleft⟩ := hinv
  subst hleft
  obtain ⟨g1, g2, g3, g4⟩ := initDec_other cfg r
  have gcl : (initDec cfg r).chunkLeft = r.chunkLeft := by unfold initDec; cases r.decoder <;> rfl
  unfold readChunked
  simp only [hch, hhd, Bool.not_true, Bool.false_eq_true, if_false]
  generalize initDec cfg r = r0 at *
  cases hf : r.fp.fp with
  | none =>
    have hicl : hSrc.isclosed r0.fp = true := by rw [g1]; simp [hSrc, H.isclosed, hf]
    rw [if_pos hicl]
    obtain ⟨r', e0, e1, _⟩ := errorCatcher_ok hSrc r0 ()
    simp only [e0]
    exact ⟨[], r', rfl, by rw [cRem_none hf]; rfl, by rw [e1]; exact hicl⟩
  | some f =>
    have hicl : ¬ hSrc.isclosed r0.fp = true := by rw [g1]; simp [hSrc, H.isclosed, hf]
    rw [if_neg hicl]
    obtain ⟨hclosed, href⟩ := hci.view f hf
    rw [hfr.hleft] at href
    -- the decoder law is irrelevant with decoding off: use the trivial one
    have hD0 : StreamLaw D (fun _ _ _ => False) := ⟨fun _ _ _ _ h => h.elim, fun _ _ h => h.elim⟩
    obtain ⟨ps, r1, f1, q', e1, hf1, hs1, hO1, hcat, hl1⟩ :=
      rcLoop_ref D cfg hD0 amt hamt false cfg.fuel r0 f (cRem r.fp) (cRem r.fp) [] (by rw [g1]; exact hf)
        (by rw [gcl, hfr.noleft]; simp) (by rw [gcl, hfr.noleft]; exact href)
        (by simp only [OwesDc, Bool.false_eq_true, if_false]; exact ⟨by rw [g4]; exact hnd, trivial⟩) (hfuel f hf)
    rw [e1]
    simp only [List.nil_append]
    obtain ⟨_, hq⟩ : r1.hasDecoded = false ∧ q' = [] := by simpa [OwesDc] using hO1
    subst hq
    obtain ⟨f3, e3⟩ := rcTrailer_ok cfg.fuel r1 f1 hf1 (Nat.lt_of_le_of_lt hl1 (hfuel f hf))
    rw [e3]
    simp only []
    obtain ⟨r', e0, m1, _⟩ := errorCatcher_ok hSrc
      ({ { r1 with fp := { r1.fp with fp := some f3 } } with
          fp := hSrc.close ({ r1 with fp := { r1.fp with fp := some f3 } } : R H δ).fp } : R H δ) ()
    simp only [e0]
    exact ⟨ps, r', rfl, by simpa using hcat, by rw [m1]; rfl⟩

end
end U3.Resp
