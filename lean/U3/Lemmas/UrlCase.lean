import U3.Model.Url
import U3.Lemmas.Url
/-!
# ASCII case change does not influence the address matchers of `U3.Url`

`isIPv6`, `isIPv4`, `isZone`, `bracketOk`, `ipv6AddrzMatch`, `ipv4Match` give the same answer on `s`
and on `lower s` (hence on any two texts that differ only in ASCII letter case), and the `%HH` scanner
commutes with lower-casing.  Helper lemmas for `U3.Props.C14` (core Lean only).
-/
namespace U3.Url
open U3

/-! ## characters -/

/-- `lowerC` hits a non-letter only from itself -/
theorem lowerC_eq_iff (c k : Nat) (hk : k < 65 ∨ (90 < k ∧ k < 97) ∨ 122 < k) : lowerC c = k ↔ c = k := by
  simp only [lowerC]
  split <;> constructor <;> intro _ <;> omega

theorem lowerC_ne {c k : Nat} (hk : k < 65 ∨ (90 < k ∧ k < 97) ∨ 122 < k) (h : c ≠ k) : lowerC c ≠ k :=
  fun e => h ((lowerC_eq_iff c k hk).mp e)

theorem isHexC_lowerC (c : Nat) : isHexC (lowerC c) = isHexC c := by
  rw [Bool.eq_iff_iff]
  simp only [isHexC, isDigitC, lowerC, Bool.or_eq_true, Bool.and_eq_true, decide_eq_true_eq]
  split <;> simp only [decide_eq_true_eq] <;> constructor <;> intro _ <;> omega

theorem isDigitC_lowerC' (c : Nat) : isDigitC (lowerC c) = isDigitC c := by
  rw [Bool.eq_iff_iff]
  simp only [isDigitC, lowerC, Bool.and_eq_true, decide_eq_true_eq]
  split <;> simp only [decide_eq_true_eq] <;> constructor <;> intro _ <;> omega

theorem lowerC_of_ge {c : Nat} (h : 91 ≤ c) : lowerC c = c := by
  unfold lowerC; split <;> omega

theorem lowerC_of_lt {c : Nat} (h : c < 65) : lowerC c = c := by
  unfold lowerC; split <;> omega

theorem lowerC_lt128 {c : Nat} : lowerC c < 128 ↔ c < 128 := by
  unfold lowerC; split <;> omega

theorem lower_cons (c : Nat) (t : Str) : lower (c :: t) = lowerC c :: lower t := rfl

/-- both cases of every ASCII letter are unreserved, so membership is case-blind -/
theorem mem_unreserved_lowerC (c : Nat) : mem Gen.unreservedChars (lowerC c) = mem Gen.unreservedChars c := by
  by_cases hu : 65 ≤ c ∧ c ≤ 90
  · have key : ∀ d, d < 91 → 65 ≤ d →
        mem Gen.unreservedChars (d + 32) = true ∧ mem Gen.unreservedChars d = true := by decide
    have := key c (by omega) hu.1
    simp only [lowerC, hu, and_self, if_true]
    rw [this.1, this.2]
  · have : lowerC c = c := by unfold lowerC; rw [if_neg hu]
    rw [this]

/-! ## lists -/

theorem all_lower (p : Nat → Bool) (hp : ∀ c, p (lowerC c) = p c) (s : Str) : (lower s).all p = s.all p := by
  induction s with
  | nil => rfl
  | cons c t ih => simp only [lower_cons, List.all_cons, hp, ih]

theorem map_lower_all (p : Str → Bool) (hp : ∀ x, p (lower x) = p x) (l : List Str) :
    (l.map lower).all p = l.all p := by
  induction l with
  | nil => rfl
  | cons x t ih => simp only [List.map_cons, List.all_cons, hp, ih]

theorem lower_isEmpty (s : Str) : (lower s).isEmpty = s.isEmpty := by cases s <;> rfl

theorem bne_lowerC (k : Nat) (hk : k < 65 ∨ (90 < k ∧ k < 97) ∨ 122 < k) :
    ((fun x => x != k) ∘ lowerC) = (fun x => x != k) := by
  funext x
  simp only [Function.comp, bne, Bool.not_eq_eq_eq_not, Bool.not_not]
  rw [Bool.eq_iff_iff]
  simp only [beq_iff_eq]
  exact lowerC_eq_iff x k hk

theorem takeWhile_lower (k : Nat) (hk : k < 65 ∨ (90 < k ∧ k < 97) ∨ 122 < k) (s : Str) :
    (lower s).takeWhile (· != k) = lower (s.takeWhile (· != k)) := by
  simp only [lower, List.takeWhile_map, bne_lowerC k hk]

theorem dropWhile_lower (k : Nat) (hk : k < 65 ∨ (90 < k ∧ k < 97) ∨ 122 < k) (s : Str) :
    (lower s).dropWhile (· != k) = lower (s.dropWhile (· != k)) := by
  simp only [lower, List.dropWhile_map, bne_lowerC k hk]

theorem mem_lower_iff (k : Nat) (hk : k < 65 ∨ (90 < k ∧ k < 97) ∨ 122 < k) (s : Str) :
    k ∈ lower s ↔ k ∈ s := by
  induction s with
  | nil => simp
  | cons c t ih =>
    simp only [lower_cons, List.mem_cons, ih]
    constructor
    · rintro (e | e)
      · exact Or.inl ((lowerC_eq_iff c k hk).mp e.symm).symm
      · exact Or.inr e
    · rintro (e | e)
      · exact Or.inl ((lowerC_eq_iff c k hk).mpr e.symm).symm
      · exact Or.inr e

theorem contains_lower (k : Nat) (hk : k < 65 ∨ (90 < k ∧ k < 97) ∨ 122 < k) (s : Str) :
    (lower s).contains k = s.contains k := by
  rw [Bool.eq_iff_iff]
  simp only [List.contains_iff_mem]
  exact mem_lower_iff k hk s

theorem lower_dropLast (s : Str) : (lower s).dropLast = lower s.dropLast := by
  simp [lower, List.map_dropLast]

theorem lower_getLast? (s : Str) : (lower s).getLast? = s.getLast?.map lowerC := by
  simp [lower, List.getLast?_map]

theorem getLast?_lower_eq (k : Nat) (hk : k < 65 ∨ (90 < k ∧ k < 97) ∨ 122 < k) (s : Str) :
    ((lower s).getLast? = some k) ↔ (s.getLast? = some k) := by
  rw [lower_getLast?]
  cases s.getLast? with
  | none => simp
  | some a => simp [lowerC_eq_iff a k hk]

theorem splitOn1_lower (c : Nat) (hc : c < 65 ∨ (90 < c ∧ c < 97) ∨ 122 < c) (s : Str) :
    splitOn1 c (lower s) = (splitOn1 c s).map lower := by
  induction s with
  | nil => rfl
  | cons x t ih =>
    by_cases hx : x = c
    · subst hx
      have : lowerC x = x := (lowerC_eq_iff x x hc).mpr rfl
      simp only [lower_cons, splitOn1, this, if_true, ih, List.map_cons]
      rfl
    · have : lowerC x ≠ c := lowerC_ne hc hx
      simp only [lower_cons, splitOn1, this, hx, if_false, ih]
      cases hs : splitOn1 c t with
      | nil => exact absurd hs (splitOn1_ne_nil c t)
      | cons p ps => rfl

/-! ## `_IPV4_PAT`, `h16` -/

theorem isH16_lower (p : Str) : isH16 (lower p) = isH16 p := by
  simp only [isH16, lower_length, all_lower isHexC isHexC_lowerC]

theorem isDec13_lower (p : Str) : isDec13 (lower p) = isDec13 p := by
  simp only [isDec13, lower_length, all_lower isDigitC isDigitC_lowerC']

/-- `isIPv4` on the list of dot-separated pieces -/
def isIPv4L : List Str → Bool
  | [a, b, c, d] => isDec13 a && isDec13 b && isDec13 c && isDec13 d
  | _ => false

theorem isIPv4_eq (p : Str) : isIPv4 p = isIPv4L (splitOn1 46 p) := by
  unfold isIPv4 isIPv4L
  split <;> simp_all

theorem isIPv4L_lower (l : List Str) : isIPv4L (l.map lower) = isIPv4L l := by
  rcases l with _ | ⟨a, _ | ⟨b, _ | ⟨c, _ | ⟨d, _ | ⟨e, t⟩⟩⟩⟩⟩ <;> simp [isIPv4L, isDec13_lower]

/-- **`_IPV4_PAT` is case-blind** -/
theorem isIPv4_lower (p : Str) : isIPv4 (lower p) = isIPv4 p := by
  rw [isIPv4_eq, isIPv4_eq, splitOn1_lower 46 (by omega), isIPv4L_lower]

/-! ## `_IPV6_PAT` -/

theorem findDoubleColon_lower (s : Str) :
    findDoubleColon (lower s) = (findDoubleColon s).map (fun p => (lower p.1, lower p.2)) := by
  induction s with
  | nil => rfl
  | cons a r ih =>
    cases r with
    | nil => rfl
    | cons b t =>
      have ha : (lowerC a = 58) ↔ (a = 58) := lowerC_eq_iff a 58 (by omega)
      have hb : (lowerC b = 58) ↔ (b = 58) := lowerC_eq_iff b 58 (by omega)
      simp only [lower_cons] at ih ⊢
      by_cases h : a = 58 ∧ b = 58
      · obtain ⟨rfl, rfl⟩ := h
        have e : lowerC 58 = 58 := rfl
        simp [e, findDoubleColon]
      · have h' : ¬ (lowerC a = 58 ∧ lowerC b = 58) := fun e => h ⟨ha.mp e.1, hb.mp e.2⟩
        have c1 : (decide (a = 58) && decide (b = 58)) = false := by simpa using h
        have c2 : (decide (lowerC a = 58) && decide (lowerC b = 58)) = false := by simpa using h'
        simp only [findDoubleColon, c1, c2, Bool.false_eq_true, if_false, ih]
        cases findDoubleColon (b :: t) <;> rfl

theorem countGroups_lower (v4 : Bool) (s : Str) : countGroups v4 (lower s) = countGroups v4 s := by
  simp only [countGroups, lower_isEmpty, splitOn1_lower 58 (by omega), map_lower_all isH16 isH16_lower,
    List.length_map, ← List.map_dropLast, List.getLast?_map]
  cases (splitOn1 58 s).getLast? <;> simp [isIPv4_lower]

/-- **`_IPV6_PAT` is case-blind** -/
theorem isIPv6_lower (s : Str) : isIPv6 (lower s) = isIPv6 s := by
  unfold isIPv6
  rw [findDoubleColon_lower]
  cases findDoubleColon s with
  | none => simp only [Option.map_none, countGroups_lower, lower_isEmpty]
  | some p => simp only [Option.map_some, countGroups_lower]

/-! ## the `%HH` scanner -/

def Tok.lower : Tok → Tok
  | .chr c => .chr (lowerC c)
  | .esc a b => .esc (lowerC a) (lowerC b)

theorem hex2_lower (t : Str) : hex2 (lower t) = (hex2 t).map (fun p => (lowerC p.1, lowerC p.2)) := by
  match t with
  | [] => rfl
  | [_] => rfl
  | a :: b :: r =>
    simp only [lower_cons, hex2, isHexC_lowerC]
    split <;> rfl

theorem tokAux_lower (k : Nat) (s : Str) : tokAux k (lower s) = (tokAux k s).map Tok.lower := by
  induction s generalizing k with
  | nil => cases k <;> rfl
  | cons c t ih =>
    cases k with
    | succ k => simp only [lower_cons, tokAux]; exact ih k
    | zero =>
      have hc : (lowerC c = 37) ↔ (c = 37) := lowerC_eq_iff c 37 (by omega)
      simp only [lower_cons, tokAux]
      by_cases h : c = 37
      · rw [if_pos (hc.mpr h), if_pos h, hex2_lower]
        cases hex2 t with
        | none => simp only [Option.map_none, List.map_cons, ih 0]; rfl
        | some p => obtain ⟨a, b⟩ := p; simp only [Option.map_some, List.map_cons, ih 2]; rfl
      · rw [if_neg (fun e => h (hc.mp e)), if_neg h]
        simp only [List.map_cons, ih 0]; rfl

/-- the scanner commutes with lower-casing (hex digits stay hex digits, `%` stays `%`) -/
theorem tokenize_lower (s : Str) : tokenize (lower s) = (tokenize s).map Tok.lower := tokAux_lower 0 s

theorem zoneTok_lower (t : Tok) : zoneTok t.lower = zoneTok t := by
  cases t with
  | chr c => simp only [Tok.lower, zoneTok, mem_unreserved_lowerC]
  | esc a b => rfl

/-- **`_ZONE_ID_PAT` is case-blind** -/
theorem isZone_lower (z : Str) : isZone (lower z) = isZone z := by
  cases z with
  | nil => rfl
  | cons c t =>
    have hc : (lowerC c = 37) ↔ (c = 37) := lowerC_eq_iff c 37 (by omega)
    by_cases h : c = 37
    · subst h
      have : lowerC 37 = 37 := rfl
      simp only [lower_cons, this, isZone, lower_isEmpty, tokenize_lower, List.all_map, Function.comp_def,
        zoneTok_lower]
    · have h' : lowerC c ≠ 37 := fun e => h (hc.mp e)
      have e1 : isZone (c :: t) = false := by
        unfold isZone; split
        · rename_i heq; injection heq with h1 _; exact absurd h1 h
        · rfl
      have e2 : isZone (lowerC c :: lower t) = false := by
        unfold isZone; split
        · rename_i heq; injection heq with h1 _; exact absurd h1 h'
        · rfl
      rw [lower_cons, e1, e2]

/-- the text between `[` and `]` -/
theorem bracketOk_lower (c : Str) : bracketOk (lower c) = bracketOk c := by
  simp only [bracketOk, takeWhile_lower 37 (by omega), dropWhile_lower 37 (by omega), isIPv6_lower,
    lower_isEmpty, isZone_lower]

/-- **`_IPV6_ADDRZ_RE` is case-blind** -/
theorem ipv6AddrzMatch_lower (h : Str) : ipv6AddrzMatch (lower h) = ipv6AddrzMatch h := by
  cases h with
  | nil => rfl
  | cons c t =>
    have hc : (lowerC c = 91) ↔ (c = 91) := lowerC_eq_iff c 91 (by omega)
    by_cases h91 : c = 91
    · subst h91
      have : lowerC 91 = 91 := rfl
      have hg : decide ((lower t).getLast? = some 93) = decide (t.getLast? = some 93) :=
        decide_eq_decide.mpr (getLast?_lower_eq 93 (by omega) t)
      simp only [lower_cons, this, ipv6AddrzMatch, hg, lower_dropLast, contains_lower 93 (by omega),
        bracketOk_lower]
    · have h' : lowerC c ≠ 91 := fun e => h91 (hc.mp e)
      have e1 : ipv6AddrzMatch (c :: t) = false := by
        unfold ipv6AddrzMatch; split
        · rename_i heq; injection heq with h1 _; exact absurd h1 h91
        · rfl
      have e2 : ipv6AddrzMatch (lowerC c :: lower t) = false := by
        unfold ipv6AddrzMatch; split
        · rename_i heq; injection heq with h1 _; exact absurd h1 h'
        · rfl
      rw [lower_cons, e1, e2]

theorem stripNl_lower (s : Str) : stripNl (lower s) = lower (stripNl s) := by
  unfold stripNl
  have : ((lower s).getLast? = some 10) ↔ (s.getLast? = some 10) := getLast?_lower_eq 10 (by omega) s
  by_cases h : s.getLast? = some 10
  · rw [if_pos h, if_pos (this.mpr h), lower_dropLast]
  · rw [if_neg h, if_neg (fun e => h (this.mp e))]

/-- **`_IPV4_RE` is case-blind** -/
theorem ipv4Match_lower (h : Str) : ipv4Match (lower h) = ipv4Match h := by
  simp only [ipv4Match, stripNl_lower, isIPv4_lower]

/-! ## two spellings of one text -/

theorem isIPv6_case {s t : Str} (h : lower s = lower t) : isIPv6 s = isIPv6 t := by
  rw [← isIPv6_lower s, h, isIPv6_lower]

theorem isIPv4_case {s t : Str} (h : lower s = lower t) : isIPv4 s = isIPv4 t := by
  rw [← isIPv4_lower s, h, isIPv4_lower]

theorem isZone_case {s t : Str} (h : lower s = lower t) : isZone s = isZone t := by
  rw [← isZone_lower s, h, isZone_lower]

theorem ipv6AddrzMatch_case {s t : Str} (h : lower s = lower t) : ipv6AddrzMatch s = ipv6AddrzMatch t := by
  rw [← ipv6AddrzMatch_lower s, h, ipv6AddrzMatch_lower]

theorem ipv4Match_case {s t : Str} (h : lower s = lower t) : ipv4Match s = ipv4Match t := by
  rw [← ipv4Match_lower s, h, ipv4Match_lower]

end U3.Url
