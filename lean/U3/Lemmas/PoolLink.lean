import U3.Model.Pool
import U3.Lemmas.Pool
import U3.Lemmas.PoolProv
set_option linter.unusedSimpArgs false
set_option linter.unusedVariables false
/-!
# Which connections may be reused (C03, second clause)

`Link L X s`: every connected connection `c` whose `http.client` `__response` is response `r`
* has `r` reading from `c`'s own socket (if `r` is still open) and a length-delimited `r`;
* unless `c` is the connection leased by the running `urlopen` (`L = some c`): if `r` is closed it has
  been read to its declared end (`length = some 0`), and if `r` is open it *holds* `c`
  (`r.conn = some c`), so that any unclean end of `r` (`close()`, a read error, garbage collection)
  closes `c`.
`X = some r` marks the response a read is in progress on: it may already be closed with bytes
outstanding, as long as it still holds its connection (the `finally` of `_error_catcher` is about to
close it).

`Link` is preserved by every operation of a history *without early release* (`NoEarlyRelease`: no
`release_conn=True` with `preload_content=False`, no `release_conn()` by the caller); the known finding
is exactly a history that violates this hypothesis.
-/
namespace U3.Pool

/-- the exchange of response `rs` is over: the declared length has been read; for a chunked reply (to
anything but `HEAD`) a chunk parser has read the empty line that ends the message — or has hit EOF
while it was discarding the trailer section (the connection is then at EOF: the checkout probe drops it) -/
def Done (rs : Resp) : Prop :=
  if rs.chunked = true ∧ rs.isHead = false then (rs.eom = true ∨ rs.eofAt.isSome = true) else rs.length = some 0

/-- the end of the body of `rs` is determined by its framing (and not by the end of the connection) -/
def Delim (rs : Resp) : Prop := rs.length.isSome = true ∨ rs.chunked = true

structure LinkX (L X : Option Nat) (s : State) : Prop where
  nosock : ∀ (c : Nat) (cn : Conn), s.conns[c]? = some cn → cn.sock = none → cn.pending = none
  bound : ∀ (c : Nat) (cn : Conn) (r : Nat), s.conns[c]? = some cn → cn.pending = some r → r < s.resps.length
  pend : ∀ (c : Nat) (cn : Conn) (k r : Nat) (rs : Resp), s.conns[c]? = some cn → cn.sock = some k →
    cn.pending = some r → s.resps[r]? = some rs →
    Delim rs ∧ (∀ k', rs.fp = some k' ∨ rs.eofAt = some k' → k' = k) ∧
    (L ≠ some c →
      if X = some r then rs.conn = some c
      else (rs.fp = none → Done rs) ∧ (rs.fp ≠ none → rs.conn = some c))

abbrev Link (L : Option Nat) (s : State) : Prop := LinkX L none s

def SockInj (s : State) : Prop :=
  ∀ (c c' : Nat) (cn cn' : Conn) (k : Nat), s.conns[c]? = some cn → s.conns[c']? = some cn' → cn.sock = some k → cn'.sock = some k → c = c'

theorem ProvF.sockInj' {A : Nat → Attempt → Prop} {s : State} {f : Focus} (p : ProvF A s f) : SockInj s := p.sockInj

theorem Safe.sockInj {s s' : State} (h : Safe s s') (p : SockInj s) : SockInj s' := by
  intro c c' cn cn' k h1 h2 h3 h4
  rcases h.cn c cn k h1 h3 with ⟨c0, hs, hk, _⟩ | ⟨_, _, _, g4⟩
  · rcases h.cn c' cn' k h2 h4 with ⟨c0', hs', hk', _⟩ | ⟨_, _, _, g4'⟩
    · exact p c c' c0 c0' k hs hs' hk hk'
    · exact g4' c cn h1 h3
  · exact (g4 c' cn' h2 h4).symm

theorem sockInj_conns {s s' : State} (h : s'.conns = s.conns) (p : SockInj s) : SockInj s' := by
  intro c c' cn cn' k h1 h2 h3 h4
  rw [h] at h1 h2
  exact p c c' cn cn' k h1 h2 h3 h4

/-! ### the frame lemma: connections may be closed or lose their `__response`, responses keep
`fp`, `length`, `conn`; new responses and new (unconnected) connections may appear -/

theorem linkx_frame {L X : Option Nat} {s s' : State} (h : LinkX L X s)
    (hc : ∀ (c : Nat) (cn' : Conn), s'.conns[c]? = some cn' → (cn'.sock = none ∧ cn'.pending = none) ∨
      ∃ cn : Conn, s.conns[c]? = some cn ∧ cn'.sock = cn.sock ∧ (cn'.pending = cn.pending ∨ cn'.pending = none))
    (hl : s.resps.length ≤ s'.resps.length)
    (hr : ∀ (r : Nat) (rs' : Resp), s'.resps[r]? = some rs' → r < s.resps.length →
      ∃ rs : Resp, s.resps[r]? = some rs ∧ rs'.fp = rs.fp ∧ rs'.conn = rs.conn ∧ rs'.eofAt = rs.eofAt ∧ (Delim rs → Delim rs') ∧ (Done rs → Done rs')) :
    LinkX L X s' := by
  refine ⟨?_, ?_, ?_⟩
  · intro c cn' h1 h2
    rcases hc c cn' h1 with ⟨_, e⟩ | ⟨cn, g1, g2, g3⟩
    · exact e
    · rcases g3 with g3 | g3
      · rw [g3]; exact h.nosock c cn g1 (by rw [← g2]; exact h2)
      · exact g3
  · intro c cn' r h1 h2
    rcases hc c cn' h1 with ⟨_, e⟩ | ⟨cn, g1, g2, g3⟩
    · rw [e] at h2; cases h2
    · rcases g3 with g3 | g3
      · exact Nat.lt_of_lt_of_le (h.bound c cn r g1 (by rw [← g3]; exact h2)) hl
      · rw [g3] at h2; cases h2
  · intro c cn' k r rs' h1 h2 h3 h4
    rcases hc c cn' h1 with ⟨e, _⟩ | ⟨cn, g1, g2, g3⟩
    · rw [e] at h2; cases h2
    · rcases g3 with g3 | g3
      · have hb := h.bound c cn r g1 (by rw [← g3]; exact h3)
        obtain ⟨rs, q1, q2, q3, q3', q4, q5⟩ := hr r rs' h4 hb
        obtain ⟨p1, p2, p3⟩ := h.pend c cn k r rs g1 (by rw [← g2]; exact h2) (by rw [← g3]; exact h3) q1
        refine ⟨q4 p1, by rw [q2, q3']; exact p2, fun hL => ?_⟩
        have p3' := p3 hL
        rw [q2, q3]
        split
        · rename_i hX; rw [if_pos hX] at p3'; exact p3'
        · rename_i hX; rw [if_neg hX] at p3'; exact ⟨fun hn => q5 (p3'.1 hn), p3'.2⟩
      · rw [g3] at h3; cases h3

/-- no connected, non-leased connection has `r` as its `__response` -/
def NoOwner (L : Option Nat) (s : State) (r : Nat) : Prop :=
  ∀ (c : Nat) (cn : Conn), s.conns[c]? = some cn → cn.pending = some r → cn.sock = none ∨ L = some c

theorem closeFp_fields2 (s : State) (r : Nat) :
    (closeFp s r).conns = s.conns ∧ (closeFp s r).resps.length = s.resps.length ∧
    (∀ i, i ≠ r → (closeFp s r).resps[i]? = s.resps[i]?) ∧
    (∀ rs : Resp, s.resps[r]? = some rs → ∃ rs' : Resp, (closeFp s r).resps[r]? = some rs' ∧ rs'.fp = none ∧
      rs'.length = rs.length ∧ rs'.conn = rs.conn ∧ rs'.eofAt = rs.eofAt ∧ (Delim rs → Delim rs') ∧ (Done rs → Done rs')) := by
  obtain ⟨e1, _, e3, e4, _⟩ := closeFp_fields s r
  refine ⟨e1, e3, e4, ?_⟩
  intro rs hrs
  unfold closeFp
  simp only [hrs]
  split
  · rename_i h1; exact ⟨rs, hrs, h1, rfl, rfl, rfl, id, id⟩
  · rw [(noteClose_fields _ _).2.1]
    exact ⟨{ rs with fp := none, buf := [] }, by simp [setResp, List.getElem?_modify, hrs], rfl, rfl, rfl, rfl, id, id⟩

theorem closeFp_linkx {L X : Option Nat} {s : State} {r : Nat} (h : LinkX L X s)
    (ok : X = some r ∨ ∀ rs : Resp, s.resps[r]? = some rs → rs.fp = none ∨ Done rs ∨ NoOwner L s r) :
    LinkX L X (closeFp s r) := by
  obtain ⟨e1, e2, e3, e4⟩ := closeFp_fields2 s r
  refine ⟨by rw [e1]; exact h.nosock, by rw [e1, e2]; exact h.bound, ?_⟩
  intro c cn k r' rs' h1 h2 h3 h4
  rw [e1] at h1
  by_cases hrr : r' = r
  · subst hrr
    have hb := h.bound c cn r' h1 h3
    have hrs : s.resps[r']? = some s.resps[r'] := List.getElem?_eq_getElem hb
    obtain ⟨rs'', g1, g2, g3, g4, g4', g5, g6⟩ := e4 _ hrs
    rw [g1] at h4; cases h4
    obtain ⟨q1, q2, q3⟩ := h.pend c cn k r' _ h1 h2 h3 hrs
    refine ⟨g5 q1, (by
      intro k' hk'
      rcases hk' with hk' | hk'
      · rw [g2] at hk'; cases hk'
      · exact q2 k' (Or.inr (by rw [← g4']; exact hk'))), ?_⟩
    intro hL
    have q3' := q3 hL
    by_cases hX : X = some r'
    · simp only [hX, if_true] at q3' ⊢
      rw [g4]; exact q3'
    · simp only [hX, if_false] at q3' ⊢
      refine ⟨fun _ => ?_, fun hne => absurd g2 hne⟩
      apply g6
      rcases ok with ok | ok
      · exact absurd ok hX
      · rcases ok _ hrs with o | o | o
        · exact q3'.1 o
        · exact o
        · rcases o c cn h1 h3 with o | o
          · rw [h2] at o; cases o
          · exact absurd o hL
  · rw [e3 r' hrr] at h4
    exact h.pend c cn k r' rs' h1 h2 h3 h4

theorem linkx_log {L X : Option Nat} {s s' : State} (h : LinkX L X s) (hc : s'.conns = s.conns) (hr : s'.resps = s.resps) :
    LinkX L X s' := by
  refine linkx_frame h ?_ (by rw [hr]; exact Nat.le_refl _) ?_
  · intro c cn' h1; rw [hc] at h1; exact Or.inr ⟨cn', h1, rfl, Or.inl rfl⟩
  · intro r rs' h1 _; rw [hr] at h1; exact ⟨rs', h1, rfl, rfl, rfl, id, id⟩

theorem connClose_linkx_gen {L X : Option Nat} {s : State} (c : Nat) (h : LinkX L X s)
    (si : SockInj s ∨ (L = none ∧ X = none)) :
    LinkX L X (connClose s c) := by
  unfold connClose
  split
  · exact h
  · rename_i cn hcn
    have h1 : LinkX L X (setConn s c fun x => { x with sock := none, http := .idle, pending := none, proxyConnected := false }) := by
      refine linkx_frame h ?_ (Nat.le_refl _) (fun r rs' h1 _ => ⟨rs', h1, rfl, rfl, rfl, id, id⟩)
      intro c' cn' h1
      simp only [setConn, List.getElem?_modify] at h1
      cases hx : s.conns[c']? with
      | none => simp [hx] at h1
      | some x =>
        simp [hx] at h1
        by_cases hcc : c = c'
        · simp [hcc] at h1; subst h1; exact Or.inl ⟨rfl, rfl⟩
        · simp [hcc] at h1; subst h1; exact Or.inr ⟨x, rfl, rfl, Or.inl rfl⟩
    generalize hs1 : (setConn s c fun x => { x with sock := none, http := .idle, pending := none, proxyConnected := false }) = s1 at h1
    have hc1 : ∀ c' (cn' : Conn), s1.conns[c']? = some cn' → (c' = c ∧ cn'.pending = none) ∨ (c' ≠ c ∧ s.conns[c']? = some cn') := by
      intro c' cn' h'
      rw [← hs1] at h'
      simp only [setConn, List.getElem?_modify] at h'
      cases hx : s.conns[c']? with
      | none => simp [hx] at h'
      | some x =>
        simp [hx] at h'
        by_cases hcc : c = c'
        · simp [hcc] at h'; subst h'; exact Or.inl ⟨hcc.symm, rfl⟩
        · simp [hcc] at h'; subst h'; exact Or.inr ⟨Ne.symm hcc, rfl⟩
    have hr1 : s1.resps = s.resps := by rw [← hs1]; rfl
    have h2 : ∀ t : State, t.conns = s1.conns → t.resps = s1.resps → LinkX L X t →
        LinkX L X (match cn.pending with | some r => closeFp t r | none => t) := by
      intro t tc tr ht
      cases hp : cn.pending with
      | none => exact ht
      | some r =>
        dsimp only
        refine closeFp_linkx ht (Or.inr ?_)
        intro rs hrs
        cases hfp : rs.fp with
        | none => exact Or.inl rfl
        | some k' =>
          right; right
          intro c2 cn2 g1 g2
          rw [tc] at g1
          rcases hc1 c2 cn2 g1 with ⟨_, e⟩ | ⟨hne, g1'⟩
          · rw [e] at g2; cases g2
          · cases hs2 : cn2.sock with
            | none => exact Or.inl rfl
            | some k2 =>
              exfalso
              rw [tr, hr1] at hrs
              have n2 := (h.pend c2 cn2 k2 r rs g1' hs2 g2 hrs).2.1 k' (Or.inl hfp)
              cases hsc : cn.sock with
              | none => have := h.nosock c cn hcn hsc; rw [hp] at this; cases this
              | some k =>
                have n1 := (h.pend c cn k r rs hcn hsc hp hrs).2.1 k' (Or.inl hfp)
                rcases si with si | ⟨rfl, rfl⟩
                · exact hne (si c2 c cn2 cn k' g1' hcn (by rw [hs2, n2]) (by rw [hsc, n1]))
                · have a1 := (h.pend c2 cn2 k2 r rs g1' hs2 g2 hrs).2.2 (by intro e; cases e)
                  have a2 := (h.pend c cn k r rs hcn hsc hp hrs).2.2 (by intro e; cases e)
                  simp only [reduceCtorEq, if_false] at a1 a2
                  have b1 := a1.2 (by rw [hfp]; simp)
                  have b2 := a2.2 (by rw [hfp]; simp)
                  rw [b1] at b2; cases b2; exact hne rfl
    cases hsock : cn.sock with
    | some k =>
      dsimp only
      exact h2 _ (noteClose_fields _ _).1 (noteClose_fields _ _).2.1 (linkx_log h1 (noteClose_fields _ _).1 (noteClose_fields _ _).2.1)
    | none =>
      dsimp only
      exact h2 _ rfl rfl h1

/-- a change to response `r` that keeps `fp`; `length` stays `some`; `conn` is kept unless `r` is closed
and not the focus -/
theorem setResp_linkx {L X : Option Nat} {s : State} (r : Nat) (g : Resp → Resp) (h : LinkX L X s)
    (hfp : ∀ x, (g x).fp = x.fp)
    (hdl : ∀ x, s.resps[r]? = some x → Delim x → Delim (g x))
    (hdn : ∀ x, s.resps[r]? = some x → (Done x → Done (g x)) ∨ x.fp ≠ none ∨ X = some r)
    (hconn : ∀ x, s.resps[r]? = some x → (g x).conn = x.conn ∨ (x.fp = none ∧ X ≠ some r))
    (heo : ∀ x, (g x).eofAt = x.eofAt := by intro x; rfl) :
    LinkX L X (setResp s r g) := by
  refine ⟨h.nosock, by simpa [setResp] using h.bound, ?_⟩
  intro c cn k r' rs' h1 h2 h3 h4
  have h1' : s.conns[c]? = some cn := h1
  simp only [setResp, List.getElem?_modify] at h4
  cases hx : s.resps[r']? with
  | none => simp [hx] at h4
  | some x =>
    simp [hx] at h4
    obtain ⟨q1, q2, q3⟩ := h.pend c cn k r' x h1' h2 h3 hx
    by_cases hrr : r = r'
    · subst hrr
      simp at h4; subst h4
      refine ⟨hdl x hx q1, by rw [hfp, heo]; exact q2, ?_⟩
      · intro hL
        have q3' := q3 hL
        by_cases hX : X = some r
        · simp only [hX, if_true] at q3' ⊢
          rcases hconn x hx with e | ⟨_, e⟩
          · rw [e]; exact q3'
          · exact absurd hX e
        · simp only [hX, if_false] at q3' ⊢
          rw [hfp]
          refine ⟨fun hn => ?_, fun hn => ?_⟩
          · rcases hdn x hx with e | e | e
            · exact e (q3'.1 hn)
            · exact absurd hn e
            · exact absurd e hX
          · rcases hconn x hx with e | ⟨e, _⟩
            · rw [e]; exact q3'.2 hn
            · exact absurd e hn
    · simp [hrr] at h4; subst h4
      exact ⟨q1, q2, q3⟩

/-- start reading an open response -/
theorem linkx_enter {L : Option Nat} {s : State} {r : Nat} (h : Link L s)
    (hopen : ∀ rs : Resp, s.resps[r]? = some rs → rs.fp ≠ none) : LinkX L (some r) s := by
  refine ⟨h.nosock, h.bound, ?_⟩
  intro c cn k r' rs h1 h2 h3 h4
  obtain ⟨q1, q2, q3⟩ := h.pend c cn k r' rs h1 h2 h3 h4
  refine ⟨q1, q2, fun hL => ?_⟩
  have q3' := q3 hL
  simp only [reduceCtorEq, if_false] at q3'
  by_cases hrr : r = r'
  · subst hrr; simp only [if_true]; exact q3'.2 (hopen rs h4)
  · have : ¬ (some r = some r') := by intro e; cases e; exact hrr rfl
    simp only [this, if_false]; exact q3'

/-- the read is over: the response is still open, or it was read to the end, or it owns no live
connection any more -/
theorem linkx_leave {L : Option Nat} {s : State} {r : Nat} (h : LinkX L (some r) s)
    (hok : ∀ rs : Resp, s.resps[r]? = some rs → rs.fp ≠ none ∨ Done rs ∨ NoOwner L s r) : Link L s := by
  refine ⟨h.nosock, h.bound, ?_⟩
  intro c cn k r' rs h1 h2 h3 h4
  obtain ⟨q1, q2, q3⟩ := h.pend c cn k r' rs h1 h2 h3 h4
  refine ⟨q1, q2, fun hL => ?_⟩
  have q3' := q3 hL
  simp only [reduceCtorEq, if_false]
  by_cases hrr : r = r'
  · subst hrr
    simp only [if_true] at q3'
    refine ⟨fun hn => ?_, fun _ => q3'⟩
    rcases hok rs h4 with o | o | o
    · exact absurd hn o
    · exact o
    · rcases o c cn h1 h3 with o | o
      · rw [h2] at o; cases o
      · exact absurd o hL
  · have : ¬ (some r = some r') := by intro e; cases e; exact hrr rfl
    simp only [this, if_false] at q3'; exact q3'

theorem connClose_linkx {L X : Option Nat} {s : State} (c : Nat) (h : LinkX L X s) (si : SockInj s) :
    LinkX L X (connClose s c) := connClose_linkx_gen c h (Or.inl si)

/-- putting a per-connection flag back (`getresponse` restores `_has_connected_to_proxy` after
`http.client`'s `close()`) is invisible to `Link` -/
theorem setConn_flag_linkx {L X : Option Nat} {s : State} (c : Nat) (b : Bool) (h : LinkX L X s) :
    LinkX L X (setConn s c fun x => { x with proxyConnected := b }) := by
  refine linkx_frame h ?_ (Nat.le_refl _) ?_
  · intro c' cn' h1
    right
    simp only [setConn, List.getElem?_modify] at h1
    cases hx : s.conns[c']? with
    | none => simp [hx] at h1
    | some x =>
      simp only [hx, Option.map_eq_map, Option.map_some, Option.some.injEq] at h1
      subst h1
      refine ⟨x, rfl, ?_, Or.inl ?_⟩ <;> (split <;> rfl)
  · intro r rs' h1 _; exact ⟨rs', h1, rfl, rfl, rfl, id, id⟩

theorem putConn_linkx {L X : Option Nat} {s : State} (x : Option Nat) (h : LinkX L X s) (si : SockInj s) :
    LinkX L X (putConn s x).1 := by
  have h0 : LinkX L X (logEv s (.put x)) := linkx_log h rfl rfl
  have si0 : SockInj (logEv s (.put x)) := sockInj_conns rfl si
  unfold putConn
  generalize logEv s (.put x) = t at h0 si0
  simp only
  split
  · split
    · exact linkx_log h0 rfl rfl
    · cases x with
      | none => split <;> exact h0
      | some i =>
        have h1 := connClose_linkx i h0 si0
        split
        · exact h1
        · exact connClose_linkx i h1 ((connClose_safe t i).sockInj si0)
  · cases x with
    | none => exact h0
    | some i => exact connClose_linkx i h0 si0

theorem releaseConn_linkx {L X : Option Nat} {s : State} {r : Nat} (h : LinkX L X s) (si : SockInj s)
    (hcl : respFpClosed s r = true) (hX : X ≠ some r) : LinkX L X (releaseConn s r).1 := by
  unfold releaseConn
  split
  · exact h
  · split
    · exact h
    · split
      · exact h
      · rename_i c _
        have h1 := putConn_linkx (some c) h si
        have hc1 := (putConn_safe s (some c)).closed hcl
        generalize putConn s (some c) = res at h1 hc1
        obtain ⟨s1, o⟩ := res
        cases o with
        | some e => exact h1
        | none =>
          dsimp only at h1 hc1 ⊢
          rw [respFpClosed_iff] at hc1
          exact setResp_linkx r _ h1 (fun _ => rfl) (fun _ _ d => d) (fun _ _ => Or.inl id) (fun x hx => Or.inr ⟨hc1 x hx, hX⟩)

theorem closeFp_resps (s : State) (r i : Nat) (rs' : Resp) (h : (closeFp s r).resps[i]? = some rs') :
    ∃ rs : Resp, s.resps[i]? = some rs ∧ rs'.conn = rs.conn ∧ rs'.length = rs.length ∧ (rs'.fp = rs.fp ∨ rs'.fp = none) := by
  obtain ⟨_, e2, e3, e4⟩ := closeFp_fields2 s r
  by_cases hir : i = r
  · subst hir
    have hb : i < s.resps.length := by
      rcases Nat.lt_or_ge i (closeFp s i).resps.length with h' | h'
      · rw [← e2]; exact h'
      · rw [List.getElem?_eq_none h'] at h; cases h
    have hrs : s.resps[i]? = some s.resps[i] := List.getElem?_eq_getElem hb
    obtain ⟨rs'', g1, g2, g3, g4, _⟩ := e4 _ hrs
    rw [g1] at h; cases h
    exact ⟨_, hrs, g4, g3, Or.inr g2⟩
  · rw [e3 i hir] at h; exact ⟨rs', h, rfl, rfl, Or.inl rfl⟩

theorem connClose_resps (s : State) (c i : Nat) (rs' : Resp) (h : (connClose s c).resps[i]? = some rs') :
    ∃ rs : Resp, s.resps[i]? = some rs ∧ rs'.conn = rs.conn ∧ rs'.length = rs.length ∧ (rs'.fp = rs.fp ∨ rs'.fp = none) := by
  unfold connClose at h
  split at h
  · exact ⟨rs', h, rfl, rfl, Or.inl rfl⟩
  · split at h <;> split at h
    · obtain ⟨rs, g1, g2⟩ := closeFp_resps _ _ _ _ h
      rw [(noteClose_fields _ _).2.1] at g1
      exact ⟨rs, g1, g2⟩
    · rw [(noteClose_fields _ _).2.1] at h
      exact ⟨rs', h, rfl, rfl, Or.inl rfl⟩
    · obtain ⟨rs, g1, g2⟩ := closeFp_resps _ _ _ _ h
      exact ⟨rs, g1, g2⟩
    · exact ⟨rs', h, rfl, rfl, Or.inl rfl⟩

/-- `response.close()` / the unclean exit of `_error_catcher`, while the read on `r` is in progress -/
theorem respClose_exempt {L : Option Nat} {s : State} {r : Nat} (h : LinkX L (some r) s) (si : SockInj s) :
    Link L (respClose s r) := by
  have ht : LinkX L (some r) (closeFp s r) := closeFp_linkx h (Or.inl rfl)
  have sit : SockInj (closeFp s r) := sockInj_conns (closeFp_fields2 s r).1 si
  unfold respClose
  dsimp only
  generalize closeFp s r = t at ht sit
  split
  · rename_i hn
    exact linkx_leave ht (fun rs hrs => by rw [hn] at hrs; cases hrs)
  · rename_i rs hrs
    split
    · rename_i c hc
      refine linkx_leave (connClose_linkx c ht sit) ?_
      intro rs' hrs'
      right; right
      intro c2 cn2 g1 g2
      cases hs2 : cn2.sock with
      | none => exact Or.inl rfl
      | some k2 =>
        right
        apply Classical.byContradiction
        intro hL
        have := ((connClose_linkx c ht sit).pend c2 cn2 k2 r rs' g1 hs2 g2 hrs').2.2 hL
        simp only [if_true] at this
        obtain ⟨rs0, q1, q2, _⟩ := connClose_resps t c r rs' hrs'
        rw [hrs] at q1; cases q1
        rw [q2, hc] at this; cases this
        rw [connClose_sock_none _ _ _ g1] at hs2; cases hs2
    · rename_i hc
      refine linkx_leave ht ?_
      intro rs' hrs'
      rw [hrs] at hrs'; cases hrs'
      right; right
      intro c2 cn2 g1 g2
      cases hs2 : cn2.sock with
      | none => exact Or.inl rfl
      | some k2 =>
        right
        apply Classical.byContradiction
        intro hL
        have := (ht.pend c2 cn2 k2 r rs g1 hs2 g2 hrs).2.2 hL
        simp only [if_true] at this
        rw [hc] at this; cases this

theorem respClose_link {L : Option Nat} {s : State} {r : Nat} (h : Link L s) (si : SockInj s) : Link L (respClose s r) := by
  by_cases hopen : ∀ rs : Resp, s.resps[r]? = some rs → rs.fp ≠ none
  · exact respClose_exempt (linkx_enter h hopen) si
  · -- already closed: `closeFp` changes nothing relevant, `conn.close()` is always fine
    have hcl : ∀ rs : Resp, s.resps[r]? = some rs → rs.fp = none ∨ Done rs ∨ NoOwner L s r := by
      intro rs hrs
      cases hfp : rs.fp with
      | none => exact Or.inl rfl
      | some k =>
        exfalso; apply hopen
        intro rs2 hrs2; rw [hrs] at hrs2; cases hrs2; rw [hfp]; simp
    have ht : Link L (closeFp s r) := closeFp_linkx h (Or.inr hcl)
    have sit : SockInj (closeFp s r) := sockInj_conns (closeFp_fields2 s r).1 si
    unfold respClose
    dsimp only
    generalize closeFp s r = t at ht sit
    split
    · exact ht
    · split
      · exact connClose_linkx _ ht sit
      · exact ht

theorem ece_tail_link {L : Option Nat} {t : State} {r : Nat} (h : Link L t) (si : SockInj t) :
    Link L (if respFpClosed t r then releaseConn t r else (t, none)).1 := by
  by_cases hc : respFpClosed t r = true
  · rw [if_pos hc]; exact releaseConn_linkx h si hc (by intro e; cases e)
  · rw [if_neg hc]; exact h

theorem ece_false_exempt {L : Option Nat} {s : State} {r : Nat} (h : LinkX L (some r) s) (si : SockInj s) :
    Link L (errorCatcherExit s r false).1 := by
  have e : (errorCatcherExit s r false) =
      (if respFpClosed (respClose s r) r then releaseConn (respClose s r) r else (respClose s r, none)) := rfl
  rw [e]
  exact ece_tail_link (respClose_exempt h si) ((respClose_safe s r).sockInj si)

theorem ece_false_link {L : Option Nat} {s : State} {r : Nat} (h : Link L s) (si : SockInj s) :
    Link L (errorCatcherExit s r false).1 := by
  have e : (errorCatcherExit s r false) =
      (if respFpClosed (respClose s r) r then releaseConn (respClose s r) r else (respClose s r, none)) := rfl
  rw [e]
  exact ece_tail_link (respClose_link h si) ((respClose_safe s r).sockInj si)

theorem ece_true_exempt {L : Option Nat} {s : State} {r : Nat} (h : LinkX L (some r) s) (si : SockInj s)
    (hok : ∀ rs : Resp, s.resps[r]? = some rs → rs.fp ≠ none ∨ Done rs ∨ NoOwner L s r) :
    Link L (errorCatcherExit s r true).1 := by
  have e : (errorCatcherExit s r true) = (if respFpClosed s r then releaseConn s r else (s, none)) := rfl
  rw [e]
  exact ece_tail_link (linkx_leave h hok) si

theorem ece_true_link {L : Option Nat} {s : State} {r : Nat} (h : Link L s) (si : SockInj s) :
    Link L (errorCatcherExit s r true).1 := by
  have e : (errorCatcherExit s r true) = (if respFpClosed s r then releaseConn s r else (s, none)) := rfl
  rw [e]
  exact ece_tail_link h si

/-! ### reading -/

theorem readRel_linkx {L X : Option Nat} {s s' : State} {r k : Nat} {m : List Cell} (h : LinkX L X s) (rel : ReadRel r k s s' m) :
    LinkX L X s' := by
  refine linkx_frame h ?_ (by rw [rel.rlen]; exact Nat.le_refl _) ?_
  · intro c cn' h1; rw [rel.conns] at h1; exact Or.inr ⟨cn', h1, rfl, Or.inl rfl⟩
  · intro i rs' h1 hb
    by_cases hir : i = r
    · subst hir
      have hrs : s.resps[i]? = some s.resps[i] := List.getElem?_eq_getElem hb
      obtain ⟨b, hb'⟩ := rel.rsame _ hrs
      rw [hb'] at h1; cases h1
      exact ⟨_, hrs, rfl, rfl, rfl, id, id⟩
    · rw [rel.rother i hir] at h1; exact ⟨rs', h1, rfl, rfl, rfl, id, id⟩

theorem done_plain {rs : Resp} (hc : rs.chunked = false) : Done rs ↔ rs.length = some 0 := by
  unfold Done; simp [hc]

theorem done_head {rs : Resp} (hc : rs.isHead = true) : Done rs ↔ rs.length = some 0 := by
  unfold Done; simp [hc]

theorem done_chunked {rs : Resp} (hc : rs.chunked = true) (hh : rs.isHead = false) :
    Done rs ↔ (rs.eom = true ∨ rs.eofAt.isSome = true) := by
  unfold Done; simp [hc, hh]

theorem delim_plain {rs : Resp} (hc : rs.chunked = false) : Delim rs ↔ rs.length.isSome = true := by
  unfold Delim; simp [hc]

/-- whatever the focused reader (open on socket `k`) does to its own buffers and parser state -/
theorem dirty_linkx {L : Option Nat} {s s' : State} {r k : Nat} (h : LinkX L (some r) s) (d : Dirty r k s s')
    (hfp : ∀ rs : Resp, s.resps[r]? = some rs → rs.fp = some k) :
    LinkX L (some r) s' := by
  refine ⟨by rw [d.conns]; exact h.nosock, by rw [d.conns, d.rlen]; exact h.bound, ?_⟩
  intro c cn k' r' rs' h1 h2 h3 h4
  rw [d.conns] at h1
  by_cases hrr : r' = r
  · subst hrr
    have hb := h.bound c cn r' h1 h3
    have hrs : s.resps[r']? = some s.resps[r'] := List.getElem?_eq_getElem hb
    obtain ⟨rs1, g1, _, _, _, a4, _, a6, a7, a8, _, a10⟩ := d.rsame _ hrs
    rw [g1] at h4; cases h4
    obtain ⟨q1, q2, q3⟩ := h.pend c cn k' r' _ h1 h2 h3 hrs
    refine ⟨?_, ?_, fun hL => ?_⟩
    · unfold Delim at q1 ⊢; rw [a6, a7]; exact q1
    · intro k2 hk2
      rcases hk2 with hk2 | hk2
      · rcases a4 with a4 | a4
        · exact q2 k2 (Or.inl (by rw [← a4]; exact hk2))
        · rw [a4] at hk2; cases hk2
      · rcases a10 k2 hk2 with g | ⟨g, _⟩
        · exact q2 k2 (Or.inr g)
        · subst g; exact q2 k2 (Or.inl (hfp _ hrs))
    · have := q3 hL
      simp only [if_true] at this ⊢
      rw [a8]; exact this
  · rw [d.rother r' hrr] at h4
    obtain ⟨q1, q2, q3⟩ := h.pend c cn k' r' rs' h1 h2 h3 h4
    exact ⟨q1, q2, q3⟩

/-- a `HEAD` response has nothing to read -/
theorem head_len0 {A : Nat → Attempt → Prop} {f : Focus} {s : State} {r k : Nat} {rs : Resp} (p : ProvF A s f)
    (hrs : s.resps[r]? = some rs) (hk : rs.fp = some k) (hh : rs.isHead = true) : rs.length = some 0 := by
  rcases p.resp r rs hrs with ⟨e, _⟩ | ⟨a, hd, fr⟩
  · rw [hk] at e; cases e
  · obtain ⟨sk, _, _, _, _, q⟩ := fr.opn k hk
    obtain ⟨l, e1, e2⟩ := q 0 (by simp [lenBound, initLength, noBody, hh])
    rw [e1]; congr; omega

/-- what `http.client`'s `read` leaves behind when it returns data: the reader is still open, or the
declared length has been consumed, or the response is not length-delimited, or nothing at all came
(`amt` bytes were asked for) -/
def HRPost (r : Nat) (amt : Option Nat) (s1 : State) (out : DataOut) : Prop :=
  ∀ d, out = .data d → ∀ rs1 : Resp, s1.resps[r]? = some rs1 →
    (rs1.fp ≠ none ∧ (rs1.chunked = true → ∀ n, amt = some n → n ≠ 0 → d ≠ [])) ∨ Done rs1 ∨ ¬ Delim rs1 ∨
      (∃ n, amt = some n ∧ n ≠ 0 ∧ d = [] ∧ rs1.chunked = false)

theorem closeFp_at (s : State) (r : Nat) (rs : Resp) (hrs : s.resps[r]? = some rs) :
    ∀ rs1 : Resp, (closeFp s r).resps[r]? = some rs1 → rs1.length = rs.length ∧ rs1.chunked = rs.chunked ∧
      rs1.isHead = rs.isHead ∧ rs1.eom = rs.eom ∧ rs1.eofAt = rs.eofAt := by
  intro rs1 h1
  unfold closeFp at h1
  simp only [hrs] at h1
  split at h1
  · rw [hrs] at h1; cases h1; exact ⟨rfl, rfl, rfl, rfl, rfl⟩
  · rw [(noteClose_fields _ _).2.1] at h1
    simp [setResp, List.getElem?_modify, hrs] at h1
    subst h1; exact ⟨rfl, rfl, rfl, rfl, rfl⟩

theorem closeFp_done (s : State) (r : Nat) (rs : Resp) (hrs : s.resps[r]? = some rs) :
    ∀ rs1 : Resp, (closeFp s r).resps[r]? = some rs1 → (Done rs1 ↔ Done rs) ∧ (Delim rs1 ↔ Delim rs) := by
  intro rs1 h1
  obtain ⟨a1, a2, a3, a4, a5⟩ := closeFp_at s r rs hrs rs1 h1
  unfold Done Delim
  rw [a1, a2, a3, a4, a5]
  exact ⟨Iff.rfl, Iff.rfl⟩

/-! ### the chunk parsers: when they say the body is over, they have seen the end of the message (or EOF) -/

theorem setResp_at {s : State} {r : Nat} {rs : Resp} (g : Resp → Resp) (h : s.resps[r]? = some rs) :
    (setResp s r g).resps[r]? = some (g rs) := by
  simp [setResp, List.getElem?_modify, h]

theorem setResp_at_none {s : State} {r : Nat} (g : Resp → Resp) (h : s.resps[r]? = none) :
    (setResp s r g).resps[r]? = none := by
  simp [setResp, List.getElem?_modify, h]

theorem hcDiscardTrailer_post (r k : Nat) : ∀ (fuel : Nat) (s s' : State), hcDiscardTrailer fuel s r k = (s', none) →
    ∀ rs' : Resp, s'.resps[r]? = some rs' → rs'.eom = true ∨ rs'.eofAt = some k := by
  intro fuel
  induction fuel with
  | zero => intro s s' h; simp [hcDiscardTrailer] at h
  | succ fuel ih =>
    intro s s' h rs' hrs'
    unfold hcDiscardTrailer at h
    generalize fpReadline (inboundLen s k + 2) s r k [] = res at h
    obtain ⟨s1, o⟩ := res
    cases o with
    | exc e => cases h
    | data line =>
      dsimp only at h
      split at h
      · cases h
        cases hx : s1.resps[r]? with
        | none => rw [setResp_at_none _ hx] at hrs'; cases hrs'
        | some x => rw [setResp_at _ hx] at hrs'; cases hrs'; exact Or.inr rfl
      · split at h
        · cases h
          cases hx : s1.resps[r]? with
          | none => rw [setResp_at_none _ hx] at hrs'; cases hrs'
          | some x => rw [setResp_at _ hx] at hrs'; cases hrs'; exact Or.inl rfl
        · exact ih s1 s' h rs' hrs'

theorem skipTrailers_post (r k : Nat) : ∀ (fuel : Nat) (s s' : State), skipTrailers fuel s r k = (s', none) →
    ∀ rs' : Resp, s'.resps[r]? = some rs' → rs'.eom = true ∨ rs'.eofAt = some k := by
  intro fuel
  induction fuel with
  | zero => intro s s' h; simp [skipTrailers] at h
  | succ fuel ih =>
    intro s s' h rs' hrs'
    unfold skipTrailers at h
    generalize fpReadline (inboundLen s k + 2) s r k [] = res at h
    obtain ⟨s1, o⟩ := res
    cases o with
    | exc e => cases h
    | data line =>
      dsimp only at h
      split at h
      · cases h
        cases hx : s1.resps[r]? with
        | none => rw [setResp_at_none _ hx] at hrs'; cases hrs'
        | some x => rw [setResp_at _ hx] at hrs'; cases hrs'; exact Or.inr rfl
      · split at h
        · cases h
          cases hx : s1.resps[r]? with
          | none => rw [setResp_at_none _ hx] at hrs'; cases hrs'
          | some x => rw [setResp_at _ hx] at hrs'; cases hrs'; exact Or.inl rfl
        · exact ih s1 s' h rs' hrs'

theorem hcNext_post {s s' : State} {r k : Nat} {cl v : Option Nat} (h : hcNext s r k cl = (s', .left v)) :
    (v = none → ∀ rs' : Resp, s'.resps[r]? = some rs' → rs'.fp = none ∧ (rs'.eom = true ∨ rs'.eofAt = some k)) ∧
    (∀ n, v = some n → 0 < n ∧ ∃ m, ReadRelP r k s s' m) := by
  unfold hcNext at h
  generalize hto : hcToss s r k cl = res at h
  obtain ⟨s1, oe⟩ := res
  obtain ⟨m0, rel0, _⟩ := hcToss_rel hto
  cases oe with
  | some e => cases h
  | none =>
    dsimp only at h
    generalize hfr : fpReadline (inboundLen s1 k + 2) s1 r k [] = res at h
    obtain ⟨s2, o⟩ := res
    obtain ⟨m1, rel1, _⟩ := fpReadline_rel _ _ _ _ _ _ _ hfr
    cases o with
    | exc e => cases h
    | data line =>
      dsimp only at h
      split at h
      · cases h
      · generalize hdt : hcDiscardTrailer _ s2 r k = res at h
        obtain ⟨s3, oe⟩ := res
        cases oe with
        | some e => cases h
        | none =>
          cases h
          refine ⟨fun _ rs' hrs' => ?_, by intro n hn; cases hn⟩
          have hcl := closeFp_closed (setResp s3 r fun x => { x with hcLeft := none }) r
          rw [respFpClosed_iff] at hcl
          refine ⟨hcl rs' hrs', ?_⟩
          cases hx : s3.resps[r]? with
          | none =>
            have : (closeFp (setResp s3 r fun x => { x with hcLeft := none }) r).resps[r]? = none := by
              unfold closeFp; rw [setResp_at_none _ hx]
              exact setResp_at_none _ hx
            rw [this] at hrs'; cases hrs'
          | some x =>
            obtain ⟨_, _, _, a4, a5⟩ := closeFp_at _ r _ (setResp_at (fun x => { x with hcLeft := none }) hx) rs' hrs'
            rw [a4, a5]
            exact hcDiscardTrailer_post r k _ s2 s3 hdt x hx
      · cases h
        refine ⟨(by intro hv; cases hv), fun n hn => ⟨by cases hn; omega, m0 ++ m1 ++ [], ?_⟩⟩
        exact (rel0.trans rel1).toP.trans (setParse_relP r k s2 _ (fun x => ⟨rfl, rfl, rfl, rfl, rfl, rfl, rfl, rfl, rfl, rfl⟩))

theorem hcGetChunkLeft_post {s s' : State} {r k : Nat} {v : Option Nat} (h : hcGetChunkLeft s r k = (s', .left v)) :
    (v = none → ∀ rs' : Resp, s'.resps[r]? = some rs' → rs'.fp = none ∧ (rs'.eom = true ∨ rs'.eofAt = some k)) ∧
    (∀ n, v = some n → 0 < n ∧ ∃ m, ReadRelP r k s s' m) := by
  unfold hcGetChunkLeft at h
  split at h
  · cases h
    exact ⟨(by intro hv; cases hv), fun n hn => ⟨by cases hn; omega, [], ReadRelP.refl _ _ _⟩⟩
  · exact hcNext_post h

theorem open_of_relP {s s' : State} {r k : Nat} {m : List Cell} (rel : ReadRelP r k s s' m)
    (ho : ∀ rs : Resp, s.resps[r]? = some rs → rs.fp ≠ none) : ∀ rs' : Resp, s'.resps[r]? = some rs' → rs'.fp ≠ none := by
  intro rs' hrs'
  have hb : r < s.resps.length := by
    rw [← rel.rlen]
    rcases Nat.lt_or_ge r s'.resps.length with h' | h'
    · exact h'
    · rw [List.getElem?_eq_none h'] at hrs'; cases hrs'
  obtain ⟨rx, hx, _, _, _, a4, _⟩ := rel.rsame _ (List.getElem?_eq_getElem hb)
  rw [hrs'] at hx; cases hx
  rw [a4]; exact ho _ (List.getElem?_eq_getElem hb)

theorem hcReadChunked_post (r k : Nat) : ∀ (fuel : Nat) (s s1 : State) (amt : Option Nat) (acc d : List Cell),
    hcReadChunked fuel s r k amt acc = (s1, .data d) → (∀ rs : Resp, s.resps[r]? = some rs → rs.fp ≠ none) →
    ∀ rs1 : Resp, s1.resps[r]? = some rs1 →
      (rs1.fp ≠ none ∧ ((acc ≠ [] ∨ ∀ n, amt = some n → n ≠ 0) → d ≠ [])) ∨ (rs1.eom = true ∨ rs1.eofAt = some k) := by
  intro fuel
  induction fuel with
  | zero => intro s s1 amt acc d h; simp [hcReadChunked] at h
  | succ fuel ih =>
    intro s s1 amt acc d h ho rs1 hrs1
    unfold hcReadChunked at h
    generalize hg : hcGetChunkLeft s r k = res at h
    obtain ⟨s2, lo⟩ := res
    cases lo with
    | exc e => cases h
    | left v =>
      obtain ⟨pn, ps⟩ := hcGetChunkLeft_post hg
      cases v with
      | none => cases h; exact Or.inr (pn rfl rs1 hrs1).2
      | some cl =>
        obtain ⟨hcl, m, rel⟩ := ps cl rfl
        have ho2 := open_of_relP rel ho
        dsimp only at h
        split at h
        · rename_i n hshort
          have hamt : amt = some n := by
            cases amt with
            | none => cases hshort
            | some n' =>
              dsimp only at hshort
              split at hshort
              · cases hshort; rfl
              · cases hshort
          generalize hsr : safeRead s2 r k n = res at h
          obtain ⟨s3, o⟩ := res
          obtain ⟨m3, rel3, hd3⟩ := safeRead_rel hsr
          cases o with
          | exc e => cases h
          | data d0 =>
            cases h
            obtain ⟨e0, hl0⟩ := hd3 d0 rfl
            have rel4 := rel3.toP.trans (setParse_relP r k s3 (fun x => { x with hcLeft := some (cl - n) })
              (fun x => ⟨rfl, rfl, rfl, rfl, rfl, rfl, rfl, rfl, rfl, rfl⟩))
            refine Or.inl ⟨open_of_relP rel4 ho2 rs1 hrs1, ?_⟩
            intro hne
            rcases hne with hne | hne
            · intro e; apply hne; simpa using (List.append_eq_nil_iff.mp e).1
            · have := hne n hamt
              intro e
              have : d0 = [] := (List.append_eq_nil_iff.mp e).2
              rw [this] at e0; rw [← e0] at hl0; simp at hl0; omega
        · generalize hsr : safeRead s2 r k cl = res at h
          obtain ⟨s3, o⟩ := res
          obtain ⟨m3, rel3, hd3⟩ := safeRead_rel hsr
          cases o with
          | exc e => cases h
          | data d0 =>
            dsimp only at h
            obtain ⟨e0, hl0⟩ := hd3 d0 rfl
            have rel4 := rel3.toP.trans (setParse_relP r k s3 (fun x => { x with hcLeft := some 0 })
              (fun x => ⟨rfl, rfl, rfl, rfl, rfl, rfl, rfl, rfl, rfl, rfl⟩))
            rcases ih _ s1 _ _ d h (open_of_relP rel4 ho2) rs1 hrs1 with ⟨g1, g2⟩ | g
            · refine Or.inl ⟨g1, fun _ => g2 (Or.inl ?_)⟩
              intro e
              have : d0 = [] := (List.append_eq_nil_iff.mp e).2
              rw [this] at e0; rw [← e0] at hl0; simp at hl0; omega
            · exact Or.inr g

theorem hr_len0 {rs1 : Resp} (hc : rs1.chunked = false) (hl : rs1.length = some 0) : Done rs1 := (done_plain hc).mpr hl

theorem hr_lennone {rs1 : Resp} (hc : rs1.chunked = false) (hl : rs1.length = none) : ¬ Delim rs1 := by
  rw [delim_plain hc, hl]; simp

theorem httpRead_link {A : Nat → Attempt → Prop} {f : Focus} {L : Option Nat} {s s1 : State} {r k : Nat} {rs : Resp}
    {amt : Option Nat} {out : DataOut}
    (p : ProvF A s f) (h : LinkX L (some r) s) (hrs : s.resps[r]? = some rs) (hk : rs.fp = some k)
    (hh : httpRead s r amt = (s1, out)) :
    LinkX L (some r) s1 ∧ s1.conns = s.conns ∧ HRPost r amt s1 out := by
  -- closing the reader of the focus is always allowed
  have cl : ∀ t : State, LinkX L (some r) t → t.conns = s.conns →
      LinkX L (some r) (closeFp t r) ∧ (closeFp t r).conns = s.conns :=
    fun t ht hc => ⟨closeFp_linkx ht (Or.inl rfl), by rw [(closeFp_fields2 t r).1, hc]⟩
  have setl : ∀ (t : State) (l' : Nat), LinkX L (some r) t →
      LinkX L (some r) (setResp t r fun x => { x with length := some l' }) :=
    fun t l' ht => setResp_linkx r _ ht (fun _ => rfl) (fun x _ _ => Or.inl rfl) (fun _ _ => Or.inr (Or.inr rfl)) (fun _ _ => Or.inl rfl)
  unfold httpRead at hh
  simp only [hrs, hk] at hh
  split at hh
  · rename_i hhead
    cases hh
    obtain ⟨g1, g2⟩ := cl s h rfl
    refine ⟨g1, g2, ?_⟩
    intro d _ rs1 h1
    right; left
    obtain ⟨a1, _, a3, _⟩ := closeFp_at s r rs hrs rs1 h1
    rw [done_head (by rw [a3]; exact hhead), a1]; exact head_len0 p hrs hk hhead
  · rename_i hhead
    split at hh
    · -- `Transfer-Encoding: chunked`
      rename_i hch
      have dd := hcReadChunked_dirty r k (inboundLen s k + rs.buf.length + 2) s amt []
      rw [hh] at dd
      refine ⟨dirty_linkx h dd (fun rs' h' => by rw [hrs] at h'; cases h'; exact hk), dd.conns, ?_⟩
      intro d hd rs1 h1
      cases hd
      obtain ⟨rx, hx, _, _, a3, _, _, a6, _⟩ := dd.rsame rs hrs
      rw [h1] at hx; cases hx
      rcases hcReadChunked_post r k _ s s1 amt [] d hh (fun rs' h' => by rw [hrs] at h'; cases h'; rw [hk]; simp) rs1 h1 with ⟨o1, o2⟩ | o
      · exact Or.inl ⟨o1, fun _ n hn hn0 => o2 (Or.inr (fun n' hn' => by rw [hn] at hn'; cases hn'; exact hn0))⟩
      · right; left
        rw [done_chunked (by rw [a6]; exact hch) (by rw [a3]; simpa using hhead)]
        exact o.imp id (fun e => by rw [e]; rfl)
    rename_i hch
    have hch : rs.chunked = false := by simpa using hch
    generalize inboundLen s k + 2 = fuel at hh
    cases amt with
    | some n =>
      simp only at hh
      cases hlen0 : rs.length with
      | none =>
        simp only [hlen0] at hh
        generalize hfr : fpRead fuel s r k n [] = res at hh
        obtain ⟨t, o⟩ := res
        obtain ⟨m, rel, hlen, hd⟩ := fpRead_rel _ _ _ _ _ _ _ _ hfr
        have ht := readRel_linkx h rel
        obtain ⟨b, hrt⟩ := rel.rsame rs hrs
        cases o with
        | exc e => cases hh; exact ⟨ht, rel.conns, by intro d hd; cases hd⟩
        | data d =>
          simp only at hh
          split at hh
          · cases hh
            obtain ⟨g1, g2⟩ := cl t ht rel.conns
            refine ⟨g1, g2, ?_⟩
            intro d' _ rs1 h1
            right; right; left
            obtain ⟨a1, a2, _⟩ := closeFp_at t r _ hrt rs1 h1
            exact hr_lennone (by rw [a2]; exact hch) (by rw [a1]; exact hlen0)
          · cases hh
            refine ⟨ht, rel.conns, ?_⟩
            intro d' _ rs1 h1
            rw [hrt] at h1; cases h1
            right; right; left
            exact hr_lennone hch hlen0
      | some l =>
        simp only [hlen0] at hh
        generalize hn' : (if n > l then l else n) = n' at hh
        generalize hfr : fpRead fuel s r k n' [] = res at hh
        obtain ⟨t, o⟩ := res
        obtain ⟨m, rel, hlen, hd⟩ := fpRead_rel _ _ _ _ _ _ _ _ hfr
        have ht := readRel_linkx h rel
        obtain ⟨b, hrt⟩ := rel.rsame rs hrs
        cases o with
        | exc e => cases hh; exact ⟨ht, rel.conns, by intro d hd; cases hd⟩
        | data d =>
          simp only at hh
          split at hh
          · rename_i hcond
            cases hh
            obtain ⟨g1, g2⟩ := cl t ht rel.conns
            refine ⟨g1, g2, ?_⟩
            intro d' hd' rs1 h1
            cases hd'
            right; right; right
            simp at hcond
            obtain ⟨_, a2, _⟩ := closeFp_at t r _ hrt rs1 h1
            refine ⟨n, rfl, ?_, hcond.1, by rw [a2]; exact hch⟩
            intro hn0; subst hn0
            have : n' = 0 := by split at hn' <;> omega
            exact hcond.2 this
          · have hs2 := setl t (l - d.length) ht
            have hr2 : (setResp t r fun x => { x with length := some (l - d.length) }).resps[r]? =
                some { rs with buf := b, length := some (l - d.length) } := by
              simp [setResp, List.getElem?_modify, hrt]
            split at hh
            · rename_i hz
              cases hh
              obtain ⟨g1, g2⟩ := cl _ hs2 rel.conns
              refine ⟨g1, g2, ?_⟩
              intro d' _ rs1 h1
              right; left
              obtain ⟨a1, a2, _⟩ := closeFp_at _ r _ hr2 rs1 h1
              exact hr_len0 (by rw [a2]; exact hch) (by rw [a1]; simp [hz])
            · cases hh
              refine ⟨hs2, rel.conns, ?_⟩
              intro d' _ rs1 h1
              rw [hr2] at h1; cases h1
              left
              refine ⟨?_, fun hc => by rw [show ({ rs with buf := b, length := some (l - d.length) } : Resp).chunked = rs.chunked from rfl, hch] at hc; cases hc⟩
              show rs.fp ≠ none
              rw [hk]; simp
    | none =>
      simp only at hh
      cases hlen0 : rs.length with
      | none =>
        simp only [hlen0] at hh
        generalize hfr : fpReadAll fuel s r k [] = res at hh
        obtain ⟨t, o⟩ := res
        obtain ⟨m, rel, hd⟩ := fpReadAll_rel _ _ _ _ _ _ _ hfr
        have ht := readRel_linkx h rel
        obtain ⟨b, hrt⟩ := rel.rsame rs hrs
        cases o with
        | exc e => cases hh; exact ⟨ht, rel.conns, by intro d hd; cases hd⟩
        | data d =>
          cases hh
          obtain ⟨g1, g2⟩ := cl t ht rel.conns
          refine ⟨g1, g2, ?_⟩
          intro d' _ rs1 h1
          right; right; left
          obtain ⟨a1, a2, _⟩ := closeFp_at t r _ hrt rs1 h1
          exact hr_lennone (by rw [a2]; exact hch) (by rw [a1]; exact hlen0)
      | some l =>
        simp only [hlen0] at hh
        generalize hfr : fpRead fuel s r k l [] = res at hh
        obtain ⟨t, o⟩ := res
        obtain ⟨m, rel, hlen, hd⟩ := fpRead_rel _ _ _ _ _ _ _ _ hfr
        have ht := readRel_linkx h rel
        obtain ⟨b, hrt⟩ := rel.rsame rs hrs
        cases o with
        | exc e => cases hh; exact ⟨ht, rel.conns, by intro d hd; cases hd⟩
        | data d =>
          simp only at hh
          split at hh
          · cases hh
            obtain ⟨g1, g2⟩ := cl t ht rel.conns
            exact ⟨g1, g2, by intro d hd; cases hd⟩
          · have hs2 := setl t 0 ht
            have hr2 : (setResp t r fun x => { x with length := some 0 }).resps[r]? = some { rs with buf := b, length := some 0 } := by
              simp [setResp, List.getElem?_modify, hrt]
            cases hh
            obtain ⟨g1, g2⟩ := cl _ hs2 rel.conns
            refine ⟨g1, g2, ?_⟩
            intro d' _ rs1 h1
            right; left
            obtain ⟨a1, a2, _⟩ := closeFp_at _ r _ hr2 rs1 h1
            exact hr_len0 (by rw [a2]; exact hch) (by rw [a1])

theorem httpRead_closed {s : State} {r : Nat} (amt : Option Nat) (hc : respFpClosed s r = true) :
    httpRead s r amt = (s, .data []) := by
  unfold httpRead
  cases hrs : s.resps[r]? with
  | none => rfl
  | some rs =>
    rw [respFpClosed_iff] at hc
    simp [hc rs hrs]

theorem noOwner_of_lennone {L X : Option Nat} {s : State} {r : Nat} {rs : Resp} (h : LinkX L X s)
    (hrs : s.resps[r]? = some rs) (hl : ¬ Delim rs) : NoOwner L s r := by
  intro c cn h1 h2
  cases hs : cn.sock with
  | none => exact Or.inl rfl
  | some k => exact absurd (h.pend c cn k r rs h1 hs h2 hrs).1 hl

/-- closing readers and connections, queue traffic: the framing facts of every response stay -/
def RQ (s s' : State) : Prop :=
  ∀ (i : Nat) (rs : Resp), s.resps[i]? = some rs → ∃ rs' : Resp, s'.resps[i]? = some rs' ∧ rs'.length = rs.length ∧
    rs'.chunked = rs.chunked ∧ rs'.isHead = rs.isHead ∧ rs'.eom = rs.eom ∧ rs'.eofAt = rs.eofAt

theorem RQ.refl (s : State) : RQ s s := fun i rs h => ⟨rs, h, rfl, rfl, rfl, rfl, rfl⟩

theorem RQ.trans {s t u : State} (a : RQ s t) (b : RQ t u) : RQ s u := by
  intro i rs h
  obtain ⟨r1, h1, a1, a2, a3, a4, a5⟩ := a i rs h
  obtain ⟨r2, h2, b1, b2, b3, b4, b5⟩ := b i r1 h1
  exact ⟨r2, h2, by rw [b1, a1], by rw [b2, a2], by rw [b3, a3], by rw [b4, a4], by rw [b5, a5]⟩

theorem RQ.of_eq {s s' : State} (h : s'.resps = s.resps) : RQ s s' := fun i rs hi => ⟨rs, by rw [h]; exact hi, rfl, rfl, rfl, rfl, rfl⟩

theorem closeFp_rq (s : State) (r : Nat) : RQ s (closeFp s r) := by
  intro i rs h
  by_cases hir : i = r
  · subst hir
    have hb : i < (closeFp s i).resps.length := by
      rw [(closeFp_fields2 s i).2.1]
      rcases Nat.lt_or_ge i s.resps.length with h' | h'
      · exact h'
      · rw [List.getElem?_eq_none h'] at h; cases h
    obtain ⟨a1, a2, a3, a4, a5⟩ := closeFp_at s i rs h _ (List.getElem?_eq_getElem hb)
    exact ⟨_, List.getElem?_eq_getElem hb, a1, a2, a3, a4, a5⟩
  · exact ⟨rs, by rw [(closeFp_fields2 s r).2.2.1 i hir]; exact h, rfl, rfl, rfl, rfl, rfl⟩

theorem connClose_rq (s : State) (c : Nat) : RQ s (connClose s c) := by
  unfold connClose
  split
  · exact RQ.refl _
  · have h1 : RQ s (setConn s c fun x => { x with sock := none, http := .idle, pending := none, proxyConnected := false }) :=
      RQ.of_eq rfl
    refine h1.trans ?_
    generalize (setConn s c fun x => { x with sock := none, http := .idle, pending := none, proxyConnected := false }) = s1
    split <;> split
    · exact (RQ.of_eq (noteClose_fields _ _).2.1).trans (closeFp_rq _ _)
    · exact RQ.of_eq (noteClose_fields _ _).2.1
    · exact closeFp_rq _ _
    · exact RQ.refl _

theorem putConn_rq (s : State) (x : Option Nat) : RQ s (putConn s x).1 := by
  have h0 : RQ s (logEv s (.put x)) := RQ.of_eq rfl
  refine h0.trans ?_
  unfold putConn
  generalize logEv s (.put x) = t
  simp only
  split
  · split
    · exact RQ.of_eq rfl
    · cases x with
      | none => split <;> exact RQ.refl _
      | some i => split
                  · exact connClose_rq _ _
                  · exact (connClose_rq _ _).trans (connClose_rq _ _)
  · cases x with
    | none => exact RQ.refl _
    | some i => exact connClose_rq _ _

theorem putConn_resp_fields (s : State) (x : Option Nat) (r : Nat) (rs : Resp) (hq : s.resps[r]? = some rs) :
    ∃ rs1 : Resp, (putConn s x).1.resps[r]? = some rs1 ∧ rs1.length = rs.length ∧ rs1.chunked = rs.chunked ∧
      rs1.isHead = rs.isHead ∧ rs1.eom = rs.eom ∧ rs1.eofAt = rs.eofAt := putConn_rq s x r rs hq

/-- the clean exit of `_error_catcher` (`release_conn()` of a closed response) does not touch what
`Done` / `Delim` look at -/
theorem ece_true_same {s : State} {r : Nat} {rs rs' : Resp} (hcl : respFpClosed s r = true) (hq : s.resps[r]? = some rs)
    (h3 : (errorCatcherExit s r true).1.resps[r]? = some rs') : (Done rs' ↔ Done rs) ∧ (Delim rs' ↔ Delim rs) := by
  have e : (errorCatcherExit s r true) = (if respFpClosed s r then releaseConn s r else (s, none)) := rfl
  rw [e, if_pos hcl] at h3
  have key : rs'.length = rs.length ∧ rs'.chunked = rs.chunked ∧ rs'.isHead = rs.isHead ∧ rs'.eom = rs.eom ∧ rs'.eofAt = rs.eofAt := by
    unfold releaseConn at h3
    simp only [hq] at h3
    split at h3
    · rw [hq] at h3; cases h3; exact ⟨rfl, rfl, rfl, rfl, rfl⟩
    · split at h3
      · rw [hq] at h3; cases h3; exact ⟨rfl, rfl, rfl, rfl, rfl⟩
      · rename_i c _
        have hp := putConn_resp_fields s (some c) r rs hq
        generalize putConn s (some c) = res at h3 hp
        obtain ⟨s1, o⟩ := res
        obtain ⟨rs1, g1, g2⟩ := hp
        cases o with
        | some e => dsimp only at h3; rw [g1] at h3; cases h3; exact g2
        | none =>
          dsimp only at h3
          rw [setResp_at _ g1] at h3; cases h3; exact g2
  obtain ⟨a1, a2, a3, a4, a5⟩ := key
  unfold Done Delim
  rw [a1, a2, a3, a4, a5]
  exact ⟨Iff.rfl, Iff.rfl⟩

/-- `_raw_read` under `_error_catcher` keeps `Link`; after a successful `read()` of everything the
response is closed and (if length-delimited) complete -/
theorem rawRead_link_aux {A : Nat → Attempt → Prop} {f : Focus} {L : Option Nat} {s s' : State} {r : Nat} {amt : Option Nat}
    {out : DataOut} (p : ProvF A s f) (h : Link L s) (hr : rawRead s r amt = (s', out)) :
    Link L s' ∧ (respFpClosed s r = false → ∀ d, out = .data d → ∀ rs' : Resp, s'.resps[r]? = some rs' →
      rs'.fp ≠ none ∨ Done rs' ∨ ¬ Delim rs') := by
  have si : SockInj s := p.sockInj'
  rw [rawRead_eq] at hr
  by_cases hc : respFpClosed s r = true
  · -- nothing to read
    rw [httpRead_closed amt hc] at hr
    dsimp only at hr
    have hmid : Link L (rawMid r amt s (.data [])).1 ∧ (rawMid r amt s (.data [])).1.conns = s.conns := by
      have hcl : Link L (closeFp s r) ∧ (closeFp s r).conns = s.conns := by
        refine ⟨closeFp_linkx h (Or.inr ?_), (closeFp_fields2 s r).1⟩
        intro rs hrs
        rw [respFpClosed_iff] at hc
        exact Or.inl (hc rs hrs)
      unfold rawMid
      split
      · split
        · dsimp only
          split
          · split
            · split <;> exact hcl
            · exact hcl
          · exact hcl
        · exact ⟨h, rfl⟩
      · exact ⟨h, rfl⟩
    generalize rawMid r amt s (.data []) = mid at hr hmid
    obtain ⟨s2, o2⟩ := mid
    obtain ⟨h2, hc2⟩ := hmid
    have si2 : SockInj s2 := sockInj_conns hc2 si
    unfold rawTail at hr
    cases o2 with
    | exc e =>
      dsimp only at hr
      have := ece_false_link (r := r) h2 si2
      generalize errorCatcherExit s2 r false = res at hr this
      obtain ⟨s3, oe⟩ := res
      cases oe <;> (cases hr; exact ⟨this, fun hc' => by rw [hc] at hc'; cases hc'⟩)
    | data d =>
      dsimp only at hr
      have := ece_true_link (r := r) h2 si2
      generalize errorCatcherExit s2 r true = res at hr this
      obtain ⟨s3, oe⟩ := res
      cases oe <;> (cases hr; exact ⟨this, fun hc' => by rw [hc] at hc'; cases hc'⟩)
  · -- an open reader
    have hopen : ∃ rs k, s.resps[r]? = some rs ∧ rs.fp = some k := by
      unfold respFpClosed at hc
      cases hrs : s.resps[r]? with
      | none => simp [hrs] at hc
      | some rs =>
        cases hfp : rs.fp with
        | none => simp [hrs, hfp] at hc
        | some k => exact ⟨rs, k, rfl, hfp⟩
    obtain ⟨rs, k, hrs, hk⟩ := hopen
    have hx : LinkX L (some r) s := linkx_enter h (fun rs' h' => by rw [hrs] at h'; cases h'; rw [hk]; simp)
    generalize hh : httpRead s r amt = res at hr
    obtain ⟨s1, o1⟩ := res
    obtain ⟨h1, hc1, post1⟩ := httpRead_link p hx hrs hk hh
    dsimp only at hr
    have hmid : LinkX L (some r) (rawMid r amt s1 o1).1 ∧ (rawMid r amt s1 o1).1.conns = s.conns ∧
        (∀ d, (rawMid r amt s1 o1).2 = .data d → ∀ rs2 : Resp, (rawMid r amt s1 o1).1.resps[r]? = some rs2 →
          rs2.fp ≠ none ∨ Done rs2 ∨ ¬ Delim rs2) := by
      have keep : ∀ d, o1 = .data d → (∀ n, amt = some n → ¬ (n ≠ 0 ∧ d = [])) → ∀ rs2 : Resp, s1.resps[r]? = some rs2 →
          rs2.fp ≠ none ∨ Done rs2 ∨ ¬ Delim rs2 := by
        intro d hd hn rs2 h2
        rcases post1 d hd rs2 h2 with o | o | o | ⟨n, e1, e2, e3, _⟩
        · exact Or.inl o.1
        · exact Or.inr (Or.inl o)
        · exact Or.inr (Or.inr o)
        · exact absurd ⟨e2, e3⟩ (hn n e1)
      unfold rawMid
      split
      · rename_i d n
        split
        · rename_i hcond
          dsimp only
          have hcl : LinkX L (some r) (closeFp s1 r) := closeFp_linkx h1 (Or.inl rfl)
          have hcc : (closeFp s1 r).conns = s.conns := by rw [(closeFp_fields2 s1 r).1, hc1]
          have hdn : d = [] ∧ n ≠ 0 := by
            simp at hcond; exact ⟨hcond.2, hcond.1⟩
          -- what `http.client` left behind, seen through the `close()`
          have pclose : ∀ rs3 : Resp, (closeFp s1 r).resps[r]? = some rs3 → Done rs3 ∨ ¬ Delim rs3 ∨ rs3.chunked = false := by
            intro rs3 h3
            have hb : r < s1.resps.length := by
              rw [← (closeFp_fields2 s1 r).2.1]
              rcases Nat.lt_or_ge r (closeFp s1 r).resps.length with h' | h'
              · exact h'
              · rw [List.getElem?_eq_none h'] at h3; cases h3
            have hr1 : s1.resps[r]? = some s1.resps[r] := List.getElem?_eq_getElem hb
            obtain ⟨e1, e2⟩ := closeFp_done s1 r _ hr1 rs3 h3
            obtain ⟨_, a2, _⟩ := closeFp_at s1 r _ hr1 rs3 h3
            rcases post1 d rfl _ hr1 with ⟨_, o⟩ | o | o | ⟨_, _, _, _, o⟩
            · cases hch : s1.resps[r].chunked with
              | false => right; right; rw [a2]; exact hch
              | true => exact absurd hdn.1 (o hch n rfl hdn.2)
            · exact Or.inl (e1.mpr o)
            · exact Or.inr (Or.inl (fun hd' => o (e2.mp hd')))
            · right; right; rw [a2]; exact o
          split
          · rename_i rs2 hrs2
            split
            · rename_i l hl
              split
              · exact ⟨hcl, hcc, by intro d' hd'; cases hd'⟩
              · rename_i hl0
                refine ⟨hcl, hcc, ?_⟩
                intro d' _ rs3 h3
                rw [hrs2] at h3; cases h3
                rcases pclose rs2 hrs2 with o | o | o
                · exact Or.inr (Or.inl o)
                · exact Or.inr (Or.inr o)
                · right; left
                  simp at hl0
                  exact hr_len0 o (by rw [hl, hl0])
            · rename_i hl
              refine ⟨hcl, hcc, ?_⟩
              intro d' _ rs3 h3
              rw [hrs2] at h3; cases h3
              rcases pclose rs2 hrs2 with o | o | o
              · exact Or.inr (Or.inl o)
              · exact Or.inr (Or.inr o)
              · exact Or.inr (Or.inr (hr_lennone o hl))
          · rename_i hn
            exact ⟨hcl, hcc, by intro d' _ rs3 h3; rw [hn] at h3; cases h3⟩
        · rename_i hcond
          refine ⟨h1, hc1, ?_⟩
          intro d' hd'
          cases hd'
          refine keep d rfl ?_
          intro n' hn' hcontra
          cases hn'
          apply hcond
          simp [hcontra.1, hcontra.2]
      · rename_i hno
        refine ⟨h1, hc1, ?_⟩
        intro d' hd'
        refine keep d' hd' ?_
        intro n' hn' _
        exact hno d' n' hd' hn'
    generalize rawMid r amt s1 o1 = mid at hr hmid
    obtain ⟨s2, o2⟩ := mid
    obtain ⟨h2, hc2, post2⟩ := hmid
    have si2 : SockInj s2 := sockInj_conns hc2 si
    unfold rawTail at hr
    cases o2 with
    | exc e =>
      dsimp only at hr
      have := ece_false_exempt h2 si2
      generalize errorCatcherExit s2 r false = res at hr this
      obtain ⟨s3, oe⟩ := res
      cases oe <;> (cases hr; exact ⟨this, by intro _ d hd; cases hd⟩)
    | data d =>
      dsimp only at hr
      have hok : ∀ rs2 : Resp, s2.resps[r]? = some rs2 → rs2.fp ≠ none ∨ Done rs2 ∨ NoOwner L s2 r := by
        intro rs2 h2'
        rcases post2 d rfl rs2 h2' with o | o | o
        · exact Or.inl o
        · exact Or.inr (Or.inl o)
        · exact Or.inr (Or.inr (noOwner_of_lennone h2 h2' o))
      have := ece_true_exempt h2 si2 hok
      have e : (errorCatcherExit s2 r true) = (if respFpClosed s2 r then releaseConn s2 r else (s2, none)) := rfl
      have fin : ∀ rs' : Resp, (errorCatcherExit s2 r true).1.resps[r]? = some rs' →
          rs'.fp ≠ none ∨ Done rs' ∨ ¬ Delim rs' := by
        intro rs' h3
        cases hq : s2.resps[r]? with
        | none =>
          have : errorCatcherExit s2 r true = (s2, none) := by
            rw [e]; simp [respFpClosed, releaseConn, hq]
          rw [this, hq] at h3; cases h3
        | some rs2 =>
          by_cases hcl : respFpClosed s2 r = true
          · have hdd := ece_true_same hcl hq h3
            rw [respFpClosed_iff] at hcl
            rcases post2 d rfl rs2 hq with o | o | o
            · exact absurd (hcl rs2 hq) o
            · right; left; exact hdd.1.mpr o
            · right; right; exact fun hd' => o (hdd.2.mp hd')
          · have : errorCatcherExit s2 r true = (s2, none) := by rw [e]; simp [hcl]
            rw [this] at h3
            exact post2 d rfl rs' h3
      generalize errorCatcherExit s2 r true = res at hr this fin
      obtain ⟨s3, oe⟩ := res
      cases oe <;> (cases hr; exact ⟨this, fun _ d' _ => fin⟩)

theorem rawRead_link {A : Nat → Attempt → Prop} {f : Focus} {L : Option Nat} {s s' : State} {r : Nat} {amt : Option Nat}
    {out : DataOut} (p : ProvF A s f) (h : Link L s) (hr : rawRead s r amt = (s', out)) : Link L s' :=
  (rawRead_link_aux p h hr).1

theorem readAmt_link {A : Nat → Attempt → Prop} {L : Option Nat} {r n : Nat} :
    ∀ (fuel : Nat) (s s' : State) (X acc : List Cell) (out : DataOut),
    ProvF A s (some (r, X, X)) → Link L s → readAmt fuel s r n acc = (s', out) → Link L s' := by
  intro fuel
  induction fuel with
  | zero => intro s s' X acc out p h hr; simp [readAmt] at hr; obtain ⟨rfl, _⟩ := hr; exact h
  | succ fuel ih =>
    intro s s' X acc out p h hr
    unfold readAmt at hr
    generalize hrr : rawRead s r (some n) = res at hr
    obtain ⟨s1, o⟩ := res
    have h1 := rawRead_link p h hrr
    obtain ⟨q1, _, _⟩ := rawRead_prov p hrr
    cases o with
    | exc e => cases hr; exact h1
    | data d =>
      dsimp only at hr
      split at hr
      · cases hr; exact h1
      · exact ih s1 s' (X ++ d) (acc ++ d) out (q1 d rfl) h1 hr

theorem deliver_link {L : Option Nat} {s : State} (r : Nat) (d : List Cell) (h : Link L s) : Link L (deliver s r d) :=
  setResp_linkx r _ h (fun _ => rfl) (fun _ _ d => d) (fun _ _ => Or.inl id) (fun _ _ => Or.inl rfl)

theorem deliver_resps (s : State) (r : Nat) (d : List Cell) (rs' : Resp) (h : (deliver s r d).resps[r]? = some rs') :
    ∃ rs : Resp, s.resps[r]? = some rs ∧ rs'.fp = rs.fp ∧ (Done rs' ↔ Done rs) ∧ (Delim rs' ↔ Delim rs) := by
  simp only [deliver, setResp, List.getElem?_modify] at h
  cases hx : s.resps[r]? with
  | none => simp [hx] at h
  | some x => simp [hx] at h; subst h; exact ⟨x, rfl, rfl, Iff.rfl, Iff.rfl⟩

theorem respRead_link {A : Nat → Attempt → Prop} {L : Option Nat} {s s' : State} {r : Nat} {amt : Option Nat} {out : DataOut}
    (p : Prov A s) (h : Link L s) (hr : respRead s r amt = (s', out)) :
    Link L s' ∧ (amt = none → respFpClosed s r = false → ∀ d, out = .data d → ∀ rs' : Resp, s'.resps[r]? = some rs' →
      rs'.fp ≠ none ∨ Done rs' ∨ ¬ Delim rs') := by
  have pf := focus_intro p r
  unfold respRead at hr
  cases amt with
  | none =>
    dsimp only at hr
    generalize hrr : rawRead s r none = res at hr
    obtain ⟨s1, o⟩ := res
    obtain ⟨h1, post⟩ := rawRead_link_aux pf h hrr
    cases o with
    | exc e => cases hr; exact ⟨h1, by intro _ _ d hd; cases hd⟩
    | data d =>
      cases hr
      refine ⟨deliver_link r d h1, ?_⟩
      intro _ hopen d' _ rs' h3
      obtain ⟨rs1, g1, g2, g3, g4⟩ := deliver_resps s1 r d rs' h3
      rw [g2]
      rcases post hopen d rfl rs1 g1 with o | o | o
      · exact Or.inl o
      · exact Or.inr (Or.inl (g3.mpr o))
      · exact Or.inr (Or.inr (fun hd' => o (g4.mp hd')))
  | some n =>
    dsimp only at hr
    generalize hrr : readAmt (n + 1) s r n [] = res at hr
    obtain ⟨s1, o⟩ := res
    have h1 := readAmt_link (n + 1) s s1 _ [] o pf h hrr
    cases o with
    | exc e => cases hr; exact ⟨h1, by intro h'; cases h'⟩
    | data d => cases hr; exact ⟨deliver_link r d h1, by intro h'; cases h'⟩

theorem respStream_link {A : Nat → Attempt → Prop} {L : Option Nat} {r n : Nat} :
    ∀ (fuel : Nat) (s s' : State) (acc : List Cell) (out : DataOut),
    Prov A s → Link L s → respStream fuel s r n acc = (s', out) → Link L s' := by
  intro fuel
  induction fuel with
  | zero => intro s s' acc out p h hr; simp [respStream] at hr; obtain ⟨rfl, _⟩ := hr; exact h
  | succ fuel ih =>
    intro s s' acc out p h hr
    unfold respStream at hr
    split at hr
    · cases hr; exact h
    · generalize hrr : respRead s r (some n) = res at hr
      obtain ⟨s1, o⟩ := res
      have p1 := respRead_prov p hrr
      have h1 := (respRead_link p h hrr).1
      cases o with
      | exc e => cases hr; exact h1
      | data d => exact ih s1 s' _ out p1 h1 hr

theorem drainConn_link {A : Nat → Attempt → Prop} {L : Option Nat} {s : State} {r : Nat} (p : Prov A s) (h : Link L s) :
    Link L (drainConn s r).1 := by
  have pf := focus_intro p r
  unfold drainConn
  generalize hrr : rawRead s r none = res
  obtain ⟨s1, o⟩ := res
  have h1 := rawRead_link pf h hrr
  cases o with
  | exc e => dsimp only; split <;> exact h1
  | data d => exact h1

/-! ### `read_chunked` -/

theorem deliver_linkx {L X : Option Nat} {s : State} (r : Nat) (d : List Cell) (h : LinkX L X s) : LinkX L X (deliver s r d) :=
  setResp_linkx r _ h (fun _ => rfl) (fun _ _ d => d) (fun _ _ => Or.inl id) (fun _ _ => Or.inl rfl)

/-- response `r` is chunked and not a reply to `HEAD` -/
def CI (r : Nat) (s : State) : Prop := ∀ rs : Resp, s.resps[r]? = some rs → rs.chunked = true ∧ rs.isHead = false

theorem Dirty.ci {r k : Nat} {s s' : State} (d : Dirty r k s s') (h : CI r s) : CI r s' := by
  intro rs' hrs'
  have hb : r < s.resps.length := by
    rw [← d.rlen]
    rcases Nat.lt_or_ge r s'.resps.length with h' | h'
    · exact h'
    · rw [List.getElem?_eq_none h'] at hrs'; cases hrs'
  obtain ⟨rx, hx, _, _, a3, _, _, a6, _⟩ := d.rsame _ (List.getElem?_eq_getElem hb)
  rw [hrs'] at hx; cases hx
  obtain ⟨g1, g2⟩ := h _ (List.getElem?_eq_getElem hb)
  exact ⟨by rw [a6]; exact g1, by rw [a3]; exact g2⟩

theorem deliver_ci {r : Nat} {s : State} (d : List Cell) (h : CI r s) : CI r (deliver s r d) := by
  intro rs' hrs'
  simp only [deliver, setResp, List.getElem?_modify] at hrs'
  cases hx : s.resps[r]? with
  | none => simp [hx] at hrs'
  | some x => simp [hx] at hrs'; subst hrs'; exact h x hx

/-- response `r` is open on socket `k` -/
def OpenK (r k : Nat) (s : State) : Prop := ∀ rs : Resp, s.resps[r]? = some rs → rs.fp = some k

theorem openK_relP {r k : Nat} {s s' : State} {m : List Cell} (rel : ReadRelP r k s s' m) (h : OpenK r k s) : OpenK r k s' := by
  intro rs' hrs'
  have hb : r < s.resps.length := by
    rw [← rel.rlen]
    rcases Nat.lt_or_ge r s'.resps.length with h' | h'
    · exact h'
    · rw [List.getElem?_eq_none h'] at hrs'; cases hrs'
  obtain ⟨rx, hx, _, _, _, a4, _⟩ := rel.rsame _ (List.getElem?_eq_getElem hb)
  rw [hrs'] at hx; cases hx
  rw [a4]; exact h _ (List.getElem?_eq_getElem hb)

theorem deliver_openK {r k : Nat} {s : State} (d : List Cell) (h : OpenK r k s) : OpenK r k (deliver s r d) := by
  intro rs' hrs'
  simp only [deliver, setResp, List.getElem?_modify] at hrs'
  cases hx : s.resps[r]? with
  | none => simp [hx] at hrs'
  | some x => simp [hx] at hrs'; subst hrs'; exact h x hx

theorem updateChunkLength_link {L : Option Nat} {s s' : State} {r k : Nat} {oe : Option Exc}
    (h : LinkX L (some r) s) (si : SockInj s) (hci : CI r s) (hok : OpenK r k s) (hu : updateChunkLength s r k = (s', oe)) :
    SockInj s' ∧ (oe = none → LinkX L (some r) s' ∧ CI r s' ∧ OpenK r k s') ∧
    (∀ e, oe = some e → Link L s' ∨ LinkX L (some r) s') := by
  have hrelp : oe = none → ∃ m, ReadRelP r k s s' m := by
    intro he; subst he; exact updateChunkLength_relP hu
  unfold updateChunkLength at hu
  split at hu
  · cases hu; exact ⟨si, fun _ => ⟨h, hci, hok⟩, by intro e he; cases he⟩
  · have d1 := fpReadline_dirty (inboundLen s k + 2) s r k []
    generalize fpReadline (inboundLen s k + 2) s r k [] = res at hu d1
    obtain ⟨s1, o⟩ := res
    have h1 := dirty_linkx h d1 hok
    have si1 : SockInj s1 := sockInj_conns d1.conns si
    cases o with
    | exc e => cases hu; exact ⟨si1, (by intro he; cases he), fun _ _ => Or.inr h1⟩
    | data line =>
      dsimp only at hu
      split at hu
      · cases hu
        have d2 := setParse_dirty r k s1 (fun x => { x with chunkLeft := some ‹Nat› }) (fun x => ⟨rfl, rfl, rfl, rfl, rfl, rfl, rfl, rfl, rfl, rfl⟩)
        obtain ⟨m, relp⟩ := hrelp rfl
        exact ⟨sockInj_conns d2.conns si1, fun _ => ⟨dirty_linkx h (d1.trans d2) hok, d2.ci (d1.ci hci), openK_relP relp hok⟩,
          by intro e he; cases he⟩
      · cases hu
        exact ⟨(respClose_safe s1 r).sockInj si1, (by intro he; cases he), fun _ _ => Or.inl (respClose_exempt h1 si1)⟩

theorem chunkLoop_link {L : Option Nat} {r k amt : Nat} : ∀ (fuel : Nat) (s s' : State) (acc : List Cell) (out : DataOut),
    LinkX L (some r) s → SockInj s → CI r s → OpenK r k s → chunkLoop fuel s r k amt acc = (s', out) →
    SockInj s' ∧ (∀ d, out = .data d → LinkX L (some r) s' ∧ CI r s' ∧ OpenK r k s') ∧
    (∀ e, out = .exc e → Link L s' ∨ LinkX L (some r) s') := by
  intro fuel
  induction fuel with
  | zero =>
    intro s s' acc out h si hci hok hl
    simp [chunkLoop] at hl; obtain ⟨rfl, rfl⟩ := hl
    exact ⟨si, (by intro d hd; cases hd), fun _ _ => Or.inr h⟩
  | succ fuel ih =>
    intro s s' acc out h si hci hok hl
    unfold chunkLoop at hl
    generalize hu : updateChunkLength s r k = res at hl
    obtain ⟨s1, oe⟩ := res
    obtain ⟨si1, q1, q2⟩ := updateChunkLength_link h si hci hok hu
    cases oe with
    | some e => cases hl; exact ⟨si1, (by intro d hd; cases hd), fun _ _ => q2 e rfl⟩
    | none =>
      obtain ⟨h1, hci1, hok1⟩ := q1 rfl
      dsimp only at hl
      split at hl
      · cases hl; exact ⟨si1, fun _ _ => ⟨h1, hci1, hok1⟩, by intro e he; cases he⟩
      · have d2 := handleChunk_dirty s1 r k amt
        generalize hh : handleChunk s1 r k amt = res at hl d2
        obtain ⟨s2, o⟩ := res
        have h2 := dirty_linkx h1 d2 hok1
        have si2 : SockInj s2 := sockInj_conns d2.conns si1
        cases o with
        | exc e => cases hl; exact ⟨si2, (by intro d hd; cases hd), fun _ _ => Or.inr h2⟩
        | data d =>
          dsimp only at hl
          obtain ⟨m, relp⟩ := handleChunk_relP hh
          exact ih (deliver s2 r d) s' _ out (deliver_linkx r d h2) (sockInj_conns rfl si2) (deliver_ci d (d2.ci hci1))
            (deliver_openK d (openK_relP relp hok1)) hl

theorem readChunkedBody_link {A : Nat → Attempt → Prop} {L : Option Nat} {s s' : State} {r amt : Nat} {out : DataOut}
    (p : Prov A s) (h : Link L s) (hc : respChunked s r = true) (hb : readChunkedBody s r amt = (s', out)) :
    SockInj s' ∧
    (∀ d, out = .data d → Link L s' ∨ (LinkX L (some r) s' ∧
      ∀ rs : Resp, s'.resps[r]? = some rs → rs.fp ≠ none ∨ Done rs ∨ NoOwner L s' r)) ∧
    (∀ e, out = .exc e → Link L s' ∨ LinkX L (some r) s') := by
  have si : SockInj s := p.sockInj'
  unfold readChunkedBody at hb
  split at hb
  · cases hb; exact ⟨si, fun _ _ => Or.inl h, by intro e he; cases he⟩
  · rename_i rs hrs
    have hch : rs.chunked = true := by simpa [respChunked, hrs] using hc
    split at hb
    · rename_i hhead
      cases hb
      refine ⟨sockInj_conns (closeFp_fields2 s r).1 si, fun _ _ => Or.inl ?_, by intro e he; cases he⟩
      refine closeFp_linkx h (Or.inr ?_)
      intro rs2 hrs2
      rw [hrs] at hrs2; cases hrs2
      cases hfp : rs.fp with
      | none => exact Or.inl rfl
      | some k => right; left; rw [done_head hhead]; exact head_len0 p hrs hfp hhead
    · rename_i hhead
      split at hb
      · cases hb; exact ⟨si, fun _ _ => Or.inl h, by intro e he; cases he⟩
      · rename_i k hk
        dsimp only at hb
        generalize inboundLen s k + rs.buf.length + 2 = fuel at hb
        have hx : LinkX L (some r) s := linkx_enter h (fun rs' h' => by rw [hrs] at h'; cases h'; rw [hk]; simp)
        have hci : CI r s := fun rs' h' => by rw [hrs] at h'; cases h'; exact ⟨hch, by simpa using hhead⟩
        have hok : OpenK r k s := fun rs' h' => by rw [hrs] at h'; cases h'; exact hk
        generalize hcl : chunkLoop fuel s r k amt [] = res at hb
        obtain ⟨s1, o⟩ := res
        obtain ⟨si1, q1, q2⟩ := chunkLoop_link fuel s s1 [] o hx si hci hok hcl
        cases o with
        | exc e => cases hb; exact ⟨si1, (by intro d hd; cases hd), fun _ _ => q2 e rfl⟩
        | data d =>
          obtain ⟨h1, hci1, hok1⟩ := q1 d rfl
          dsimp only at hb
          have dd := skipTrailers_dirty r k fuel s1
          generalize hst : skipTrailers fuel s1 r k = res2 at hb dd
          obtain ⟨s2, oe⟩ := res2
          have h2 := dirty_linkx h1 dd hok1
          have si2 : SockInj s2 := sockInj_conns dd.conns si1
          cases oe with
          | some e => cases hb; exact ⟨si2, (by intro d hd; cases hd), fun _ _ => Or.inr h2⟩
          | none =>
            cases hb
            refine ⟨sockInj_conns (closeFp_fields2 s2 r).1 si2, fun _ _ => Or.inr ⟨closeFp_linkx h2 (Or.inl rfl), ?_⟩,
              by intro e he; cases he⟩
            intro rs3 hrs3
            right; left
            have hb2 : r < s2.resps.length := by
              rw [← (closeFp_fields2 s2 r).2.1]
              rcases Nat.lt_or_ge r (closeFp s2 r).resps.length with h' | h'
              · exact h'
              · rw [List.getElem?_eq_none h'] at hrs3; cases hrs3
            have hr2 : s2.resps[r]? = some s2.resps[r] := List.getElem?_eq_getElem hb2
            obtain ⟨_, a2, a3, a4, a5⟩ := closeFp_at s2 r _ hr2 rs3 hrs3
            obtain ⟨g1, g2⟩ := dd.ci hci1 _ hr2
            rw [done_chunked (by rw [a2]; exact g1) (by rw [a3]; exact g2), a4, a5]
            exact (skipTrailers_post r k fuel s1 s2 hst _ hr2).imp id (fun e => by rw [e]; rfl)

theorem readChunked_link {A : Nat → Attempt → Prop} {L : Option Nat} {s : State} {r amt : Nat}
    (p : Prov A s) (h : Link L s) (hc : respChunked s r = true) : Link L (readChunked s r amt).1 := by
  unfold readChunked
  generalize hb : readChunkedBody s r amt = res
  obtain ⟨s1, o⟩ := res
  obtain ⟨si1, q1, q2⟩ := readChunkedBody_link p h hc hb
  dsimp only
  unfold catcherExit
  cases o with
  | exc e =>
    dsimp only
    have : Link L (errorCatcherExit s1 r false).1 := by
      rcases q2 e rfl with g | g
      · exact ece_false_link g si1
      · exact ece_false_exempt g si1
    generalize errorCatcherExit s1 r false = res at this
    obtain ⟨s2, oe⟩ := res
    cases oe <;> exact this
  | data d =>
    dsimp only
    have : Link L (errorCatcherExit s1 r true).1 := by
      rcases q1 d rfl with g | ⟨g, hok⟩
      · exact ece_true_link g si1
      · exact ece_true_exempt g si1 hok
    generalize errorCatcherExit s1 r true = res at this
    obtain ⟨s2, oe⟩ := res
    cases oe <;> exact this

/-- the caller behaviours that do not release a connection whose response is unread -/
def NoEarlyHow : How → Bool
  | .release => false
  | .readKRelease _ => false
  | _ => true

theorem disposeResp_link {A : Nat → Attempt → Prop} {L : Option Nat} {s : State} {r : Nat} (how : How)
    (hn : NoEarlyHow how = true) (p : Prov A s) (h : Link L s) : Link L (disposeResp s r how).1 := by
  cases how with
  | readAll =>
    unfold disposeResp; dsimp only
    generalize hrr : respRead s r none = res
    obtain ⟨s1, o⟩ := res
    have := (respRead_link p h hrr).1
    cases o <;> exact this
  | readK k =>
    unfold disposeResp; dsimp only
    generalize hrr : respRead s r (some k) = res
    obtain ⟨s1, o⟩ := res
    have := (respRead_link p h hrr).1
    cases o <;> exact this
  | readKRelease k => cases hn
  | release => cases hn
  | drain =>
    unfold disposeResp; dsimp only
    have := drainConn_link (r := r) p h
    generalize drainConn s r = res at this ⊢
    obtain ⟨s2, oe⟩ := res
    cases oe <;> exact this
  | close => exact respClose_link h p.sockInj'
  | drop =>
    unfold disposeResp; dsimp only
    split
    · exact h
    · exact respClose_link h p.sockInj'
  | stream k =>
    unfold disposeResp; dsimp only
    by_cases hc : respChunked s r = true
    · rw [if_pos hc]
      have := readChunked_link (r := r) (amt := k) p h hc
      generalize readChunked s r k = res at this ⊢
      obtain ⟨s1, o⟩ := res
      cases o <;> exact this
    · rw [if_neg hc]
      generalize hrr : respStream _ s r k [] = res
      obtain ⟨s1, o⟩ := res
      have := respStream_link _ s s1 [] o p h hrr
      cases o <;> exact this

theorem dispose_link {A : Nat → Attempt → Prop} {L : Option Nat} {s : State} (rid : Nat) (how : How)
    (hn : NoEarlyHow how = true) (p : Prov A s) (h : Link L s) : Link L (dispose s rid how).1 := by
  unfold dispose
  split
  · exact h
  · exact disposeResp_link how hn p h

theorem foldClose_link {L : Option Nat} (q : List (Option Nat)) (s : State) (h : Link L s) (si : SockInj s) :
    Link L (q.foldl (fun acc item => match item with
      | some c => connClose acc c
      | none => acc) s) := by
  induction q generalizing s with
  | nil => exact h
  | cons a t ih =>
    simp only [List.foldl_cons]
    cases a with
    | none => exact ih s h si
    | some c => exact ih _ (connClose_linkx c h si) ((connClose_safe s c).sockInj si)

theorem closePool_link {L : Option Nat} {s : State} (h : Link L s) (si : SockInj s) : Link L (closePool s) := by
  unfold closePool
  split
  · exact h
  · exact foldClose_link _ _ (linkx_log h rfl rfl) (sockInj_conns rfl si)

/-! ### generic frames for the reader: whatever is invariant under `recv`/buffer moves, `length :=` and
closing the reader is invariant under `http.client`'s `read` and the `IncompleteRead` test -/

structure RFrame (r : Nat) (R : State → State → Prop) : Prop where
  refl : ∀ s, R s s
  trans : ∀ {s t u}, R s t → R t u → R s u
  read : ∀ {k s s' m}, ReadRel r k s s' m → R s s'
  close : ∀ s, R s (closeFp s r)
  setlen : ∀ s l, R s (setResp s r fun x => { x with length := some l })
  dirty : ∀ {k s s'}, Dirty r k s s' → R s s'

theorem httpRead_frame {r : Nat} {R : State → State → Prop} (F : RFrame r R) (s : State) (amt : Option Nat) :
    R s (httpRead s r amt).1 := by
  have fr : ∀ fuel t k n acc, R t (fpRead fuel t r k n acc).1 := by
    intro fuel t k n acc
    obtain ⟨m, rel, _⟩ := fpRead_rel fuel t r k n acc _ _ rfl
    exact F.read rel
  have fra : ∀ fuel t k acc, R t (fpReadAll fuel t r k acc).1 := by
    intro fuel t k acc
    obtain ⟨m, rel, _⟩ := fpReadAll_rel fuel t r k acc _ _ rfl
    exact F.read rel
  unfold httpRead
  split
  · exact F.refl _
  · rename_i rs hrs
    split
    · exact F.refl _
    · rename_i k hk
      split
      · exact F.close _
      · split
        · exact F.dirty (hcReadChunked_dirty r k _ s amt [])
        dsimp only
        generalize inboundLen s k + 2 = fuel
        cases amt with
        | some n =>
          dsimp only
          cases hlen0 : rs.length with
          | none =>
            dsimp only
            have h1 := fr fuel s k n []
            generalize fpRead fuel s r k n [] = res at h1 ⊢
            obtain ⟨s1, o⟩ := res
            cases o with
            | exc e => exact h1
            | data d =>
              dsimp only
              split
              · exact F.trans h1 (F.close _)
              · exact h1
          | some l =>
            dsimp only
            have key : ∀ n' : Nat, R s (match fpRead fuel s r k n' [] with
                | (s, DataOut.exc e) => (s, DataOut.exc e)
                | (s, DataOut.data d) =>
                  if (d.isEmpty && n' != 0) = true then (closeFp s r, DataOut.data d)
                  else
                    (if l - d.length = 0 then
                        closeFp (setResp s r fun x => { x with length := some (l - d.length) }) r
                      else setResp s r fun x => { x with length := some (l - d.length) },
                      DataOut.data d)).1 := by
              intro n'
              have h1 := fr fuel s k n' []
              generalize fpRead fuel s r k n' [] = res at h1 ⊢
              obtain ⟨s1, o⟩ := res
              cases o with
              | exc e => exact h1
              | data d =>
                dsimp only
                split
                · exact F.trans h1 (F.close _)
                · split
                  · exact F.trans (F.trans h1 (F.setlen _ _)) (F.close _)
                  · exact F.trans h1 (F.setlen _ _)
            exact key _
        | none =>
          dsimp only
          cases hlen0 : rs.length with
          | none =>
            dsimp only
            have h1 := fra fuel s k []
            generalize fpReadAll fuel s r k [] = res at h1 ⊢
            obtain ⟨s1, o⟩ := res
            cases o with
            | exc e => exact h1
            | data d => exact F.trans h1 (F.close _)
          | some l =>
            dsimp only
            have h1 := fr fuel s k l []
            generalize fpRead fuel s r k l [] = res at h1 ⊢
            obtain ⟨s1, o⟩ := res
            cases o with
            | exc e => exact h1
            | data d =>
              dsimp only
              split
              · exact F.trans h1 (F.close _)
              · exact F.trans (F.trans h1 (F.setlen _ _)) (F.close _)

theorem rawMid_frame {r : Nat} {R : State → State → Prop} (F : RFrame r R) (amt : Option Nat) (s : State) (o : DataOut) :
    R s (rawMid r amt s o).1 := by
  unfold rawMid
  split
  · split
    · dsimp only
      split
      · split
        · split <;> exact F.close _
        · exact F.close _
      · exact F.close _
    · exact F.refl _
  · exact F.refl _

/-- the connections and the `_pool` attribute of the response being read are untouched by the reader -/
def KeepCH (r : Nat) (s s' : State) : Prop :=
  s'.conns = s.conns ∧ ∀ rs' : Resp, s'.resps[r]? = some rs' → ∃ rs : Resp, s.resps[r]? = some rs ∧ rs'.hasPool = rs.hasPool

theorem keepCH_frame (r : Nat) : RFrame r (KeepCH r) where
  refl := fun s => ⟨rfl, fun rs' h => ⟨rs', h, rfl⟩⟩
  trans := by
    intro s t u a b
    refine ⟨by rw [b.1, a.1], ?_⟩
    intro rs' h
    obtain ⟨rt, g1, g2⟩ := b.2 rs' h
    obtain ⟨rs, g3, g4⟩ := a.2 rt g1
    exact ⟨rs, g3, by rw [g2, g4]⟩
  read := by
    intro k s s' m rel
    refine ⟨rel.conns, ?_⟩
    intro rs' h
    have hb : r < s.resps.length := by
      rcases Nat.lt_or_ge r s'.resps.length with h' | h'
      · rw [← rel.rlen]; exact h'
      · rw [List.getElem?_eq_none h'] at h; cases h
    have hrs : s.resps[r]? = some s.resps[r] := List.getElem?_eq_getElem hb
    obtain ⟨b, hb'⟩ := rel.rsame _ hrs
    rw [hb'] at h; cases h
    exact ⟨_, hrs, rfl⟩
  close := by
    intro s
    refine ⟨(closeFp_fields2 s r).1, ?_⟩
    intro rs' h
    unfold closeFp at h
    split at h
    · rename_i h0; rw [h0] at h; cases h
    · rename_i x h0
      split at h
      · exact ⟨rs', h, rfl⟩
      · rw [(noteClose_fields _ _).2.1] at h
        simp [setResp, List.getElem?_modify, h0] at h
        subst h; exact ⟨x, h0, rfl⟩
  setlen := by
    intro s l
    refine ⟨rfl, ?_⟩
    intro rs' h
    simp only [setResp, List.getElem?_modify] at h
    cases hx : s.resps[r]? with
    | none => simp [hx] at h
    | some x => simp [hx] at h; subst h; exact ⟨x, rfl, rfl⟩
  dirty := by
    intro k s s' d
    refine ⟨d.conns, ?_⟩
    intro rs' h
    have hb : r < s.resps.length := by
      rcases Nat.lt_or_ge r s'.resps.length with h' | h'
      · rw [← d.rlen]; exact h'
      · rw [List.getElem?_eq_none h'] at h; cases h
    have hrs : s.resps[r]? = some s.resps[r] := List.getElem?_eq_getElem hb
    obtain ⟨rx, hx, _, _, _, _, _, _, _, _, a9, _⟩ := d.rsame _ hrs
    rw [h] at hx; cases hx
    exact ⟨_, hrs, a9⟩

/-- a successful `read()` on a response that has no `_pool` yet (the preload read inside
`_make_request`) does not touch any connection -/
theorem respRead_nopool_conns {s s' : State} {r : Nat} {d : List Cell} (hp : ∀ rs : Resp, s.resps[r]? = some rs → rs.hasPool = false)
    (hr : respRead s r none = (s', .data d)) : s'.conns = s.conns := by
  unfold respRead at hr
  dsimp only at hr
  rw [rawRead_eq] at hr
  have k1 := httpRead_frame (keepCH_frame r) s none
  generalize httpRead s r none = res at hr k1
  obtain ⟨s1, o1⟩ := res
  dsimp only at hr k1
  have k2 := (keepCH_frame r).trans k1 (rawMid_frame (keepCH_frame r) none s1 o1)
  generalize rawMid r none s1 o1 = mid at hr k2
  obtain ⟨s2, o2⟩ := mid
  dsimp only at hr k2
  have e : (errorCatcherExit s2 r true) = (s2, none) := by
    have e' : (errorCatcherExit s2 r true) = (if respFpClosed s2 r then releaseConn s2 r else (s2, none)) := rfl
    rw [e']
    split
    · unfold releaseConn
      cases hrs2 : s2.resps[r]? with
      | none => rfl
      | some rs2 =>
        obtain ⟨rs, g1, g2⟩ := k2.2 rs2 hrs2
        simp [g2, hp rs g1]
    · rfl
  unfold rawTail at hr
  cases o2 with
  | exc e' =>
    dsimp only at hr
    generalize errorCatcherExit s2 r false = q at hr
    obtain ⟨s3, oe⟩ := q
    cases oe <;> cases hr
  | data d2 =>
    dsimp only at hr
    rw [e] at hr
    cases hr
    exact k2.1

/-! ### `urlopen` -/

theorem linkx_weaken {L X : Option Nat} {s : State} (h : LinkX none X s) : LinkX L X s :=
  ⟨h.nosock, h.bound, fun c cn k r rs h1 h2 h3 h4 =>
    let ⟨q1, q2, q3⟩ := h.pend c cn k r rs h1 h2 h3 h4
    ⟨q1, q2, fun _ => q3 (by intro e; cases e)⟩⟩

/-- connections without a `__response` are unconstrained -/
theorem linkx_frame2 {L X : Option Nat} {s s' : State} (h : LinkX L X s)
    (hc : ∀ (c : Nat) (cn' : Conn), s'.conns[c]? = some cn' → cn'.pending = none ∨
      ∃ cn : Conn, s.conns[c]? = some cn ∧ cn'.sock = cn.sock ∧ cn'.pending = cn.pending)
    (hl : s.resps.length ≤ s'.resps.length)
    (hr : ∀ (r : Nat) (rs' : Resp), s'.resps[r]? = some rs' → r < s.resps.length →
      ∃ rs : Resp, s.resps[r]? = some rs ∧ rs'.fp = rs.fp ∧ rs'.conn = rs.conn ∧ rs'.eofAt = rs.eofAt ∧ (Delim rs → Delim rs') ∧ (Done rs → Done rs')) :
    LinkX L X s' := by
  refine ⟨?_, ?_, ?_⟩
  · intro c cn' h1 h2
    rcases hc c cn' h1 with e | ⟨cn, g1, g2, g3⟩
    · exact e
    · rw [g3]; exact h.nosock c cn g1 (by rw [← g2]; exact h2)
  · intro c cn' r h1 h2
    rcases hc c cn' h1 with e | ⟨cn, g1, g2, g3⟩
    · rw [e] at h2; cases h2
    · exact Nat.lt_of_lt_of_le (h.bound c cn r g1 (by rw [← g3]; exact h2)) hl
  · intro c cn' k r rs' h1 h2 h3 h4
    rcases hc c cn' h1 with e | ⟨cn, g1, g2, g3⟩
    · rw [e] at h3; cases h3
    · have hb := h.bound c cn r g1 (by rw [← g3]; exact h3)
      obtain ⟨rs, q1, q2, q3, q3', q4, q5⟩ := hr r rs' h4 hb
      obtain ⟨p1, p2, p3⟩ := h.pend c cn k r rs g1 (by rw [← g2]; exact h2) (by rw [← g3]; exact h3) q1
      refine ⟨q4 p1, by rw [q2, q3']; exact p2, fun hL => ?_⟩
      have p3' := p3 hL
      rw [q2, q3]
      split
      · rename_i hX; rw [if_pos hX] at p3'; exact p3'
      · rename_i hX; rw [if_neg hX] at p3'; exact ⟨fun hn => q5 (p3'.1 hn), p3'.2⟩

theorem appendConn_linkx {L X : Option Nat} {s : State} (h : LinkX L X s) : LinkX L X (newConn s).1 := by
  refine linkx_frame2 h ?_ (Nat.le_refl _) (fun r rs' h1 _ => ⟨rs', h1, rfl, rfl, rfl, id, id⟩)
  intro c cn' h1
  simp only [newConn, List.getElem?_append] at h1
  split at h1
  · exact Or.inr ⟨cn', h1, rfl, rfl⟩
  · left
    cases hh : [({} : Conn)][c - s.conns.length]? with
    | none => rw [hh] at h1; cases h1
    | some y =>
      rw [hh] at h1; cases h1
      have := List.mem_of_getElem? hh
      simp at this; subst this; rfl

theorem getConn_link {L X : Option Nat} {s : State} (h : LinkX L X s) (si : SockInj s) : LinkX L X (getConn s).1 := by
  unfold getConn
  split
  · exact h
  · split
    · split
      · exact h
      · exact appendConn_linkx h
    · rename_i item rest _
      have hq : LinkX L X { s with queue := rest } := linkx_log h rfl rfl
      cases item with
      | none => exact appendConn_linkx hq
      | some c =>
        simp only
        split
        · exact connClose_linkx c hq (sockInj_conns rfl si)
        · exact hq

/-- giving up the lease on a closed connection -/
theorem link_unlease {c : Nat} {s : State} (h : Link (some c) s) (hc : ∀ cn : Conn, s.conns[c]? = some cn → cn.sock = none) :
    Link none s := by
  refine ⟨h.nosock, h.bound, ?_⟩
  intro c' cn k r rs h1 h2 h3 h4
  obtain ⟨q1, q2, q3⟩ := h.pend c' cn k r rs h1 h2 h3 h4
  refine ⟨q1, q2, fun _ => q3 ?_⟩
  intro e; cases e
  rw [hc cn h1] at h2; cases h2

theorem discard_unlease {c : Nat} {s : State} (h : Link (some c) s) (si : SockInj s) : Link none (discard s (some c)).1 := by
  have h1 : Link none (connClose s c) :=
    link_unlease (connClose_linkx c h si) (fun cn hcn => connClose_sock_none _ _ _ hcn)
  exact putConn_linkx none h1 ((connClose_safe s c).sockInj si)

theorem discard_none_link {L : Option Nat} {s : State} (h : Link L s) (_si : SockInj s) : Link L (discard s none).1 :=
  h

theorem forget_linkx {L X : Option Nat} {s : State} (c : Nat) (h : LinkX L X s) : LinkX L X (forgetClosedPending s c) := by
  unfold forgetClosedPending
  split
  · exact h
  · rename_i cn hcn
    split
    · exact h
    · split
      · exact h
      · split
        · refine linkx_frame2 h ?_ (Nat.le_refl _) (fun r rs' h1 _ => ⟨rs', h1, rfl, rfl, rfl, id, id⟩)
          intro c' cn' h1
          simp only [setConn, List.getElem?_modify] at h1
          cases hx : s.conns[c']? with
          | none => simp [hx] at h1
          | some x =>
            simp [hx] at h1
            by_cases hcc : c = c'
            · simp [hcc] at h1; subst h1; exact Or.inl rfl
            · simp [hcc] at h1; subst h1; exact Or.inr ⟨x, rfl, rfl, rfl⟩
        · exact h

theorem setConn_http_linkx {L X : Option Nat} {s : State} (c : Nat) (g : Conn → Conn) (h : LinkX L X s)
    (hg : ∀ x, (g x).sock = x.sock ∧ (g x).pending = x.pending) : LinkX L X (setConn s c g) := by
  refine linkx_frame2 h ?_ (Nat.le_refl _) (fun r rs' h1 _ => ⟨rs', h1, rfl, rfl, rfl, id, id⟩)
  intro c' cn' h1
  simp only [setConn, List.getElem?_modify] at h1
  cases hx : s.conns[c']? with
  | none => simp [hx] at h1
  | some x =>
    simp [hx] at h1
    by_cases hcc : c = c'
    · simp [hcc] at h1; subst h1; exact Or.inr ⟨x, rfl, (hg x).1, (hg x).2⟩
    · simp [hcc] at h1; subst h1; exact Or.inr ⟨x, rfl, rfl, rfl⟩

theorem connect_linkx {L X : Option Nat} {s : State} {c : Nat} {cn : Conn} (a : Attempt) (h : LinkX L X s)
    (hc : s.conns[c]? = some cn) (hs : cn.sock = none) : LinkX L X (connect s c a).1 := by
  have hp : cn.pending = none := h.nosock c cn hc hs
  unfold connect
  cases a.connect <;> dsimp only
  · refine linkx_frame2 h ?_ (Nat.le_refl _) (fun r rs' h1 _ => ⟨rs', h1, rfl, rfl, rfl, id, id⟩)
    intro c' cn' h1
    simp only [setConn, logEv, List.getElem?_modify] at h1
    cases hx : s.conns[c']? with
    | none => simp [hx] at h1
    | some x =>
      simp [hx] at h1
      by_cases hcc : c = c'
      · subst hcc; rw [hc] at hx; cases hx
        simp at h1; subst h1; exact Or.inl hp
      · simp [hcc] at h1; subst h1; exact Or.inr ⟨x, rfl, rfl, rfl⟩
  · exact linkx_log h rfl rfl
  · exact linkx_log h rfl rfl
  · exact h
  · exact linkx_log h rfl rfl

theorem connRequest_linkx {L X : Option Nat} {s : State} (c rid : Nat) (a : Attempt) (h : LinkX L X s) :
    LinkX L X (connRequest s c rid a).1 := by
  unfold connRequest
  have hF := forget_linkx c h
  generalize forgetClosedPending s c = sF at hF
  dsimp only
  split
  · exact hF
  · rename_i cn hcn
    split
    · exact hF
    · have h1 : LinkX L X (setConn sF c fun x => { x with http := .reqSent }) :=
        setConn_http_linkx c _ hF (fun _ => ⟨rfl, rfl⟩)
      have hc1 : (setConn sF c fun x => { x with http := .reqSent }).conns[c]? = some { cn with http := .reqSent } := by
        simp [setConn, List.getElem?_modify, hcn]
      generalize (setConn sF c fun x => { x with http := .reqSent }) = s1 at h1 hc1
      cases hsock : cn.sock with
      | some k =>
        dsimp only
        cases sendExc a.send with
        | some e => exact h1
        | none => exact linkx_log h1 rfl rfl
      | none =>
        dsimp only
        have h2 := connect_linkx a h1 hc1 hsock
        generalize connect s1 c a = res at h2
        obtain ⟨s2, ek⟩ := res
        cases ek with
        | error e => exact h2
        | ok k =>
          dsimp only
          cases sendExc a.send with
          | some e => exact h2
          | none => exact linkx_log h2 rfl rfl

theorem connReject_linkx {L X : Option Nat} {s : State} (c : Nat) (h : LinkX L X s) :
    LinkX L X (connReject s c).1 := by
  unfold connReject
  have hF := forget_linkx c h
  generalize forgetClosedPending s c = sF at hF
  dsimp only
  split
  · exact hF
  · split
    · exact hF
    · exact setConn_http_linkx c _ hF (fun _ => ⟨rfl, rfl⟩)

theorem connRequestH_linkx {L X : Option Nat} {s : State} (c rid : Nat) (a : Attempt) (bad : Bool) (h : LinkX L X s) :
    LinkX L X (connRequestH s c rid a bad).1 := by
  cases bad with
  | false => exact connRequest_linkx c rid a h
  | true => exact connReject_linkx c h

/-- `getresponse()` = everything up to the construction of the response object, then the preload read -/
theorem getResponse_split (s : State) (c k rid : Nat) (rc : ReqCfg) :
    getResponse s c k rid rc =
      match getResponse s c k rid { rc with preload := false } with
      | (s5, .exc e) => (s5, .exc e)
      | (s5, .resp r) =>
        if rc.preload then
          match respRead s5 r none with
          | (s, .exc e) => (s, .exc e)
          | (s, .data _) => (s, .resp r)
        else (s5, .resp r) := by
  unfold getResponse
  dsimp only
  split
  · rfl
  · split
    · rfl
    · generalize readHead _ _ _ k = res
      obtain ⟨s2, oh⟩ := res
      cases oh with
      | exc e => rfl
      | ok hd =>
        dsimp only
        cases hpre : rc.preload with
        | false => simp
        | true =>
          simp only [Bool.false_eq_true, ↓reduceIte]
          generalize respRead _ _ none = q
          obtain ⟨s6, o6⟩ := q
          cases o6 <;> rfl

theorem sockInj_lookup {s s' : State} (p : SockInj s)
    (h : ∀ (c : Nat) (cn' : Conn) (k : Nat), s'.conns[c]? = some cn' → cn'.sock = some k → ∃ cn : Conn, s.conns[c]? = some cn ∧ cn.sock = some k) :
    SockInj s' := by
  intro c c' cn cn' k h1 h2 h3 h4
  obtain ⟨x, g1, g2⟩ := h c cn k h1 h3
  obtain ⟨y, g3, g4⟩ := h c' cn' k h2 h4
  exact p c c' x y k g1 g3 g2 g4

/-- the state during `getresponse()`, relative to the state `s0` at its start (`HP`): only the leased
connection and the new response differ, so `Link` carries over as long as the leased connection keeps
its socket and `__response` -/
theorem hp_linkx {s0 s : State} {k c : Nat} {cn : Conn} (hp : HP k c s0 s) (h : Link (some c) s0)
    (hc0 : s0.conns[c]? = some cn)
    (hc : ∀ cn' : Conn, s.conns[c]? = some cn' → cn'.pending = none ∨ (cn'.sock = cn.sock ∧ cn'.pending = cn.pending)) :
    Link (some c) s := by
  refine linkx_frame2 h ?_ (by rw [hp.rlen]; omega) ?_
  · intro c' cn' h1
    by_cases hcc : c' = c
    · subst hcc
      rcases hc cn' h1 with e | ⟨e1, e2⟩
      · exact Or.inl e
      · exact Or.inr ⟨cn, hc0, e1, e2⟩
    · rw [hp.cother c' hcc] at h1; exact Or.inr ⟨cn', h1, rfl, rfl⟩
  · intro r rs' h1 hb
    rw [hp.rold r hb] at h1
    exact ⟨rs', h1, rfl, rfl, rfl, id, id⟩

/-- what `_make_request` knows about the response object `getresponse()` built on the leased connection -/
structure NewResp (s' : State) (c k r : Nat) : Prop where
  conn : ∀ cn' : Conn, s'.conns[c]? = some cn' → cn'.sock = none ∨ cn'.pending = some r
  uniq : ∀ (c2 : Nat) (cn2 : Conn), s'.conns[c2]? = some cn2 → cn2.pending = some r → c2 = c
  resp : ∃ rs' : Resp, s'.resps[r]? = some rs' ∧ rs'.fp = some k ∧ rs'.hasPool = false ∧ rs'.conn = none

theorem getResponse_head_link {A : Nat → Attempt → Prop} {s s' : State} {c k rid : Nat} {rc : ReqCfg} {cn0 : Conn} {out : RespOut}
    (p : Prov A s) (h : Link (some c) s) (hc : s.conns[c]? = some cn0) (hk : cn0.sock = some k)
    (hpre : rc.preload = false) (hgr : getResponse s c k rid rc = (s', out)) :
    Link (some c) s' ∧ (∀ r, out = .resp r → NewResp s' c k r) ∧
    (∀ e, out = .exc e → s' = forgetClosedPending s c ∨ ∀ cn' : Conn, s'.conns[c]? = some cn' → cn'.pending = none) := by
  unfold getResponse at hgr
  have hF := forget_linkx c h
  have siF : SockInj (forgetClosedPending s c) := (forget_safe p c).sockInj p.sockInj'
  obtain ⟨fr, fs, fo, fc, _⟩ := forget_fields s c
  obtain ⟨cn, hcn, hksame, _⟩ := fc cn0 hc
  rw [hk] at hksame
  generalize hsF : forgetClosedPending s c = sF at hgr hF siF hcn fr fs fo
  dsimp only at hgr
  rw [hcn] at hgr
  dsimp only at hgr
  split at hgr
  · cases hgr; exact ⟨hF, (by intro r hr; cases hr), fun _ _ => Or.inl rfl⟩
  · rename_i hcheck
    have hpend : cn.pending = none := by
      cases hpp : cn.pending with
      | none => rfl
      | some x => simp [hpp] at hcheck
    generalize hr0 : ({ rid := rid, fp := some k, isHead := rc.isHead } : Resp) = r0 at hgr
    generalize hs1 : ({ sF with resps := sF.resps ++ [r0] } : State) = s1 at hgr
    generalize inboundLen s1 k + 2 = fuel at hgr
    generalize hrh : readHead fuel s1 sF.resps.length k = res at hgr
    obtain ⟨s2, oh⟩ := res
    obtain ⟨m, rel, _⟩ := readHead_rel _ _ _ _ _ _ hrh
    have hp1 : HP k c sF s1 := by rw [← hs1]; exact HP.new k c sF r0
    have hp2 := hp1.read rel
    have hc2 : s2.conns[c]? = some cn := by rw [rel.conns, ← hs1]; exact hcn
    have hr1 : s1.resps[sF.resps.length]? = some r0 := by rw [← hs1]; simp
    obtain ⟨b, hr2⟩ := rel.rsame _ hr1
    -- nobody has the new response as `__response` yet
    have noown : ∀ t : State, HP k c sF t → (∀ cn' : Conn, t.conns[c]? = some cn' → cn'.pending = none) →
        NoOwner (some c) t sF.resps.length := by
      intro t hpt hct c2 cn2 g1 g2
      by_cases hcc : c2 = c
      · subst hcc; rw [hct cn2 g1] at g2; cases g2
      · rw [hpt.cother c2 hcc] at g1
        have := hF.bound c2 cn2 _ g1 g2
        omega
    have sinj : ∀ t : State, HP k c sF t → (∀ cn' : Conn, t.conns[c]? = some cn' → cn'.sock = none ∨ cn'.sock = some k) → SockInj t := by
      intro t hpt hct
      refine sockInj_lookup siF ?_
      intro c2 cn2 k2 g1 g2
      by_cases hcc : c2 = c
      · subst hcc
        rcases hct cn2 g1 with e | e
        · rw [e] at g2; cases g2
        · rw [e] at g2; cases g2; exact ⟨cn, hcn, hksame⟩
      · rw [hpt.cother c2 hcc] at g1; exact ⟨cn2, g1, g2⟩
    cases oh with
    | exc e =>
      cases hgr
      have l2 : Link (some c) s2 := hp_linkx hp2 hF hcn (fun cn' g => by rw [hc2] at g; cases g; exact Or.inr ⟨rfl, rfl⟩)
      have key : ∀ sE : State, Link (some c) sE → HP k c sF sE → (∀ cn' : Conn, sE.conns[c]? = some cn' → cn'.pending = none) →
          Link (some c) (closeFp sE sF.resps.length) ∧ (∀ r, RespOut.exc e = .resp r → NewResp (closeFp sE sF.resps.length) c k r) ∧
          (∀ e', RespOut.exc e = .exc e' → closeFp sE sF.resps.length = sF ∨
            ∀ cn' : Conn, (closeFp sE sF.resps.length).conns[c]? = some cn' → cn'.pending = none) := by
        intro sE lE hpE hcE
        refine ⟨closeFp_linkx lE (Or.inr (fun rs _ => Or.inr (Or.inr (noown sE hpE hcE)))), (by intro r hr; cases hr), ?_⟩
        intro _ _
        right
        rw [(closeFp_fields2 sE sF.resps.length).1]; exact hcE
      split
      · refine key _ (setConn_flag_linkx c _ (connClose_linkx c l2 (sinj s2 hp2 (fun cn' g => by rw [hc2] at g; cases g; exact Or.inr hksame))))
          ((hp2.connClose cn hc2 hpend).setConn _) ?_
        intro cn' g
        cases hx : (connClose s2 c).conns[c]? with
        | none => simp [setConn, List.getElem?_modify, hx] at g
        | some x =>
          simp [setConn, List.getElem?_modify, hx] at g
          have := connClose_conns s2 c
          rw [this] at hx
          simp [List.getElem?_modify, hc2] at hx
          subst hx; subst g; rfl
      · exact key _ l2 hp2 (fun cn' g => by rw [hc2] at g; cases g; exact hpend)
    | ok hd =>
      simp only [hpre, Bool.false_eq_true, if_false] at hgr
      generalize hs3 : (setResp s2 sF.resps.length fun x => { x with length := initLength hd rc.isHead, status := hd.status, chunked := hd.chunked }) = s3
      have hgr' : (if (hd.close || ((initLength hd rc.isHead).isNone && !hd.chunked)) = true then
            connClose (setConn s3 c fun x => { x with http := .idle }) c
          else setConn (setConn s3 c fun x => { x with http := .idle }) c fun x => { x with pending := some sF.resps.length },
          RespOut.resp sF.resps.length) = (s', out) := by rw [← hs3]; exact hgr
      clear hgr
      have hp3 : HP k c sF s3 := by rw [← hs3]; exact hp2.setResp _
      have hr3 : s3.resps[sF.resps.length]? = some { r0 with buf := b, length := initLength hd rc.isHead, status := hd.status, chunked := hd.chunked } := by
        rw [← hs3]; simp [setResp, List.getElem?_modify, hr2]
      have hc3 : s3.conns[c]? = some cn := by rw [← hs3]; exact hc2
      generalize hs4 : (setConn s3 c fun x => { x with http := .idle }) = s4 at hgr'
      have hp4 : HP k c sF s4 := by rw [← hs4]; exact hp3.setConn _
      have hr4 : s4.resps[sF.resps.length]? = some { r0 with buf := b, length := initLength hd rc.isHead, status := hd.status, chunked := hd.chunked } := by
        rw [← hs4]; exact hr3
      have hc4 : s4.conns[c]? = some { cn with http := .idle } := by
        rw [← hs4]; simp [setConn, List.getElem?_modify, hc3]
      have l4 : Link (some c) s4 := hp_linkx hp4 hF hcn (fun cn' g => by rw [hc4] at g; cases g; exact Or.inr ⟨rfl, rfl⟩)
      have rfacts : ∃ rs' : Resp, s4.resps[sF.resps.length]? = some rs' ∧ rs'.fp = some k ∧ rs'.hasPool = false ∧ rs'.conn = none :=
        ⟨_, hr4, by rw [← hr0], by rw [← hr0], by rw [← hr0]⟩
      by_cases hw : (hd.close || ((initLength hd rc.isHead).isNone && !hd.chunked)) = true
      · rw [if_pos hw] at hgr'
        cases hgr'
        obtain ⟨e1, e2, e3⟩ := connClose_fields_nopending s4 c _ hc4 hpend
        refine ⟨connClose_linkx c l4 (sinj s4 hp4 (fun cn' g => by rw [hc4] at g; cases g; exact Or.inr hksame)), ?_,
          by intro e he; cases he⟩
        intro r hr; cases hr
        refine ⟨fun cn' g => Or.inl (connClose_sock_none _ _ _ g), ?_, by rw [e1]; exact rfacts⟩
        intro c2 cn2 g1 g2
        apply Classical.byContradiction
        intro hcc
        rw [e3] at g1
        simp [List.getElem?_modify, Ne.symm hcc] at g1
        rw [hp4.cother c2 hcc] at g1
        have := hF.bound c2 cn2 _ g1 g2
        omega
      · rw [if_neg hw] at hgr'
        cases hgr'
        have hc5 : (setConn s4 c fun x => { x with pending := some sF.resps.length }).conns[c]? =
            some { cn with http := .idle, pending := some sF.resps.length } := by
          simp [setConn, List.getElem?_modify, hc4]
        have hlen : (initLength hd rc.isHead).isSome = true ∨ hd.chunked = true := by
          cases hq : initLength hd rc.isHead with
          | none => simp [hq] at hw; exact Or.inr hw.2
          | some l => exact Or.inl rfl
        refine ⟨⟨?_, ?_, ?_⟩, ?_, by intro e he; cases he⟩
        · intro c2 cn2 g1 g2
          by_cases hcc : c2 = c
          · subst hcc; rw [hc5] at g1; cases g1
            rw [hksame] at g2; cases g2
          · have g1' : s4.conns[c2]? = some cn2 := by
              simpa [setConn, List.getElem?_modify, Ne.symm hcc] using g1
            exact l4.nosock c2 cn2 g1' g2
        · intro c2 cn2 r g1 g2
          show r < s4.resps.length
          by_cases hcc : c2 = c
          · subst hcc; rw [hc5] at g1; cases g1
            cases g2
            rw [hp4.rlen]; omega
          · have g1' : s4.conns[c2]? = some cn2 := by
              simpa [setConn, List.getElem?_modify, Ne.symm hcc] using g1
            exact l4.bound c2 cn2 r g1' g2
        · intro c2 cn2 k2 r rs g1 g2 g3 g4
          have g4' : s4.resps[r]? = some rs := g4
          by_cases hcc : c2 = c
          · subst hcc; rw [hc5] at g1; cases g1
            cases g3
            rw [hksame] at g2; cases g2
            rw [hr4] at g4'; cases g4'
            refine ⟨hlen, ?_, fun hL => absurd rfl hL⟩
            intro k' hk'
            rcases hk' with hk' | hk'
            · have : r0.fp = some k' := hk'
              rw [← hr0] at this; cases this; rfl
            · have : r0.eofAt = some k' := hk'
              rw [← hr0] at this; cases this
          · have g1' : s4.conns[c2]? = some cn2 := by
              simpa [setConn, List.getElem?_modify, Ne.symm hcc] using g1
            exact l4.pend c2 cn2 k2 r rs g1' g2 g3 g4'
        · intro r hr; cases hr
          refine ⟨fun cn' g => by rw [hc5] at g; cases g; exact Or.inr rfl, ?_, rfacts⟩
          intro c2 cn2 g1 g2
          apply Classical.byContradiction
          intro hcc
          have g1' : s4.conns[c2]? = some cn2 := by
            simpa [setConn, List.getElem?_modify, Ne.symm hcc] using g1
          rw [hp4.cother c2 hcc] at g1'
          have := hF.bound c2 cn2 _ g1' g2
          omega

/-! ### which exceptions a read can raise (needed only to see that a failed preload read is never the
`EmptyPoolError` that `urlopen` lets through without cleaning up) -/

/-- classes raised by the reader before `_error_catcher` translates them -/
def rawCls : List Nat :=
  [Gen.cOSError, Gen.cTimeoutError, Gen.cConnectionResetError, Gen.cKeyboardInterrupt, Gen.cHttpIncompleteRead,
   Gen.cU3IncompleteRead, Gen.cLineTooLong]

theorem recvInto_cls (s : State) (r k room : Nat) (e : Exc) (h : (recvInto s r k room).2 = .exc e) : e.cls ∈ rawCls := by
  unfold recvInto at h
  dsimp only at h
  split at h
  · cases h; simp [rawCls]
  · split at h
    · split at h <;> cases h <;> simp [rawCls, exc]
    · cases h

theorem fpRead_cls : ∀ (fuel : Nat) (s : State) (r k n : Nat) (acc : List Cell) (e : Exc),
    (fpRead fuel s r k n acc).2 = .exc e → e.cls ∈ rawCls := by
  intro fuel
  induction fuel with
  | zero => intro s r k n acc e h; simp [fpRead] at h
  | succ fuel ih =>
    intro s r k n acc e h
    unfold fpRead at h
    split at h
    · cases h
    · split at h
      · cases h
      · dsimp only at h
        have := recvInto_cls (setResp s r fun x => { x with buf := [] }) r k bufSize
        generalize recvInto (setResp s r fun x => { x with buf := [] }) r k bufSize = res at h this
        obtain ⟨s2, o⟩ := res
        cases o with
        | got => exact ih _ _ _ _ _ _ h
        | eof => cases h
        | exc e' => cases h; exact this e rfl

theorem fpReadAll_cls : ∀ (fuel : Nat) (s : State) (r k : Nat) (acc : List Cell) (e : Exc),
    (fpReadAll fuel s r k acc).2 = .exc e → e.cls ∈ rawCls := by
  intro fuel
  induction fuel with
  | zero => intro s r k acc e h; simp [fpReadAll] at h
  | succ fuel ih =>
    intro s r k acc e h
    unfold fpReadAll at h
    split at h
    · cases h
    · dsimp only at h
      have := recvInto_cls (setResp s r fun x => { x with buf := [] }) r k bufSize
      generalize recvInto (setResp s r fun x => { x with buf := [] }) r k bufSize = res at h this
      obtain ⟨s2, o⟩ := res
      cases o with
      | got => exact ih _ _ _ _ _ h
      | eof => cases h
      | exc e' => cases h; exact this e rfl

theorem fpReadline_cls : ∀ (fuel : Nat) (s : State) (r k : Nat) (acc : List Cell) (e : Exc),
    (fpReadline fuel s r k acc).2 = .exc e → e.cls ∈ rawCls := by
  intro fuel
  induction fuel with
  | zero => intro s r k acc e h; simp [fpReadline] at h; subst h; simp [rawCls, exc]
  | succ fuel ih =>
    intro s r k acc e h
    unfold fpReadline at h
    split at h
    · cases h
    · split at h
      · cases h
      · dsimp only at h
        have := recvInto_cls (setResp s r fun x => { x with buf := [] }) r k bufSize
        generalize recvInto (setResp s r fun x => { x with buf := [] }) r k bufSize = res at h this
        obtain ⟨s2, o⟩ := res
        cases o with
        | got => exact ih _ _ _ _ _ h
        | eof => cases h
        | exc e' => cases h; exact this e rfl

theorem safeRead_cls (s : State) (r k n : Nat) (e : Exc) (h : (safeRead s r k n).2 = .exc e) : e.cls ∈ rawCls := by
  unfold safeRead at h
  have h1 := fpRead_cls (inboundLen s k + 2) s r k n []
  generalize fpRead (inboundLen s k + 2) s r k n [] = res at h h1
  obtain ⟨s1, o⟩ := res
  cases o with
  | exc e' => cases h; exact h1 e rfl
  | data d =>
    dsimp only at h
    split at h
    · cases h; simp [rawCls, exc]
    · cases h

theorem hcDiscardTrailer_cls (r k : Nat) : ∀ (fuel : Nat) (s : State) (e : Exc),
    (hcDiscardTrailer fuel s r k).2 = some e → e.cls ∈ rawCls := by
  intro fuel
  induction fuel with
  | zero => intro s e h; simp [hcDiscardTrailer] at h; subst h; simp [rawCls, exc]
  | succ fuel ih =>
    intro s e h
    unfold hcDiscardTrailer at h
    have h1 := fpReadline_cls (inboundLen s k + 2) s r k []
    generalize fpReadline (inboundLen s k + 2) s r k [] = res at h h1
    obtain ⟨s1, o⟩ := res
    cases o with
    | exc e' => cases h; exact h1 e rfl
    | data line =>
      dsimp only at h
      split at h
      · cases h
      · split at h
        · cases h
        · exact ih s1 e h

theorem hcNext_cls (s : State) (r k : Nat) (cl : Option Nat) (e : Exc) (h : (hcNext s r k cl).2 = .exc e) : e.cls ∈ rawCls := by
  unfold hcNext at h
  have h0 : ∀ e', (hcToss s r k cl).2 = some e' → e'.cls ∈ rawCls := by
    intro e' h'
    unfold hcToss at h'
    split at h'
    · have hs := safeRead_cls s r k 2
      generalize safeRead s r k 2 = res at h' hs
      obtain ⟨s1, o⟩ := res
      cases o with
      | exc e2 => cases h'; exact hs _ rfl
      | data d => cases h'
    · cases h'
  generalize hcToss s r k cl = res at h h0
  obtain ⟨s1, oe⟩ := res
  cases oe with
  | some e' => cases h; exact h0 e rfl
  | none =>
    dsimp only at h
    have h1 := fpReadline_cls (inboundLen s1 k + 2) s1 r k []
    generalize fpReadline (inboundLen s1 k + 2) s1 r k [] = res at h h1
    obtain ⟨s2, o⟩ := res
    cases o with
    | exc e' => cases h; exact h1 e rfl
    | data line =>
      dsimp only at h
      split at h
      · cases h; simp [rawCls, exc]
      · have h2 := hcDiscardTrailer_cls r k (inboundLen s2 k + (match s2.resps[r]? with | some rs => rs.buf.length | none => 0) + 2) s2
        generalize hcDiscardTrailer (inboundLen s2 k + (match s2.resps[r]? with | some rs => rs.buf.length | none => 0) + 2) s2 r k = res at h h2
        obtain ⟨s3, oe⟩ := res
        cases oe with
        | some e' => cases h; exact h2 e rfl
        | none => cases h
      · cases h

theorem hcGetChunkLeft_cls (s : State) (r k : Nat) (e : Exc) (h : (hcGetChunkLeft s r k).2 = .exc e) : e.cls ∈ rawCls := by
  unfold hcGetChunkLeft at h
  split at h
  · cases h
  · exact hcNext_cls _ _ _ _ _ h

theorem hcReadChunked_cls (r k : Nat) : ∀ (fuel : Nat) (s : State) (amt : Option Nat) (acc : List Cell) (e : Exc),
    (hcReadChunked fuel s r k amt acc).2 = .exc e → e.cls ∈ rawCls := by
  intro fuel
  induction fuel with
  | zero => intro s amt acc e h; simp [hcReadChunked] at h; subst h; simp [rawCls, exc]
  | succ fuel ih =>
    intro s amt acc e h
    unfold hcReadChunked at h
    have h0 := hcGetChunkLeft_cls s r k
    generalize hcGetChunkLeft s r k = res at h h0
    obtain ⟨s1, lo⟩ := res
    cases lo with
    | exc e' => cases h; exact h0 e rfl
    | left v =>
      cases v with
      | none => cases h
      | some cl =>
        dsimp only at h
        split at h
        · rename_i n _
          have h1 := safeRead_cls s1 r k n
          generalize safeRead s1 r k n = res at h h1
          obtain ⟨s2, o⟩ := res
          cases o with
          | exc e' => cases h; exact h1 e rfl
          | data d => cases h
        · have h1 := safeRead_cls s1 r k cl
          generalize safeRead s1 r k cl = res at h h1
          obtain ⟨s2, o⟩ := res
          cases o with
          | exc e' => cases h; exact h1 e rfl
          | data d => exact ih _ _ _ e h

theorem httpRead_cls (s : State) (r : Nat) (amt : Option Nat) (e : Exc) (h : (httpRead s r amt).2 = .exc e) : e.cls ∈ rawCls := by
  unfold httpRead at h
  split at h
  · cases h
  · rename_i rs hrs
    split at h
    · cases h
    · rename_i k hk
      split at h
      · cases h
      · split at h
        · exact hcReadChunked_cls r k _ s amt [] e h
        dsimp only at h
        generalize inboundLen s k + 2 = fuel at h
        cases amt with
        | some n =>
          dsimp only at h
          cases hlen0 : rs.length with
          | none =>
            simp only [hlen0] at h
            have h1 := fpRead_cls fuel s r k n []
            generalize fpRead fuel s r k n [] = res at h h1
            obtain ⟨s1, o⟩ := res
            cases o with
            | exc e' => cases h; exact h1 e rfl
            | data d => dsimp only at h; split at h <;> cases h
          | some l =>
            simp only [hlen0] at h
            have key : ∀ n' : Nat, (match fpRead fuel s r k n' [] with
                | (s, DataOut.exc e) => (s, DataOut.exc e)
                | (s, DataOut.data d) =>
                  if (d.isEmpty && n' != 0) = true then (closeFp s r, DataOut.data d)
                  else
                    (if l - d.length = 0 then
                        closeFp (setResp s r fun x => { x with length := some (l - d.length) }) r
                      else setResp s r fun x => { x with length := some (l - d.length) },
                      DataOut.data d)).2 = DataOut.exc e → e.cls ∈ rawCls := by
              intro n' h'
              have h1 := fpRead_cls fuel s r k n' []
              generalize fpRead fuel s r k n' [] = res at h' h1
              obtain ⟨s1, o⟩ := res
              cases o with
              | exc e' => cases h'; exact h1 e rfl
              | data d =>
                dsimp only at h'
                split at h'
                · cases h'
                · split at h' <;> cases h'
            exact key _ h
        | none =>
          dsimp only at h
          cases hlen0 : rs.length with
          | none =>
            simp only [hlen0] at h
            have h1 := fpReadAll_cls fuel s r k []
            generalize fpReadAll fuel s r k [] = res at h h1
            obtain ⟨s1, o⟩ := res
            cases o with
            | exc e' => cases h; exact h1 e rfl
            | data d => cases h
          | some l =>
            simp only [hlen0] at h
            have h1 := fpRead_cls fuel s r k l []
            generalize fpRead fuel s r k l [] = res at h h1
            obtain ⟨s1, o⟩ := res
            cases o with
            | exc e' => cases h; exact h1 e rfl
            | data d =>
              dsimp only at h
              split at h
              · cases h; simp [rawCls, exc]
              · cases h

theorem rawMid_cls (r : Nat) (amt : Option Nat) (s : State) (o : DataOut) (e : Exc)
    (ho : ∀ e', o = .exc e' → e'.cls ∈ rawCls) (h : (rawMid r amt s o).2 = .exc e) : e.cls ∈ rawCls := by
  unfold rawMid at h
  split at h
  · split at h
    · dsimp only at h
      split at h
      · split at h
        · split at h
          · cases h; simp [rawCls, exc]
          · cases h
        · cases h
      · cases h
    · cases h
  · exact ho e h

theorem putConn_exc (s : State) (x : Option Nat) (e : Exc) (h : (putConn s x).2 = some e) : e.cls = Gen.cU3FullPoolError := by
  unfold putConn at h
  dsimp only at h
  split at h
  · split at h
    · cases h
    · split at h
      · cases h; rfl
      · cases h
  · cases h

theorem releaseConn_exc (s : State) (r : Nat) (e : Exc) (h : (releaseConn s r).2 = some e) : e.cls = Gen.cU3FullPoolError := by
  unfold releaseConn at h
  split at h
  · cases h
  · split at h
    · cases h
    · split at h
      · cases h
      · rename_i c _
        have := putConn_exc s (some c)
        generalize putConn s (some c) = res at h this
        obtain ⟨s1, o⟩ := res
        cases o with
        | some e' => cases h; exact this e rfl
        | none => cases h

theorem errorCatcherExit_exc (s : State) (r : Nat) (b : Bool) (e : Exc) (h : (errorCatcherExit s r b).2 = some e) :
    e.cls = Gen.cU3FullPoolError := by
  have key : ∀ t : State, (if respFpClosed t r then releaseConn t r else (t, none)).2 = some e → e.cls = Gen.cU3FullPoolError := by
    intro t ht
    split at ht
    · exact releaseConn_exc t r e ht
    · cases ht
  cases b with
  | true => exact key s h
  | false => exact key (respClose s r) h

/-- the exceptions `_raw_read` can raise -/
theorem rawRead_cls {s s' : State} {r : Nat} {amt : Option Nat} {e : Exc} (h : rawRead s r amt = (s', .exc e)) :
    e.cls = Gen.cU3FullPoolError ∨ ∃ e0 : Exc, e0.cls ∈ rawCls ∧ e = translateRead e0 := by
  rw [rawRead_eq] at h
  have h1 := httpRead_cls s r amt
  generalize httpRead s r amt = res at h h1
  obtain ⟨s1, o1⟩ := res
  dsimp only at h h1
  have h2 := rawMid_cls r amt s1 o1
  generalize rawMid r amt s1 o1 = mid at h h2
  obtain ⟨s2, o2⟩ := mid
  dsimp only at h h2
  unfold rawTail at h
  cases o2 with
  | exc e2 =>
    dsimp only at h
    have h3 := errorCatcherExit_exc s2 r false
    generalize errorCatcherExit s2 r false = q at h h3
    obtain ⟨s3, oe⟩ := q
    cases oe with
    | some e' => cases h; exact Or.inl (h3 e rfl)
    | none =>
      cases h
      exact Or.inr ⟨e2, h2 e2 (fun e' he' => h1 e' he') rfl, rfl⟩
  | data d =>
    dsimp only at h
    have h3 := errorCatcherExit_exc s2 r true
    generalize errorCatcherExit s2 r true = q at h h3
    obtain ⟨s3, oe⟩ := q
    cases oe with
    | some e' => cases h; exact Or.inl (h3 e rfl)
    | none => cases h

theorem not_noCleanup_of {cls : Nat} (u : Bool) (rt : Retry) (m : Bool)
    (h1 : isInst cls (Gen.urlopenHandlers.getD 1 []) = false) : handleError u rt m cls ≠ .noCleanup := by
  unfold handleError
  rw [h1]
  simp only [Bool.false_eq_true, if_false]
  split
  · split <;> simp
  · simp

/-- the class of a translated read error depends on the class only -/
def trCls (c : Nat) : Nat := (translateRecv (translateRead (exc c))).cls

theorem translateRecv_cls (e : Exc) : (translateRecv e).cls = (translateRecv { cls := e.cls }).cls := by
  unfold translateRecv
  simp only [exc]
  split <;> rfl

theorem trCls_eq (e0 : Exc) : (translateRecv (translateRead e0)).cls = trCls e0.cls := by
  have recv := translateRecv_cls
  unfold trCls translateRead
  simp only [exc]
  by_cases h0 : isInst e0.cls (Gen.errorCatcherHandlers.getD 0 []) = true
  · simp only [h0, if_true]
  · by_cases h1 : isInst e0.cls (Gen.errorCatcherHandlers.getD 1 []) = true
    · simp only [h0, h1, if_true, if_false]
    · by_cases h2 : isInst e0.cls (Gen.errorCatcherHandlers.getD 2 []) = true
      · simp only [h0, h1, h2, if_true, if_false]
      · by_cases h3 : isInst e0.cls (Gen.errorCatcherHandlers.getD 3 []) = true
        · simp only [h0, h1, h2, h3, if_true, if_false]
        · simp only [h0, h1, h2, h3, if_false]
          exact recv e0

theorem readExc_not_noCleanup {e : Exc} (u : Bool) (rt : Retry) (m : Bool)
    (h : e.cls = Gen.cU3FullPoolError ∨ ∃ e0 : Exc, e0.cls ∈ rawCls ∧ e = translateRead e0) :
    handleError u rt m (translateRecv e).cls ≠ .noCleanup := by
  apply not_noCleanup_of
  rcases h with h | ⟨e0, h0, rfl⟩
  · rw [translateRecv_cls, h]
    decide
  · rw [trCls_eq]
    have : ∀ c ∈ rawCls, isInst (trCls c) (Gen.urlopenHandlers.getD 1 []) = false := by decide
    exact this _ h0

/-! ### a trailer section that ends at EOF: the socket has the FIN pending (the checkout probe will see it) -/

theorem recvInto_eof_readable {s s' : State} {r k room : Nat} (h : recvInto s r k room = (s', .eof)) :
    sockReadable s' k = true ∧ s'.resps = s.resps := by
  unfold recvInto at h
  dsimp only at h
  split at h
  · cases h
  · rename_i sk hsk
    split at h
    · rename_i hin
      split at h
      · rename_i haf
        cases h
        refine ⟨?_, rfl⟩
        unfold sockReadable
        have hsk' : (logEv s (.recv k)).socks[k]? = some sk := hsk
        simp [hsk', haf]
      · cases h
      · cases h
      · cases h
    · cases h

theorem fpReadline_empty_eof : ∀ (fuel : Nat) (s s' : State) (r k : Nat) (acc : List Cell),
    fpReadline fuel s r k acc = (s', .data []) → (∃ rs : Resp, s.resps[r]? = some rs) →
    sockReadable s' k = true := by
  intro fuel
  induction fuel with
  | zero => intro s s' r k acc h; simp [fpReadline] at h
  | succ fuel ih =>
    intro s s' r k acc h ⟨rs0, hrs0⟩
    unfold fpReadline at h
    simp only [hrs0] at h
    split at h
    · rename_i n hn
      exfalso
      obtain ⟨g1, g2⟩ := eolIdx_pos _ _ _ hn
      simp at h
      rcases h.2.2 with e | e
      · omega
      · rw [e] at g2; simp at g2; omega
    · generalize hrv : recvInto (setResp s r fun x => { x with buf := [] }) r k bufSize = res at h
      obtain ⟨s2, o⟩ := res
      cases o with
      | got =>
        dsimp only at h
        have hex : ∃ rs : Resp, s2.resps[r]? = some rs := by
          have rel := recvInto_rel (setResp s r fun x => { x with buf := [] }) r k bufSize
          rw [hrv] at rel
          obtain ⟨b, hb⟩ := rel.rsame _ (setResp_at (fun x => { x with buf := [] }) hrs0)
          exact ⟨_, hb⟩
        exact ih s2 s' r k _ h hex
      | eof =>
        simp at h
        obtain ⟨rfl, _⟩ := h
        exact (recvInto_eof_readable hrv).1
      | exc e => cases h

theorem setResp_readable (s : State) (r k : Nat) (g : Resp → Resp) : sockReadable (setResp s r g) k = sockReadable s k := rfl

/-- the trailer loop of `read_chunked` ended, and not because it saw the empty line: the peer's FIN is pending -/
theorem skipTrailers_eof (r k : Nat) : ∀ (fuel : Nat) (s s' : State), skipTrailers fuel s r k = (s', none) →
    (∃ rs : Resp, s.resps[r]? = some rs) → (∀ rs' : Resp, s'.resps[r]? = some rs' → rs'.eom = false) →
    sockReadable s' k = true := by
  intro fuel
  induction fuel with
  | zero => intro s s' h; simp [skipTrailers] at h
  | succ fuel ih =>
    intro s s' h hex hne
    unfold skipTrailers at h
    generalize hfr : fpReadline (inboundLen s k + 2) s r k [] = res at h
    obtain ⟨s1, o⟩ := res
    have hex1 : ∃ rs : Resp, s1.resps[r]? = some rs := by
      obtain ⟨m, rel, _⟩ := fpReadline_rel _ _ _ _ _ _ _ hfr
      obtain ⟨rs0, h0⟩ := hex
      obtain ⟨b, hb⟩ := rel.rsame rs0 h0
      exact ⟨_, hb⟩
    cases o with
    | exc e => cases h
    | data line =>
      dsimp only at h
      split at h
      · rename_i hemp
        cases h
        have : line = [] := by simpa using hemp
        subst this
        rw [setResp_readable]
        exact fpReadline_empty_eof _ s s1 r k [] hfr hex
      · split at h
        · cases h
          exfalso
          obtain ⟨rs1, h1⟩ := hex1
          have := hne _ (setResp_at (fun x => { x with eom := true }) h1)
          cases this
        · exact ih s1 s' h hex1 hne

/-- … and the same for `http.client`'s `_read_and_discard_trailer` -/
theorem hcDiscardTrailer_eof (r k : Nat) : ∀ (fuel : Nat) (s s' : State), hcDiscardTrailer fuel s r k = (s', none) →
    (∃ rs : Resp, s.resps[r]? = some rs) → (∀ rs' : Resp, s'.resps[r]? = some rs' → rs'.eom = false) →
    sockReadable s' k = true := by
  intro fuel
  induction fuel with
  | zero => intro s s' h; simp [hcDiscardTrailer] at h
  | succ fuel ih =>
    intro s s' h hex hne
    unfold hcDiscardTrailer at h
    generalize hfr : fpReadline (inboundLen s k + 2) s r k [] = res at h
    obtain ⟨s1, o⟩ := res
    have hex1 : ∃ rs : Resp, s1.resps[r]? = some rs := by
      obtain ⟨m, rel, _⟩ := fpReadline_rel _ _ _ _ _ _ _ hfr
      obtain ⟨rs0, h0⟩ := hex
      obtain ⟨b, hb⟩ := rel.rsame rs0 h0
      exact ⟨_, hb⟩
    cases o with
    | exc e => cases h
    | data line =>
      dsimp only at h
      split at h
      · rename_i hemp
        cases h
        have : line = [] := by simpa using hemp
        subst this
        rw [setResp_readable]
        exact fpReadline_empty_eof _ s s1 r k [] hfr hex
      · split at h
        · cases h
          exfalso
          obtain ⟨rs1, h1⟩ := hex1
          have := hne _ (setResp_at (fun x => { x with eom := true }) h1)
          cases this
        · exact ih s1 s' h hex1 hne

theorem link_unlease2 {c : Nat} {s : State} (h : Link (some c) s) (hc : ∀ cn : Conn, s.conns[c]? = some cn → cn.pending = none) :
    Link none s := by
  refine ⟨h.nosock, h.bound, ?_⟩
  intro c' cn k r rs h1 h2 h3 h4
  obtain ⟨q1, q2, q3⟩ := h.pend c' cn k r rs h1 h2 h3 h4
  refine ⟨q1, q2, fun _ => q3 ?_⟩
  intro e; cases e
  rw [hc cn h1] at h3; cases h3

theorem respRead_none_exc {s s' : State} {r : Nat} {e : Exc} (h : respRead s r none = (s', .exc e)) :
    rawRead s r none = (s', .exc e) := by
  unfold respRead at h
  dsimp only at h
  generalize rawRead s r none = res at h ⊢
  obtain ⟨s1, o⟩ := res
  cases o with
  | exc e' => cases h; rfl
  | data d => cases h

theorem respRead_none_closed {A : Nat → Attempt → Prop} {s s' : State} {r : Nat} {d : List Cell} (p : Prov A s)
    (h : respRead s r none = (s', .data d)) : respFpClosed s' r = true := by
  have pf := focus_intro p r
  unfold respRead at h
  dsimp only at h
  generalize hrr : rawRead s r none = res at h
  obtain ⟨s1, o⟩ := res
  obtain ⟨_, _, q3⟩ := rawRead_prov pf hrr
  cases o with
  | exc e' => cases h
  | data d' =>
    cases h
    have hc := q3 rfl d rfl
    rw [respFpClosed_iff] at hc ⊢
    intro rs' h3
    obtain ⟨rs1, g1, g2, _⟩ := deliver_resps s1 r d rs' h3
    rw [g2]; exact hc rs1 g1

/-- what `_make_request` knows about the response `getresponse()` returned -/
structure NewResp2 (s' : State) (c r : Nat) (preload : Bool) : Prop where
  conn : ∀ cn' : Conn, s'.conns[c]? = some cn' → cn'.sock = none ∨ cn'.pending = some r
  resp : ∀ rs' : Resp, s'.resps[r]? = some rs' →
    (if preload then rs'.fp = none ∧ (Done rs' ∨ ¬ Delim rs')
     else rs'.fp ≠ none ∧ ∀ (c2 : Nat) (cn2 : Conn), s'.conns[c2]? = some cn2 → cn2.pending = some r → c2 = c)

theorem getResponse_link {A : Nat → Attempt → Prop} {s s' : State} {c k rid : Nat} {rc : ReqCfg} {a : Attempt}
    {cn0 : Conn} {sk : Sock} {out : RespOut}
    (p : Prov A s) (h : Link none s) (hc : s.conns[c]? = some cn0) (hk : cn0.sock = some k) (hsk : s.socks[k]? = some sk)
    (hin : (∃ H, NoHd H ∧ sk.inbound = H ++ serverNow rid a) ∨ sk.inbound = []) (hA : A rid a)
    (hgr : getResponse s c k rid rc = (s', out)) :
    Link (some c) s' ∧ (∀ r, out = .resp r → NewResp2 s' c r rc.preload) ∧
    (∀ e, out = .exc e → Link none s' ∨ e.cls = Gen.cU3FullPoolError ∨ ∃ e0 : Exc, e0.cls ∈ rawCls ∧ e = translateRead e0) := by
  rw [getResponse_split] at hgr
  generalize hh : getResponse s c k rid { rc with preload := false } = res at hgr
  obtain ⟨s5, o5⟩ := res
  have p5 := getResponse_prov p hc hk hsk hin hA hh
  obtain ⟨l5, n5, e5⟩ := getResponse_head_link p (linkx_weaken h) hc hk rfl hh
  cases o5 with
  | exc e =>
    dsimp only at hgr
    cases hgr
    refine ⟨l5, (by intro r hr; cases hr), ?_⟩
    intro e' he'
    left
    rcases e5 e rfl with q | q
    · rw [q]; exact forget_linkx c h
    · exact link_unlease2 l5 q
  | resp r =>
    dsimp only at hgr
    obtain ⟨nc, nu, rs5, hr5, hfp5, hpool5, _⟩ := n5 r rfl
    cases hpre : rc.preload with
    | false =>
      simp only [hpre, Bool.false_eq_true, if_false] at hgr
      cases hgr
      refine ⟨l5, ?_, by intro e he; cases he⟩
      intro r' hr'; cases hr'
      refine ⟨nc, ?_⟩
      intro rs' hrs'
      rw [hr5] at hrs'; cases hrs'
      simp only [Bool.false_eq_true, if_false]
      exact ⟨by rw [hfp5]; simp, nu⟩
    | true =>
      simp only [hpre, if_true] at hgr
      generalize hrr : respRead s5 r none = res at hgr
      obtain ⟨s6, o6⟩ := res
      have hopen : respFpClosed s5 r = false := by simp [respFpClosed, hr5, hfp5]
      obtain ⟨l6, post⟩ := respRead_link p5 l5 hrr
      cases o6 with
      | exc e =>
        cases hgr
        refine ⟨l6, (by intro r hr; cases hr), ?_⟩
        intro e' he'; cases he'
        exact Or.inr (rawRead_cls (respRead_none_exc hrr))
      | data d =>
        cases hgr
        refine ⟨l6, ?_, by intro e he; cases he⟩
        intro r' hr'; cases hr'
        have hcon : s'.conns = s5.conns :=
          respRead_nopool_conns (fun rs hrs => by rw [hr5] at hrs; cases hrs; exact hpool5) hrr
        have hcl := respRead_none_closed p5 hrr
        rw [respFpClosed_iff] at hcl
        refine ⟨by rw [hcon]; exact nc, ?_⟩
        intro rs6 hr6
        simp only [if_true]
        refine ⟨hcl rs6 hr6, ?_⟩
        rcases post rfl hopen d rfl rs6 hr6 with o | o | o
        · exact absurd (hcl rs6 hr6) o
        · exact Or.inl o
        · exact Or.inr o

/-- `response._connection = response_conn; response._pool = self` ends the lease -/
theorem attach_link {s : State} {c r : Nat} {preload : Bool} {v : Option Nat} (h : Link (some c) s)
    (n : NewResp2 s c r preload) (hv : preload = true ∨ v = some c) :
    Link none (setResp s r fun x => { x with conn := v, hasPool := true }) := by
  refine ⟨h.nosock, by simpa [setResp] using h.bound, ?_⟩
  intro c2 cn2 k2 r2 rs2 h1 h2 h3 h4
  have h1' : s.conns[c2]? = some cn2 := h1
  simp only [setResp, List.getElem?_modify] at h4
  cases hx : s.resps[r2]? with
  | none => simp [hx] at h4
  | some x =>
    simp [hx] at h4
    obtain ⟨q1, q2, q3⟩ := h.pend c2 cn2 k2 r2 x h1' h2 h3 hx
    simp only [reduceCtorEq, if_false] at q3 ⊢
    by_cases hcc : c2 = c
    · subst hcc
      have hr2 : r2 = r := by
        rcases n.conn cn2 h1' with e | e
        · rw [h2] at e; cases e
        · rw [h3] at e; cases e; rfl
      subst hr2
      simp at h4; subst h4
      have nr := n.resp x hx
      refine ⟨q1, q2, fun _ => ?_⟩
      cases preload with
      | true =>
        simp only [if_true] at nr
        refine ⟨fun _ => ?_, fun hne => absurd nr.1 hne⟩
        rcases nr.2 with o | o
        · exact o
        · exact absurd q1 o
      | false =>
        simp only [Bool.false_eq_true, if_false] at nr
        refine ⟨fun hn => absurd hn nr.1, fun _ => ?_⟩
        rcases hv with hv | hv
        · cases hv
        · exact hv
    · have q3' := q3 (by intro e; cases e; exact hcc rfl)
      by_cases hrr : r = r2
      · subst hrr
        simp at h4; subst h4
        refine ⟨q1, q2, fun _ => ⟨q3'.1, fun hne => ?_⟩⟩
        have nr := n.resp x hx
        cases preload with
        | true => simp only [if_true] at nr; exact absurd nr.1 hne
        | false =>
          simp only [Bool.false_eq_true, if_false] at nr
          exact absurd (nr.2 c2 cn2 h1' h3) hcc
      · simp [hrr] at h4; subst h4
        exact ⟨q1, q2, fun _ => q3'⟩

theorem makeRequest_link {A : Nat → Attempt → Prop} {s s' : State} {c rid : Nat} {a : Attempt} {rc : ReqCfg} {out : RespOut}
    (p : Prov A s) (hl : Lease s c) (hA : A rid a) (h : Link none s) (hne : rc.release = false ∨ rc.preload = true)
    (hm : makeRequest s c rid a rc = (s', out)) :
    (∀ r, out = .resp r → Link none s') ∧
    (∀ e, out = .exc e → Link none s' ∨ (Link (some c) s' ∧ SockInj s' ∧ ∀ u rt m, handleError u rt m e.cls ≠ .noCleanup)) := by
  rw [makeRequest_eq] at hm
  have hcl := connRequestH_linkx c rid a rc.badHeader h
  generalize hcr : connRequestH s c rid a rc.badHeader = res at hm hcl
  obtain ⟨s1, ek⟩ := res
  obtain ⟨spE, spK⟩ := connRequestH_spec p hl hcr
  dsimp only at hm hcl
  have tail : ∀ (k : Nat) (cn0 : Conn) (sk : Sock), Prov A s1 → s1.conns[c]? = some cn0 → cn0.sock = some k →
      s1.socks[k]? = some sk → ((∃ H, NoHd H ∧ sk.inbound = H ++ serverNow rid a) ∨ sk.inbound = []) →
      makeTail s1 c rid rc (.ok k) = (s', out) →
      (∀ r, out = .resp r → Link none s') ∧
      (∀ e, out = .exc e → Link none s' ∨ (Link (some c) s' ∧ SockInj s' ∧ ∀ u rt m, handleError u rt m e.cls ≠ .noCleanup)) := by
    intro k cn0 sk p1 hc hk hsk hin ht
    unfold makeTail at ht
    dsimp only at ht
    generalize hgr : getResponse s1 c k rid rc = res at ht
    obtain ⟨s2, o⟩ := res
    obtain ⟨l2, n2, e2⟩ := getResponse_link p1 hcl hc hk hsk hin hA hgr
    cases o with
    | exc e =>
      cases ht
      refine ⟨(by intro r hr; cases hr), ?_⟩
      intro e' he'; cases he'
      have p2 := getResponse_prov p1 hc hk hsk hin hA hgr
      rcases e2 e rfl with q | q
      · exact Or.inl q
      · exact Or.inr ⟨l2, p2.sockInj', fun u rt m => readExc_not_noCleanup u rt m q⟩
    | resp r =>
      dsimp only at ht
      have p2 := getResponse_prov p1 hc hk hsk hin hA hgr
      have l3 : Link none (setResp s2 r fun x => { x with conn := if rc.release then none else some c, hasPool := true }) := by
        refine attach_link l2 (n2 r rfl) ?_
        rcases hne with hne | hne
        · right; simp [hne]
        · exact Or.inl hne
      have p3 := (setResp_safe s2 r (fun x => { x with conn := if rc.release then none else some c, hasPool := true })
        (fun x => ⟨rfl, rfl, rfl, Or.inr ⟨rfl, rfl, rfl, rfl⟩⟩)).prov p2
      unfold attachResp at ht
      generalize (setResp s2 r fun x => { x with conn := if rc.release then none else some c, hasPool := true }) = t at ht l3 p3
      dsimp only at ht
      split at ht
      · rename_i hcond
        have hcl : respFpClosed t r = true := by
          cases hq : respFpClosed t r with
          | true => rfl
          | false => simp [hq] at hcond
        have l4 := releaseConn_linkx l3 p3.sockInj' hcl (by intro e; cases e)
        generalize releaseConn t r = q at ht l4
        obtain ⟨t2, o2⟩ := q
        cases o2 with
        | some e => cases ht; exact ⟨(by intro r hr; cases hr), fun _ _ => Or.inl l4⟩
        | none => cases ht; exact ⟨fun _ _ => l4, by intro e he; cases he⟩
      · cases ht; exact ⟨fun _ _ => l3, by intro e he; cases he⟩
  cases ek with
  | ok k =>
    obtain ⟨hst, cn, hc, hk, hcase⟩ := spK k rfl
    rcases hcase with ⟨hp, p1, sk, H, hsk, hH, hin⟩ | ⟨hp, pc⟩
    · exact tail k cn sk p1 hc hk hsk (Or.inl ⟨H, hH, hin⟩) hm
    · unfold sendFix makeTail at hm
      dsimp only at hm
      rw [getResponse_notReady hst hc hp] at hm
      cases hm
      exact ⟨(by intro r hr; cases hr), fun e he => Or.inl hcl⟩
  | error e =>
    obtain ⟨p1, hl1⟩ := spE e rfl
    have bad : ∀ e', (s1, RespOut.exc e') = (s', out) →
        (∀ r, out = .resp r → Link none s') ∧
        (∀ e, out = .exc e → Link none s' ∨ (Link (some c) s' ∧ SockInj s' ∧ ∀ u rt m, handleError u rt m e.cls ≠ .noCleanup)) := by
      intro e' he'; cases he'
      exact ⟨(by intro r hr; cases hr), fun _ _ => Or.inl hcl⟩
    unfold sendFix at hm
    dsimp only at hm
    split at hm
    · split at hm
      · rename_i cn hcn
        split at hm
        · rename_i k hk
          obtain ⟨sk, hsk, hin, _⟩ := hl1 cn k hcn hk
          exact tail k cn sk p1 hcn hk hsk (Or.inr hin) hm
        · exact bad _ hm
      · exact bad _ hm
    · exact bad _ hm

theorem discard_none_nosi {s : State} (c : Nat) (h : Link none s) : Link none (discard s (some c)).1 := by
  have h1 : Link none (connClose s c) := connClose_linkx_gen c h (Or.inr ⟨rfl, rfl⟩)
  have e : discard s (some c) = putConn (connClose s c) none := rfl
  rw [e]
  generalize connClose s c = t at h1
  have h0 : Link none (logEv t (.put none)) := linkx_log h1 rfl rfl
  unfold putConn
  generalize logEv t (.put none) = u at h0
  simp only
  split
  · split
    · exact linkx_log h0 rfl rfl
    · split <;> exact h0
  · exact h0

/-- the requests that do not hand a connection back while its response is unread:
`release_conn=True` only together with `preload_content=True` -/
def NoEarlyCfg (rc : ReqCfg) : Prop := rc.release = false ∨ rc.preload = true

theorem request_link {A : Nat → Attempt → Prop} (rid : Nat) : ∀ (script : List Attempt) (s : State) (rc : ReqCfg) (retries : Retry),
    Prov A s → Link none s → (∀ a ∈ script, A rid a) → NoEarlyCfg rc → Link none (request s rid rc retries script).1 := by
  intro script
  induction script with
  | nil => intro s rc retries p h _ _; exact h
  | cons a rest ih =>
    intro s rc retries p h hA hne
    have hA' : ∀ a' ∈ rest, A rid a' := fun a' h => hA a' (List.mem_cons_of_mem _ h)
    have ha : A rid a := hA a (List.mem_cons_self ..)
    have afterDiscard : ∀ (t : State) (x : Option Nat) (e1 : Exc), Prov A (discard t x).1 → Link none (discard t x).1 →
        Link none (match discard t x with
          | (s, some e') => (s, Result.raised e')
          | (s, none) => (s, Result.raised e1)).1 := by
      intro t x e1 _ pd
      generalize discard t x = r at pd ⊢
      obtain ⟨s2, o⟩ := r
      cases o <;> exact pd
    have afterDiscardRec : ∀ (t : State) (x : Option Nat) (rc' : ReqCfg) (rt : Retry), NoEarlyCfg rc' →
        Prov A (discard t x).1 → Link none (discard t x).1 →
        Link none (match discard t x with
          | (s, some e'') => (s, Result.raised e'')
          | (s, none) => request s rid rc' rt rest).1 := by
      intro t x rc' rt hn pp pd
      generalize discard t x = r at pp pd ⊢
      obtain ⟨s2, o⟩ := r
      cases o with
      | some e => exact pd
      | none => exact ih s2 rc' rt pp pd hA' hn
    have afterDrain : ∀ (t : State) (r : Nat) (e1 : Exc), Prov A t → Link none t →
        Link none (match drainConn t r with
          | (s, some e) => (s, Result.raised e)
          | (s, none) => (s, Result.raised e1)).1 := by
      intro t r e1 pt lt
      have pd := drainConn_link (r := r) pt lt
      generalize drainConn t r = q at pd ⊢
      obtain ⟨s2, o⟩ := q
      cases o <;> exact pd
    have afterDrainRec : ∀ (t : State) (r : Nat) (w : Option Exc) (rc' : ReqCfg) (rt : Retry), NoEarlyCfg rc' → Prov A t → Link none t →
        Link none (match drainConn t r with
          | (s, some e) => (s, Result.raised e)
          | (s, none) =>
            match w with
            | some e => (s, Result.raised e)
            | none => request s rid rc' rt rest).1 := by
      intro t r w rc' rt hn pt lt
      have pp := drainConn_prov (r := r) pt
      have pd := drainConn_link (r := r) pt lt
      generalize drainConn t r = q at pp pd ⊢
      obtain ⟨s2, o⟩ := q
      cases o with
      | some e => exact pd
      | none =>
        cases w with
        | some e => exact pd
        | none => exact ih s2 rc' rt pp pd hA' hn
    have hneHop : NoEarlyCfg rc.hop := hne
    have hneSee : NoEarlyCfg rc.seeOther := hne
    rw [request]
    -- a failure before the `try:` changes nothing
    cases preflight rc a with
    | some e => exact h
    | none =>
    dsimp only
    -- a `pool_timeout` that `queue.get` rejects: `ValueError` out of `_get_conn`, the state is untouched
    rcases getConnT_cases s rc.badPoolTimeout with hT | ⟨hT, -⟩
    rotate_left
    · rw [hT]
      dsimp only
      have pp := (discard_safe s none).prov p
      have pd := discard_none_link h p.sockInj'
      split
      · exact h
      · exact afterDiscard _ _ _ pp pd
      · exact afterDiscard _ _ _ pp pd
      · exact afterDiscardRec _ _ _ _ hneHop pp pd
    rw [hT]
    have l1 := getConn_link h p.sockInj'
    generalize hg : getConn s = res at l1
    obtain ⟨s1, eg⟩ := res
    have p1 : Prov A s1 := by have := (getConn_safe s).prov p; rw [hg] at this; exact this
    dsimp only at l1
    cases eg with
    | error e =>
      dsimp only
      have pp := (discard_safe s1 none).prov p1
      have pd := discard_none_link l1 p1.sockInj'
      split
      · exact l1
      · exact afterDiscard _ _ _ pp pd
      · exact afterDiscard _ _ _ pp pd
      · exact afterDiscardRec _ _ _ _ hneHop pp pd
    | ok c =>
      dsimp only
      have hl := getConn_lease hg
      generalize hm : makeRequest s1 c rid a rc = res
      obtain ⟨s2, o⟩ := res
      obtain ⟨okr, oke⟩ := makeRequest_spec p1 hl ha hm
      obtain ⟨lkr, lke⟩ := makeRequest_link p1 hl ha l1 hne hm
      cases o with
      | exc e =>
        dsimp only
        obtain ⟨pc, pe⟩ := oke e rfl
        have pp := discard_some_prov pc
        have pd : Link none (discard s2 (some c)).1 := by
          rcases lke e rfl with q | ⟨q1, q2, _⟩
          · exact discard_none_nosi c q
          · exact discard_unlease q1 q2
        split
        · rename_i hh
          rcases lke e rfl with q | ⟨_, _, q3⟩
          · exact q
          · exact absurd hh (q3 _ _ _)
        · exact afterDiscard _ _ _ pp pd
        · exact afterDiscard _ _ _ pp pd
        · exact afterDiscardRec _ _ _ _ hneHop pp pd
      | resp r =>
        dsimp only
        have p2 := okr r rfl
        have l2 := lkr r rfl
        have pp : Prov A (if rc.release = true then putConn s2 (some c) else (s2, none)).1 := by
          split
          · exact (putConn_safe s2 (some c)).prov p2
          · exact p2
        have lp : Link none (if rc.release = true then putConn s2 (some c) else (s2, none)).1 := by
          split
          · exact putConn_linkx (some c) l2 p2.sockInj'
          · exact l2
        generalize (if rc.release = true then putConn s2 (some c) else (s2, none)) = q at pp lp ⊢
        obtain ⟨s3, o3⟩ := q
        cases o3 with
        | some e => exact lp
        | none =>
          dsimp only
          have hne' : ∀ status : Nat, NoEarlyCfg (if (status == 303) = true then rc.seeOther else rc.hop) := by
            intro status; split
            · exact hneSee
            · exact hneHop
          have fin : ∀ (loc ra : Bool) (status : Nat) (w : Option Exc), Link none
              (if (rc.redirect && isRedirect s3 r loc) = true then
                match retries.incrementResp with
                | none =>
                  if retries.raiseOnRedirect = true then
                    match drainConn s3 r with
                    | (s, some e) => (s, Result.raised e)
                    | (s, none) => (s, Result.raised (exc Gen.cU3MaxRetryError))
                  else (markReturned s3 r, Result.resp r)
                | some retries' =>
                  match drainConn s3 r with
                  | (s, some e) => (s, Result.raised e)
                  | (s, none) =>
                    match w with
                    | some e => (s, Result.raised e)
                    | none => request s rid (if (status == 303) = true then rc.seeOther else rc.hop) retries' rest
              else if retries.isRetry rc.methodRetryable status ra = true then
                match retries.incrementResp with
                | none =>
                  match drainConn s3 r with
                  | (s, some e) => (s, Result.raised e)
                  | (s, none) => (s, Result.raised (exc Gen.cU3MaxRetryError))
                | some retries' =>
                  match drainConn s3 r with
                  | (s, some e) => (s, Result.raised e)
                  | (s, none) =>
                    match w with
                    | some e => (s, Result.raised e)
                    | none => request s rid rc.hop retries' rest
              else (markReturned s3 r, Result.resp r)).1 := by
            intro loc ra status w
            have mr : Link none (markReturned s3 r) :=
              setResp_linkx r _ lp (fun _ => rfl) (fun _ _ d => d) (fun _ _ => Or.inl id) (fun _ _ => Or.inl rfl)
            split
            · split
              · split
                · exact afterDrain _ _ _ pp lp
                · exact mr
              · exact afterDrainRec _ _ _ _ _ (hne' status) pp lp
            · split
              · split
                · exact afterDrain _ _ _ pp lp
                · exact afterDrainRec _ _ _ _ _ hneHop pp lp
              · exact mr
          exact fin _ _ _ _

/-- histories without early release -/
def NoEarlyOp : Op → Prop
  | .request _ rc _ _ => NoEarlyCfg rc
  | .dispose _ how => NoEarlyHow how = true
  | .closePool => True

theorem step_link {A : Nat → Attempt → Prop} {s : State} (op : Op) (p : Prov A s) (h : Link none s)
    (hA : ∀ rid rc rt script, op = .request rid rc rt script → ∀ a ∈ script, A rid a) (hn : NoEarlyOp op) :
    Link none (step s op).1 := by
  cases op with
  | request rid rc rt script => exact request_link rid script s rc rt p h (hA rid rc rt script rfl) hn
  | dispose rid how => exact dispose_link rid how hn p h
  | closePool => exact closePool_link h p.sockInj'

theorem init_link (n : Nat) (b pr : Bool) : Link none (init n b pr) := by
  refine ⟨?_, ?_, ?_⟩ <;> simp [init]

theorem run_link_gen {A : Nat → Attempt → Prop} : ∀ (ops : List Op) (s : State), Prov A s → Link none s →
    (∀ op ∈ ops, ∀ rid rc rt script, op = Op.request rid rc rt script → ∀ a ∈ script, A rid a) →
    (∀ op ∈ ops, NoEarlyOp op) → Link none (run s ops) := by
  intro ops
  induction ops with
  | nil => intro s _ h _ _; exact h
  | cons op rest ih =>
    intro s p h hA hn
    show Link none (run (step s op).1 rest)
    exact ih _ (step_prov op p (hA op (List.mem_cons_self ..)))
      (step_link op p h (hA op (List.mem_cons_self ..)) (hn op (List.mem_cons_self ..)))
      (fun op' hm => hA op' (List.mem_cons_of_mem _ hm)) (fun op' hm => hn op' (List.mem_cons_of_mem _ hm))

/-- `Link` holds after every history without early release -/
theorem run_link (ops : List Op) (n : Nat) (b pr : Bool) (hn : ∀ op ∈ ops, NoEarlyOp op) :
    Link none (run (init n b pr) ops) := by
  refine run_link_gen (A := Scripted ops) ops _ (init_prov _ n b pr) (init_link n b pr) ?_ hn
  intro op hm rid rc rt script he a ha
  exact ⟨rc, rt, script, he ▸ hm, ha⟩

/-! ### a request rejected between `putrequest()` and `endheaders()` (`ReqCfg.badHeader`) -/

theorem connReject_out (s : State) (c : Nat) : ∃ e, (connReject s c).2 = .error e ∧ sendSwallowed e = false := by
  unfold connReject
  generalize forgetClosedPending s c = t
  dsimp only
  split
  · exact ⟨_, rfl, by decide⟩
  · split
    · exact ⟨_, rfl, by decide⟩
    · exact ⟨_, rfl, by decide⟩

/-- on an idle connection object it is `putheader`'s `ValueError` -/
theorem connReject_idle (s : State) (c : Nat) (cn : Conn) (hc : (forgetClosedPending s c).conns[c]? = some cn)
    (hi : cn.http = .idle) : (connReject s c).2 = .error (exc Gen.cValueError) := by
  unfold connReject
  dsimp only
  rw [hc]
  dsimp only
  rw [hi]
  rfl

theorem makeRequest_rejected_eq (s : State) (c rid : Nat) (a : Attempt) (rc : ReqCfg) (hb : rc.badHeader = true)
    (e : Exc) (he : (connReject s c).2 = .error e) (hsw : sendSwallowed e = false) :
    makeRequest s c rid a rc = ((connReject s c).1, .exc e) := by
  rw [makeRequest_eq, hb]
  have e0 : connRequestH s c rid a true = connReject s c := rfl
  rw [e0, he]
  simp [sendFix, makeTail, hsw]

/-- `_make_request` for a request whose header block cannot be encoded: an exception, whatever the state -/
theorem makeRequest_rejected (s : State) (c rid : Nat) (a : Attempt) (rc : ReqCfg) (hb : rc.badHeader = true) :
    ∃ e, makeRequest s c rid a rc = ((connReject s c).1, .exc e) := by
  obtain ⟨e, he, hsw⟩ := connReject_out s c
  exact ⟨e, makeRequest_rejected_eq s c rid a rc hb e he hsw⟩

/-- a `urlopen` call with such a header never returns a response — whatever the script, the retry budget and the
state of the pool (a retried `CannotSendRequest` meets the same header again) -/
theorem request_rejected (rid : Nat) : ∀ (script : List Attempt) (s : State) (rc : ReqCfg) (retries : Retry),
    rc.badHeader = true → ∀ r, (request s rid rc retries script).2 ≠ .resp r := by
  intro script
  induction script with
  | nil => intro s rc retries _ r h; cases h
  | cons a rest ih =>
    intro s rc retries hb r
    have hhop : rc.hop.badHeader = true := hb
    unfold request
    split
    · intro h; cases h
    · split
      · split
        · intro h; cases h
        · split <;> (intro h; cases h)
        · split <;> (intro h; cases h)
        · split
          · intro h; cases h
          · exact ih _ _ _ hhop r
      · rename_i s1 c hg
        obtain ⟨e, he⟩ := makeRequest_rejected s1 c rid a rc hb
        rw [he]
        dsimp only
        split
        · intro h; cases h
        · split <;> (intro h; cases h)
        · split <;> (intro h; cases h)
        · split
          · intro h; cases h
          · exact ih _ _ _ hhop r

end U3.Pool
