import U3.Model.Tls
/-! Helper lemmas for `U3/Props/C07.lean`: what a successful `wrapAndMatch` / `connect` implies. -/
namespace U3.Tls
open U3

theorem dropWhile_idem {α} (p : α → Bool) (l : List α) : (l.dropWhile p).dropWhile p = l.dropWhile p := by
  induction l with
  | nil => rfl
  | cons x t ih =>
    by_cases hx : p x = true
    · simp [List.dropWhile, hx, ih]
    · simp [List.dropWhile, hx]

@[simp] theorem rstripDots_idem (s : Str) : rstripDots (rstripDots s) = rstripDots s := by
  simp [rstripDots, dropWhile_idem]

theorem effective_eq_resolve (cfg : Cfg) :
    resolveCertReqs (initCertReqs cfg.certReqs cfg.sslContext) = effectiveCertReqs cfg := by
  unfold initCertReqs effectiveCertReqs
  cases cfg.certReqs <;> cases cfg.sslContext <;> simp [resolveCertReqs]

set_option maxHeartbeats 1000000 in
/-- a successful `_ssl_wrap_socket_and_match_hostname` means the peer passed everything the
arguments demand -/
theorem wrap_ok_satisfied (env : Env) (isIp : Str → Bool) (p : PeerOracle) (cr : CertReqs) (ca : Bool)
    (ah : AssertHostname) (fp : Option Str) (sh : Str) (ctx : Option Ctx) (tit : Bool) (obs : WrapObs) (v : Bool)
    (hwf : CtxWF env ctx)
    (h : wrapAndMatch env isIp p cr ca ah fp sh ctx tit = .ok obs v) :
    Satisfied isIp (peerDemand env (resolveCertReqs cr) ca ctx ah fp sh) p := by
  generalize hm : resolveCertReqs cr = m at *
  rcases env with ⟨py, ncn⟩
  unfold wrapAndMatch at h
  unfold Satisfied peerDemand
  rw [hm] at h
  rcases ctx with _ | ⟨⟨kind, vm, ch, cn, own⟩⟩
  · rcases fp with _ | pin <;> (try cases hpe : pin.isEmpty) <;> cases py <;> cases ncn <;> cases m <;> cases ah <;>
      simp_all [CtxWF, createUrllib3Context, freshContext, Ctx.setVerifyMode, Ctx.setCheckHostname,
              handshakeOk, chainOk, fpTruthy, fpGet, AssertHostname.truthy, AssertHostname.isF] <;> grind
  · cases kind <;> cases ch <;> rcases fp with _ | pin <;> (try cases hpe : pin.isEmpty) <;> cases py <;>
      cases ncn <;> cases m <;> cases ah <;>
      simp_all [CtxWF, Ctx.setVerifyMode, Ctx.setCheckHostname,
              handshakeOk, chainOk, fpTruthy, fpGet, AssertHostname.truthy, AssertHostname.isF] <;> grind

set_option maxHeartbeats 1000000 in
/-- … and the `is_verified` it reports is `verify_mode == CERT_REQUIRED or bool(assert_fingerprint)`
for the resolved `cert_reqs` -/
theorem wrap_ok_verified (env : Env) (isIp : Str → Bool) (p : PeerOracle) (cr : CertReqs) (ca : Bool)
    (ah : AssertHostname) (fp : Option Str) (sh : Str) (ctx : Option Ctx) (tit : Bool) (obs : WrapObs) (v : Bool)
    (h : wrapAndMatch env isIp p cr ca ah fp sh ctx tit = .ok obs v) :
    v = (resolveCertReqs cr == .required || fpTruthy fp) ∧ obs.verifyMode = resolveCertReqs cr := by
  generalize hm : resolveCertReqs cr = m at *
  rcases env with ⟨py, ncn⟩
  unfold wrapAndMatch at h
  rw [hm] at h
  rcases ctx with _ | ⟨⟨kind, vm, ch, cn, own⟩⟩
  · cases hfp : fpTruthy fp <;> cases py <;> cases ncn <;> cases m <;> cases ah <;>
      simp_all [createUrllib3Context, freshContext, Ctx.setVerifyMode, Ctx.setCheckHostname,
              AssertHostname.truthy, AssertHostname.isF] <;> (repeat' (split at h)) <;> simp_all <;> grind
  · cases kind <;> cases ch <;> cases hfp : fpTruthy fp <;> cases py <;>
      cases ncn <;> cases m <;> cases ah <;>
      simp_all [Ctx.setVerifyMode, Ctx.setCheckHostname, AssertHostname.truthy, AssertHostname.isF] <;>
      (repeat' (split at h)) <;> simp_all <;> grind

/-- the `server_hostname` argument of the request session's `wrapAndMatch` call -/
def mainServerHostname (cfg : Cfg) : Str :=
  rstripDots (cfg.serverHostname.getD (if cfg.mode.tunneling then cfg.tunnelHost else rstripDots cfg.host))

theorem mainServerHostname_eq (cfg : Cfg) : mainServerHostname cfg = targetName cfg := by
  unfold mainServerHostname targetName
  cases cfg.serverHostname <;> cases cfg.mode <;> simp [ProxyMode.tunneling]


theorem getLast?_cons_append_singleton {α} (x : α) (l : List α) (a : α) :
    (x :: (l ++ [a])).getLast? = some a := by
  have : x :: (l ++ [a]) = (x :: l) ++ [a] := rfl
  rw [this, List.getLast?_append]
  simp

theorem connectTail_connected {cfg : Cfg} {o : Oracle} {k : Connected} {piv : Option Bool} {ws : List WrapObs}
    {tit : Bool} {sh : Str} (h : connectTail cfg o piv ws tit sh = .connected k) :
    ∃ obs v, wrapAndMatch cfg.env o.isIp (requestPeer cfg o) (initCertReqs cfg.certReqs cfg.sslContext) cfg.caGiven
        cfg.assertHostname cfg.assertFingerprint
        (rstripDots (cfg.serverHostname.getD sh)) cfg.sslContext tit = .ok obs v ∧
      k.isVerified = (if cfg.mode == .forwardHttps then false else v) ∧
      k.proxyIsVerified = (if (cfg.mode != .direct && piv.isNone) then some v else piv) ∧
      k.wraps = ws ++ [obs] := by
  unfold connectTail at h
  simp only [] at h
  split at h
  · cases h
  · cases h
  · cases h
  · rename_i obs v hw
    injection h with h; subst h
    exact ⟨obs, v, hw, rfl, rfl, rfl⟩

def isTunnelHttps : ProxyMode → Bool | .tunnelHttps => true | _ => false

/-- what `connect … = connected k` tells about the two `wrapAndMatch` calls -/
theorem connect_connected {cfg : Cfg} {o : Oracle} {k : Connected} (h : connect cfg o = .connected k) :
    ∃ obs v, wrapAndMatch cfg.env o.isIp (requestPeer cfg o) (initCertReqs cfg.certReqs cfg.sslContext) cfg.caGiven
        cfg.assertHostname cfg.assertFingerprint (mainServerHostname cfg) cfg.sslContext
        (isTunnelHttps cfg.mode) = .ok obs v ∧
      k.isVerified = (if cfg.mode == .forwardHttps then false else v) ∧
      (match cfg.mode with
       | .direct => k.proxyIsVerified = none ∧ k.wraps = [obs]
       | .tunnelHttp => k.proxyIsVerified = some false ∧ k.wraps = [obs]
       | .forwardHttps => k.proxyIsVerified = some v ∧ k.wraps = [obs]
       | .tunnelHttps => ∃ obs' v', wrapAndMatch cfg.env o.isIp o.proxy (initCertReqs cfg.certReqs cfg.sslContext)
            cfg.caGiven cfg.proxy.assertHostname cfg.proxy.assertFingerprint (rstripDots cfg.host)
            cfg.proxy.sslContext false = .ok obs' v' ∧ k.proxyIsVerified = some v' ∧ k.wraps = [obs', obs]) := by
  unfold connect at h
  unfold mainServerHostname
  cases hmode : cfg.mode <;> simp only [hmode] at h ⊢
  · obtain ⟨obs, v, hw, hv, hp, hws⟩ := connectTail_connected h
    exact ⟨obs, v, by simpa [ProxyMode.tunneling, isTunnelHttps] using hw, by simpa [hmode] using hv,
      by simpa [hmode] using hp, by simpa using hws⟩
  · obtain ⟨obs, v, hw, hv, hp, hws⟩ := connectTail_connected h
    exact ⟨obs, v, by simpa [ProxyMode.tunneling, isTunnelHttps] using hw, by simpa [hmode] using hv,
      by simpa [hmode] using hp, by simpa using hws⟩
  · split at h
    · cases h
    · cases h
    · cases h
    · rename_i obs' v' hw'
      obtain ⟨obs, v, hw, hv, hp, hws⟩ := connectTail_connected h
      exact ⟨obs, v, by simpa [ProxyMode.tunneling, isTunnelHttps] using hw, by simpa [hmode] using hv,
        obs', v', hw', by simpa [hmode] using hp, by simpa using hws⟩
  · obtain ⟨obs, v, hw, hv, hp, hws⟩ := connectTail_connected h
    exact ⟨obs, v, by simpa [ProxyMode.tunneling, isTunnelHttps] using hw, by simpa [hmode] using hv,
      by simpa [hmode] using hp, by simpa using hws⟩

/-! ## Concrete instances used by the non-vacuity examples and the counterexample in `Props/C07` -/
namespace Ex

/-- "www" / "proxy" (short stand-ins; the theorems are for all strings) -/
def www : Str := [119, 119, 119]
def prx : Str := [112, 114, 120]
def pin : Str := [97, 98]

/-- a peer whose chain validates against the configured CA, accepted by both matchers, digest equal -/
def goodPeer : PeerOracle :=
  { validConfigured := true, validSystem := false, validOwn := false,
    osslMatch := fun _ _ => true, u3Match := fun _ _ => true, digestOk := fun _ => true }

/-- a peer from an unknown CA whose certificate matches no name and no pin -/
def badPeer : PeerOracle :=
  { validConfigured := false, validSystem := false, validOwn := false,
    osslMatch := fun _ _ => false, u3Match := fun _ _ => false, digestOk := fun _ => false }

def good : Oracle := { isIp := fun _ => false, origin := goodPeer, proxy := goodPeer }
def badOrigin : Oracle := { isIp := fun _ => false, origin := badPeer, proxy := goodPeer }

/-- every setting at its default, CA material given, direct -/
def dflt : Cfg :=
  { env := { isPyOpenSSL := false, hasNeverCheckCN := true }, host := www, certReqs := .unset,
    assertHostname := .unset, assertFingerprint := none, serverHostname := none, sslContext := none,
    caGiven := true, mode := .direct, tunnelHost := [],
    proxy := { sslContext := none, assertHostname := .unset, assertFingerprint := none } }

/-- `cert_reqs="NONE"` -/
def insecure : Cfg := { dflt with certReqs := .short .none }

/-- DESIGN §7: `ProxyManager("https://prx", proxy_assert_fingerprint=pin, cert_reqs="NONE")`,
request to `https://www/` -/
def pinnedProxyTunnel : Cfg :=
  { dflt with certReqs := .short .none, mode := .tunnelHttps, host := prx, tunnelHost := www,
              proxy := { sslContext := none, assertHostname := .unset, assertFingerprint := some pin } }

end Ex
end U3.Tls
