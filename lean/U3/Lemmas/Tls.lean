import U3.Model.Tls
/-! Helper lemmas for `U3/Props/C07.lean`: what a successful `wrapAndMatch` / `connect` implies. -/
namespace U3.Tls
open U3

theorem dropWhile_idem {α} (p : α → Bool) (l : List α) : (l.dropWhile p).dropWhile p = l.dropWhile p := by
  induction l with
  | nil => rfl
  | cons x t ih =>
    by_cases hx : p x = true
    · simp [List.dropWhile, hx, ih]
    · simp [List.dropWhile, hx]

@[simp] theorem rstripDots_idem (s : Str) : rstripDots (rstripDots s) = rstripDots s := by
  simp [rstripDots, dropWhile_idem]

theorem effective_eq_resolve (cfg : Cfg) :
    resolveCertReqs (initCertReqs cfg.certReqs cfg.sslContext) = effectiveCertReqs cfg := by
  unfold initCertReqs effectiveCertReqs
  cases cfg.certReqs <;> cases cfg.sslContext <;> simp [resolveCertReqs]

set_option maxHeartbeats 1000000 in
/-- a successful `_ssl_wrap_socket_and_match_hostname` means the peer passed everything the
arguments demand -/
theorem wrap_ok_satisfied (env : Env) (isIp : Str → Bool) (p : PeerOracle) (cr : CertReqs) (ca : Bool)
    (ah : AssertHostname) (fp : Option Str) (sh : Str) (ctx : Option Ctx) (tit : Bool) (obs : WrapObs) (v : Bool)
    (hwf : CtxWF env ctx)
    (h : wrapAndMatch env isIp p cr ca ah fp sh ctx tit = .ok obs v) :
    Satisfied isIp (peerDemand env (resolveCertReqs cr) ca ctx ah fp sh) p := by
  generalize hm : resolveCertReqs cr = m at *
  rcases env with ⟨py, ncn⟩
  unfold wrapAndMatch at h
  unfold Satisfied peerDemand
  rw [hm] at h
  rcases ctx with _ | ⟨⟨kind, vm, ch, cn, own⟩⟩
  · rcases fp with _ | pin <;> (try cases hpe : pin.isEmpty) <;> cases py <;> cases ncn <;> cases m <;> cases ah <;>
      simp_all [CtxWF, createUrllib3Context, freshContext, Ctx.setVerifyMode, Ctx.setCheckHostname,
              handshakeOk, chainOk, fpTruthy, fpGet, AssertHostname.truthy, AssertHostname.isF] <;> grind
  · cases kind <;> cases ch <;> rcases fp with _ | pin <;> (try cases hpe : pin.isEmpty) <;> cases py <;>
      cases ncn <;> cases m <;> cases ah <;>
      simp_all [CtxWF, Ctx.setVerifyMode, Ctx.setCheckHostname,
              handshakeOk, chainOk, fpTruthy, fpGet, AssertHostname.truthy, AssertHostname.isF] <;> grind

set_option maxHeartbeats 1000000 in
/-- … and the `is_verified` it reports is `verify_mode == CERT_REQUIRED or bool(assert_fingerprint)`
for the resolved `cert_reqs` -/
theorem wrap_ok_verified (env : Env) (isIp : Str → Bool) (p : PeerOracle) (cr : CertReqs) (ca : Bool)
    (ah : AssertHostname) (fp : Option Str) (sh : Str) (ctx : Option Ctx) (tit : Bool) (obs : WrapObs) (v : Bool)
    (h : wrapAndMatch env isIp p cr ca ah fp sh ctx tit = .ok obs v) :
    v = (resolveCertReqs cr == .required || fpTruthy fp) ∧ obs.verifyMode = resolveCertReqs cr := by
  generalize hm : resolveCertReqs cr = m at *
  rcases env with ⟨py, ncn⟩
  unfold wrapAndMatch at h
  rw [hm] at h
  rcases ctx with _ | ⟨⟨kind, vm, ch, cn, own⟩⟩
  · cases hfp : fpTruthy fp <;> cases py <;> cases ncn <;> cases m <;> cases ah <;>
      simp_all [createUrllib3Context, freshContext, Ctx.setVerifyMode, Ctx.setCheckHostname,
              AssertHostname.truthy, AssertHostname.isF] <;> (repeat' (split at h)) <;> simp_all <;> grind
  · cases kind <;> cases ch <;> cases hfp : fpTruthy fp <;> cases py <;>
      cases ncn <;> cases m <;> cases ah <;>
      simp_all [Ctx.setVerifyMode, Ctx.setCheckHostname, AssertHostname.truthy, AssertHostname.isF] <;>
      (repeat' (split at h)) <;> simp_all <;> grind

/-- the `server_hostname` argument of the request session's `wrapAndMatch` call -/
def mainServerHostname (cfg : Cfg) : Str :=
  rstripDots (cfg.serverHostname.getD (if cfg.mode.tunneling then cfg.tunnelHost else rstripDots cfg.host))

theorem mainServerHostname_eq (cfg : Cfg) : mainServerHostname cfg = targetName cfg := by
  unfold mainServerHostname targetName
  cases cfg.serverHostname <;> cases cfg.mode <;> simp [ProxyMode.tunneling]


theorem getLast?_cons_append_singleton {α} (x : α) (l : List α) (a : α) :
    (x :: (l ++ [a])).getLast? = some a := by
  have : x :: (l ++ [a]) = (x :: l) ++ [a] := rfl
  rw [this, List.getLast?_append]
  simp

theorem connectTail_connected {cfg : Cfg} {o : Oracle} {k : Connected} {piv : Option Bool} {ws : List WrapObs}
    {tit : Bool} {sh : Str} (h : connectTail cfg o piv ws tit sh = .connected k) :
    ∃ obs v, wrapAndMatch cfg.env o.isIp (requestPeer cfg o) (initCertReqs cfg.certReqs cfg.sslContext) cfg.caGiven
        cfg.assertHostname cfg.assertFingerprint
        (rstripDots (cfg.serverHostname.getD sh)) cfg.sslContext tit = .ok obs v ∧
      k.isVerified = (if cfg.mode == .forwardHttps then false else v) ∧
      k.proxyIsVerified = (if (cfg.mode != .direct && piv.isNone) then some v else piv) ∧
      k.wraps = ws ++ [obs] := by
  unfold connectTail at h
  simp only [] at h
  split at h
  · cases h
  · cases h
  · cases h
  · rename_i obs v hw
    injection h with h; subst h
    exact ⟨obs, v, hw, rfl, rfl, rfl⟩

def isTunnelHttps : ProxyMode → Bool | .tunnelHttps => true | _ => false

/-- what `connect … = connected k` tells about the two `wrapAndMatch` calls -/
theorem connect_connected {cfg : Cfg} {o : Oracle} {k : Connected} (h : connect cfg o = .connected k) :
    ∃ obs v, wrapAndMatch cfg.env o.isIp (requestPeer cfg o) (initCertReqs cfg.certReqs cfg.sslContext) cfg.caGiven
        cfg.assertHostname cfg.assertFingerprint (mainServerHostname cfg) cfg.sslContext
        (isTunnelHttps cfg.mode) = .ok obs v ∧
      k.isVerified = (if cfg.mode == .forwardHttps then false else v) ∧
      (match cfg.mode with
       | .direct => k.proxyIsVerified = none ∧ k.wraps = [obs]
       | .tunnelHttp => k.proxyIsVerified = some false ∧ k.wraps = [obs]
       | .forwardHttps => k.proxyIsVerified = some v ∧ k.wraps = [obs]
       | .tunnelHttps => ∃ obs' v', wrapAndMatch cfg.env o.isIp o.proxy (initCertReqs cfg.certReqs cfg.sslContext)
            cfg.caGiven cfg.proxy.assertHostname cfg.proxy.assertFingerprint (rstripDots cfg.host)
            cfg.proxy.sslContext false = .ok obs' v' ∧ k.proxyIsVerified = some v' ∧ k.wraps = [obs', obs]) := by
  unfold connect at h
  unfold mainServerHostname
  cases hmode : cfg.mode <;> simp only [hmode] at h ⊢
  · obtain ⟨obs, v, hw, hv, hp, hws⟩ := connectTail_connected h
    exact ⟨obs, v, by simpa [ProxyMode.tunneling, isTunnelHttps] using hw, by simpa [hmode] using hv,
      by simpa [hmode] using hp, by simpa using hws⟩
  · obtain ⟨obs, v, hw, hv, hp, hws⟩ := connectTail_connected h
    exact ⟨obs, v, by simpa [ProxyMode.tunneling, isTunnelHttps] using hw, by simpa [hmode] using hv,
      by simpa [hmode] using hp, by simpa using hws⟩
  · split at h
    · cases h
    · cases h
    · cases h
    · rename_i obs' v' hw'
      obtain ⟨obs, v, hw, hv, hp, hws⟩ := connectTail_connected h
      exact ⟨obs, v, by simpa [ProxyMode.tunneling, isTunnelHttps] using hw, by simpa [hmode] using hv,
        obs', v', hw', by simpa [hmode] using hp, by simpa using hws⟩
  · obtain ⟨obs, v, hw, hv, hp, hws⟩ := connectTail_connected h
    exact ⟨obs, v, by simpa [ProxyMode.tunneling, isTunnelHttps] using hw, by simpa [hmode] using hv,
      by simpa [hmode] using hp, by simpa using hws⟩

/-! ## The TLS-layer calls of every outcome (successful or not) -/

/-- the TLS-layer call made by one `wrapAndMatch`, if it got that far -/
def WrapRes.obs? : WrapRes → Option WrapObs
  | .raised _ => none
  | .wrapFailed o _ => some o
  | .checkFailed o _ => some o
  | .ok o _ => some o

/-- the TLS-layer calls made by `connect()`, whether it returned or raised -/
def ConnRes.wraps : ConnRes → List WrapObs
  | .error _ _ ws _ => ws
  | .connected k => k.wraps

/-- "no CA material was configured and urllib3 built the context itself" (and the context class has
`load_default_certs`, i.e. it is not a `PyOpenSSLContext`) -/
def wantsSystemStore (env : Env) (caGiven : Bool) (ctx : Option Ctx) : Bool :=
  !caGiven && ctx.isNone && !env.isPyOpenSSL

theorem createUrllib3Context_kind {env : Env} {m : VerifyMode} {c : Ctx}
    (h : createUrllib3Context env m = .ok c) :
    c.kind = (if env.isPyOpenSSL then .pyopenssl else .stdlib) := by
  rcases env with ⟨py, ncn⟩
  cases py <;> cases m <;>
    simp_all [createUrllib3Context, freshContext, Ctx.setVerifyMode, Ctx.setCheckHostname] <;>
    (subst h; rfl)

theorem setVerifyMode_kind {c c' : Ctx} {m : VerifyMode} (h : c.setVerifyMode m = .ok c') :
    c'.kind = c.kind := by
  unfold Ctx.setVerifyMode at h
  split at h
  · split at h
    · cases h
    · injection h with h; subst h; rfl
  · injection h with h; subst h; rfl

theorem setCheckHostname_kind (c : Ctx) (b : Bool) : (c.setCheckHostname b).kind = c.kind := by
  unfold Ctx.setCheckHostname
  split
  · split <;> rfl
  · rfl

/-- what `_ssl_wrap_socket_and_match_hostname` hands to the TLS layer, in every outcome:
`load_default_certs()` was called iff no CA material was given, the context is urllib3's own and it
is a stdlib context -/
theorem wrap_obs (env : Env) (isIp : Str → Bool) (p : PeerOracle) (cr : CertReqs) (ca : Bool)
    (ah : AssertHostname) (fp : Option Str) (sh : Str) (ctx : Option Ctx) (tit : Bool) (obs : WrapObs)
    (h : (wrapAndMatch env isIp p cr ca ah fp sh ctx tit).obs? = some obs) :
    obs.loadDefault = wantsSystemStore env ca ctx ∧ obs.tlsInTls = tit ∧ obs.caGiven = ca := by
  unfold wrapAndMatch at h
  simp only [] at h
  split at h
  · cases h
  · rename_i context hcreated
    split at h
    · cases h
    · rename_i context' hset
      have hk' : context'.kind = context.kind := setVerifyMode_kind hset
      have hkind : ∀ c'' : Ctx, c''.kind = context'.kind →
          (!ca && ctx.isNone && c''.kind == CtxKind.stdlib) = wantsSystemStore env ca ctx := by
        intro c'' hc''
        unfold wantsSystemStore
        rcases ctx with _ | c0
        · have := createUrllib3Context_kind hcreated
          rw [hc'', hk', this]
          cases env.isPyOpenSSL <;> simp
        · simp
      have hobs : ∀ c'' : Ctx, c''.kind = context'.kind → ∀ o' : WrapObs,
          o' = { serverHostname := normServerHostname isIp sh, verifyMode := c''.verifyMode,
                 checkHostname := c''.checkHostname, caGiven := ca, tlsInTls := tit,
                 loadDefault := (!ca && ctx.isNone && c''.kind == CtxKind.stdlib) } →
          o'.loadDefault = wantsSystemStore env ca ctx ∧ o'.tlsInTls = tit ∧ o'.caGiven = ca := by
        intro c'' hc'' o' ho'
        subst ho'
        exact ⟨hkind c'' hc'', rfl, rfl⟩
      split at h
      · rename_i hcond
        have hc := setCheckHostname_kind context' false
        repeat' (split at h)
        all_goals (first | (cases h; done) | (simp only [WrapRes.obs?] at h; injection h with h; exact hobs _ hc _ h.symm))
      · repeat' (split at h)
        all_goals (first | (cases h; done) | (simp only [WrapRes.obs?] at h; injection h with h; exact hobs _ rfl _ h.symm))

theorem connectTail_wraps (cfg : Cfg) (o : Oracle) (piv : Option Bool) (ws : List WrapObs) (tit : Bool)
    (sh : Str) (w : WrapObs) (hw : w ∈ (connectTail cfg o piv ws tit sh).wraps) :
    w ∈ ws ∨ (w.loadDefault = wantsSystemStore cfg.env cfg.caGiven cfg.sslContext ∧ w.tlsInTls = tit) := by
  unfold connectTail at hw
  simp only [] at hw
  split at hw
  · left; exact hw
  · rename_i obs e hres
    simp only [ConnRes.wraps, List.mem_append, List.mem_singleton] at hw
    rcases hw with hw | rfl
    · left; exact hw
    · right
      have := wrap_obs _ _ _ _ _ _ _ _ _ _ w (by rw [hres]; rfl)
      exact ⟨this.1, this.2.1⟩
  · rename_i obs e hres
    simp only [ConnRes.wraps, List.mem_append, List.mem_singleton] at hw
    rcases hw with hw | rfl
    · left; exact hw
    · right
      have := wrap_obs _ _ _ _ _ _ _ _ _ _ w (by rw [hres]; rfl)
      exact ⟨this.1, this.2.1⟩
  · rename_i obs v hres
    simp only [ConnRes.wraps, List.mem_append, List.mem_singleton] at hw
    rcases hw with hw | rfl
    · left; exact hw
    · right
      have := wrap_obs _ _ _ _ _ _ _ _ _ _ w (by rw [hres]; rfl)
      exact ⟨this.1, this.2.1⟩

/-- every TLS-layer call of `connect()` — returned or raised —: the one to an https proxy we tunnel
through (`tls_in_tls = False` in that mode) follows the proxy's settings, every other one the
connection's -/
theorem connect_wraps (cfg : Cfg) (o : Oracle) (w : WrapObs) (hw : w ∈ (connect cfg o).wraps) :
    w.loadDefault =
      (if cfg.mode = .tunnelHttps ∧ w.tlsInTls = false then
        wantsSystemStore cfg.env cfg.caGiven cfg.proxy.sslContext
       else wantsSystemStore cfg.env cfg.caGiven cfg.sslContext) := by
  unfold connect at hw
  simp only [] at hw
  cases hmode : cfg.mode <;> simp only [hmode] at hw
  · rcases connectTail_wraps _ _ _ _ _ _ _ hw with h | h
    · cases h
    · simp [h.1]
  · rcases connectTail_wraps _ _ _ _ _ _ _ hw with h | h
    · cases h
    · simp [h.1]
  · split at hw
    · cases hw
    · rename_i obs e hres
      simp only [ConnRes.wraps, List.mem_singleton] at hw
      subst hw
      have := wrap_obs _ _ _ _ _ _ _ _ _ _ w (by rw [hres]; rfl)
      simp [this.1, this.2.1]
    · rename_i obs e hres
      simp only [ConnRes.wraps, List.mem_singleton] at hw
      subst hw
      have := wrap_obs _ _ _ _ _ _ _ _ _ _ w (by rw [hres]; rfl)
      simp [this.1, this.2.1]
    · rename_i obs v hres
      have hp := wrap_obs _ _ _ _ _ _ _ _ _ _ obs (by rw [hres]; rfl)
      rcases connectTail_wraps _ _ _ _ _ _ _ hw with h | h
      · simp only [List.mem_singleton] at h
        subst h
        simp [hp.1, hp.2.1]
      · simp [h.1, h.2]
  · rcases connectTail_wraps _ _ _ _ _ _ _ hw with h | h
    · cases h
    · simp [h.1]

/-! ## Concrete instances used by the non-vacuity examples and the counterexample in `Props/C07` -/
namespace Ex

/-- "www" / "proxy" (short stand-ins; the theorems are for all strings) -/
def www : Str := [119, 119, 119]
def prx : Str := [112, 114, 120]
def pin : Str := [97, 98]

/-- a peer whose chain validates against the configured CA, accepted by both matchers, digest equal -/
def goodPeer : PeerOracle :=
  { validConfigured := true, validSystem := false, validOwn := false,
    osslMatch := fun _ _ => true, u3Match := fun _ _ => true, digestOk := fun _ => true }

/-- a peer from an unknown CA whose certificate matches no name and no pin -/
def badPeer : PeerOracle :=
  { validConfigured := false, validSystem := false, validOwn := false,
    osslMatch := fun _ _ => false, u3Match := fun _ _ => false, digestOk := fun _ => false }

def good : Oracle := { isIp := fun _ => false, origin := goodPeer, proxy := goodPeer }
def badOrigin : Oracle := { isIp := fun _ => false, origin := badPeer, proxy := goodPeer }

/-- every setting at its default, CA material given, direct -/
def dflt : Cfg :=
  { env := { isPyOpenSSL := false, hasNeverCheckCN := true }, host := www, certReqs := .unset,
    assertHostname := .unset, assertFingerprint := none, serverHostname := none, sslContext := none,
    caGiven := true, mode := .direct, tunnelHost := [],
    proxy := { sslContext := none, assertHostname := .unset, assertFingerprint := none } }

/-- `cert_reqs="NONE"` -/
def insecure : Cfg := { dflt with certReqs := .short .none }

/-- DESIGN §7: `ProxyManager("https://prx", proxy_assert_fingerprint=pin, cert_reqs="NONE")`,
request to `https://www/` -/
def pinnedProxyTunnel : Cfg :=
  { dflt with certReqs := .short .none, mode := .tunnelHttps, host := prx, tunnelHost := www,
              proxy := { sslContext := none, assertHostname := .unset, assertFingerprint := some pin } }

/-- `ProxyManager("https://prx", use_forwarding_for_https=True)`, request to `https://www/`: the
only TLS peer is the proxy -/
def forwarding : Cfg := { dflt with mode := .forwardHttps, host := prx }

/-- every setting at its default and no CA material at all: the OS default store is the anchor -/
def sysDefault : Cfg := { dflt with caGiven := false }

/-- an origin whose chain validates against the OS default store only -/
def sysOnly : Oracle :=
  { isIp := fun _ => false,
    origin := { goodPeer with validConfigured := false, validSystem := true },
    proxy := goodPeer }

end Ex
end U3.Tls
