import U3.Lemmas.Route
import U3.Lemmas.UrlHost
import U3.Lemmas.UrlHostCase
/-!
# From `parse_url` to the dial theorems of C15

`U3.Lemmas.UrlHost` proves that the host of every successful http / https parse has one of three
shapes; here these shapes are identified with the `StableHost` / `StableZoned` hypotheses of the route
theorems (`C15_host_stable_partial`), so that those apply to every URL text a `PoolManager` accepts.
Helper lemmas for `U3.Props.C15` (core Lean only).
-/
namespace U3.Route
open U3

/-- the three shapes of a parsed host are the stable shapes, once the `zone25` shape of the known
finding is excluded -/
theorem stable_of_shape {h : Str} (hsh : Url.NameHost h ∨ Url.LiteralHost h ∨ Url.ZonedHost h)
    (h25 : Url.zone25 h = false) : StableHost h ∨ StableZoned h := by
  rcases hsh with hn | hl | hz
  · exact Or.inl (Or.inl hn)
  · exact Or.inl (Or.inr (Or.inr hl))
  · right
    obtain ⟨h6, hl, z, hz, hnf⟩ := hz
    refine ⟨h6, hl, z, hz, ?_, hnf⟩
    rintro ⟨hp, hne⟩
    have hzo := Url.zoneOf_of hz
    simp only [Url.zone25, h6, hzo, Bool.true_and, hp] at h25
    simp only [bne_eq_false_iff_eq] at h25
    exact hne h25

/-- **every host `parse_url` returns for an http / https URL is stable** under the pool's second
`_normalize_host`, the `zone25` shape excepted (contract `IdnaLdh` on the IDNA oracle) -/
theorem stable_of_parse {idna : Str → Option Str} (hc : Url.IdnaLdh idna) {url : Str} {u : Url.Url}
    (hp : Url.parseUrlWith idna url = .ok u) {s : Str} (hs : u.scheme = some s) (hsch : s = http ∨ s = https)
    {hst : Str} (hh : u.host = some hst) (h25 : Url.zone25 hst = false) : StableHost hst ∨ StableZoned hst := by
  apply stable_of_shape _ h25
  apply Url.parsed_host_shape hc hp _ hh
  rw [hs]
  rcases hsch with rfl | rfl <;> (unfold Url.Normalizable; decide)

/-! ## the host's letter case at the text level, for every kind of host text -/

/-- what the front end (`_URI_RE`, `rpartition("@")`) and `_HOST_PORT_RE` need to know about a host text
that stands in an authority -/
structure HostIn (H : Str) : Prop where
  ne : H ≠ []
  auth : ∀ c ∈ H, Url.authChar c = true
  noAt : 64 ∉ H
  re : ∀ A, (A = [] ∨ ∃ t, A = 58 :: t) →
    Url.hostPortRe (H ++ A) = (Url.portPart A).map (fun p => (H, p))

/-- a reg-name (with or without percent-escapes) is such a text -/
theorem hostIn_regText {H : Str} (h : Url.regText H = true) (hne : H ≠ []) : HostIn H :=
  ⟨hne, Url.regText_authChar h, (Url.regText_facts h).2.2.1, fun A hA => Url.hostPortRe_regText h A hA⟩

/-- a bracketed IPv6 literal is such a text -/
theorem hostIn_literal {H : Str} (hm : Url.ipv6AddrzMatch H = true) : HostIn H := by
  refine ⟨?_, fun c hc => (Url.literal_auth hm c hc).1, fun e => (Url.literal_auth hm 64 e).2 rfl,
    fun A _ => Url.hostPortRe_literal hm A⟩
  intro e; subst e; simp [Url.ipv6AddrzMatch] at hm

theorem parseAuthority_hostIn (n : Bool) {P au H A : Str} (hP : UiPrefix P au) (hH : HostIn H)
    (hA : A = [] ∨ ∃ t, A = 58 :: t) (h64 : 64 ∉ A) :
    Url.parseAuthority n (some (P ++ (H ++ A))) =
      match Url.portPart A with
      | none => .error .attributeError
      | some p => .ok (if au.isEmpty then none
                       else some (if n then Url.encodeInvalidChars Gen.userinfoChars au else au),
                       some H,
                       match p with
                       | some d => if d.isEmpty then none else some d
                       | none => none) := by
  have hX : 64 ∉ H ++ A := by
    intro hm
    rcases List.mem_append.mp hm with hm | hm
    · exact hH.noAt hm
    · exact h64 hm
  have hne := hH.ne
  have hie : (P ++ (H ++ A)).isEmpty = false := by
    cases P <;> cases H <;> simp_all
  have hHe : H.isEmpty = false := by cases H <;> simp_all
  unfold Url.parseAuthority
  simp only [hie, Bool.false_eq_true, if_false, rpartitionAt_prefix hP hX, hH.re A hA]
  cases Url.portPart A with
  | none => rfl
  | some v =>
    simp only [Option.map_some, hHe, Bool.and_false, Bool.false_eq_true, if_false]
    rfl

theorem parseCore_host_case_gen (idna : Str → Option Str) (sc P au H₁ H₂ rest : Str) (hsc : SchemeText sc)
    (hP : UiPrefix P au) (hPa : ∀ c ∈ P, Url.authChar c = true)
    (hH₁ : HostIn H₁) (hH₂ : HostIn H₂)
    (hN : Url.normalizeHost idna (some H₁) (some (lower sc)) = Url.normalizeHost idna (some H₂) (some (lower sc)))
    (hrest : rest = [] ∨ ∃ c t, rest = c :: t ∧ (c = 58 ∨ Url.authChar c = false))
    (h64 : 64 ∉ rest.takeWhile Url.authChar) :
    Url.parseCore idna (urlText sc P H₁ rest) = Url.parseCore idna (urlText sc P H₂ rest) := by
  have hA : rest.takeWhile Url.authChar = [] ∨ ∃ t, rest.takeWhile Url.authChar = 58 :: t := by
    rcases hrest with rfl | ⟨c, t, rfl, hc | hc⟩
    · exact Or.inl rfl
    · subst hc
      have : Url.authChar 58 = true := by decide
      exact Or.inr ⟨_, by rw [List.takeWhile_cons_of_pos this]⟩
    · exact Or.inl (by rw [List.takeWhile_cons_of_neg (by simpa using hc)])
  have front : ∀ H, HostIn H →
      Url.schemeRe (urlText sc P H rest) = true ∧
      Url.splitScheme (urlText sc P H rest) = (some sc, 47 :: 47 :: (P ++ (H ++ rest))) ∧
      Url.splitAuthority (47 :: 47 :: (P ++ (H ++ rest))) =
        (some (P ++ (H ++ rest.takeWhile Url.authChar)), rest.dropWhile Url.authChar) := by
    intro H hH
    obtain ⟨c, t, rfl, hc, ht⟩ := hsc
    have h58 : Url.schemeChar1 58 = false := by decide
    have h58' : Url.schemeChar 58 = false := by decide
    have hne : c ≠ 47 := Url.alpha_ne47 hc
    have ht' : ∀ x ∈ t, Url.schemeChar x = true := fun x hx => schemeChar1_schemeChar (ht x hx)
    refine ⟨?_, ?_, ?_⟩
    · simp only [urlText, List.cons_append, Url.schemeRe, hne, if_false, hc, if_true]
      rw [(Url.takeWhile_append_stop t 58 (47 :: 47 :: (P ++ (H ++ rest))) ht h58).2]
      rfl
    · simp only [urlText, List.cons_append, Url.splitScheme, hc, if_true]
      rw [(Url.takeWhile_append_stop t 58 (47 :: 47 :: (P ++ (H ++ rest))) ht' h58').2,
        (Url.takeWhile_append_stop t 58 (47 :: 47 :: (P ++ (H ++ rest))) ht' h58').1]
      rfl
    · have hPH : ∀ x ∈ P ++ H, Url.authChar x = true := by
        intro x hx
        rcases List.mem_append.mp hx with hx | hx
        · exact hPa x hx
        · exact hH.auth x hx
      have := takeWhile_append_all (p := Url.authChar) (P ++ H) rest hPH
      simp only [List.append_assoc] at this
      simp only [Url.splitAuthority, this.1, this.2]
  obtain ⟨f1, f2, f3⟩ := front H₁ hH₁
  obtain ⟨g1, g2, g3⟩ := front H₂ hH₂
  unfold Url.parseCore
  simp only [f1, f2, f3, g1, g2, g3, if_true, Option.map_some,
    parseAuthority_hostIn _ hP hH₁ hA h64, parseAuthority_hostIn _ hP hH₂ hA h64]
  cases Url.portPart (rest.takeWhile Url.authChar) with
  | none => rfl
  | some p =>
    simp only [bind, Except.bind]
    split <;> simp only [hN]

/-- **The host's letter case does not influence the parse**, for every kind of ASCII host text: a
reg-name with or without percent-escapes, a dotted quad, a bracketed IPv6 literal (whose zone id, if
any, is spelled identically in both texts — a zone id is case-sensitive) -/
theorem parseUrlWith_host_case_gen (idna : Str → Option Str) (sc P au H₁ H₂ rest : Str) (hsc : SchemeText sc)
    (hs : lower sc = http ∨ lower sc = https) (hP : UiPrefix P au) (hPa : ∀ c ∈ P, Url.authChar c = true)
    (hk₁ : Url.regText H₁ = true ∨ Url.ipv6AddrzMatch H₁ = true)
    (hk₂ : Url.regText H₂ = true ∨ Url.ipv6AddrzMatch H₂ = true)
    (ha₁ : H₁.all (· < 128) = true) (ha₂ : H₂.all (· < 128) = true) (hl : lower H₁ = lower H₂)
    (hz : Url.ipv6AddrzMatch H₁ = true → H₁.dropWhile (· != 37) = H₂.dropWhile (· != 37))
    (hrest : rest = [] ∨ ∃ c t, rest = c :: t ∧ (c = 58 ∨ Url.authChar c = false))
    (h64 : 64 ∉ rest.takeWhile Url.authChar) :
    Url.parseUrlWith idna (urlText sc P H₁ rest) = Url.parseUrlWith idna (urlText sc P H₂ rest) := by
  by_cases hne₁ : H₁ = []
  · have : H₂ = [] := by
      have := congrArg List.length hl
      simp only [lower_length, hne₁, List.length_nil] at this
      exact List.eq_nil_of_length_eq_zero this.symm
    rw [hne₁, this]
  · have hne₂ : H₂ ≠ [] := by
      intro e
      have := congrArg List.length hl
      simp only [lower_length, e, List.length_nil] at this
      exact hne₁ (List.eq_nil_of_length_eq_zero this)
    have hin : ∀ H, H ≠ [] → (Url.regText H = true ∨ Url.ipv6AddrzMatch H = true) → HostIn H := by
      intro H hne hk
      rcases hk with hk | hk
      · exact hostIn_regText hk hne
      · exact hostIn_literal hk
    have hn : Url.Normalizable (some (lower sc)) := by
      rcases hs with e | e <;> rw [e] <;> (unfold Url.Normalizable; decide)
    have hN := Url.normalizeHost_case idna hn ha₁ ha₂ hl hz
    have e1 : ∀ H, (urlText sc P H rest).isEmpty = false := by
      intro H
      obtain ⟨c, t, rfl, -, -⟩ := hsc
      rfl
    unfold Url.parseUrlWith
    rw [e1, e1, parseCore_host_case_gen idna sc P au H₁ H₂ rest hsc hP hPa (hin H₁ hne₁ hk₁) (hin H₂ hne₂ hk₂)
      hN hrest h64]

end U3.Route
