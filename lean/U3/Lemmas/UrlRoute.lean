import U3.Lemmas.Route
import U3.Lemmas.UrlHost
/-!
# From `parse_url` to the dial theorems of C15

`U3.Lemmas.UrlHost` proves that the host of every successful http / https parse has one of three
shapes; here these shapes are identified with the `StableHost` / `StableZoned` hypotheses of the route
theorems (`C15_host_stable_partial`), so that those apply to every URL text a `PoolManager` accepts.
Helper lemmas for `U3.Props.C15` (core Lean only).
-/
namespace U3.Route
open U3

/-- the three shapes of a parsed host are the stable shapes, once the `zone25` shape of the known
finding is excluded -/
theorem stable_of_shape {h : Str} (hsh : Url.NameHost h ∨ Url.LiteralHost h ∨ Url.ZonedHost h)
    (h25 : Url.zone25 h = false) : StableHost h ∨ StableZoned h := by
  rcases hsh with hn | hl | hz
  · exact Or.inl (Or.inl hn)
  · exact Or.inl (Or.inr (Or.inr hl))
  · right
    obtain ⟨h6, hl, z, hz, hnf⟩ := hz
    refine ⟨h6, hl, z, hz, ?_, hnf⟩
    rintro ⟨hp, hne⟩
    have hzo := Url.zoneOf_of hz
    simp only [Url.zone25, h6, hzo, Bool.true_and, hp] at h25
    simp only [bne_eq_false_iff_eq] at h25
    exact hne h25

/-- **every host `parse_url` returns for an http / https URL is stable** under the pool's second
`_normalize_host`, the `zone25` shape excepted (contract `IdnaLdh` on the IDNA oracle) -/
theorem stable_of_parse {idna : Str → Option Str} (hc : Url.IdnaLdh idna) {url : Str} {u : Url.Url}
    (hp : Url.parseUrlWith idna url = .ok u) {s : Str} (hs : u.scheme = some s) (hsch : s = http ∨ s = https)
    {hst : Str} (hh : u.host = some hst) (h25 : Url.zone25 hst = false) : StableHost hst ∨ StableZoned hst := by
  apply stable_of_shape _ h25
  apply Url.parsed_host_shape hc hp _ hh
  rw [hs]
  rcases hsch with rfl | rfl <;> (unfold Url.Normalizable; decide)

end U3.Route
