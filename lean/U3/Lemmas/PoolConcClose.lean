import U3.Lemmas.PoolConcInv
/-! Lemmas about connections that are pooled CLOSED (`Connection: close` replies, `Outcome.okClose`)
and about `EmptyPoolError` under the lease discipline (C02). -/
namespace U3.PoolConc

variable {cfg : Cfg} {tid : Nat} {sh sh' : Shared} {th th' : Thread}

/-! ## Checking out a queued connection object, open or not -/

/-- `_get_conn` on a queue whose top item is a connection object `c` — whether its socket is open,
was closed by a `Connection: close` reply, or is open with the peer gone: exactly that one item
leaves the queue, no socket is opened or closed by the `get`, no connection object is created, and
the thread goes on with that same object — to `conn.close()` when the peer has dropped it
(`is_connection_dropped`), else to writing its request. -/
theorem tstep_getQ_conn {f l st c q} (hpc : th.pc = .getQ f l st) (hq : sh.queue = some c :: q) :
    tstep cfg tid sh th =
      some ({ sh with queue := q },
            { th with pc := if sh.gone.contains c then .dropClose c f l st else .send c f l st }) := by
  rcases th with ⟨prog, pc, resp, leaked, results, sent, rclose⟩
  simp only at hpc; subst hpc
  by_cases hg : c ∈ sh.gone <;> simp [tstep, tstepPc, hq, hg]

/-- closing a dropped connection takes nothing from the queue and creates nothing; the thread goes on
to write its request on the same object -/
theorem tstep_dropClose {c f l st} (hpc : th.pc = .dropClose c f l st)
    (h : tstep cfg tid sh th = some (sh', th')) :
    c ∉ sh'.openC ∧ sh'.queue = sh.queue ∧ sh'.nextId = sh.nextId ∧ th'.pc = .send c f l st := by
  rcases th with ⟨prog, pc, resp, leaked, results, sent, rclose⟩
  simp only at hpc; subst hpc
  simp only [tstep, tstepPc, Option.some.injEq, Prod.mk.injEq] at h
  obtain ⟨rfl, rfl⟩ := h
  simp

/-- writing the request (re)connects the connection object the thread holds: afterwards it is open,
and nothing was taken from the queue -/
theorem tstep_send_opens {c f l st} (hpc : th.pc = .send c f l st)
    (h : tstep cfg tid sh th = some (sh', th')) :
    c ∈ sh'.openC ∧ sh'.queue = sh.queue ∧ sh'.nextId = sh.nextId ∧
      th'.pc = .recv c (tid, th.sent) f l st := by
  rcases th with ⟨prog, pc, resp, leaked, results, sent, rclose⟩
  simp only at hpc; subst hpc
  simp only [tstep, tstepPc, Option.some.injEq, Prod.mk.injEq] at h
  obtain ⟨rfl, rfl⟩ := h
  simp

theorem step_send_opens {s s' : State} {t : Nat} {th : Thread} {c f l st}
    (hget : s.threads[t]? = some th) (hpc : th.pc = .send c f l st) (h : step s t = some s') :
    c ∈ s'.sh.openC ∧ s'.sh.queue = s.sh.queue ∧ s'.sh.nextId = s.sh.nextId := by
  obtain ⟨th1, sh2, th2, hget1, hts, rfl⟩ := step_some h
  rw [hget] at hget1; cases hget1
  obtain ⟨h3, h4, h5, -⟩ := tstep_send_opens hpc hts
  exact ⟨h3, h4, h5⟩

theorem step_dropClose {s s' : State} {t : Nat} {th : Thread} {c f l st}
    (hget : s.threads[t]? = some th) (hpc : th.pc = .dropClose c f l st) (h : step s t = some s') :
    c ∉ s'.sh.openC ∧ s'.sh.queue = s.sh.queue ∧ s'.sh.nextId = s.sh.nextId ∧
      ∃ th', s'.threads[t]? = some th' ∧ th'.pc = .send c f l st := by
  obtain ⟨th1, sh2, th2, hget1, hts, rfl⟩ := step_some h
  rw [hget] at hget1; cases hget1
  obtain ⟨h3, h4, h5, h6⟩ := tstep_dropClose hpc hts
  exact ⟨h3, h4, h5, th2, by simp [getElem?_set_of_get hget], h6⟩

/-! ## `EmptyPoolError` only on an empty queue -/

/-- a new `emptyPool` result is produced by a `get()` that found the queue empty -/
theorem tstep_results_empty (h : tstep cfg tid sh th = some (sh', th')) (hr : recvOK sh th)
    (hk : contOK th) : ∀ p ∈ th'.results, p ∈ th.results ∨ p.2 ≠ .emptyPool ∨
      ((∃ f l st, th.pc = .getQ f l st) ∧ sh.queue = [] ∧ cfg.block = true) := by
  intro p hp
  tstep_cases th h <;> simp [contOK, recvOK] at hr hk hp ⊢ <;>
    first
    | exact Or.inl hp
    | (have := finish_results_mem hp; grind)
    | (have := applyCont_results_mem hp; grind)
    | (have := failPut_results_mem hp; grind)

/-- a thread that follows the lease discipline holds at most one slot -/
theorem Disc.slots_le {th : Thread} (hd : Disc th) : th.slots ≤ 1 := by
  rcases th with ⟨prog, pc, resp, leaked, results, sent, rclose⟩
  obtain ⟨hl, -, -, hrun⟩ := hd
  simp only at hl hrun
  subst hl
  by_cases hpc : pc = .idle
  · subst hpc; cases resp <;> simp [Thread.slots]
  · have := (hrun hpc).1
    subst this
    cases pc <;> simp [Thread.slots]

theorem sum_map_le_pred {α} (f : α → Nat) {l : List α} {t : Nat} {a : α} (h : l[t]? = some a)
    (h0 : f a = 0) (h1 : ∀ b ∈ l, f b ≤ 1) : (l.map f).sum + 1 ≤ l.length := by
  induction l generalizing t with
  | nil => simp at h
  | cons b l ih =>
    cases t with
    | zero =>
      simp at h; subst h
      have := sum_map_le_length f (l := l) (fun x hx => h1 x (List.mem_cons_of_mem _ hx))
      simp only [List.map_cons, List.sum_cons, List.length_cons]; omega
    | succ t =>
      simp at h
      have := ih h (fun x hx => h1 x (List.mem_cons_of_mem _ hx))
      have := h1 b List.mem_cons_self
      simp only [List.map_cons, List.sum_cons, List.length_cons]; omega

/-- under the lease discipline a `block=True` pool is found empty only when every slot is lent to
another thread: there are more threads than slots -/
theorem empty_exhausted {s : State} {t : Nat} {th : Thread} (hp : InvP s)
    (hget : s.threads[t]? = some th) {f l st} (hpc : th.pc = .getQ f l st) (hq : s.sh.queue = [])
    (hb : s.cfg.block = true) : s.cfg.maxsize < s.threads.length := by
  have h1 := hp.nc.cons hb
  have h2 := sum_map_le_pred Thread.slots hget ((hp.d t th hget).slots_getQ hpc)
    (fun b hb' => by
      obtain ⟨t2, g2⟩ := List.getElem?_of_mem hb'
      exact (hp.d t2 b g2).slots_le)
  simp only [leases, hq, List.length_nil] at h1
  omega

/-- invariant: under the lease discipline, an `EmptyPoolError` among the results means there are
more threads than slots -/
def InvE (s : State) : Prop :=
  ∀ (t : Nat) (th : Thread), s.threads[t]? = some th → ∀ p ∈ th.results, p.2 = .emptyPool →
    s.cfg.maxsize < s.threads.length

theorem invE_step {s s' : State} {t : Nat} (hp : InvP s) (he : InvE s) (h : step s t = some s') :
    InvE s' := by
  obtain ⟨th, sh', th', hget, hts, rfl⟩ := step_some h
  intro t2 th2 h2 p hmem hres
  show s.cfg.maxsize < (s.threads.set t th').length
  rw [List.length_set]
  have h2 : (s.threads.set t th')[t2]? = some th2 := h2
  rcases set_cases hget h2 with ⟨rfl, rfl⟩ | ⟨n2, g2⟩
  · rcases tstep_results_empty hts (hp.all.ids.recv _ _ hget) (hp.all.ids.cont _ _ hget) p hmem with
      hold | hne | ⟨⟨f, l, st, hpc⟩, hq, hb⟩
    · exact he _ _ hget p hold hres
    · exact absurd hres hne
    · exact empty_exhausted hp hget hpc hq hb
  · exact he t2 th2 g2 p hmem hres

theorem invE_run (cfg : Cfg) {progs : List (List Op)} (h : LeaseDiscipline progs) (σ : List Nat) :
    InvE (run cfg progs σ) := by
  have : InvP (run cfg progs σ) ∧ InvE (run cfg progs σ) := by
    refine runFrom_induction (P := fun s => InvP s ∧ InvE s) ?_ _ σ ?_
    · intro s t s' hs hst
      exact ⟨invP_step hs.1 hst, invE_step hs.1 hs.2 hst⟩
    · refine ⟨⟨invAll_init cfg progs, invNC_init cfg h.noClose, invD_init cfg h⟩, ?_⟩
      intro t th g p hmem
      obtain ⟨q, -, rfl⟩ := init_thread g
      simp [initThread] at hmem
  exact this.2

theorem threads_length_step {s s' : State} {t : Nat} (h : step s t = some s') :
    s'.threads.length = s.threads.length := by
  obtain ⟨th, sh', th', -, -, rfl⟩ := step_some h
  simp

theorem threads_length_run (cfg : Cfg) (progs : List (List Op)) (σ : List Nat) :
    (run cfg progs σ).threads.length = progs.length := by
  refine runFrom_induction (P := fun s => s.threads.length = progs.length) ?_ _ σ (by simp [init])
  intro s t s' hs hst
  rw [threads_length_step hst]; exact hs

end U3.PoolConc
