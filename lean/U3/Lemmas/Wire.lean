import U3.Model.Wire
/-! Helper lemmas for C10 / C11 (core Lean only). -/
namespace U3.Wire
open U3

instance {ε α : Type} [DecidableEq ε] [DecidableEq α] : DecidableEq (Except ε α)
  | .ok a, .ok b => if h : a = b then isTrue (by rw [h]) else isFalse (by intro h'; cases h'; exact h rfl)
  | .error a, .error b => if h : a = b then isTrue (by rw [h]) else isFalse (by intro h'; cases h'; exact h rfl)
  | .ok _, .error _ => isFalse (by intro h; cases h)
  | .error _, .ok _ => isFalse (by intro h; cases h)

theorem dropLast_append_of_getLast? (l : List Nat) (x : Nat) (h : l.getLast? = some x) :
    l.dropLast ++ [x] = l := by
  induction l with
  | nil => simp at h
  | cons a t ih =>
    cases t with
    | nil => simp at h; simp [h]
    | cons b u =>
      rw [List.getLast?_cons_cons] at h
      simp only [List.dropLast_cons_cons, List.cons_append]
      rw [ih h]

/-! ## `%x` round trip -/

theorem hexVal_hexDigit (d : Nat) (h : d < 16) : hexVal (hexDigit d) = some d := by
  unfold hexDigit hexVal
  split
  · have : 48 ≤ 48 + d ∧ 48 + d ≤ 57 := by omega
    simp [this]
  · have h2 : ¬ (48 ≤ 87 + d ∧ 87 + d ≤ 57) := by omega
    have h3 : 97 ≤ 87 + d ∧ 87 + d ≤ 102 := by omega
    simp [h2, h3]

theorem toHexAux_fuel (n : Nat) : ∀ f g, n ≤ f → n ≤ g → toHexAux f n = toHexAux g n := by
  induction n using Nat.strongRecOn with
  | _ n ih =>
    intro f g hf hg
    cases f with
    | zero =>
      have : n = 0 := by omega
      subst this
      cases g <;> simp [toHexAux]
    | succ f =>
      cases g with
      | zero =>
        have : n = 0 := by omega
        subst this
        simp [toHexAux]
      | succ g =>
        simp only [toHexAux]
        split
        · rfl
        · rename_i h
          have hlt : n / 16 < n := Nat.div_lt_self (by omega) (by decide)
          rw [ih (n / 16) hlt f g (by omega) (by omega)]

theorem toHex_unfold (n : Nat) :
    toHex n = if n < 16 then [hexDigit n] else toHex (n / 16) ++ [hexDigit (n % 16)] := by
  unfold toHex
  cases n with
  | zero => simp [toHexAux]
  | succ m =>
    simp only [toHexAux]
    split
    · rfl
    · rename_i h
      have hlt : (m + 1) / 16 < m + 1 := Nat.div_lt_self (by omega) (by decide)
      rw [toHexAux_fuel ((m + 1) / 16) m ((m + 1) / 16) (by omega) (Nat.le_refl _)]

theorem ofHexAux_append (a b : Bytes) (acc : Nat) :
    ofHexAux (a ++ b) acc = (ofHexAux a acc).bind (fun m => ofHexAux b m) := by
  induction a generalizing acc with
  | nil => simp [ofHexAux]
  | cons c cs ih =>
    simp only [List.cons_append, ofHexAux]
    cases hexVal c with
    | none => simp
    | some d => simp [ih]

theorem ofHexAux_toHex (n : Nat) : ofHexAux (toHex n) 0 = some n := by
  induction n using Nat.strongRecOn with
  | _ n ih =>
    rw [toHex_unfold]
    split
    · rename_i h
      simp [ofHexAux, hexVal_hexDigit n h]
    · rename_i h
      have hlt : n / 16 < n := Nat.div_lt_self (by omega) (by decide)
      have hm : n % 16 < 16 := Nat.mod_lt _ (by decide)
      rw [ofHexAux_append, ih _ hlt]
      simp only [Option.bind_some, ofHexAux, hexVal_hexDigit _ hm]
      congr 1; omega

theorem toHex_ne_nil (n : Nat) : toHex n ≠ [] := by
  rw [toHex_unfold]; split <;> simp

/-- the chunk-size line written with `%x` is read back exactly by the strict hex reader -/
theorem ofHex_toHex (n : Nat) : ofHex (toHex n) = some n := by
  simp [ofHex, toHex_ne_nil, ofHexAux_toHex]

theorem toHex_all_hex (n : Nat) : ∀ c ∈ toHex n, (hexVal c).isSome = true := by
  induction n using Nat.strongRecOn with
  | _ n ih =>
    rw [toHex_unfold]
    split
    · rename_i h
      intro c hc
      simp at hc; subst hc
      simp [hexVal_hexDigit n h]
    · rename_i h
      have hlt : n / 16 < n := Nat.div_lt_self (by omega) (by decide)
      have hm : n % 16 < 16 := Nat.mod_lt _ (by decide)
      intro c hc
      simp only [List.mem_append, List.mem_singleton] at hc
      rcases hc with hc | hc
      · exact ih _ hlt c hc
      · subst hc; simp [hexVal_hexDigit _ hm]

theorem takeWhile_append_stop {p : Nat → Bool} (l r : List Nat) (x : Nat)
    (hl : ∀ a ∈ l, p a = true) (hx : p x = false) : (l ++ x :: r).takeWhile p = l := by
  induction l with
  | nil => simp [hx]
  | cons a t ih =>
    have ha : p a = true := hl a (by simp)
    simp only [List.cons_append, List.takeWhile_cons, ha, if_true]
    rw [ih (fun b hb => hl b (by simp [hb]))]

/-! ## chunk framing round trip -/

/-- `hex(len) CRLF data CRLF` for every piece -/
def frameData : List Bytes → Bytes
  | [] => []
  | d :: t => toHex d.length ++ crlf ++ d ++ crlf ++ frameData t

theorem dechunk_last (fuel : Nat) : dechunk (fuel + 1) lastChunk = some [] := by
  simp [dechunk, lastChunk, hexVal, ofHex, ofHexAux, crlf]

theorem dechunk_step (fuel : Nat) (d rest : Bytes) (hd : d ≠ []) :
    dechunk (fuel + 1) (toHex d.length ++ crlf ++ d ++ crlf ++ rest) =
      (dechunk fuel rest).map (fun p => d ++ p) := by
  have htw : (toHex d.length ++ crlf ++ d ++ crlf ++ rest).takeWhile (fun c => (hexVal c).isSome) = toHex d.length := by
    have : toHex d.length ++ crlf ++ d ++ crlf ++ rest = toHex d.length ++ 13 :: (10 :: (d ++ crlf ++ rest)) := by
      simp [crlf]
    rw [this]
    exact takeWhile_append_stop _ _ 13 (toHex_all_hex _) (by simp [hexVal])
  have hdrop : (toHex d.length ++ crlf ++ d ++ crlf ++ rest).drop (toHex d.length).length = 13 :: 10 :: (d ++ crlf ++ rest) := by
    simp [crlf]
  have hn : d.length ≠ 0 := by
    intro h; exact hd (List.eq_nil_of_length_eq_zero h)
  simp only [dechunk, htw, hdrop, ofHex_toHex]
  have h1 : ¬ (d ++ crlf ++ rest).length < d.length + 2 := by simp [crlf]
  have h2 : ((d ++ crlf ++ rest).drop d.length).take 2 = crlf := by simp [crlf]
  have h3 : (d ++ crlf ++ rest).drop (d.length + 2) = rest := by
    rw [← List.drop_drop]; simp [crlf]
  have h4 : (d ++ crlf ++ rest).take d.length = d := by simp
  rw [if_neg hn, if_neg h1, h2, h3, h4]
  simp

theorem dechunk_frameData (ds : List Bytes) (hne : ∀ d ∈ ds, d ≠ []) (fuel : Nat) (hf : ds.length + 1 ≤ fuel) :
    dechunk fuel (frameData ds ++ lastChunk) = some ds.flatten := by
  induction ds generalizing fuel with
  | nil =>
    obtain ⟨f, rfl⟩ : ∃ f, fuel = f + 1 := ⟨fuel - 1, by simp at hf; omega⟩
    simpa [frameData] using dechunk_last f
  | cons d t ih =>
    obtain ⟨f, rfl⟩ : ∃ f, fuel = f + 1 := ⟨fuel - 1, by simp at hf; omega⟩
    have hd : d ≠ [] := hne d (by simp)
    have := dechunk_step f d (frameData t ++ lastChunk) hd
    simp only [frameData, List.append_assoc] at this ⊢
    rw [this, ih (fun x hx => hne x (by simp [hx])) f (by simp at hf; omega)]
    simp

theorem length_le_frameData (ds : List Bytes) : ds.length ≤ (frameData ds).length := by
  induction ds with
  | nil => simp [frameData]
  | cons d t ih =>
    have := toHex_ne_nil d.length
    have h1 : 1 ≤ (toHex d.length).length := by
      cases h : toHex d.length with
      | nil => exact absurd h this
      | cons _ _ => simp
    simp [frameData]; omega

/-! ## the permissive head parser recovers the buffered lines -/

theorem bind_ok {α β : Type} {x : Except Exc α} {f : α → Except Exc β} {b : β}
    (h : (x >>= f) = .ok b) : ∃ a, x = .ok a ∧ f a = .ok b := by
  cases x with
  | error e => simp [bind, Except.bind] at h
  | ok a => exact ⟨a, rfl, by simpa [bind, Except.bind] using h⟩

theorem map_ok {α β : Type} {x : Except Exc α} {f : α → β} {b : β}
    (h : x.map f = .ok b) : ∃ a, x = .ok a ∧ f a = b := by
  cases x with
  | error e => simp [Except.map] at h
  | ok a => exact ⟨a, rfl, by simpa [Except.map] using h⟩

/-- every CR / LF in the line is the start of a fold (terminator followed by SP / HTAB) -/
def safe : Bytes → Bool
  | [] => true
  | x :: t => (match afterTerm (x :: t) with | some r => startsWS r | none => true) && safe t

theorem afterTerm_none {x : Nat} (t : Bytes) (h1 : x ≠ 13) (h2 : x ≠ 10) : afterTerm (x :: t) = none := by
  simp [afterTerm, h1, h2]

theorem isWS_ne {c : Nat} (h : isWS c = true) : c ≠ 10 ∧ c ≠ 13 := by
  simp [isWS] at h; omega

theorem afterTerm_append {a r : Bytes} (s : Bytes) (h : afterTerm a = some r) (hw : startsWS r = true) :
    afterTerm (a ++ s) = some (r ++ s) ∧ startsWS (r ++ s) = true := by
  have hw' : startsWS (r ++ s) = true := by
    cases r with
    | nil => simp [startsWS] at hw
    | cons c r' => simpa [startsWS] using hw
  refine ⟨?_, hw'⟩
  cases a with
  | nil => simp [afterTerm] at h
  | cons x t =>
    simp only [afterTerm] at h
    by_cases hx : x = 13
    · simp only [hx, if_true] at h
      cases t with
      | nil => simp at h; subst h; simp [startsWS] at hw
      | cons y u =>
        by_cases hy : y = 10
        · simp only [hy, if_true] at h
          simp at h; subst h
          simp [afterTerm, hx, hy]
        · simp only [hy, if_false] at h
          simp at h; subst h
          simp [afterTerm, hx, hy]
    · simp only [hx, if_false] at h
      by_cases hx2 : x = 10
      · simp only [hx2, if_true] at h
        simp at h; subst h
        simp [afterTerm, hx2]
      · simp [hx2] at h

theorem takeLogical_line (L S : Bytes) (hs : safe L = true) (hS : startsWS S = false) :
    takeLogical (L ++ crlf ++ S) = some (L, S) := by
  induction L with
  | nil => simp [takeLogical, afterTerm, crlf, hS]
  | cons x t ih =>
    simp only [safe, Bool.and_eq_true] at hs
    obtain ⟨h1, h2⟩ := hs
    have ih' := ih h2
    simp only [List.cons_append, takeLogical]
    cases hat : afterTerm (x :: t) with
    | some r =>
      simp only [hat] at h1
      have := afterTerm_append (crlf ++ S) hat h1
      simp only [List.cons_append, List.append_assoc] at this ih' ⊢
      rw [this.1]
      simp only [this.2, if_true, ih', Option.map_some]
    | none =>
      have hx : x ≠ 13 ∧ x ≠ 10 := by
        simp only [afterTerm] at hat
        by_cases hx : x = 13
        · simp only [hx, if_true] at hat
          cases t with
          | nil => simp at hat
          | cons y u => by_cases hy : y = 10 <;> simp [hy] at hat
        · by_cases hx2 : x = 10
          · simp [hx, hx2] at hat
          · exact ⟨hx, hx2⟩
      simp only [List.append_assoc] at ih' ⊢
      rw [afterTerm_none _ hx.1 hx.2]
      simp only [ih', Option.map_some]

theorem safe_append_noCRLF (a b : Bytes) (ha : ∀ c ∈ a, c ≠ 13 ∧ c ≠ 10) (hb : safe b = true) :
    safe (a ++ b) = true := by
  induction a with
  | nil => simpa using hb
  | cons x t ih =>
    have hx := ha x (by simp)
    simp only [List.cons_append, safe, afterTerm_none _ hx.1 hx.2, Bool.true_and]
    exact ih (fun c hc => ha c (by simp [hc]))

theorem safe_of_legal_value (v : Bytes) (h : illegalHeaderValue v = false) : safe v = true := by
  induction v with
  | nil => rfl
  | cons x t ih =>
    simp only [illegalHeaderValue, Bool.or_eq_false_iff] at h
    obtain ⟨h1, h2⟩ := h
    simp only [safe, Bool.and_eq_true]
    refine ⟨?_, ih h2⟩
    simp only [illegalAt] at h1
    simp only [afterTerm]
    by_cases hx : x = 13
    · subst hx
      cases t with
      | nil => simp [startsWS, startsLF] at h1
      | cons y u =>
        by_cases hy : y = 10
        · subst hy
          simp only [illegalHeaderValue, illegalAt, Bool.or_eq_false_iff] at h2
          have := h2.1
          simp at this
          simpa using this
        · simp [startsLF, hy] at h1
          simp [hy, h1]
    · by_cases hx2 : x = 10
      · subst hx2
        simp at h1
        simp [h1]
      · simp [hx, hx2]

/-- a line the parser gives back unchanged -/
def GoodLine (l : Bytes) : Prop :=
  (∃ x t, l = x :: t ∧ x ≠ 13 ∧ x ≠ 10 ∧ isWS x = false) ∧ safe l = true

theorem parseLines_lines (ls : List Bytes) (rest : Bytes) (hg : ∀ l ∈ ls, GoodLine l) (fuel : Nat)
    (hf : ls.length + 1 ≤ fuel) :
    parseLines fuel ((ls.map (· ++ crlf)).flatten ++ crlf ++ rest) = some (ls, rest) := by
  induction ls generalizing fuel with
  | nil =>
    obtain ⟨f, rfl⟩ : ∃ f, fuel = f + 1 := ⟨fuel - 1, by simp at hf; omega⟩
    simp [parseLines, afterTerm, crlf]
  | cons l t ih =>
    obtain ⟨f, rfl⟩ : ∃ f, fuel = f + 1 := ⟨fuel - 1, by simp at hf; omega⟩
    obtain ⟨⟨x, u, hl, hx1, hx2, hx3⟩, hsafe⟩ := hg l (by simp)
    subst hl
    have hS : startsWS ((t.map (· ++ crlf)).flatten ++ crlf ++ rest) = false := by
      cases t with
      | nil => simp [startsWS, crlf, isWS]
      | cons l2 t2 =>
        obtain ⟨⟨y, v, hl2, _, _, hy3⟩, _⟩ := hg l2 (by simp)
        subst hl2
        simp [startsWS, hy3]
    have htl := takeLogical_line (x :: u) _ hsafe hS
    have ih' := ih (fun l hl => hg l (by simp [hl])) f (by simp at hf; omega)
    simp only [List.map_cons, List.flatten_cons, List.append_assoc, List.cons_append] at htl ih' ⊢
    simp only [parseLines, afterTerm_none _ hx1 hx2, htl, ih', Option.map_some]

theorem length_le_flatten_lines (ls : List Bytes) : ls.length ≤ ((ls.map (· ++ crlf)).flatten).length := by
  induction ls with
  | nil => simp
  | cons l t ih => simp [crlf] at ih ⊢; omega

theorem headBytes_eq (lines : List Bytes) : headBytes lines = (lines.map (· ++ crlf)).flatten ++ crlf := by
  unfold headBytes
  induction lines with
  | nil => simp [joinWith, crlf]
  | cons l t ih =>
    cases t with
    | nil => simp [joinWith, crlf]
    | cons l2 t2 =>
      simp only [List.cons_append, joinWith] at ih ⊢
      rw [ih]; simp

/-! ### request line and header lines -/

theorem splitOn1_not_mem (c : Nat) (a : Bytes) (h : c ∉ a) : splitOn1 c a = [a] := by
  induction a with
  | nil => simp [splitOn1]
  | cons x t ih =>
    have hx : x ≠ c := fun e => h (by simp [e])
    have := ih (fun m => h (by simp [m]))
    simp [splitOn1, hx, this]

theorem splitOn1_append (c : Nat) (a b : Bytes) (h : c ∉ a) : splitOn1 c (a ++ c :: b) = a :: splitOn1 c b := by
  induction a with
  | nil => simp [splitOn1]
  | cons x t ih =>
    have hx : x ≠ c := fun e => h (by simp [e])
    have := ih (fun m => h (by simp [m]))
    simp [splitOn1, hx, this]

theorem parseRequestLine_ok (m u : Bytes) (hm : m ≠ []) (hu : u ≠ []) (hm32 : 32 ∉ m) (hu32 : 32 ∉ u)
    (htok : m.all isTokenC = true) :
    parseRequestLine (m ++ [32] ++ u ++ [32] ++ httpVsn) = some (m, u) := by
  have h1 : splitOn1 32 (m ++ [32] ++ u ++ [32] ++ httpVsn) = [m, u, httpVsn] := by
    have : m ++ [32] ++ u ++ [32] ++ httpVsn = m ++ 32 :: (u ++ 32 :: httpVsn) := by simp
    rw [this, splitOn1_append 32 m _ hm32, splitOn1_append 32 u _ hu32,
        splitOn1_not_mem 32 httpVsn (by decide)]
  have hm' : m.isEmpty = false := by cases m <;> simp_all
  have hu' : u.isEmpty = false := by cases u <;> simp_all
  unfold parseRequestLine
  rw [h1]
  simp [hm', hu', htok]

theorem dropWhile_append_stop {p : Nat → Bool} (l r : List Nat) (x : Nat)
    (hl : ∀ a ∈ l, p a = true) (hx : p x = false) : (l ++ x :: r).dropWhile p = x :: r := by
  induction l with
  | nil => simp [hx]
  | cons a t ih =>
    have ha : p a = true := hl a (by simp)
    simp only [List.cons_append, List.dropWhile_cons, ha, if_true]
    exact ih (fun b hb => hl b (by simp [hb]))

theorem trimOWS_sp (v : Bytes) : trimOWS (32 :: v) = trimOWS v := by
  simp [trimOWS, ltrim, isWS]

theorem parseHeaderLine_ok (n v : Bytes) (hn : n ≠ []) (h58 : 58 ∉ n) :
    parseHeaderLine (hdrLine (n, v)) = some (n, trimOWS v) := by
  have hl : ∀ a ∈ n, (a != 58) = true := by
    intro a ha; simp; intro e; exact h58 (e ▸ ha)
  have e1 : hdrLine (n, v) = n ++ 58 :: (32 :: v) := by simp [hdrLine, colonSp]
  have hn' : n.isEmpty = false := by cases n <;> simp_all
  rw [e1]
  simp only [parseHeaderLine, takeWhile_append_stop n (32 :: v) 58 hl (by simp),
             dropWhile_append_stop n (32 :: v) 58 hl (by simp), hn', trimOWS_sp]
  simp

theorem legalName_facts (n : Bytes) (h : legalHeaderName n = true) :
    n ≠ [] ∧ 58 ∉ n ∧ (∀ c ∈ n, c ≠ 13 ∧ c ≠ 10) ∧
    (∃ x t, n = x :: t ∧ x ≠ 13 ∧ x ≠ 10 ∧ isWS x = false) := by
  cases n with
  | nil => simp [legalHeaderName] at h
  | cons x t =>
    simp only [legalHeaderName, Bool.and_eq_true, Bool.not_eq_true', Bool.or_eq_false_iff,
               List.all_eq_true] at h
    obtain ⟨⟨hx58, hxs⟩, ht⟩ := h
    have hx58' : x ≠ 58 := by simpa using hx58
    have hxs' : x ≠ 32 ∧ ¬ (9 ≤ x ∧ x ≤ 13) := by
      simp [isReSpace] at hxs; omega
    have ht' : ∀ c ∈ t, c ≠ 58 ∧ c ≠ 13 ∧ c ≠ 10 := by
      intro c hc
      have := ht c hc
      simp at this
      exact ⟨this.1.1, this.1.2, this.2⟩
    refine ⟨by simp, ?_, ?_, x, t, rfl, by omega, by omega, ?_⟩
    · intro hm
      simp at hm
      rcases hm with e | hm
      · exact hx58' e.symm
      · exact (ht' 58 hm).1 rfl
    · intro c hc
      simp at hc
      rcases hc with e | hc
      · subst e; omega
      · exact ⟨(ht' c hc).2.1, (ht' c hc).2.2⟩
    · simp [isWS]; omega

/-- a header accepted by `putheader`: legal name, value without an unfolded line break -/
def LegalHdr (h : Hdr) : Prop := legalHeaderName h.1 = true ∧ illegalHeaderValue h.2 = false

theorem goodLine_hdr (h : Hdr) (hl : LegalHdr h) : GoodLine (hdrLine h) := by
  obtain ⟨hn, hv⟩ := hl
  obtain ⟨hne, _, hcr, x, t, e, hx1, hx2, hx3⟩ := legalName_facts h.1 hn
  constructor
  · exact ⟨x, t ++ colonSp ++ h.2, by simp [hdrLine, e], hx1, hx2, hx3⟩
  · have : hdrLine h = h.1 ++ (colonSp ++ h.2) := by simp [hdrLine]
    rw [this]
    apply safe_append_noCRLF _ _ hcr
    apply safe_append_noCRLF _ _ (by decide)
    exact safe_of_legal_value _ hv

theorem mapM_parseHeaderLine (hs : List Hdr) (hl : ∀ h ∈ hs, LegalHdr h) :
    (hs.map hdrLine).mapM parseHeaderLine = some (hs.map fun h => (h.1, trimOWS h.2)) := by
  induction hs with
  | nil => simp
  | cons h t ih =>
    obtain ⟨hne, h58, _, _⟩ := legalName_facts h.1 (hl h (by simp)).1
    have := parseHeaderLine_ok h.1 h.2 hne h58
    simp only [List.map_cons, List.mapM_cons, this, ih (fun x hx => hl x (by simp [hx]))]
    simp

/-! ## inversion of `prepare` and the head round trip -/

theorem hcPutheader_legal {name : Str} {value : Str ⊕ Bytes} {h : Hdr} (e : hcPutheader name value = .ok h) :
    LegalHdr h ∧ encodeAscii name = .ok h.1 := by
  unfold hcPutheader at e
  split at e
  · simp at e
  · rename_i n hn
    split at e
    · simp at e
    · rename_i hleg
      split at e
      · simp at e
      · rename_i v hv
        split at e
        · simp at e
        · rename_i hill
          simp at e
          subst e
          exact ⟨⟨by simpa using hleg, by simpa using hill⟩, hn⟩

theorem putheader_legal {k v : Str} {l : List Hdr} (e : putheader k v = .ok l) : ∀ h ∈ l, LegalHdr h := by
  unfold putheader at e
  split at e
  · obtain ⟨a, ha, e⟩ := map_ok e
    subst e
    intro h hh
    simp at hh; subst hh
    exact (hcPutheader_legal ha).1
  · split at e
    · simp at e
    · simp at e; subst e; simp

theorem putCallerHeaders_legal {hs : List (Str × Str)} {l : List Hdr} (e : putCallerHeaders hs = .ok l) :
    ∀ h ∈ l, LegalHdr h := by
  induction hs generalizing l with
  | nil => simp [putCallerHeaders] at e; subst e; simp
  | cons kv t ih =>
    obtain ⟨k, v⟩ := kv
    simp only [putCallerHeaders] at e
    split at e
    · simp at e
    · rename_i l1 h1
      split at e
      · simp at e
      · rename_i r hr
        simp at e; subst e
        intro h hh
        simp only [List.mem_append] at hh
        rcases hh with hh | hh
        · exact putheader_legal h1 h hh
        · exact ih hr h hh

theorem framing_legal {keys : List Str} {ch : Bool} {chunks : Option (List Chunk)} {cl : Option Nat} {fr : Framing}
    (e : framing keys ch chunks cl = .ok fr) : ∀ h ∈ fr.lines, LegalHdr h := by
  unfold framing at e
  repeat' split at e
  all_goals first
    | (obtain ⟨a, ha, e⟩ := map_ok e; subst e; exact putheader_legal ha)
    | (simp at e; subst e; simp)

structure ReqLineOk (meth url rl : Bytes) : Prop where
  eq : rl = meth ++ [32] ++ urlOrSlash url ++ [32] ++ httpVsn
  ne : meth ≠ []
  tok : meth.all isTokenC = true
  url : hcUrlBad (urlOrSlash url) = false

theorem putrequest_ok {cfg : Cfg} {meth url : Str} {sh sa : Bool} {r : Bytes × List Hdr}
    (e : putrequest cfg meth url sh sa = .ok r) :
    ReqLineOk meth url r.1 ∧ ∀ h ∈ r.2, LegalHdr h := by
  unfold putrequest at e
  split at e
  · simp at e
  · rename_i htok
    split at e
    · simp at e
    · rename_i hne
      split at e
      · simp at e
      · split at e
        · simp at e
        · rename_i hurl
          split at e
          · simp at e
          · rename_i rl hrl
            split at e
            · simp at e
            · rename_i hostL hhost
              split at e
              · simp at e
              · rename_i aeL hae
                simp at e; subst e
                refine ⟨⟨?_, ?_, ?_, by simpa using hurl⟩, ?_⟩
                · simp only [encodeAscii] at hrl
                  split at hrl
                  · simp at hrl; subst hrl; simp
                  · simp at hrl
                · intro hnil
                  simp [hnil] at hne
                · simp only [hasNonToken, Bool.not_eq_true, List.any_eq_false] at htok
                  simp only [List.all_eq_true]
                  intro c hc
                  have := htok c hc
                  simpa using this
                · intro h hh
                  simp only [List.mem_append] at hh
                  rcases hh with hh | hh
                  · split at hhost
                    · simp at hhost; subst hhost; simp at hh
                    · obtain ⟨a, ha, e2⟩ := map_ok hhost
                      subst e2; simp at hh; subst hh
                      unfold hostLine at ha
                      split at ha
                      · simp at ha
                      · exact (hcPutheader_legal ha).1
                  · split at hae
                    · simp at hae; subst hae; simp at hh
                    · obtain ⟨a, ha, e2⟩ := map_ok hae
                      subst e2; simp at hh; subst hh
                      exact (hcPutheader_legal ha).1

theorem prepare_inv {cfg : Cfg} {meth url : Str} {headers : List (Str × Str)} {body : Body} {chunked : Bool}
    {p : Prepared} (e : prepare cfg meth url headers body chunked = .ok p) :
    ∃ l0 cc fr ua hs,
      hcUrlBad cfg.host = false ∧
      putrequest cfg meth url ((headerKeys headers).contains (lit "host"))
        ((headerKeys headers).contains (lit "accept-encoding")) = .ok l0 ∧
      bodyToChunks body meth cfg.blocksize = .ok cc ∧
      framing (headerKeys headers) chunked cc.chunks cc.contentLength = .ok fr ∧
      (if (headerKeys headers).contains (lit "user-agent") then .ok []
       else putheader (lit "User-Agent") Gen.defaultUserAgent) = .ok ua ∧
      putCallerHeaders headers = .ok hs ∧
      p = ⟨l0.1, l0.2 ++ fr.lines ++ ua ++ hs, fr.chunked, cc.chunks, cc.after⟩ := by
  unfold prepare at e
  split at e
  · simp at e
  · rename_i hhost
    split at e
    · simp at e
    · rename_i l0 h0
      split at e
      · simp at e
      · rename_i cc hcc
        split at e
        · simp at e
        · rename_i fr hfr
          split at e
          · simp at e
          · rename_i ua hua
            split at e
            · simp at e
            · rename_i hs hhs
              injection e with e
              exact ⟨l0, cc, fr, ua, hs, by simpa using hhost, h0, hcc, hfr, hua, hhs, e.symm⟩

theorem prepare_legal {cfg : Cfg} {meth url : Str} {headers : List (Str × Str)} {body : Body} {chunked : Bool}
    {p : Prepared} (e : prepare cfg meth url headers body chunked = .ok p) :
    ReqLineOk meth url p.reqLine ∧ ∀ h ∈ p.hdrs, LegalHdr h := by
  obtain ⟨l0, cc, fr, ua, hs, _, h0, _, hfr, hua, hhs, rfl⟩ := prepare_inv e
  obtain ⟨hrl, hl0⟩ := putrequest_ok h0
  refine ⟨hrl, ?_⟩
  intro h hh
  simp only [List.mem_append] at hh
  rcases hh with ((hh | hh) | hh) | hh
  · exact hl0 h hh
  · exact framing_legal hfr h hh
  · split at hua
    · simp at hua; subst hua; simp at hh
    · exact putheader_legal hua h hh
  · exact putCallerHeaders_legal hhs h hh

theorem tokenC_facts {c : Nat} (h : isTokenC c = true) : c ≠ 13 ∧ c ≠ 10 ∧ c ≠ 32 ∧ isWS c = false := by
  simp [isTokenC, isAlphaC, isUpperC, isLowerC, isDigitC] at h
  simp [isWS]
  omega

theorem urlC_facts {c : Nat} (h : hcUrlBadC c = false) : c ≠ 13 ∧ c ≠ 10 ∧ c ≠ 32 := by
  simp [hcUrlBadC] at h
  omega

theorem urlOrSlash_ne_nil (u : Str) : urlOrSlash u ≠ [] := by
  unfold urlOrSlash; split
  · simp
  · rename_i h; intro e; simp [e] at h

theorem strictParse_prepared (p : Prepared) (meth url : Str) (hrl : ReqLineOk meth url p.reqLine)
    (hl : ∀ h ∈ p.hdrs, LegalHdr h) (rest : Bytes) :
    strictParse (headBytes p.lines ++ rest) =
      some ⟨meth, urlOrSlash url, p.hdrs.map (fun h => (h.1, trimOWS h.2)), rest⟩ := by
  have hm : meth ≠ [] := hrl.ne
  have htokall : ∀ c ∈ meth, isTokenC c = true := by
    have := hrl.tok; simpa [List.all_eq_true] using this
  have hurlall : ∀ c ∈ urlOrSlash url, hcUrlBadC c = false := by
    have := hrl.url; simpa [hcUrlBad, List.any_eq_false] using this
  obtain ⟨x, t, hmx⟩ : ∃ x t, meth = x :: t := by
    cases meth with
    | nil => exact absurd rfl hm
    | cons x t => exact ⟨x, t, rfl⟩
  have hx := tokenC_facts (htokall x (by simp [hmx]))
  -- the request line is a good line
  have hnocr : ∀ c ∈ p.reqLine, c ≠ 13 ∧ c ≠ 10 := by
    intro c hc
    rw [hrl.eq] at hc
    simp only [List.mem_append, List.mem_singleton] at hc
    rcases hc with (((hc | hc) | hc) | hc) | hc
    · exact ⟨(tokenC_facts (htokall c hc)).1, (tokenC_facts (htokall c hc)).2.1⟩
    · subst hc; decide
    · exact ⟨(urlC_facts (hurlall c hc)).1, (urlC_facts (hurlall c hc)).2.1⟩
    · subst hc; decide
    · revert c; decide
  have hgood0 : GoodLine p.reqLine := by
    constructor
    · exact ⟨x, t ++ [32] ++ urlOrSlash url ++ [32] ++ httpVsn, by rw [hrl.eq, hmx]; simp, hx.1, hx.2.1, hx.2.2.2⟩
    · have := safe_append_noCRLF p.reqLine [] hnocr rfl
      simpa using this
  have hgood : ∀ l ∈ p.lines, GoodLine l := by
    intro l hlm
    simp only [Prepared.lines, List.mem_cons, List.mem_map] at hlm
    rcases hlm with rfl | ⟨h, hh, rfl⟩
    · exact hgood0
    · exact goodLine_hdr h (hl h hh)
  have hparse := parseLines_lines p.lines rest hgood
      ((headBytes p.lines ++ rest).length + 1) (by
        rw [headBytes_eq]
        have := length_le_flatten_lines p.lines
        simp only [List.length_append]; omega)
  have hws : startsWS p.reqLine = false := by
    rw [hrl.eq, hmx]; simp [startsWS, hx.2.2.2]
  have h32m : 32 ∉ meth := fun hc => (tokenC_facts (htokall 32 hc)).2.2.1 rfl
  have h32u : 32 ∉ urlOrSlash url := fun hc => (urlC_facts (hurlall 32 hc)).2.2 rfl
  have hreq : parseRequestLine p.reqLine = some (meth, urlOrSlash url) := by
    rw [hrl.eq]
    exact parseRequestLine_ok meth (urlOrSlash url) hm (urlOrSlash_ne_nil url) h32m h32u hrl.tok
  have hmap := mapM_parseHeaderLine p.hdrs hl
  unfold strictParse
  rw [headBytes_eq] at hparse ⊢
  rw [hparse]
  simp [Prepared.lines, hws, hreq, hmap]

/-! ## automatic headers, caller headers, clean targets -/

theorem encodeAscii_ok {s : Str} {b : Bytes} (h : encodeAscii s = .ok b) : b = s := by
  unfold encodeAscii at h; split at h <;> simp at h; exact h.symm

theorem encodeLatin1_ok {s : Str} {b : Bytes} (h : encodeLatin1 s = .ok b) : b = s := by
  unfold encodeLatin1 at h; split at h <;> simp at h; exact h.symm

theorem hcPutheader_name {name : Str} {value : Str ⊕ Bytes} {h : Hdr} (e : hcPutheader name value = .ok h) :
    h.1 = name := encodeAscii_ok (hcPutheader_legal e).2

theorem hcPutheader_str_value {name v : Str} {h : Hdr} (e : hcPutheader name (.inl v) = .ok h) : h = (name, v) := by
  have hn := hcPutheader_name e
  unfold hcPutheader at e
  split at e
  · simp at e
  · split at e
    · simp at e
    · split at e
      · simp at e
      · rename_i v' hv
        split at e
        · simp at e
        · simp at e
          have := encodeLatin1_ok hv
          subst this
          rw [← e] at hn ⊢
          simp at hn
          simp [hn]

/-- the caller's header lines as `putheader` buffers them: those not carrying `SKIP_HEADER` -/
def callerHdrs (headers : List (Str × Str)) : List Hdr :=
  headers.filter (fun kv => kv.2 != Gen.skipHeader)

theorem putheader_eq {k v : Str} {l : List Hdr} (e : putheader k v = .ok l) :
    l = if v != Gen.skipHeader then [(k, v)] else [] := by
  unfold putheader at e
  split at e
  · rename_i hv
    obtain ⟨a, ha, e⟩ := map_ok e
    subst e
    simp [hv, hcPutheader_str_value ha]
  · rename_i hv
    split at e
    · simp at e
    · simp at e; subst e; simp [hv]

theorem putCallerHeaders_eq {hs : List (Str × Str)} {l : List Hdr} (e : putCallerHeaders hs = .ok l) :
    l = callerHdrs hs := by
  induction hs generalizing l with
  | nil => simp [putCallerHeaders] at e; subst e; rfl
  | cons kv t ih =>
    obtain ⟨k, v⟩ := kv
    simp only [putCallerHeaders] at e
    split at e
    · simp at e
    · rename_i l1 h1
      split at e
      · simp at e
      · rename_i r hr
        simp at e; subst e
        rw [putheader_eq h1, ih hr]
        simp only [callerHdrs, List.filter_cons]
        split <;> simp

theorem putrequest_hdrs {cfg : Cfg} {meth url : Str} {sh sa : Bool} {r : Bytes × List Hdr}
    (e : putrequest cfg meth url sh sa = .ok r) :
    ∃ hostL aeL, r.2 = hostL ++ aeL ∧
      (if sh then hostL = [] else ∃ v, hostL = [(lit "Host", v)]) ∧
      (if sa then aeL = [] else aeL = [(lit "Accept-Encoding", lit "identity")]) := by
  unfold putrequest at e
  split at e
  · simp at e
  · split at e
    · simp at e
    · split at e
      · simp at e
      · split at e
        · simp at e
        · split at e
          · simp at e
          · split at e
            · simp at e
            · rename_i hostL hhost
              split at e
              · simp at e
              · rename_i aeL hae
                simp at e; subst e
                refine ⟨hostL, aeL, rfl, ?_, ?_⟩
                · cases sh with
                  | true => simp at hhost; simp [hhost]
                  | false =>
                    simp only [Bool.false_eq_true, if_false] at hhost ⊢
                    obtain ⟨a, ha, e2⟩ := map_ok hhost
                    subst e2
                    unfold hostLine at ha
                    split at ha
                    · simp at ha
                    · have := hcPutheader_name ha
                      exact ⟨a.2, by rw [← this]⟩
                · cases sa with
                  | true => simp at hae; simp [hae]
                  | false =>
                    simp only [Bool.false_eq_true, if_false] at hae ⊢
                    obtain ⟨a, ha, e2⟩ := map_ok hae
                    subst e2
                    rw [hcPutheader_str_value ha]

theorem putheader_contentLength (n : Nat) {l : List Hdr}
    (hp : putheader (lit "Content-Length") (toDec n) = .ok l) : l = [(lit "Content-Length", toDec n)] := by
  rw [putheader_eq hp]
  split
  · rfl
  · rename_i hv
    exfalso
    unfold putheader at hp
    simp only [hv] at hp
    have hc : ¬ (lower (lit "Content-Length") ∈ Gen.skippableHeaders) := by decide
    simp [hc] at hp

theorem framing_lines {keys : List Str} {ch : Bool} {chunks : Option (List Chunk)} {cl : Option Nat} {fr : Framing}
    (h : framing keys ch chunks cl = .ok fr) :
    fr.lines = [] ∨
    (fr.lines = [(lit "Transfer-Encoding", lit "chunked")] ∧ keys.contains (lit "transfer-encoding") = false) ∨
    (∃ n, fr.lines = [(lit "Content-Length", toDec n)] ∧ keys.contains (lit "content-length") = false ∧
      keys.contains (lit "transfer-encoding") = false ∧ ch = false) := by
  have hte : putheader (lit "Transfer-Encoding") (lit "chunked") = .ok [(lit "Transfer-Encoding", lit "chunked")] := by
    decide
  unfold framing at h
  split at h
  · split at h
    · rename_i hk
      simp only [hte, Except.map] at h
      simp at h; subst h
      exact Or.inr (Or.inl ⟨rfl, by simpa using hk⟩)
    · simp at h; subst h; exact Or.inl rfl
  · rename_i hch
    split at h
    · simp at h; subst h; exact Or.inl rfl
    · rename_i hk1
      split at h
      · simp at h; subst h; exact Or.inl rfl
      · rename_i hk2
        split at h
        · split at h
          · simp only [hte, Except.map] at h
            simp at h; subst h
            exact Or.inr (Or.inl ⟨rfl, by simpa using hk2⟩)
          · simp at h; subst h; exact Or.inl rfl
        · rename_i n
          obtain ⟨a, ha, e⟩ := map_ok h
          subst e
          exact Or.inr (Or.inr ⟨n, putheader_contentLength n ha, by simpa using hk1, by simpa using hk2,
            by simpa using hch⟩)


theorem prepare_hdrs {cfg : Cfg} {meth url : Str} {headers : List (Str × Str)} {body : Body} {chunked : Bool}
    {p : Prepared} (e : prepare cfg meth url headers body chunked = .ok p) :
    ∃ hostL aeL frL uaL,
      p.hdrs = hostL ++ aeL ++ frL ++ uaL ++ callerHdrs headers ∧
      (if (headerKeys headers).contains (lit "host") then hostL = [] else ∃ v, hostL = [(lit "Host", v)]) ∧
      (if (headerKeys headers).contains (lit "accept-encoding") then aeL = []
       else aeL = [(lit "Accept-Encoding", lit "identity")]) ∧
      (if (headerKeys headers).contains (lit "user-agent") then uaL = []
       else uaL = [(lit "User-Agent", Gen.defaultUserAgent)]) ∧
      (frL = [] ∨
       (frL = [(lit "Transfer-Encoding", lit "chunked")] ∧ (headerKeys headers).contains (lit "transfer-encoding") = false) ∨
       (∃ n, frL = [(lit "Content-Length", toDec n)] ∧ (headerKeys headers).contains (lit "content-length") = false ∧
          (headerKeys headers).contains (lit "transfer-encoding") = false ∧ chunked = false)) := by
  obtain ⟨l0, cc, fr, ua, hs, _, h0, _, hfr, hua, hhs, rfl⟩ := prepare_inv e
  obtain ⟨hostL, aeL, h2, hh, ha⟩ := putrequest_hdrs h0
  refine ⟨hostL, aeL, fr.lines, ua, ?_, hh, ha, ?_, framing_lines hfr⟩
  · simp only [h2, putCallerHeaders_eq hhs]
  · split at hua
    · rename_i hk
      simp only [Except.ok.injEq] at hua
      rw [if_pos hk]; exact hua.symm
    · rename_i hk
      have := putheader_eq hua
      have hne : (Gen.defaultUserAgent != Gen.skipHeader) = true := by decide
      simp only [hne, if_true] at this
      rw [if_neg hk]; exact this

/-! ## `_encode_target` output is clean -/

theorem hexDigitU_clean {d : Nat} (h : d < 16) : 0x20 < hexDigitU d ∧ hexDigitU d < 0x7f ∧ hexDigitU d ≠ 35 := by
  unfold hexDigitU; split <;> omega

/-- a byte that may appear in a request target: visible ASCII other than `#` -/
def cleanC (c : Nat) : Prop := 0x20 < c ∧ c < 0x7f ∧ c ≠ 35

theorem utf8Char_lt {c : Nat} (h : c < 0x110000) : ∀ b ∈ utf8Char c, b < 256 := by
  intro b hb
  unfold utf8Char at hb
  repeat' split at hb
  all_goals simp at hb; omega

theorem upperC_le (c : Nat) : upperC c ≤ c := by unfold upperC; split <;> omega

theorem upperPercentsAux_lt (N : Nat) (s : Str) (hs : ∀ c ∈ s, c < N) :
    ∀ k, ∀ c ∈ (upperPercentsAux k s).1, c < N := by
  induction s with
  | nil => intro k c hc; simp [upperPercentsAux] at hc
  | cons x t ih =>
    have hx := hs x (by simp)
    have iht := ih (fun c hc => hs c (by simp [hc]))
    intro k c hc
    simp only [upperPercentsAux] at hc
    split at hc
    · simp at hc
      rcases hc with rfl | hc
      · exact Nat.lt_of_le_of_lt (upperC_le x) hx
      · exact iht _ c hc
    · split at hc
      · simp at hc
        rcases hc with rfl | hc
        · exact hx
        · exact iht _ c hc
      · simp at hc
        rcases hc with rfl | hc
        · exact hx
        · exact iht _ c hc

theorem encodeInvalidChars_clean (comp : Str) (allowed : List Nat) (hv : ∀ c ∈ comp, c < 0x110000)
    (ha : ∀ c ∈ allowed, cleanC c) : ∀ c ∈ encodeInvalidChars comp allowed, cleanC c := by
  intro c hc
  simp only [encodeInvalidChars, List.mem_flatMap] at hc
  obtain ⟨b, hb, hc⟩ := hc
  have hb256 : b < 256 := by
    simp only [utf8SP, List.mem_flatMap] at hb
    obtain ⟨x, hx, hb⟩ := hb
    exact utf8Char_lt (upperPercentsAux_lt _ comp hv 0 x hx) b hb
  split at hc
  · rename_i hcond
    simp at hc; subst hc
    simp only [Bool.or_eq_true, Bool.and_eq_true, beq_iff_eq, decide_eq_true_eq] at hcond
    rcases hcond with ⟨_, h37⟩ | ⟨_, hal⟩
    · subst h37; simp [cleanC]
    · exact ha c (by simpa using hal)
  · simp only [pctByte, List.mem_cons, List.mem_nil_iff, or_false] at hc
    rcases hc with rfl | rfl | rfl
    · simp [cleanC]
    · exact hexDigitU_clean (by omega)
    · exact hexDigitU_clean (Nat.mod_lt _ (by decide))

theorem pathChars_clean : ∀ c ∈ Gen.wirePathChars, cleanC c := by unfold cleanC; decide
theorem queryChars_clean : ∀ c ∈ Gen.wireQueryChars, cleanC c := by unfold cleanC; decide

theorem mem_takeWhile_mem {p : Nat → Bool} {l : List Nat} {c : Nat} (h : c ∈ l.takeWhile p) : c ∈ l :=
  (List.takeWhile_sublist p).subset h

theorem mem_dropWhile_mem {p : Nat → Bool} {l : List Nat} {c : Nat} (h : c ∈ l.dropWhile p) : c ∈ l :=
  (List.dropWhile_sublist p).subset h

theorem targetQuery_mem {r q : Str} (h : targetQuery r = some q) : ∀ x ∈ q, x ∈ r := by
  unfold targetQuery at h
  split at h
  · simp at h; subst h
    intro x hx
    simp [mem_takeWhile_mem hx]
  · simp at h

theorem encodeTarget_clean (t s : Str) (hv : ∀ c ∈ t, c < 0x110000) (h : encodeTarget t = .ok s) :
    ∀ c ∈ s, cleanC c := by
  unfold encodeTarget at h
  split at h
  · split at h
    · simp at h
    · simp only [Except.ok.injEq] at h
      subst h
      intro c hc
      simp only [List.mem_append] at hc
      rcases hc with hc | hc
      · exact encodeInvalidChars_clean _ _ (fun x hx => hv x (mem_takeWhile_mem hx)) pathChars_clean c hc
      · split at hc
        · rename_i q hq
          simp only [List.mem_cons] at hc
          rcases hc with rfl | hc
          · simp [cleanC]
          · exact encodeInvalidChars_clean q _
              (fun x hx => hv x (mem_dropWhile_mem (targetQuery_mem hq x hx))) queryChars_clean c hc
        · simp at hc
  · simp at h

/-! ## the `read(blocksize)` loop over a read script yields all the data, whatever the script -/

theorem readAt_zero (ps : List (List Nat)) : ∀ k, readAt 0 ps k = [] := by
  induction ps with
  | nil => intro k; rfl
  | cons p ps ih =>
    intro k
    simp only [readAt]
    split
    · rfl
    · split
      · simp
      · exact ih _

/-- a `read(n)` result followed by everything after it is everything from the offset on -/
theorem readAt_append_drop (n : Nat) (ps : List (List Nat)) : ∀ k,
    readAt n ps k ++ (scriptData ps).drop (k + (readAt n ps k).length) = (scriptData ps).drop k := by
  induction ps with
  | nil => intro k; simp [readAt, scriptData]
  | cons p ps ih =>
    intro k
    simp only [readAt, scriptData]
    by_cases hp : p.isEmpty = true
    · simp [hp]
    · simp only [hp, if_false, Bool.false_eq_true]
      by_cases hk : k < p.length
      · simp only [hk, if_true]
        have hl : ((p.drop k).take n).length = min n (p.length - k) := by simp
        have h1 : k + ((p.drop k).take n).length ≤ p.length := by rw [hl]; omega
        rw [List.drop_append_of_le_length h1, List.drop_append_of_le_length (Nat.le_of_lt hk), ← List.append_assoc]
        congr 1
        have : p.drop (k + ((p.drop k).take n).length) = (p.drop k).drop n := by
          rw [List.drop_drop, hl]
          by_cases hn : n ≤ p.length - k
          · rw [Nat.min_eq_left hn, Nat.add_comm]
          · have e1 : min n (p.length - k) = p.length - k := Nat.min_eq_right (by omega)
            rw [e1, List.drop_of_length_le (by omega), List.drop_of_length_le (by omega)]
        rw [this, List.take_append_drop]
      · simp only [hk, if_false]
        have hk' : p.length ≤ k := Nat.le_of_not_lt hk
        have e1 : (p ++ scriptData ps).drop k = (scriptData ps).drop (k - p.length) := by
          rw [List.drop_append, List.drop_of_length_le hk', List.nil_append]
        have e2 : (p ++ scriptData ps).drop (k + (readAt n ps (k - p.length)).length)
            = (scriptData ps).drop (k - p.length + (readAt n ps (k - p.length)).length) := by
          rw [List.drop_append, List.drop_of_length_le (by omega), List.nil_append]
          congr 1; omega
        rw [e1, e2]
        exact ih _

/-- with a positive size a `read()` comes back empty exactly at (or after) the end of the data: a short
read is never the end -/
theorem readAt_eq_nil_iff {n : Nat} (hn : 0 < n) (ps : List (List Nat)) : ∀ k,
    readAt n ps k = [] ↔ (scriptData ps).length ≤ k := by
  induction ps with
  | nil => intro k; simp [readAt, scriptData]
  | cons p ps ih =>
    intro k
    simp only [readAt, scriptData]
    by_cases hp : p.isEmpty = true
    · simp [hp]
    · simp only [hp, if_false, Bool.false_eq_true]
      by_cases hk : k < p.length
      · simp only [hk, if_true, List.length_append]
        constructor
        · intro h
          have : ((p.drop k).take n).length = 0 := by rw [h]; rfl
          simp at this
          omega
        · intro h; omega
      · simp only [hk, if_false, List.length_append]
        rw [ih]
        omega

/-- same file object, possibly at another position -/
def SameFile (f0 f : FileB) : Prop :=
  f.pieces = f0.pieces ∧ f.seek = f0.seek ∧ f.tell = f0.tell ∧ f.text = f0.text

theorem sameFile_content {f0 f : FileB} (h : SameFile f0 f) : f.content = f0.content := by
  unfold FileB.content; rw [h.1]

theorem chunkReadableAux_same (n : Nat) : ∀ (fuel : Nat) (f : FileB), SameFile f (chunkReadableAux n fuel f).2 := by
  intro fuel
  induction fuel with
  | zero => intro f; exact ⟨rfl, rfl, rfl, rfl⟩
  | succ fuel ih =>
    intro f
    simp only [chunkReadableAux]
    split
    · exact ⟨rfl, rfl, rfl, rfl⟩
    · obtain ⟨h1, h2, h3, h4⟩ := ih (f.read n).2
      exact ⟨h1, h2, h3, h4⟩

/-- The loop of `chunk_readable()` over **any** read script (induction over the reads): with a positive
block size and enough fuel the blocks it yields are non-empty, concatenate to all the data from the
current offset on — however short the individual reads were — and the file is left at the end of the
data (or where it was, if that was beyond the end). -/
theorem chunkReadableAux_spec {n : Nat} (hn : 0 < n) : ∀ (fuel : Nat) (f : FileB),
    f.content.length < fuel + f.pos →
    (chunkReadableAux n fuel f).1.flatten = f.content.drop f.pos ∧
    (chunkReadableAux n fuel f).2 = { f with pos := max f.pos f.content.length } ∧
    ∀ d ∈ (chunkReadableAux n fuel f).1, d ≠ [] := by
  intro fuel
  induction fuel with
  | zero =>
    intro f hf
    have hle : f.content.length ≤ f.pos := by omega
    refine ⟨by simp [chunkReadableAux, List.drop_of_length_le hle], ?_, by simp [chunkReadableAux]⟩
    simp only [chunkReadableAux, Nat.max_eq_left hle]
  | succ fuel ih =>
    intro f hf
    have happ := readAt_append_drop n f.pieces f.pos
    have hnil := readAt_eq_nil_iff hn f.pieces f.pos
    simp only [chunkReadableAux, FileB.read]
    by_cases hd : (readAt n f.pieces f.pos).isEmpty = true
    · have hd' : readAt n f.pieces f.pos = [] := List.isEmpty_iff.mp hd
      have hle : f.content.length ≤ f.pos := hnil.mp hd'
      simp only [hd, if_true]
      refine ⟨by simp [List.drop_of_length_le hle], ?_, by simp⟩
      simp [hd', Nat.max_eq_left hle]
    · simp only [hd, if_false, Bool.false_eq_true]
      have hne : readAt n f.pieces f.pos ≠ [] := fun h => hd (by simp [h])
      have hlt : f.pos < f.content.length := by
        apply Nat.lt_of_not_le
        intro hle
        exact hne (hnil.mpr hle)
      have hpos : 0 < (readAt n f.pieces f.pos).length := List.length_pos_iff.mpr hne
      have hlen := congrArg List.length happ
      simp only [List.length_append, List.length_drop] at hlen
      have hc : f.content.length = (scriptData f.pieces).length := rfl
      obtain ⟨h1, h2, h3⟩ := ih { f with pos := f.pos + (readAt n f.pieces f.pos).length } (by
        show f.content.length < fuel + (f.pos + _)
        omega)
      refine ⟨?_, ?_, ?_⟩
      · simp only [List.flatten_cons]
        rw [h1]
        exact happ
      · rw [h2]
        show ({ f with pos := max (f.pos + (readAt n f.pieces f.pos).length) f.content.length } : FileB) = _
        congr 1
        omega
      · intro d hdm
        simp only [List.mem_cons] at hdm
        rcases hdm with rfl | hdm
        · exact hne
        · exact h3 d hdm

theorem chunkReadable_spec {n : Nat} (hn : 0 < n) (f : FileB) :
    (chunkReadable n f).1.flatten = f.content.drop f.pos ∧
    (chunkReadable n f).2 = { f with pos := max f.pos f.content.length } ∧
    ∀ d ∈ (chunkReadable n f).1, d ≠ [] :=
  chunkReadableAux_spec hn _ f (by omega)

/-- `blocksize = 0`: the first `read(0)` is empty, nothing is sent and the file is not moved -/
theorem chunkReadable_zero (f : FileB) : chunkReadable 0 f = ([], f) := by
  simp [chunkReadable, chunkReadableAux, FileB.read, readAt_zero]

/-! ## re-sending: the invariant of `urlopen`'s recursion -/

/-- bodies whose iteration leaves them unchanged and that need no re-positioning -/
def Stable : Body → Prop
  | .none | .bytes _ | .str _ | .buffer _ _ => True
  | .iter _ one => one = false
  | .file _ => False

theorem bodyToChunks_after_stable {b : Body} {m : Str} {bs : Nat} {cc : ChunksCL} (hs : Stable b)
    (h : bodyToChunks b m bs = .ok cc) : cc.after = b := by
  cases b with
  | none => simp [bodyToChunks] at h; subst h; rfl
  | bytes x => simp [bodyToChunks] at h; subst h; rfl
  | str s =>
    simp only [bodyToChunks, bind, Except.bind] at h
    split at h
    · simp at h
    · simp [pure, Except.pure] at h; subst h; rfl
  | buffer x k => simp [bodyToChunks] at h; subst h; rfl
  | file f => exact absurd hs (by simp [Stable])
  | iter cs one =>
    simp only [Stable] at hs; subst hs
    simp [bodyToChunks] at h; subst h; rfl

theorem request_after_stable (cfg : Cfg) (m t : Str) (hs : List (Str × Str)) (b : Body) (ch : Bool)
    (hb : Stable b) : (request cfg m t hs b ch).after = b := by
  unfold request
  cases hp : prepare cfg m t hs b ch with
  | error e => rfl
  | ok p =>
    obtain ⟨l0, cc, fr, ua, hs', _, _, hcc, _, _, _, rfl⟩ := prepare_inv hp
    exact bodyToChunks_after_stable hb hcc

theorem recordPos_stable {b : Body} (hb : Stable b) : recordPos b = .none := by
  cases b <;> simp_all [recordPos, Stable]

theorem setFilePosition_stable {b : Body} (hb : Stable b) : setFilePosition b .none = .ok (b, .none) := by
  simp [setFilePosition, recordPos_stable hb]

theorem request_after_file (cfg : Cfg) (m t : Str) (hs : List (Str × Str)) (f : FileB) (ch : Bool) :
    ∃ f', (request cfg m t hs (.file f) ch).after = .file f' ∧ SameFile f f' := by
  unfold request
  cases hp : prepare cfg m t hs (.file f) ch with
  | error e => exact ⟨f, rfl, rfl, rfl, rfl, rfl⟩
  | ok p =>
    obtain ⟨l0, cc, fr, ua, hs', _, _, hcc, _, _, _, rfl⟩ := prepare_inv hp
    simp [bodyToChunks] at hcc
    subst hcc
    exact ⟨_, rfl, chunkReadableAux_same _ _ f⟩

theorem sameFile_eq {f0 f : FileB} (h : SameFile f0 f) : { f with pos := f0.pos } = f0 := by
  obtain ⟨h1, h2, h3, h4⟩ := h
  cases f; cases f0; simp_all

/-- the call did not fail, or — only when `bad` — it failed with `UnrewindableBodyError`, or it failed
with the error of sending some request -/
def ResultOk (cfg : Cfg) (target : Str) (chunked : Bool) (bad : Prop) (r : HResult) : Prop :=
  r.result = .ok () ∨ (bad ∧ r.result = .error .unrewindableBody) ∨
  ∃ e m hs b, r.result = .error e ∧ (request cfg m target hs b chunked).sent.err = some e

theorem nextPos_self (lvl : Level) (p : BodyPos) : nextPos lvl p p = p := by cases lvl <;> rfl

theorem cons_all303 {cfg : Cfg} {target : Str} {chunked : Bool} {bad : Prop} (a : Attempt) (h : HResult)
    (ha : a.after303 = true)
    (H : (∀ x ∈ h.attempts, x.after303 = true) ∧ ResultOk cfg target chunked bad h) :
    (∀ x ∈ (⟨a :: h.attempts, h.result⟩ : HResult).attempts, x.after303 = true) ∧
      ResultOk cfg target chunked bad ⟨a :: h.attempts, h.result⟩ := by
  refine ⟨?_, H.2⟩
  intro x hx
  simp only [List.mem_cons] at hx
  rcases hx with rfl | hx
  · exact ha
  · exact H.1 x hx

/-- once a 303 was followed (body and recorded position dropped) every further request is marked
`after303` and nothing can fail but the sending of a request -/
theorem sendHistory_after303 (lvl : Level) (cfg : Cfg) (target : Str) (chunked : Bool) (bad : Prop)
    (hist : List Outcome) :
    ∀ st : HState, st.after303 = true → st.body = .none → st.pos = .none →
      (st.mgr = none ∨ st.mgr = some .none) →
      (∀ a ∈ (sendHistory lvl cfg target chunked hist st).attempts, a.after303 = true) ∧
      ResultOk cfg target chunked bad (sendHistory lvl cfg target chunked hist st) := by
  induction hist with
  | nil => intro st _ _ _ _; simp [sendHistory, ResultOk]
  | cons o rest ih =>
    intro st h3 hb hp hm
    have hsf : setFilePosition st.body st.pos = .ok (.none, .none) := by rw [hb, hp]; rfl
    have hmp : managerPos st = .none := by
      unfold managerPos
      rcases hm with hm | hm <;> simp [hm, hp, hb, recordPos]
    have haft : (request cfg st.meth target st.headers .none chunked).after = .none :=
      request_after_stable _ _ _ _ _ _ trivial
    simp only [sendHistory, hsf, hmp]
    by_cases hc : o = .connErr
    · simp only [hc, if_true]
      exact ih _ h3 rfl rfl (Or.inr rfl)
    · simp only [hc, if_false]
      cases herr : (request cfg st.meth target st.headers .none chunked).sent.err with
      | some e =>
        simp only
        refine ⟨by simp [h3], Or.inr (Or.inr ⟨e, _, _, _, rfl, herr⟩)⟩
      | none =>
        simp only
        cases o with
        | connErr => exact absurd rfl hc
        | ok => simp [h3, ResultOk]
        | readErr => exact cons_all303 _ _ h3 (ih _ h3 haft rfl (Or.inr rfl))
        | retryStatus => exact cons_all303 _ _ h3 (ih _ h3 haft rfl (Or.inr rfl))
        | redirectKeep => exact cons_all303 _ _ h3 (ih _ h3 haft (nextPos_self lvl _) (Or.inl rfl))
        | redirect303 => exact cons_all303 _ _ h3 (ih _ rfl rfl rfl (Or.inl rfl))

/-- bodies that `urlopen` can always re-send: unchanged by iteration, or a file with working `seek()`
and `tell()` -/
def Good (b0 : Body) : Prop :=
  Stable b0 ∨ ∃ f, b0 = .file f ∧ f.seek = .ok ∧ f.tell = .ok

/-- the invariant of `urlopen`'s recursion before any 303: either the body is stable and no position is
recorded, or the body is the initial file (with a `tell` attribute), at any position, and the recorded
position — if one is recorded already — is the one `set_file_position` records for the initial file;
the position `PoolManager.urlopen` recorded itself, if any, is the same -/
def Inv (b0 body : Body) (pos : BodyPos) (mgr : Option BodyPos) : Prop :=
  (Stable b0 ∧ body = b0 ∧ pos = .none ∧ (mgr = none ∨ mgr = some .none)) ∨
  (∃ f0 f, b0 = .file f0 ∧ f0.tell ≠ .absent ∧ body = .file f ∧ SameFile f0 f ∧
     ((pos = .none ∧ f.pos = f0.pos ∧ mgr = none) ∨
      (pos = recordPos b0 ∧ (mgr = none ∨ mgr = some (recordPos b0)))))

theorem inv_step (cfg : Cfg) {b0 body : Body} {pos : BodyPos} {mgr : Option BodyPos}
    (h : Inv b0 body pos mgr) (m : Str) (hs : List (Str × Str)) (a3 : Bool) :
    managerPos ⟨m, hs, body, pos, a3, mgr⟩ = recordPos b0 ∧
    ((setFilePosition body pos = .error .unrewindableBody ∧ ¬ Good b0) ∨
     (setFilePosition body pos = .ok (b0, recordPos b0) ∧
      Inv b0 b0 (recordPos b0) (some (recordPos b0)) ∧
      (∀ m t hs ch, Inv b0 (request cfg m t hs b0 ch).after (recordPos b0) (some (recordPos b0))) ∧
      (∀ m t hs ch, Inv b0 (request cfg m t hs b0 ch).after (recordPos b0) none) ∧
      (Stable b0 → recordPos b0 = .none))) := by
  rcases h with ⟨hst, rfl, rfl, hm⟩ | ⟨f0, f, rfl, htl, rfl, hsame, hpos⟩
  · have hr := recordPos_stable hst
    refine ⟨?_, Or.inr ⟨by rw [hr]; exact setFilePosition_stable hst, ?_, ?_, ?_, fun _ => hr⟩⟩
    · unfold managerPos
      rcases hm with hm | hm <;> simp [hm, hr]
    · rw [hr]; exact Or.inl ⟨hst, rfl, rfl, Or.inr rfl⟩
    · intro m t h ch; rw [hr]; exact Or.inl ⟨hst, request_after_stable _ _ _ _ _ _ hst, rfl, Or.inr rfl⟩
    · intro m t h ch; rw [hr]; exact Or.inl ⟨hst, request_after_stable _ _ _ _ _ _ hst, rfl, Or.inl rfl⟩
  · have hfe := sameFile_eq hsame
    have hne : recordPos (.file f0) ≠ .none := by
      simp only [recordPos]
      cases h : f0.tell <;> simp_all
    have hinv0 : Inv (.file f0) (.file f0) (recordPos (.file f0)) (some (recordPos (.file f0))) :=
      Or.inr ⟨f0, f0, rfl, htl, rfl, ⟨rfl, rfl, rfl, rfl⟩, Or.inr ⟨rfl, Or.inr rfl⟩⟩
    have hafter : ∀ (mg : Option BodyPos), (mg = none ∨ mg = some (recordPos (.file f0))) → ∀ m t hs ch,
        Inv (.file f0) (request cfg m t hs (.file f0) ch).after (recordPos (.file f0)) mg := by
      intro mg hmg m t hs ch
      obtain ⟨f', hf', hs'⟩ := request_after_file cfg m t hs f0 ch
      exact Or.inr ⟨f0, f', rfl, htl, hf', hs', Or.inr ⟨rfl, hmg⟩⟩
    have hstab : Stable (.file f0) → recordPos (.file f0) = .none := fun hst => absurd hst (by simp [Stable])
    have hrest := And.intro hinv0 (And.intro (hafter _ (Or.inr rfl)) (And.intro (hafter _ (Or.inl rfl)) hstab))
    rcases hpos with ⟨rfl, hp, rfl⟩ | ⟨rfl, hm⟩
    · have : f = f0 := by rw [← hfe, ← hp]
      subst this
      exact ⟨by simp [managerPos], Or.inr ⟨by simp [setFilePosition], hrest⟩⟩
    · refine ⟨?_, ?_⟩
      · unfold managerPos
        rcases hm with hm | hm
        · simp only [hm]
        · simp [hm]
      · have hsk' : f.seek = f0.seek := hsame.2.1
        cases htl' : f0.tell with
        | absent => exact absurd htl' htl
        | raises =>
          refine Or.inl ⟨by simp [setFilePosition, recordPos, htl', rewindBody, Except.map], ?_⟩
          rintro (hst | ⟨g, hg, _, hgt⟩)
          · exact absurd hst (by simp [Stable])
          · cases hg; rw [htl'] at hgt; exact absurd hgt (by decide)
        | ok =>
          cases hsk : f0.seek with
          | ok =>
            refine Or.inr ⟨?_, hrest⟩
            rw [hsk] at hsk'
            simp only [setFilePosition, recordPos, htl', rewindBody, hsk', Except.map]
            rw [← hsk', hfe]
          | raises =>
            rw [hsk] at hsk'
            refine Or.inl ⟨by simp [setFilePosition, recordPos, htl', rewindBody, hsk', Except.map], ?_⟩
            rintro (hst | ⟨g, hg, hgs, _⟩)
            · exact absurd hst (by simp [Stable])
            · cases hg; rw [hsk] at hgs; exact absurd hgs (by decide)
          | absent =>
            rw [hsk] at hsk'
            refine Or.inl ⟨by simp [setFilePosition, recordPos, htl', rewindBody, hsk', Except.map], ?_⟩
            rintro (hst | ⟨g, hg, hgs, _⟩)
            · exact absurd hst (by simp [Stable])
            · cases hg; rw [hsk] at hgs; exact absurd hgs (by decide)

theorem cons_wire {cfg : Cfg} {target : Str} {chunked : Bool} {bad : Prop} {W : Bytes} (a : Attempt) (h : HResult)
    (ha : a.after303 = false → a.wire = W)
    (H : (∀ x ∈ h.attempts, x.after303 = false → x.wire = W) ∧ ResultOk cfg target chunked bad h) :
    (∀ x ∈ (⟨a :: h.attempts, h.result⟩ : HResult).attempts, x.after303 = false → x.wire = W) ∧
      ResultOk cfg target chunked bad ⟨a :: h.attempts, h.result⟩ := by
  refine ⟨?_, H.2⟩
  intro x hx
  simp only [List.mem_cons] at hx
  rcases hx with rfl | hx
  · exact ha
  · exact H.1 x hx

theorem sendHistory_inv (lvl : Level) (cfg : Cfg) (target : Str) (chunked : Bool) (meth : Str)
    (hs : List (Str × Str)) (b0 : Body) (hist : List Outcome) :
    ∀ (body : Body) (pos : BodyPos) (mgr : Option BodyPos), Inv b0 body pos mgr →
      (∀ a ∈ (sendHistory lvl cfg target chunked hist ⟨meth, hs, body, pos, false, mgr⟩).attempts,
          a.after303 = false → a.wire = (request cfg meth target hs b0 chunked).sent.written) ∧
      ResultOk cfg target chunked (¬ Good b0)
        (sendHistory lvl cfg target chunked hist ⟨meth, hs, body, pos, false, mgr⟩) := by
  induction hist with
  | nil => intro body pos mgr _; simp [sendHistory, ResultOk]
  | cons o rest ih =>
    intro body pos mgr hinv
    obtain ⟨hmp, hstep⟩ := inv_step cfg hinv meth hs false
    rcases hstep with ⟨hsf, hbad⟩ | ⟨hsf, hi0, hia, hin, hst⟩
    · simp only [sendHistory, hsf]
      exact ⟨by simp, Or.inr (Or.inl ⟨hbad, rfl⟩)⟩
    · simp only [sendHistory, hsf, hmp]
      by_cases hc : o = .connErr
      · simp only [hc, if_true]
        exact ih _ _ _ hi0
      · simp only [hc, if_false]
        cases herr : (request cfg meth target hs b0 chunked).sent.err with
        | some e =>
          simp only
          refine ⟨by simp, Or.inr (Or.inr ⟨e, _, _, _, rfl, herr⟩)⟩
        | none =>
          simp only
          cases o with
          | connErr => exact absurd rfl hc
          | ok => simp [ResultOk]
          | readErr => exact cons_wire _ _ (fun _ => rfl) (ih _ _ _ (hia _ _ _ _))
          | retryStatus => exact cons_wire _ _ (fun _ => rfl) (ih _ _ _ (hia _ _ _ _))
          | redirectKeep =>
            rw [nextPos_self]
            exact cons_wire _ _ (fun _ => rfl) (ih _ _ _ (hin _ _ _ _))
          | redirect303 =>
            have := sendHistory_after303 lvl cfg target chunked (¬ Good b0) rest
              { meth := lit "GET", headers := pmc hs, body := .none, after303 := true, pos := .none, mgr := none }
              rfl rfl rfl (Or.inl rfl)
            refine cons_wire _ _ (fun _ => rfl) ⟨?_, this.2⟩
            intro x hx hx3
            rw [this.1 x hx] at hx3
            exact absurd hx3 (by simp)


/-! ## `str(n)` round trip -/

theorem toDecAux_fuel (n : Nat) : ∀ f g, n ≤ f → n ≤ g → toDecAux f n = toDecAux g n := by
  induction n using Nat.strongRecOn with
  | _ n ih =>
    intro f g hf hg
    cases f with
    | zero =>
      have : n = 0 := by omega
      subst this
      cases g <;> simp [toDecAux]
    | succ f =>
      cases g with
      | zero =>
        have : n = 0 := by omega
        subst this
        simp [toDecAux]
      | succ g =>
        simp only [toDecAux]
        split
        · rfl
        · rename_i h
          have hlt : n / 10 < n := Nat.div_lt_self (by omega) (by decide)
          rw [ih (n / 10) hlt f g (by omega) (by omega)]

theorem toDec_unfold (n : Nat) :
    toDec n = if n < 10 then [48 + n] else toDec (n / 10) ++ [48 + n % 10] := by
  unfold toDec
  cases n with
  | zero => simp [toDecAux]
  | succ m =>
    simp only [toDecAux]
    split
    · rfl
    · rename_i h
      have hlt : (m + 1) / 10 < m + 1 := Nat.div_lt_self (by omega) (by decide)
      rw [toDecAux_fuel ((m + 1) / 10) m ((m + 1) / 10) (by omega) (Nat.le_refl _)]

theorem ofDecAux_append (a b : Bytes) (acc : Nat) :
    ofDecAux (a ++ b) acc = (ofDecAux a acc).bind (fun m => ofDecAux b m) := by
  induction a generalizing acc with
  | nil => simp [ofDecAux]
  | cons c cs ih =>
    simp only [List.cons_append, ofDecAux]
    split
    · exact ih _
    · simp

theorem ofDecAux_toDec (n : Nat) : ofDecAux (toDec n) 0 = some n := by
  induction n using Nat.strongRecOn with
  | _ n ih =>
    rw [toDec_unfold]
    split
    · rename_i h
      have : isDigitC (48 + n) = true := by simp [isDigitC]; omega
      simp [ofDecAux, this]
    · rename_i h
      have hlt : n / 10 < n := Nat.div_lt_self (by omega) (by decide)
      have hm : n % 10 < 10 := Nat.mod_lt _ (by decide)
      have : isDigitC (48 + n % 10) = true := by simp [isDigitC]; omega
      rw [ofDecAux_append, ih _ hlt]
      simp only [Option.bind_some, ofDecAux, this, if_true]
      congr 1; omega

theorem toDec_digits (n : Nat) : ∀ c ∈ toDec n, isDigitC c = true := by
  induction n using Nat.strongRecOn with
  | _ n ih =>
    rw [toDec_unfold]
    split
    · intro c hc; simp at hc; subst hc; simp [isDigitC]; omega
    · rename_i h
      have hlt : n / 10 < n := Nat.div_lt_self (by omega) (by decide)
      have hm : n % 10 < 10 := Nat.mod_lt _ (by decide)
      intro c hc
      simp only [List.mem_append, List.mem_singleton] at hc
      rcases hc with hc | hc
      · exact ih _ hlt c hc
      · subst hc; simp [isDigitC]; omega

theorem toDec_ne_nil (n : Nat) : toDec n ≠ [] := by
  rw [toDec_unfold]; split <;> simp

/-- `Content-Length: str(n)` is read back exactly by the strict decimal reader -/
theorem ofDec_toDec (n : Nat) : ofDec (toDec n) = some n := by
  have := toDec_ne_nil n
  simp [ofDec, this, ofDecAux_toDec]

theorem ltrim_of_head {b : Bytes} (h : ∀ c, b.head? = some c → isWS c = false) : ltrim b = b := by
  cases b with
  | nil => rfl
  | cons x t => simp [ltrim, List.dropWhile, h x rfl]

theorem trimOWS_noWS (b : Bytes) (h : ∀ c ∈ b, isWS c = false) : trimOWS b = b := by
  have h1 : ltrim b = b := ltrim_of_head (fun c hc => h c (List.mem_of_mem_head? hc))
  have h2 : ltrim b.reverse = b.reverse :=
    ltrim_of_head (fun c hc => h c (by have := List.mem_of_mem_head? hc; simpa using this))
  simp [trimOWS, h1, h2]

theorem trimOWS_toDec (n : Nat) : trimOWS (toDec n) = toDec n := by
  apply trimOWS_noWS
  intro c hc
  have := toDec_digits n c hc
  simp [isDigitC] at this
  simp [isWS]; omega

theorem chunkBytes_str_append (a b : Str) :
    chunkBytes (.str (a ++ b)) = (do let x ← chunkBytes (.str a); let y ← chunkBytes (.str b); pure (x ++ y)) := by
  simp only [chunkBytes, List.any_append, utf8SP, List.flatMap_append]
  cases ha : a.any isSurrogate <;> cases hb : b.any isSurrogate <;> simp [ha, hb]

theorem chunksPayload_str_blocks (bl : List Str) :
    chunksPayload (bl.map Chunk.str) = chunkBytes (.str bl.flatten) := by
  induction bl with
  | nil => simp [chunksPayload, chunkBytes, utf8SP]
  | cons a t ih =>
    simp only [List.map_cons, chunksPayload, List.flatten_cons, chunkBytes_str_append, ih]

theorem chunksPayload_bytes_blocks (bl : List Bytes) :
    chunksPayload (bl.map Chunk.bytes) = some bl.flatten := by
  induction bl with
  | nil => simp [chunksPayload]
  | cons a t ih => simp [chunksPayload, chunkBytes, ih]


/-! ## bodies → chunks → wire → payload -/

/-- object invariant of a buffer chunk: a positive item size and a whole number of items
(`nbytes = len * itemsize`), so that `not chunk` (no items) is the same as "no bytes".  Items may be
wider than a byte.  Chunks of the other kinds satisfy it trivially. -/
def wellSized : Chunk → Prop
  | .buf b k => 0 < k ∧ b.length % k = 0
  | _ => True

/-- bodies all of whose buffer pieces satisfy the buffer invariant -/
def WellSizedBody : Body → Prop
  | .buffer b k => 0 < k ∧ b.length % k = 0
  | .iter cs _ => ∀ c ∈ cs, wellSized c
  | _ => True

theorem buf_items_zero {b : Bytes} {k : Nat} (h : 0 < k ∧ b.length % k = 0) : b.length / k = 0 ↔ b = [] := by
  constructor
  · intro h0
    have := Nat.div_add_mod b.length k
    rw [h0, h.2] at this
    simp at this
    exact List.eq_nil_of_length_eq_zero this.symm
  · rintro rfl; simp

theorem bodyToChunks_spec {body : Body} {m : Str} {bs : Nat} {cc : ChunksCL} (hbs : 0 < bs)
    (hw : WellSizedBody body) (h : bodyToChunks body m bs = .ok cc) :
    (match cc.chunks with
     | some cs => chunksPayload cs = payload body ∧ ∀ c ∈ cs, wellSized c
     | none => body = .none) ∧
    (∀ n pay, cc.contentLength = some n → payload body = some pay → pay.length = n) := by
  cases body with
  | none =>
    simp [bodyToChunks] at h; subst h
    refine ⟨rfl, ?_⟩
    intro n pay hn hp
    simp [payload] at hp; subst hp
    simp only at hn
    split at hn <;> simp at hn
    exact hn
  | bytes b =>
    simp [bodyToChunks] at h; subst h
    refine ⟨⟨by simp [chunksPayload, chunkBytes, payload], by simp [wellSized]⟩, ?_⟩
    intro n pay hn hp
    simp [payload] at hp; simp at hn; subst hp; exact hn
  | str s =>
    simp only [bodyToChunks, bind, Except.bind] at h
    split at h
    · simp at h
    · rename_i b hb
      simp [pure, Except.pure] at h; subst h
      simp only [encodeUtf8] at hb
      split at hb
      · simp at hb
      · rename_i hs
        simp at hb; subst hb
        refine ⟨⟨by simp [chunksPayload, chunkBytes, payload, hs], by simp [wellSized]⟩, ?_⟩
        intro n pay hn hp
        simp [payload, chunkBytes, hs] at hp; simp at hn; subst hp; exact hn
  | buffer b k =>
    simp only [WellSizedBody] at hw
    simp [bodyToChunks] at h; subst h
    refine ⟨⟨by simp [chunksPayload, chunkBytes, payload], by simpa [wellSized] using hw⟩, ?_⟩
    intro n pay hn hp
    simp [payload] at hp; simp at hn; subst hp; exact hn
  | file f =>
    simp [bodyToChunks] at h; subst h
    refine ⟨⟨?_, ?_⟩, by intro n pay hn; simp at hn⟩
    · simp only [payload]
      cases f.text with
      | true =>
        simp only [if_true]
        have : (chunkReadable bs f).1.map (fun d => Chunk.str d) = (chunkReadable bs f).1.map Chunk.str := rfl
        rw [this, chunksPayload_str_blocks, (chunkReadable_spec hbs f).1]
      | false =>
        simp only [Bool.false_eq_true, if_false]
        have : (chunkReadable bs f).1.map (fun d => Chunk.bytes d) = (chunkReadable bs f).1.map Chunk.bytes := rfl
        rw [this, chunksPayload_bytes_blocks, (chunkReadable_spec hbs f).1]
        simp [chunkBytes]
    · intro c hc
      simp only [List.mem_map] at hc
      obtain ⟨d, _, rfl⟩ := hc
      split <;> simp [wellSized]
  | iter cs one =>
    simp [bodyToChunks] at h; subst h
    exact ⟨⟨rfl, hw⟩, by intro n pay hn; simp at hn⟩


theorem sendChunks_spec (cs : List Chunk) (hw : ∀ c ∈ cs, wellSized c) (chunked : Bool)
    (hok : (sendChunks chunked cs).err = none) :
    ∃ ds : List Bytes, (∀ d ∈ ds, d ≠ []) ∧ chunksPayload cs = some ds.flatten ∧
      (sendChunks chunked cs).written = if chunked then frameData ds else ds.flatten := by
  induction cs with
  | nil => exact ⟨[], by simp, by simp [chunksPayload], by cases chunked <;> simp [sendChunks, frameData]⟩
  | cons c t ih =>
    have hwt : ∀ c ∈ t, wellSized c := fun x hx => hw x (by simp [hx])
    have hwc := hw c (by simp)
    simp only [sendChunks] at hok ⊢
    split at hok
    · -- empty piece: skipped
      rename_i hlen
      obtain ⟨ds, h1, h2, h3⟩ := ih hwt hok
      refine ⟨ds, h1, ?_, by simpa [hlen] using h3⟩
      have hb : chunkBytes c = some [] := by
        cases c with
        | bytes b => simp [Chunk.len] at hlen; simp [chunkBytes, hlen]
        | str s => simp [Chunk.len] at hlen; simp [chunkBytes, hlen, utf8SP]
        | buf b k =>
          simp only [wellSized] at hwc
          simp only [Chunk.len] at hlen
          simp [chunkBytes, (buf_items_zero hwc).mp hlen]
      simp [chunksPayload, hb, h2]
    · rename_i hlen
      split at hok
      · simp at hok
      · rename_i d hd
        simp only at hok
        obtain ⟨ds, h1, h2, h3⟩ := ih hwt hok
        have hcb : chunkBytes c = some d ∧ c.sizeLine d = d.length ∧ d ≠ [] := by
          cases c with
          | bytes b =>
            simp [Chunk.data] at hd; subst hd
            simp [Chunk.len] at hlen
            exact ⟨rfl, rfl, hlen⟩
          | str s =>
            simp only [Chunk.data, encodeUtf8] at hd
            split at hd
            · simp at hd
            · rename_i hs
              simp at hd; subst hd
              simp [Chunk.len] at hlen
              refine ⟨by simp [chunkBytes, hs], rfl, ?_⟩
              cases s with
              | nil => exact absurd rfl hlen
              | cons x u =>
                simp only [utf8SP, List.flatMap_cons]
                intro e
                have : utf8Char x = [] := (List.append_eq_nil_iff.mp e).1
                unfold utf8Char at this
                repeat' split at this
                all_goals simp at this
          | buf b k =>
            simp only [wellSized] at hwc
            simp [Chunk.data] at hd; subst hd
            simp only [Chunk.len] at hlen
            exact ⟨rfl, rfl, fun hb => hlen ((buf_items_zero hwc).mpr hb)⟩
        obtain ⟨hc1, hc2, hc3⟩ := hcb
        refine ⟨d :: ds, ?_, ?_, ?_⟩
        · intro x hx; simp at hx; rcases hx with rfl | hx
          · exact hc3
          · exact h1 x hx
        · simp [chunksPayload, hc1, h2]
        · simp only [hlen, if_false, h3, hc2]
          cases chunked <;> simp [frameData]

/-! ### file-like bodies with an arbitrary read script -/

/-- a script without an empty piece hands out the concatenation of all its pieces -/
theorem scriptData_eq_flatten (ps : List (List Nat)) (h : ∀ p ∈ ps, p ≠ []) : scriptData ps = ps.flatten := by
  induction ps with
  | nil => rfl
  | cons p t ih =>
    have hp : p.isEmpty = false := by
      have := h p (by simp)
      cases p with
      | nil => exact absurd rfl this
      | cons _ _ => rfl
    simp only [scriptData, hp, List.flatten_cons]
    rw [ih (fun q hq => h q (by simp [hq]))]
    simp

/-- in general: the concatenation of the pieces before the first empty one -/
theorem scriptData_eq_takeWhile (ps : List (List Nat)) :
    scriptData ps = (ps.takeWhile fun p => !p.isEmpty).flatten := by
  induction ps with
  | nil => rfl
  | cons p t ih =>
    simp only [scriptData, List.takeWhile_cons]
    cases hp : p.isEmpty <;> simp [ih]

/-- the body loop over binary blocks: nothing can fail, every non-empty block becomes one chunk (or is
written as it is under Content-Length framing) -/
theorem sendChunks_bytes (chunked : Bool) (bl : List Bytes) (hne : ∀ d ∈ bl, d ≠ []) :
    (sendChunks chunked (bl.map Chunk.bytes)).err = none ∧
    (sendChunks chunked (bl.map Chunk.bytes)).written = if chunked then frameData bl else bl.flatten := by
  induction bl with
  | nil => cases chunked <;> simp [sendChunks, frameData]
  | cons d t ih =>
    have hd : d.length ≠ 0 := fun h => hne d (by simp) (List.eq_nil_of_length_eq_zero h)
    obtain ⟨h1, h2⟩ := ih (fun x hx => hne x (by simp [hx]))
    simp only [List.map_cons, sendChunks, Chunk.len, hd, if_false, Chunk.data, Chunk.sizeLine, h1, h2]
    cases chunked <;> simp [frameData]

/-- what `body_to_chunks` makes of a file-like body, whatever its read script: no Content-Length, the
blocks of `chunk_readable()`, and the file left at the end of its data -/
theorem bodyToChunks_file (f : FileB) (meth : Str) {bs : Nat} (hbs : 0 < bs) :
    bodyToChunks (.file f) meth bs =
      .ok ⟨some ((chunkReadable bs f).1.map fun d => if f.text then Chunk.str d else Chunk.bytes d), none,
           .file { f with pos := max f.pos f.content.length }⟩ := by
  simp only [bodyToChunks]
  rw [(chunkReadable_spec hbs f).2.1]

/-- the body loop over a file-like body with **any** read script: if nothing fails (only the encoding
of a text piece can) the bytes written are the chunk framing of non-empty pieces that concatenate to
the payload — all the data from the current offset on — resp. the payload itself -/
theorem file_body_loop (f : FileB) (meth : Str) {bs : Nat} (hbs : 0 < bs) (chunked : Bool) :
    ∃ cc cs, bodyToChunks (.file f) meth bs = .ok cc ∧ cc.chunks = some cs ∧ cc.contentLength = none ∧
      ((sendChunks chunked cs).err = none →
        ∃ ds : List Bytes, (∀ d ∈ ds, d ≠ []) ∧ payload (.file f) = some ds.flatten ∧
          (sendChunks chunked cs).written = if chunked then frameData ds else ds.flatten) := by
  refine ⟨_, _, bodyToChunks_file f meth hbs, rfl, rfl, ?_⟩
  intro hok
  have hspec := bodyToChunks_spec (m := meth) hbs (body := .file f) trivial (bodyToChunks_file f meth hbs)
  simp only at hspec
  obtain ⟨ds, h1, h2, h3⟩ := sendChunks_spec _ hspec.1.2 chunked hok
  exact ⟨ds, h1, by rw [← hspec.1.1]; exact h2, h3⟩

/-- … and for a binary file nothing can fail: each `read()` result is one chunk -/
theorem file_body_loop_binary (f : FileB) (hb : f.text = false) (meth : Str) {bs : Nat} (hbs : 0 < bs)
    (chunked : Bool) :
    ∃ cc cs, bodyToChunks (.file f) meth bs = .ok cc ∧ cc.chunks = some cs ∧ cc.contentLength = none ∧
      (sendChunks chunked cs).err = none ∧
      (sendChunks chunked cs).written =
        (if chunked then frameData (chunkReadable bs f).1 else (chunkReadable bs f).1.flatten) ∧
      (chunkReadable bs f).1.flatten = f.content.drop f.pos ∧ (∀ d ∈ (chunkReadable bs f).1, d ≠ []) := by
  obtain ⟨h1, _, h3⟩ := chunkReadable_spec hbs f
  refine ⟨_, _, bodyToChunks_file f meth hbs, rfl, rfl, ?_⟩
  simp only [hb, Bool.false_eq_true, if_false]
  have e : (chunkReadable bs f).1.map (fun d => Chunk.bytes d) = (chunkReadable bs f).1.map Chunk.bytes := rfl
  rw [e]
  obtain ⟨g1, g2⟩ := sendChunks_bytes chunked _ h3
  exact ⟨g1, g2, h1, h3⟩

theorem framing_cases (keys : List Str) (ch : Bool) (chunks : Option (List Chunk)) (cl : Option Nat)
    (fr : Framing) (h : framing keys ch chunks cl = .ok fr)
    (hk1 : keys.contains (lit "content-length") = false) (hk2 : keys.contains (lit "transfer-encoding") = false) :
    (fr.chunked = true ∧ fr.lines = [(lit "Transfer-Encoding", lit "chunked")] ∧ (ch = true ∨ (cl = none ∧ chunks.isSome)))
    ∨ (fr.chunked = false ∧ fr.lines = [] ∧ ch = false ∧ cl = none ∧ chunks = none)
    ∨ (∃ n, fr.chunked = false ∧ fr.lines = [(lit "Content-Length", toDec n)] ∧ ch = false ∧ cl = some n) := by
  have hte : putheader (lit "Transfer-Encoding") (lit "chunked") = .ok [(lit "Transfer-Encoding", lit "chunked")] := by
    decide
  have hcl : ∀ n, putheader (lit "Content-Length") (toDec n) = .ok [(lit "Content-Length", toDec n)] ∨
      ∃ e, putheader (lit "Content-Length") (toDec n) = .error e := by
    intro n
    cases hp : putheader (lit "Content-Length") (toDec n) with
    | error e => exact Or.inr ⟨e, rfl⟩
    | ok l =>
      left
      unfold putheader at hp
      split at hp
      · obtain ⟨a, ha, e⟩ := map_ok hp
        subst e
        unfold hcPutheader at ha
        split at ha
        · simp at ha
        · rename_i nn hnn
          have : nn = lit "Content-Length" := by
            have : encodeAscii (lit "Content-Length") = .ok (lit "Content-Length") := by decide
            rw [this] at hnn; simp at hnn; exact hnn.symm
          subst this
          split at ha
          · simp at ha
          · split at ha
            · simp at ha
            · rename_i v hv
              simp only [encodeLatin1] at hv
              split at hv
              · simp at hv; subst hv
                split at ha
                · simp at ha
                · simp at ha; subst ha; rfl
              · simp at hv
      · split at hp <;> simp at hp
        rename_i h1 h2
        have hc : Gen.skippableHeaders.contains (lower (lit "Content-Length")) = false := by decide
        rw [hc] at h2
        simp at h2
  unfold framing at h
  split at h
  · rename_i hch
    simp only [hk2, Bool.not_false, if_true, hte, Except.map] at h
    simp at h; subst h
    exact Or.inl ⟨rfl, rfl, Or.inl hch⟩
  · rename_i hch
    simp only [hk1, hk2] at h
    simp at h
    split at h
    · rename_i hcl0
      split at h
      · rename_i hsome
        simp only [hte, Except.map] at h
        simp at h; subst h
        exact Or.inl ⟨rfl, rfl, Or.inr ⟨rfl, hsome⟩⟩
      · rename_i hsome
        simp at h; subst h
        refine Or.inr (Or.inl ⟨rfl, rfl, by simpa using hch, rfl, ?_⟩)
        cases chunks <;> simp_all
    · rename_i n
      rcases hcl n with hp | ⟨e, hp⟩
      · simp only [hp, Except.map] at h
        simp at h; subst h
        exact Or.inr (Or.inr ⟨n, rfl, rfl, by simpa using hch, rfl⟩)
      · simp [hp, Except.map] at h


/-! ## composition: the parsed head de-frames the body part to the payload -/

def noFraming (l : List Hdr) : Prop :=
  ∀ h ∈ l, lower h.1 ≠ lit "content-length" ∧ lower h.1 ≠ lit "transfer-encoding"

def trimHdr (h : Hdr) : Bytes × Bytes := (h.1, trimOWS h.2)

theorem headerValues_append (a b : List (Bytes × Bytes)) (n : Str) :
    headerValues (a ++ b) n = headerValues a n ++ headerValues b n := by
  simp [headerValues]

theorem headerValues_noFraming {l : List Hdr} (h : noFraming l) :
    headerValues (l.map trimHdr) (lit "content-length") = [] ∧
    headerValues (l.map trimHdr) (lit "transfer-encoding") = [] := by
  constructor <;>
  · simp only [headerValues, List.map_eq_nil_iff, List.filter_eq_nil_iff, List.mem_map]
    rintro _ ⟨x, hx, rfl⟩
    have := h x hx
    simp [trimHdr, this.1, this.2]

theorem noFraming_caller {headers : List (Str × Str)}
    (h1 : (headerKeys headers).contains (lit "content-length") = false)
    (h2 : (headerKeys headers).contains (lit "transfer-encoding") = false) : noFraming (callerHdrs headers) := by
  intro h hh
  have hm : h ∈ headers := (List.mem_filter.mp hh).1
  have hk : lower h.1 ∈ headerKeys headers := List.mem_map.mpr ⟨h, hm, rfl⟩
  constructor
  · intro e; rw [e] at hk; simp at h1; exact h1 hk
  · intro e; rw [e] at hk; simp at h2; exact h2 hk

theorem bodyPhase_ok {p : Prepared} (h : (bodyPhase p).err = none) :
    (match p.chunks with
     | some cs => (sendChunks p.chunked cs).err = none ∧
        (bodyPhase p).written = (sendChunks p.chunked cs).written ++ (if p.chunked then lastChunk else [])
     | none => (bodyPhase p).written = (if p.chunked then lastChunk else [])) := by
  unfold bodyPhase at h ⊢
  cases hc : p.chunks with
  | none => simp
  | some cs =>
    simp only [hc] at h ⊢
    cases he : (sendChunks p.chunked cs).err with
    | some e => simp [he] at h
    | none => simp [he]

theorem deframe_prepared {cfg : Cfg} {meth url : Str} {headers : List (Str × Str)} {body : Body} {ch : Bool}
    {p : Prepared} (hp : prepare cfg meth url headers body ch = .ok p)
    (h1 : (headerKeys headers).contains (lit "content-length") = false)
    (h2 : (headerKeys headers).contains (lit "transfer-encoding") = false)
    (hbs : 0 < cfg.blocksize) (hw : WellSizedBody body) (hok : (bodyPhase p).err = none) (m t : Bytes) :
    ∃ kind pay, deframe ⟨m, t, p.hdrs.map trimHdr, (bodyPhase p).written⟩ = some (kind, pay) ∧
      payload body = some pay := by
  obtain ⟨l0, cc, fr, ua, hs', _, h0, hcc, hfr, hua, hhs, rfl⟩ := prepare_inv hp
  -- which parts can carry framing names
  have hn0 : noFraming l0.2 := by
    obtain ⟨hostL, aeL, e, hh, ha⟩ := putrequest_hdrs h0
    rw [e]
    intro h hm
    simp only [List.mem_append] at hm
    rcases hm with hm | hm
    · split at hh
      · subst hh; simp at hm
      · obtain ⟨v, rfl⟩ := hh; simp at hm; subst hm
        exact ⟨by show lower (lit "Host") ≠ _; decide, by show lower (lit "Host") ≠ _; decide⟩
    · split at ha
      · subst ha; simp at hm
      · subst ha; simp at hm; subst hm; exact ⟨by decide, by decide⟩
  have hnua : noFraming ua := by
    split at hua
    · simp at hua; subst hua; intro h hm; simp at hm
    · have := putheader_eq hua
      subst this
      intro h hm
      split at hm
      · simp at hm; subst hm; exact ⟨by decide, by decide⟩
      · simp at hm
  have hncaller : noFraming hs' := by rw [putCallerHeaders_eq hhs]; exact noFraming_caller h1 h2
  have hval : ∀ n, n = lit "content-length" ∨ n = lit "transfer-encoding" →
      headerValues ((l0.2 ++ fr.lines ++ ua ++ hs').map trimHdr) n = headerValues (fr.lines.map trimHdr) n := by
    intro n hn
    simp only [List.map_append, headerValues_append]
    rcases hn with rfl | rfl
    · simp [(headerValues_noFraming hn0).1, (headerValues_noFraming hnua).1, (headerValues_noFraming hncaller).1]
    · simp [(headerValues_noFraming hn0).2, (headerValues_noFraming hnua).2, (headerValues_noFraming hncaller).2]
  obtain ⟨hspec1, hspec2⟩ := bodyToChunks_spec hbs hw hcc
  have hbp := bodyPhase_ok hok
  simp only at hbp hok ⊢
  generalize (bodyPhase _).written = W at hbp ⊢
  unfold deframe
  simp only [hval _ (Or.inl rfl), hval _ (Or.inr rfl)]
  rcases framing_cases _ _ _ _ _ hfr h1 h2 with ⟨hch, hl, _⟩ | ⟨hch, hl, _, hcl, hcn⟩ | ⟨n, hch, hl, _, hcl⟩
  · -- Transfer-Encoding: chunked
    have e1 : headerValues (fr.lines.map trimHdr) (lit "content-length") = [] := by rw [hl]; decide
    have e2 : headerValues (fr.lines.map trimHdr) (lit "transfer-encoding") = [lit "chunked"] := by rw [hl]; decide
    have e3 : (lower (lit "chunked") == lit "chunked") = true := by decide
    simp only [e1, e2, e3, if_true]
    cases hcs : cc.chunks with
    | none =>
      simp only [hcs] at hspec1 hbp
      subst hspec1
      simp only [hch, if_true] at hbp
      rw [hbp]
      exact ⟨.chunked, [], by simp [dechunk_last], rfl⟩
    | some cs =>
      simp only [hcs, hch, if_true] at hspec1 hbp
      obtain ⟨ds, hne, hpay, hwr⟩ := sendChunks_spec cs hspec1.2 true hbp.1
      simp only [if_true] at hwr
      rw [hbp.2, hwr]
      refine ⟨.chunked, ds.flatten, ?_, by rw [← hspec1.1, hpay]⟩
      rw [dechunk_frameData ds hne _ (by
        have := length_le_frameData ds
        simp only [List.length_append]; omega)]
      rfl
  · -- no framing at all: no body
    have e1 : headerValues (fr.lines.map trimHdr) (lit "content-length") = [] := by rw [hl]; rfl
    have e2 : headerValues (fr.lines.map trimHdr) (lit "transfer-encoding") = [] := by rw [hl]; rfl
    simp only [hcn] at hspec1 hbp
    subst hspec1
    simp only [hch, Bool.false_eq_true, if_false] at hbp
    simp only [e1, e2, hbp]
    exact ⟨.unframed, [], rfl, rfl⟩
  · -- Content-Length: n
    have e1 : headerValues (fr.lines.map trimHdr) (lit "content-length") = [toDec n] := by
      rw [hl]
      have : lower (lit "Content-Length") == lit "content-length" := by decide
      simp [headerValues, trimHdr, this, trimOWS_toDec]
    have e2 : headerValues (fr.lines.map trimHdr) (lit "transfer-encoding") = [] := by
      rw [hl]
      have : (lower (lit "Content-Length") == lit "transfer-encoding") = false := by decide
      simp [headerValues, trimHdr, this]
    simp only [e1, e2, ofDec_toDec]
    cases hcs : cc.chunks with
    | none =>
      simp only [hcs] at hspec1 hbp
      subst hspec1
      simp only [hch, Bool.false_eq_true, if_false] at hbp
      have := hspec2 n [] hcl rfl
      simp at this
      subst this
      rw [hbp]
      exact ⟨.contentLength, [], by simp, rfl⟩
    | some cs =>
      simp only [hcs, hch, Bool.false_eq_true, if_false, List.append_nil] at hspec1 hbp
      obtain ⟨ds, hne, hpay, hwr⟩ := sendChunks_spec cs hspec1.2 false hbp.1
      simp only [Bool.false_eq_true, if_false] at hwr
      have hpb : payload body = some ds.flatten := by rw [← hspec1.1, hpay]
      have hlen := hspec2 n _ hcl hpb
      rw [hbp.2, hwr]
      exact ⟨.contentLength, ds.flatten, by simp [hlen], hpb⟩


/-! ## failures after the head was written -/

theorem sendChunks_err {ch : Bool} {cs : List Chunk} {e : Exc} (h : (sendChunks ch cs).err = some e) :
    e = .unicodeEncodeError ∧ chunksPayload cs = none := by
  induction cs with
  | nil => simp [sendChunks] at h
  | cons c t ih =>
    simp only [sendChunks] at h
    split at h
    · have := ih h
      exact ⟨this.1, by simp [chunksPayload, this.2]⟩
    · split at h
      · rename_i e' hd
        simp at h; subst h
        cases c with
        | bytes b => simp [Chunk.data] at hd
        | buf b k => simp [Chunk.data] at hd
        | str s =>
          simp only [Chunk.data, encodeUtf8] at hd
          split at hd
          · rename_i hs
            simp at hd
            exact ⟨hd.symm, by simp [chunksPayload, chunkBytes, hs]⟩
          · simp at hd
      · simp only at h
        have := ih h
        exact ⟨this.1, by simp [chunksPayload, this.2]⟩

/-- bodies that are consumed (and whose `str` pieces are encoded) while the body is being sent -/
def LazyText : Body → Prop
  | .iter _ _ => True
  | .file f => f.text = true
  | _ => False

theorem bodyToChunks_lazy {body : Body} {m : Str} {bs : Nat} {cc : ChunksCL} {cs : List Chunk} (hbs : 0 < bs)
    (h : bodyToChunks body m bs = .ok cc) (hc : cc.chunks = some cs) (hn : chunksPayload cs = none) :
    payload body = none ∧ LazyText body := by
  cases body with
  | none => simp [bodyToChunks] at h; subst h; simp at hc
  | bytes b => simp [bodyToChunks] at h; subst h; simp at hc; subst hc; simp [chunksPayload, chunkBytes] at hn
  | str s =>
    simp only [bodyToChunks, bind, Except.bind] at h
    split at h
    · simp at h
    · simp [pure, Except.pure] at h; subst h; simp at hc; subst hc; simp [chunksPayload, chunkBytes] at hn
  | buffer b k => simp [bodyToChunks] at h; subst h; simp at hc; subst hc; simp [chunksPayload, chunkBytes] at hn
  | file f =>
    simp [bodyToChunks] at h; subst h
    simp only [Option.some.injEq] at hc
    subst hc
    cases ht : f.text with
    | true =>
      simp only [ht, if_true] at hn
      have e : (chunkReadable bs f).1.map (fun d => Chunk.str d) = (chunkReadable bs f).1.map Chunk.str := rfl
      rw [e, chunksPayload_str_blocks, (chunkReadable_spec hbs f).1] at hn
      exact ⟨by simp [payload, ht, hn], ht⟩
    | false =>
      simp only [ht, Bool.false_eq_true, if_false] at hn
      have e : (chunkReadable bs f).1.map (fun d => Chunk.bytes d) = (chunkReadable bs f).1.map Chunk.bytes := rfl
      rw [e, chunksPayload_bytes_blocks] at hn
      simp at hn
  | iter cs' one =>
    simp [bodyToChunks] at h; subst h
    simp only [Option.some.injEq] at hc
    subst hc
    exact ⟨hn, trivial⟩

theorem serialize_error_cases {cfg : Cfg} {meth url : Str} {hs : List (Str × Str)} {body : Body} {ch : Bool} {e : Exc}
    (hbs : 0 < cfg.blocksize) (h : serialize cfg meth url hs body ch = .error e) :
    (prepare cfg meth url hs body ch = .error e ∧ wireWritten cfg meth url hs body ch = []) ∨
    (∃ p, prepare cfg meth url hs body ch = .ok p ∧ (bodyPhase p).err = some e ∧
      wireWritten cfg meth url hs body ch = headBytes p.lines ++ (bodyPhase p).written ∧
      e = .unicodeEncodeError ∧ payload body = none ∧ LazyText body) := by
  unfold serialize request at h
  cases hp : prepare cfg meth url hs body ch with
  | error e' =>
    simp [hp] at h
    subst h
    exact Or.inl ⟨rfl, by simp [wireWritten, request, hp]⟩
  | ok p =>
    right
    simp only [hp] at h
    split at h
    · rename_i e' herr
      simp only [Except.error.injEq] at h
      subst h
      refine ⟨p, rfl, herr, by simp [wireWritten, request, hp], ?_⟩
      obtain ⟨l0, cc, fr, ua, hs', _, _, hcc, _, _, _, rfl⟩ := prepare_inv hp
      unfold bodyPhase at herr
      simp only at herr
      cases hcs : cc.chunks with
      | none => simp [hcs] at herr
      | some cs =>
        simp only [hcs] at herr
        cases hse : (sendChunks fr.chunked cs).err with
        | none => simp [hse] at herr
        | some e2 =>
          simp [hse] at herr
          subst herr
          obtain ⟨he, hnone⟩ := sendChunks_err hse
          obtain ⟨hpay, hlazy⟩ := bodyToChunks_lazy hbs hcc hcs hnone
          exact ⟨he, hpay, hlazy⟩
    · simp at h

end U3.Wire
