import U3.Model.Resp
/-! Concrete responses used by the negation witnesses of C12 / C13 (generated once from
harness/props/c12.py's encoders; the bytes are spelled out so that the kernel evaluates the model on
them). -/
namespace U3.Resp.Witness
open U3 U3.Resp

/-- `Content-Encoding: gzip`, `Content-Length`, body = stored-block gzip of "hello" -/
def wireGzipHello : Bytes := [72, 84, 84, 80, 47, 49, 46, 49, 32, 50, 48, 48, 32, 79, 75, 13, 10, 67, 111, 110, 116, 101, 110, 116, 45, 69, 110, 99, 111, 100, 105, 110, 103, 58, 32, 103, 122, 105, 112, 13, 10, 67, 111, 110, 116, 101, 110, 116, 45, 76, 101, 110, 103, 116, 104, 58, 32, 50, 56, 13, 10, 13, 10, 31, 139, 8, 0, 0, 0, 0, 0, 0, 255, 1, 5, 0, 250, 255, 104, 101, 108, 108, 111, 134, 166, 16, 54, 5, 0, 0, 0]
/-- `Content-Length: 5` but only "ab" arrives before EOF -/
def wireShortCL : Bytes := [72, 84, 84, 80, 47, 49, 46, 49, 32, 50, 48, 48, 32, 79, 75, 13, 10, 67, 111, 110, 116, 101, 110, 116, 45, 76, 101, 110, 103, 116, 104, 58, 32, 53, 13, 10, 13, 10, 97, 98]
/-- close-delimited, `Content-Encoding: zstd`, one raw-block frame of "hello" cut 2 bytes short -/
def wireZstdCut : Bytes := [72, 84, 84, 80, 47, 49, 46, 49, 32, 50, 48, 48, 32, 79, 75, 13, 10, 67, 111, 110, 116, 101, 110, 116, 45, 69, 110, 99, 111, 100, 105, 110, 103, 58, 32, 122, 115, 116, 100, 13, 10, 67, 111, 110, 110, 101, 99, 116, 105, 111, 110, 58, 32, 99, 108, 111, 115, 101, 13, 10, 13, 10, 40, 181, 47, 253, 32, 5, 41, 0, 0, 104, 101, 108]
/-- close-delimited, `Content-Encoding: deflate, zstd`: zstd(raw-deflate("hi")) cut 1 byte short -/
def wireStackCut : Bytes := [72, 84, 84, 80, 47, 49, 46, 49, 32, 50, 48, 48, 32, 79, 75, 13, 10, 67, 111, 110, 116, 101, 110, 116, 45, 69, 110, 99, 111, 100, 105, 110, 103, 58, 32, 100, 101, 102, 108, 97, 116, 101, 44, 32, 122, 115, 116, 100, 13, 10, 67, 111, 110, 110, 101, 99, 116, 105, 111, 110, 58, 32, 99, 108, 111, 115, 101, 13, 10, 13, 10, 40, 181, 47, 253, 32, 7, 57, 0, 0, 1, 2, 0, 253, 255, 104]
/-- one complete zstd frame holding "a" -/
def zstdFrameA : Bytes := [40, 181, 47, 253, 32, 1, 9, 0, 0, 97]

/-- `Content-Encoding: zstd`, `Content-Length: 20`, body = two complete frames holding "a" each -/
def wireZstdAA : Bytes :=
  lit "HTTP/1.1 200 OK\r\nContent-Encoding: zstd\r\nContent-Length: 20\r\n\r\n" ++ zstdFrameA ++ zstdFrameA

def cfgOf (ce : Option Str) (te : Option Str) (fuel : Nat) : Cfg CD :=
  { newDecoder := initDecoder ce, enforce := true, decodeDefault := true, chunked := u3Chunked te,
    head := false, fuel := fuel }

/-- a non-preloaded response as `urlopen(preload_content=False)` hands it out -/
def respOf (wire : Bytes) (seg : Nat) (cl : Option Str) (close : Bool) (lr : Option Int) : R H CD :=
  { fp := hBegin ⟨[], wire, seg⟩ none cl close 200 false, lengthRemaining := lr, conn := true }

def cfgGzip := cfgOf (some (lit "gzip")) none 1000
def cfgNone := cfgOf none none 1000
def cfgZstd := cfgOf (some (lit "zstd")) none 1000
def cfgStack := cfgOf (some (lit "deflate, zstd")) none 1000

/-- `Content-Encoding: zstd` with the decoder spelled out (independent of the generated facts) -/
def cfgZstdAA : Cfg CD :=
  { newDecoder := some (.one (.zstd (ZObj.fresh zstdObj))), enforce := true, decodeDefault := true,
    chunked := false, head := false, fuel := 1000 }

/-- one complete stored-block gzip member holding "hello" (the body of `wireGzipHello`) -/
def gzipHello : Bytes := [31, 139, 8, 0, 0, 0, 0, 0, 0, 255, 1, 5, 0, 250, 255, 104, 101, 108, 108, 111, 134, 166, 16, 54, 5, 0, 0, 0]

/-- `Content-Encoding: gzip` with the decoder spelled out (independent of the generated facts) -/
def cfgGzipHello : Cfg CD :=
  { newDecoder := some (.one (.gzip (Gz.new gzipO))), enforce := true, decodeDefault := true,
    chunked := false, head := false, fuel := 1000 }

/-- `gzipHello` in three chunks (10, 10 — with a chunk extension —, 8 bytes), then a trailer -/
def chunkedGzipHello : Bytes :=
  lit "a\r\n" ++ gzipHello.take 10 ++ crlf ++ lit "A;x=1\r\n" ++ (gzipHello.drop 10).take 10 ++ crlf ++
  lit "08\r\n" ++ gzipHello.drop 20 ++ crlf ++ lit "0\r\nX-T: 1\r\n\r\n"

def wireChunkedGzipHello : Bytes :=
  lit "HTTP/1.1 200 OK\r\nContent-Encoding: gzip\r\nTransfer-Encoding: chunked\r\n\r\n" ++ chunkedGzipHello

/-- the same for a chunked response (`self.chunked` is set) -/
def cfgGzipChunked : Cfg CD := { cfgGzipHello with chunked := true }

/-- `gzipHello` with the first byte of its CRC-32 flipped (134 → 135) -/
def gzipHelloBadCrc : Bytes := [31, 139, 8, 0, 0, 0, 0, 0, 0, 255, 1, 5, 0, 250, 255, 104, 101, 108, 108, 111, 135, 166, 16, 54, 5, 0, 0, 0]

/-- two gzip members "hello" + "hello", the second with a corrupt CRC-32 (`Content-Length: 56`) -/
def wireGzipLaterCorrupt : Bytes :=
  lit "HTTP/1.1 200 OK\r\nContent-Encoding: gzip\r\nContent-Length: 56\r\n\r\n" ++ gzipHello ++ gzipHelloBadCrc

/-- a chunked response cut inside its first chunk: the size line promises 5 bytes, 2 arrive -/
def wireChunkedCut : Bytes :=
  lit "HTTP/1.1 200 OK\r\nTransfer-Encoding: chunked\r\n\r\n5\r\nab"

/-- a chunked response with one whole chunk and an unparseable second size line -/
def wireChunkedBadLine : Bytes :=
  lit "HTTP/1.1 200 OK\r\nTransfer-Encoding: chunked\r\n\r\n2\r\nab\r\nzz\r\ncd\r\n0\r\n\r\n"

/-- a non-preloaded chunked response (no Content-Encoding) -/
def respChunked (wire : Bytes) (seg : Nat) : R H CD :=
  { fp := hBegin ⟨[], wire, seg⟩ (some (lit "chunked")) none false 200 false, lengthRemaining := none, conn := true }

def cfgChunkedNone : Cfg CD := cfgOf none (some (lit "chunked")) 1000

def out {α β} (x : Except Exc α × β) : Option α := match x.1 with | .ok a => some a | .error _ => none
def err {α β} (x : Except Exc α × β) : Option Exc := match x.1 with | .ok _ => none | .error e => some e

def outD {β} (x : Except DErr Bytes × β) : Option Bytes := match x.1 with | .ok a => some a | .error _ => none
def errD {β} (x : Except DErr Bytes × β) : Option DErr := match x.1 with | .ok _ => none | .error e => some e

end U3.Resp.Witness
