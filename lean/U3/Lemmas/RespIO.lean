import U3.Model.Resp
/-!
# Lemmas about layers 0/1 of the response model (`Fp`, `H`)
-/
namespace U3.Resp
open U3

/-! ## generic list helpers -/

/-- a split `a ++ w = c` where either `a` has exactly `n` elements, or `w` is empty and `a` has at
most `n`, is the split at `n` -/
theorem split_eq_take_drop {a w c : Bytes} {n : Nat} (h : a ++ w = c)
    (hn : a.length = n ∨ (w = [] ∧ a.length ≤ n)) : a = c.take n ∧ w = c.drop n := by
  subst h
  rcases hn with hn | ⟨hw, hn⟩
  · subst hn; simp
  · subst hw
    simp [List.take_of_length_le hn, List.drop_of_length_le hn]

theorem clip_le (seg want : Nat) : clip seg want ≤ want := by
  unfold clip; split <;> omega

theorem clip_pos {seg want : Nat} (h : 0 < want) : 0 < clip seg want := by
  unfold clip; split <;> omega

/-! ## T1: `BufferedReader.read(n)` -/

theorem readDirect_spec (seg : Nat) (fuel : Nat) (wire : Bytes) (rem : Nat) (acc : Bytes)
    (hf : wire.length < fuel) :
    (readDirect seg fuel wire rem acc).1 ++ (readDirect seg fuel wire rem acc).2.1 = acc ++ wire ∧
    (readDirect seg fuel wire rem acc).1.length + (readDirect seg fuel wire rem acc).2.2.1
      = acc.length + rem ∧
    ((readDirect seg fuel wire rem acc).2.2.2 = true → (readDirect seg fuel wire rem acc).2.1 = []) ∧
    ((readDirect seg fuel wire rem acc).2.2.2 = false →
      (readDirect seg fuel wire rem acc).2.2.1 < bufSize) := by
  induction fuel generalizing wire rem acc with
  | zero => omega
  | succ fuel ih =>
    unfold readDirect
    simp only []
    split
    · rename_i h0
      refine ⟨rfl, rfl, by simp, ?_⟩
      intro _; simp only [bufSize] at *; omega
    · rename_i h0
      cases wire with
      | nil => simp
      | cons x t =>
        simp only []
        have hk1 := clip_le seg (rem - rem % bufSize)
        have hk0 := clip_pos (seg := seg) (Nat.pos_of_ne_zero h0)
        generalize clip seg (rem - rem % bufSize) = k at hk1 hk0
        have hlen : ((x :: t).drop k).length < fuel := by
          simp only [List.length_drop, List.length_cons] at *; omega
        obtain ⟨h1, h2, h3, h4⟩ := ih ((x :: t).drop k) (rem - min k (x :: t).length)
          (acc ++ (x :: t).take k) hlen
        refine ⟨?_, ?_, h3, h4⟩
        · rw [h1]; simp [List.append_assoc]
        · rw [h2]; simp only [List.length_append, List.length_take]; omega

theorem readFill_spec (seg : Nat) (fuel : Nat) (wire : Bytes) (rem filled : Nat) (acc : Bytes)
    (hf : wire.length < fuel) (hb : rem + filled ≤ bufSize) :
    (readFill seg fuel wire rem filled acc).1 ++ ((readFill seg fuel wire rem filled acc).2.2 ++
      (readFill seg fuel wire rem filled acc).2.1) = acc ++ wire ∧
    ((readFill seg fuel wire rem filled acc).1.length = acc.length + rem ∨
      ((readFill seg fuel wire rem filled acc).2.2 = [] ∧
       (readFill seg fuel wire rem filled acc).2.1 = [] ∧
       (readFill seg fuel wire rem filled acc).1.length ≤ acc.length + rem)) := by
  induction fuel generalizing wire rem filled acc with
  | zero => omega
  | succ fuel ih =>
    unfold readFill
    simp only []
    split
    · rename_i h0
      refine ⟨by simp, Or.inl ?_⟩
      show acc.length = _
      omega
    · rename_i h0
      have hk0 := clip_pos (seg := seg) (want := bufSize - filled) (by omega)
      have hk1 := clip_le seg (bufSize - filled)
      generalize clip seg (bufSize - filled) = k at hk0 hk1
      split
      · rename_i he
        have : wire = [] := by
          cases wire with
          | nil => rfl
          | cons x t =>
            cases k with
            | zero => omega
            | succ k => simp at he
        subst this
        exact ⟨by simp, Or.inr ⟨rfl, rfl, by simp⟩⟩
      · rename_i he
        have hw : 0 < wire.length := by
          cases wire with
          | nil => simp at he
          | cons x t => simp
        split
        · rename_i hlt
          have hlen : (wire.drop k).length < fuel := by
            simp only [List.length_drop]; omega
          obtain ⟨h1, h2⟩ := ih (wire.drop k) (rem - (wire.take k).length)
            (filled + (wire.take k).length) (acc ++ wire.take k) hlen
            (by simp only [List.length_take] at *; omega)
          refine ⟨?_, ?_⟩
          · rw [h1]; simp [List.append_assoc]
          · rcases h2 with h2 | ⟨h2, h3, h4⟩
            · left; rw [h2]; simp only [List.length_append]; omega
            · right; refine ⟨h2, h3, ?_⟩
              simp only [List.length_append] at h4; omega
        · rename_i hge
          refine ⟨?_, Or.inl ?_⟩
          · show acc ++ (wire.take k).take rem ++ ((wire.take k).drop rem ++ wire.drop k) = acc ++ wire
            rw [List.append_assoc, ← List.append_assoc ((wire.take k).take rem),
              List.take_append_drop, List.take_append_drop]
          · simp only [List.length_append, List.length_take] at *; omega

theorem fpRead_split (f : Fp) (n : Nat) :
    (fpRead f n).1 ++ (fpRead f n).2.content = f.content ∧
    ((fpRead f n).1.length = n ∨ ((fpRead f n).2.content = [] ∧ (fpRead f n).1.length ≤ n)) ∧
    (fpRead f n).2.seg = f.seg := by
  unfold fpRead
  split
  · rename_i h
    refine ⟨by simp [Fp.content, ← List.append_assoc], Or.inl ?_, rfl⟩
    simp only [List.length_take]; omega
  · rename_i h
    have hd := readDirect_spec f.seg (f.wire.length + 1) f.wire (n - f.buf.length) f.buf (by omega)
    generalize readDirect f.seg (f.wire.length + 1) f.wire (n - f.buf.length) f.buf = r at hd
    obtain ⟨a, w, rm, e⟩ := r
    obtain ⟨h1, h2, h3, h4⟩ := hd
    simp only [] at h1 h2 h3 h4 ⊢
    cases e with
    | true =>
      simp only [if_true, Fp.content, List.nil_append]
      have hw := h3 rfl
      subst hw
      refine ⟨h1, Or.inr ⟨rfl, by omega⟩, trivial⟩
    | false =>
      have hrm := h4 rfl
      have hfl := readFill_spec f.seg (w.length + 1) w rm 0 a (by omega) (by omega)
      generalize readFill f.seg (w.length + 1) w rm 0 a = r2 at hfl
      obtain ⟨a2, w2, b2⟩ := r2
      obtain ⟨g1, g2⟩ := hfl
      simp only [Fp.content, Bool.false_eq_true, if_false] at g1 g2 ⊢
      refine ⟨by rw [g1, h1], ?_, trivial⟩
      rcases g2 with g2 | ⟨g2, g3, g4⟩
      · left; omega
      · right; subst g2; subst g3; exact ⟨rfl, by omega⟩

/-- `BufferedReader.read(n)` returns exactly the first `min n available` bytes, whatever the
segmentation -/
theorem fpRead_spec (f : Fp) (n : Nat) :
    (fpRead f n).1 = f.content.take n ∧ (fpRead f n).2.content = f.content.drop n ∧
    (fpRead f n).2.seg = f.seg := by
  obtain ⟨h1, h2, h3⟩ := fpRead_split f n
  obtain ⟨a, b⟩ := split_eq_take_drop h1 h2
  exact ⟨a, b, h3⟩

/-! ## T2: `read()` and `read1(n)` -/

theorem fpReadAll_spec (f : Fp) :
    (fpReadAll f).1 = f.content ∧ (fpReadAll f).2.content = [] ∧ (fpReadAll f).2.seg = f.seg := by
  simp [fpReadAll, Fp.content]

/-- `read1(n)` returns a prefix of the available bytes of length at most `n`, non-empty when
`n > 0` and bytes are available -/
theorem fpRead1_spec (f : Fp) (n : Nat) :
    ∃ out, (fpRead1 f n).1 = out ∧ out ++ (fpRead1 f n).2.content = f.content ∧ out.length ≤ n ∧
      (0 < n → f.content ≠ [] → out ≠ []) ∧ (fpRead1 f n).2.seg = f.seg := by
  refine ⟨_, rfl, ?_⟩
  unfold fpRead1
  split
  · rename_i h; subst h; simp
  · rename_i hn
    split
    · rename_i hb
      refine ⟨by simp [Fp.content, ← List.append_assoc], ?_, ?_, rfl⟩
      · simp only [List.length_take]; omega
      · intro _ _
        cases hbuf : f.buf with
        | nil => simp [hbuf] at hb
        | cons x t =>
          cases n with
          | zero => omega
          | succ n => simp
    · rename_i hb
      have hbuf : f.buf = [] := by
        cases hbuf : f.buf with
        | nil => rfl
        | cons x t => simp [hbuf] at hb
      have hk0 := clip_pos (seg := f.seg) (want := n) (by omega)
      have hk1 := clip_le f.seg n
      generalize clip f.seg n = k at hk0 hk1
      refine ⟨by simp [Fp.content, hbuf], ?_, ?_, rfl⟩
      · simp only [List.length_take]; omega
      · intro _ hc
        simp only [Fp.content, hbuf, List.nil_append] at hc
        cases hw : f.wire with
        | nil => exact absurd hw hc
        | cons x t =>
          cases k with
          | zero => omega
          | succ k => simp

/-! ## T3: `readline()` -/

/-- the first line of `s`: up to and including the first LF, or all of `s` -/
def lineOf (s : Bytes) : Bytes :=
  match indexOf? LF s with
  | some i => s.take (i + 1)
  | none => s

theorem lineOf_nil : lineOf [] = [] := rfl

theorem lineOf_cons (x : Nat) (t : Bytes) :
    lineOf (x :: t) = if x = LF then [x] else x :: lineOf t := by
  unfold lineOf
  simp only [indexOf?]
  by_cases hx : x = LF
  · simp [hx]
  · cases indexOf? LF t <;> simp [hx]

theorem indexOf?_lt {c : Nat} {s : Bytes} {i : Nat} (h : indexOf? c s = some i) : i < s.length := by
  induction s generalizing i with
  | nil => simp [indexOf?] at h
  | cons x t ih =>
    simp only [indexOf?] at h
    split at h
    · simp at h; subst h; simp
    · cases ht : indexOf? c t with
      | none => simp [ht] at h
      | some j =>
        simp [ht] at h; subst h
        have := ih ht
        simp; omega

theorem lineOf_append_none {a : Bytes} (b : Bytes) (h : indexOf? LF a = none) :
    lineOf (a ++ b) = a ++ lineOf b := by
  induction a with
  | nil => rfl
  | cons x t ih =>
    simp only [indexOf?] at h
    split at h
    · simp at h
    · rename_i hx
      cases ht : indexOf? LF t with
      | some j => simp [ht] at h
      | none => simp [List.cons_append, lineOf_cons, hx, ih ht]

theorem lineOf_append_some {a : Bytes} (b : Bytes) {i : Nat} (h : indexOf? LF a = some i) :
    lineOf (a ++ b) = a.take (i + 1) := by
  induction a generalizing i with
  | nil => simp [indexOf?] at h
  | cons x t ih =>
    simp only [indexOf?] at h
    split at h
    · rename_i hx
      simp at h; subst h
      simp [lineOf_cons, hx]
    · rename_i hx
      cases ht : indexOf? LF t with
      | none => simp [ht] at h
      | some j =>
        simp [ht] at h; subst h
        simp [lineOf_cons, hx, ih ht]

theorem readlineLoop_spec (seg : Nat) (fuel : Nat) (wire acc : Bytes) (hf : wire.length < fuel) :
    (readlineLoop seg fuel wire acc).1 = acc ++ lineOf wire ∧
    (readlineLoop seg fuel wire acc).2.2 ++ (readlineLoop seg fuel wire acc).2.1
      = wire.drop (lineOf wire).length := by
  induction fuel generalizing wire acc with
  | zero => omega
  | succ fuel ih =>
    unfold readlineLoop
    simp only []
    have hk0 := clip_pos (seg := seg) (want := bufSize) (by decide)
    generalize clip seg bufSize = k at hk0
    have hs := List.take_append_drop k wire
    have hgl : (wire.take k = [] → wire = []) := by
      intro h
      cases wire with
      | nil => rfl
      | cons x t =>
        cases k with
        | zero => omega
        | succ k => simp at h
    generalize wire.take k = got at hs hgl
    generalize wire.drop k = rest at hs
    subst hs
    split
    · rename_i he
      have : got = [] := by cases got <;> simp_all
      have := hgl this
      simp_all [lineOf_nil]
    · rename_i he
      split
      · rename_i i hi
        have hlt := indexOf?_lt hi
        rw [lineOf_append_some rest hi]
        refine ⟨rfl, ?_⟩
        simp only [List.length_take]
        rw [Nat.min_eq_left (by omega), List.drop_append_of_le_length (by omega)]
      · rename_i hi
        have hlen : rest.length < fuel := by
          have : 0 < got.length := by cases got <;> simp_all
          simp only [List.length_append] at hf; omega
        obtain ⟨h1, h2⟩ := ih rest (acc ++ got) hlen
        rw [lineOf_append_none rest hi, h1, h2]
        refine ⟨by simp, ?_⟩
        simp [List.length_append]

/-- `readline()` returns exactly the first line of the available bytes, whatever the segmentation -/
theorem fpReadline_spec (f : Fp) :
    (fpReadline f).1 = lineOf f.content ∧
    (fpReadline f).2.content = f.content.drop (lineOf f.content).length ∧
    (fpReadline f).2.seg = f.seg := by
  unfold fpReadline
  split
  · rename_i i hi
    have hlt := indexOf?_lt hi
    simp only [Fp.content]
    rw [lineOf_append_some f.wire hi]
    refine ⟨rfl, ?_, trivial⟩
    simp only [List.length_take]
    rw [Nat.min_eq_left (by omega), List.drop_append_of_le_length (by omega)]
  · rename_i hi
    have hl := readlineLoop_spec f.seg (f.wire.length + 1) f.wire f.buf (by omega)
    generalize readlineLoop f.seg (f.wire.length + 1) f.wire f.buf = r at hl
    obtain ⟨l, w, b⟩ := r
    obtain ⟨h1, h2⟩ := hl
    simp only [Fp.content] at h1 h2 ⊢
    rw [lineOf_append_none f.wire hi, h1, h2]
    refine ⟨rfl, ?_, trivial⟩
    simp [List.length_append]

/-! ## T4: `_safe_read` -/

theorem hSafeRead_eq (h : H) (f : Fp) (amt : Nat) (hf : h.fp = some f) :
    hSafeRead h amt =
      (if (f.content.take amt).length < amt then .error .incompleteRead else .ok (f.content.take amt),
       { h with fp := some (fpRead f amt).2 }) := by
  have hs := (fpRead_spec f amt).1
  unfold hSafeRead
  rw [hf]
  simp only []
  generalize fpRead f amt = r at hs
  obtain ⟨d, f'⟩ := r
  simp only [] at hs ⊢
  subst hs
  split <;> rfl

/-- `_safe_read(amt)` with at least `amt` bytes available returns exactly the next `amt` bytes -/
theorem hSafeRead_ok (h : H) (f : Fp) (amt : Nat) (hf : h.fp = some f)
    (hlen : amt ≤ f.content.length) :
    ∃ f', hSafeRead h amt = (.ok (f.content.take amt), { h with fp := some f' }) ∧
      f'.content = f.content.drop amt ∧ f'.seg = f.seg := by
  refine ⟨(fpRead f amt).2, ?_, (fpRead_spec f amt).2.1, (fpRead_spec f amt).2.2⟩
  rw [hSafeRead_eq h f amt hf]
  have : ¬ (f.content.take amt).length < amt := by simp only [List.length_take]; omega
  rw [if_neg this]

/-- `_safe_read(amt)` past the end of the available bytes raises `IncompleteRead` (and has consumed
everything) -/
theorem hSafeRead_short (h : H) (f : Fp) (amt : Nat) (hf : h.fp = some f)
    (hlen : f.content.length < amt) :
    ∃ f', hSafeRead h amt = (.error .incompleteRead, { h with fp := some f' }) ∧
      f'.content = [] ∧ f'.seg = f.seg := by
  refine ⟨(fpRead f amt).2, ?_, ?_, (fpRead_spec f amt).2.2⟩
  · rw [hSafeRead_eq h f amt hf]
    have : (f.content.take amt).length < amt := by simp only [List.length_take]; omega
    rw [if_pos this]
  · rw [(fpRead_spec f amt).2.1]
    exact List.drop_of_length_le (by omega)

/-! ## T5: `HTTPResponse.read()` with a Content-Length -/

/-- `read()` on a body shorter than its Content-Length raises `IncompleteRead` and closes -/
theorem hRead_length_short (h : H) (f : Fp) (l : Nat) (hf : h.fp = some f) (hh : h.head = false)
    (hc : h.chunked = false) (hl : h.length = some l) (hlen : f.content.length < l) :
    (hRead h none).1 = .error .incompleteRead ∧ (hRead h none).2.fp = none := by
  obtain ⟨f', he, _, _⟩ := hSafeRead_short h f l hf hlen
  unfold hRead
  simp only [hf, hh, hc, hl, he]
  simp [H.closeConn]

/-- `read()` on a body with at least Content-Length bytes returns exactly Content-Length bytes and
closes -/
theorem hRead_length_ok (h : H) (f : Fp) (l : Nat) (hf : h.fp = some f) (hh : h.head = false)
    (hc : h.chunked = false) (hl : h.length = some l) (hlen : l ≤ f.content.length) :
    (hRead h none).1 = .ok (f.content.take l) ∧ (hRead h none).2.fp = none ∧
    (hRead h none).2.length = some 0 := by
  obtain ⟨f', he, _, _⟩ := hSafeRead_ok h f l hf hlen
  unfold hRead
  simp only [hf, hh, hc, hl, he]
  simp [H.closeConn]

/-! ## T6: the hex round trip of the chunk-size line -/

/-- Python's `b"%x" % n` -/
def hexDigits (n : Nat) : Bytes :=
  if n < 16 then [hexDigit n] else hexDigits (n / 16) ++ [hexDigit (n % 16)]
termination_by n
decreasing_by omega

/-- a lower-case hex digit character -/
def IsLH (c : Nat) : Prop := (48 ≤ c ∧ c ≤ 57) ∨ (97 ≤ c ∧ c ≤ 102)

theorem hexDigit_isLH {d : Nat} (h : d < 16) : IsLH (hexDigit d) := by
  unfold IsLH hexDigit; split <;> omega

theorem hexVal_hexDigit {d : Nat} (h : d < 16) : hexVal (hexDigit d) = some d := by
  unfold hexVal hexDigit
  split
  · have : 48 ≤ 48 + d ∧ 48 + d ≤ 57 := by omega
    simp [this]
  · have h2 : ¬ (48 ≤ 87 + d ∧ 87 + d ≤ 57) := by omega
    have h3 : 97 ≤ 87 + d ∧ 87 + d ≤ 102 := by omega
    simp [h2, h3]

theorem hexDigits_ne_nil (n : Nat) : hexDigits n ≠ [] := by
  unfold hexDigits; split <;> simp

theorem hexDigits_isLH (n : Nat) : ∀ c ∈ hexDigits n, IsLH c := by
  induction n using Nat.strongRecOn with
  | _ n ih =>
    unfold hexDigits
    split
    · rename_i h
      intro c hc
      simp at hc; subst hc; exact hexDigit_isLH h
    · rename_i h
      intro c hc
      simp only [List.mem_append, List.mem_singleton] at hc
      rcases hc with hc | hc
      · exact ih (n / 16) (by omega) c hc
      · subst hc; exact hexDigit_isLH (Nat.mod_lt _ (by decide))

theorem IsLH.not_space {c : Nat} (h : IsLH c) : isSpaceC c = false := by
  unfold IsLH at h; unfold isSpaceC
  have h1 : c ≠ 32 := by omega
  have h2 : ¬ (9 ≤ c ∧ c ≤ 13) := by omega
  simp [h1]; omega

theorem digitsVal_hexDigit {d : Nat} (h : d < 16) (rest : Bytes) (p : Bool) (acc : Nat) :
    digitsVal 16 hexVal (hexDigit d :: rest) p acc = digitsVal 16 hexVal rest false (acc * 16 + d) := by
  have h95 : hexDigit d ≠ 95 := by
    have := hexDigit_isLH h; unfold IsLH at this; omega
  rw [digitsVal]
  simp [h95, hexVal_hexDigit h, h]

theorem digitsVal_hexDigits (n : Nat) (rest : Bytes) :
    digitsVal 16 hexVal (hexDigits n ++ rest) false 0 = digitsVal 16 hexVal rest false n := by
  induction n using Nat.strongRecOn generalizing rest with
  | _ n ih =>
    unfold hexDigits
    split
    · rename_i h
      rw [List.singleton_append, digitsVal_hexDigit h]; simp
    · rename_i h
      rw [List.append_assoc, ih (n / 16) (by omega), List.singleton_append,
        digitsVal_hexDigit (Nat.mod_lt _ (by decide))]
      congr 1; omega

theorem indexOf?_eq_none {c : Nat} {s : Bytes} (h : c ∉ s) : indexOf? c s = none := by
  induction s with
  | nil => rfl
  | cons x t ih =>
    simp only [List.mem_cons, not_or] at h
    have hx : x ≠ c := fun e => h.1 e.symm
    simp [indexOf?, hx, ih h.2]

theorem strip_hex_crlf {s : Bytes} (hs : ∀ c ∈ s, IsLH c) (hne : s ≠ []) : strip (s ++ crlf) = s := by
  have hL : stripL (s ++ crlf) = s ++ crlf := by
    cases s with
    | nil => exact absurd rfl hne
    | cons c t =>
      have := (hs c (by simp)).not_space
      simp [stripL, this]
  unfold strip
  rw [hL]
  unfold stripR
  have h10 : isSpaceC 10 = true := by decide
  have h13 : isSpaceC 13 = true := by decide
  cases hr : s.reverse with
  | nil => simp at hr; exact absurd hr hne
  | cons c t =>
    have hc : c ∈ s := by
      have : c ∈ s.reverse := by rw [hr]; simp
      simpa using this
    have := (hs c hc).not_space
    simp only [crlf, List.reverse_append, hr]
    simp only [List.reverse_cons, List.reverse_nil, List.nil_append, List.cons_append,
      List.dropWhile, h10, h13, this]
    rw [← List.reverse_cons, ← hr, List.reverse_reverse]

theorem pyIntBody_hex {s : Bytes} (hs : ∀ c ∈ s, IsLH c) (hne : s ≠ []) :
    pyIntBody 16 s = digitsVal 16 hexVal s false 0 := by
  rcases s with _ | ⟨c, _ | ⟨x, t⟩⟩
  · exact absurd rfl hne
  · have hc := hs c (by simp)
    unfold IsLH at hc
    have h95 : c ≠ 95 := by omega
    simp [pyIntBody, h95]
  · have hc := hs c (by simp)
    have hx := hs x (by simp)
    unfold IsLH at hc hx
    have h95 : c ≠ 95 := by omega
    have hx' : ¬ (x = 120 ∨ x = 88) := by omega
    by_cases h48 : c = 48
    · subst h48; simp [pyIntBody, hx']
    · simp [pyIntBody, h48, h95]

theorem pyInt_hex_crlf {s : Bytes} (hs : ∀ c ∈ s, IsLH c) (hne : s ≠ []) :
    pyInt 16 (s ++ crlf) = (digitsVal 16 hexVal s false 0).map (fun n => (false, n)) := by
  unfold pyInt
  simp only [strip_hex_crlf hs hne]
  cases s with
  | nil => exact absurd rfl hne
  | cons c t =>
    have hc := hs c (by simp)
    unfold IsLH at hc
    split
    · rename_i heq; simp at heq; omega
    · rename_i heq; simp at heq; omega
    · rw [pyIntBody_hex hs hne]

/-- the chunk-size line `b"%x\r\n" % n` parses back to `n` -/
theorem parseSize_hexDigits (n : Nat) : parseSize (hexDigits n ++ crlf) = .ok n := by
  unfold parseSize
  rw [pyInt_hex_crlf (hexDigits_isLH n) (hexDigits_ne_nil n)]
  have := digitsVal_hexDigits n []
  rw [List.append_nil] at this
  rw [this]
  simp [digitsVal]

/-- there is no chunk extension to cut in `b"%x\r\n" % n` -/
theorem cutExt_hexDigits (n : Nat) : cutExt (hexDigits n ++ crlf) = hexDigits n ++ crlf := by
  unfold cutExt
  have : (59 : Nat) ∉ hexDigits n ++ crlf := by
    simp only [List.mem_append, not_or]
    refine ⟨fun h => ?_, by decide⟩
    have := hexDigits_isLH n 59 h
    unfold IsLH at this; omega
  rw [indexOf?_eq_none this]

/-! ## T7: urllib3's chunk parser on a well-formed chunked body -/

/-- the chunked transfer coding of a list of (non-empty) chunks, no extensions, no trailers -/
def enchunk : List Bytes → Bytes
  | [] => [48, 13, 10, 13, 10]
  | c :: t => hexDigits c.length ++ crlf ++ c ++ crlf ++ enchunk t

theorem hFpReadline_eq (h : H) (f : Fp) (hf : h.fp = some f) :
    hFpReadline h = (.ok (lineOf f.content), { h with fp := some (fpReadline f).2 }) := by
  unfold hFpReadline
  rw [hf, ← (fpReadline_spec f).1]

theorem lineOf_hex_crlf {s : Bytes} (rest : Bytes) (hs : ∀ c ∈ s, IsLH c) :
    lineOf (s ++ crlf ++ rest) = s ++ crlf := by
  have : (LF : Nat) ∉ s := by
    intro h
    have := hs LF h
    unfold IsLH LF at this; omega
  rw [List.append_assoc, lineOf_append_none _ (indexOf?_eq_none this)]
  simp [crlf, lineOf_cons, LF]

/-- `_update_chunk_length` on `b"%x\r\n" % n` sets `chunk_left = n` and consumes exactly that line -/
theorem updateChunkLength_size {δ : Type} (r : R H δ) (f : Fp) (n : Nat) (rest : Bytes)
    (hf : r.fp.fp = some f) (hc : f.content = hexDigits n ++ crlf ++ rest)
    (hl : r.chunkLeft = none) :
    ∃ f', updateChunkLength hSrc r =
        (.ok (), { r with fp := { r.fp with fp := some f' }, chunkLeft := some n }) ∧
      f'.content = rest ∧ f'.seg = f.seg := by
  have hline := lineOf_hex_crlf rest (hexDigits_isLH n)
  refine ⟨(fpReadline f).2, ?_, ?_, (fpReadline_spec f).2.2⟩
  · unfold updateChunkLength
    simp only [hl, hSrc, hFpReadline_eq _ f hf, hc, hline, cutExt_hexDigits, parseSize_hexDigits]
  · rw [(fpReadline_spec f).2.1, hc, hline]
    simp

/-- `_handle_chunk(None)` with `chunk_left = len(c)` on `c + b"\r\n" + rest` returns `c`, consumes
the CRLF and resets `chunk_left` -/
theorem handleChunk_whole {δ : Type} (r : R H δ) (f : Fp) (c rest : Bytes)
    (hf : r.fp.fp = some f) (hc : f.content = c ++ crlf ++ rest)
    (hl : r.chunkLeft = some c.length) :
    ∃ f', handleChunk hSrc r none =
        (.ok c, { r with fp := { r.fp with fp := some f' }, chunkLeft := none }) ∧
      f'.content = rest ∧ f'.seg = f.seg := by
  obtain ⟨f1, e1, c1, s1⟩ := hSafeRead_ok r.fp f c.length hf (by simp [hc])
  obtain ⟨f2, e2, c2, s2⟩ := hSafeRead_ok { r.fp with fp := some f1 } f1 2 rfl
    (by simp [c1, hc, crlf])
  have ht : f.content.take c.length = c := by simp [hc]
  have hd : f.content.drop c.length = crlf ++ rest := by simp [hc]
  refine ⟨f2, ?_, ?_, by rw [s2, s1]⟩
  · unfold handleChunk readAndToss safeRead'
    simp only [hl, hSrc, e1, e2, ht]
  · rw [c2, c1, hd]; simp [crlf]

/-- one step of `read_chunked`'s loop on `enchunk (c :: t) ++ tail` -/
theorem chunk_step {δ : Type} (r : R H δ) (f : Fp) (c : Bytes) (t : List Bytes) (tail : Bytes)
    (hf : r.fp.fp = some f) (hc : f.content = enchunk (c :: t) ++ tail)
    (hl : r.chunkLeft = none) :
    ∃ f1 f2,
      updateChunkLength hSrc r =
        (.ok (), { r with fp := { r.fp with fp := some f1 }, chunkLeft := some c.length }) ∧
      handleChunk hSrc { r with fp := { r.fp with fp := some f1 }, chunkLeft := some c.length } none =
        (.ok c, { r with fp := { r.fp with fp := some f2 }, chunkLeft := none }) ∧
      f2.content = enchunk t ++ tail ∧ f2.seg = f.seg := by
  obtain ⟨f1, e1, c1, s1⟩ := updateChunkLength_size r f c.length (c ++ crlf ++ (enchunk t ++ tail))
    hf (by simp [hc, enchunk]) hl
  obtain ⟨f2, e2, c2, s2⟩ := handleChunk_whole
    { r with fp := { r.fp with fp := some f1 }, chunkLeft := some c.length } f1 c
    (enchunk t ++ tail) rfl c1 rfl
  exact ⟨f1, f2, e1, e2, c2, by rw [s2, s1]⟩

/-- the terminating step: on `enchunk [] ++ tail` the size line is `0` -/
theorem chunk_last {δ : Type} (r : R H δ) (f : Fp) (tail : Bytes)
    (hf : r.fp.fp = some f) (hc : f.content = enchunk [] ++ tail) (hl : r.chunkLeft = none) :
    ∃ f', updateChunkLength hSrc r =
        (.ok (), { r with fp := { r.fp with fp := some f' }, chunkLeft := some 0 }) ∧
      f'.content = crlf ++ tail ∧ f'.seg = f.seg := by
  have h0 : hexDigits 0 = [48] := by unfold hexDigits; rfl
  exact updateChunkLength_size r f 0 (crlf ++ tail) hf (by simp [hc, enchunk, h0, crlf]) hl

/-- `dechunk (enchunk cs) = cs`: the loop of `read_chunked(amt=None, decode_content=False)` run by
urllib3's own parser over a well-formed chunked body yields exactly the chunks and stops at the
zero-size line, leaving the final CRLF and whatever follows -/
theorem rcLoop_enchunk {δ : Type} (D : Dec δ) (cs : List Bytes) (hne : ∀ c ∈ cs, c ≠ [])
    (fuel : Nat) (hfuel : cs.length < fuel) (r : R H δ) (f : Fp) (tail : Bytes) (acc : List Bytes)
    (hf : r.fp.fp = some f) (hc : f.content = enchunk cs ++ tail) (hl : r.chunkLeft = none)
    (hd : r.hasDecoded = false) :
    ∃ f', rcLoop hSrc D none false fuel r acc =
        ((acc ++ cs, .ok ()), { r with fp := { r.fp with fp := some f' }, chunkLeft := some 0 }) ∧
      f'.content = crlf ++ tail ∧ f'.seg = f.seg := by
  induction cs generalizing fuel r f acc with
  | nil =>
    cases fuel with
    | zero => simp at hfuel
    | succ fuel =>
      obtain ⟨f', e, c', s'⟩ := chunk_last r f tail hf hc hl
      refine ⟨f', ?_, c', s'⟩
      unfold rcLoop
      simp only [e]
      simp
  | cons c t ih =>
    cases fuel with
    | zero => simp at hfuel
    | succ fuel =>
      obtain ⟨f1, f2, e1, e2, c2, s2⟩ := chunk_step r f c t tail hf hc hl
      have hcne : c ≠ [] := hne c (by simp)
      have hlen : c.length ≠ 0 := by
        intro h; exact hcne (List.eq_nil_of_length_eq_zero h)
      obtain ⟨f', e', c', s'⟩ := ih (fun x hx => hne x (by simp [hx])) fuel
        (by simp only [List.length_cons] at hfuel; omega)
        { r with fp := { r.fp with fp := some f2 }, chunkLeft := none } f2 (acc ++ [c])
        rfl c2 rfl hd
      refine ⟨f', ?_, c', by rw [s', s2]⟩
      unfold rcLoop
      simp only [e1]
      have hne0 : ¬ (some c.length = some 0) := by simp [hlen]
      simp only [hne0, if_false, e2]
      have hdec : decode D { r with fp := { r.fp with fp := some f2 }, chunkLeft := none } c false false
          = (.ok c, { r with fp := { r.fp with fp := some f2 }, chunkLeft := none }) := by
        unfold decode; simp [hd]
      simp only [hdec]
      have hemp : c.isEmpty = false := by cases c <;> simp_all
      simp only [hemp, Bool.false_eq_true, if_false, e']
      simp

end U3.Resp
