import U3.Lemmas.Manager
/-! Helper lemmas for C06: `is_same_host`, origins of URLs and of the pools made for them. -/
namespace U3.Manager
open U3 U3.Headers U3.Retry

/-! ## `is_same_host` -/

/-- `scheme or "http"` -/
def schemeOr (u : PUrl) : Str := if truthyStr u.scheme then u.scheme.getD [] else sHttp

/-- the port a URL / a pool means: its own if truthy, else the default of the scheme (if any) -/
def effPort (port : Option Nat) (scheme : Str) : Option Nat :=
  if truthyPort port then port else portOf scheme

/-- the port rule of `is_same_host` is equality of effective ports -/
theorem port_rule (pp up d : Option Nat) (hp : pp ≠ some 0) (hu : up ≠ some 0) :
    ((if (truthyPort pp && !truthyPort up) = true then d
        else if (!truthyPort pp && up == d) = true then none else up) = pp) ↔
    ((if truthyPort up then up else d) = (if truthyPort pp then pp else d)) := by
  cases pp with
  | none =>
    cases up with
    | none => simp [truthyPort]
    | some n =>
      have hn : n ≠ 0 := fun h => hu (by rw [h])
      simp [truthyPort, hn]
  | some k =>
    have hk : k ≠ 0 := fun h => hp (by rw [h])
    cases up with
    | none => simp [truthyPort, hk]
    | some n =>
      have hn : n ≠ 0 := fun h => hu (by rw [h])
      simp [truthyPort, hk, hn]

theorem port_rule_some (k : Nat) (up d : Option Nat) (hk : k ≠ 0) :
    ((if (truthyPort (some k) && !truthyPort up) = true then d
        else if (!truthyPort (some k) && up == d) = true then none else up) = some k) ↔
    ((if truthyPort up then up else d) = some k) := by
  cases up with
  | none => simp [truthyPort, hk]
  | some n =>
    by_cases hn : n = 0
    · simp [truthyPort, hk, hn]
    · simp [truthyPort, hk, hn]

theorem isSameHost_unfold (p : PoolId) (url : Str) (pu : PUrl) (hs : pathOnly url = false) :
    isSameHost p url pu = true ↔
      (schemeOr pu = p.scheme ∧ pu.host.map (fun h => normalizeHost h (schemeOr pu)) = some p.host ∧
        (if (truthyPort p.port && !truthyPort pu.port) = true then portOf (schemeOr pu)
          else if (!truthyPort p.port && pu.port == portOf (schemeOr pu)) = true then none else pu.port)
          = p.port) := by
  unfold isSameHost
  simp only [hs, Bool.false_eq_true, if_false]
  show ((schemeOr pu == p.scheme && pu.host.map (fun h => normalizeHost h (schemeOr pu)) == some p.host &&
      (if (truthyPort p.port && !truthyPort pu.port) = true then portOf (schemeOr pu)
        else if (!truthyPort p.port && pu.port == portOf (schemeOr pu)) = true then none else pu.port) == p.port)
      = true) ↔ _
  rw [Bool.and_eq_true, Bool.and_eq_true, beq_iff_eq, beq_iff_eq, beq_iff_eq, and_assoc]

/-- **`is_same_host` is origin equality** (for ports other than the meaningless `0`): true iff the URL
is path-only (starts with `/` but not with `//`), or scheme, normalised host and effective port agree with the pool's -/
theorem isSameHost_iff (p : PoolId) (url : Str) (pu : PUrl) (hp : p.port ≠ some 0) (hu : pu.port ≠ some 0) :
    isSameHost p url pu = true ↔
      pathOnly url = true ∨
      (schemeOr pu = p.scheme ∧ pu.host.map (fun h => normalizeHost h (schemeOr pu)) = some p.host ∧
        effPort pu.port (schemeOr pu) = effPort p.port p.scheme) := by
  by_cases hs : pathOnly url = true
  · simp [isSameHost, hs]
  · have hs' : pathOnly url = false := by simpa using hs
    rw [isSameHost_unfold p url pu hs', hs']
    simp only [Bool.false_eq_true, false_or]
    constructor
    · rintro ⟨h1, h2, h3⟩
      refine ⟨h1, h2, ?_⟩
      rw [← h1]
      exact (port_rule _ _ _ hp hu).1 h3
    · rintro ⟨h1, h2, h3⟩
      refine ⟨h1, h2, ?_⟩
      rw [← h1] at h3
      exact (port_rule _ _ _ hp hu).2 h3

/-! ## the origin a URL names, and the pool `connection_from_host` makes for it -/

/-- the origin of an absolute URL as `PoolManager.connection_from_host` reads it: `scheme or "http"`,
normalised host, `port or port_by_scheme[scheme]` -/
def urlOrigin (u : PUrl) : Origin :=
  ⟨schemeOr u, normalizeHost (u.host.getD []) (schemeOr u),
    if truthyPort u.port then u.port.getD 0 else (portOf (schemeOr u)).getD Gen.Redirect.fallbackPort⟩

theorem portOf_http : portOf sHttp = some 80 := by decide
theorem portOf_https : portOf sHttps = some 443 := by decide
theorem lower_http : lower sHttp = sHttp := by decide
theorem lower_https : lower sHttps = sHttps := by decide

theorem pmConnectionFromHost_ok {m : Mgr} {u : PUrl} {conn : Pool}
    (h : pmConnectionFromHost m u.host u.port u.scheme = .ok conn) :
    conn = m.mkPool (schemeOr u) (u.host.getD []) (urlOrigin u).port ∧
    (schemeOr u = sHttp ∨ schemeOr u = sHttps) ∧ (urlOrigin u).port ≠ 0 ∧ truthyStr u.host = true := by
  unfold pmConnectionFromHost at h
  split at h
  · cases h
  · rename_i hhost
    have hsch : (if truthyStr u.scheme then u.scheme.getD [] else sHttp) = schemeOr u := rfl
    simp only [hsch] at h
    split at h
    · rename_i hs
      have hlow : lower (schemeOr u) = schemeOr u := by
        rcases hs with hs | hs <;> rw [hs] <;> decide
      have hport : (if truthyPort u.port = true then u.port.getD 0
          else (portOf (lower (schemeOr u))).getD Gen.Redirect.fallbackPort) = (urlOrigin u).port := by
        rw [hlow]; rfl
      rw [hport] at h
      injection h with h
      refine ⟨h.symm, hs, ?_, by simpa using hhost⟩
      show (if truthyPort u.port then u.port.getD 0 else (portOf (schemeOr u)).getD Gen.Redirect.fallbackPort) ≠ 0
      split
      · rename_i ht
        cases hp : u.port with
        | none => rw [hp] at ht; cases ht
        | some n => rw [hp] at ht; simpa [truthyPort] using ht
      · rcases hs with hs | hs <;> rw [hs] <;> decide
    · cases h

theorem mkPool_origin (m : Mgr) (u : PUrl) :
    (m.mkPool (schemeOr u) (u.host.getD []) (urlOrigin u).port).id.origin = urlOrigin u := rfl

/-- a pool made for URL `ua` judges URL `ub` "same host" only if both name the same origin -/
theorem isSameHost_pm {m : Mgr} {ua ub : PUrl} {conn : Pool} {url : Str}
    (h : pmConnectionFromHost m ua.host ua.port ua.scheme = .ok conn)
    (hs : pathOnly url = false) (hsame : isSameHost conn.id url ub = true) :
    urlOrigin ub = urlOrigin ua := by
  obtain ⟨hc, hsch, hport, _⟩ := pmConnectionFromHost_ok h
  subst hc
  obtain ⟨h1, h2, h3⟩ := (isSameHost_unfold _ url ub hs).1 hsame
  change schemeOr ub = schemeOr ua at h1
  change _ = some (normalizeHost (ua.host.getD []) (schemeOr ua)) at h2
  have h3' := (port_rule_some (urlOrigin ua).port ub.port (portOf (schemeOr ub)) hport).1 h3
  · have htp : truthyPort (some (urlOrigin ua).port) = true := by simpa [truthyPort] using hport
    have hhost : normalizeHost (ub.host.getD []) (schemeOr ub)
        = normalizeHost (ua.host.getD []) (schemeOr ua) := by
      cases hb : ub.host with
      | none => rw [hb] at h2; cases h2
      | some x => rw [hb] at h2; simpa using h2
    have hp : (if truthyPort ub.port then ub.port.getD 0
        else (portOf (schemeOr ub)).getD Gen.Redirect.fallbackPort) = (urlOrigin ua).port := by
      by_cases ht : truthyPort ub.port = true
      · simp only [ht, if_true] at h3' ⊢
        rw [h3']; rfl
      · simp only [ht, Bool.false_eq_true, if_false] at h3' ⊢
        rw [h3']; rfl
    show (⟨schemeOr ub, normalizeHost (ub.host.getD []) (schemeOr ub), _⟩ : Origin) = urlOrigin ua
    rw [hhost, hp, h1]
    rfl

/-- through a proxy, `https` URLs get the origin's own pool, everything else the proxy's -/
theorem connectionFromHost_own {m : Mgr} {u : PUrl} {conn : Pool}
    (h : connectionFromHost m u.host u.port u.scheme = .ok conn)
    (hown : m.proxy = none ∨ u.scheme = some sHttps) :
    pmConnectionFromHost m u.host u.port u.scheme = .ok conn := by
  unfold connectionFromHost at h
  split at h
  · exact h
  · rename_i px hpx
    rcases hown with hn | hs
    · rw [hn] at hpx; cases hpx
    · simp only [hs, beq_self_eq_true, if_true] at h
      rw [hs]; exact h

end U3.Manager
