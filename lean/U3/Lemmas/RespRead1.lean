import U3.Lemmas.RespRead
/-! The glue through `read1(n)` / `read1()`: for any source obeying `RawRead1Spec` and any decoder
obeying the `StreamLaw` (or none), one call returns a prefix of the payload still owed — non-empty
unless nothing is left, at most `n` bytes — and re-establishes the invariant. -/
namespace U3.Resp
open U3

section
variable {σ δ : Type} (S : Src σ) (D : Dec δ) (cfg : Cfg δ)

/-- what `read1` needs from `_raw_read(amt, read1=True)` on a well-framed body: some prefix of what
is left (`k` bytes), non-empty unless nothing is left, at most `amt` bytes, never an exception -/
structure RawRead1Spec (rem : σ → Bytes) (I : σ → Option Int → Prop) : Prop where
  spec : ∀ (r : R σ δ) (amt : Option Nat), amt ≠ some 0 → I r.fp r.lengthRemaining →
    ∃ k r', rawRead S cfg r amt true = (.ok ((rem r.fp).take k), r') ∧
      rem r'.fp = (rem r.fp).drop k ∧ (rem r.fp ≠ [] → 0 < k) ∧ (∀ a, amt = some a → k ≤ a) ∧
      I r'.fp r'.lengthRemaining ∧ r'.buf = r.buf ∧ r'.decoder = r.decoder ∧ r'.hasDecoded = r.hasDecoded

variable {G : δ → Bytes → Bytes → Prop}

/-- the `while True:` loop of `read1`: `data` has been read but not decoded yet -/
theorem read1Loop_inv {rem : σ → Bytes} {I : σ → Option Int → Prop}
    (hR1 : RawRead1Spec S cfg rem I) (hD : StreamLaw D G) :
    ∀ (fuel : Nat) (r : R σ δ) (data p : Bytes),
      I r.fp r.lengthRemaining → Settled cfg r.decoder → Owes G r.decoder (data ++ rem r.fp) p →
      (data = [] → rem r.fp = []) → (rem r.fp).length + (if data = [] then 0 else 1) < fuel →
      ∃ r' p', read1Loop S D cfg true fuel r data = (.ok (), r') ∧
        Settled cfg r'.decoder ∧ Owes G r'.decoder (rem r'.fp) p' ∧
        bqAll r'.buf ++ p' = bqAll r.buf ++ p ∧ I r'.fp r'.lengthRemaining ∧ r'.buf ≠ [] ∧
        (bqAll r'.buf = [] → p' = []) ∧ (rem r'.fp).length ≤ (rem r.fp).length := by
  intro fuel
  induction fuel with
  | zero => intro r data p _ _ _ _ hf; omega
  | succ k ih =>
    intro r data p hI hs hO hdata hf
    unfold read1Loop
    simp only []
    by_cases hd : data = []
    · -- EOF: decode + flush
      subst hd
      have hrem := hdata rfl
      rw [hrem] at hO
      obtain ⟨r2, hdec, hO2, hs2, e1, e2, e3⟩ := decode_last D cfg hD r [] p hs (by simpa using hO)
      have hp : p = [] := owes_nil D hD _ p (by simpa using hO)
      simp only [List.isEmpty_nil, hdec, if_true, or_true]
      refine ⟨{ r2 with buf := bqPut r2.buf p }, [], rfl, hs2, ?_, ?_, ?_, by simp [bqPut], fun _ => rfl, ?_⟩
      · show Owes G r2.decoder (rem r2.fp) []; rw [e1, hrem]; exact hO2
      · show bqAll (bqPut r2.buf p) ++ [] = _; rw [bqPut_all, e2, hp]; simp
      · show I r2.fp r2.lengthRemaining; rw [e1, e3]; exact hI
      · show (rem r2.fp).length ≤ _; rw [e1]; exact Nat.le_refl _
    · have hde : data.isEmpty = false := by simpa [List.isEmpty_iff] using hd
      obtain ⟨o, r2, hdec, p1, hp, hO2, hs2, e1, e2, e3⟩ := decode_feed D cfg hD r data (rem r.fp) p hs hO
      simp only [hde, hdec]
      by_cases ho : o = []
      · -- nothing decoded yet: read more
        subst ho
        simp only [List.isEmpty_nil, Bool.not_true, Bool.false_eq_true, or_self, if_false]
        have g1 : ({ r2 with buf := bqPut r2.buf [] } : R σ δ).fp = r.fp := e1
        have g2 : ({ r2 with buf := bqPut r2.buf [] } : R σ δ).buf = bqPut r2.buf [] := rfl
        have g3 : ({ r2 with buf := bqPut r2.buf [] } : R σ δ).decoder = r2.decoder := rfl
        have g4 : ({ r2 with buf := bqPut r2.buf [] } : R σ δ).lengthRemaining = r.lengthRemaining := e3
        generalize ({ r2 with buf := bqPut r2.buf [] } : R σ δ) = r3 at g1 g2 g3 g4 ⊢
        obtain ⟨k1, r4, h4, hrem4, hk1, _, hI4, hb4, hd4, _⟩ :=
          hR1.spec r3 (some 8192) (by simp) (by rw [g1, g4]; exact hI)
        rw [g1] at h4 hrem4 hk1
        have hfp : True := trivial
        rw [h4]
        simp only []
        have hnil : (rem r.fp).take k1 = [] → rem r.fp = [] := by
          intro h
          rcases List.take_eq_nil_iff.mp h with h | h
          · cases hr : rem r.fp with
            | nil => rfl
            | cons x t => have := hk1 (by rw [hr]; simp); omega
          · exact h
        obtain ⟨r', p', f1, f2, f3, f4, f5, f6, f7, f8⟩ := ih r4 ((rem r.fp).take k1) p1 hI4
          (by rw [hd4, g3]; exact hs2)
          (by rw [hd4, g3, hrem4, List.take_append_drop]; exact hO2)
          (by intro h; rw [hrem4, hnil h]; simp)
          (by
            rw [hrem4, List.length_drop]
            simp only [hd, if_false] at hf
            by_cases hr : rem r.fp = []
            · simp [hr]; omega
            · have hk := hk1 hr
              have hl : 0 < (rem r.fp).length := List.length_pos_iff.mpr hr
              have : (rem r.fp).take k1 ≠ [] := fun h => hr (hnil h)
              simp [this]; omega)
        refine ⟨r', p', f1, f2, f3, ?_, f5, f6, f7, ?_⟩
        · rw [f4, hb4, g2, bqPut_all, e2, hp]; simp
        · refine Nat.le_trans f8 ?_; rw [hrem4, List.length_drop]; omega
      · have hoe : o.isEmpty = false := by simpa [List.isEmpty_iff] using ho
        simp only [hoe, Bool.not_false, true_or, if_true]
        refine ⟨{ r2 with buf := bqPut r2.buf o }, p1, rfl, hs2, ?_, ?_, ?_, by simp [bqPut], ?_, ?_⟩
        · show Owes G r2.decoder (rem r2.fp) p1; rw [e1]; exact hO2
        · show bqAll (bqPut r2.buf o) ++ p1 = _; rw [bqPut_all, e2, hp]; simp [List.append_assoc]
        · show I r2.fp r2.lengthRemaining; rw [e1, e3]; exact hI
        · intro h; exfalso
          have : bqAll (bqPut r2.buf o) = [] := h
          rw [bqPut_all] at this
          exact ho (List.append_eq_nil_iff.mp this).2
        · show (rem r2.fp).length ≤ _; rw [e1]; exact Nat.le_refl _

/-- handing bytes out of the decoded buffer (`get_all()` / `get(a)`) keeps the invariant -/
theorem serve_spec {rem : σ → Bytes} {I : σ → Option Int → Prop} (amt : Option Nat)
    (r : R σ δ) (p : Bytes) (hI : I r.fp r.lengthRemaining)
    (hO : Owes G (effDec cfg r.decoder) (rem r.fp) p) (hne : r.buf ≠ []) :
    ∃ out r' rest', (match amt with
        | none => (Except.ok (bqGetAll r.buf).1, { r with buf := (bqGetAll r.buf).2 })
        | some a => bufGet r a) = (.ok out, r') ∧
      Inv cfg rem I G r' rest' ∧ out ++ rest' = bqAll r.buf ++ p ∧ r'.fp = r.fp ∧
      (∀ a, amt = some a → out = (bqAll r.buf).take a) ∧ (amt = none → out = bqAll r.buf) := by
  cases amt with
  | none =>
    exact ⟨bqAll r.buf, { r with buf := [] }, p, rfl, ⟨hI, p, hO, rfl⟩, rfl, rfl,
      fun a h => by simp at h, fun _ => rfl⟩
  | some a =>
    have hsome := bqGet_isSome r.buf a (Or.inl hne)
    obtain ⟨⟨d, q'⟩, hget⟩ := Option.isSome_iff_exists.mp hsome
    obtain ⟨hd, hq⟩ := bqGet_spec r.buf a d q' hget
    refine ⟨d, { r with buf := q' }, bqAll q' ++ p, by simp [bufGet, hget], ⟨hI, p, hO, rfl⟩, ?_, rfl,
      fun b h => by cases h; exact hd, fun h => by simp at h⟩
    rw [hd, hq, ← List.append_assoc, List.take_append_drop]

theorem read1_spec {rem : σ → Bytes} {I : σ → Option Int → Prop}
    (hR1 : RawRead1Spec S cfg rem I) (hD : StreamLaw D G)
    (amt : Option Nat) (r : R σ δ) (rest : Bytes) (dco : Option Bool)
    (hdc : dco.getD cfg.decodeDefault = true)
    (hinv : Inv cfg rem I G r rest) (hfuel : (rem r.fp).length + 1 < cfg.fuel) :
    ∃ out r' rest', read1 S D cfg r amt dco = (.ok out, r') ∧ Inv cfg rem I G r' rest' ∧
      out ++ rest' = rest ∧ (rem r'.fp).length ≤ (rem r.fp).length ∧
      (∀ a, amt = some a → out.length ≤ a) ∧ (amt ≠ some 0 → out = [] → rest = []) := by
  obtain ⟨hI, p, hO, hrest⟩ := hinv
  unfold read1
  simp only [hdc, Bool.not_true, Bool.false_eq_true, if_false]
  by_cases hearly : r.hasDecoded = true ∧ bqLen r.buf > 0
  · -- answered from the buffer
    obtain ⟨hhd, hb⟩ := hearly
    have hne : r.buf ≠ [] := by intro h; rw [h] at hb; simp [bqLen] at hb
    have hall : bqAll r.buf ≠ [] := by
      intro h; rw [bqLen_eq, h] at hb; simp at hb
    obtain ⟨out, r', rest', h1, h2, h3, h4, h5, h6⟩ := serve_spec (rem := rem) (I := I) cfg amt r p hI hO hne
    refine ⟨out, r', rest', ?_, h2, by rw [h3, hrest], by rw [h4]; exact Nat.le_refl _, ?_, ?_⟩
    · rw [← h1]
      simp only [hhd, if_true, hb]
      cases amt <;> rfl
    · intro a ha; rw [h5 a ha, List.length_take]; omega
    · intro hz ho
      exfalso
      cases amt with
      | none => exact hall (by rw [← h6 rfl]; exact ho)
      | some a =>
        rw [h5 a rfl] at ho
        rcases List.take_eq_nil_iff.mp ho with h0 | h0
        · exact hz (by rw [h0])
        · exact hall h0
  · split
    · rename_i res heq
      exfalso
      by_cases h1 : r.hasDecoded = true
      · have h2 : ¬ bqLen r.buf > 0 := fun h2 => hearly ⟨h1, h2⟩
        simp [h1, h2] at heq
      · simp [h1] at heq
    · by_cases hz : amt = some 0
      · rw [if_pos hz]
        exact ⟨[], r, rest, rfl, ⟨hI, p, hO, hrest⟩, rfl, Nat.le_refl _, fun a _ => Nat.zero_le _,
          fun h => absurd hz h⟩
      · rw [if_neg hz]
        obtain ⟨k, r1, h1, hrem1, hk, hka, hI1, hb1, hd1, _⟩ := hR1.spec r amt hz hI
        rw [h1]
        simp only []
        have hdec0 := initDec_decoder cfg r1
        obtain ⟨g1, g2, g3, _⟩ := initDec_other cfg r1
        generalize initDec cfg r1 = r0 at *
        have hnil : (rem r.fp).take k = [] → rem r.fp = [] := by
          intro h
          rcases List.take_eq_nil_iff.mp h with h | h
          · cases hr : rem r.fp with
            | nil => rfl
            | cons x t => have := hk (by rw [hr]; simp); omega
          · exact h
        obtain ⟨r2, p2, l1, l2, l3, l4, l5, l6, l7, l8⟩ :=
          read1Loop_inv S D cfg hR1 hD cfg.fuel r0 ((rem r.fp).take k) p
            (by rw [g1, g3]; exact hI1)
            (by rw [hdec0]; exact settled_effDec cfg _)
            (by rw [hdec0, hd1, g1, hrem1, List.take_append_drop]; exact hO)
            (by intro h; rw [g1, hrem1, hnil h]; simp)
            (by
              rw [g1, hrem1, List.length_drop]
              by_cases h : (rem r.fp).take k = []
              · simp [h]; omega
              · simp [h]; omega)
        rw [l1]
        simp only []
        have hO2 : Owes G (effDec cfg r2.decoder) (rem r2.fp) p2 := by rw [l2]; exact l3
        obtain ⟨out, r', rest', s1, s2, s3, s4, s5, s6⟩ := serve_spec (rem := rem) (I := I) cfg amt r2 p2 l5 hO2 l6
        have hall : bqAll r2.buf ++ p2 = rest := by rw [l4, g2, hb1]; exact hrest
        refine ⟨out, r', rest', ?_, s2, by rw [s3, hall], ?_, ?_, ?_⟩
        · rw [← s1]; cases amt <;> rfl
        · rw [s4]; refine Nat.le_trans l8 ?_; rw [g1, hrem1, List.length_drop]; omega
        · intro a ha; rw [s5 a ha, List.length_take]; omega
        · intro _ ho
          have hb : bqAll r2.buf = [] := by
            cases amt with
            | none => rw [← s6 rfl]; exact ho
            | some a =>
              rw [s5 a rfl] at ho
              rcases List.take_eq_nil_iff.mp ho with h0 | h0
              · exact absurd (by rw [h0]) hz
              · exact h0
          rw [← hall, hb, l7 hb]; rfl

/-- a call of the read family: `read(amt)` (`readinto(k)` = `read(k)`) or `read1(amt)`;
`none` = no amount -/
inductive RCall
  | read (amt : Option Nat)
  | read1 (amt : Option Nat)
deriving Repr, DecidableEq

def runRCall (dco : Option Bool) (r : R σ δ) : RCall → Except Exc Bytes × R σ δ
  | .read a => read S D cfg r a dco
  | .read1 a => read1 S D cfg r a dco

/-- a sequence of calls, stopped at the first exception: the pieces returned -/
def callSeq (dco : Option Bool) : List RCall → R σ δ → Except Exc (List Bytes) × R σ δ
  | [], r => (.ok [], r)
  | c :: t, r =>
    match runRCall S D cfg dco r c with
    | (.error e, r) => (.error e, r)
    | (.ok out, r) =>
      match callSeq dco t r with
      | (.error e, r) => (.error e, r)
      | (.ok outs, r) => (.ok (out :: outs), r)

/-- **concatenation** for the whole read family: whatever the calls and amounts, no call raises
and the pieces followed by what is still owed are the payload -/
theorem callSeq_concat {rem : σ → Bytes} {I : σ → Option Int → Prop}
    (hR : RawReadSpec S cfg rem I) (hA : RawReadAllSpec S cfg rem I) (hR1 : RawRead1Spec S cfg rem I)
    (hD : StreamLaw D G) (dco : Option Bool) (hdc : dco.getD cfg.decodeDefault = true) :
    ∀ (calls : List RCall) (r : R σ δ) (rest : Bytes),
      Inv cfg rem I G r rest → (rem r.fp).length + 1 < cfg.fuel →
      ∃ outs r' rest', callSeq S D cfg dco calls r = (.ok outs, r') ∧ Inv cfg rem I G r' rest' ∧
        outs.flatten ++ rest' = rest ∧ outs.length = calls.length ∧
        (rem r'.fp).length ≤ (rem r.fp).length := by
  intro calls
  induction calls with
  | nil => intro r rest hinv _; exact ⟨[], r, rest, rfl, hinv, rfl, rfl, Nat.le_refl _⟩
  | cons c t ih =>
    intro r rest hinv hfuel
    have hstep : ∃ out r1 rest1, runRCall S D cfg dco r c = (.ok out, r1) ∧ Inv cfg rem I G r1 rest1 ∧
        out ++ rest1 = rest ∧ (rem r1.fp).length ≤ (rem r.fp).length := by
      cases c with
      | read a =>
        obtain ⟨out, r1, rest1, h1, h2, h3, h4, _⟩ := read_any_spec S D cfg hR hA hD a r rest dco hdc hinv hfuel
        exact ⟨out, r1, rest1, h1, h2, h3, h4⟩
      | read1 a =>
        obtain ⟨out, r1, rest1, h1, h2, h3, h4, _⟩ := read1_spec S D cfg hR1 hD a r rest dco hdc hinv hfuel
        exact ⟨out, r1, rest1, h1, h2, h3, h4⟩
    obtain ⟨out, r1, rest1, h1, hinv1, hcat1, hlen1⟩ := hstep
    obtain ⟨outs, r2, rest2, h2, hinv2, hcat2, hl2, hlen2⟩ := ih r1 rest1 hinv1 (by omega)
    refine ⟨out :: outs, r2, rest2, ?_, hinv2, ?_, by simp [hl2], by omega⟩
    · simp only [callSeq, h1, h2]
    · simp only [List.flatten_cons, List.append_assoc, hcat2, hcat1]

/-! ## decoding off: the read family hands out the transfer-decoded raw payload -/

/-- the invariant with `decode_content=False` from the start: nothing decoded, nothing buffered,
`raw` = the raw body bytes still to come -/
structure RawInv (rem : σ → Bytes) (I : σ → Option Int → Prop) (r : R σ δ) (raw : Bytes) : Prop where
  framing : I r.fp r.lengthRemaining
  undecoded : r.hasDecoded = false
  nobuf : bqLen r.buf = 0
  left : rem r.fp = raw

theorem runRCall_raw {rem : σ → Bytes} {I : σ → Option Int → Prop}
    (hR : RawReadSpec S cfg rem I) (hA : RawReadAllSpec S cfg rem I) (hR1 : RawRead1Spec S cfg rem I)
    (dco : Option Bool) (hdc : dco.getD cfg.decodeDefault = false)
    (c : RCall) (r : R σ δ) (raw : Bytes) (hinv : RawInv rem I r raw) :
    ∃ out r' raw', runRCall S D cfg dco r c = (.ok out, r') ∧ RawInv rem I r' raw' ∧ out ++ raw' = raw ∧
      (c = .read none → raw' = []) := by
  obtain ⟨hI, hu, hb, hl⟩ := hinv
  cases c with
  | read amt =>
    obtain ⟨g1, g2, g3, g4⟩ := initDec_other cfg r
    show ∃ out r' raw', read S D cfg r amt dco = (.ok out, r') ∧ _
    unfold read
    simp only [hdc]
    generalize initDec cfg r = r0 at *
    have hI0 : I r0.fp r0.lengthRemaining := by rw [g1, g3]; exact hI
    have hb0 : bqLen r0.buf = 0 := by rw [g2]; exact hb
    cases amt with
    | none =>
      simp only []
      obtain ⟨r1, h1, hrem1, hI1, hb1, _, hh1, _⟩ := hA.spec r0 hI0
      rw [h1]
      simp only []
      have hbq : bqLen r1.buf = 0 := by rw [hb1]; exact hb0
      have hhd : r1.hasDecoded = false := by rw [hh1, g4]; exact hu
      refine ⟨rem r0.fp, r1, [], ?_, ⟨hI1, hhd, hbq, hrem1⟩, by rw [g1, hl]; simp, fun _ => rfl⟩
      by_cases hc : (rem r0.fp).isEmpty = true ∧ bqLen r1.buf = 0
      · rw [if_pos hc]
      · rw [if_neg hc]
        simp [decode, hhd, prependBuffered, hbq]
    | some a =>
      by_cases ha : a = 0
      · subst ha
        refine ⟨[], { r0 with buf := r0.buf }, raw, by simp [bufGet, bqGet], ⟨hI0, by show r0.hasDecoded = false; rw [g4]; exact hu, hb0, by show rem r0.fp = raw; rw [g1]; exact hl⟩, rfl, fun h => by simp at h⟩
      · have hlt : ¬ bqLen r0.buf ≥ a := by omega
        simp only [hlt, if_false]
        obtain ⟨r1, h1, hrem1, hI1, hb1, _, hh1⟩ := hR.spec r0 a (Nat.pos_of_ne_zero ha) hI0
        rw [h1]
        simp only []
        have hbq : bqLen r1.buf = 0 := by rw [hb1]; exact hb0
        have hhd : r1.hasDecoded = false := by rw [hh1, g4]; exact hu
        refine ⟨(rem r0.fp).take a, r1, (rem r0.fp).drop a, ?_, ⟨hI1, hhd, hbq, hrem1⟩, by rw [List.take_append_drop, g1, hl], fun h => by simp at h⟩
        by_cases hc : ((rem r0.fp).take a).isEmpty = true ∧ bqLen r1.buf = 0
        · rw [if_pos hc]
        · rw [if_neg hc]
          simp [hhd]
  | read1 amt =>
    show ∃ out r' raw', read1 S D cfg r amt dco = (.ok out, r') ∧ _
    unfold read1
    simp only [hdc, hu, Bool.false_eq_true, if_false]
    by_cases hz : amt = some 0
    · rw [if_pos hz]
      exact ⟨[], r, raw, rfl, ⟨hI, hu, hb, hl⟩, rfl, fun h => by simp at h⟩
    · rw [if_neg hz]
      obtain ⟨k, r1, h1, hrem1, _, _, hI1, hb1, _, hh1⟩ := hR1.spec r amt hz hI
      rw [h1]
      simp only [Bool.not_false, if_true]
      exact ⟨(rem r.fp).take k, r1, (rem r.fp).drop k, rfl, ⟨hI1, by rw [hh1]; exact hu, by rw [hb1]; exact hb, hrem1⟩,
        by rw [List.take_append_drop]; exact hl, fun h => by simp at h⟩

/-- **concatenation with decoding off**: the pieces followed by what is still to come are the raw
(transfer-decoded) payload -/
theorem callSeq_concat_raw {rem : σ → Bytes} {I : σ → Option Int → Prop}
    (hR : RawReadSpec S cfg rem I) (hA : RawReadAllSpec S cfg rem I) (hR1 : RawRead1Spec S cfg rem I)
    (dco : Option Bool) (hdc : dco.getD cfg.decodeDefault = false) :
    ∀ (calls : List RCall) (r : R σ δ) (raw : Bytes), RawInv rem I r raw →
      ∃ outs r' raw', callSeq S D cfg dco calls r = (.ok outs, r') ∧ RawInv rem I r' raw' ∧
        outs.flatten ++ raw' = raw ∧ outs.length = calls.length := by
  intro calls
  induction calls with
  | nil => intro r raw hinv; exact ⟨[], r, raw, rfl, hinv, rfl, rfl⟩
  | cons c t ih =>
    intro r raw hinv
    obtain ⟨out, r1, raw1, h1, hinv1, hcat1, _⟩ := runRCall_raw S D cfg hR hA hR1 dco hdc c r raw hinv
    obtain ⟨outs, r2, raw2, h2, hinv2, hcat2, hl2⟩ := ih r1 raw1 hinv1
    refine ⟨out :: outs, r2, raw2, ?_, hinv2, ?_, by simp [hl2]⟩
    · simp only [callSeq, h1, h2]
    · simp only [List.flatten_cons, List.append_assoc, hcat2, hcat1]

end
end U3.Resp
