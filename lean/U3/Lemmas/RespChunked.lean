import U3.Lemmas.RespInst
/-! Chunked bodies read through `http.client`'s own chunk reader (`_read_chunked(amt)`,
`_read1_chunked(n)`, `_get_chunk_left`, `_read_next_chunk_size`, `_read_and_discard_trailer`):
`RawReadSpec`, `RawReadAllSpec`, `RawRead1Spec` and the closing laws for `hSrc` on every
well-framed chunked body — arbitrary chunk sizes, size-line spellings, extensions, trailers — for
every network segmentation.

"Well framed" is judged by a one-shot *reference reader* `refChunks` over the pure byte string
(no buffering, no segmentation, no amounts): the raw body is what it returns.  The theorems say
that every way of pulling the body through `http.client` in pieces delivers exactly those bytes;
`refChunks_encode` says what the reference reader makes of an encoded chunk list. -/
namespace U3.Resp
open U3

/-! ## the reference reader -/

/-- one-shot dechunker: `cl` = bytes left in the current chunk (`none` = at a size line,
`some 0` = before the CRLF that ends a chunk) -/
def refChunks : Nat → Option Nat → Bytes → Option Bytes
  | 0, _, _ => none
  | fuel + 1, some (k + 1), c =>
    if c.length < k + 1 then none
    else (refChunks fuel (some 0) (c.drop (k + 1))).map (fun p => c.take (k + 1) ++ p)
  | fuel + 1, some 0, c =>
    if c.length < 2 then none else refChunks fuel none (c.drop 2)
  | fuel + 1, none, c =>
    match parseSize (cutExt (lineOf c)) with
    | .ok 0 => some []
    | .ok (n + 1) => refChunks fuel (some (n + 1)) (c.drop (lineOf c).length)
    | _ => none

theorem refChunks_pos (fuel k : Nat) (c : Bytes) :
    refChunks (fuel + 1) (some (k + 1)) c =
      if c.length < k + 1 then none
      else (refChunks fuel (some 0) (c.drop (k + 1))).map (fun p => c.take (k + 1) ++ p) := by
  rw [refChunks]

theorem refChunks_zero (fuel : Nat) (c : Bytes) :
    refChunks (fuel + 1) (some 0) c = if c.length < 2 then none else refChunks fuel none (c.drop 2) := by
  rw [refChunks]

theorem refChunks_line (fuel : Nat) (c : Bytes) :
    refChunks (fuel + 1) none c =
      match parseSize (cutExt (lineOf c)) with
      | .ok 0 => some []
      | .ok (n + 1) => refChunks fuel (some (n + 1)) (c.drop (lineOf c).length)
      | _ => none := by
  rw [refChunks]

theorem parseSize_nil : parseSize (cutExt []) = .valueError := by decide

theorem lineOf_pos_of_size {c : Bytes} {n : Nat} (h : parseSize (cutExt (lineOf c)) = .ok n) :
    0 < (lineOf c).length := by
  cases hl : lineOf c with
  | nil => rw [hl, parseSize_nil] at h; cases h
  | cons x t => simp

theorem lineOf_length_le (c : Bytes) : (lineOf c).length ≤ c.length := by
  unfold lineOf
  split
  · simp only [List.length_take]; omega
  · exact Nat.le_refl _

/-- the fuel is irrelevant once it exceeds the length -/
theorem refChunks_fuel : ∀ (f1 f2 : Nat) (cl : Option Nat) (c : Bytes), c.length < f1 → c.length < f2 →
    refChunks f1 cl c = refChunks f2 cl c := by
  intro f1
  induction f1 with
  | zero => intro f2 cl c h; omega
  | succ k ih =>
    intro f2 cl c h1 h2
    cases f2 with
    | zero => omega
    | succ m =>
      cases cl with
      | none =>
        rw [refChunks_line, refChunks_line]
        cases hp : parseSize (cutExt (lineOf c)) with
        | ok n =>
          cases n with
          | zero => rfl
          | succ n =>
            simp only []
            have := lineOf_pos_of_size hp
            have := lineOf_length_le c
            apply ih <;> simp only [List.length_drop] <;> omega
        | valueError => rfl
        | negative => rfl
      | some j =>
        cases j with
        | zero =>
          rw [refChunks_zero, refChunks_zero]
          by_cases hc : c.length < 2
          · rw [if_pos hc, if_pos hc]
          · rw [if_neg hc, if_neg hc]
            apply ih <;> simp only [List.length_drop] <;> omega
        | succ j =>
          rw [refChunks_pos, refChunks_pos]
          by_cases hc : c.length < j + 1
          · rw [if_pos hc, if_pos hc]
          · rw [if_neg hc, if_neg hc]
            rw [ih m (some 0) (c.drop (j + 1)) (by simp only [List.length_drop]; omega)
              (by simp only [List.length_drop]; omega)]

/-- the reference reader at its canonical fuel -/
def refBody (cl : Option Nat) (c : Bytes) : Option Bytes := refChunks (c.length + 1) cl c

theorem refBody_pos {k : Nat} {c p : Bytes} (h : refBody (some (k + 1)) c = some p) :
    k + 1 ≤ c.length ∧ ∃ p2, refBody (some 0) (c.drop (k + 1)) = some p2 ∧ p = c.take (k + 1) ++ p2 := by
  unfold refBody at h
  rw [refChunks_pos] at h
  by_cases hc : c.length < k + 1
  · rw [if_pos hc] at h; cases h
  · rw [if_neg hc] at h
    refine ⟨by omega, ?_⟩
    cases h2 : refChunks c.length (some 0) (c.drop (k + 1)) with
    | none => rw [h2] at h; cases h
    | some p2 =>
      rw [h2] at h
      simp only [Option.map_some, Option.some.injEq] at h
      refine ⟨p2, ?_, h.symm⟩
      unfold refBody
      rw [← h2]
      apply refChunks_fuel <;> simp only [List.length_drop] <;> omega

theorem refBody_pos_intro {k : Nat} {c p2 : Bytes} (hlen : k + 1 ≤ c.length)
    (h : refBody (some 0) (c.drop (k + 1)) = some p2) :
    refBody (some (k + 1)) c = some (c.take (k + 1) ++ p2) := by
  unfold refBody at h ⊢
  rw [refChunks_pos, if_neg (by omega)]
  rw [refChunks_fuel c.length _ (some 0) (c.drop (k + 1)) (by simp only [List.length_drop]; omega)
    (Nat.lt_succ_self _), h]
  rfl

/-- reading `a ≤ k` bytes inside a chunk with `k` bytes left -/
theorem refBody_advance {k : Nat} {c p : Bytes} (a : Nat) (ha : a ≤ k)
    (h : refBody (some k) c = some p) :
    refBody (some (k - a)) (c.drop a) = some (p.drop a) ∧ p.take a = c.take a ∧ k ≤ c.length := by
  cases k with
  | zero =>
    have : a = 0 := by omega
    subst this
    exact ⟨by simpa using h, by simp, Nat.zero_le _⟩
  | succ k =>
    obtain ⟨hlen, p2, h2, hp⟩ := refBody_pos h
    have hpt : p.take a = c.take a := by
      rw [hp, List.take_append_of_le_length (by simp only [List.length_take]; omega), List.take_take,
        Nat.min_eq_left ha]
    have hpd : p.drop a = (c.drop a).take (k + 1 - a) ++ p2 := by
      rw [hp, List.drop_append_of_le_length (by simp only [List.length_take]; omega), List.drop_take]
    refine ⟨?_, hpt, hlen⟩
    by_cases hak : a = k + 1
    · subst hak
      rw [hpd]
      simpa using h2
    · obtain ⟨j, hj⟩ : ∃ j, k + 1 - a = j + 1 := ⟨k - a, by omega⟩
      rw [hpd, hj]
      apply refBody_pos_intro
      · simp only [List.length_drop]; omega
      · rw [List.drop_drop, ← hj]
        have : a + (k + 1 - a) = k + 1 := by omega
        rw [this]; exact h2

theorem refBody_zero {c p : Bytes} (h : refBody (some 0) c = some p) :
    2 ≤ c.length ∧ refBody none (c.drop 2) = some p := by
  unfold refBody at h
  rw [refChunks_zero] at h
  by_cases hc : c.length < 2
  · rw [if_pos hc] at h; cases h
  · rw [if_neg hc] at h
    refine ⟨by omega, ?_⟩
    unfold refBody
    rw [← h]
    apply refChunks_fuel <;> simp only [List.length_drop] <;> omega

theorem refBody_line {c p : Bytes} (h : refBody none c = some p) :
    (parseSize (cutExt (lineOf c)) = .ok 0 ∧ p = []) ∨
    (∃ n, parseSize (cutExt (lineOf c)) = .ok (n + 1) ∧
      refBody (some (n + 1)) (c.drop (lineOf c).length) = some p) := by
  unfold refBody at h
  rw [refChunks_line] at h
  cases hp : parseSize (cutExt (lineOf c)) with
  | ok n =>
    rw [hp] at h
    cases n with
    | zero => left; simp only [Option.some.injEq] at h; exact ⟨rfl, h.symm⟩
    | succ n =>
      right
      simp only [] at h
      refine ⟨n, rfl, ?_⟩
      unfold refBody
      rw [← h]
      have := lineOf_pos_of_size hp
      have := lineOf_length_le c
      apply refChunks_fuel <;> simp only [List.length_drop] <;> omega
  | valueError => rw [hp] at h; cases h
  | negative => rw [hp] at h; cases h

/-! ## `http.client`'s chunk bookkeeping on a well-framed body -/

/-- `_read_and_discard_trailer` only moves the file position -/
theorem hDiscardTrailer_ok : ∀ (fuel : Nat) (h : H) (f : Fp), h.fp = some f →
    ∃ f', hDiscardTrailer fuel h = (.ok (), { h with fp := some f' }) := by
  intro fuel
  induction fuel with
  | zero => intro h f hf; exact ⟨f, by simp [hDiscardTrailer, ← hf]⟩
  | succ k ih =>
    intro h f hf
    unfold hDiscardTrailer
    rw [hFpReadline_eq h f hf]
    simp only []
    split
    · exact ⟨_, rfl⟩
    · obtain ⟨f', e⟩ := ih { h with fp := some (fpReadline f).2 } _ rfl
      exact ⟨f', e⟩

/-- the part of `_get_chunk_left` after the optional `_safe_read(2)`: `_read_next_chunk_size` and
what follows (mirror of the model's code, see `hGetChunkLeft_none` / `hGetChunkLeft_zero`) -/
def lineStep (h : H) : Except HErr (Option Nat) × H :=
  match hFpReadline h with
  | (.error e, h) => (.error e, h)
  | (.ok line, h) =>
    match parseSize (cutExt line) with
    | .valueError => (.error .incompleteRead, h.closeConn)
    | .negative => (.error .unsupported, h)
    | .ok 0 =>
      match hDiscardTrailer (h.avail + 1) h with
      | (.error e, h) => (.error e, h)
      | (.ok _, h) => (.ok none, { h.closeConn with chunkLeft := none })
    | .ok n => (.ok (some n), { h with chunkLeft := some n })

theorem hGetChunkLeft_pos (h : H) (n : Nat) (hcl : h.chunkLeft = some (n + 1)) :
    hGetChunkLeft h = (.ok (some (n + 1)), h) := by
  unfold hGetChunkLeft
  rw [hcl]

theorem hGetChunkLeft_none (h : H) (hcl : h.chunkLeft = none) : hGetChunkLeft h = lineStep h := by
  unfold hGetChunkLeft lineStep
  rw [hcl]
  rfl

theorem hGetChunkLeft_zero (h : H) (hcl : h.chunkLeft = some 0) :
    hGetChunkLeft h =
      match hSafeRead h 2 with
      | (.error e, h) => (.error e, h)
      | (.ok _, h) => lineStep h := by
  unfold hGetChunkLeft lineStep
  rw [hcl]
  simp only []
  generalize hSafeRead h 2 = r
  obtain ⟨x, h'⟩ := r
  cases x <;> rfl

/-- what the read family sees of an `http.client` response beyond `fp` and `chunkLeft` -/
def SameFrame (h h' : H) : Prop :=
  h'.head = h.head ∧ h'.chunked = h.chunked ∧ h'.closed = h.closed ∧ h'.length = h.length

theorem SameFrame.refl (h : H) : SameFrame h h := ⟨rfl, rfl, rfl, rfl⟩
theorem SameFrame.trans {a b c : H} (h1 : SameFrame a b) (h2 : SameFrame b c) : SameFrame a c :=
  ⟨h2.1.trans h1.1, h2.2.1.trans h1.2.1, h2.2.2.1.trans h1.2.2.1, h2.2.2.2.trans h1.2.2.2⟩

theorem lineStep_spec (h : H) (f : Fp) (p : Bytes) (hf : h.fp = some f)
    (hp : refBody none f.content = some p) :
    (∃ h', lineStep h = (.ok none, h') ∧ h'.fp = none ∧ p = [] ∧ SameFrame h h') ∨
    (∃ n f' h', lineStep h = (.ok (some (n + 1)), h') ∧ h'.fp = some f' ∧ h'.chunkLeft = some (n + 1) ∧
      refBody (some (n + 1)) f'.content = some p ∧ f'.content.length < f.content.length ∧ SameFrame h h') := by
  unfold lineStep
  rw [hFpReadline_eq h f hf]
  simp only []
  rcases refBody_line hp with ⟨hz, hp0⟩ | ⟨n, hn, hp1⟩
  · left
    rw [hz]
    simp only []
    obtain ⟨f', e⟩ := hDiscardTrailer_ok ({ h with fp := some (fpReadline f).2 } : H).avail.succ
      { h with fp := some (fpReadline f).2 } _ rfl
    rw [e]
    exact ⟨_, rfl, rfl, hp0, rfl, rfl, rfl, rfl⟩
  · right
    rw [hn]
    refine ⟨n, (fpReadline f).2, _, rfl, rfl, rfl, ?_, ?_, rfl, rfl, rfl, rfl⟩
    · rw [(fpReadline_spec f).2.1]; exact hp1
    · rw [(fpReadline_spec f).2.1, List.length_drop]
      have := lineOf_pos_of_size hn
      have := lineOf_length_le f.content
      omega

/-- `_get_chunk_left` on a well-framed body: either the body is over (file closed, nothing left),
or a chunk with `n + 1` bytes left is current -/
theorem hGetChunkLeft_spec (h : H) (f : Fp) (p : Bytes) (hf : h.fp = some f)
    (hp : refBody h.chunkLeft f.content = some p) :
    (∃ h', hGetChunkLeft h = (.ok none, h') ∧ h'.fp = none ∧ p = [] ∧ SameFrame h h') ∨
    (∃ n f' h', hGetChunkLeft h = (.ok (some (n + 1)), h') ∧ h'.fp = some f' ∧ h'.chunkLeft = some (n + 1) ∧
      refBody (some (n + 1)) f'.content = some p ∧ f'.content.length ≤ f.content.length ∧ SameFrame h h') := by
  cases hcl : h.chunkLeft with
  | none =>
    rw [hcl] at hp
    rw [hGetChunkLeft_none h hcl]
    rcases lineStep_spec h f p hf hp with h1 | ⟨n, f', h', e1, e2, e3, e4, e5, e6⟩
    · left; exact h1
    · right; exact ⟨n, f', h', e1, e2, e3, e4, by omega, e6⟩
  | some k =>
    cases k with
    | succ n =>
      right
      rw [hcl] at hp
      exact ⟨n, f, h, hGetChunkLeft_pos h n hcl, hf, hcl, hp, Nat.le_refl _, SameFrame.refl h⟩
    | zero =>
      rw [hcl] at hp
      rw [hGetChunkLeft_zero h hcl]
      obtain ⟨hlen, hp2⟩ := refBody_zero hp
      obtain ⟨f1, e1, c1, _⟩ := hSafeRead_ok h f 2 hf hlen
      rw [e1]
      simp only []
      rw [← c1] at hp2
      rcases lineStep_spec { h with fp := some f1 } f1 p rfl hp2 with
        ⟨h', a1, a2, a3, a4⟩ | ⟨n, f', h', a1, a2, a3, a4, a5, a6⟩
      · left; exact ⟨h', a1, a2, a3, a4⟩
      · right
        refine ⟨n, f', h', a1, a2, a3, a4, ?_, a6⟩
        rw [c1, List.length_drop] at a5
        omega


/-! ## the body readers of `http.client` on a well-framed chunked body -/

theorem take_split (l : Bytes) (m a : Nat) (h : m ≤ a) : l.take a = l.take m ++ (l.drop m).take (a - m) := by
  have : a = m + (a - m) := by omega
  rw [this, List.take_add]
  simp

theorem drop_split (l : Bytes) (m a : Nat) (h : m ≤ a) : (l.drop m).drop (a - m) = l.drop a := by
  rw [List.drop_drop]
  congr 1
  omega

/-- what is known about a chunked response after a body-reader call that left `q` to be read -/
def CView (h' : H) (q : Bytes) : Prop :=
  (h'.fp = none ∧ q = []) ∨ (∃ f', h'.fp = some f' ∧ refBody h'.chunkLeft f'.content = some q)

/-- `_read_chunked(amt)`, `amt > 0` -/
theorem hReadChunkedLoop_some : ∀ (fuel : Nat) (h : H) (f : Fp) (p : Bytes) (a : Nat) (acc : Bytes),
    0 < a → h.fp = some f → refBody h.chunkLeft f.content = some p → f.content.length < fuel →
    ∃ h', hReadChunkedLoop fuel h (some a) acc = (.ok (acc ++ p.take a), h') ∧ SameFrame h h' ∧
      CView h' (p.drop a) := by
  intro fuel
  induction fuel with
  | zero => intro h f p a acc _ _ _ hl; omega
  | succ k ih =>
    intro h f p a acc ha hf hp hl
    unfold hReadChunkedLoop
    rcases hGetChunkLeft_spec h f p hf hp with
      ⟨h1, e1, e2, e3, e4⟩ | ⟨n, f1, h1, e1, e2, e3, e4, e5, e6⟩
    · rw [e1]
      subst e3
      exact ⟨h1, by simp, e4, Or.inl ⟨e2, by simp⟩⟩
    · rw [e1]
      simp only []
      by_cases hle : a ≤ n + 1
      · rw [if_pos hle]
        obtain ⟨g1, g2, g3⟩ := refBody_advance a hle e4
        obtain ⟨f2, s1, s2, _⟩ := hSafeRead_ok h1 f1 a e2 (by omega)
        rw [s1]
        simp only []
        refine ⟨{ { h1 with fp := some f2 } with chunkLeft := some (n + 1 - a) }, by rw [g2],
          ⟨e6.1, e6.2.1, e6.2.2.1, e6.2.2.2⟩, Or.inr ⟨f2, rfl, ?_⟩⟩
        show refBody (some (n + 1 - a)) f2.content = _
        rw [s2]; exact g1
      · rw [if_neg hle]
        obtain ⟨g1, g2, g3⟩ := refBody_advance (n + 1) (Nat.le_refl _) e4
        obtain ⟨f2, s1, s2, _⟩ := hSafeRead_ok h1 f1 (n + 1) e2 g3
        rw [s1]
        simp only []
        obtain ⟨h', i1, i2, i3⟩ := ih { { h1 with fp := some f2 } with chunkLeft := some 0 } f2 (p.drop (n + 1))
          (a - (n + 1)) (acc ++ f1.content.take (n + 1)) (by omega) rfl
          (by show refBody (some 0) f2.content = _; rw [s2]; simpa using g1)
          (by rw [s2, List.length_drop]; omega)
        refine ⟨h', ?_, SameFrame.trans e6 i2, ?_⟩
        · rw [i1, ← g2, List.append_assoc, ← take_split p (n + 1) a (by omega)]
        · rw [drop_split p (n + 1) a (by omega)] at i3; exact i3

/-- `_read_chunked(None)` -/
theorem hReadChunkedLoop_none : ∀ (fuel : Nat) (h : H) (f : Fp) (p : Bytes) (acc : Bytes),
    h.fp = some f → refBody h.chunkLeft f.content = some p → f.content.length < fuel →
    ∃ h', hReadChunkedLoop fuel h none acc = (.ok (acc ++ p), h') ∧ SameFrame h h' ∧ h'.fp = none := by
  intro fuel
  induction fuel with
  | zero => intro h f p acc _ _ hl; omega
  | succ k ih =>
    intro h f p acc hf hp hl
    unfold hReadChunkedLoop
    rcases hGetChunkLeft_spec h f p hf hp with
      ⟨h1, e1, e2, e3, e4⟩ | ⟨n, f1, h1, e1, e2, e3, e4, e5, e6⟩
    · rw [e1]
      subst e3
      exact ⟨h1, by simp, e4, e2⟩
    · rw [e1]
      simp only []
      obtain ⟨g1, g2, g3⟩ := refBody_advance (n + 1) (Nat.le_refl _) e4
      obtain ⟨f2, s1, s2, _⟩ := hSafeRead_ok h1 f1 (n + 1) e2 g3
      rw [s1]
      simp only []
      obtain ⟨h', i1, i2, i3⟩ := ih { { h1 with fp := some f2 } with chunkLeft := some 0 } f2 (p.drop (n + 1))
        (acc ++ f1.content.take (n + 1)) rfl
        (by show refBody (some 0) f2.content = _; rw [s2]; simpa using g1)
        (by rw [s2, List.length_drop]; omega)
      refine ⟨h', ?_, SameFrame.trans e6 i2, i3⟩
      rw [i1, ← g2, List.append_assoc, List.take_append_drop]

/-- the raw body bytes a chunked `http.client` response will still deliver -/
def cRem (h : H) : Bytes :=
  match h.fp with
  | none => []
  | some f => (refBody h.chunkLeft f.content).getD []

/-- a well-framed chunked body: not HEAD, chunked, and while the file is open the reference reader
accepts what is (or will be) there -/
structure CInv (h : H) : Prop where
  head : h.head = false
  chunked : h.chunked = true
  avail : ∀ f, h.fp = some f → h.closed = false ∧ (refBody h.chunkLeft f.content).isSome

/-- `length_remaining` of a chunked response is `None` -/
def CI (h : H) (lr : Option Int) : Prop := CInv h ∧ lr = none

theorem CInv.view {h : H} (hi : CInv h) (f : Fp) (hf : h.fp = some f) :
    h.closed = false ∧ refBody h.chunkLeft f.content = some (cRem h) := by
  obtain ⟨hc, hs⟩ := hi.avail f hf
  refine ⟨hc, ?_⟩
  obtain ⟨p, hp⟩ := Option.isSome_iff_exists.mp hs
  simp [cRem, hf, hp]

theorem CView.out {h h' : H} {q : Bytes} (hi : CInv h) (hc : h.closed = false) (hs : SameFrame h h')
    (hv : CView h' q) : cRem h' = q ∧ CInv h' := by
  obtain ⟨s1, s2, s3, _⟩ := hs
  rcases hv with ⟨h1, h2⟩ | ⟨f', h1, h2⟩
  · refine ⟨by simp [cRem, h1, h2], ⟨by rw [s1]; exact hi.head, by rw [s2]; exact hi.chunked, ?_⟩⟩
    intro f hf; rw [h1] at hf; cases hf
  · refine ⟨by simp [cRem, h1, h2], ⟨by rw [s1]; exact hi.head, by rw [s2]; exact hi.chunked, ?_⟩⟩
    intro f hf
    rw [h1] at hf; cases hf
    exact ⟨by rw [s3]; exact hc, by rw [h2]; rfl⟩

theorem cRem_none {h : H} (hf : h.fp = none) : cRem h = [] := by simp [cRem, hf]

theorem CInv_none {h : H} (hi : CInv h) {h' : H} (hs : SameFrame h h') (hf : h'.fp = none) : CInv h' :=
  ⟨by rw [hs.1]; exact hi.head, by rw [hs.2.1]; exact hi.chunked, fun f hf' => by rw [hf] at hf'; cases hf'⟩

/-- `HTTPResponse.read(a)`, `a > 0`, on a well-framed chunked body -/
theorem hRead_chunked_some (h : H) (a : Nat) (ha : 0 < a) (hi : CInv h) :
    ∃ h', hRead h (some a) = (.ok ((cRem h).take a), h') ∧ cRem h' = (cRem h).drop a ∧ CInv h' := by
  cases hf : h.fp with
  | none => exact ⟨h, by simp [hRead, hf, cRem], by simp [cRem, hf], hi⟩
  | some f =>
    obtain ⟨hc, hp⟩ := hi.view f hf
    obtain ⟨h', e1, e2, e3⟩ := hReadChunkedLoop_some (h.avail + 2) h f (cRem h) a [] ha hf hp
      (by simp [H.avail, hf])
    obtain ⟨o1, o2⟩ := CView.out hi hc e2 e3
    refine ⟨h', ?_, o1, o2⟩
    unfold hRead
    simp only [hf, hi.head, hi.chunked, Bool.false_eq_true, if_false, if_true]
    simpa using e1

/-- `HTTPResponse.read()` on a well-framed chunked body -/
theorem hRead_chunked_none (h : H) (hi : CInv h) :
    ∃ h', hRead h none = (.ok (cRem h), h') ∧ h'.fp = none ∧ CInv h' := by
  cases hf : h.fp with
  | none => exact ⟨h, by simp [hRead, hf, cRem], hf, hi⟩
  | some f =>
    obtain ⟨hc, hp⟩ := hi.view f hf
    obtain ⟨h', e1, e2, e3⟩ := hReadChunkedLoop_none (h.avail + 2) h f (cRem h) [] hf hp
      (by simp [H.avail, hf])
    refine ⟨h', ?_, e3, CInv_none hi e2 e3⟩
    unfold hRead
    simp only [hf, hi.head, hi.chunked, Bool.false_eq_true, if_false, if_true]
    simpa using e1

/-- the `BufferedReader.read1(nn)` at the heart of `_read1_chunked`, inside a chunk with `m + 1`
bytes left -/
theorem hRead1_tail (h h1 : H) (f1 f2 : Fp) (d' : Bytes) (m nn : Nat) (hi : CInv h) (hc : h.closed = false)
    (e4 : refBody (some (m + 1)) f1.content = some (cRem h)) (e6 : SameFrame h h1)
    (hnn1 : 0 < nn) (hnn2 : nn ≤ m + 1) (hr : fpRead1 f1 nn = (d', f2)) :
    d'.isEmpty = false ∧ d' = (cRem h).take d'.length ∧ 0 < d'.length ∧ d'.length ≤ nn ∧
    cRem ({ { h1 with fp := some f2 } with chunkLeft := some (m + 1 - d'.length) } : H) = (cRem h).drop d'.length ∧
    CInv ({ { h1 with fp := some f2 } with chunkLeft := some (m + 1 - d'.length) } : H) := by
  obtain ⟨d, hd1, hd2, hd3, hd4, _⟩ := fpRead1_spec f1 nn
  rw [hr] at hd1 hd2
  simp only [] at hd1 hd2
  subst hd1
  have hdl : d'.length ≤ m + 1 := by omega
  obtain ⟨g1, g2, g3⟩ := refBody_advance d'.length hdl e4
  obtain ⟨t1, t2⟩ := split_eq_take_drop hd2 (Or.inl rfl)
  have hne : d' ≠ [] := hd4 hnn1 (by intro h0; rw [h0] at g3; simp at g3)
  have hemp : d'.isEmpty = false := by
    cases hd : d' with
    | nil => exact absurd hd hne
    | cons _ _ => rfl
  have hv : CView ({ { h1 with fp := some f2 } with chunkLeft := some (m + 1 - d'.length) } : H)
      ((cRem h).drop d'.length) := Or.inr ⟨f2, rfl, by
        show refBody (some (m + 1 - d'.length)) f2.content = _
        rw [t2]; exact g1⟩
  obtain ⟨o1, o2⟩ := CView.out hi hc
    (h' := { { h1 with fp := some f2 } with chunkLeft := some (m + 1 - d'.length) })
    ⟨e6.1, e6.2.1, e6.2.2.1, e6.2.2.2⟩ hv
  exact ⟨hemp, by rw [g2, ← t1], List.length_pos_iff.mpr hne, hd3, o1, o2⟩

/-- `HTTPResponse.read1(n)` (`n ≠ 0`) on a well-framed chunked body (`_read1_chunked`): a prefix of
what is left, non-empty unless the body is over, at most `n` bytes and never beyond the chunk -/
theorem hRead1_chunked (h : H) (n : Option Nat) (hn : n ≠ some 0) (hi : CInv h) :
    ∃ k h', hRead1 h n = (.ok ((cRem h).take k), h') ∧ cRem h' = (cRem h).drop k ∧
      (cRem h ≠ [] → 0 < k) ∧ (∀ a, n = some a → k ≤ a) ∧ CInv h' := by
  cases hf : h.fp with
  | none =>
    exact ⟨0, h, by simp [hRead1, hf], by simp, by simp [cRem, hf], fun a _ => Nat.zero_le _, hi⟩
  | some f =>
    obtain ⟨hc, hp⟩ := hi.view f hf
    rcases hGetChunkLeft_spec h f (cRem h) hf hp with
      ⟨h1, e1, e2, e3, e4⟩ | ⟨m, f1, h1, e1, e2, e3, e4, e5, e6⟩
    · refine ⟨0, h1, ?_, by rw [cRem_none e2, e3]; rfl, fun hne => absurd e3 hne, fun a _ => Nat.zero_le _,
        CInv_none hi e4 e2⟩
      unfold hRead1
      simp only [hf, hi.head, hi.chunked, Bool.false_eq_true, if_false, if_true, e1]
      simp
    · -- the amount `http.client` asks the BufferedReader for
      have key : ∀ nn, 0 < nn → nn ≤ m + 1 → (∀ a, n = some a → nn ≤ a) →
          hRead1 h n =
            (if (fpRead1 f1 nn).1.isEmpty = true then
              (.error .incompleteRead, { { h1 with fp := some (fpRead1 f1 nn).2 } with
                  chunkLeft := some (m + 1 - (fpRead1 f1 nn).1.length) })
             else (.ok (fpRead1 f1 nn).1, { { h1 with fp := some (fpRead1 f1 nn).2 } with
                  chunkLeft := some (m + 1 - (fpRead1 f1 nn).1.length) })) →
          ∃ k h', hRead1 h n = (.ok ((cRem h).take k), h') ∧ cRem h' = (cRem h).drop k ∧
            (cRem h ≠ [] → 0 < k) ∧ (∀ a, n = some a → k ≤ a) ∧ CInv h' := by
        intro nn hnn1 hnn2 hnn3 heq
        generalize hr : fpRead1 f1 nn = res at heq
        obtain ⟨d', f2⟩ := res
        obtain ⟨t1, t2, t3, t4, t5, t6⟩ := hRead1_tail h h1 f1 f2 d' m nn hi hc e4 e6 hnn1 hnn2 hr
        simp only [t1, Bool.false_eq_true, if_false] at heq
        exact ⟨d'.length, _, by rw [heq, ← t2], t5, fun _ => t3, fun a ha => Nat.le_trans t4 (hnn3 a ha), t6⟩
      cases n with
      | none =>
        apply key (m + 1) (by omega) (Nat.le_refl _) (fun a h => by cases h)
        unfold hRead1
        simp only [hf, hi.head, hi.chunked, Bool.false_eq_true, if_false, if_true, e1, e2]
        simp
      | some k =>
        have hk : k ≠ 0 := fun h0 => hn (by rw [h0])
        by_cases hkm : k ≤ m + 1
        · apply key k (by omega) hkm (fun a h => by cases h; exact Nat.le_refl _)
          unfold hRead1
          simp only [hf, hi.head, hi.chunked, Bool.false_eq_true, if_false, if_true, e1, e2]
          simp [hk, hkm]
        · apply key (m + 1) (by omega) (Nat.le_refl _) (fun a h => by cases h; omega)
          unfold hRead1
          simp only [hf, hi.head, hi.chunked, Bool.false_eq_true, if_false, if_true, e1, e2]
          simp [hk, hkm]


/-! ## the source specifications for `hSrc` on chunked bodies -/

theorem CInv.closed_fp {h : H} (hi : CInv h) (hcl : h.closed = true) : h.fp = none := by
  cases hf : h.fp with
  | none => rfl
  | some f => have := (hi.avail f hf).1; rw [hcl] at this; cases this

theorem CInv_close (h : H) (hi : CInv h) : CInv h.close :=
  ⟨hi.head, hi.chunked, fun f hf => by simp [H.close] at hf⟩

theorem cRem_close (h : H) : cRem h.close = [] := rfl

/-- `_raw_read(a)` over `http.client` on a well-framed chunked body: exactly the next
`min a |rest|` raw body bytes, for every segmentation, never an exception -/
theorem hSrc_rawReadSpec_chunked {δ : Type} (cfg : Cfg δ) : RawReadSpec (δ := δ) hSrc cfg cRem CI := by
  constructor
  intro r a ha ⟨hi, hlr⟩
  have ha0 : a ≠ 0 := by omega
  have hres : ∃ h', (if hSrc.closed r.fp then ((Except.ok [] : Except HErr Bytes), r.fp) else hSrc.read r.fp (some a))
      = (.ok ((cRem r.fp).take a), h') ∧ cRem h' = (cRem r.fp).drop a ∧ CInv h' := by
    by_cases hcl : r.fp.closed = true
    · have hrem : cRem r.fp = [] := cRem_none (hi.closed_fp hcl)
      exact ⟨r.fp, by simp [hSrc, hcl, hrem], by simp [hrem], hi⟩
    · obtain ⟨h', e1, e2, e3⟩ := hRead_chunked_some r.fp a ha hi
      exact ⟨h', by simp [hSrc, hcl, e1], e2, e3⟩
  obtain ⟨h', hres, hrem', hi'⟩ := hres
  obtain ⟨r', e0, e1, e2, e3, e4, e5, _⟩ := rawRead_ok hSrc cfg r (some a) _ h' hres (by
    rintro ⟨_, _, _, _, h5, _⟩; exact h5 hlr)
  have hlr' : r'.lengthRemaining = none := by rw [e2, hlr]; split <;> rfl
  refine ⟨r', e0, ?_, ⟨?_, hlr'⟩, e3, e4, e5⟩
  · rw [e1]
    split
    · rename_i hc
      have : cRem r.fp = [] := by
        rcases List.take_eq_nil_iff.mp (List.isEmpty_iff.mp hc.2.2) with h0 | h0
        · omega
        · exact h0
      rw [this, List.drop_nil]; exact cRem_close h'
    · exact hrem'
  · rw [e1]
    split
    · exact CInv_close h' hi'
    · exact hi'

/-- `_raw_read()` over `http.client` on a well-framed chunked body: everything that is left -/
theorem hSrc_rawReadAllSpec_chunked {δ : Type} (cfg : Cfg δ) : RawReadAllSpec (δ := δ) hSrc cfg cRem CI := by
  constructor
  intro r ⟨hi, hlr⟩
  have hres : ∃ h', (if hSrc.closed r.fp then ((Except.ok [] : Except HErr Bytes), r.fp) else hSrc.read r.fp none)
      = (.ok (cRem r.fp), h') ∧ h'.fp = none ∧ CInv h' := by
    by_cases hcl : r.fp.closed = true
    · have hfp := hi.closed_fp hcl
      exact ⟨r.fp, by simp [hSrc, hcl, cRem_none hfp], hfp, hi⟩
    · obtain ⟨h', e1, e2, e3⟩ := hRead_chunked_none r.fp hi
      exact ⟨h', by simp [hSrc, hcl, e1], e2, e3⟩
  obtain ⟨h', hres, hfp', hi'⟩ := hres
  obtain ⟨r', e0, e1, e2, e3, e4, e5, e6⟩ := rawRead_ok hSrc cfg r none _ h' hres (by simp)
  have hc : ¬ ((none : Option Nat) ≠ none ∧ (none : Option Nat) ≠ some 0 ∧ (cRem r.fp).isEmpty = true) := by simp
  rw [if_neg hc] at e1
  have hlr' : r'.lengthRemaining = none := by rw [e2, hlr]; split <;> rfl
  exact ⟨r', e0, by rw [e1]; exact cRem_none hfp', ⟨by rw [e1]; exact hi', hlr'⟩, e3, e4, e5, e6⟩

/-- `_raw_read(amt, read1=True)` over `http.client` on a well-framed chunked body: a non-empty
prefix of what is left (empty only at the end), at most `amt` bytes -/
theorem hSrc_rawRead1Spec_chunked {δ : Type} (cfg : Cfg δ) : RawRead1Spec (δ := δ) hSrc cfg cRem CI := by
  constructor
  intro r amt hamt ⟨hi, hlr⟩
  have hres : ∃ k h', (if hSrc.closed r.fp then ((Except.ok [] : Except HErr Bytes), r.fp) else hSrc.read1 r.fp amt)
      = (.ok ((cRem r.fp).take k), h') ∧ cRem h' = (cRem r.fp).drop k ∧
      (cRem r.fp ≠ [] → 0 < k) ∧ (∀ a, amt = some a → k ≤ a) ∧ CInv h' := by
    by_cases hcl : r.fp.closed = true
    · have hrem : cRem r.fp = [] := cRem_none (hi.closed_fp hcl)
      exact ⟨0, r.fp, by simp [hSrc, hcl], by simp, by simp [hrem], fun a _ => Nat.zero_le _, hi⟩
    · obtain ⟨k, h', e1, e2, e3, e4, e5⟩ := hRead1_chunked r.fp amt hamt hi
      exact ⟨k, h', by simp [hSrc, hcl, e1], e2, e3, e4, e5⟩
  obtain ⟨k, h', hres, hrem', hk, hka, hi'⟩ := hres
  have hempty : ((cRem r.fp).take k).isEmpty = true → cRem r.fp = [] := by
    intro hd
    cases hr : cRem r.fp with
    | nil => rfl
    | cons x t =>
      have hk0 := hk (by rw [hr]; simp)
      rw [hr] at hd
      cases k with
      | zero => omega
      | succ k => simp at hd
  obtain ⟨r', e0, e1, e2, e3, e4, e5, _⟩ := rawRead1_ok hSrc cfg r amt _ h' hres (by
    rintro ⟨_, _, h3, _⟩; exact h3 hlr)
  have hlr' : r'.lengthRemaining = none := by rw [e2, hlr]; split <;> rfl
  refine ⟨k, r', e0, ?_, hk, hka, ⟨?_, hlr'⟩, e3, e4, e5⟩
  · rw [e1]
    split
    · rename_i hc
      rcases hc with ⟨_, hd⟩ | hc
      · rw [hempty hd, List.drop_nil]; exact cRem_close h'
      · rw [hlr] at hc; cases hc
    · exact hrem'
  · rw [e1]
    split
    · exact CInv_close h' hi'
    · exact hi'

/-! ### the closing laws used by `stream` -/

theorem hSrc_closedNil_chunked : ClosedNil hSrc cRem CI := by
  intro h lr _ hcl
  have : h.fp = none := by
    cases hf : h.fp with
    | none => rfl
    | some f => simp [hSrc, H.isclosed, hf] at hcl
  exact cRem_none this

theorem hSrc_closesN_chunked {δ : Type} (cfg : Cfg δ) : ClosesN (δ := δ) hSrc cfg cRem CI := by
  intro r a ha ⟨hi, hlr⟩ hrem
  have ha0 : a ≠ 0 := by omega
  have hres : ∃ h', (if hSrc.closed r.fp then ((Except.ok [] : Except HErr Bytes), r.fp) else hSrc.read r.fp (some a))
      = (.ok ((cRem r.fp).take a), h') := by
    by_cases hcl : r.fp.closed = true
    · exact ⟨r.fp, by simp [hSrc, hcl, hrem]⟩
    · obtain ⟨h', e1, _⟩ := hRead_chunked_some r.fp a ha hi
      exact ⟨h', by simp [hSrc, hcl, e1]⟩
  obtain ⟨h', hres⟩ := hres
  obtain ⟨r', e0, e1, _⟩ := rawRead_ok hSrc cfg r (some a) _ h' hres (by
    rintro ⟨_, _, _, _, h5, _⟩; exact h5 hlr)
  rw [e0]
  show hSrc.isclosed r'.fp = true
  rw [e1, if_pos ⟨by simp, by simp [ha0], by simp [hrem]⟩]
  rfl

theorem hSrc_closesAll_chunked {δ : Type} (cfg : Cfg δ) : ClosesAll (δ := δ) hSrc cfg CI := by
  intro r ⟨hi, hlr⟩
  have hres : ∃ h', (if hSrc.closed r.fp then ((Except.ok [] : Except HErr Bytes), r.fp) else hSrc.read r.fp none)
      = (.ok (cRem r.fp), h') ∧ h'.fp = none := by
    by_cases hcl : r.fp.closed = true
    · have hfp := hi.closed_fp hcl
      exact ⟨r.fp, by simp [hSrc, hcl, cRem_none hfp], hfp⟩
    · obtain ⟨h', e1, e2, _⟩ := hRead_chunked_none r.fp hi
      exact ⟨h', by simp [hSrc, hcl, e1], e2⟩
  obtain ⟨h', hres, hfp'⟩ := hres
  obtain ⟨r', e0, e1, _⟩ := rawRead_ok hSrc cfg r none _ h' hres (by simp)
  rw [e0]
  show hSrc.isclosed r'.fp = true
  rw [e1, if_neg (by simp)]
  simp [hSrc, H.isclosed, hfp']


/-! ## what the reference reader makes of an encoded chunk list -/

theorem refBody_zero_intro {c p : Bytes} (hlen : 2 ≤ c.length) (h : refBody none (c.drop 2) = some p) :
    refBody (some 0) c = some p := by
  unfold refBody at h ⊢
  rw [refChunks_zero, if_neg (by omega), ← h]
  apply refChunks_fuel <;> simp only [List.length_drop] <;> omega

theorem refBody_line_last {c : Bytes} (hp : parseSize (cutExt (lineOf c)) = .ok 0) : refBody none c = some [] := by
  unfold refBody
  rw [refChunks_line, hp]

theorem refBody_line_intro {c p : Bytes} {n : Nat} (hp : parseSize (cutExt (lineOf c)) = .ok (n + 1))
    (h : refBody (some (n + 1)) (c.drop (lineOf c).length) = some p) : refBody none c = some p := by
  unfold refBody at h ⊢
  rw [refChunks_line, hp]
  simp only []
  rw [← h]
  have := lineOf_pos_of_size hp
  have := lineOf_length_le c
  apply refChunks_fuel <;> simp only [List.length_drop] <;> omega

/-- a chunk-size line announcing `n` bytes: one line (ends with the first LF), and whatever
`http.client` makes of it — `int(line.split(b";")[0], 16)`, so any spelling Python accepts, with
or without chunk extensions — is `n` -/
def SizeLineOk (l : Bytes) (n : Nat) : Prop :=
  (∃ pre, l = pre ++ [LF] ∧ LF ∉ pre) ∧ parseSize (cutExt l) = .ok n

theorem lineOf_of_line {l : Bytes} (rest : Bytes) (h : ∃ pre, l = pre ++ [LF] ∧ LF ∉ pre) :
    lineOf (l ++ rest) = l := by
  obtain ⟨pre, rfl, hpre⟩ := h
  rw [List.append_assoc, lineOf_append_none _ (indexOf?_eq_none hpre)]
  simp [lineOf_cons]

/-- a chunk on the wire: size line, data, and the two bytes after the data (`\r\n`; `http.client`
does not look at them) -/
structure WChunk where
  line : Bytes
  data : Bytes
  sep : Bytes

def WChunk.ok (c : WChunk) : Prop := SizeLineOk c.line c.data.length ∧ c.data ≠ [] ∧ c.sep.length = 2
def WChunk.enc (c : WChunk) : Bytes := c.line ++ c.data ++ c.sep

/-- a chunked body: the chunks, the last-chunk line, then trailers / blank line / anything -/
def encChunks (cs : List WChunk) (last after : Bytes) : Bytes :=
  (cs.map WChunk.enc).flatten ++ last ++ after

/-- the reference reader returns the concatenation of the chunk data — for every chunk vector,
every spelling of the size lines, every extension, whatever follows the last-chunk line -/
theorem refBody_encode (cs : List WChunk) (last after : Bytes) (hcs : ∀ c ∈ cs, c.ok)
    (hlast : SizeLineOk last 0) :
    refBody none (encChunks cs last after) = some (cs.map WChunk.data).flatten := by
  induction cs with
  | nil =>
    apply refBody_line_last
    simp only [encChunks, List.map_nil, List.flatten_nil, List.nil_append]
    rw [lineOf_of_line after hlast.1]
    exact hlast.2
  | cons c t ih =>
    obtain ⟨⟨hl1, hl2⟩, hne, hsep⟩ := hcs c (by simp)
    have ih' := ih (fun x hx => hcs x (by simp [hx]))
    have henc : encChunks (c :: t) last after = c.line ++ (c.data ++ c.sep ++ encChunks t last after) := by
      simp [encChunks, WChunk.enc, List.append_assoc]
    obtain ⟨n, hn⟩ : ∃ n, c.data.length = n + 1 := by
      cases hd : c.data with
      | nil => exact absurd hd hne
      | cons x r => exact ⟨r.length, by simp⟩
    rw [henc]
    have hline := lineOf_of_line (c.data ++ c.sep ++ encChunks t last after) hl1
    apply refBody_line_intro (n := n)
    · rw [hline, hl2, hn]
    · rw [hline, List.drop_left]
      have h1 : ((c.data ++ c.sep ++ encChunks t last after).take (n + 1)) = c.data := by
        rw [List.append_assoc, ← hn, List.take_left]
      have h2 : ((c.data ++ c.sep ++ encChunks t last after).drop (n + 1)) = c.sep ++ encChunks t last after := by
        rw [List.append_assoc, ← hn, List.drop_left]
      have := refBody_pos_intro (k := n) (c := c.data ++ c.sep ++ encChunks t last after)
        (p2 := (t.map WChunk.data).flatten) (by simp [hn]) (by
          rw [h2]
          apply refBody_zero_intro (by simp [hsep])
          have : (c.sep ++ encChunks t last after).drop 2 = encChunks t last after := by
            rw [← hsep, List.drop_left]
          rw [this]; exact ih')
      rw [this, h1]
      simp

/-! ### `b"%x" % n` with or without a chunk extension is a size line for `n` -/

theorem strip_hex {s : Bytes} (hs : ∀ c ∈ s, IsLH c) (hne : s ≠ []) : strip s = s := by
  have hL : stripL s = s := by
    cases s with
    | nil => exact absurd rfl hne
    | cons c t =>
      have := (hs c (by simp)).not_space
      simp [stripL, this]
  unfold strip
  rw [hL]
  unfold stripR
  cases hr : s.reverse with
  | nil => simp at hr; exact absurd hr hne
  | cons c t =>
    have hc : c ∈ s := by
      have : c ∈ s.reverse := by rw [hr]; simp
      simpa using this
    have := (hs c hc).not_space
    simp only [List.dropWhile, this]
    rw [← hr, List.reverse_reverse]

theorem pyInt_hex_bare (n : Nat) : pyInt 16 (hexDigits n) = some (false, n) := by
  have hs := hexDigits_isLH n
  have hne := hexDigits_ne_nil n
  have hbody : pyIntBody 16 (hexDigits n) = some n := by
    rw [pyIntBody_hex hs hne]
    have := digitsVal_hexDigits n []
    rw [List.append_nil] at this
    rw [this]; simp [digitsVal]
  unfold pyInt
  simp only [strip_hex hs hne]
  cases hd : hexDigits n with
  | nil => exact absurd hd hne
  | cons c t =>
    have hc := hs c (by rw [hd]; simp)
    unfold IsLH at hc
    rw [hd] at hbody
    split
    · rename_i heq; simp at heq; omega
    · rename_i heq; simp at heq; omega
    · rw [hbody]; rfl

theorem parseSize_hexDigits_bare (n : Nat) : parseSize (hexDigits n) = .ok n := by
  unfold parseSize
  rw [pyInt_hex_bare]
  simp

theorem cutExt_hex_ext (n : Nat) (ext : Bytes) : cutExt (hexDigits n ++ 59 :: ext) = hexDigits n := by
  unfold cutExt
  have h59 : (59 : Nat) ∉ hexDigits n := by
    intro h
    have := hexDigits_isLH n 59 h
    unfold IsLH at this; omega
  have : indexOf? 59 (hexDigits n ++ 59 :: ext) = some (hexDigits n).length := by
    generalize hexDigits n = s at h59
    induction s with
    | nil => simp [indexOf?]
    | cons x t ih =>
      simp only [List.mem_cons, not_or] at h59
      have hx : x ≠ 59 := fun e => h59.1 e.symm
      simp [indexOf?, hx, ih h59.2]
  rw [this]
  simp

/-- `b"%x\r\n" % n` -/
theorem sizeLineOk_hex (n : Nat) : SizeLineOk (hexDigits n ++ crlf) n := by
  refine ⟨⟨hexDigits n ++ [13], by simp [crlf, LF], ?_⟩, by rw [cutExt_hexDigits, parseSize_hexDigits]⟩
  simp only [List.mem_append, not_or]
  refine ⟨fun h => ?_, by decide⟩
  have := hexDigits_isLH n LF h
  unfold IsLH LF at this; omega

/-- `b"%x;" % n + ext + b"\r\n"` for any extension text without LF -/
theorem sizeLineOk_hex_ext (n : Nat) (ext : Bytes) (hext : LF ∉ ext) :
    SizeLineOk (hexDigits n ++ 59 :: (ext ++ crlf)) n := by
  refine ⟨⟨hexDigits n ++ 59 :: (ext ++ [13]), by simp [crlf, LF], ?_⟩,
    by rw [cutExt_hex_ext, parseSize_hexDigits_bare]⟩
  simp only [List.mem_append, List.mem_cons, not_or]
  refine ⟨fun h => ?_, by decide, hext, by decide⟩
  have := hexDigits_isLH n LF h
  unfold IsLH LF at this; omega


/-- a freshly begun chunked response whose wire holds an encoded chunk list is well framed, and its
raw body is the concatenation of the chunk data -/
theorem CInv_of_encoded (h : H) (f : Fp) (cs : List WChunk) (last after : Bytes)
    (hh : h.head = false) (hc : h.chunked = true) (hcl : h.closed = false) (hf : h.fp = some f)
    (hl : h.chunkLeft = none) (hcont : f.content = encChunks cs last after)
    (hcs : ∀ c ∈ cs, c.ok) (hlast : SizeLineOk last 0) :
    CInv h ∧ cRem h = (cs.map WChunk.data).flatten := by
  have href := refBody_encode cs last after hcs hlast
  refine ⟨⟨hh, hc, fun g hg => ?_⟩, ?_⟩
  · rw [hf] at hg; cases hg
    exact ⟨hcl, by rw [hl, hcont, href]; rfl⟩
  · simp [cRem, hf, hl, hcont, href]

end U3.Resp
