import U3.Model.Resp
/-! Helper lemmas for C12 / C13: BytesQueueBuffer FIFO, the streaming law of `feedLoop`, and the
read(n) invariant over an abstract source and decoder. -/
namespace U3.Resp
open U3

/-! ## BytesQueueBuffer -/

theorem bqLen_eq (q : BQ) : bqLen q = (bqAll q).length := by
  induction q with
  | nil => rfl
  | cons c t ih => simp_all [bqLen, bqAll]

theorem bqGetLoop_spec (q : BQ) (n : Nat) (hn : 0 < n) :
    (bqGetLoop q n).1 = (bqAll q).take n ∧ bqAll (bqGetLoop q n).2 = (bqAll q).drop n := by
  induction q generalizing n with
  | nil => simp [bqGetLoop, bqAll]
  | cons c t ih =>
    unfold bqGetLoop
    split
    · rename_i h
      simp [bqAll, List.take_append_of_le_length (Nat.le_of_lt h), List.drop_append_of_le_length (Nat.le_of_lt h)]
    · rename_i h
      have hc : c.length ≤ n := Nat.le_of_not_lt h
      split
      · rename_i ht
        have : t = [] := by simpa using ht
        subst this
        simp [bqAll, List.take_of_length_le hc, List.drop_of_length_le hc]
      · split
        · rename_i h0
          have : n = c.length := by omega
          subst this
          simp [bqAll]
        · rename_i h0
          have hpos : 0 < n - c.length := by omega
          have := ih (n - c.length) hpos
          simp only [bqAll, List.flatten_cons] at this ⊢
          rw [this.1, this.2]
          constructor
          · rw [List.take_append]
            simp [List.take_of_length_le hc]
          · rw [List.drop_append]
            simp [List.drop_of_length_le hc]

/-- `get(n)` hands out exactly the first `min n size` bytes and keeps the rest in order -/
theorem bqGet_spec (q : BQ) (n : Nat) (d : Bytes) (q' : BQ) (h : bqGet q n = some (d, q')) :
    d = (bqAll q).take n ∧ bqAll q' = (bqAll q).drop n := by
  unfold bqGet at h
  split at h
  · rename_i h0; subst h0; simp at h; obtain ⟨rfl, rfl⟩ := h; simp
  · split at h
    · simp at h
    · rename_i h0 _
      simp at h
      have := bqGetLoop_spec q n (Nat.pos_of_ne_zero h0)
      rw [h] at this; exact this

theorem bqPut_all (q : BQ) (d : Bytes) : bqAll (bqPut q d) = bqAll q ++ d := by
  simp [bqPut, bqAll]

/-- `get` only fails on an empty deque with `n > 0` -/
theorem bqGet_isSome (q : BQ) (n : Nat) (h : q ≠ [] ∨ n = 0) : (bqGet q n).isSome := by
  unfold bqGet
  split
  · rfl
  · split
    · rename_i h0 h1; rcases h with h | h
      · simp at h1; exact absurd h1 h
      · exact absurd h h0
    · rfl

/-! ## the streaming law of a byte-step `decompressobj` -/

theorem feedLoop_acc {ρ} (O : RawObj ρ) (s : ρ) (data acc : Bytes) :
    feedLoop O s data acc = (feedLoop O s data []).map (fun r => (r.1, acc ++ r.2.1, r.2.2)) := by
  induction data generalizing s acc with
  | nil => simp [feedLoop, Except.map]
  | cons b t ih =>
    unfold feedLoop
    split
    · simp [Except.map]
    · cases hstep : O.step s b with
      | error e => simp [Except.map]
      | ok r =>
        simp only []
        rw [ih r.1 (acc ++ r.2), ih r.1 ([] ++ r.2)]
        cases feedLoop O r.1 t [] <;> simp [Except.map, List.append_assoc]

theorem feedLoop_cons {ρ} (O : RawObj ρ) (s : ρ) (x : Nat) (t acc : Bytes) :
    feedLoop O s (x :: t) acc =
      if O.eof s then .ok (s, acc, x :: t)
      else match O.step s x with
        | .error e => .error e
        | .ok (s', o) => feedLoop O s' t (acc ++ o) := by
  conv => lhs; unfold feedLoop
  by_cases h : O.eof s = true
  · rw [if_pos h, if_pos h]
  · rw [if_neg h, if_neg h]
    cases O.step s x <;> rfl

/-- feeding `a ++ b` = feeding `a`, then (if the member has not ended) feeding `b` -/
theorem feedLoop_append {ρ} (O : RawObj ρ) (s : ρ) (a b : Bytes) :
    feedLoop O s (a ++ b) [] =
      match feedLoop O s a [] with
      | .error e => .error e
      | .ok (s', o, rest) =>
        if rest = [] then (feedLoop O s' b []).map (fun r => (r.1, o ++ r.2.1, r.2.2))
        else .ok (s', o, rest ++ b) := by
  induction a generalizing s with
  | nil =>
    have h0 : feedLoop O s [] [] = .ok (s, [], []) := by unfold feedLoop; rfl
    simp only [List.nil_append, h0]
    generalize feedLoop O s b [] = fb
    cases fb <;> simp [Except.map]
  | cons x t ih =>
    simp only [List.cons_append]
    rw [feedLoop_cons, feedLoop_cons]
    split
    · simp
    · cases hstep : O.step s x with
      | error e => simp
      | ok r =>
        simp only []
        rw [feedLoop_acc O r.1 (t ++ b) ([] ++ r.2), feedLoop_acc O r.1 t ([] ++ r.2), ih r.1]
        cases h1 : feedLoop O r.1 t [] with
        | error e => simp [Except.map]
        | ok v =>
          obtain ⟨s', o, rest⟩ := v
          by_cases hr : rest = []
          · subst hr
            cases hfb : feedLoop O s' b [] <;> simp [Except.map, hfb, List.append_assoc]
          · simp [Except.map, hr]


/-! ## the read(n) invariant over an abstract source and an abstract decoder -/

section
variable {σ δ : Type} (S : Src σ) (D : Dec δ) (cfg : Cfg δ)

/-- **Streaming law** of a content decoder, relative to `G d raw p` = "a decoder in state `d` that
is still to receive `raw` will still deliver `p`": feeding any prefix delivers a prefix of `p`
and leaves a state that owes the rest; at the end of the input nothing is held back. -/
structure StreamLaw (D : Dec δ) (G : δ → Bytes → Bytes → Prop) : Prop where
  feed : ∀ d a b p, G d (a ++ b) p →
    ∃ o d', D.decompress d a = (.ok o, d') ∧ ∃ p', p = o ++ p' ∧ G d' b p'
  done : ∀ d p, G d [] p → p = [] ∧ ∃ d', D.flush d = (.ok [], d') ∧ G d' [] []

/-- what the read family needs from `_raw_read(amt)`: on a well-framed body (`I` is the framing
invariant over `_fp` and `length_remaining`, `rem` the raw body bytes still to come) it returns
exactly the next `min amt |rem|` bytes, without raising, and touches nothing else -/
structure RawReadSpec (rem : σ → Bytes) (I : σ → Option Int → Prop) : Prop where
  spec : ∀ (r : R σ δ) (a : Nat), 0 < a → I r.fp r.lengthRemaining →
    ∃ r', rawRead S cfg r (some a) false = (.ok ((rem r.fp).take a), r') ∧
      rem r'.fp = (rem r.fp).drop a ∧ I r'.fp r'.lengthRemaining ∧
      r'.buf = r.buf ∧ r'.decoder = r.decoder ∧ r'.hasDecoded = r.hasDecoded

theorem decode_ok (r : R σ δ) (d d' : δ) (data o : Bytes) (h1 : r.decoder = some d)
    (h2 : D.decompress d data = (.ok o, d')) :
    decode D r data true false = (.ok o, { r with decoder := some d', hasDecoded := true }) := by
  simp [decode, h1, h2]

/-- the inner loop of `read(amt)` preserves `buffered ++ still-owed = const` -/
theorem readLoop_inv {rem : σ → Bytes} {I : σ → Option Int → Prop} {G : δ → Bytes → Bytes → Prop}
    (hR : RawReadSpec S cfg rem I) (hD : StreamLaw D G) (a : Nat) (ha : 0 < a) :
    ∀ (fuel : Nat) (r : R σ δ) (data : Bytes) (d : δ) (p : Bytes),
      I r.fp r.lengthRemaining → r.decoder = some d → G d (rem r.fp) p →
      (rem r.fp).length + (if data = [] then 0 else 1) < fuel → (data = [] → rem r.fp = []) →
      ∃ r' d' p', readLoop S D cfg a true false fuel r data = (.ok (), r') ∧
        r'.decoder = some d' ∧ G d' (rem r'.fp) p' ∧
        bqAll r'.buf ++ p' = bqAll r.buf ++ p ∧ I r'.fp r'.lengthRemaining ∧
        (bqLen r'.buf < a → rem r'.fp = []) := by
  intro fuel
  induction fuel with
  | zero => intro r data d p _ _ _ hf; omega
  | succ k ih =>
    intro r data d p hI hd hG hf hdata
    unfold readLoop
    by_cases hc : bqLen r.buf < a ∧ (!data.isEmpty) = true
    · rw [if_pos hc]
      obtain ⟨r1, h1, hrem1, hI1, hb1, hd1, _⟩ := hR.spec r a ha hI
      rw [h1]
      simp only []
      have hsplit : rem r.fp = (rem r.fp).take a ++ (rem r.fp).drop a := (List.take_append_drop a _).symm
      rw [hsplit] at hG
      obtain ⟨o, d', hdec, p', hp, hG'⟩ := hD.feed d _ _ p hG
      rw [decode_ok D r1 d d' _ o (hd1 ▸ hd) hdec]
      simp only []
      have hdne : data ≠ [] := by
        intro h; simp [h] at hc
      by_cases hrem0 : rem r.fp = []
      · -- nothing left: the next round stops
        have := ih { r1 with decoder := some d', hasDecoded := true, buf := bqPut r1.buf o } ((rem r.fp).take a) d' p'
          (by simpa using hI1) rfl (by simpa [hrem1] using hG') (by simp [hrem1, hrem0]; simp [hdne, hrem0] at hf; omega) (by intro _; simp [hrem1, hrem0])
        obtain ⟨r', d'', p'', e1, e2, e3, e4, e5, e6⟩ := this
        refine ⟨r', d'', p'', e1, e2, e3, ?_, e5, e6⟩
        rw [e4, bqPut_all, hb1, hp]; simp [List.append_assoc]
      · have htk : (rem r.fp).take a ≠ [] := by
          intro h; rcases List.take_eq_nil_iff.mp h with h | h
          · omega
          · exact hrem0 h
        have hlen : ((rem r.fp).drop a).length + 1 < k := by
          have : 0 < (rem r.fp).length := List.length_pos_iff.mpr hrem0
          simp [hdne] at hf
          simp [List.length_drop]; omega
        have := ih { r1 with decoder := some d', hasDecoded := true, buf := bqPut r1.buf o } ((rem r.fp).take a) d' p'
          (by simpa using hI1) rfl (by simpa [hrem1] using hG') (by simpa [hrem1, htk] using hlen)
          (by intro h; exact absurd h htk)
        obtain ⟨r', d'', p'', e1, e2, e3, e4, e5, e6⟩ := this
        refine ⟨r', d'', p'', e1, e2, e3, ?_, e5, e6⟩
        rw [e4, bqPut_all, hb1, hp]; simp [List.append_assoc]
    · rw [if_neg hc]
      refine ⟨r, d, p, rfl, hd, hG, rfl, hI, ?_⟩
      intro hlt
      have : ¬ ((!data.isEmpty) = true) := fun h => hc ⟨hlt, h⟩
      apply hdata
      simpa using this

end

end U3.Resp
