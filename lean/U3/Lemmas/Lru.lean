import U3.Model.Lru
/-! Helper lemmas for C17 (`U3.Lru`, `U3.Conc`, `U3.Mgr`). -/
namespace U3.Lru

/-! ### `pop` -/

theorem pop_some {l : Items} {k : Key} {v : Val} {r : Items} (h : pop l k = some (v, r)) :
    ∃ l1 l2, l = l1 ++ (k, v) :: l2 ∧ r = l1 ++ l2 ∧ ∀ p ∈ l1, p.1 ≠ k := by
  induction l generalizing v r with
  | nil => simp [pop] at h
  | cons a t ih =>
    obtain ⟨k', v'⟩ := a
    unfold pop at h
    split at h
    · rename_i hk
      simp at h
      obtain ⟨rfl, rfl⟩ := h
      exact ⟨[], t, by simp [hk], by simp, by simp⟩
    · rename_i hk
      split at h
      · rename_i w r' hp
        simp at h
        obtain ⟨rfl, rfl⟩ := h
        obtain ⟨l1, l2, h1, h2, h3⟩ := ih hp
        refine ⟨(k', v') :: l1, l2, by simp [h1], by simp [h2], ?_⟩
        intro p hp'
        simp at hp'
        rcases hp' with rfl | hp'
        · exact hk
        · exact h3 p hp'
      · simp at h

theorem pop_none {l : Items} {k : Key} (h : pop l k = none) : ∀ p ∈ l, p.1 ≠ k := by
  induction l with
  | nil => simp
  | cons a t ih =>
    obtain ⟨k', v'⟩ := a
    unfold pop at h
    split at h
    · simp at h
    · rename_i hk
      split at h
      · simp at h
      · rename_i hp
        intro p hp'
        simp at hp'
        rcases hp' with rfl | hp'
        · exact hk
        · exact ih hp p hp'

theorem pop_isSome_iff {l : Items} {k : Key} : (pop l k).isSome ↔ k ∈ l.map (·.1) := by
  constructor
  · intro h
    cases hp : pop l k with
    | none => simp [hp] at h
    | some x =>
      obtain ⟨v, r⟩ := x
      obtain ⟨l1, l2, h1, _, _⟩ := pop_some hp
      simp [h1]
  · intro h
    cases hp : pop l k with
    | none =>
      have := pop_none hp
      simp at h
      obtain ⟨v, hv⟩ := h
      exact absurd rfl (this (k, v) hv)
    | some x => simp

theorem pop_length {l : Items} {k v r} (h : pop l k = some (v, r)) : r.length + 1 = l.length := by
  obtain ⟨l1, l2, h1, h2, _⟩ := pop_some h
  simp [h1, h2]; omega

theorem pop_perm {l : Items} {k v r} (h : pop l k = some (v, r)) : l.Perm ((k, v) :: r) := by
  obtain ⟨l1, l2, h1, h2, _⟩ := pop_some h
  subst h1 h2
  exact List.perm_middle

theorem pop_sublist {l : Items} {k v r} (h : pop l k = some (v, r)) : r.Sublist l := by
  obtain ⟨l1, l2, h1, h2, _⟩ := pop_some h
  subst h1 h2
  exact List.Sublist.append (List.Sublist.refl _) (List.sublist_cons_self _ _)

theorem pop_mem {l : Items} {k v r} (h : pop l k = some (v, r)) : (k, v) ∈ l := by
  obtain ⟨l1, l2, h1, _, _⟩ := pop_some h
  simp [h1]

theorem pop_nodup {l : Items} {k v r} (h : pop l k = some (v, r)) (hn : (l.map (·.1)).Nodup) :
    (r.map (·.1)).Nodup ∧ k ∉ r.map (·.1) := by
  obtain ⟨l1, l2, h1, h2, _⟩ := pop_some h
  subst h1 h2
  simp [List.nodup_append] at hn ⊢
  grind

/-- in a dict (unique keys) the popped value is the only one stored under the key -/
theorem pop_unique {l : Items} {k v r w} (h : pop l k = some (v, r)) (hn : (l.map (·.1)).Nodup)
    (hm : (k, w) ∈ l) : w = v := by
  obtain ⟨l1, l2, h1, h2, h3⟩ := pop_some h
  subst h1 h2
  simp [List.nodup_append] at hn
  simp at hm
  rcases hm with hm | hm | hm
  · exact absurd rfl (h3 _ hm)
  · exact hm
  · exact absurd hm (hn.2.1.1 w)

/-! ### one case analysis of `step`, used by every invariant -/

inductive StepRel (c : C) : Op → C → List Val → Prop
  | refresh {op : Op} {k : Key} {v : Val} {rest : Items} (hp : pop c.items k = some (v, rest))
      (hop : touches op = some k) (hins : inserted [op] = []) :
      StepRel c op { c with items := rest ++ [(k, v)] } []
  | replace {k : Key} {v old : Val} {rest : Items} (hp : pop c.items k = some (old, rest)) :
      StepRel c (.set k v) { c with items := rest ++ [(k, v)] } [old]
  | same {op : Op} (hins : inserted [op] = []) (hmiss : ∀ k, touches op = some k → pop c.items k = none) :
      StepRel c op c []
  | insert {k : Key} {v : Val} (hp : pop c.items k = none) (hle : c.items.length + 1 ≤ c.cap) :
      StepRel c (.set k v) { c with items := c.items ++ [(k, v)] } []
  | evict {k : Key} {v : Val} {ek : Key} {ev : Val} {rest : Items} (hp : pop c.items k = none)
      (hgt : c.cap < c.items.length + 1) (he : c.items ++ [(k, v)] = (ek, ev) :: rest) :
      StepRel c (.set k v) { c with items := rest } [ev]
  | delete {k : Key} {v : Val} {rest : Items} (hp : pop c.items k = some (v, rest)) :
      StepRel c (.del k) { c with items := rest } [v]
  | clear : StepRel c .clear { c with items := [] } (c.items.map (·.2))

theorem step_rel (c : C) (op : Op) : StepRel c op (step c op).1 (step c op).2.2 := by
  cases op with
  | get k =>
    simp only [step, touch]
    cases hp : pop c.items k with
    | none => exact .same rfl (by intro k' hk; simp [touches] at hk; subst hk; exact hp)
    | some x => obtain ⟨v, rest⟩ := x; exact .refresh hp rfl rfl
  | has k =>
    simp only [step, touch]
    cases hp : pop c.items k with
    | none => exact .same rfl (by intro k' hk; simp [touches] at hk; subst hk; exact hp)
    | some x => obtain ⟨v, rest⟩ := x; exact .refresh hp rfl rfl
  | mget k =>
    simp only [step, touch]
    cases hp : pop c.items k with
    | none => exact .same rfl (by intro k' hk; simp [touches] at hk; subst hk; exact hp)
    | some x => obtain ⟨v, rest⟩ := x; exact .refresh hp rfl rfl
  | set k v =>
    simp only [step]
    cases hp : pop c.items k with
    | some x => obtain ⟨old, rest⟩ := x; exact .replace hp
    | none =>
      simp only []
      split
      · rename_i hgt
        split
        · rename_i hnil
          simp at hnil
        · rename_i ek ev rest he
          exact .evict hp (by simp at hgt; omega) he
      · rename_i hle
        exact .insert hp (by simp at hle; omega)
  | del k =>
    simp only [step]
    cases hp : pop c.items k with
    | none => exact .same rfl (by intro k' hk; simp [touches] at hk)
    | some x => obtain ⟨v, rest⟩ := x; exact .delete hp
  | clear => exact .clear
  | len => exact .same rfl (by intro k' hk; simp [touches] at hk)
  | keys => exact .same rfl (by intro k' hk; simp [touches] at hk)

/-- the `popitem()` on an empty dict branch of `__setitem__` is never taken -/
theorem set_popitem_total (c : C) (k : Key) (v : Val) : (step c (.set k v)).2.1 = .unit := by
  simp only [step]
  cases hp : pop c.items k with
  | some x => rfl
  | none =>
    simp only []
    split
    · split
      · rename_i hnil; simp at hnil
      · rfl
    · rfl

theorem StepRel.cap {c c' : C} {op : Op} {ds : List Val} (h : StepRel c op c' ds) : c'.cap = c.cap := by
  cases h <;> rfl

theorem step_cap (c : C) (op : Op) : (step c op).1.cap = c.cap := (step_rel c op).cap

/-! ### the four sequential invariants, one step -/

theorem StepRel.bounded {c c' : C} {op : Op} {ds : List Val} (hr : StepRel c op c' ds)
    (h : c.items.length ≤ c.cap) : c'.items.length ≤ c.cap := by
  cases hr with
  | refresh hp _ _ => have := pop_length hp; simp; omega
  | replace hp => have := pop_length hp; simp; omega
  | same _ _ => exact h
  | insert hp hle => simp; omega
  | evict hp hgt he =>
    have := congrArg List.length he
    simp at this ⊢; omega
  | delete hp => have := pop_length hp; simp; omega
  | clear => simp

theorem StepRel.nodup {c c' : C} {op : Op} {ds : List Val} (hr : StepRel c op c' ds)
    (h : (c.items.map (·.1)).Nodup) : (c'.items.map (·.1)).Nodup := by
  cases hr with
  | refresh hp _ _ =>
    have := pop_nodup hp h
    simp [List.nodup_append]; grind
  | replace hp =>
    have := pop_nodup hp h
    simp [List.nodup_append]; grind
  | same _ _ => exact h
  | insert hp hle =>
    have := pop_none hp
    simp [List.nodup_append]; grind
  | evict hp hgt he =>
    rename_i k v ek ev rest
    have hn : ((c.items ++ [(k, v)]).map (·.1)).Nodup := by
      have := pop_none hp
      simp [List.nodup_append]; grind
    rw [he] at hn
    simp at hn ⊢
    exact hn.2
  | delete hp => exact (pop_nodup hp h).1
  | clear => simp

theorem StepRel.conserve {c c' : C} {op : Op} {ds : List Val} (hr : StepRel c op c' ds) :
    (c.items.map (·.2) ++ inserted [op]).Perm (c'.items.map (·.2) ++ ds) := by
  cases hr with
  | refresh hp _ hins =>
    rw [hins]
    have := (pop_perm hp).map (·.2)
    simp at this ⊢
    exact this.trans (List.perm_append_singleton _ _).symm
  | replace hp =>
    rename_i k v old rest
    have := (pop_perm hp).map (·.2)
    simp [inserted] at this ⊢
    -- items.map snd ++ [v]  ~  rest.map snd ++ [v, old]
    have h2 : (List.map (·.2) c.items ++ [v]).Perm ((old :: List.map (·.2) rest) ++ [v]) :=
      List.Perm.append_right _ this
    refine h2.trans ?_
    simp
    have h3 : (old :: (List.map (·.2) rest ++ [v])).Perm ((List.map (·.2) rest ++ [v]) ++ [old]) :=
      (List.perm_append_singleton _ _).symm
    simpa using h3
  | same hins _ => rw [hins]
  | insert hp hle => simp [inserted]
  | evict hp hgt he =>
    have := congrArg (List.map (·.2)) he
    simp [inserted] at this ⊢
    rw [this]
    exact (List.perm_append_singleton _ _).symm
  | delete hp =>
    have := (pop_perm hp).map (·.2)
    simp [inserted] at this ⊢
    exact this.trans (List.perm_append_singleton _ _).symm
  | clear => simp [inserted]

/-! ### recency order = order of last touches -/

/-- the list order is the order of the last touches, and every stamp is in the past -/
def Recency (l : Items) (last : Key → Nat) (clock : Nat) : Prop :=
  l.Pairwise (fun a b => last a.1 < last b.1) ∧ ∀ a ∈ l, last a.1 < clock

theorem recency_snoc {l : Items} {last : Key → Nat} {clock : Nat} {k : Key} (v : Val)
    (h : Recency l last clock) (hk : ∀ a ∈ l, a.1 ≠ k) :
    Recency (l ++ [(k, v)]) (fun k' => if k' = k then clock else last k') (clock + 1) := by
  obtain ⟨hp, hb⟩ := h
  refine ⟨?_, ?_⟩
  · rw [List.pairwise_append]
    refine ⟨?_, by simp, ?_⟩
    · refine hp.imp_of_mem ?_
      intro a b ha hb' hab
      simp [hk a ha, hk b hb', hab]
    · intro a ha b hb'
      simp at hb'
      subst hb'
      simp [hk a ha, hb a ha]
  · intro a ha
    simp at ha
    rcases ha with ha | rfl
    · simp [hk a ha]; have := hb a ha; omega
    · simp

theorem recency_sublist {l l' : Items} {last : Key → Nat} {clock : Nat} (h : Recency l last clock)
    (hs : l'.Sublist l) : Recency l' last clock :=
  ⟨h.1.sublist hs, fun a ha => h.2 a (hs.subset ha)⟩

theorem recency_mono {l : Items} {last : Key → Nat} {clock : Nat} (h : Recency l last clock) :
    Recency l last (clock + 1) :=
  ⟨h.1, fun a ha => Nat.lt_succ_of_lt (h.2 a ha)⟩

theorem recency_congr {l : Items} {last last' : Key → Nat} {clock : Nat} (h : Recency l last clock)
    (he : ∀ a ∈ l, last' a.1 = last a.1) : Recency l last' clock := by
  refine ⟨h.1.imp_of_mem ?_, ?_⟩
  · intro a b ha hb hab; rw [he a ha, he b hb]; exact hab
  · intro a ha; rw [he a ha]; exact h.2 a ha

theorem StepRel.recency {c c' : C} {op : Op} {ds : List Val} (hr : StepRel c op c' ds) {s : Stamps}
    (hn : (c.items.map (·.1)).Nodup) (h : Recency c.items s.last s.clock) :
    Recency c'.items (stampStep s op).last (stampStep s op).clock := by
  cases hr with
  | refresh hp hop hins =>
    rename_i k v rest
    have hk : ∀ a ∈ rest, a.1 ≠ k := by
      have := (pop_nodup hp hn).2
      intro a ha hak; exact this (by simp; exact ⟨a.2, by rw [← hak]; exact ha⟩)
    simp only [stampStep, hop]
    exact recency_snoc v (recency_sublist h (pop_sublist hp)) hk
  | replace hp =>
    rename_i k v old rest
    have hk : ∀ a ∈ rest, a.1 ≠ k := by
      have := (pop_nodup hp hn).2
      intro a ha hak; exact this (by simp; exact ⟨a.2, by rw [← hak]; exact ha⟩)
    simp only [stampStep, touches]
    exact recency_snoc v (recency_sublist h (pop_sublist hp)) hk
  | same _ hmiss =>
    simp only [stampStep]
    cases ht : touches op with
    | none => exact recency_mono h
    | some k =>
      have hk := pop_none (hmiss k ht)
      refine recency_mono (recency_congr h ?_)
      intro a ha; simp [hk a ha]
  | insert hp hle =>
    rename_i k v
    simp only [stampStep, touches]
    exact recency_snoc v h (pop_none hp)
  | evict hp hgt he =>
    rename_i k v ek ev rest
    simp only [stampStep, touches]
    have := recency_snoc v h (pop_none hp)
    rw [he] at this
    exact recency_sublist this (List.sublist_cons_self _ _)
  | delete hp =>
    simp only [stampStep, touches]
    exact recency_mono (recency_sublist h (pop_sublist hp))
  | clear => exact ⟨by simp, by simp⟩

theorem step_set_evict {c : C} {k : Key} (v : Val) (hp : pop c.items k = none) (hfull : c.cap ≤ c.items.length) :
    ∃ ek ev rest, c.items ++ [(k, v)] = (ek, ev) :: rest ∧
      step c (.set k v) = ({ c with items := rest }, .unit, [ev]) := by
  cases hi : c.items with
  | nil =>
    refine ⟨k, v, [], by simp, ?_⟩
    have : c.cap = 0 := by simp [hi] at hfull; exact hfull
    rw [hi] at hp
    simp [step, hp, hi, this]
  | cons a t =>
    obtain ⟨ek, ev⟩ := a
    refine ⟨ek, ev, t ++ [(k, v)], by simp, ?_⟩
    have : c.cap < t.length + 1 + 1 := by simp [hi] at hfull; omega
    rw [hi] at hp
    simp [step, hp, hi, this]

/-! ### lifting to op sequences -/

theorem run_cap (c : C) (ops : List Op) : (run c ops).c.cap = c.cap := by
  induction ops generalizing c with
  | nil => rfl
  | cons op ops ih => simp [run, ih, step_cap]

theorem run_bounded (c : C) (ops : List Op) (h : c.items.length ≤ c.cap) :
    (run c ops).c.items.length ≤ c.cap := by
  induction ops generalizing c with
  | nil => exact h
  | cons op ops ih =>
    simp only [run]
    have := ih (step c op).1 (by rw [step_cap]; exact (step_rel c op).bounded h)
    rwa [step_cap] at this

theorem run_nodup (c : C) (ops : List Op) (h : (c.items.map (·.1)).Nodup) :
    ((run c ops).c.items.map (·.1)).Nodup := by
  induction ops generalizing c with
  | nil => exact h
  | cons op ops ih => exact ih _ ((step_rel c op).nodup h)

theorem inserted_cons (op : Op) (ops : List Op) : inserted (op :: ops) = inserted [op] ++ inserted ops := by
  cases op <;> simp [inserted]

theorem run_conserve (c : C) (ops : List Op) :
    (c.items.map (·.2) ++ inserted ops).Perm ((run c ops).c.items.map (·.2) ++ (run c ops).disposed) := by
  induction ops generalizing c with
  | nil => simp [run, inserted]
  | cons op ops ih =>
    simp only [run]
    rw [inserted_cons]
    have h1 := (step_rel c op).conserve
    have h2 := ih (step c op).1
    -- items ++ ins op ++ ins ops ~ (items' ++ ds) ++ ins ops ~ items' ++ ins ops ++ ds ~ final ++ disp ++ ds
    have h3 : (c.items.map (·.2) ++ (inserted [op] ++ inserted ops)).Perm
        (((step c op).1.items.map (·.2) ++ (step c op).2.2) ++ inserted ops) := by
      rw [← List.append_assoc]; exact List.Perm.append_right _ h1
    refine h3.trans ?_
    have h4 : (((step c op).1.items.map (·.2) ++ (step c op).2.2) ++ inserted ops).Perm
        ((step c op).2.2 ++ ((step c op).1.items.map (·.2) ++ inserted ops)) := by
      rw [← List.append_assoc]
      exact List.Perm.append_right _ List.perm_append_comm
    refine h4.trans ?_
    refine (List.Perm.append_left _ h2).trans ?_
    rw [← List.append_assoc, ← List.append_assoc]
    exact List.Perm.append_right _ List.perm_append_comm

theorem run_recency (c : C) (s : Stamps) (ops : List Op) (hn : (c.items.map (·.1)).Nodup)
    (h : Recency c.items s.last s.clock) :
    Recency (run c ops).c.items (stamps s ops).last (stamps s ops).clock := by
  induction ops generalizing c s with
  | nil => exact h
  | cons op ops ih =>
    simp only [run, stamps, List.foldl_cons]
    exact ih _ _ ((step_rel c op).nodup hn) ((step_rel c op).recency hn h)

theorem run_append (c : C) (a b : List Op) :
    run c (a ++ b) = { c := (run (run c a).c b).c, outs := (run c a).outs ++ (run (run c a).c b).outs,
                       disposed := (run c a).disposed ++ (run (run c a).c b).disposed } := by
  induction a generalizing c with
  | nil => simp [run]
  | cons op a ih => simp [run, ih]

end U3.Lru

/-! ## Interleaving semantics -/
namespace U3.Conc
open U3.Lru (Val)

variable {S O R : Type}

/-- the five kinds of scheduling steps -/
inductive TRel (stepf : S → O → S × R × List Val) (cfg : Cfg S O R) (i : Nat) : Cfg S O R → Prop
  | stutter : TRel stepf cfg i cfg
  | dispose {t : Thread O R} {v : Val} {rest : List Val} (ht : cfg.threads[i]? = some t) (hp : t.pend = v :: rest) :
      TRel stepf cfg i { cfg with threads := cfg.threads.set i { t with pend := rest }, log := cfg.log ++ [(i, v)] }
  | release {t : Thread O R} (ht : cfg.threads[i]? = some t) (hp : t.pend = []) (hph : t.phase = .locked)
      (htodo : t.todo = []) :
      TRel stepf cfg i { cfg with threads := cfg.threads.set i { t with phase := .idle }, owner := none }
  | body {t : Thread O R} {op : O} {rest : List O} (ht : cfg.threads[i]? = some t) (hp : t.pend = [])
      (hph : t.phase = .locked) (htodo : t.todo = op :: rest) :
      TRel stepf cfg i
        { cfg with st := (stepf cfg.st op).1,
                   threads := cfg.threads.set i
                     { todo := rest, phase := .idle, pend := (stepf cfg.st op).2.2,
                       results := t.results ++ [(stepf cfg.st op).2.1] },
                   owner := none,
                   hist := cfg.hist ++ [(i, op)] }
  | acquire {t : Thread O R} (ht : cfg.threads[i]? = some t) (hp : t.pend = []) (hph : t.phase = .idle)
      (htodo : t.todo ≠ []) (hfree : cfg.owner = none) :
      TRel stepf cfg i { cfg with threads := cfg.threads.set i { t with phase := .locked }, owner := some i }

theorem getElem?_set_cases {α : Type} {l : List α} {i j : Nat} {a u : α} (h : (l.set i a)[j]? = some u) :
    (j = i ∧ u = a) ∨ (j ≠ i ∧ l[j]? = some u) := by
  by_cases hij : i = j
  · subst hij
    left
    rw [List.getElem?_set] at h
    simp at h
    exact ⟨rfl, h.2.symm⟩
  · right
    rw [List.getElem?_set] at h
    simp [hij] at h
    exact ⟨fun h' => hij h'.symm, h⟩

theorem tstep_rel (stepf : S → O → S × R × List Val) (cfg : Cfg S O R) (i : Nat) :
    TRel stepf cfg i (tstep stepf cfg i) := by
  unfold tstep
  cases ht : cfg.threads[i]? with
  | none => exact .stutter
  | some t =>
    obtain ⟨todo, phase, pend, results⟩ := t
    simp only []
    cases pend with
    | cons v rest => exact .dispose ht rfl
    | nil =>
      simp only []
      cases phase with
      | locked =>
        simp only []
        cases todo with
        | nil => exact .release ht rfl rfl rfl
        | cons op rest => exact .body ht rfl rfl rfl
      | idle =>
        simp only []
        cases todo with
        | nil => exact .stutter
        | cons op rest =>
          simp only []
          split
          · rename_i hfree
            exact .acquire ht rfl rfl (by simp) (by simpa using hfree)
          · exact .stutter

/-- generic induction over schedules -/
theorem exec_induction (stepf : S → O → S × R × List Val) (P : Cfg S O R → Prop)
    (hstep : ∀ cfg i cfg', P cfg → TRel stepf cfg i cfg' → P cfg') (cfg : Cfg S O R) (σ : List Nat)
    (h0 : P cfg) : P (exec stepf cfg σ) := by
  induction σ generalizing cfg with
  | nil => exact h0
  | cons i σ ih =>
    simp only [exec, List.foldl_cons]
    exact ih _ (hstep _ _ _ h0 (tstep_rel stepf cfg i))

/-! ### the lock -/

/-- the lock is owned by exactly the thread in phase `locked`, and a thread inside the lock has no
pending dispose calls -/
def LockInv (cfg : Cfg S O R) : Prop :=
  (∀ i, cfg.owner = some i → ∃ t, cfg.threads[i]? = some t ∧ t.phase = .locked) ∧
  (∀ i t, cfg.threads[i]? = some t → t.phase = .locked → cfg.owner = some i ∧ t.pend = [])

theorem LockInv.init (s : S) (progs : List (List O)) : LockInv (Cfg.init s progs : Cfg S O R) := by
  refine ⟨by simp [Cfg.init], ?_⟩
  intro i t ht hph
  simp [Cfg.init] at ht
  obtain ⟨p, _, rfl⟩ := ht
  simp [Thread.init] at hph

theorem LockInv.step {stepf : S → O → S × R × List Val} {cfg cfg' : Cfg S O R} {i : Nat}
    (h : LockInv cfg) (hr : TRel stepf cfg i cfg') : LockInv cfg' := by
  obtain ⟨h1, h2⟩ := h
  cases hr with
  | stutter => exact ⟨h1, h2⟩
  | dispose ht hp =>
    rename_i t v rest
    have hnl : t.phase ≠ .locked := by
      intro hl; have := (h2 i t ht hl).2; simp [hp] at this
    refine ⟨?_, ?_⟩
    · intro j hj
      obtain ⟨u, hu, hul⟩ := h1 j hj
      have hji : j ≠ i := by rintro rfl; rw [ht] at hu; cases hu; exact hnl hul
      exact ⟨u, by simp [Ne.symm hji, hu], hul⟩
    · intro j u hu hul
      rcases getElem?_set_cases hu with ⟨rfl, rfl⟩ | ⟨_, hu'⟩
      · exact absurd hul hnl
      · exact h2 j u hu' hul
  | release ht hp hph htodo =>
    rename_i t
    have hown := (h2 i t ht hph).1
    refine ⟨by simp, ?_⟩
    intro j u hu hul
    rcases getElem?_set_cases hu with ⟨rfl, rfl⟩ | ⟨hji, hu'⟩
    · simp at hul
    · have := (h2 j u hu' hul).1
      rw [hown] at this; cases this; exact absurd rfl hji
  | body ht hp hph htodo =>
    rename_i t op rest
    have hown := (h2 i t ht hph).1
    refine ⟨by simp, ?_⟩
    intro j u hu hul
    rcases getElem?_set_cases hu with ⟨rfl, rfl⟩ | ⟨hji, hu'⟩
    · simp at hul
    · have := (h2 j u hu' hul).1
      rw [hown] at this; cases this; exact absurd rfl hji
  | acquire ht hp hph htodo hfree =>
    rename_i t
    have hlen : i < cfg.threads.length := by
      rcases Nat.lt_or_ge i cfg.threads.length with h | h
      · exact h
      · simp [List.getElem?_eq_none h] at ht
    refine ⟨?_, ?_⟩
    · intro j hj
      simp at hj; subst hj
      exact ⟨{ t with phase := .locked }, by simp [hlen], rfl⟩
    · intro j u hu hul
      rcases getElem?_set_cases hu with ⟨rfl, rfl⟩ | ⟨_, hu'⟩
      · exact ⟨rfl, hp⟩
      · have := (h2 j u hu' hul).1
        rw [hfree] at this; cases this

theorem lockInv_exec (stepf : S → O → S × R × List Val) (s : S) (progs : List (List O)) (σ : List Nat) :
    LockInv (exec stepf (Cfg.init s progs) σ) :=
  exec_induction stepf LockInv (fun _ _ _ h hr => h.step hr) _ σ (LockInv.init s progs)

theorem action_dispose_iff {cfg : Cfg S O R} {i : Nat} :
    action cfg i = .dispose ↔ ∃ t, cfg.threads[i]? = some t ∧ t.pend ≠ [] := by
  unfold action
  cases ht : cfg.threads[i]? with
  | none => simp
  | some t =>
    simp only []
    cases hp : t.pend with
    | cons v rest => simp [hp]
    | nil =>
      simp only []
      cases t.phase <;> simp [hp]
      cases t.todo <;> simp
      split <;> simp

theorem action_body_iff {cfg : Cfg S O R} {i : Nat} :
    action cfg i = .body ↔ ∃ t, cfg.threads[i]? = some t ∧ t.pend = [] ∧ t.phase = .locked := by
  unfold action
  cases ht : cfg.threads[i]? with
  | none => simp
  | some t =>
    obtain ⟨todo, phase, pend, results⟩ := t
    cases pend with
    | cons v rest => simp
    | nil =>
      cases phase with
      | locked => simp
      | idle =>
        cases todo with
        | nil => simp
        | cons op rest => simp only []; split <;> simp

/-! ### linearizability: the concurrent execution equals the sequential one in lock order -/

theorem map_set_same {α β : Type} {l : List α} {i : Nat} {t : α} (f : α → β) (a : α) (ht : l[i]? = some t)
    (hf : f a = f t) : (l.set i a).map f = l.map f := by
  apply List.ext_getElem?
  intro j
  by_cases hij : i = j
  · subst hij
    simp [List.getElem?_set, ht]
    exact ⟨(List.getElem?_eq_some_iff.mp ht).1, hf⟩
  · simp [hij]

theorem flatten_set_cons {L : List (List Val)} {i : Nat} {v : Val} {rest : List Val}
    (h : L[i]? = some (v :: rest)) : L.flatten.Perm (v :: (L.set i rest).flatten) := by
  induction L generalizing i with
  | nil => simp at h
  | cons x xs ih =>
    cases i with
    | zero => simp at h; subst h; simp
    | succ i =>
      simp at h
      have := ih h
      simp
      exact (List.Perm.append_left x this).trans List.perm_middle

theorem flatten_set_nil {L : List (List Val)} {i : Nat} (ds : List Val)
    (h : L[i]? = some []) : (L.set i ds).flatten.Perm (ds ++ L.flatten) := by
  induction L generalizing i with
  | nil => simp at h
  | cons x xs ih =>
    cases i with
    | zero => simp at h; subst h; simp
    | succ i =>
      simp at h
      have := ih h
      simp
      refine (List.Perm.append_left x this).trans ?_
      rw [← List.append_assoc, ← List.append_assoc]
      exact List.Perm.append_right _ List.perm_append_comm

def pending (cfg : Cfg S O R) : List Val := (cfg.threads.map (·.pend)).flatten

theorem seqRun_snoc (stepf : S → O → S × R × List Val) (s : S) (n : Nat) (h : List (Nat × O)) (e : Nat × O) :
    seqRun stepf s n (h ++ [e]) = seqStep stepf (seqRun stepf s n h) e := by
  simp [seqRun, List.foldl_append]

structure LinInv (stepf : S → O → S × R × List Val) (s0 : S) (n : Nat) (cfg : Cfg S O R) : Prop where
  st : cfg.st = (seqRun stepf s0 n cfg.hist).st
  res : cfg.threads.map (·.results) = (seqRun stepf s0 n cfg.hist).results
  disp : (cfg.log.map (·.2) ++ pending cfg).Perm (seqRun stepf s0 n cfg.hist).disposed

theorem LinInv.init (stepf : S → O → S × R × List Val) (s : S) (progs : List (List O)) :
    LinInv stepf s progs.length (Cfg.init s progs : Cfg S O R) := by
  refine ⟨rfl, ?_, ?_⟩
  · simp [Cfg.init, seqRun, Seq.init, Thread.init, Function.comp_def]
    exact List.map_const'
  · simp [Cfg.init, seqRun, Seq.init, Thread.init, pending, Function.comp_def]

theorem LinInv.step {stepf : S → O → S × R × List Val} {s0 : S} {n : Nat} {cfg cfg' : Cfg S O R} {i : Nat}
    (h : LinInv stepf s0 n cfg) (hr : TRel stepf cfg i cfg') : LinInv stepf s0 n cfg' := by
  obtain ⟨h1, h2, h3⟩ := h
  cases hr with
  | stutter => exact ⟨h1, h2, h3⟩
  | dispose ht hp =>
    rename_i t v rest
    refine ⟨h1, ?_, ?_⟩
    · refine (map_set_same (·.results) _ ht ?_).trans h2; rfl
    · simp only [pending, List.map_set, List.map_append, List.map_cons, List.map_nil]
      have hL : (cfg.threads.map (·.pend))[i]? = some (v :: rest) := by simp [ht, hp]
      have := flatten_set_cons hL
      refine List.Perm.trans ?_ h3
      simp only [pending]
      rw [List.append_assoc]
      exact List.Perm.append_left _ this.symm
  | release ht hp hph htodo =>
    rename_i t
    refine ⟨h1, ?_, ?_⟩
    · refine (map_set_same (·.results) _ ht ?_).trans h2; rfl
    · simp only [pending]; rw [map_set_same (·.pend) _ ht (by rfl)]; exact h3
  | body ht hp hph htodo =>
    rename_i t op rest
    refine ⟨?_, ?_, ?_⟩ <;> dsimp only <;> simp only [seqRun_snoc, seqStep]
    · rw [h1]
    · simp only [List.map_set]
      rw [← h2, ← h1]
      simp [ht]
    · simp only [pending, List.map_set]
      have hL : (cfg.threads.map (·.pend))[i]? = some [] := by simp [ht, hp]
      have := flatten_set_nil (stepf cfg.st op).2.2 hL
      rw [← h1]
      refine (List.Perm.append_left _ this).trans ?_
      rw [← List.append_assoc]
      refine (List.Perm.append_right _ List.perm_append_comm).trans ?_
      rw [List.append_assoc]
      refine List.perm_append_comm.trans ?_
      exact List.Perm.append_right _ h3
  | acquire ht hp hph htodo hfree =>
    rename_i t
    refine ⟨h1, ?_, ?_⟩
    · refine (map_set_same (·.results) _ ht ?_).trans h2; rfl
    · simp only [pending]; rw [map_set_same (·.pend) _ ht (by rfl)]; exact h3

theorem linInv_exec (stepf : S → O → S × R × List Val) (s : S) (progs : List (List O)) (σ : List Nat) :
    LinInv stepf s progs.length (exec stepf (Cfg.init s progs) σ) :=
  exec_induction stepf _ (fun _ _ _ h hr => h.step hr) _ σ (LinInv.init stepf s progs)

/-! ### program order: the history is the interleaving of the programs chosen by the lock order -/

theorem histOf_snoc (progs : List (List O)) (τ : List Nat) (i : Nat) :
    histOf progs (τ ++ [i]) = histOf progs τ ++
      (match (restOf progs τ)[i]? with | some (op :: _) => [(i, op)] | _ => []) := by
  induction τ generalizing progs with
  | nil =>
    simp only [List.nil_append, histOf, restOf]
    split <;> simp [*]
  | cons j τ ih =>
    simp only [List.cons_append, histOf, restOf]
    split <;> simp [ih]

theorem restOf_snoc (progs : List (List O)) (τ : List Nat) (i : Nat) :
    restOf progs (τ ++ [i]) =
      (match (restOf progs τ)[i]? with
       | some (_ :: rest) => (restOf progs τ).set i rest
       | _ => restOf progs τ) := by
  induction τ generalizing progs with
  | nil =>
    simp only [List.nil_append, restOf]
    split <;> simp [*]
  | cons j τ ih =>
    simp only [List.cons_append, restOf]
    split <;> simp [ih]

structure OrdInv (progs : List (List O)) (cfg : Cfg S O R) : Prop where
  hist : cfg.hist = histOf progs (cfg.hist.map (·.1))
  todo : cfg.threads.map (·.todo) = restOf progs (cfg.hist.map (·.1))

theorem OrdInv.init (s : S) (progs : List (List O)) : OrdInv progs (Cfg.init s progs : Cfg S O R) := by
  refine ⟨by simp [Cfg.init, histOf], ?_⟩
  simp [Cfg.init, restOf, Thread.init, Function.comp_def]

theorem OrdInv.step {stepf : S → O → S × R × List Val} {progs : List (List O)} {cfg cfg' : Cfg S O R} {i : Nat}
    (h : OrdInv progs cfg) (hr : TRel stepf cfg i cfg') : OrdInv progs cfg' := by
  obtain ⟨h1, h2⟩ := h
  cases hr with
  | stutter => exact ⟨h1, h2⟩
  | dispose ht hp => refine ⟨h1, ?_⟩; refine (map_set_same (·.todo) _ ht ?_).trans h2; rfl
  | release ht hp hph htodo => refine ⟨h1, ?_⟩; refine (map_set_same (·.todo) _ ht ?_).trans h2; rfl
  | acquire ht hp hph htodo hfree => refine ⟨h1, ?_⟩; refine (map_set_same (·.todo) _ ht ?_).trans h2; rfl
  | body ht hp hph htodo =>
    rename_i t op rest
    have hi : (restOf progs (cfg.hist.map (·.1)))[i]? = some (op :: rest) := by
      rw [← h2]; simp [ht, htodo]
    refine ⟨?_, ?_⟩ <;> dsimp only <;> simp only [List.map_append, List.map_cons, List.map_nil]
    · rw [histOf_snoc, hi, ← h1]
    · rw [restOf_snoc, hi, List.map_set, h2]

theorem ordInv_exec (stepf : S → O → S × R × List Val) (s : S) (progs : List (List O)) (σ : List Nat) :
    OrdInv progs (exec stepf (Cfg.init s progs) σ) :=
  exec_induction stepf _ (fun _ _ _ h hr => h.step hr) _ σ (OrdInv.init s progs)

theorem done_iff {cfg : Cfg S O R} : cfg.done = true ↔
    ∀ t ∈ cfg.threads, t.todo = [] ∧ t.pend = [] ∧ t.phase = .idle := by
  simp [Cfg.done, List.all_eq_true, and_assoc]

theorem pending_done {cfg : Cfg S O R} (h : cfg.done = true) : pending cfg = [] := by
  rw [done_iff] at h
  simp only [pending, List.flatten_eq_nil_iff, List.mem_map]
  rintro l ⟨t, ht, rfl⟩
  exact (h t ht).2.1

theorem todo_done {cfg : Cfg S O R} (h : cfg.done = true) : (cfg.threads.map (·.todo)).all List.isEmpty = true := by
  rw [done_iff] at h
  simp only [List.all_eq_true, List.mem_map]
  rintro l ⟨t, ht, rfl⟩
  simp [(h t ht).1]

end U3.Conc

/-! ## sequential run in lock order = `Lru.run` -/
namespace U3.Lru
open U3.Conc

theorem seqFold_eq_run (h : List (Nat × Op)) (q : Seq C Out) :
    (h.foldl (seqStep Lru.step) q).st = (run q.st (h.map (·.2))).c ∧
    (h.foldl (seqStep Lru.step) q).disposed = q.disposed ++ (run q.st (h.map (·.2))).disposed := by
  induction h generalizing q with
  | nil => simp [run]
  | cons e h ih =>
    simp only [List.foldl_cons, List.map_cons, run]
    obtain ⟨h1, h2⟩ := ih (seqStep Lru.step q e)
    refine ⟨by rw [h1]; rfl, ?_⟩
    rw [h2]; simp [seqStep]

theorem seqRun_eq_run (c : C) (n : Nat) (h : List (Nat × Op)) :
    (seqRun Lru.step c n h).st = (run c (h.map (·.2))).c ∧
    (seqRun Lru.step c n h).disposed = (run c (h.map (·.2))).disposed := by
  have := seqFold_eq_run h (Seq.init c n)
  simpa [seqRun, Seq.init] using this

theorem StepRel.mem {c c' : C} {op : Op} {ds : List Val} (hr : StepRel c op c' ds) {a : Key × Val}
    (ha : a ∈ c'.items) : a ∈ c.items ∨ ∃ k v, op = .set k v ∧ a = (k, v) := by
  cases hr with
  | refresh hp hop hins =>
    simp at ha
    rcases ha with ha | rfl
    · exact .inl ((pop_sublist hp).subset ha)
    · exact .inl (pop_mem hp)
  | replace hp =>
    simp at ha
    rcases ha with ha | rfl
    · exact .inl ((pop_sublist hp).subset ha)
    · exact .inr ⟨_, _, rfl, rfl⟩
  | same _ _ => exact .inl ha
  | insert hp hle =>
    simp at ha
    rcases ha with ha | rfl
    · exact .inl ha
    · exact .inr ⟨_, _, rfl, rfl⟩
  | evict hp hgt he =>
    rename_i k v ek ev rest
    have : a ∈ c.items ++ [(k, v)] := by rw [he]; exact List.mem_cons_of_mem _ ha
    simp at this
    rcases this with ha | rfl
    · exact .inl ha
    · exact .inr ⟨_, _, rfl, rfl⟩
  | delete hp => exact .inl ((pop_sublist hp).subset ha)
  | clear => simp at ha

theorem keys_unique {l : Items} (hn : (l.map (·.1)).Nodup) {k : Key} {p q : Val}
    (hp : (k, p) ∈ l) (hq : (k, q) ∈ l) : p = q := by
  induction l with
  | nil => simp at hp
  | cons a t ih =>
    simp at hn hp hq
    rcases hp with rfl | hp <;> rcases hq with hq | hq
    · cases hq; rfl
    · exact absurd hq (hn.1 _ )
    · subst hq; exact absurd hp (hn.1 _)
    · exact ih hn.2 hp hq

end U3.Lru

namespace U3.Mgr
open U3.Lru

theorem stepM_goc (m : M) (k : Key) :
    (∃ p rest, pop m.cache.items k = some (p, rest) ∧
      stepM m (.goc k) = ({ m with cache := { m.cache with items := rest ++ [(k, p)] }, refs := p :: m.refs },
                          .pool p false, [])) ∨
    (pop m.cache.items k = none ∧
      stepM m (.goc k) =
        ({ m with cache := (Lru.step m.cache (.set k m.next)).1, next := m.next + 1, refs := m.next :: m.refs,
                  dropped := m.dropped ++ (Lru.step m.cache (.set k m.next)).2.2 }, .pool m.next true, [])) := by
  cases hp : pop m.cache.items k with
  | some x =>
    obtain ⟨p, rest⟩ := x
    left
    exact ⟨p, rest, rfl, by simp [stepM, Lru.step, touch, hp]⟩
  | none =>
    right
    refine ⟨rfl, ?_⟩
    have := set_popitem_total m.cache k m.next
    simp [stepM, Lru.step, touch, hp] at this ⊢
    simp [this]

def KeysNodup (m : M) : Prop := (m.cache.items.map (·.1)).Nodup

theorem stepM_nodup {m : M} (op : MOp) (h : KeysNodup m) : KeysNodup (stepM m op).1 := by
  cases op with
  | goc k =>
    rcases stepM_goc m k with ⟨p, rest, hp, hs⟩ | ⟨hp, hs⟩
    · rw [hs]
      have := (step_rel m.cache (.get k)).nodup h
      simpa [KeysNodup, Lru.step, touch, hp] using this
    · rw [hs]; exact (step_rel m.cache (.set k m.next)).nodup h
  | clear => simp [stepM, KeysNodup, Lru.step]
  | release p => exact h
  | gc => exact h
  | len => exact h

theorem runM_nodup (m : M) (ops : List MOp) (h : KeysNodup m) : KeysNodup (runM m ops) := by
  induction ops generalizing m with
  | nil => exact h
  | cons op ops ih => exact ih _ (stepM_nodup op h)

/-- an entry of the cache after a step was there before, or is the pool just created for a missing key -/
theorem stepM_mem {m : M} {op : MOp} {a : Key × Val} (ha : a ∈ (stepM m op).1.cache.items) :
    a ∈ m.cache.items ∨ ∃ k, op = .goc k ∧ pop m.cache.items k = none ∧ a = (k, m.next) := by
  cases op with
  | goc k =>
    rcases stepM_goc m k with ⟨p, rest, hp, hs⟩ | ⟨hp, hs⟩
    · rw [hs] at ha
      simp at ha
      rcases ha with ha | rfl
      · exact .inl ((pop_sublist hp).subset ha)
      · exact .inl (pop_mem hp)
    · rw [hs] at ha
      rcases (step_rel m.cache (.set k m.next)).mem ha with h | ⟨k', v, he, rfl⟩
      · exact .inl h
      · cases he; exact .inr ⟨_, rfl, hp, rfl⟩
  | clear => simp [stepM, Lru.step] at ha
  | release p => exact .inl ha
  | gc => exact .inl ha
  | len => exact .inl ha

/-- the pool cached for a key only changes through absence of the key -/
theorem stepM_stable {m : M} (hn : KeysNodup m) {op : MOp} {k : Key} {p q : PoolId}
    (hp : (k, p) ∈ m.cache.items) (hq : (k, q) ∈ (stepM m op).1.cache.items) : p = q := by
  rcases stepM_mem hq with h | ⟨k', _, hnone, he⟩
  · exact keys_unique hn hp h
  · cases he
    exact absurd rfl (pop_none hnone _ hp)

theorem runM_stays {m : M} (hn : KeysNodup m) {k : Key} {p : PoolId} (ops : List MOp)
    (hp : (k, p) ∈ m.cache.items) (hs : StaysCached k m ops) : (k, p) ∈ (runM m ops).cache.items := by
  induction ops generalizing m with
  | nil => exact hp
  | cons op ops ih =>
    obtain ⟨h1, h2⟩ := hs
    cases hx : pop (stepM m op).1.cache.items k with
    | none => simp [hx] at h1
    | some x =>
      obtain ⟨q, r⟩ := x
      have hq := pop_mem hx
      have := stepM_stable hn hp hq
      subst this
      exact ih (stepM_nodup op hn) hq h2

theorem goc_hit {m : M} (hn : KeysNodup m) {k : Key} {p : PoolId} (hp : (k, p) ∈ m.cache.items) :
    (stepM m (.goc k)).2.1 = .pool p false := by
  rcases stepM_goc m k with ⟨p', rest, hp', hs⟩ | ⟨hnone, _⟩
  · rw [hs]; simp; exact keys_unique hn (pop_mem hp') hp
  · exact absurd rfl (pop_none hnone _ hp)

/-- after a get-or-create, if the key is cached at all then it is cached with the returned pool -/
theorem goc_cached {m : M} (hn : KeysNodup m) {k : Key} {q : PoolId}
    (hq : (k, q) ∈ (stepM m (.goc k)).1.cache.items) : ∃ f, (stepM m (.goc k)).2.1 = .pool q f := by
  rcases stepM_goc m k with ⟨p, rest, hp, hs⟩ | ⟨hnone, hs⟩
  · have hn' := stepM_nodup (.goc k) hn
    rw [hs] at hq hn' ⊢
    have : (k, p) ∈ (rest ++ [(k, p)] : Items) := by simp
    have := keys_unique hn' hq this
    subst this
    exact ⟨false, rfl⟩
  · rcases stepM_mem hq with h | ⟨k', he, _, ha⟩
    · exact absurd rfl (pop_none hnone _ h)
    · cases ha
      rw [hs]; exact ⟨true, rfl⟩

theorem stepM_bounded {m : M} (op : MOp) (h : m.cache.items.length ≤ m.cache.cap) :
    (stepM m op).1.cache.items.length ≤ (stepM m op).1.cache.cap := by
  cases op with
  | goc k =>
    rcases stepM_goc m k with ⟨p, rest, hp, hs⟩ | ⟨hp, hs⟩
    · rw [hs]; have := pop_length hp; simp; omega
    · rw [hs]; simp only []; rw [step_cap]; exact (step_rel m.cache (.set k m.next)).bounded h
  | clear => simp [stepM, Lru.step]
  | release p => exact h
  | gc => exact h
  | len => exact h

theorem stepM_cap (m : M) (op : MOp) : (stepM m op).1.cache.cap = m.cache.cap := by
  cases op with
  | goc k =>
    rcases stepM_goc m k with ⟨p, rest, hp, hs⟩ | ⟨hp, hs⟩
    · rw [hs]
    · rw [hs]; simp only []; rw [step_cap]
  | clear => simp [stepM, Lru.step]
  | release p => rfl
  | gc => rfl
  | len => rfl

theorem runM_bounded (m : M) (ops : List MOp) (h : m.cache.items.length ≤ m.cache.cap) :
    (runM m ops).cache.items.length ≤ m.cache.cap := by
  induction ops generalizing m with
  | nil => exact h
  | cons op ops ih =>
    have := ih (stepM m op).1 (stepM_bounded op h)
    rwa [stepM_cap] at this

end U3.Mgr

/-! ## completeness of the enumerated lock orders -/
namespace U3.Conc
open U3.Lru (Val)
variable {S O R : Type}

theorem mem_allOrders {k n : Nat} {τ : List Nat} :
    τ ∈ allOrders k n ↔ τ.length = n ∧ ∀ i ∈ τ, i < k := by
  induction n generalizing τ with
  | zero =>
    simp [allOrders]
    rintro rfl; simp
  | succ n ih =>
    simp only [allOrders, List.mem_flatMap, List.mem_map, List.mem_range]
    constructor
    · rintro ⟨τ', hτ', i, hi, rfl⟩
      obtain ⟨h1, h2⟩ := ih.mp hτ'
      refine ⟨by simp [h1], ?_⟩
      intro j hj
      simp at hj
      rcases hj with rfl | hj
      · exact hi
      · exact h2 j hj
    · rintro ⟨h1, h2⟩
      cases τ with
      | nil => simp at h1
      | cons i τ' =>
        refine ⟨τ', ih.mpr ⟨by simpa using h1, fun j hj => h2 j (List.mem_cons_of_mem _ hj)⟩, i,
          h2 i (List.mem_cons_self ..), rfl⟩

theorem sum_set_length {α : Type} {l : List (List α)} {i : Nat} {a : α} {rest : List α}
    (h : l[i]? = some (a :: rest)) :
    ((l.set i rest).map List.length).sum + 1 = (l.map List.length).sum := by
  induction l generalizing i with
  | nil => simp at h
  | cons x xs ih =>
    cases i with
    | zero => simp at h; subst h; simp; omega
    | succ i => simp at h; have := ih h; simp at this ⊢; omega

theorem histOf_length (progs : List (List O)) (τ : List Nat) :
    (histOf progs τ).length + ((restOf progs τ).map List.length).sum = (progs.map List.length).sum := by
  induction τ generalizing progs with
  | nil => simp [histOf, restOf]
  | cons i τ ih =>
    simp only [histOf, restOf]
    split
    · rename_i op rest h
      have h1 := ih (progs.set i rest)
      have h2 := sum_set_length h
      simp at h1 h2 ⊢; omega
    · exact ih progs

theorem histOf_lt (progs : List (List O)) (τ : List Nat) :
    ∀ e ∈ histOf progs τ, e.1 < progs.length := by
  induction τ generalizing progs with
  | nil => simp [histOf]
  | cons i τ ih =>
    simp only [histOf]
    split
    · rename_i op rest h
      intro e he
      simp at he
      rcases he with rfl | he
      · exact (List.getElem?_eq_some_iff.mp h).1
      · have := ih (progs.set i rest) e he
        simpa using this
    · exact ih progs

theorem sum_zero_of_all_empty {α : Type} {l : List (List α)} (h : l.all List.isEmpty = true) :
    (l.map List.length).sum = 0 := by
  induction l with
  | nil => rfl
  | cons x xs ih =>
    simp at h ⊢
    exact ⟨by simp [h.1], ih (by simpa using h.2)⟩

/-- when every thread has finished, the lock order of the run is one of the enumerated orders -/
theorem lockOrder_mem (stepf : S → O → S × R × List Val) (s : S) (progs : List (List O)) (σ : List Nat)
    (hd : (exec stepf (Cfg.init s progs) σ).done = true) :
    (exec stepf (Cfg.init s progs) σ).hist.map (·.1) ∈ lockOrders progs := by
  have ho := ordInv_exec stepf s progs σ
  have hrest : (restOf progs ((exec stepf (Cfg.init s progs) σ).hist.map (·.1))).all List.isEmpty = true := by
    rw [← ho.todo]; exact todo_done hd
  simp only [lockOrders, List.mem_filter]
  refine ⟨mem_allOrders.mpr ⟨?_, ?_⟩, hrest⟩
  · have h1 := histOf_length progs ((exec stepf (Cfg.init s progs) σ).hist.map (·.1))
    rw [← ho.hist, sum_zero_of_all_empty hrest] at h1
    simpa using h1
  · intro i hi
    simp only [List.mem_map] at hi
    obtain ⟨e, he, rfl⟩ := hi
    rw [ho.hist] at he
    exact histOf_lt progs _ e he

end U3.Conc

/-! ## manager: pools are allocated once, only dropped pools are closed -/
namespace U3.Mgr
open U3.Lru

/-- pool ids are allocated once: cached and dropped pools are pairwise distinct and below `next`;
only dropped pools are ever closed -/
structure MInv (m : M) : Prop where
  nodup : (cached m ++ m.dropped).Nodup
  lt : ∀ p ∈ cached m ++ m.dropped, p < m.next
  closed : ∀ p ∈ m.closed, p ∈ m.dropped

theorem MInv.init (cap : Nat) : MInv (M.new cap) :=
  ⟨by simp [cached, M.new, Lru.new], by simp [cached, M.new, Lru.new], by simp [M.new]⟩

theorem MInv.step {m : M} (h : MInv m) (op : MOp) : MInv (stepM m op).1 := by
  obtain ⟨h1, h2, h3⟩ := h
  cases op with
  | goc k =>
    rcases stepM_goc m k with ⟨p, rest, hp, hs⟩ | ⟨hp, hs⟩
    · rw [hs]
      have hperm : (cached m).Perm (List.map (·.2) (rest ++ [(k, p)])) := by
        have := (pop_perm hp).map (·.2)
        simp [cached] at this ⊢
        exact this.trans (List.perm_append_singleton _ _).symm
      refine ⟨?_, ?_, h3⟩
      · exact (List.Perm.append_right _ hperm).nodup_iff.mp h1
      · intro q hq
        exact h2 q ((List.Perm.append_right _ hperm).mem_iff.mpr hq)
    · rw [hs]
      have hc := (step_rel m.cache (.set k m.next)).conserve
      simp only [inserted] at hc
      -- (cached ++ [next]) ++ dropped  ~  cached' ++ (dropped ++ ds)
      have hperm : ((cached m ++ [m.next]) ++ m.dropped).Perm
          (List.map (·.2) (Lru.step m.cache (.set k m.next)).1.items ++
            (m.dropped ++ (Lru.step m.cache (.set k m.next)).2.2)) := by
        refine (List.Perm.append_right _ hc).trans ?_
        rw [List.append_assoc]
        exact List.Perm.append_left _ List.perm_append_comm
      have hnew : m.next ∉ cached m ++ m.dropped := fun hm => Nat.lt_irrefl _ (h2 _ hm)
      have hnd : ((cached m ++ [m.next]) ++ m.dropped).Nodup := by
        have : ((cached m ++ [m.next]) ++ m.dropped).Perm (m.next :: (cached m ++ m.dropped)) := by
          rw [List.append_assoc]
          exact List.perm_middle
        exact this.nodup_iff.mpr (List.nodup_cons.mpr ⟨hnew, h1⟩)
      refine ⟨hperm.nodup_iff.mp hnd, ?_, ?_⟩
      · intro q hq
        have := hperm.mem_iff.mpr hq
        simp only [List.mem_append, List.mem_singleton] at this
        rcases this with (hq | hq) | hq
        · exact Nat.lt_succ_of_lt (h2 q (List.mem_append.mpr (.inl hq)))
        · subst hq; exact Nat.lt_succ_self _
        · exact Nat.lt_succ_of_lt (h2 q (List.mem_append.mpr (.inr hq)))
      · intro q hq
        simp; exact .inl (h3 q hq)
  | clear =>
    refine ⟨?_, ?_, ?_⟩
    · simp only [stepM, Lru.step, cached, List.map_nil, List.nil_append]
      exact (List.perm_append_comm).nodup_iff.mp h1
    · intro q hq
      simp only [stepM, Lru.step, cached, List.map_nil, List.nil_append] at hq
      exact h2 q (List.perm_append_comm.mem_iff.mp hq)
    · intro q hq
      simp [stepM, Lru.step]; exact .inl (h3 q hq)
  | release p => exact ⟨h1, h2, h3⟩
  | gc =>
    refine ⟨h1, h2, ?_⟩
    intro q hq
    simp [stepM] at hq
    rcases hq with hq | hq
    · exact h3 q hq
    · exact hq.1
  | len => exact ⟨h1, h2, h3⟩

theorem runM_inv (m : M) (ops : List MOp) (h : MInv m) : MInv (runM m ops) := by
  induction ops generalizing m with
  | nil => exact h
  | cons op ops ih => exact ih _ (h.step op)

theorem MInv.cached_not_closed {m : M} (h : MInv m) {p : PoolId} (hp : p ∈ cached m) : p ∉ m.closed := by
  intro hc
  have hd := h.closed p hc
  have := h.nodup
  rw [List.nodup_append] at this
  exact this.2.2 p hp p hd rfl

end U3.Mgr
