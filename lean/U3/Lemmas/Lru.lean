import U3.Model.Lru
/-! Helper lemmas for C17 (`U3.Lru`, `U3.Conc`, `U3.Mgr`). -/
namespace U3.Lru

/-! ### `pop` -/

theorem pop_some {l : Items} {k : Key} {v : Val} {r : Items} (h : pop l k = some (v, r)) :
    ∃ l1 l2, l = l1 ++ (k, v) :: l2 ∧ r = l1 ++ l2 ∧ ∀ p ∈ l1, p.1 ≠ k := by
  induction l generalizing v r with
  | nil => simp [pop] at h
  | cons a t ih =>
    obtain ⟨k', v'⟩ := a
    unfold pop at h
    split at h
    · rename_i hk
      simp at h
      obtain ⟨rfl, rfl⟩ := h
      exact ⟨[], t, by simp [hk], by simp, by simp⟩
    · rename_i hk
      split at h
      · rename_i w r' hp
        simp at h
        obtain ⟨rfl, rfl⟩ := h
        obtain ⟨l1, l2, h1, h2, h3⟩ := ih hp
        refine ⟨(k', v') :: l1, l2, by simp [h1], by simp [h2], ?_⟩
        intro p hp'
        simp at hp'
        rcases hp' with rfl | hp'
        · exact hk
        · exact h3 p hp'
      · simp at h

theorem pop_none {l : Items} {k : Key} (h : pop l k = none) : ∀ p ∈ l, p.1 ≠ k := by
  induction l with
  | nil => simp
  | cons a t ih =>
    obtain ⟨k', v'⟩ := a
    unfold pop at h
    split at h
    · simp at h
    · rename_i hk
      split at h
      · simp at h
      · rename_i hp
        intro p hp'
        simp at hp'
        rcases hp' with rfl | hp'
        · exact hk
        · exact ih hp p hp'

theorem pop_isSome_iff {l : Items} {k : Key} : (pop l k).isSome ↔ k ∈ l.map (·.1) := by
  constructor
  · intro h
    cases hp : pop l k with
    | none => simp [hp] at h
    | some x =>
      obtain ⟨v, r⟩ := x
      obtain ⟨l1, l2, h1, _, _⟩ := pop_some hp
      simp [h1]
  · intro h
    cases hp : pop l k with
    | none =>
      have := pop_none hp
      simp at h
      obtain ⟨v, hv⟩ := h
      exact absurd rfl (this (k, v) hv)
    | some x => simp

theorem pop_length {l : Items} {k v r} (h : pop l k = some (v, r)) : r.length + 1 = l.length := by
  obtain ⟨l1, l2, h1, h2, _⟩ := pop_some h
  simp [h1, h2]; omega

theorem pop_perm {l : Items} {k v r} (h : pop l k = some (v, r)) : l.Perm ((k, v) :: r) := by
  obtain ⟨l1, l2, h1, h2, _⟩ := pop_some h
  subst h1 h2
  exact List.perm_middle

theorem pop_sublist {l : Items} {k v r} (h : pop l k = some (v, r)) : r.Sublist l := by
  obtain ⟨l1, l2, h1, h2, _⟩ := pop_some h
  subst h1 h2
  exact List.Sublist.append (List.Sublist.refl _) (List.sublist_cons_self _ _)

theorem pop_mem {l : Items} {k v r} (h : pop l k = some (v, r)) : (k, v) ∈ l := by
  obtain ⟨l1, l2, h1, _, _⟩ := pop_some h
  simp [h1]

theorem pop_nodup {l : Items} {k v r} (h : pop l k = some (v, r)) (hn : (l.map (·.1)).Nodup) :
    (r.map (·.1)).Nodup ∧ k ∉ r.map (·.1) := by
  obtain ⟨l1, l2, h1, h2, _⟩ := pop_some h
  subst h1 h2
  simp [List.nodup_append] at hn ⊢
  grind

/-- in a dict (unique keys) the popped value is the only one stored under the key -/
theorem pop_unique {l : Items} {k v r w} (h : pop l k = some (v, r)) (hn : (l.map (·.1)).Nodup)
    (hm : (k, w) ∈ l) : w = v := by
  obtain ⟨l1, l2, h1, h2, h3⟩ := pop_some h
  subst h1 h2
  simp [List.nodup_append] at hn
  simp at hm
  rcases hm with hm | hm | hm
  · exact absurd rfl (h3 _ hm)
  · exact hm
  · exact absurd hm (hn.2.1.1 w)

/-! ### one case analysis of `step`, used by every invariant -/

inductive StepRel (c : C) : Op → C → List Val → Prop
  | refresh {op : Op} {k : Key} {v : Val} {rest : Items} (hp : pop c.items k = some (v, rest))
      (hop : touches op = some k) (hins : inserted [op] = []) :
      StepRel c op { c with items := rest ++ [(k, v)] } []
  | replace {k : Key} {v old : Val} {rest : Items} (hp : pop c.items k = some (old, rest)) :
      StepRel c (.set k v) { c with items := rest ++ [(k, v)] } [old]
  | same {op : Op} (hins : inserted [op] = []) (hmiss : ∀ k, touches op = some k → pop c.items k = none) :
      StepRel c op c []
  | insert {k : Key} {v : Val} (hp : pop c.items k = none) (hle : c.items.length + 1 ≤ c.cap) :
      StepRel c (.set k v) { c with items := c.items ++ [(k, v)] } []
  | evict {k : Key} {v : Val} {ek : Key} {ev : Val} {rest : Items} (hp : pop c.items k = none)
      (hgt : c.cap < c.items.length + 1) (he : c.items ++ [(k, v)] = (ek, ev) :: rest) :
      StepRel c (.set k v) { c with items := rest } [ev]
  | delete {k : Key} {v : Val} {rest : Items} (hp : pop c.items k = some (v, rest)) :
      StepRel c (.del k) { c with items := rest } [v]
  | clear : StepRel c .clear { c with items := [] } (c.items.map (·.2))

theorem step_rel (c : C) (op : Op) : StepRel c op (step c op).1 (step c op).2.2 := by
  cases op with
  | get k =>
    simp only [step, touch]
    cases hp : pop c.items k with
    | none => exact .same rfl (by intro k' hk; simp [touches] at hk; subst hk; exact hp)
    | some x => obtain ⟨v, rest⟩ := x; exact .refresh hp rfl rfl
  | has k =>
    simp only [step, touch]
    cases hp : pop c.items k with
    | none => exact .same rfl (by intro k' hk; simp [touches] at hk; subst hk; exact hp)
    | some x => obtain ⟨v, rest⟩ := x; exact .refresh hp rfl rfl
  | mget k =>
    simp only [step, touch]
    cases hp : pop c.items k with
    | none => exact .same rfl (by intro k' hk; simp [touches] at hk; subst hk; exact hp)
    | some x => obtain ⟨v, rest⟩ := x; exact .refresh hp rfl rfl
  | set k v =>
    simp only [step]
    cases hp : pop c.items k with
    | some x => obtain ⟨old, rest⟩ := x; exact .replace hp
    | none =>
      simp only []
      split
      · rename_i hgt
        split
        · rename_i hnil
          simp at hnil
        · rename_i ek ev rest he
          exact .evict hp (by simp at hgt; omega) he
      · rename_i hle
        exact .insert hp (by simp at hle; omega)
  | del k =>
    simp only [step]
    cases hp : pop c.items k with
    | none => exact .same rfl (by intro k' hk; simp [touches] at hk)
    | some x => obtain ⟨v, rest⟩ := x; exact .delete hp
  | clear => exact .clear
  | len => exact .same rfl (by intro k' hk; simp [touches] at hk)
  | keys => exact .same rfl (by intro k' hk; simp [touches] at hk)

/-- the `popitem()` on an empty dict branch of `__setitem__` is never taken -/
theorem set_popitem_total (c : C) (k : Key) (v : Val) : (step c (.set k v)).2.1 = .unit := by
  simp only [step]
  cases hp : pop c.items k with
  | some x => rfl
  | none =>
    simp only []
    split
    · split
      · rename_i hnil; simp at hnil
      · rfl
    · rfl

theorem StepRel.cap {c c' : C} {op : Op} {ds : List Val} (h : StepRel c op c' ds) : c'.cap = c.cap := by
  cases h <;> rfl

theorem step_cap (c : C) (op : Op) : (step c op).1.cap = c.cap := (step_rel c op).cap

/-! ### the four sequential invariants, one step -/

theorem StepRel.bounded {c c' : C} {op : Op} {ds : List Val} (hr : StepRel c op c' ds)
    (h : c.items.length ≤ c.cap) : c'.items.length ≤ c.cap := by
  cases hr with
  | refresh hp _ _ => have := pop_length hp; simp; omega
  | replace hp => have := pop_length hp; simp; omega
  | same _ _ => exact h
  | insert hp hle => simp; omega
  | evict hp hgt he =>
    have := congrArg List.length he
    simp at this ⊢; omega
  | delete hp => have := pop_length hp; simp; omega
  | clear => simp

theorem StepRel.nodup {c c' : C} {op : Op} {ds : List Val} (hr : StepRel c op c' ds)
    (h : (c.items.map (·.1)).Nodup) : (c'.items.map (·.1)).Nodup := by
  cases hr with
  | refresh hp _ _ =>
    have := pop_nodup hp h
    simp [List.nodup_append]; grind
  | replace hp =>
    have := pop_nodup hp h
    simp [List.nodup_append]; grind
  | same _ _ => exact h
  | insert hp hle =>
    have := pop_none hp
    simp [List.nodup_append]; grind
  | evict hp hgt he =>
    rename_i k v ek ev rest
    have hn : ((c.items ++ [(k, v)]).map (·.1)).Nodup := by
      have := pop_none hp
      simp [List.nodup_append]; grind
    rw [he] at hn
    simp at hn ⊢
    exact hn.2
  | delete hp => exact (pop_nodup hp h).1
  | clear => simp

theorem StepRel.conserve {c c' : C} {op : Op} {ds : List Val} (hr : StepRel c op c' ds) :
    (c.items.map (·.2) ++ inserted [op]).Perm (c'.items.map (·.2) ++ ds) := by
  cases hr with
  | refresh hp _ hins =>
    rw [hins]
    have := (pop_perm hp).map (·.2)
    simp at this ⊢
    exact this.trans (List.perm_append_singleton _ _).symm
  | replace hp =>
    rename_i k v old rest
    have := (pop_perm hp).map (·.2)
    simp [inserted] at this ⊢
    -- items.map snd ++ [v]  ~  rest.map snd ++ [v, old]
    have h2 : (List.map (·.2) c.items ++ [v]).Perm ((old :: List.map (·.2) rest) ++ [v]) :=
      List.Perm.append_right _ this
    refine h2.trans ?_
    simp
    have h3 : (old :: (List.map (·.2) rest ++ [v])).Perm ((List.map (·.2) rest ++ [v]) ++ [old]) :=
      (List.perm_append_singleton _ _).symm
    simpa using h3
  | same hins _ => rw [hins]
  | insert hp hle => simp [inserted]
  | evict hp hgt he =>
    have := congrArg (List.map (·.2)) he
    simp [inserted] at this ⊢
    rw [this]
    exact (List.perm_append_singleton _ _).symm
  | delete hp =>
    have := (pop_perm hp).map (·.2)
    simp [inserted] at this ⊢
    exact this.trans (List.perm_append_singleton _ _).symm
  | clear => simp [inserted]

/-! ### recency order = order of last touches -/

/-- the list order is the order of the last touches, and every stamp is in the past -/
def Recency (l : Items) (last : Key → Nat) (clock : Nat) : Prop :=
  l.Pairwise (fun a b => last a.1 < last b.1) ∧ ∀ a ∈ l, last a.1 < clock

theorem recency_snoc {l : Items} {last : Key → Nat} {clock : Nat} {k : Key} (v : Val)
    (h : Recency l last clock) (hk : ∀ a ∈ l, a.1 ≠ k) :
    Recency (l ++ [(k, v)]) (fun k' => if k' = k then clock else last k') (clock + 1) := by
  obtain ⟨hp, hb⟩ := h
  refine ⟨?_, ?_⟩
  · rw [List.pairwise_append]
    refine ⟨?_, by simp, ?_⟩
    · refine hp.imp_of_mem ?_
      intro a b ha hb' hab
      simp [hk a ha, hk b hb', hab]
    · intro a ha b hb'
      simp at hb'
      subst hb'
      simp [hk a ha, hb a ha]
  · intro a ha
    simp at ha
    rcases ha with ha | rfl
    · simp [hk a ha]; have := hb a ha; omega
    · simp

theorem recency_sublist {l l' : Items} {last : Key → Nat} {clock : Nat} (h : Recency l last clock)
    (hs : l'.Sublist l) : Recency l' last clock :=
  ⟨h.1.sublist hs, fun a ha => h.2 a (hs.subset ha)⟩

theorem recency_mono {l : Items} {last : Key → Nat} {clock : Nat} (h : Recency l last clock) :
    Recency l last (clock + 1) :=
  ⟨h.1, fun a ha => Nat.lt_succ_of_lt (h.2 a ha)⟩

theorem recency_congr {l : Items} {last last' : Key → Nat} {clock : Nat} (h : Recency l last clock)
    (he : ∀ a ∈ l, last' a.1 = last a.1) : Recency l last' clock := by
  refine ⟨h.1.imp_of_mem ?_, ?_⟩
  · intro a b ha hb hab; rw [he a ha, he b hb]; exact hab
  · intro a ha; rw [he a ha]; exact h.2 a ha

theorem StepRel.recency {c c' : C} {op : Op} {ds : List Val} (hr : StepRel c op c' ds) {s : Stamps}
    (hn : (c.items.map (·.1)).Nodup) (h : Recency c.items s.last s.clock) :
    Recency c'.items (stampStep s op).last (stampStep s op).clock := by
  cases hr with
  | refresh hp hop hins =>
    rename_i k v rest
    have hk : ∀ a ∈ rest, a.1 ≠ k := by
      have := (pop_nodup hp hn).2
      intro a ha hak; exact this (by simp; exact ⟨a.2, by rw [← hak]; exact ha⟩)
    simp only [stampStep, hop]
    exact recency_snoc v (recency_sublist h (pop_sublist hp)) hk
  | replace hp =>
    rename_i k v old rest
    have hk : ∀ a ∈ rest, a.1 ≠ k := by
      have := (pop_nodup hp hn).2
      intro a ha hak; exact this (by simp; exact ⟨a.2, by rw [← hak]; exact ha⟩)
    simp only [stampStep, touches]
    exact recency_snoc v (recency_sublist h (pop_sublist hp)) hk
  | same _ hmiss =>
    simp only [stampStep]
    cases ht : touches op with
    | none => exact recency_mono h
    | some k =>
      have hk := pop_none (hmiss k ht)
      refine recency_mono (recency_congr h ?_)
      intro a ha; simp [hk a ha]
  | insert hp hle =>
    rename_i k v
    simp only [stampStep, touches]
    exact recency_snoc v h (pop_none hp)
  | evict hp hgt he =>
    rename_i k v ek ev rest
    simp only [stampStep, touches]
    have := recency_snoc v h (pop_none hp)
    rw [he] at this
    exact recency_sublist this (List.sublist_cons_self _ _)
  | delete hp =>
    simp only [stampStep, touches]
    exact recency_mono (recency_sublist h (pop_sublist hp))
  | clear => exact ⟨by simp, by simp⟩

theorem step_set_evict {c : C} {k : Key} (v : Val) (hp : pop c.items k = none) (hfull : c.cap ≤ c.items.length) :
    ∃ ek ev rest, c.items ++ [(k, v)] = (ek, ev) :: rest ∧
      step c (.set k v) = ({ c with items := rest }, .unit, [ev]) := by
  cases hi : c.items with
  | nil =>
    refine ⟨k, v, [], by simp, ?_⟩
    have : c.cap = 0 := by simp [hi] at hfull; exact hfull
    rw [hi] at hp
    simp [step, hp, hi, this]
  | cons a t =>
    obtain ⟨ek, ev⟩ := a
    refine ⟨ek, ev, t ++ [(k, v)], by simp, ?_⟩
    have : c.cap < t.length + 1 + 1 := by simp [hi] at hfull; omega
    rw [hi] at hp
    simp [step, hp, hi, this]

/-! ### lifting to op sequences -/

theorem run_cap (c : C) (ops : List Op) : (run c ops).c.cap = c.cap := by
  induction ops generalizing c with
  | nil => rfl
  | cons op ops ih => simp [run, ih, step_cap]

theorem run_bounded (c : C) (ops : List Op) (h : c.items.length ≤ c.cap) :
    (run c ops).c.items.length ≤ c.cap := by
  induction ops generalizing c with
  | nil => exact h
  | cons op ops ih =>
    simp only [run]
    have := ih (step c op).1 (by rw [step_cap]; exact (step_rel c op).bounded h)
    rwa [step_cap] at this

theorem run_nodup (c : C) (ops : List Op) (h : (c.items.map (·.1)).Nodup) :
    ((run c ops).c.items.map (·.1)).Nodup := by
  induction ops generalizing c with
  | nil => exact h
  | cons op ops ih => exact ih _ ((step_rel c op).nodup h)

theorem inserted_cons (op : Op) (ops : List Op) : inserted (op :: ops) = inserted [op] ++ inserted ops := by
  cases op <;> simp [inserted]

theorem run_conserve (c : C) (ops : List Op) :
    (c.items.map (·.2) ++ inserted ops).Perm ((run c ops).c.items.map (·.2) ++ (run c ops).disposed) := by
  induction ops generalizing c with
  | nil => simp [run, inserted]
  | cons op ops ih =>
    simp only [run]
    rw [inserted_cons]
    have h1 := (step_rel c op).conserve
    have h2 := ih (step c op).1
    -- items ++ ins op ++ ins ops ~ (items' ++ ds) ++ ins ops ~ items' ++ ins ops ++ ds ~ final ++ disp ++ ds
    have h3 : (c.items.map (·.2) ++ (inserted [op] ++ inserted ops)).Perm
        (((step c op).1.items.map (·.2) ++ (step c op).2.2) ++ inserted ops) := by
      rw [← List.append_assoc]; exact List.Perm.append_right _ h1
    refine h3.trans ?_
    have h4 : (((step c op).1.items.map (·.2) ++ (step c op).2.2) ++ inserted ops).Perm
        ((step c op).2.2 ++ ((step c op).1.items.map (·.2) ++ inserted ops)) := by
      rw [← List.append_assoc]
      exact List.Perm.append_right _ List.perm_append_comm
    refine h4.trans ?_
    refine (List.Perm.append_left _ h2).trans ?_
    rw [← List.append_assoc, ← List.append_assoc]
    exact List.Perm.append_right _ List.perm_append_comm

theorem run_recency (c : C) (s : Stamps) (ops : List Op) (hn : (c.items.map (·.1)).Nodup)
    (h : Recency c.items s.last s.clock) :
    Recency (run c ops).c.items (stamps s ops).last (stamps s ops).clock := by
  induction ops generalizing c s with
  | nil => exact h
  | cons op ops ih =>
    simp only [run, stamps, List.foldl_cons]
    exact ih _ _ ((step_rel c op).nodup hn) ((step_rel c op).recency hn h)

theorem run_append (c : C) (a b : List Op) :
    run c (a ++ b) = { c := (run (run c a).c b).c, outs := (run c a).outs ++ (run (run c a).c b).outs,
                       disposed := (run c a).disposed ++ (run (run c a).c b).disposed } := by
  induction a generalizing c with
  | nil => simp [run]
  | cons op a ih => simp [run, ih]

end U3.Lru
