import U3.Lemmas.RespDrain
import U3.Lemmas.RespBroken
import U3.Lemmas.RespMulti
import U3.Lemmas.RespWitness
/-! Concrete well-framed responses for the non-vacuity examples of the `drain_conn` theorems: the
gzip response "hello" with a Content-Length and in three chunks (extension, trailer), both satisfy
the read-family invariant `Inv`. -/
namespace U3.Resp.Witness
open U3 U3.Resp

/-- `Content-Encoding: gzip`, `Content-Length: 28`, body "hello", segmentation 3 -/
def respGzipHello : R H CD :=
  { fp := hBegin ⟨[], wireGzipHello, 3⟩ none (some (lit "28")) false 200 false,
    lengthRemaining := some 28, conn := true }

theorem inv_gzipHello : Inv cfgGzipHello hRem HI CDGall respGzipHello (lit "hello") := by
  unfold respGzipHello
  generalize hh : hBegin ⟨[], wireGzipHello, 3⟩ none (some (lit "28")) false 200 false = h
  have hfacts : h.head = false ∧ h.chunked = false ∧ h.closed = false ∧ h.length = some 28 ∧
      h.fp.map (·.content) = some gzipHello := by
    subst hh; decide +kernel
  obtain ⟨h1, h2, h3, h4, h5⟩ := hfacts
  obtain ⟨f, hf, hc⟩ : ∃ f, h.fp = some f ∧ f.content = gzipHello := by
    cases hf : h.fp with
    | none => rw [hf] at h5; cases h5
    | some f => rw [hf] at h5; exact ⟨f, rfl, by simpa using h5⟩
  have hrem : hRem h = gzipHello := by
    simp only [hRem, hf, h4, hc]; decide
  refine ⟨⟨⟨h1, h2, fun g hg => ⟨h3, fun l hl => ?_⟩⟩, Or.inl ?_⟩, lit "hello", ?_, rfl⟩
  · rw [hf] at hg; cases hg; rw [h4] at hl; cases hl; rw [hc]; decide
  · show some (28 : Int) = some ((hRem h).length : Int); rw [hrem]; decide
  · show CDGall (.one (.gzip (Gz.new gzipO))) (hRem h) (lit "hello")
    rw [hrem]
    exact GzG_of_gzOk gzipO _ _ _ rfl (by decide +kernel)

/-- … and with decoding off: what is left is the raw (still gzip-encoded) body -/
theorem rawInv_gzipHello : RawInv hRem HI respGzipHello gzipHello := by
  unfold respGzipHello
  generalize hh : hBegin ⟨[], wireGzipHello, 3⟩ none (some (lit "28")) false 200 false = h
  have hfacts : h.head = false ∧ h.chunked = false ∧ h.closed = false ∧ h.length = some 28 ∧
      h.fp.map (·.content) = some gzipHello := by
    subst hh; decide +kernel
  obtain ⟨h1, h2, h3, h4, h5⟩ := hfacts
  obtain ⟨f, hf, hc⟩ : ∃ f, h.fp = some f ∧ f.content = gzipHello := by
    cases hf : h.fp with
    | none => rw [hf] at h5; cases h5
    | some f => rw [hf] at h5; exact ⟨f, rfl, by simpa using h5⟩
  have hrem : hRem h = gzipHello := by
    simp only [hRem, hf, h4, hc]; decide
  refine ⟨⟨⟨h1, h2, fun g hg => ⟨h3, fun l hl => ?_⟩⟩, Or.inl ?_⟩, rfl, rfl, hrem⟩
  · rw [hf] at hg; cases hg; rw [h4] at hl; cases hl; rw [hc]; decide
  · show some (28 : Int) = some ((hRem h).length : Int); rw [hrem]; decide

/-- the same body in three chunks (10 / 10 / 8 bytes, one chunk extension, a trailer) -/
def respChunkedGzipHello : R H CD :=
  { fp := hBegin ⟨[], wireChunkedGzipHello, 3⟩ (some (lit "chunked")) none false 200 false,
    lengthRemaining := none, conn := true }

theorem inv_chunkedGzipHello : Inv cfgGzipChunked cRem CI CDGall respChunkedGzipHello (lit "hello") := by
  unfold respChunkedGzipHello
  generalize hh : hBegin ⟨[], wireChunkedGzipHello, 3⟩ (some (lit "chunked")) none false 200 false = h
  have hfacts : h.head = false ∧ h.chunked = true ∧ h.closed = false ∧ h.chunkLeft = none ∧
      h.fp.map (·.content) = some chunkedGzipHello := by
    subst hh; decide +kernel
  obtain ⟨h1, h2, h3, h4, h5⟩ := hfacts
  obtain ⟨f, hf, hc⟩ : ∃ f, h.fp = some f ∧ f.content = chunkedGzipHello := by
    cases hf : h.fp with
    | none => rw [hf] at h5; cases h5
    | some f => rw [hf] at h5; exact ⟨f, rfl, by simpa using h5⟩
  have href : refBody none chunkedGzipHello = some gzipHello := by decide +kernel
  have hrem : cRem h = gzipHello := by simp [cRem, hf, h4, hc, href]
  refine ⟨⟨⟨h1, h2, fun g hg => ⟨h3, ?_⟩⟩, rfl⟩, lit "hello", ?_, rfl⟩
  · rw [hf] at hg; cases hg; rw [h4, hc, href]; rfl
  · show CDGall (.one (.gzip (Gz.new gzipO))) (cRem h) (lit "hello")
    rw [hrem]
    exact GzG_of_gzOk gzipO _ _ _ rfl (by decide +kernel)

/-- `Content-Length: 5`, only "ab" arrives: short of its Content-Length -/
theorem lShort_shortCL : LShort (respOf wireShortCL 0 (some (lit "5")) false (some 5)).fp (some 5) := by
  generalize hh : (respOf wireShortCL 0 (some (lit "5")) false (some 5)).fp = h
  have hfacts : h.head = false ∧ h.chunked = false ∧ h.closed = false ∧ h.length = some 5 ∧
      h.fp.map (·.content) = some (lit "ab") := by
    subst hh; decide +kernel
  obtain ⟨h1, h2, h3, h4, h5⟩ := hfacts
  obtain ⟨f, hf, hc⟩ : ∃ f, h.fp = some f ∧ f.content = lit "ab" := by
    cases hf : h.fp with
    | none => rw [hf] at h5; cases h5
    | some f => rw [hf] at h5; exact ⟨f, rfl, by simpa using h5⟩
  exact ⟨h1, h2, h3, f, 5, hf, h4, by rw [hc]; decide, rfl⟩

/-- the chunked response cut inside its first chunk is broken, for the segmentation 3 -/
theorem cBroken_chunkedCut : CBroken (respChunked wireChunkedCut 3).fp none := by
  generalize hh : (respChunked wireChunkedCut 3).fp = h
  have hfacts : h.head = false ∧ h.chunked = true ∧ h.closed = false ∧ h.chunkLeft = none ∧
      h.fp.map (·.content) = some (lit "5\r\nab") := by
    subst hh; decide +kernel
  obtain ⟨h1, h2, h3, h4, h5⟩ := hfacts
  obtain ⟨f, hf, hc⟩ : ∃ f, h.fp = some f ∧ f.content = lit "5\r\nab" := by
    cases hf : h.fp with
    | none => rw [hf] at h5; cases h5
    | some f => rw [hf] at h5; exact ⟨f, rfl, by simpa using h5⟩
  refine ⟨h1, h2, h3, ⟨f, hf, ?_⟩, rfl⟩
  rw [h4, hc]
  exact .line _ 4 (by decide) (.short 4 _ (by decide))

end U3.Resp.Witness
