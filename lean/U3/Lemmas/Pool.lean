import U3.Model.Pool
set_option linter.unusedSimpArgs false
set_option linter.unusedVariables false
/-!
# Lemmas about the pool lifecycle model

`InvL s L` is the invariant of DESIGN.md Appendix A with an explicit list `L` of *leased*
connections (the local variable `conn` of a running `urlopen`); `Inv s = InvL s []`.

Everything that happens while a response is being read (`_raw_read`, `_error_catcher`,
`release_conn`, `drain_conn`, `close`, the `http.client` reader …) is shown to be a sequence of
primitive `Step`s (`Reach`), and each primitive step preserves `InvL`.  The steps that change who
owns a connection (`_get_conn`, `_put_conn`, attaching the connection to the response) are handled
one by one in the proof about `request`.
-/
namespace U3.Pool

def queued (s : State) : List Nat := s.queue.filterMap id
def held (s : State) : List Nat := s.resps.filterMap (·.conn)
/-- every connection somebody is responsible for: idle in the queue, leased by a running `urlopen`,
or held by a response -/
def owned (s : State) (L : List Nat) : List Nat := queued s ++ (L ++ held s)

structure InvL (s : State) (L : List Nat) : Prop where
  pos : 0 < s.maxsize
  nodup : (owned s L).Nodup
  live : ∀ c cn, s.conns[c]? = some cn → cn.sock ≠ none → c ∈ owned s L
  bound : ∀ c ∈ owned s L, c < s.conns.length
  closedq : s.closed = true → s.queue = []
  len : s.queue.length ≤ s.maxsize
  slots : s.closed = false → s.maxsize ≤ s.queue.length + (L.length + (held s).length)
  slotsB : s.closed = false → s.block = true → s.queue.length + (L.length + (held s).length) = s.maxsize

abbrev Inv (s : State) : Prop := InvL s []

/-! ### `filterMap` over `modify` -/

theorem filterMap_modify_perm {α β : Type} (g : α → Option β) (f : α → α) :
    ∀ (l : List α) (i : Nat) (x : α), l[i]? = some x →
      ((l.modify i f).filterMap g ++ (g x).toList).Perm (l.filterMap g ++ (g (f x)).toList) := by
  intro l
  induction l with
  | nil => intro i x h; simp at h
  | cons a t ih =>
    intro i x h
    cases i with
    | zero =>
      simp at h; subst h
      simp only [List.modify_zero_cons, List.filterMap_cons]
      cases hga : g a <;> cases hgf : g (f a) <;> simp
      · exact (List.perm_append_singleton _ _).symm
      · rename_i c b
        exact ((List.perm_append_singleton c _).cons b).trans
          ((List.Perm.swap c b _).trans ((List.perm_append_singleton b _).symm.cons c))
    | succ j =>
      simp at h
      have := ih j x h
      simp only [List.modify_succ_cons, List.filterMap_cons]
      cases g a <;> simp [this]

theorem filterMap_modify_same {α β : Type} (g : α → Option β) (f : α → α) (hf : ∀ x, g (f x) = g x)
    (l : List α) (i : Nat) : (l.modify i f).filterMap g = l.filterMap g := by
  induction l generalizing i with
  | nil => simp
  | cons a t ih =>
    cases i with
    | zero => simp [List.filterMap_cons, hf]
    | succ j => simp [List.filterMap_cons, ih]


/-! ### primitive steps -/

inductive Step (C : List Nat) : State → State → Prop
  | frame {s s' : State} (h1 : s'.maxsize = s.maxsize) (h2 : s'.block = s.block) (h4 : s'.queue = s.queue)
      (h5 : s'.closed = s.closed) (h6 : s'.conns = s.conns) (h7 : s'.resps = s.resps) : Step C s s'
  | resp (s : State) (r : Nat) (f : Resp → Resp) (h : ∀ x, (f x).conn = x.conn) : Step C s (setResp s r f)
  | conn (s : State) (c : Nat) (f : Conn → Conn) (h : ∀ x : Conn, (f x).sock = x.sock ∨ (f x).sock = none) :
      Step C s (setConn s c f)
  | opn (s : State) (c : Nat) (f : Conn → Conn) (hc : c ∈ C) : Step C s (setConn s c f)
  | newResp (s : State) (x : Resp) (h : x.conn = none) : Step C s { s with resps := s.resps ++ [x] }

theorem invL_congr {s s' : State} {L : List Nat} (h1 : s'.maxsize = s.maxsize) (h2 : s'.block = s.block)
    (h4 : s'.queue = s.queue) (h5 : s'.closed = s.closed) (h7 : held s' = held s)
    (h6 : s'.conns.length = s.conns.length)
    (hl : ∀ c cn, s'.conns[c]? = some cn → cn.sock ≠ none → c ∈ owned s L ∨ ∃ cn0, s.conns[c]? = some cn0 ∧ cn0.sock ≠ none)
    (h : InvL s L) : InvL s' L := by
  have ho : owned s' L = owned s L := by simp [owned, queued, h4, h7]
  refine ⟨by rw [h1]; exact h.pos, by rw [ho]; exact h.nodup, ?_, ?_, ?_, ?_, ?_, ?_⟩
  · intro c cn hc hs
    rw [ho]
    rcases hl c cn hc hs with h' | ⟨cn0, h0, hs0⟩
    · exact h'
    · exact h.live c cn0 h0 hs0
  · intro c hc; rw [ho] at hc; rw [h6]; exact h.bound c hc
  · intro hc; rw [h4]; exact h.closedq (by rw [← h5]; exact hc)
  · rw [h4, h1]; exact h.len
  · intro hc; rw [h4, h1, h7]; exact h.slots (by rw [← h5]; exact hc)
  · intro hc hb; rw [h4, h1, h7]; exact h.slotsB (by rw [← h5]; exact hc) (by rw [← h2]; exact hb)

theorem step_inv {C L : List Nat} {s s' : State} (hC : ∀ c ∈ C, c ∈ L) (st : Step C s s') (h : InvL s L) :
    InvL s' L := by
  cases st with
  | frame h1 h2 h4 h5 h6 h7 =>
    refine invL_congr (s := s) h1 h2 h4 h5 (by simp [held, h7]) (by rw [h6]) ?_ h
    intro c cn hc hs; right; exact ⟨cn, by rw [← h6]; exact hc, hs⟩
  | resp r f hf =>
    refine invL_congr (s := s) rfl rfl rfl rfl ?_ rfl ?_ h
    · simp only [held, setResp]
      exact filterMap_modify_same (fun x : Resp => x.conn) f hf _ _
    · intro c cn hc hs; right; exact ⟨cn, hc, hs⟩
  | conn c f hf =>
    refine invL_congr (s := s) rfl rfl rfl rfl rfl (by simp [setConn]) ?_ h
    intro c' cn hc hs
    right
    by_cases hcc : c = c'
    · subst hcc
      cases hx : s.conns[c]? with
      | none => simp [setConn, List.getElem?_modify, hx] at hc
      | some x =>
        simp [setConn, List.getElem?_modify, hx] at hc
        refine ⟨x, rfl, ?_⟩
        rcases hf x with h1 | h1
        · rw [← h1, hc]; exact hs
        · rw [hc] at h1; exact absurd h1 hs
    · simp [setConn, List.getElem?_modify, hcc] at hc
      exact ⟨cn, hc, hs⟩
  | opn c f hc =>
    refine invL_congr (s := s) rfl rfl rfl rfl rfl (by simp [setConn]) ?_ h
    intro c' cn hc' hs
    by_cases hcc : c = c'
    · subst hcc
      left
      simp [owned]
      right; left; exact hC _ hc
    · simp [setConn, List.getElem?_modify, hcc] at hc'
      right; exact ⟨cn, hc', hs⟩
  | newResp x hx =>
    refine invL_congr (s := s) rfl rfl rfl rfl ?_ rfl ?_ h
    · simp [held, List.filterMap_append, hx]
    · intro c cn hc hs; right; exact ⟨cn, hc, hs⟩

/-- reflexive-transitive closure -/
inductive Steps (C : List Nat) : State → State → Prop
  | refl (s : State) : Steps C s s
  | cons {s t u : State} : Step C s t → Steps C t u → Steps C s u

theorem Steps.trans {C : List Nat} {s t u : State} (a : Steps C s t) (b : Steps C t u) : Steps C s u := by
  induction a with
  | refl => exact b
  | cons st _ ih => exact .cons st (ih b)

theorem Steps.one {C : List Nat} {s t : State} (a : Step C s t) : Steps C s t := .cons a (.refl _)

theorem steps_inv {C L : List Nat} {s s' : State} (hC : ∀ c ∈ C, c ∈ L) (st : Steps C s s') (h : InvL s L) :
    InvL s' L := by
  induction st with
  | refl => exact h
  | cons a _ ih => exact ih (step_inv hC a h)

theorem logEv_steps (C : List Nat) (s : State) (e : Ev) : Steps C s (logEv s e) :=
  .one (.frame rfl rfl rfl rfl rfl rfl)

theorem setSock_steps (C : List Nat) (s : State) (k : Nat) (f : Sock → Sock) : Steps C s (setSock s k f) :=
  .one (.frame rfl rfl rfl rfl rfl rfl)

theorem noteClose_steps (C : List Nat) (s : State) (k : Nat) : Steps C s (noteClose s k) := by
  unfold noteClose; split
  · exact .refl _
  · exact logEv_steps C s _

theorem closeFp_steps (C : List Nat) (s : State) (r : Nat) : Steps C s (closeFp s r) := by
  unfold closeFp
  split
  · exact .refl _
  · split
    · exact .refl _
    · exact (Steps.one (.resp s r (fun x => { x with fp := none, buf := [] }) (fun _ => rfl))).trans (noteClose_steps C _ _)

theorem connClose_steps (C : List Nat) (s : State) (c : Nat) : Steps C s (connClose s c) := by
  unfold connClose
  split
  · exact .refl _
  · have h1 : Steps C s (setConn s c fun x => { x with sock := none, http := .idle, pending := none, proxyConnected := false }) :=
      .one (.conn s c _ (fun _ => Or.inr rfl))
    refine h1.trans ?_
    split <;> split <;>
      first
        | exact (noteClose_steps C _ _).trans (closeFp_steps C _ _)
        | exact noteClose_steps C _ _
        | exact closeFp_steps C _ _
        | exact .refl _


theorem connClose_inv {s : State} {L : List Nat} (c : Nat) (h : InvL s L) : InvL (connClose s c) L :=
  steps_inv (C := []) (by simp) (connClose_steps [] s c) h

theorem closeFp_inv {s : State} {L : List Nat} (r : Nat) (h : InvL s L) : InvL (closeFp s r) L :=
  steps_inv (C := []) (by simp) (closeFp_steps [] s r) h

theorem logEv_inv {s : State} {L : List Nat} (e : Ev) (h : InvL s L) : InvL (logEv s e) L :=
  steps_inv (C := []) (by simp) (logEv_steps [] s e) h

theorem filterMap_replicate_none (n : Nat) : (List.replicate n (none : Option Nat)).filterMap id = [] := by
  induction n with
  | zero => rfl
  | succ k ih => simp [List.replicate_succ, ih]

/-- `HTTPConnectionPool.__init__` establishes the invariant -/
theorem init_inv (n : Nat) (b p : Bool) (hn : 0 < n) : Inv (init n b p) := by
  refine ⟨hn, ?_, ?_, ?_, ?_, ?_, ?_, ?_⟩ <;>
    simp [init, owned, queued, held, filterMap_replicate_none]

/-! ### the steps that change who owns a connection -/

theorem connClose_conns (s : State) (c : Nat) :
    (connClose s c).conns = s.conns.modify c fun x => { x with sock := none, http := .idle, pending := none, proxyConnected := false } := by
  have hn : ∀ (t : State) (k : Nat), (noteClose t k).conns = t.conns := by
    intro t k; unfold noteClose; split <;> rfl
  have hf : ∀ (t : State) (r : Nat), (closeFp t r).conns = t.conns := by
    intro t r; unfold closeFp; split
    · rfl
    · split
      · rfl
      · rw [hn]; rfl
  unfold connClose
  split
  · rename_i h
    rw [List.modify_eq_self]
    simp at h
    exact h
  · split <;> split <;> simp [hf, hn, setConn]

theorem connClose_sock_none (s : State) (c : Nat) (cn : Conn) (h : (connClose s c).conns[c]? = some cn) :
    cn.sock = none := by
  rw [connClose_conns] at h
  cases hx : s.conns[c]? with
  | none => simp [List.getElem?_modify, hx] at h
  | some x => simp [List.getElem?_modify, hx] at h; rw [← h]

/-- … also after a per-connection flag has been put back (`getresponse` restores
`_has_connected_to_proxy` after `http.client`'s `close()`) -/
theorem setConn_connClose_sock_none (s : State) (c : Nat) (b : Bool) (cn : Conn)
    (h : (setConn (connClose s c) c fun x => { x with proxyConnected := b }).conns[c]? = some cn) :
    cn.sock = none := by
  cases hx : (connClose s c).conns[c]? with
  | none => simp [setConn, List.getElem?_modify, hx] at h
  | some x =>
    simp [setConn, List.getElem?_modify, hx] at h
    rw [← h]; exact connClose_sock_none s c x hx

/-- giving up a lease whose connection is closed, when the pool is closed or full and not blocking -/
theorem drop_lease {s : State} {L : List Nat} {c : Nat} (h : InvL s (c :: L))
    (hs : ∀ cn, s.conns[c]? = some cn → cn.sock = none)
    (hq : s.closed = true ∨ (s.maxsize ≤ s.queue.length ∧ s.block = false)) : InvL s L := by
  have hsub : ∀ x, x ∈ owned s L → x ∈ owned s (c :: L) := by
    intro x hx; simp [owned] at hx ⊢; rcases hx with h1 | h1 | h1 <;> simp [h1]
  have hnd := h.nodup
  refine ⟨h.pos, ?_, ?_, fun x hx => h.bound x (hsub x hx), h.closedq, h.len, ?_, ?_⟩
  · simp only [owned] at hnd ⊢
    rw [List.nodup_append] at hnd ⊢
    refine ⟨hnd.1, ?_, ?_⟩
    · exact (List.nodup_cons.mp hnd.2.1).2
    · intro a ha b hb; exact hnd.2.2 a ha b (List.mem_cons_of_mem _ hb)
  · intro c' cn hc' hsk
    have := h.live c' cn hc' hsk
    simp [owned] at this ⊢
    rcases this with h1 | rfl | h1 | h1
    · exact Or.inl h1
    · exact absurd (hs cn hc') hsk
    · exact Or.inr (Or.inl h1)
    · exact Or.inr (Or.inr h1)
  · intro hc
    rcases hq with hq | ⟨hq, _⟩
    · rw [hq] at hc; cases hc
    · omega
  · intro hc hb
    rcases hq with hq | ⟨_, hq⟩
    · rw [hq] at hc; cases hc
    · rw [hq] at hb; cases hb

/-- `self.pool.put(x)` for `x` = the leased connection or the `None` placeholder that replaces it -/
theorem enqueue_inv {s : State} {L : List Nat} {c : Nat} (x : Option Nat) (h : InvL s (c :: L))
    (hx : x = some c ∨ (x = none ∧ ∀ cn, s.conns[c]? = some cn → cn.sock = none))
    (hc : s.closed = false) (hl : s.queue.length < s.maxsize) :
    InvL { s with queue := x :: s.queue } L := by
  have hnd := h.nodup
  have hsub : ∀ y, y ∈ owned { s with queue := x :: s.queue } L → y ∈ owned s (c :: L) := by
    intro y hy
    rcases hx with rfl | ⟨rfl, _⟩ <;> simp [owned, queued, held] at hy ⊢ <;> grind
  refine ⟨h.pos, ?_, ?_, fun y hy => h.bound y (hsub y hy), ?_, ?_, ?_, ?_⟩
  · rcases hx with rfl | ⟨rfl, _⟩
    · have : (owned { s with queue := some c :: s.queue } L).Perm (owned s (c :: L)) := by
        simp only [owned, queued, held, List.filterMap_cons, id]
        exact (List.perm_middle (a := c) (l₁ := List.filterMap id s.queue)).symm
      exact this.nodup_iff.mpr hnd
    · simp only [owned, queued, held, List.filterMap_cons, id] at hnd ⊢
      rw [List.nodup_append] at hnd ⊢
      refine ⟨hnd.1, (List.nodup_cons.mp hnd.2.1).2, ?_⟩
      intro a ha b hb; exact hnd.2.2 a ha b (List.mem_cons_of_mem _ hb)
  · intro c' cn hc' hsk
    have := h.live c' cn hc' hsk
    rcases hx with rfl | ⟨rfl, hs⟩ <;> simp [owned, queued, held] at this ⊢
    · grind
    · rcases this with h1 | rfl | h1 | h1
      · exact Or.inl h1
      · exact absurd (hs cn hc') hsk
      · exact Or.inr (Or.inl h1)
      · exact Or.inr (Or.inr h1)
  · intro hcl; simp at hcl; rw [hc] at hcl; cases hcl
  · simp; omega
  · intro _; have := h.slots hc; simp [held] at this ⊢; omega
  · intro _ hb; have := h.slotsB hc hb; simp [held] at this ⊢; omega


theorem step_frame {C : List Nat} {s s' : State} (st : Step C s s') :
    s'.queue = s.queue ∧ s'.maxsize = s.maxsize ∧ s'.block = s.block ∧ s'.closed = s.closed := by
  cases st <;> simp_all [setResp, setConn]

theorem steps_frame {C : List Nat} {s s' : State} (st : Steps C s s') :
    s'.queue = s.queue ∧ s'.maxsize = s.maxsize ∧ s'.block = s.block ∧ s'.closed = s.closed := by
  induction st with
  | refl => simp
  | cons a _ ih => have := step_frame a; grind

theorem connClose_frame (s : State) (c : Nat) :
    (connClose s c).queue = s.queue ∧ (connClose s c).maxsize = s.maxsize ∧ (connClose s c).block = s.block ∧
      (connClose s c).closed = s.closed := steps_frame (connClose_steps [] s c)

/-- `_put_conn(conn)` with the leased connection: the lease ends, the invariant holds again (the
`FullPoolError` branch is excluded by the counting clause) -/
theorem putConn_lease_inv {s : State} {L : List Nat} {c : Nat} (h : InvL s (c :: L)) :
    InvL (putConn s (some c)).1 L := by
  have h0 : InvL (logEv s (.put (some c))) (c :: L) := logEv_inv _ h
  unfold putConn
  generalize logEv s (.put (some c)) = s0 at h0 ⊢
  simp only
  by_cases hcl : s0.closed = true
  · simp only [hcl, Bool.not_true, Bool.false_eq_true, if_false]
    exact drop_lease (connClose_inv c h0) (fun cn hcn => connClose_sock_none _ _ _ hcn)
      (Or.inl (by rw [(connClose_frame s0 c).2.2.2]; exact hcl))
  · have hcl' : s0.closed = false := by cases hx : s0.closed <;> simp_all
    simp only [hcl', Bool.not_false, if_true]
    by_cases hf : queueFull s0 = true
    · have hfull : s0.maxsize ≤ s0.queue.length := by simp [queueFull] at hf; exact hf.2
      simp only [hf, Bool.not_true, Bool.false_eq_true, if_false]
      by_cases hb : s0.block = true
      · have := h0.slotsB hcl' hb; simp at this; omega
      · have hb' : s0.block = false := by cases hx : s0.block <;> simp_all
        simp only [hb', Bool.false_eq_true, if_false]
        have f1 := connClose_frame s0 c
        have f2 := connClose_frame (connClose s0 c) c
        exact drop_lease (connClose_inv c (connClose_inv c h0)) (fun cn hcn => connClose_sock_none _ _ _ hcn)
          (Or.inr ⟨by rw [f2.1, f2.2.1, f1.1, f1.2.1]; exact hfull, by rw [f2.2.2.1, f1.2.2.1]; exact hb'⟩)
    · have hf' : queueFull s0 = false := by cases hx : queueFull s0 <;> simp_all
      simp only [hf', Bool.not_false, if_true]
      have hpos := h0.pos
      have hl : s0.queue.length < s0.maxsize := by simp [queueFull] at hf'; omega
      have e := enqueue_inv (some c) h0 (Or.inl rfl) hcl' hl
      simp only [hcl'] at e; exact e

/-- the `finally` clause after an unclean exit: `conn.close(); conn = None; self._put_conn(None)` -/
theorem discard_lease_inv {s : State} {L : List Nat} {c : Nat} (h : InvL s (c :: L)) :
    InvL (discard s (some c)).1 L := by
  have h1 : InvL (connClose s c) (c :: L) := connClose_inv c h
  have hs : ∀ cn, (connClose s c).conns[c]? = some cn → cn.sock = none := fun cn hcn => connClose_sock_none _ _ _ hcn
  unfold discard
  simp only
  generalize connClose s c = s1 at h1 hs ⊢
  have h0 : InvL (logEv s1 (.put none)) (c :: L) := logEv_inv _ h1
  have hs0 : ∀ cn, (logEv s1 (.put none)).conns[c]? = some cn → cn.sock = none := hs
  unfold putConn
  generalize logEv s1 (.put none) = s0 at h0 hs0 ⊢
  simp only
  by_cases hcl : s0.closed = true
  · simp only [hcl, Bool.not_true, Bool.false_eq_true, if_false]
    exact drop_lease h0 hs0 (Or.inl hcl)
  · have hcl' : s0.closed = false := by cases hx : s0.closed <;> simp_all
    simp only [hcl', Bool.not_false, if_true]
    by_cases hf : queueFull s0 = true
    · have hfull : s0.maxsize ≤ s0.queue.length := by simp [queueFull] at hf; exact hf.2
      simp only [hf, Bool.not_true, Bool.false_eq_true, if_false]
      by_cases hb : s0.block = true
      · have := h0.slotsB hcl' hb; simp at this; omega
      · have hb' : s0.block = false := by cases hx : s0.block <;> simp_all
        simp only [hb', Bool.false_eq_true, if_false]
        exact drop_lease h0 hs0 (Or.inr ⟨hfull, hb'⟩)
    · have hf' : queueFull s0 = false := by cases hx : queueFull s0 <;> simp_all
      simp only [hf', Bool.not_false, if_true]
      have hpos := h0.pos
      have hl : s0.queue.length < s0.maxsize := by simp [queueFull] at hf'; omega
      have e := enqueue_inv none h0 (Or.inr ⟨rfl, hs0⟩) hcl' hl
      simp only [hcl'] at e; exact e


/-! ### `_get_conn`: a slot of the queue becomes a lease -/

theorem lease_fresh {s : State} {q : List (Option Nat)} (h : Inv s) (hc : s.closed = false)
    (hq : q.filterMap id = queued s) (hl1 : q.length ≤ s.queue.length) (hl2 : s.queue.length ≤ q.length + 1)
    (hb : s.block = true → s.queue.length = q.length + 1) :
    InvL { s with queue := q, conns := s.conns ++ [{}] } [s.conns.length] := by
  have hnd := h.nodup
  have hbd := h.bound
  have ho0 : owned s [] = queued s ++ held s := by simp [owned]
  rw [ho0] at hnd hbd
  have ho : owned { s with queue := q, conns := s.conns ++ [{}] } [s.conns.length]
      = queued s ++ (s.conns.length :: held s) := by
    show List.filterMap id q ++ ([s.conns.length] ++ held s) = _
    rw [hq]; rfl
  have hmem : ∀ x, x ∈ queued s ++ (s.conns.length :: held s) ↔ (x = s.conns.length ∨ x ∈ queued s ++ held s) := by
    intro x; simp only [List.mem_append, List.mem_cons]
    constructor
    · rintro (h1 | h1 | h1)
      · exact Or.inr (Or.inl h1)
      · exact Or.inl h1
      · exact Or.inr (Or.inr h1)
    · rintro (h1 | h1 | h1)
      · exact Or.inr (Or.inl h1)
      · exact Or.inl h1
      · exact Or.inr (Or.inr h1)
  have hheld : held { s with queue := q, conns := s.conns ++ [{}] } = held s := rfl
  refine ⟨h.pos, ?_, ?_, ?_, ?_, ?_, ?_, ?_⟩
  · rw [ho]
    have : (queued s ++ (s.conns.length :: held s)).Perm (s.conns.length :: (queued s ++ held s)) := List.perm_middle
    rw [this.nodup_iff, List.nodup_cons]
    refine ⟨?_, hnd⟩
    intro hm
    have := hbd _ hm
    omega
  · intro c' cn hc' hs
    rw [ho, hmem]
    by_cases hlt : c' < s.conns.length
    · have hc'' : s.conns[c']? = some cn := by
        have : (s.conns ++ [({} : Conn)])[c']? = s.conns[c']? := List.getElem?_append_left hlt
        rw [← this]; exact hc'
      have := h.live c' cn hc'' hs
      rw [ho0] at this
      exact Or.inr this
    · by_cases he : c' = s.conns.length
      · exact Or.inl he
      · have hge : (s.conns ++ [({} : Conn)]).length ≤ c' := by simp; omega
        have : (s.conns ++ [({} : Conn)])[c']? = none := List.getElem?_eq_none hge
        have hc2 : (s.conns ++ [({} : Conn)])[c']? = some cn := hc'
        rw [this] at hc2; cases hc2
  · intro x hx
    rw [ho, hmem] at hx
    show x < (s.conns ++ [({} : Conn)]).length
    simp only [List.length_append, List.length_singleton]
    rcases hx with rfl | h1
    · omega
    · have := hbd x h1; omega
  · intro hcl; have : s.closed = true := hcl; rw [hc] at this; cases this
  · show q.length ≤ s.maxsize
    have := h.len; omega
  · intro _
    show s.maxsize ≤ q.length + ([s.conns.length].length + (held s).length)
    have := h.slots hc; simp at this ⊢; omega
  · intro _ hb'
    show q.length + ([s.conns.length].length + (held s).length) = s.maxsize
    have h1 := h.slotsB hc hb'; have h2 := hb hb'; simp at h1 ⊢; omega

theorem lease_queued {s : State} {c0 : Nat} {rest : List (Option Nat)} (h : Inv s) (hq : s.queue = some c0 :: rest) :
    InvL { s with queue := rest } [c0] := by
  have hcl : s.closed = false := by
    cases hx : s.closed with
    | false => rfl
    | true => have := h.closedq hx; rw [hq] at this; cases this
  have hperm : (owned { s with queue := rest } [c0]).Perm (owned s []) := by
    simp only [owned, queued, held, hq, List.filterMap_cons, id, List.nil_append, List.singleton_append]
    exact List.perm_middle
  have hmem : ∀ x, x ∈ owned { s with queue := rest } [c0] ↔ x ∈ owned s [] := fun x => hperm.mem_iff
  refine ⟨h.pos, hperm.nodup_iff.mpr h.nodup, ?_, ?_, ?_, ?_, ?_, ?_⟩
  · intro c' cn hc' hs; exact (hmem c').mpr (h.live c' cn hc' hs)
  · intro x hx; exact h.bound x ((hmem x).mp hx)
  · intro hx; simp at hx; rw [hcl] at hx; cases hx
  · have := h.len; rw [hq] at this; simp at this ⊢; omega
  · intro _; have := h.slots hcl; rw [hq] at this; simp [held] at this ⊢; omega
  · intro _ hb; have := h.slotsB hcl hb; rw [hq] at this; simp [held] at this ⊢; omega

/-- `_get_conn()` returning a connection turns `Inv` into the invariant with that connection leased;
raising (`ClosedPoolError`, `EmptyPoolError`) leaves the state alone -/
theorem getConn_inv {s s' : State} {c : Nat} (h : Inv s) (hg : getConn s = (s', .ok c)) : InvL s' [c] := by
  unfold getConn at hg
  by_cases hcl : s.closed = true
  · simp [hcl] at hg
  · have hcl' : s.closed = false := by cases hx : s.closed <;> simp_all
    simp only [hcl', Bool.false_eq_true, if_false] at hg
    cases hq : s.queue with
    | nil =>
      rw [hq] at hg
      by_cases hb : s.block = true
      · simp [hb] at hg
      · have hb' : s.block = false := by cases hx : s.block <;> simp_all
        simp [hb', newConn] at hg
        obtain ⟨rfl, rfl⟩ := hg
        have := lease_fresh (q := []) h hcl' (by simp [queued, hq]) (by simp) (by simp [hq]) (by simp [hb'])
        simp only [hq, hb', hcl'] at this ⊢; exact this
    | cons item rest =>
      rw [hq] at hg
      cases item with
      | none =>
        simp [newConn] at hg
        obtain ⟨rfl, rfl⟩ := hg
        have e := lease_fresh (q := rest) h hcl' (by simp [queued, hq]) (by simp [hq]) (by simp [hq]) (by intro _; simp [hq])
        simp only [hcl'] at e ⊢; exact e
      | some c0 =>
        simp at hg
        obtain ⟨rfl, rfl⟩ := hg
        have h1 := lease_queued h hq
        simp only [hcl'] at h1 ⊢
        split
        · exact connClose_inv _ h1
        · exact h1

theorem getConn_error_state {s s' : State} {e : Exc} (hg : getConn s = (s', .error e)) : s' = s := by
  unfold getConn at hg
  split at hg
  · simp at hg; exact hg.1.symm
  · split at hg
    · split at hg
      · simp at hg; exact hg.1.symm
      · simp [newConn] at hg
    · split at hg <;> simp [newConn] at hg

/-! ### `_get_conn(timeout=pool_timeout)` with a `pool_timeout` that `queue.get` rejects -/

/-- either the call behaves as with a valid `pool_timeout`, or — open `block=True` pool, negative
`pool_timeout` — it raises `ValueError` and the state is untouched -/
theorem getConnT_cases (s : State) (b : Bool) :
    getConnT s b = getConn s ∨
    (getConnT s b = (s, .error (exc Gen.cValueError)) ∧ s.closed = false ∧ s.block = true ∧ b = true) := by
  unfold getConnT
  split
  · rename_i hc
    simp only [Bool.and_eq_true, Bool.not_eq_eq_eq_not, Bool.not_true] at hc
    exact Or.inr ⟨rfl, hc.1.1, hc.1.2, hc.2⟩
  · exact Or.inl rfl

theorem getConnT_false (s : State) : getConnT s false = getConn s := by
  simp [getConnT]

theorem getConnT_inv {s s' : State} {b : Bool} {c : Nat} (h : Inv s) (hg : getConnT s b = (s', .ok c)) : InvL s' [c] := by
  rcases getConnT_cases s b with hT | ⟨hT, -⟩
  · rw [hT] at hg; exact getConn_inv h hg
  · rw [hT] at hg; cases hg

/-- whatever `_get_conn` raises, nothing has been taken -/
theorem getConnT_error_state {s s' : State} {b : Bool} {e : Exc} (hg : getConnT s b = (s', .error e)) : s' = s := by
  rcases getConnT_cases s b with hT | ⟨hT, -⟩
  · rw [hT] at hg; exact getConn_error_state hg
  · rw [hT] at hg; cases hg; rfl

/-- `ValueError` is none of `urlopen`'s `except` clauses: it propagates unchanged -/
theorem handleError_valueError (u : Bool) (rt : Retry) (m : Bool) : handleError u rt m Gen.cValueError = .propagate := by
  unfold handleError
  rw [if_neg (by decide), if_neg (by decide)]

theorem discard_none (s : State) : discard s none = (s, none) := rfl

end U3.Pool
