import U3.Model.Pool
import U3.Lemmas.Pool
import U3.Lemmas.PoolProv
import U3.Lemmas.PoolLink
import U3.Lemmas.PoolInv
set_option linter.unusedSimpArgs false
set_option linter.unusedVariables false
/-!
# A `urlopen` call leaves no intermediate response holding a connection

`HoldOnly R s s'`: apart from response `R`, no response of `s'` holds a connection it did not hold in
`s`.  `request_hold`: for every script, configuration and retry budget, a whole `urlopen` call relates
the state it was entered in and the state it leaves by `HoldOnly R` where `R` is the response it
returned — `none` when it raised.  So whatever cuts a retry / redirect chain short (an exhausted
budget, a fault while draining, a failing wait between two attempts, an unrewindable body at the next
hop …), the intermediate responses have given their connections back: `urlopen` drains an intermediate
response BEFORE it does anything else that can fail (`drainConn_unholds`).
-/
namespace U3.Pool

/-- apart from response `R`, no response of `s'` holds a connection it did not hold in `s` -/
def HoldOnly (R : Option Nat) (s s' : State) : Prop :=
  ∀ (r : Nat) (rs' : Resp), s'.resps[r]? = some rs' → rs'.conn ≠ none →
    R = some r ∨ ∃ rs : Resp, s.resps[r]? = some rs ∧ rs.conn = rs'.conn

theorem HoldOnly.of_mono {s s' : State} (R : Option Nat) (m : Mono s s') : HoldOnly R s s' :=
  fun r rs' h hn => Or.inr (m.conn r rs' h hn)

theorem HoldOnly.refl (R : Option Nat) (s : State) : HoldOnly R s s := .of_mono R (Mono.refl s)

theorem HoldOnly.then_mono {R : Option Nat} {s t u : State} (a : HoldOnly R s t) (b : Mono t u) : HoldOnly R s u := by
  intro r rs' h hn
  obtain ⟨rt, h1, e1⟩ := b.conn r rs' h hn
  rcases a r rt h1 (by rw [e1]; exact hn) with q | ⟨rs, h0, e0⟩
  · exact Or.inl q
  · exact Or.inr ⟨rs, h0, by rw [e0, e1]⟩

theorem HoldOnly.after_none {R : Option Nat} {s t u : State} (a : HoldOnly none s t) (b : HoldOnly R t u) : HoldOnly R s u := by
  intro r rs' h hn
  rcases b r rs' h hn with q | ⟨rt, h1, e1⟩
  · exact Or.inl q
  · rcases a r rt h1 (by rw [e1]; exact hn) with q | ⟨rs, h0, e0⟩
    · cases q
    · exact Or.inr ⟨rs, h0, by rw [e0, e1]⟩

theorem HoldOnly.drop {r0 : Nat} {s t : State} (a : HoldOnly (some r0) s t)
    (hu : ∀ rs : Resp, t.resps[r0]? = some rs → rs.conn = none) : HoldOnly none s t := by
  intro r rs' h hn
  rcases a r rs' h hn with q | q
  · cases q; exact absurd (hu rs' h) hn
  · exact Or.inr q

theorem HoldOnly.weaken {R : Option Nat} {s t : State} (a : HoldOnly none s t) : HoldOnly R s t :=
  fun r rs' h hn => (a r rs' h hn).elim (fun q => by cases q) Or.inr

/-! ### the `_pool` attribute of a response is never reset -/

theorem closeFp_hasPool (s : State) (r i : Nat) (rs' : Resp) (h : (closeFp s r).resps[i]? = some rs') :
    ∃ rs : Resp, s.resps[i]? = some rs ∧ rs'.hasPool = rs.hasPool := by
  by_cases hi : i = r
  · subst hi; exact ((keepCH_frame i).close s).2 rs' h
  · rw [(closeFp_fields s r).2.2.2.1 i hi] at h; exact ⟨rs', h, rfl⟩

theorem connClose_hasPool (s : State) (c i : Nat) (rs' : Resp) (h : (connClose s c).resps[i]? = some rs') :
    ∃ rs : Resp, s.resps[i]? = some rs ∧ rs'.hasPool = rs.hasPool := by
  unfold connClose at h
  split at h
  · exact ⟨rs', h, rfl⟩
  · rename_i cn hcn
    dsimp only at h
    cases hs : cn.sock <;> cases hp : cn.pending <;> simp only [hs, hp] at h
    · exact ⟨rs', h, rfl⟩
    · obtain ⟨rs, g1, g2⟩ := closeFp_hasPool _ _ _ _ h
      exact ⟨rs, g1, g2⟩
    · rw [(noteClose_fields _ _).2.1] at h; exact ⟨rs', h, rfl⟩
    · obtain ⟨rs, g1, g2⟩ := closeFp_hasPool _ _ _ _ h
      rw [(noteClose_fields _ _).2.1] at g1; exact ⟨rs, g1, g2⟩

theorem respClose_hasPool (s : State) (r i : Nat) (rs' : Resp) (h : (respClose s r).resps[i]? = some rs') :
    ∃ rs : Resp, s.resps[i]? = some rs ∧ rs'.hasPool = rs.hasPool := by
  unfold respClose at h
  dsimp only at h
  split at h
  · exact closeFp_hasPool _ _ _ _ h
  · split at h
    · obtain ⟨rs1, g1, g2⟩ := connClose_hasPool _ _ _ _ h
      obtain ⟨rs0, g3, g4⟩ := closeFp_hasPool _ _ _ _ g1
      exact ⟨rs0, g3, by rw [g2, g4]⟩
    · exact closeFp_hasPool _ _ _ _ h

/-! ### `read()` to the end — and a failed read — give the connection back -/

/-- `_raw_read()` of everything (under `_error_catcher`): whether it succeeds or raises, afterwards the
response — which knows its pool — holds no connection.  Success: `http.client` has closed the reader at
the end of the body, `_error_catcher` sees `isclosed()` and releases.  Failure: `_error_catcher` closes
reader and connection and then releases. -/
theorem rawRead_none_unholds {A : Nat → Attempt → Prop} {s : State} {L : List Nat} {r : Nat} {rs : Resp} (p : Prov A s)
    (h : InvL s L) (hr : s.resps[r]? = some rs) (hp : rs.hasPool = true) :
    ∀ rs' : Resp, (rawRead s r none).1.resps[r]? = some rs' → rs'.conn = none := by
  have pf := focus_intro p r
  rw [rawRead_eq]
  have st1 := httpRead_steps [] s r none
  have k1 := httpRead_frame (keepCH_frame r) s none
  have hp1 := @httpRead_prov A s (httpRead s r none).1 r _ none (httpRead s r none).2 pf rfl
  generalize httpRead s r none = q at st1 k1 hp1
  obtain ⟨s1, o1⟩ := q
  dsimp only at st1 k1 hp1 ⊢
  have e : rawMid r none s1 o1 = (s1, o1) := by unfold rawMid; cases o1 <;> rfl
  rw [e]
  dsimp only
  have h1 : InvL s1 L := steps_inv (by simp) st1 h
  have hl : r < s.resps.length := (List.getElem?_eq_some_iff.mp hr).1
  have hl1 : r < s1.resps.length := Nat.lt_of_lt_of_le hl (Mono.of_steps st1).rlen
  have hpool : ∀ (t : State) (rt : Resp), (∀ rt' : Resp, t.resps[r]? = some rt' → ∃ r1 : Resp, s1.resps[r]? = some r1 ∧ rt'.hasPool = r1.hasPool) →
      t.resps[r]? = some rt → rt.hasPool = true := by
    intro t rt ht g
    obtain ⟨r1, g1, e1⟩ := ht rt g
    obtain ⟨r0, g0, e0⟩ := k1.2 r1 g1
    rw [hr] at g0; cases g0
    rw [e1, e0]; exact hp
  unfold rawTail
  cases o1 with
  | data d =>
    dsimp only
    have hc := hp1.2 rfl d rfl
    have e' : errorCatcherExit s1 r true = (if respFpClosed s1 r then releaseConn s1 r else (s1, none)) := rfl
    rw [e', hc]
    simp only [if_true]
    have hr1 : s1.resps[r]? = some s1.resps[r] := List.getElem?_eq_getElem hl1
    have u := releaseConn_unholds h1 hr1 (hpool s1 _ (fun rt' g => ⟨rt', g, rfl⟩) hr1)
    generalize releaseConn s1 r = q at u ⊢
    obtain ⟨t, o⟩ := q
    cases o <;> exact u
  | exc e0 =>
    dsimp only
    have e' : errorCatcherExit s1 r false =
        (if respFpClosed (respClose s1 r) r then releaseConn (respClose s1 r) r else (respClose s1 r, none)) := rfl
    rw [e', respClose_closed s1 r]
    simp only [if_true]
    have st2 := respClose_steps [] s1 r
    have h2 : InvL (respClose s1 r) L := steps_inv (by simp) st2 h1
    have hl2 : r < (respClose s1 r).resps.length := Nat.lt_of_lt_of_le hl1 (Mono.of_steps st2).rlen
    have hr2 : (respClose s1 r).resps[r]? = some (respClose s1 r).resps[r] := List.getElem?_eq_getElem hl2
    have u := releaseConn_unholds h2 hr2 (hpool _ _ (fun rt' g => respClose_hasPool s1 r r rt' g) hr2)
    generalize releaseConn (respClose s1 r) r = q at u ⊢
    obtain ⟨t, o⟩ := q
    cases o <;> exact u

/-- `drain_conn()`: afterwards the response holds no connection, whether the drain succeeded, swallowed
an error or raised — provided the response knows its pool whenever it holds a connection -/
theorem drainConn_unholds {A : Nat → Attempt → Prop} {s : State} {L : List Nat} {r : Nat} (p : Prov A s) (h : InvL s L)
    (hp : ∀ rs : Resp, s.resps[r]? = some rs → rs.conn ≠ none → rs.hasPool = true) :
    ∀ rs' : Resp, (drainConn s r).1.resps[r]? = some rs' → rs'.conn = none := by
  have e : (drainConn s r).1 = (rawRead s r none).1 := by
    unfold drainConn
    generalize rawRead s r none = q
    obtain ⟨t, o⟩ := q
    cases o with
    | data d => rfl
    | exc e => dsimp only; split <;> rfl
  rw [e]
  intro rs' g
  cases hq : rs'.conn with
  | none => rfl
  | some c =>
    obtain ⟨rs, g0, e0⟩ := (rawRead_pres [] s r none).mono.conn r rs' g (by rw [hq]; simp)
    have := rawRead_none_unholds p h g0 (hp rs g0 (by rw [e0, hq]; simp)) rs' g
    rw [hq] at this; cases this

/-! ### `_make_request`: only the response it returns may start holding a connection -/

theorem setResp_holdOnly (s : State) (r : Nat) (f : Resp → Resp) : HoldOnly (some r) s (setResp s r f) := by
  intro i rs' g _
  by_cases hi : i = r
  · exact Or.inl (by rw [hi])
  · refine Or.inr ⟨rs', ?_, rfl⟩
    simp only [setResp, List.getElem?_modify] at g
    cases hx : s.resps[i]? with
    | none => simp [hx] at g
    | some x =>
      simp only [hx, Option.map_eq_map, Option.map_some, Option.some.injEq, if_neg (Ne.symm hi)] at g
      rw [g]

/-- the end of `_make_request` -/
theorem attachResp_hold {s : State} {L : List Nat} {c r : Nat} {rs : Resp} (rc : ReqCfg) (h : InvL s (c :: L))
    (hr : s.resps[r]? = some rs) (hc : rs.conn = none) :
    HoldOnly (some r) s (attachResp s c r rc).1 ∧
    (∀ rs' : Resp, (attachResp s c r rc).1.resps[r]? = some rs' → rs'.conn ≠ none → rs'.hasPool = true) ∧
    (rc.release = true → ∀ rs' : Resp, (attachResp s c r rc).1.resps[r]? = some rs' → rs'.conn = none) := by
  unfold attachResp
  dsimp only
  have ho := setResp_holdOnly s r (fun x => { x with conn := if rc.release = true then none else some c, hasPool := true })
  have hget : (setResp s r fun x => { x with conn := if rc.release = true then none else some c, hasPool := true }).resps[r]?
      = some { rs with conn := if rc.release = true then none else some c, hasPool := true } := by
    simp [setResp, List.getElem?_modify, hr]
  cases hrel : rc.release with
  | true =>
    simp only [hrel, Bool.not_true, Bool.false_and, Bool.false_eq_true, if_false, if_true] at ho hget ⊢
    refine ⟨ho, ?_, ?_⟩
    · intro rs' g hn; rw [hget] at g; cases g; exact absurd rfl hn
    · intro _ rs' g; rw [hget] at g; cases g; rfl
  | false =>
    simp only [hrel, Bool.not_false, Bool.true_and, Bool.false_eq_true, if_false] at ho hget ⊢
    have h1 : InvL (setResp s r fun x => { x with conn := some c, hasPool := true }) L :=
      attach_inv h hr hc _ rfl
    generalize (setResp s r fun x => { x with conn := some c, hasPool := true }) = t at h1 ho hget
    split
    · have u := releaseConn_unholds h1 hget rfl
      have m := (releaseConn_pres [] t r).mono
      generalize releaseConn t r = q at u m
      obtain ⟨t', o⟩ := q
      cases o <;> exact ⟨ho.then_mono m, fun rs' g hn => absurd (u rs' g) hn, fun hf => by cases hf⟩
    · refine ⟨ho, ?_, fun hf => by cases hf⟩
      intro rs' g _; rw [hget] at g; cases g; rfl

theorem makeRequest_hold {s s' : State} {L : List Nat} {c rid : Nat} {a : Attempt} {rc : ReqCfg} {out : RespOut}
    (h : InvL s (c :: L)) (hm : makeRequest s c rid a rc = (s', out)) :
    (∀ e, out = .exc e → HoldOnly none s s') ∧
    (∀ r, out = .resp r → HoldOnly (some r) s s' ∧
      (∀ rs' : Resp, s'.resps[r]? = some rs' → rs'.conn ≠ none → rs'.hasPool = true) ∧
      (rc.release = true → ∀ rs' : Resp, s'.resps[r]? = some rs' → rs'.conn = none)) := by
  have hcl : c < s.conns.length := h.bound c (mem_owned_lease s c L)
  rw [makeRequest_eq] at hm
  have st1 := connRequestH_steps s c rid a rc.badHeader
  have c1 := @connRequestH_cls s (connRequestH s c rid a rc.badHeader).1 c rid a rc.badHeader
  generalize connRequestH s c rid a rc.badHeader = q at hm st1 c1
  obtain ⟨s1, ek⟩ := q
  dsimp only at hm st1 c1
  have h1 : InvL s1 (c :: L) := steps_inv (fun x hx => by simp at hx; subst hx; simp) st1 h
  have m1 : Mono s s1 := Mono.of_steps st1
  have tail : ∀ k : Nat, makeTail s1 c rid rc (.ok k) = (s', out) →
      (∀ e, out = .exc e → HoldOnly none s s') ∧
      (∀ r, out = .resp r → HoldOnly (some r) s s' ∧
        (∀ rs' : Resp, s'.resps[r]? = some rs' → rs'.conn ≠ none → rs'.hasPool = true) ∧
        (rc.release = true → ∀ rs' : Resp, s'.resps[r]? = some rs' → rs'.conn = none)) := by
    intro k ht
    unfold makeTail at ht
    dsimp only at ht
    generalize hgr : getResponse s1 c k rid rc = q at ht
    obtain ⟨s2, o⟩ := q
    obtain ⟨p2, idx, _⟩ := getResponse_pres [c] hgr
    have h2 : InvL s2 (c :: L) := p2.inv _ (fun x hx => by simp at hx; subst hx; simp) h1
    have m2 : Mono s s2 := m1.trans p2.mono
    cases o with
    | exc e =>
      cases ht
      exact ⟨fun _ _ => HoldOnly.of_mono none m2, (by intro r hr; cases hr)⟩
    | resp r =>
      dsimp only at ht
      obtain ⟨i1, i2⟩ := idx r rfl
      have hrs : s2.resps[r]? = some s2.resps[r] := List.getElem?_eq_getElem i2
      have hcn : (s2.resps[r]).conn = none := by
        cases hq : (s2.resps[r]).conn with
        | none => rfl
        | some c' =>
          obtain ⟨rs0, g1, _⟩ := p2.mono.conn r _ hrs (by rw [hq]; simp)
          have := (List.getElem?_eq_some_iff.mp g1).1
          omega
      obtain ⟨a1, _⟩ := attachResp_inv rc h2 hrs hcn
      obtain ⟨b1, b2, b3⟩ := attachResp_hold rc h2 hrs hcn
      rw [ht] at a1 b1 b2 b3
      dsimp only at a1 b1 b2 b3
      subst a1
      refine ⟨(by intro e he; cases he), ?_⟩
      intro r' hr'; cases hr'
      exact ⟨(HoldOnly.of_mono none m2).after_none b1, b2, b3⟩
  cases ek with
  | ok k => exact tail k hm
  | error e =>
    obtain ⟨e1, e2⟩ := c1 hcl rfl
    unfold sendFix at hm
    dsimp only at hm
    split at hm
    · rename_i hsw
      obtain ⟨cn, k, g1, g2⟩ := e2 hsw
      simp only [g1, g2] at hm
      exact tail k hm
    · unfold makeTail at hm
      cases hm
      exact ⟨fun _ _ => HoldOnly.of_mono none m1, (by intro r hr; cases hr)⟩

/-! ### a whole `urlopen` call -/

/-- the response a `urlopen` call handed to its caller -/
def resultResp : Result → Option Nat
  | .resp r => some r
  | _ => none

theorem HoldOnly.of_keepAll {s s' : State} (k : ∀ n, KeepN n s s') : HoldOnly none s s' := by
  intro r rs' g hn
  have hl : r < s'.resps.length := (List.getElem?_eq_some_iff.mp g).1
  exact Or.inr ((k s'.resps.length).old r rs' hl g hn)

/-- a whole `urlopen` call, whatever the script, the configuration and the retry budget: apart from the response
it returns, no response holds a connection afterwards that it did not hold before — the intermediate responses of
a retry / redirect chain have all given their connections back, however the chain ended -/
theorem request_hold {A : Nat → Attempt → Prop} (rid : Nat) : ∀ (script : List Attempt) (s : State) (rc : ReqCfg) (retries : Retry),
    Prov A s → Inv s → (∀ a ∈ script, A rid a) →
    HoldOnly (resultResp (request s rid rc retries script).2) s (request s rid rc retries script).1 := by
  intro script
  induction script with
  | nil => intro s rc retries _ _ _; exact HoldOnly.refl _ _
  | cons a rest ih =>
    intro s rc retries p h hA
    have hA' : ∀ a' ∈ rest, A rid a' := fun a' h => hA a' (List.mem_cons_of_mem _ h)
    have ha : A rid a := hA a (List.mem_cons_self ..)
    have afterDiscard : ∀ (t : State) (x : Option Nat) (e1 : Exc), HoldOnly none s t →
        HoldOnly (resultResp (match discard t x with
          | (s, some e') => (s, Result.raised e')
          | (s, none) => (s, Result.raised e1)).2) s (match discard t x with
          | (s, some e') => (s, Result.raised e')
          | (s, none) => (s, Result.raised e1)).1 := by
      intro t x e1 hs
      have md := discard_mono t x
      generalize discard t x = r at md
      obtain ⟨s2, o⟩ := r
      cases o <;> exact hs.then_mono md
    have afterDiscardRec : ∀ (t : State) (x : Option Nat) (rc' : ReqCfg) (rt : Retry), HoldOnly none s t →
        Prov A (discard t x).1 → Inv (discard t x).1 →
        HoldOnly (resultResp (match discard t x with
          | (s, some e'') => (s, Result.raised e'')
          | (s, none) => request s rid rc' rt rest).2) s (match discard t x with
          | (s, some e'') => (s, Result.raised e'')
          | (s, none) => request s rid rc' rt rest).1 := by
      intro t x rc' rt hs pp pd
      have md := discard_mono t x
      generalize discard t x = r at md pp pd
      obtain ⟨s2, o⟩ := r
      cases o with
      | some e => exact hs.then_mono md
      | none => exact (hs.then_mono md).after_none (ih s2 rc' rt pp pd hA')
    -- an intermediate response is drained: whatever the drain does, it holds nothing afterwards
    have drained : ∀ (t : State) (r : Nat), HoldOnly (some r) s t → Prov A t → Inv t →
        (∀ rs : Resp, t.resps[r]? = some rs → rs.conn ≠ none → rs.hasPool = true) →
        HoldOnly none s (drainConn t r).1 ∧ Prov A (drainConn t r).1 ∧ Inv (drainConn t r).1 := by
      intro t r hs pt it hp
      have pr := drainConn_pres [] t r
      exact ⟨(hs.then_mono pr.mono).drop (drainConn_unholds pt it hp), drainConn_prov pt, pr.inv [] (by simp) it⟩
    have afterDrain : ∀ (t : State) (r : Nat) (e1 : Exc), HoldOnly (some r) s t → Prov A t → Inv t →
        (∀ rs : Resp, t.resps[r]? = some rs → rs.conn ≠ none → rs.hasPool = true) →
        HoldOnly (resultResp (match drainConn t r with
          | (s, some e) => (s, Result.raised e)
          | (s, none) => (s, Result.raised e1)).2) s (match drainConn t r with
          | (s, some e) => (s, Result.raised e)
          | (s, none) => (s, Result.raised e1)).1 := by
      intro t r e1 hs pt it hp
      obtain ⟨d1, _, _⟩ := drained t r hs pt it hp
      generalize drainConn t r = q at d1
      obtain ⟨s2, o⟩ := q
      cases o <;> exact d1
    have afterDrainRec : ∀ (t : State) (r : Nat) (w : Option Exc) (rc' : ReqCfg) (rt : Retry), HoldOnly (some r) s t →
        Prov A t → Inv t → (∀ rs : Resp, t.resps[r]? = some rs → rs.conn ≠ none → rs.hasPool = true) →
        HoldOnly (resultResp (match drainConn t r with
          | (s, some e) => (s, Result.raised e)
          | (s, none) =>
            match w with
            | some e => (s, Result.raised e)
            | none => request s rid rc' rt rest).2) s (match drainConn t r with
          | (s, some e) => (s, Result.raised e)
          | (s, none) =>
            match w with
            | some e => (s, Result.raised e)
            | none => request s rid rc' rt rest).1 := by
      intro t r w rc' rt hs pt it hp
      obtain ⟨d1, d2, d3⟩ := drained t r hs pt it hp
      generalize drainConn t r = q at d1 d2 d3
      obtain ⟨s2, o⟩ := q
      cases o with
      | some e => exact d1
      | none =>
        cases w with
        | some e => exact d1
        | none => exact d1.after_none (ih s2 rc' rt d2 d3 hA')
    rw [request]
    -- a failure before the `try:` changes nothing
    cases preflight rc a with
    | some e0 => exact HoldOnly.refl _ _
    | none =>
    dsimp only
    -- a `pool_timeout` that `queue.get` rejects: `ValueError` out of `_get_conn`, the state is untouched
    rcases getConnT_cases s rc.badPoolTimeout with hT | ⟨hT, -⟩
    rotate_left
    · rw [hT]
      dsimp only
      have pp := (discard_safe s none).prov p
      have pd := discard_none_inv h
      split
      · exact HoldOnly.refl _ _
      · exact afterDiscard s none _ (HoldOnly.refl _ _)
      · exact afterDiscard s none _ (HoldOnly.refl _ _)
      · exact afterDiscardRec s none _ _ (HoldOnly.refl _ _) pp pd
    rw [hT]
    have kg : HoldOnly none s (getConn s).1 := HoldOnly.of_keepAll (getConn_keep s)
    generalize hg : getConn s = res at kg
    obtain ⟨s1, eg⟩ := res
    have p1 : Prov A s1 := by have := (getConn_safe s).prov p; rw [hg] at this; exact this
    dsimp only at kg
    cases eg with
    | error e =>
      dsimp only
      obtain ⟨rfl, _⟩ := getConn_error_cases hg
      have hcls := getConn_error_cls hg
      have pp := (discard_safe s1 none).prov p1
      split
      · exact HoldOnly.refl _ _
      all_goals
        rename_i hh
        rcases hcls with ⟨hcl, _⟩ | hcl
        · have pd := discard_none_inv h
          first
            | exact afterDiscard s1 none _ kg
            | exact afterDiscardRec s1 none _ _ kg pp pd
        · rw [hcl, handleError_emptyPool] at hh
          cases hh
    | ok c =>
      dsimp only
      have h1 : InvL s1 [c] := getConn_inv h hg
      have hl := getConn_lease hg
      generalize hm : makeRequest s1 c rid a rc = res
      obtain ⟨s2, o⟩ := res
      obtain ⟨okr, oke, _⟩ := makeRequest_inv h1 hm
      obtain ⟨okp, okep⟩ := makeRequest_spec p1 hl ha hm
      obtain ⟨hex, hre⟩ := makeRequest_hold h1 hm
      cases o with
      | exc e =>
        dsimp only
        obtain ⟨h2, _⟩ := oke e rfl
        obtain ⟨pc, _⟩ := okep e rfl
        have k2 : HoldOnly none s s2 := kg.after_none (hex e rfl)
        have pd : Inv (discard s2 (some c)).1 := discard_lease_inv h2
        have pp := discard_some_prov pc
        split
        · exact k2
        · exact afterDiscard _ _ _ k2
        · exact afterDiscard _ _ _ k2
        · exact afterDiscardRec _ _ _ _ k2 pp pd
      | resp r =>
        dsimp only
        have h2 := okr r rfl
        have p2 := okp r rfl
        obtain ⟨b1, b2, b3⟩ := hre r rfl
        have k2 : HoldOnly (some r) s s2 := kg.after_none b1
        have lp : Inv (if rc.release = true then putConn s2 (some c) else (s2, none)).1 := by
          split
          · rename_i hrel
            rw [if_pos hrel] at h2
            exact putConn_lease_inv h2
          · rename_i hrel
            rw [if_neg hrel] at h2
            exact h2
        have pp : Prov A (if rc.release = true then putConn s2 (some c) else (s2, none)).1 := by
          split
          · exact (putConn_safe s2 (some c)).prov p2
          · exact p2
        have lk : HoldOnly (some r) s (if rc.release = true then putConn s2 (some c) else (s2, none)).1 := by
          split
          · exact k2.then_mono (putConn_mono s2 (some c))
          · exact k2
        -- with `release_conn` the response never got hold of the connection
        have lr : rc.release = true → ∀ rs : Resp,
            (if rc.release = true then putConn s2 (some c) else (s2, none)).1.resps[r]? = some rs → rs.conn = none := by
          intro hrel rs g
          rw [if_pos hrel] at g
          cases hq : rs.conn with
          | none => rfl
          | some c' =>
            obtain ⟨rs0, g0, e0⟩ := (putConn_mono s2 (some c)).conn r rs g (by rw [hq]; simp)
            have := b3 hrel rs0 g0
            rw [e0, hq] at this; cases this
        have lf : ∀ rs : Resp, (if rc.release = true then putConn s2 (some c) else (s2, none)).1.resps[r]? = some rs →
            rs.conn ≠ none → rs.hasPool = true := by
          intro rs g hn
          cases hrel : rc.release with
          | true => exact absurd (lr hrel rs g) hn
          | false => rw [if_neg (by simp [hrel])] at g; exact b2 rs g hn
        have lx : ∀ e, (if rc.release = true then putConn s2 (some c) else (s2, none)).2 = some e → rc.release = true := by
          intro e he
          split at he
          · rename_i hrel; exact hrel
          · cases he
        generalize (if rc.release = true then putConn s2 (some c) else (s2, none)) = q at lp pp lk lr lf lx ⊢
        obtain ⟨s3, o3⟩ := q
        cases o3 with
        | some e => exact lk.drop (lr (lx e rfl))
        | none =>
          dsimp only at lp pp lk lf ⊢
          have fin : ∀ (loc ra : Bool) (status : Nat) (w : Option Exc),
              HoldOnly (resultResp
              (if (rc.redirect && isRedirect s3 r loc) = true then
                match retries.incrementResp with
                | none =>
                  if retries.raiseOnRedirect = true then
                    match drainConn s3 r with
                    | (s, some e) => (s, Result.raised e)
                    | (s, none) => (s, Result.raised (exc Gen.cU3MaxRetryError))
                  else (markReturned s3 r, Result.resp r)
                | some retries' =>
                  match drainConn s3 r with
                  | (s, some e) => (s, Result.raised e)
                  | (s, none) =>
                    match w with
                    | some e => (s, Result.raised e)
                    | none => request s rid (if (status == 303) = true then rc.seeOther else rc.hop) retries' rest
              else if retries.isRetry rc.methodRetryable status ra = true then
                match retries.incrementResp with
                | none =>
                  match drainConn s3 r with
                  | (s, some e) => (s, Result.raised e)
                  | (s, none) => (s, Result.raised (exc Gen.cU3MaxRetryError))
                | some retries' =>
                  match drainConn s3 r with
                  | (s, some e) => (s, Result.raised e)
                  | (s, none) =>
                    match w with
                    | some e => (s, Result.raised e)
                    | none => request s rid rc.hop retries' rest
              else (markReturned s3 r, Result.resp r)).2) s
              (if (rc.redirect && isRedirect s3 r loc) = true then
                match retries.incrementResp with
                | none =>
                  if retries.raiseOnRedirect = true then
                    match drainConn s3 r with
                    | (s, some e) => (s, Result.raised e)
                    | (s, none) => (s, Result.raised (exc Gen.cU3MaxRetryError))
                  else (markReturned s3 r, Result.resp r)
                | some retries' =>
                  match drainConn s3 r with
                  | (s, some e) => (s, Result.raised e)
                  | (s, none) =>
                    match w with
                    | some e => (s, Result.raised e)
                    | none => request s rid (if (status == 303) = true then rc.seeOther else rc.hop) retries' rest
              else if retries.isRetry rc.methodRetryable status ra = true then
                match retries.incrementResp with
                | none =>
                  match drainConn s3 r with
                  | (s, some e) => (s, Result.raised e)
                  | (s, none) => (s, Result.raised (exc Gen.cU3MaxRetryError))
                | some retries' =>
                  match drainConn s3 r with
                  | (s, some e) => (s, Result.raised e)
                  | (s, none) =>
                    match w with
                    | some e => (s, Result.raised e)
                    | none => request s rid rc.hop retries' rest
              else (markReturned s3 r, Result.resp r)).1 := by
            intro loc ra status w
            have mr : HoldOnly (some r) s (markReturned s3 r) := lk.then_mono (markReturned_mono s3 r)
            split
            · split
              · split
                · exact afterDrain _ _ _ lk pp lp lf
                · exact mr
              · exact afterDrainRec _ _ _ _ _ lk pp lp lf
            · split
              · split
                · exact afterDrain _ _ _ lk pp lp lf
                · exact afterDrainRec _ _ _ _ _ lk pp lp lf
              · exact mr
          exact fin _ _ _ _

/-- the provenance invariant (with the trivial predicate on attempts) holds after every history -/
theorem prov_reachable (n : Nat) (block proxy : Bool) (ops : List Op) :
    Prov (fun _ _ => True) (run (init n block proxy) ops) :=
  run_prov_gen ops _ (init_prov _ n block proxy) (fun _ _ _ _ _ _ _ _ _ => trivial)

end U3.Pool
