import U3.Model.Retry
/-! Helper lemmas about `U3.Retry` (used by `U3.Props.C04`). -/
namespace U3.Retry
open U3

/-! ### `__init__` / `new` keep everything except `redirect` / `raise_on_redirect` -/
namespace Retry

@[simp] theorem init_total (p : Retry) : (init p).total = p.total := by unfold init; dsimp only; split <;> rfl
@[simp] theorem init_connect (p : Retry) : (init p).connect = p.connect := by unfold init; dsimp only; split <;> rfl
@[simp] theorem init_read (p : Retry) : (init p).read = p.read := by unfold init; dsimp only; split <;> rfl
@[simp] theorem init_status (p : Retry) : (init p).status = p.status := by unfold init; dsimp only; split <;> rfl
@[simp] theorem init_other (p : Retry) : (init p).other = p.other := by unfold init; dsimp only; split <;> rfl
@[simp] theorem init_allowedMethods (p : Retry) : (init p).allowedMethods = p.allowedMethods := by
  unfold init; dsimp only; split <;> rfl
@[simp] theorem init_statusForcelist (p : Retry) : (init p).statusForcelist = p.statusForcelist := by
  unfold init; dsimp only; split <;> rfl
@[simp] theorem init_backoffFactor (p : Retry) : (init p).backoffFactor = p.backoffFactor := by
  unfold init; dsimp only; split <;> rfl
@[simp] theorem init_backoffMax (p : Retry) : (init p).backoffMax = p.backoffMax := by
  unfold init; dsimp only; split <;> rfl
@[simp] theorem init_raiseOnStatus (p : Retry) : (init p).raiseOnStatus = p.raiseOnStatus := by
  unfold init; dsimp only; split <;> rfl
@[simp] theorem init_respectRetryAfter (p : Retry) : (init p).respectRetryAfter = p.respectRetryAfter := by
  unfold init; dsimp only; split <;> rfl
@[simp] theorem init_history (p : Retry) : (init p).history = p.history := by unfold init; dsimp only; split <;> rfl


/-- the fields no retry operation touches -/
structure SameConfig (a b : Retry) : Prop where
  allowedMethods : b.allowedMethods = a.allowedMethods
  statusForcelist : b.statusForcelist = a.statusForcelist
  backoffFactor : b.backoffFactor = a.backoffFactor
  backoffMax : b.backoffMax = a.backoffMax
  raiseOnStatus : b.raiseOnStatus = a.raiseOnStatus
  respectRetryAfter : b.respectRetryAfter = a.respectRetryAfter

theorem SameConfig.refl (a : Retry) : SameConfig a a := ⟨rfl, rfl, rfl, rfl, rfl, rfl⟩

theorem SameConfig.trans {a b c : Retry} (h₁ : SameConfig a b) (h₂ : SameConfig b c) : SameConfig a c :=
  ⟨h₂.1.trans h₁.1, h₂.2.trans h₁.2, h₂.3.trans h₁.3, h₂.4.trans h₁.4, h₂.5.trans h₁.5, h₂.6.trans h₁.6⟩

theorem new_sameConfig (r : Retry) (t c rd rdr s o : Count) (h : List Hist) :
    SameConfig r (r.new t c rd rdr s o h) := by
  constructor <;> simp [new]

theorem isMethodRetryable_congr {a b : Retry} (h : SameConfig a b) (m : Str) :
    b.isMethodRetryable m = a.isMethodRetryable m := by
  simp [isMethodRetryable, h.allowedMethods]

/-! ### `is_exhausted` -/

theorem foldl_min_lt (xs : List Int) (x : Int) :
    xs.foldl min x < 0 ↔ x < 0 ∨ ∃ y ∈ xs, y < 0 := by
  induction xs generalizing x with
  | nil => simp
  | cons y ys ih =>
    simp only [List.foldl_cons, ih, List.mem_cons, exists_eq_or_imp]
    have : min x y < 0 ↔ x < 0 ∨ y < 0 := by omega
    rw [this, or_assoc]

theorem mem_retryCounts {r : Retry} {n : Int} :
    n ∈ r.retryCounts ↔ Count.num n ∈ r.counters ∧ n ≠ 0 := by
  unfold retryCounts
  simp only [List.mem_filterMap]
  constructor
  · rintro ⟨c, hc, h⟩
    cases c <;> simp at h
    obtain ⟨h0, rfl⟩ := h
    exact ⟨hc, h0⟩
  · rintro ⟨hc, h0⟩
    exact ⟨_, hc, by simp [h0]⟩

/-- `is_exhausted()` ⇔ some counter is a negative number -/
theorem isExhausted_iff (r : Retry) :
    r.isExhausted = true ↔ ∃ n : Int, Count.num n ∈ r.counters ∧ n < 0 := by
  unfold isExhausted
  split
  · rename_i h
    simp only [Bool.false_eq_true, false_iff, not_exists, not_and]
    intro n hn hlt
    have : n ∈ r.retryCounts := mem_retryCounts.2 ⟨hn, by omega⟩
    simp [h] at this
  · rename_i x xs h
    simp only [decide_eq_true_eq, foldl_min_lt]
    constructor
    · intro hx
      have : ∃ y ∈ r.retryCounts, y < 0 := by
        rw [h]; simpa using hx
      obtain ⟨y, hy, hlt⟩ := this
      exact ⟨y, (mem_retryCounts.1 hy).1, hlt⟩
    · rintro ⟨n, hn, hlt⟩
      have : n ∈ r.retryCounts := mem_retryCounts.2 ⟨hn, by omega⟩
      rw [h] at this
      rcases List.mem_cons.1 this with rfl | hm
      · exact Or.inl hlt
      · exact Or.inr ⟨n, hm, hlt⟩

theorem nonneg_of_not_exhausted {r : Retry} (h : r.isExhausted = false) {n : Int}
    (hc : Count.num n ∈ r.counters) : 0 ≤ n := by
  by_cases hn : 0 ≤ n
  · exact hn
  · have : r.isExhausted = true := (isExhausted_iff r).2 ⟨n, hc, by omega⟩
    simp [h] at this


/-! ### `increment` -/

theorem new_history (r : Retry) (t c rd rdr s o : Count) (h : List Hist) :
    (r.new t c rd rdr s o h).history = h := by simp [new]

theorem finish_ok {r : Retry} {t c rd rdr s o : Count} {h : Hist} {reason : Cause} {r' : Retry}
    (hf : finish r t c rd rdr s o h reason = .ok r') :
    r' = r.new t c rd rdr s o (r.history ++ [h]) ∧ r'.isExhausted = false := by
  unfold finish at hf
  dsimp only at hf
  split at hf
  · cases hf
  · rename_i hx
    cases hf
    exact ⟨rfl, by simpa using hx⟩

theorem finish_error {r : Retry} {t c rd rdr s o : Count} {h : Hist} {reason : Cause} {x : Raise}
    (hf : finish r t c rd rdr s o h reason = .error x) : x = .maxRetry reason := by
  unfold finish at hf
  dsimp only at hf
  split at hf
  · cases hf; rfl
  · cases hf

end Retry

/-- the per-category budgets of the property (`redirect` belongs to C05) -/
inductive Cat where
  | connect | read | status | other
  deriving DecidableEq, Repr

def Retry.counter (r : Retry) : Cat → Count
  | .connect => r.connect
  | .read => r.read
  | .status => r.status
  | .other => r.other

/-- the branch of `increment` an error takes -/
def errCat (e : Err) : Cat :=
  if isConnectionError e then .connect else if isReadError e then .read else .other

/-- the counter an event is charged to (besides `total`) -/
def Event.cat : Event → Option Cat
  | .error e => some (errCat e)
  | .status st => if st != 0 then some .status else none
  | _ => none

namespace Retry

theorem counter_mem (r : Retry) (c : Cat) : r.counter c ∈ r.counters := by
  cases c <;> simp [counter, counters]

/-- everything `increment` does when it returns -/
theorem increment_ok {r : Retry} {m : Option Str} {ev : Event} {r' : Retry}
    (h : r.increment m ev = .ok r') :
    r'.total = r.total.dec ∧ r'.isExhausted = false ∧ SameConfig r r' ∧
    (∀ c, r'.counter c = if ev.cat = some c then (r.counter c).dec else r.counter c) ∧
    (∃ e, r'.history = r.history ++ [e]) ∧
    (∀ e, ev = .error e → r.total ≠ .disabled ∧
      (errCat e = .read → ∃ mm, m = some mm ∧ r.isMethodRetryable mm = true)) := by
  unfold increment at h
  cases ev with
  | error e =>
    simp only at h
    split at h
    · cases h
    · rename_i htot
      by_cases hc : isConnectionError e = true
      · simp only [hc, if_true] at h
        split at h
        · cases h
        · obtain ⟨rfl, hex⟩ := finish_ok h
          refine ⟨by simp [new], hex, new_sameConfig .., ?_, ⟨_, new_history ..⟩, ?_⟩
          · intro c; cases c <;> simp [counter, new, Event.cat, errCat, hc]
          · intro e' he; cases he
            exact ⟨htot, by simp [errCat, hc]⟩
      · simp only [hc] at h
        by_cases hr : isReadError e = true
        · simp only [hr, if_true, Bool.false_eq_true, if_false] at h
          split at h
          · cases h
          · rename_i hg
            obtain ⟨rfl, hex⟩ := finish_ok h
            refine ⟨by simp [new], hex, new_sameConfig .., ?_, ⟨_, new_history ..⟩, ?_⟩
            · intro c; cases c <;> simp [counter, new, Event.cat, errCat, hc, hr]
            · intro e' he; cases he
              refine ⟨htot, fun _ => ?_⟩
              cases m with
              | none => simp at hg
              | some mm => exact ⟨mm, rfl, (by simpa using hg : _ ∧ _).2⟩
        · simp only [hr, Bool.false_eq_true, if_false] at h
          obtain ⟨rfl, hex⟩ := finish_ok h
          refine ⟨by simp [new], hex, new_sameConfig .., ?_, ⟨_, new_history ..⟩, ?_⟩
          · intro c; cases c <;> simp [counter, new, Event.cat, errCat, hc, hr]
          · intro e' he; cases he
            exact ⟨htot, by simp [errCat, hc, hr]⟩
  | redirect st =>
    simp only at h
    obtain ⟨rfl, hex⟩ := finish_ok h
    refine ⟨by simp [new], hex, new_sameConfig .., ?_, ⟨_, new_history ..⟩, by intro e he; cases he⟩
    intro c; cases c <;> simp [counter, new, Event.cat]
  | status st =>
    simp only at h
    split at h
    · rename_i hst
      obtain ⟨rfl, hex⟩ := finish_ok h
      refine ⟨by simp [new], hex, new_sameConfig .., ?_, ⟨_, new_history ..⟩, by intro e he; cases he⟩
      intro c; cases c <;> simp [counter, new, Event.cat, hst]
    · rename_i hst
      obtain ⟨rfl, hex⟩ := finish_ok h
      refine ⟨by simp [new], hex, new_sameConfig .., ?_, ⟨_, new_history ..⟩, by intro e he; cases he⟩
      intro c; cases c <;> simp [counter, new, Event.cat, hst]
  | nothing =>
    simp only at h
    obtain ⟨rfl, hex⟩ := finish_ok h
    refine ⟨by simp [new], hex, new_sameConfig .., ?_, ⟨_, new_history ..⟩, by intro e he; cases he⟩
    intro c; cases c <;> simp [counter, new, Event.cat]

/-- what `increment` raises: the error itself, or `MaxRetryError` whose reason is the error / the
`ResponseError` for the response it was given -/
def Event.reason : Event → Cause
  | .error e => .error e
  | .redirect _ => .response .tooManyRedirects
  | .status st => if st != 0 then .response (.specific st) else .response .generic
  | .nothing => .response .generic

theorem increment_error {r : Retry} {m : Option Str} {ev : Event} {x : Raise}
    (h : r.increment m ev = .error x) :
    x = .maxRetry (Event.reason ev) ∨ (∃ e, ev = .error e ∧ x = .reraise e) := by
  unfold increment at h
  cases ev with
  | error e =>
    simp only at h
    split at h
    · cases h; exact Or.inr ⟨e, rfl, rfl⟩
    · split at h
      · split at h
        · cases h; exact Or.inr ⟨e, rfl, rfl⟩
        · exact Or.inl (finish_error h)
      · split at h
        · split at h
          · cases h; exact Or.inr ⟨e, rfl, rfl⟩
          · exact Or.inl (finish_error h)
        · exact Or.inl (finish_error h)
  | redirect st => simp only at h; exact Or.inl (finish_error h)
  | status st =>
    simp only at h
    split at h
    · rename_i hst; exact Or.inl (by simpa [Event.reason, hst] using finish_error h)
    · rename_i hst; exact Or.inl (by simpa [Event.reason, hst] using finish_error h)
  | nothing => simp only at h; exact Or.inl (finish_error h)

end Retry

/-! ### the `urlopen` loop in normal form -/

/-- what `urlopen` hands to `increment` after the attempt -/
def eventOf (cfg : Cfg) : Outcome → Event
  | .response st _ => .status st
  | o => .error (translate cfg o)

def respOf : Outcome → Option Resp
  | .response st ra => some ⟨st, ra⟩
  | _ => none

/-- does `urlopen` ask `Retry` for another attempt (always after an error; after a response only
when `is_retry` says so) -/
def wants (r : Retry) (m : Str) : Outcome → Bool
  | .response st ra => r.isRetry m st ra.isSome
  | _ => true

/-- the counter an attempt is charged to by the code -/
def chargedTo (cfg : Cfg) (o : Outcome) : Option Cat := (eventOf cfg o).cat

/-- what `urlopen` does with an exception from `increment` -/
def stopResult (r : Retry) (o : Outcome) : Raise → Result
  | .reraise e => .reraised e
  | .maxRetry c =>
    match o with
    | .response st _ => if r.raiseOnStatus then .maxRetry c else .response st
    | _ => .maxRetry c

theorem run_unwanted {cfg : Cfg} {r : Retry} {m : Str} {o : Outcome} {rest : List Outcome}
    (h : wants r m o = false) :
    ∃ st ra, o = .response st ra ∧ runAttempts cfg r m (o :: rest) = .stop o (.response st) := by
  cases o with
  | response st ra => exact ⟨st, ra, rfl, by simp [wants] at h; simp [runAttempts, h]⟩
  | _ => simp [wants] at h

theorem run_ok {cfg : Cfg} {r r' : Retry} {m : Str} {o : Outcome} {rest : List Outcome}
    (hw : wants r m o = true) (hi : r.increment (some m) (eventOf cfg o) = .ok r') :
    runAttempts cfg r m (o :: rest) = .cons o (r'.sleep (respOf o)) (runAttempts cfg r' m rest) := by
  cases o with
  | response st ra =>
    simp only [wants] at hw
    simp only [eventOf] at hi
    simp [runAttempts, hw, hi, respOf]
  | connectError k => simp only [eventOf] at hi; simp [runAttempts, hi, respOf]
  | readError k => simp only [eventOf] at hi; simp [runAttempts, hi, respOf]
  | otherError => simp only [eventOf] at hi; simp [runAttempts, hi, respOf]

theorem run_err {cfg : Cfg} {r : Retry} {m : Str} {o : Outcome} {rest : List Outcome} {x : Raise}
    (hw : wants r m o = true) (hi : r.increment (some m) (eventOf cfg o) = .error x) :
    runAttempts cfg r m (o :: rest) = .stop o (stopResult r o x) := by
  cases o with
  | response st ra =>
    simp only [wants] at hw
    simp only [eventOf] at hi
    cases x <;> simp [runAttempts, hw, hi, stopResult] <;> split <;> rfl
  | connectError k => simp only [eventOf] at hi; cases x <;> simp [runAttempts, hi, stopResult]
  | readError k => simp only [eventOf] at hi; cases x <;> simp [runAttempts, hi, stopResult]
  | otherError => simp only [eventOf] at hi; cases x <;> simp [runAttempts, hi, stopResult]

theorem stopResult_ne_out (r : Retry) (o : Outcome) (x : Raise) : stopResult r o x ≠ .outOfScript := by
  cases x with
  | reraise e => simp [stopResult]
  | maxRetry c => cases o <;> simp [stopResult] <;> split <;> simp

/-- the three ways one attempt can end -/
inductive StepCase (cfg : Cfg) (r : Retry) (m : Str) (o : Outcome) (rest : List Outcome) : Prop where
  | returned (st : Nat) (ra : Option Nat) (ho : o = .response st ra) (hw : wants r m o = false)
      (h : runAttempts cfg r m (o :: rest) = .stop o (.response st))
  | raised (x : Raise) (hw : wants r m o = true)
      (hi : r.increment (some m) (eventOf cfg o) = .error x)
      (h : runAttempts cfg r m (o :: rest) = .stop o (stopResult r o x))
  | again (r' : Retry) (hw : wants r m o = true)
      (hi : r.increment (some m) (eventOf cfg o) = .ok r')
      (h : runAttempts cfg r m (o :: rest) = .cons o (r'.sleep (respOf o)) (runAttempts cfg r' m rest))

theorem run_cases (cfg : Cfg) (r : Retry) (m : Str) (o : Outcome) (rest : List Outcome) :
    StepCase cfg r m o rest := by
  cases hw : wants r m o with
  | false =>
    obtain ⟨st, ra, ho, h⟩ := run_unwanted (cfg := cfg) (rest := rest) hw
    exact .returned st ra ho hw h
  | true =>
    cases hi : r.increment (some m) (eventOf cfg o) with
    | error x => exact .raised x hw hi (run_err hw hi)
    | ok r' => exact .again r' hw hi (run_ok hw hi)

theorem run_attempts_ne_nil (cfg : Cfg) (r : Retry) (m : Str) (script : List Outcome)
    (h : (runAttempts cfg r m script).result ≠ .outOfScript) :
    (runAttempts cfg r m script).attempts ≠ [] := by
  cases script with
  | nil => simp [runAttempts] at h
  | cons o rest =>
    cases run_cases cfg r m o rest with
    | returned st ra ho hw hr => simp [hr, Run.stop]
    | raised x hw hi hr => simp [hr, Run.stop]
    | again r' hw hi hr => simp [hr, Run.cons]

theorem retried_stop (o : Outcome) (res : Result) (h : res ≠ .outOfScript) :
    (Run.stop o res).retried = [] := by
  simp [Run.retried, Run.stop, h]

theorem retried_cons (o : Outcome) (s : Option Int) (x : Run)
    (h : x.result ≠ .outOfScript → x.attempts ≠ []) :
    (Run.cons o s x).retried = ⟨o, s⟩ :: x.retried := by
  unfold Run.retried Run.cons
  by_cases hr : x.result = .outOfScript
  · simp [hr]
  · simp only [hr, if_false]
    exact List.dropLast_cons_of_ne_nil (h hr)

theorem isRetry_true {r : Retry} {m : Str} {st : Nat} {h : Bool} (hr : r.isRetry m st h = true) :
    r.isMethodRetryable m = true ∧
    (st ∈ r.statusForcelist ∨
      (st ∈ Gen.retryAfterStatusCodes ∧ h = true ∧ r.respectRetryAfter = true ∧ r.total.truthy = true)) := by
  unfold Retry.isRetry at hr
  split at hr
  · cases hr
  · rename_i hm
    refine ⟨by simpa using hm, ?_⟩
    split at hr
    · rename_i hf
      simp only [Bool.and_eq_true, List.contains_iff_mem] at hf
      exact Or.inl (by simpa using hf.2)
    · simp only [Bool.and_eq_true, List.contains_iff_mem] at hr
      exact Or.inr ⟨by simpa using hr.2, hr.1.2, hr.1.1.2, hr.1.1.1⟩

theorem getBackoffTime_pos_le (r : Retry) (h : 0 < r.getBackoffTime) :
    r.getBackoffTime ≤ r.backoffMax := by
  unfold Retry.getBackoffTime at h ⊢
  dsimp only at h ⊢
  split
  · rename_i hn; simp only [hn, if_true] at h; omega
  · rename_i hn
    simp only [hn, if_false] at h
    generalize r.backoffFactor * (2 : Int) ^ (r.consecutiveErrors - 1) = v at h ⊢
    omega

theorem sleepBackoff_bound {r : Retry} {t : Int} (h : r.sleepBackoff = some t) :
    0 < t ∧ t ≤ r.backoffMax := by
  unfold Retry.sleepBackoff at h
  dsimp only at h
  split at h
  · cases h
  · rename_i hb
    injection h with h
    subst h
    exact ⟨by omega, getBackoffTime_pos_le r (by omega)⟩

theorem sleep_bound {r : Retry} {resp : Option Resp} {t : Int} (h : r.sleep resp = some t) :
    (0 < t ∧ t ≤ r.backoffMax) ∨
    (r.respectRetryAfter = true ∧ ∃ rs n, resp = some rs ∧ rs.retryAfter = some n ∧ n ≠ 0 ∧ t = ticks * n) := by
  unfold Retry.sleep at h
  split at h
  · rename_i rs
    split at h
    · rename_i hrr
      split at h
      · rename_i t' hs
        cases h
        right
        refine ⟨hrr, rs, ?_⟩
        unfold Retry.sleepForRetry at hs
        split at hs
        · rename_i n hn
          split at hs
          · rename_i h0
            cases hs
            exact ⟨n, rfl, hn, by simpa using h0, rfl⟩
          · cases hs
        · cases hs
      · exact Or.inl (sleepBackoff_bound h)
    · exact Or.inl (sleepBackoff_bound h)
  · exact Or.inl (sleepBackoff_bound h)

/-- `"POST"`, `"GET"` as code points (used in the non-vacuity examples and the witness) -/
def POST : Str := [80, 79, 83, 84]
def GET : Str := [71, 69, 84]

/-- the request may have reached the server: a read error or a response -/
def reachedServer : Outcome → Bool
  | .readError _ => true
  | .response _ _ => true
  | _ => false

end U3.Retry
