import U3.Model.Retry
/-! Helper lemmas about `U3.Retry` (used by `U3.Props.C04`). -/
namespace U3.Retry
open U3

/-! ### `__init__` / `new` keep everything except `redirect` / `raise_on_redirect` -/
namespace Retry

@[simp] theorem init_total (p : Retry) : (init p).total = p.total := by unfold init; dsimp only; split <;> rfl
@[simp] theorem init_connect (p : Retry) : (init p).connect = p.connect := by unfold init; dsimp only; split <;> rfl
@[simp] theorem init_read (p : Retry) : (init p).read = p.read := by unfold init; dsimp only; split <;> rfl
@[simp] theorem init_status (p : Retry) : (init p).status = p.status := by unfold init; dsimp only; split <;> rfl
@[simp] theorem init_other (p : Retry) : (init p).other = p.other := by unfold init; dsimp only; split <;> rfl
@[simp] theorem init_allowedMethods (p : Retry) : (init p).allowedMethods = p.allowedMethods := by
  unfold init; dsimp only; split <;> rfl
@[simp] theorem init_statusForcelist (p : Retry) : (init p).statusForcelist = p.statusForcelist := by
  unfold init; dsimp only; split <;> rfl
@[simp] theorem init_backoffFactor (p : Retry) : (init p).backoffFactor = p.backoffFactor := by
  unfold init; dsimp only; split <;> rfl
@[simp] theorem init_backoffMax (p : Retry) : (init p).backoffMax = p.backoffMax := by
  unfold init; dsimp only; split <;> rfl
@[simp] theorem init_raiseOnStatus (p : Retry) : (init p).raiseOnStatus = p.raiseOnStatus := by
  unfold init; dsimp only; split <;> rfl
@[simp] theorem init_respectRetryAfter (p : Retry) : (init p).respectRetryAfter = p.respectRetryAfter := by
  unfold init; dsimp only; split <;> rfl
@[simp] theorem init_history (p : Retry) : (init p).history = p.history := by unfold init; dsimp only; split <;> rfl


theorem _root_.U3.Retry.Count.dec_ne_disabled (c : Count) : c.dec ≠ .disabled := by
  cases c <;> simp [Count.dec]

/-- `__init__` rewrites `redirect` only when it is `False` or `total` is `False`; the budget of
`False` and of the `0` that replaces it are the same -/
theorem init_redirect_budget (p : Retry) (h : p.total ≠ .disabled) :
    (init p).redirect.budget = p.redirect.budget := by
  unfold init
  dsimp only
  split
  · rename_i hc
    rcases hc with hc | hc
    · simp [hc, Count.budget]
    · exact absurd hc h
  · rfl

theorem init_redirect_eq (p : Retry) (h : p.total ≠ .disabled) (h' : p.redirect ≠ .disabled) :
    (init p).redirect = p.redirect := by
  unfold init
  dsimp only
  split
  · rename_i hc
    rcases hc with hc | hc
    · exact absurd hc h'
    · exact absurd hc h
  · rfl

/-- `raise_on_redirect` is never switched on -/
theorem init_raiseOnRedirect (p : Retry) (h : (init p).raiseOnRedirect = true) : p.raiseOnRedirect = true := by
  unfold init at h
  dsimp only at h
  split at h
  · simp at h
  · exact h

/-- the fields no retry operation touches -/
structure SameConfig (a b : Retry) : Prop where
  allowedMethods : b.allowedMethods = a.allowedMethods
  statusForcelist : b.statusForcelist = a.statusForcelist
  backoffFactor : b.backoffFactor = a.backoffFactor
  backoffMax : b.backoffMax = a.backoffMax
  raiseOnStatus : b.raiseOnStatus = a.raiseOnStatus
  respectRetryAfter : b.respectRetryAfter = a.respectRetryAfter

theorem SameConfig.refl (a : Retry) : SameConfig a a := ⟨rfl, rfl, rfl, rfl, rfl, rfl⟩

theorem SameConfig.trans {a b c : Retry} (h₁ : SameConfig a b) (h₂ : SameConfig b c) : SameConfig a c :=
  ⟨h₂.1.trans h₁.1, h₂.2.trans h₁.2, h₂.3.trans h₁.3, h₂.4.trans h₁.4, h₂.5.trans h₁.5, h₂.6.trans h₁.6⟩

theorem new_sameConfig (r : Retry) (t c rd rdr s o : Count) (h : List Hist) :
    SameConfig r (r.new t c rd rdr s o h) := by
  constructor <;> simp [new]

theorem isMethodRetryable_congr {a b : Retry} (h : SameConfig a b) (m : Str) :
    b.isMethodRetryable m = a.isMethodRetryable m := by
  simp [isMethodRetryable, h.allowedMethods]

/-! ### `is_exhausted` -/

theorem foldl_min_lt (xs : List Int) (x : Int) :
    xs.foldl min x < 0 ↔ x < 0 ∨ ∃ y ∈ xs, y < 0 := by
  induction xs generalizing x with
  | nil => simp
  | cons y ys ih =>
    simp only [List.foldl_cons, ih, List.mem_cons, exists_eq_or_imp]
    have : min x y < 0 ↔ x < 0 ∨ y < 0 := by omega
    rw [this, or_assoc]

theorem mem_retryCounts {r : Retry} {n : Int} :
    n ∈ r.retryCounts ↔ Count.num n ∈ r.counters ∧ n ≠ 0 := by
  unfold retryCounts
  simp only [List.mem_filterMap]
  constructor
  · rintro ⟨c, hc, h⟩
    cases c <;> simp at h
    obtain ⟨h0, rfl⟩ := h
    exact ⟨hc, h0⟩
  · rintro ⟨hc, h0⟩
    exact ⟨_, hc, by simp [h0]⟩

/-- `is_exhausted()` ⇔ some counter is a negative number -/
theorem isExhausted_iff (r : Retry) :
    r.isExhausted = true ↔ ∃ n : Int, Count.num n ∈ r.counters ∧ n < 0 := by
  unfold isExhausted
  split
  · rename_i h
    simp only [Bool.false_eq_true, false_iff, not_exists, not_and]
    intro n hn hlt
    have : n ∈ r.retryCounts := mem_retryCounts.2 ⟨hn, by omega⟩
    simp [h] at this
  · rename_i x xs h
    simp only [decide_eq_true_eq, foldl_min_lt]
    constructor
    · intro hx
      have : ∃ y ∈ r.retryCounts, y < 0 := by
        rw [h]; simpa using hx
      obtain ⟨y, hy, hlt⟩ := this
      exact ⟨y, (mem_retryCounts.1 hy).1, hlt⟩
    · rintro ⟨n, hn, hlt⟩
      have : n ∈ r.retryCounts := mem_retryCounts.2 ⟨hn, by omega⟩
      rw [h] at this
      rcases List.mem_cons.1 this with rfl | hm
      · exact Or.inl hlt
      · exact Or.inr ⟨n, hm, hlt⟩

theorem nonneg_of_not_exhausted {r : Retry} (h : r.isExhausted = false) {n : Int}
    (hc : Count.num n ∈ r.counters) : 0 ≤ n := by
  by_cases hn : 0 ≤ n
  · exact hn
  · have : r.isExhausted = true := (isExhausted_iff r).2 ⟨n, hc, by omega⟩
    simp [h] at this


/-! ### `increment` -/

theorem new_redirect_dec (r : Retry) (t c rd rdr s o : Count) (h : List Hist) :
    (r.new t.dec c rd rdr.dec s o h).redirect = rdr.dec :=
  init_redirect_eq _ (Count.dec_ne_disabled t) (Count.dec_ne_disabled rdr)

theorem new_redirect_budget (r : Retry) (t c rd rdr s o : Count) (h : List Hist) :
    (r.new t.dec c rd rdr s o h).redirect.budget = rdr.budget :=
  init_redirect_budget _ (Count.dec_ne_disabled t)

theorem new_raiseOnRedirect (r : Retry) (t c rd rdr s o : Count) (h : List Hist)
    (hr : (r.new t c rd rdr s o h).raiseOnRedirect = true) : r.raiseOnRedirect = true := by
  unfold new init at hr
  dsimp only at hr
  split at hr
  · simp at hr
  · exact hr

theorem new_history (r : Retry) (t c rd rdr s o : Count) (h : List Hist) :
    (r.new t c rd rdr s o h).history = h := by simp [new]

theorem finish_ok {r : Retry} {t c rd rdr s o : Count} {h : Hist} {reason : Cause} {r' : Retry}
    (hf : finish r t c rd rdr s o h reason = .ok r') :
    r' = r.new t c rd rdr s o (r.history ++ [h]) ∧ r'.isExhausted = false := by
  unfold finish at hf
  dsimp only at hf
  split at hf
  · cases hf
  · rename_i hx
    cases hf
    exact ⟨rfl, by simpa using hx⟩

theorem finish_error {r : Retry} {t c rd rdr s o : Count} {h : Hist} {reason : Cause} {x : Raise}
    (hf : finish r t c rd rdr s o h reason = .error x) : x = .maxRetry reason := by
  unfold finish at hf
  dsimp only at hf
  split at hf
  · cases hf; rfl
  · cases hf

end Retry

/-- the per-category budgets of the property (`redirect`: C05's budget, charged by the pool-level
redirect branch and by a status retry of a reply that carries a redirect location) -/
inductive Cat where
  | connect | read | status | other | redirect
  deriving DecidableEq, Repr

def Retry.counter (r : Retry) : Cat → Count
  | .connect => r.connect
  | .read => r.read
  | .status => r.status
  | .other => r.other
  | .redirect => r.redirect

/-- the branch of `increment` an error takes -/
def errCat (e : Err) : Cat :=
  if isConnectionError e then .connect else if isReadError e then .read else .other

/-- the counter an event is charged to (besides `total`) -/
def Event.cat : Event → Option Cat
  | .error e => some (errCat e)
  | .status st => if st != 0 then some .status else none
  | .redirect _ => some .redirect
  | .nothing => none

namespace Retry

theorem counter_mem (r : Retry) (c : Cat) : r.counter c ∈ r.counters := by
  cases c <;> simp [counter, counters]

/-- everything `increment` does when it returns -/
theorem increment_ok {r : Retry} {m : Option Str} {ev : Event} {r' : Retry}
    (h : r.increment m ev = .ok r') :
    r'.total = r.total.dec ∧ r'.isExhausted = false ∧ SameConfig r r' ∧
    (∀ c, (ev.cat = some c → r'.counter c = (r.counter c).dec) ∧
          (ev.cat ≠ some c → (r'.counter c).budget = (r.counter c).budget)) ∧
    (∃ e, r'.history = r.history ++ [e]) ∧
    (∀ e, ev = .error e → r.total ≠ .disabled ∧
      (errCat e = .read → ∃ mm, m = some mm ∧ r.isMethodRetryable mm = true)) := by
  unfold increment at h
  cases ev with
  | error e =>
    simp only at h
    split at h
    · cases h
    · rename_i htot
      by_cases hc : isConnectionError e = true
      · simp only [hc, if_true] at h
        split at h
        · cases h
        · obtain ⟨rfl, hex⟩ := finish_ok h
          refine ⟨by simp [new], hex, new_sameConfig .., ?_, ⟨_, new_history ..⟩, ?_⟩
          · intro c; cases c <;> first | (simp [counter, new, Event.cat, errCat, hc]; done) | exact ⟨fun _ => new_redirect_dec .., fun h => absurd rfl h⟩ | exact ⟨by simp [counter, new, Event.cat, errCat, hc], fun _ => new_redirect_budget ..⟩
          · intro e' he; cases he
            exact ⟨htot, by simp [errCat, hc]⟩
      · simp only [hc] at h
        by_cases hr : isReadError e = true
        · simp only [hr, if_true, Bool.false_eq_true, if_false] at h
          split at h
          · cases h
          · rename_i hg
            obtain ⟨rfl, hex⟩ := finish_ok h
            refine ⟨by simp [new], hex, new_sameConfig .., ?_, ⟨_, new_history ..⟩, ?_⟩
            · intro c; cases c <;> first | (simp [counter, new, Event.cat, errCat, hc, hr]; done) | exact ⟨fun _ => new_redirect_dec .., fun h => absurd rfl h⟩ | exact ⟨by simp [counter, new, Event.cat, errCat, hc, hr], fun _ => new_redirect_budget ..⟩
            · intro e' he; cases he
              refine ⟨htot, fun _ => ?_⟩
              cases m with
              | none => simp at hg
              | some mm => exact ⟨mm, rfl, (by simpa using hg : _ ∧ _).2⟩
        · simp only [hr, Bool.false_eq_true, if_false] at h
          obtain ⟨rfl, hex⟩ := finish_ok h
          refine ⟨by simp [new], hex, new_sameConfig .., ?_, ⟨_, new_history ..⟩, ?_⟩
          · intro c; cases c <;> first | (simp [counter, new, Event.cat, errCat, hc, hr]; done) | exact ⟨fun _ => new_redirect_dec .., fun h => absurd rfl h⟩ | exact ⟨by simp [counter, new, Event.cat, errCat, hc, hr], fun _ => new_redirect_budget ..⟩
          · intro e' he; cases he
            exact ⟨htot, by simp [errCat, hc, hr]⟩
  | redirect st =>
    simp only at h
    obtain ⟨rfl, hex⟩ := finish_ok h
    refine ⟨by simp [new], hex, new_sameConfig .., ?_, ⟨_, new_history ..⟩, by intro e he; cases he⟩
    intro c; cases c <;> first | (simp [counter, new, Event.cat]; done) | exact ⟨fun _ => new_redirect_dec .., fun h => absurd rfl h⟩ | exact ⟨by simp [counter, new, Event.cat], fun _ => new_redirect_budget ..⟩
  | status st =>
    simp only at h
    split at h
    · rename_i hst
      obtain ⟨rfl, hex⟩ := finish_ok h
      refine ⟨by simp [new], hex, new_sameConfig .., ?_, ⟨_, new_history ..⟩, by intro e he; cases he⟩
      intro c; cases c <;> first | (simp [counter, new, Event.cat, hst]; done) | exact ⟨fun _ => new_redirect_dec .., fun h => absurd rfl h⟩ | exact ⟨by simp [counter, new, Event.cat, hst], fun _ => new_redirect_budget ..⟩
    · rename_i hst
      obtain ⟨rfl, hex⟩ := finish_ok h
      refine ⟨by simp [new], hex, new_sameConfig .., ?_, ⟨_, new_history ..⟩, by intro e he; cases he⟩
      intro c; cases c <;> first | (simp [counter, new, Event.cat, hst]; done) | exact ⟨fun _ => new_redirect_dec .., fun h => absurd rfl h⟩ | exact ⟨by simp [counter, new, Event.cat, hst], fun _ => new_redirect_budget ..⟩
  | nothing =>
    simp only at h
    obtain ⟨rfl, hex⟩ := finish_ok h
    refine ⟨by simp [new], hex, new_sameConfig .., ?_, ⟨_, new_history ..⟩, by intro e he; cases he⟩
    intro c; cases c <;> first | (simp [counter, new, Event.cat]; done) | exact ⟨fun _ => new_redirect_dec .., fun h => absurd rfl h⟩ | exact ⟨by simp [counter, new, Event.cat], fun _ => new_redirect_budget ..⟩

/-- whatever `increment` returns was built by `new` -/
theorem increment_ok_new {r : Retry} {m : Option Str} {ev : Event} {r' : Retry}
    (h : r.increment m ev = .ok r') : ∃ t c rd rdr s o hs, r' = r.new t c rd rdr s o hs := by
  unfold increment at h
  cases ev with
  | error e =>
    simp only at h
    split at h
    · cases h
    · split at h
      · split at h
        · cases h
        · exact ⟨_, _, _, _, _, _, _, (finish_ok h).1⟩
      · split at h
        · split at h
          · cases h
          · exact ⟨_, _, _, _, _, _, _, (finish_ok h).1⟩
        · exact ⟨_, _, _, _, _, _, _, (finish_ok h).1⟩
  | redirect st => simp only at h; exact ⟨_, _, _, _, _, _, _, (finish_ok h).1⟩
  | status st =>
    simp only at h
    split at h
    · exact ⟨_, _, _, _, _, _, _, (finish_ok h).1⟩
    · exact ⟨_, _, _, _, _, _, _, (finish_ok h).1⟩
  | nothing => simp only at h; exact ⟨_, _, _, _, _, _, _, (finish_ok h).1⟩

/-- `raise_on_redirect` is never switched on by `increment` -/
theorem increment_raiseOnRedirect {r : Retry} {m : Option Str} {ev : Event} {r' : Retry}
    (h : r.increment m ev = .ok r') (hr : r'.raiseOnRedirect = true) : r.raiseOnRedirect = true := by
  obtain ⟨t, c, rd, rdr, s, o, hs, rfl⟩ := increment_ok_new h
  exact new_raiseOnRedirect _ _ _ _ _ _ _ _ hr

/-- what `increment` raises: the error itself, or `MaxRetryError` whose reason is the error / the
`ResponseError` for the response it was given -/
def Event.reason : Event → Cause
  | .error e => .error e
  | .redirect _ => .response .tooManyRedirects
  | .status st => if st != 0 then .response (.specific st) else .response .generic
  | .nothing => .response .generic

theorem increment_error {r : Retry} {m : Option Str} {ev : Event} {x : Raise}
    (h : r.increment m ev = .error x) :
    x = .maxRetry (Event.reason ev) ∨ (∃ e, ev = .error e ∧ x = .reraise e) := by
  unfold increment at h
  cases ev with
  | error e =>
    simp only at h
    split at h
    · cases h; exact Or.inr ⟨e, rfl, rfl⟩
    · split at h
      · split at h
        · cases h; exact Or.inr ⟨e, rfl, rfl⟩
        · exact Or.inl (finish_error h)
      · split at h
        · split at h
          · cases h; exact Or.inr ⟨e, rfl, rfl⟩
          · exact Or.inl (finish_error h)
        · exact Or.inl (finish_error h)
  | redirect st => simp only at h; exact Or.inl (finish_error h)
  | status st =>
    simp only at h
    split at h
    · rename_i hst; exact Or.inl (by simpa [Event.reason, hst] using finish_error h)
    · rename_i hst; exact Or.inl (by simpa [Event.reason, hst] using finish_error h)
  | nothing => simp only at h; exact Or.inl (finish_error h)

end Retry

/-! ### the `urlopen` loop in normal form -/

/-- the reply of an attempt as `Retry` sees it -/
def respOf : Outcome → Option Resp
  | .response st ra => some ⟨st, ra⟩
  | .located st ra => some ⟨st, ra⟩
  | _ => none

/-- what `urlopen` hands to `increment` after the attempt (`increment` asks the response itself
whether it is a redirect — the `redirect=` argument of `urlopen` plays no role here) -/
def eventOf (cfg : Cfg) (o : Outcome) : Event :=
  match respOf o with
  | some rs => if o.redirectLocation then .redirect rs.status else .status rs.status
  | none => .error (translate cfg o)

/-- `redirect and response.get_redirect_location()`: the pool-level redirect branch is taken -/
def follows (redirect : Bool) (o : Outcome) : Bool := redirect && o.redirectLocation

/-- does `urlopen` ask `Retry` for another attempt (always after an error; after a reply when the
redirect branch is taken or `is_retry` says so) -/
def wants (r : Retry) (redirect : Bool) (m : Str) (o : Outcome) : Bool :=
  follows redirect o ||
    match respOf o with
    | some rs => r.isRetry m rs.status rs.retryAfter.isSome
    | none => true

/-- the request of the next `urlopen` entry -/
def nextRq (redirect : Bool) (q : Rq) (i : Nat) (o : Outcome) : Rq :=
  match respOf o with
  | some rs => if follows redirect o then redirected q i rs.status else q
  | none => q

/-- the `time.sleep` between this attempt and the next: `sleep_for_retry` in the redirect branch,
`sleep(response)` / `sleep()` otherwise -/
def stepSleep (redirect : Bool) (r' : Retry) (o : Outcome) : Option Int :=
  match respOf o with
  | some rs => if follows redirect o then Retry.sleepForRetry rs else r'.sleep (some rs)
  | none => r'.sleep none

/-- the counter an attempt is charged to by the code -/
def chargedTo (cfg : Cfg) (o : Outcome) : Option Cat := (eventOf cfg o).cat

/-- what `urlopen` does with an exception from `increment` (attempt number `i`) -/
def stopResult (r : Retry) (redirect : Bool) (i : Nat) (o : Outcome) : Raise → Result
  | .reraise e => .reraised e
  | .maxRetry c =>
    match respOf o with
    | some rs =>
      if (if follows redirect o then r.raiseOnRedirect else r.raiseOnStatus) then .maxRetry c
      else .response i rs.status
    | none => .maxRetry c

theorem stopResult_ne_out (r : Retry) (rd : Bool) (i : Nat) (o : Outcome) (x : Raise) :
    stopResult r rd i o x ≠ .outOfScript := by
  cases x with
  | reraise e => simp [stopResult]
  | maxRetry c =>
    simp only [stopResult]
    repeat' split
    all_goals simp

/-- the three ways one attempt can end -/
inductive StepCase (cfg : Cfg) (r : Retry) (rd : Bool) (q : Rq) (i : Nat) (o : Outcome)
    (rest : List Outcome) : Prop where
  | returned (st : Nat) (ra : Option Nat) (ho : respOf o = some ⟨st, ra⟩) (hw : wants r rd q.method o = false)
      (h : runAttempts cfg r rd q i (o :: rest) = .stop q o (.response i st))
  | raised (x : Raise) (hw : wants r rd q.method o = true)
      (hi : r.increment (some (nextRq rd q i o).method) (eventOf cfg o) = .error x)
      (h : runAttempts cfg r rd q i (o :: rest) = .stop q o (stopResult r rd i o x))
  | again (r' : Retry) (hw : wants r rd q.method o = true)
      (hi : r.increment (some (nextRq rd q i o).method) (eventOf cfg o) = .ok r')
      (h : runAttempts cfg r rd q i (o :: rest) =
        .cons q o (stepSleep rd r' o) (runAttempts cfg r' rd (nextRq rd q i o) (i + 1) rest))

theorem run_response (cfg : Cfg) (r : Retry) (rd : Bool) (q : Rq) (i : Nat) (st : Nat) (ra : Option Nat)
    (rest : List Outcome) :
    runAttempts cfg r rd q i (.response st ra :: rest) =
      onReply r rd q i (.response st ra) st ra (fun r' q' => runAttempts cfg r' rd q' (i + 1) rest) := by
  simp only [runAttempts]

theorem run_located (cfg : Cfg) (r : Retry) (rd : Bool) (q : Rq) (i : Nat) (st : Nat) (ra : Option Nat)
    (rest : List Outcome) :
    runAttempts cfg r rd q i (.located st ra :: rest) =
      onReply r rd q i (.located st ra) st ra (fun r' q' => runAttempts cfg r' rd q' (i + 1) rest) := by
  simp only [runAttempts]

/-- `onReply` in normal form -/
theorem replyStep_cases (cfg : Cfg) (r : Retry) (rd : Bool) (q : Rq) (i : Nat) (o : Outcome)
    (rest : List Outcome) (st : Nat) (ra : Option Nat) (ho : respOf o = some ⟨st, ra⟩)
    (hrun : runAttempts cfg r rd q i (o :: rest) =
      onReply r rd q i o st ra (fun r' q' => runAttempts cfg r' rd q' (i + 1) rest)) :
    StepCase cfg r rd q i o rest := by
  by_cases hf : follows rd o = true
  · have hw : wants r rd q.method o = true := by simp [wants, hf]
    have hq : nextRq rd q i o = redirected q i st := by simp [nextRq, ho, hf]
    have he : eventOf cfg o = .redirect st := by
      have : o.redirectLocation = true := by simp [follows] at hf; exact hf.2
      simp [eventOf, ho, this]
    have hf' : (rd && o.redirectLocation) = true := hf
    cases hi : r.increment (some (redirected q i st).method) (.redirect st) with
    | error x =>
      refine .raised x hw (by rw [hq, he]; exact hi) ?_
      rw [hrun]
      cases x with
      | reraise e => simp [onReply, hf', hi, stopResult]
      | maxRetry c =>
        simp only [onReply, hf', hi, stopResult, ho, hf, if_true]
        by_cases hror : r.raiseOnRedirect = true <;> simp [hror]
    | ok r' =>
      refine .again r' hw (by rw [hq, he]; exact hi) ?_
      rw [hrun, hq]
      simp [onReply, hf', hi, stepSleep, ho, hf]
  · have hf' : (rd && o.redirectLocation) = false := by simpa [follows] using hf
    have hfF : follows rd o = false := by simpa using hf
    have hq : nextRq rd q i o = q := by simp [nextRq, ho, hfF]
    have he : eventOf cfg o = (if o.redirectLocation then .redirect st else .status st) := by
      simp [eventOf, ho]
    cases hr : r.isRetry q.method st ra.isSome with
    | false =>
      have hw : wants r rd q.method o = false := by simp [wants, hfF, ho, hr]
      exact .returned st ra ho hw (by rw [hrun]; simp [onReply, hf', hr])
    | true =>
      have hw : wants r rd q.method o = true := by simp [wants, ho, hr]
      cases hi : r.increment (some q.method) (if o.redirectLocation then .redirect st else .status st) with
      | error x =>
        refine .raised x hw (by rw [hq, he]; exact hi) ?_
        rw [hrun]
        cases x with
        | reraise e => simp [onReply, hf', hr, hi, stopResult]
        | maxRetry c =>
          simp only [onReply, hf', hr, hi, stopResult, ho, hfF, if_true]
          by_cases hros : r.raiseOnStatus = true <;> simp [hros]
      | ok r' =>
        refine .again r' hw (by rw [hq, he]; exact hi) ?_
        rw [hrun, hq]
        simp [onReply, hf', hr, hi, stepSleep, ho, hfF]

theorem run_error_cases (cfg : Cfg) (r : Retry) (rd : Bool) (q : Rq) (i : Nat) (o : Outcome)
    (rest : List Outcome) (ho : respOf o = none)
    (hrun : runAttempts cfg r rd q i (o :: rest) =
      onError r q o (translate cfg o) (fun r' q' => runAttempts cfg r' rd q' (i + 1) rest)) :
    StepCase cfg r rd q i o rest := by
  have hw : wants r rd q.method o = true := by simp [wants, ho]
  have hq : nextRq rd q i o = q := by simp [nextRq, ho]
  have he : eventOf cfg o = .error (translate cfg o) := by simp [eventOf, ho]
  cases hi : r.increment (some q.method) (.error (translate cfg o)) with
  | error x =>
    refine .raised x hw (by rw [hq, he]; exact hi) ?_
    rw [hrun]
    cases x <;> simp [onError, hi, stopResult, ho]
  | ok r' =>
    refine .again r' hw (by rw [hq, he]; exact hi) ?_
    rw [hrun, hq]
    simp [onError, hi, stepSleep, ho]

theorem run_cases (cfg : Cfg) (r : Retry) (rd : Bool) (q : Rq) (i : Nat) (o : Outcome) (rest : List Outcome) :
    StepCase cfg r rd q i o rest := by
  cases o with
  | response st ra => exact replyStep_cases cfg r rd q i _ rest st ra rfl (run_response ..)
  | located st ra => exact replyStep_cases cfg r rd q i _ rest st ra rfl (run_located ..)
  | connectError k => exact run_error_cases cfg r rd q i _ rest rfl (by simp only [runAttempts])
  | handshakeError k => exact run_error_cases cfg r rd q i _ rest rfl (by simp only [runAttempts])
  | sendError k => exact run_error_cases cfg r rd q i _ rest rfl (by simp only [runAttempts])
  | readError k => exact run_error_cases cfg r rd q i _ rest rfl (by simp only [runAttempts])
  | otherError => exact run_error_cases cfg r rd q i _ rest rfl (by simp only [runAttempts])

theorem run_attempts_ne_nil (cfg : Cfg) (r : Retry) (rd : Bool) (q : Rq) (i : Nat) (script : List Outcome)
    (h : (runAttempts cfg r rd q i script).result ≠ .outOfScript) :
    (runAttempts cfg r rd q i script).attempts ≠ [] := by
  cases script with
  | nil => simp [runAttempts] at h
  | cons o rest =>
    cases run_cases cfg r rd q i o rest with
    | returned st ra ho hw hr => simp [hr, Run.stop]
    | raised x hw hi hr => simp [hr, Run.stop]
    | again r' hw hi hr => simp [hr, Run.cons]

/-- the first attempt of a call is the request the call was entered with -/
theorem run_head_rq (cfg : Cfg) (r : Retry) (rd : Bool) (q : Rq) (i : Nat) (script : List Outcome)
    (a : Attempt) (h : (runAttempts cfg r rd q i script).attempts[0]? = some a) : a.rq = q := by
  cases script with
  | nil => simp [runAttempts] at h
  | cons o rest =>
    cases run_cases cfg r rd q i o rest with
    | returned st ra ho hw hr => rw [hr] at h; simp [Run.stop] at h; rw [← h]
    | raised x hw hi hr => rw [hr] at h; simp [Run.stop] at h; rw [← h]
    | again r' hw hi hr => rw [hr] at h; simp [Run.cons] at h; rw [← h]

theorem retried_stop (q : Rq) (o : Outcome) (res : Result) (h : res ≠ .outOfScript) :
    (Run.stop q o res).retried = [] := by
  simp [Run.retried, Run.stop, h]

theorem retried_cons (q : Rq) (o : Outcome) (s : Option Int) (x : Run)
    (h : x.result ≠ .outOfScript → x.attempts ≠ []) :
    (Run.cons q o s x).retried = ⟨q, o, s⟩ :: x.retried := by
  unfold Run.retried Run.cons
  by_cases hr : x.result = .outOfScript
  · simp [hr]
  · simp only [hr, if_false]
    exact List.dropLast_cons_of_ne_nil (h hr)

theorem isRetry_true {r : Retry} {m : Str} {st : Nat} {h : Bool} (hr : r.isRetry m st h = true) :
    r.isMethodRetryable m = true ∧
    (st ∈ r.statusForcelist ∨
      (st ∈ Gen.retryAfterStatusCodes ∧ h = true ∧ r.respectRetryAfter = true ∧ r.total.truthy = true)) := by
  unfold Retry.isRetry at hr
  split at hr
  · cases hr
  · rename_i hm
    refine ⟨by simpa using hm, ?_⟩
    split at hr
    · rename_i hf
      simp only [Bool.and_eq_true, List.contains_iff_mem] at hf
      exact Or.inl (by simpa using hf.2)
    · simp only [Bool.and_eq_true, List.contains_iff_mem] at hr
      exact Or.inr ⟨by simpa using hr.2, hr.1.2, hr.1.1.2, hr.1.1.1⟩

theorem getBackoffTime_pos_le (r : Retry) (h : 0 < r.getBackoffTime) :
    r.getBackoffTime ≤ r.backoffMax := by
  unfold Retry.getBackoffTime at h ⊢
  dsimp only at h ⊢
  split
  · rename_i hn; simp only [hn, if_true] at h; omega
  · rename_i hn
    simp only [hn, if_false] at h
    generalize r.backoffFactor * (2 : Int) ^ (r.consecutiveErrors - 1) = v at h ⊢
    omega

theorem sleepBackoff_bound {r : Retry} {t : Int} (h : r.sleepBackoff = some t) :
    0 < t ∧ t ≤ r.backoffMax := by
  unfold Retry.sleepBackoff at h
  dsimp only at h
  split at h
  · cases h
  · rename_i hb
    injection h with h
    subst h
    exact ⟨by omega, getBackoffTime_pos_le r (by omega)⟩

theorem sleep_bound {r : Retry} {resp : Option Resp} {t : Int} (h : r.sleep resp = some t) :
    (0 < t ∧ t ≤ r.backoffMax) ∨
    (r.respectRetryAfter = true ∧ ∃ rs n, resp = some rs ∧ rs.retryAfter = some n ∧ n ≠ 0 ∧ t = ticks * n) := by
  unfold Retry.sleep at h
  split at h
  · rename_i rs
    split at h
    · rename_i hrr
      split at h
      · rename_i t' hs
        cases h
        right
        refine ⟨hrr, rs, ?_⟩
        unfold Retry.sleepForRetry at hs
        split at hs
        · rename_i n hn
          split at hs
          · rename_i h0
            cases hs
            exact ⟨n, rfl, hn, by simpa using h0, rfl⟩
          · cases hs
        · cases hs
      · exact Or.inl (sleepBackoff_bound h)
    · exact Or.inl (sleepBackoff_bound h)
  · exact Or.inl (sleepBackoff_bound h)

/-- `"POST"`, `"GET"` as code points (used in the non-vacuity examples and the witness) -/
def POST : Str := [80, 79, 83, 84]
def GET : Str := [71, 69, 84]

/-- the request may have reached the server and the attempt did not end in a redirect that
`urlopen` follows (a followed redirect is a new request by design): a send or read error, or a reply outside
the redirect branch; a failure while the request was being written counts as well (what had been
written may have arrived) -/
def reachedServer (redirect : Bool) (o : Outcome) : Bool :=
  match o with
  | .sendError _ => true
  | .readError _ => true
  | .response _ _ => true
  | .located _ _ => !follows redirect o
  | _ => false

end U3.Retry
