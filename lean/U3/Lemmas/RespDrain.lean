import U3.Lemmas.RespChunked
import U3.Lemmas.RespCalls
/-! `drain_conn()` = `try: self.read() except (HTTPError, OSError, BaseSSLError, HTTPException): pass`.

* the connection bookkeeping of `read()`: only `_raw_read` (through `_error_catcher`) touches the
  file and the connection; an exception out of `_raw_read` leaves the connection closed and handed
  back closed, a normal return leaves `connClosed` alone and releases once the file is closed;
* `drain_conn()` on a well-framed body: returns, leaves nothing to read, the file closed, the
  connection released and not closed by the response;
* the *broken* chunked wires of C13 (`Broken`: the lenient reference reader runs out of bytes
  inside a chunk / before the CRLF after a chunk, or meets a size line `int(x, 16)` rejects):
  `http.client`'s `_read_chunked(None)` raises `IncompleteRead` on every one of them, for every
  segmentation, from every position (at a size line, inside a chunk, before the CRLF). -/
namespace U3.Resp
open U3

section
variable {σ δ : Type} (S : Src σ) (D : Dec δ) (cfg : Cfg δ)

/-! ## who touches the file and the connection -/

/-- the file and the connection bookkeeping are the same in both states -/
def SameConn (r r' : R σ δ) : Prop :=
  r'.fp = r.fp ∧ r'.conn = r.conn ∧ r'.connClosed = r.connClosed ∧ r'.released = r.released

theorem SameConn.refl (r : R σ δ) : SameConn r r := ⟨rfl, rfl, rfl, rfl⟩

theorem SameConn.trans {a b c : R σ δ} (h1 : SameConn a b) (h2 : SameConn b c) : SameConn a c :=
  ⟨h2.1.trans h1.1, h2.2.1.trans h1.2.1, h2.2.2.1.trans h1.2.2.1, h2.2.2.2.trans h1.2.2.2⟩

theorem initDec_sameConn (r : R σ δ) : SameConn r (initDec cfg r) := by
  unfold initDec
  cases r.decoder <;> exact ⟨rfl, rfl, rfl, rfl⟩

theorem flushDecoder_sameConn (r : R σ δ) : SameConn r (flushDecoder D r).2 := by
  unfold flushDecoder
  split
  · exact SameConn.refl r
  · split
    · exact ⟨rfl, rfl, rfl, rfl⟩
    · exact ⟨rfl, rfl, rfl, rfl⟩
    · split <;> exact ⟨rfl, rfl, rfl, rfl⟩

theorem decode_sameConn (r : R σ δ) (a : Bytes) (dc fl : Bool) : SameConn r (decode D r a dc fl).2 := by
  have key : ∀ (step : Except Exc Bytes × R σ δ), SameConn r step.2 →
      SameConn r (match step with
        | (.error e, r) => (Except.error e, r)
        | (.ok data, r) =>
          if fl = true then
            match flushDecoder D r with
            | (.error e, r) => (.error e, r)
            | (.ok t, r) => (.ok (data ++ t), r)
          else (.ok data, r)).2 := by
    intro step hs
    obtain ⟨res, r1⟩ := step
    cases res with
    | error e => exact hs
    | ok data =>
      simp only []
      by_cases hfl : fl = true
      · rw [if_pos hfl]
        have := flushDecoder_sameConn D r1
        generalize flushDecoder D r1 = fr at this ⊢
        obtain ⟨x, r2⟩ := fr
        cases x <;> exact SameConn.trans hs this
      · rw [if_neg hfl]; exact hs
  unfold decode
  split
  · split <;> exact SameConn.refl r
  · apply key
    cases hd : r.decoder with
    | none => exact SameConn.refl r
    | some d =>
      simp only []
      generalize D.decompress d a = z
      obtain ⟨x, d'⟩ := z
      cases x <;> exact ⟨rfl, rfl, rfl, rfl⟩

theorem prependBuffered_sameConn (r : R σ δ) (out : Bytes) : SameConn r (prependBuffered r out).2 := by
  unfold prependBuffered
  split <;> exact ⟨rfl, rfl, rfl, rfl⟩

/-! ## `_raw_read` = the body of the `with` block, then `_error_catcher` -/

/-- the body of `with self._error_catcher():` in `_raw_read` (mirror of the model's code, see
`rawRead_eq`) -/
def rawBody (r : R σ δ) (amt : Option Nat) (read1 : Bool) : Except RawExc Bytes × R σ δ :=
  let fpClosed := S.closed r.fp
  let (res, fp) := if fpClosed then (.ok [], r.fp) else (if read1 then S.read1 r.fp amt else S.read r.fp amt)
  let r := { r with fp := fp }
  match res with
  | .error e => (.error (.h e), r)
  | .ok data =>
    if amt ≠ none ∧ amt ≠ some 0 ∧ data.isEmpty then
      let r := { r with fp := S.close r.fp }
      if cfg.enforce ∧ r.lengthRemaining ≠ none ∧ r.lengthRemaining ≠ some 0 then (.error .u3Incomplete, r)
      else (.ok data, r)
    else if read1 ∧ ((amt ≠ some 0 ∧ data.isEmpty) ∨ r.lengthRemaining = some (data.length : Int)) then
      let r := { r with fp := S.close r.fp }
      if data.isEmpty ∧ cfg.enforce ∧ r.lengthRemaining ≠ none ∧ r.lengthRemaining ≠ some 0 then (.error .u3Incomplete, r)
      else (.ok data, r)
    else (.ok data, r)

theorem rawRead_eq (r : R σ δ) (amt : Option Nat) (rd1 : Bool) :
    rawRead S cfg r amt rd1 =
      match errorCatcher S (rawBody S cfg r amt rd1).2 (rawBody S cfg r amt rd1).1 with
      | (.error e, r) => (.error e, r)
      | (.ok data, r) =>
        if data.isEmpty then (.ok data, r)
        else (.ok data, { r with fpBytesRead := r.fpBytesRead + data.length,
                                 lengthRemaining := r.lengthRemaining.map (· - (data.length : Int)) }) := by
  unfold rawRead rawBody
  simp only []
  generalize (if S.closed r.fp = true then ((Except.ok [] : Except HErr Bytes), r.fp)
      else if rd1 = true then S.read1 r.fp amt else S.read r.fp amt) = x
  obtain ⟨res, fp⟩ := x
  rfl

/-- the body only moves / closes the file -/
theorem rawBody_conn (r : R σ δ) (amt : Option Nat) (rd1 : Bool) :
    (rawBody S cfg r amt rd1).2.conn = r.conn ∧ (rawBody S cfg r amt rd1).2.connClosed = r.connClosed ∧
    (rawBody S cfg r amt rd1).2.released = r.released := by
  unfold rawBody
  simp only []
  generalize (if S.closed r.fp = true then ((Except.ok [] : Except HErr Bytes), r.fp)
      else if rd1 = true then S.read1 r.fp amt else S.read r.fp amt) = x
  obtain ⟨res, fp⟩ := x
  cases res with
  | error e => exact ⟨rfl, rfl, rfl⟩
  | ok data =>
    simp only []
    repeat' split
    all_goals exact ⟨rfl, rfl, rfl⟩

/-- `_error_catcher`, unclean exit: the file and the connection are closed, and — the file being
closed — the connection is handed back -/
theorem errorCatcher_error_conn {α : Type} (r : R σ δ) (e : RawExc) :
    ∃ r', errorCatcher (α := α) S r (.error e) = (.error (mapExc e), r') ∧ r'.fp = S.close r.fp ∧
      r'.connClosed = (r.connClosed || r.conn) ∧
      (S.isclosed (S.close r.fp) = true → r.conn = true → r'.released = true ∧ r'.conn = false) := by
  unfold errorCatcher releaseConn
  simp only []
  by_cases hc : S.isclosed (S.close r.fp) = true
  · by_cases hconn : r.conn = true
    · rw [if_pos hc, if_pos hconn]
      exact ⟨_, rfl, rfl, rfl, fun _ _ => ⟨rfl, rfl⟩⟩
    · rw [if_pos hc, if_neg hconn]
      exact ⟨_, rfl, rfl, rfl, fun _ h => absurd h hconn⟩
  · rw [if_neg hc]
    exact ⟨_, rfl, rfl, rfl, fun h => absurd h hc⟩

/-- `_error_catcher`, clean exit: nothing is closed; the connection is released iff the file is
closed -/
theorem errorCatcher_ok_conn {α : Type} (r : R σ δ) (x : α) :
    ∃ r', errorCatcher S r (.ok x) = (.ok x, r') ∧ r'.fp = r.fp ∧ r'.connClosed = r.connClosed ∧
      (S.isclosed r.fp = true → r.conn = true → r'.released = true ∧ r'.conn = false) ∧
      (S.isclosed r.fp = false → r'.conn = r.conn ∧ r'.released = r.released) := by
  unfold errorCatcher releaseConn
  simp only []
  by_cases hc : S.isclosed r.fp = true
  · by_cases hconn : r.conn = true
    · rw [if_pos hc, if_pos hconn]
      exact ⟨_, rfl, rfl, rfl, fun _ _ => ⟨rfl, rfl⟩, fun h => by rw [hc] at h; cases h⟩
    · rw [if_pos hc, if_neg hconn]
      exact ⟨_, rfl, rfl, rfl, fun _ h => absurd h hconn, fun h => by rw [hc] at h; cases h⟩
  · rw [if_neg hc]
    exact ⟨_, rfl, rfl, rfl, fun h => absurd h hc, fun _ => ⟨rfl, rfl⟩⟩

/-- an exception out of `_raw_read`: the file is closed, the connection is closed, and (the file
being closed) handed back -/
theorem rawRead_error_conn (r : R σ δ) (amt : Option Nat) (rd1 : Bool) (e : Exc) (r' : R σ δ)
    (h : rawRead S cfg r amt rd1 = (.error e, r')) :
    r'.connClosed = (r.connClosed || r.conn) ∧
    ∃ fp0, r'.fp = S.close fp0 ∧
      (S.isclosed (S.close fp0) = true → r.conn = true → r'.released = true ∧ r'.conn = false) := by
  rw [rawRead_eq] at h
  obtain ⟨c1, c2, _⟩ := rawBody_conn S cfg r amt rd1
  generalize rawBody S cfg r amt rd1 = b at h c1 c2
  obtain ⟨res, r1⟩ := b
  simp only [] at c1 c2 h
  cases res with
  | error e0 =>
    obtain ⟨r2, e1, e2, e3, e4⟩ := errorCatcher_error_conn (α := Bytes) S r1 e0
    rw [e1] at h
    simp only [Prod.mk.injEq] at h
    obtain ⟨_, rfl⟩ := h
    refine ⟨by rw [e3, c1, c2], r1.fp, e2, fun hc hconn => e4 hc (by rw [c1]; exact hconn)⟩
  | ok d =>
    obtain ⟨r2, e1, _⟩ := errorCatcher_ok_conn S r1 d
    rw [e1] at h
    simp only [] at h
    split at h <;> simp at h

/-- a normal return of `_raw_read`: the connection is not closed by it, and once the file is closed
it has been released -/
theorem rawRead_ok_conn (r : R σ δ) (amt : Option Nat) (rd1 : Bool) (d : Bytes) (r' : R σ δ)
    (h : rawRead S cfg r amt rd1 = (.ok d, r')) :
    r'.connClosed = r.connClosed ∧
    (S.isclosed r'.fp = true → r.conn = true → r'.released = true ∧ r'.conn = false) := by
  rw [rawRead_eq] at h
  obtain ⟨c1, c2, _⟩ := rawBody_conn S cfg r amt rd1
  generalize rawBody S cfg r amt rd1 = b at h c1 c2
  obtain ⟨res, r1⟩ := b
  simp only [] at c1 c2 h
  cases res with
  | error e0 =>
    obtain ⟨r2, e1, _⟩ := errorCatcher_error_conn (α := Bytes) S r1 e0
    rw [e1] at h
    simp at h
  | ok d0 =>
    obtain ⟨r2, e1, e2, e3, e4, _⟩ := errorCatcher_ok_conn S r1 d0
    rw [e1] at h
    simp only [] at h
    split at h
    · simp only [Prod.mk.injEq] at h
      obtain ⟨_, rfl⟩ := h
      exact ⟨by rw [e3, c2], fun hc hconn => e4 (by rw [← e2]; exact hc) (by rw [c1]; exact hconn)⟩
    · simp only [Prod.mk.injEq] at h
      obtain ⟨_, rfl⟩ := h
      exact ⟨by show r2.connClosed = _; rw [e3, c2],
        fun hc hconn => e4 (by rw [← e2]; exact hc) (by rw [c1]; exact hconn)⟩

/-! ## `read()` -/

/-- an exception out of `_raw_read()` is the outcome of `read()` -/
theorem read_none_error (r : R σ δ) (dco : Option Bool) (cache : Bool) (e : Exc) (r1 : R σ δ)
    (h : rawRead S cfg (initDec cfg r) none false = (.error e, r1)) :
    read S D cfg r none dco cache = (.error e, r1) := by
  unfold read
  simp only [h]

/-- after a normal return of `_raw_read()`, the rest of `read()` (decoding, flushing, the decoded
buffer, the cache) touches neither the file nor the connection -/
theorem read_none_sameConn (r : R σ δ) (dco : Option Bool) (cache : Bool) (d : Bytes) (r1 : R σ δ)
    (h : rawRead S cfg (initDec cfg r) none false = (.ok d, r1)) :
    SameConn r1 (read S D cfg r none dco cache).2 := by
  unfold read
  simp only [h]
  split
  · exact SameConn.refl r1
  · have hd := decode_sameConn D r1 d (dco.getD cfg.decodeDefault) (Option.isNone (none : Option Nat) || (decide ((none : Option Nat) ≠ some 0) && d.isEmpty))
    generalize decode D r1 d (dco.getD cfg.decodeDefault) (Option.isNone (none : Option Nat) || (decide ((none : Option Nat) ≠ some 0) && d.isEmpty)) = x at hd ⊢
    obtain ⟨y, r2⟩ := x
    cases y with
    | error e => exact hd
    | ok out =>
      simp only []
      have hp := prependBuffered_sameConn r2 out
      generalize prependBuffered r2 out = z at hp ⊢
      obtain ⟨o, r3⟩ := z
      simp only []
      cases cache with
      | true => exact SameConn.trans hd ⟨hp.1, hp.2.1, hp.2.2.1, hp.2.2.2⟩
      | false => exact SameConn.trans hd hp

/-! ## `drain_conn()` -/

/-- `drain_conn()` when `_raw_read()` raises (every framing-level error does: `IncompleteRead`,
`InvalidChunkLength`, …): the exception is swallowed if it is an `HTTPError`, and in any case the
file is closed, the connection is closed and handed back closed — never released open -/
theorem drainConn_raw_error (hclose : ∀ h, S.isclosed (S.close h) = true) (r : R σ δ) (e : Exc) (r1 : R σ δ)
    (h : rawRead S cfg (initDec cfg r) none false = (.error e, r1)) (hconn : r.conn = true) :
    drainConn S D cfg r = (if drainSwallows e then .ok () else .error e, r1) ∧
    r1.connClosed = true ∧ r1.released = true ∧ r1.conn = false ∧ S.isclosed r1.fp = true := by
  obtain ⟨c1, fp0, c2, c3⟩ := rawRead_error_conn S cfg _ _ _ _ _ h
  obtain ⟨_, i2, _, _⟩ := initDec_sameConn cfg r
  have hconn' : (initDec cfg r).conn = true := by rw [i2]; exact hconn
  obtain ⟨c4, c5⟩ := c3 (hclose fp0) hconn'
  refine ⟨?_, by rw [c1, hconn']; simp, c4, c5, by rw [c2]; exact hclose fp0⟩
  unfold drainConn
  rw [read_none_error S D cfg r none false e r1 h]
  simp only []
  split <;> rfl

variable {G : δ → Bytes → Bytes → Prop}

/-- `drain_conn()` on a well-framed body (decoding on by default): it returns, nothing is left to
read, the file is closed, the response has not closed the connection and — if it still held it — has
released it -/
theorem drainConn_complete {rem : σ → Bytes} {I : σ → Option Int → Prop}
    (hA : RawReadAllSpec S cfg rem I) (hD : StreamLaw D G) (hCA : ClosesAll S cfg I)
    (hdef : cfg.decodeDefault = true) (r : R σ δ) (rest : Bytes) (hinv : Inv cfg rem I G r rest) :
    ∃ r', drainConn S D cfg r = (.ok (), r') ∧ Inv cfg rem I G r' [] ∧ rem r'.fp = [] ∧
      S.isclosed r'.fp = true ∧ r'.connClosed = r.connClosed ∧
      (r.conn = true → r'.released = true ∧ r'.conn = false) := by
  obtain ⟨r', h1, hinv', hrem, _, hcl⟩ := read_all_spec S D cfg hA hD r rest none false (by simpa using hdef) hinv
  obtain ⟨g1, _, g3, _⟩ := initDec_other cfg r
  obtain ⟨_, i2, i3, _⟩ := initDec_sameConn cfg r
  obtain ⟨r1, hr, _⟩ := hA.spec (initDec cfg r) (by rw [g1, g3]; exact hinv.framing)
  obtain ⟨k1, k2⟩ := rawRead_ok_conn S cfg _ _ _ _ _ hr
  have hs := read_none_sameConn S D cfg r none false _ r1 hr
  rw [h1] at hs
  obtain ⟨s1, s2, s3, s4⟩ := hs
  simp only [] at s1 s2 s3 s4
  have hclosed := hcl hCA
  refine ⟨r', ?_, hinv', hrem, hclosed, by rw [s3, k1, i3], fun hconn => ?_⟩
  · unfold drainConn
    rw [h1]
  · obtain ⟨k3, k4⟩ := k2 (by rw [← s1]; exact hclosed) (by rw [i2]; exact hconn)
    exact ⟨by rw [s4]; exact k3, by rw [s2]; exact k4⟩

/-- the byte-level half of it, without the closing law: `drain_conn()` returns and leaves the
response at its end (`Inv … []`: every later read returns b"") -/
theorem drainConn_spec {rem : σ → Bytes} {I : σ → Option Int → Prop}
    (hA : RawReadAllSpec S cfg rem I) (hD : StreamLaw D G)
    (hdef : cfg.decodeDefault = true) (r : R σ δ) (rest : Bytes) (hinv : Inv cfg rem I G r rest) :
    ∃ r', drainConn S D cfg r = (.ok (), r') ∧ Inv cfg rem I G r' [] ∧ rem r'.fp = [] := by
  obtain ⟨r', h1, hinv', hrem, _⟩ := read_all_spec S D cfg hA hD r rest none false (by simpa using hdef) hinv
  refine ⟨r', ?_, hinv', hrem⟩
  unfold drainConn
  rw [h1]

theorem drainConn_spec_raw {rem : σ → Bytes} {I : σ → Option Int → Prop}
    (hA : RawReadAllSpec S cfg rem I)
    (hdef : cfg.decodeDefault = false) (r : R σ δ) (raw : Bytes) (hinv : RawInv rem I r raw) :
    ∃ r', drainConn S D cfg r = (.ok (), r') ∧ RawInv rem I r' [] := by
  obtain ⟨r', h1, hinv', _⟩ := read_raw_none S D cfg hA none (by simpa using hdef) r raw hinv
  refine ⟨r', ?_, hinv'⟩
  unfold drainConn
  rw [h1]

/-- … and when the response default is `decode_content=False` (nothing decoded so far): the same -/
theorem drainConn_complete_raw {rem : σ → Bytes} {I : σ → Option Int → Prop}
    (hA : RawReadAllSpec S cfg rem I) (hCA : ClosesAll S cfg I)
    (hdef : cfg.decodeDefault = false) (r : R σ δ) (raw : Bytes) (hinv : RawInv rem I r raw) :
    ∃ r', drainConn S D cfg r = (.ok (), r') ∧ RawInv rem I r' [] ∧
      S.isclosed r'.fp = true ∧ r'.connClosed = r.connClosed ∧
      (r.conn = true → r'.released = true ∧ r'.conn = false) := by
  obtain ⟨r', h1, hinv', hcl⟩ := read_raw_none S D cfg hA none (by simpa using hdef) r raw hinv
  obtain ⟨g1, _, g3, _⟩ := initDec_other cfg r
  obtain ⟨_, i2, i3, _⟩ := initDec_sameConn cfg r
  obtain ⟨r1, hr, _⟩ := hA.spec (initDec cfg r) (by rw [g1, g3]; exact hinv.framing)
  obtain ⟨k1, k2⟩ := rawRead_ok_conn S cfg _ _ _ _ _ hr
  have hs := read_none_sameConn S D cfg r none false _ r1 hr
  rw [h1] at hs
  obtain ⟨s1, s2, s3, s4⟩ := hs
  simp only [] at s1 s2 s3 s4
  have hclosed := hcl hCA
  refine ⟨r', ?_, hinv', hclosed, by rw [s3, k1, i3], fun hconn => ?_⟩
  · unfold drainConn
    rw [h1]
  · obtain ⟨k3, k4⟩ := k2 (by rw [← s1]; exact hclosed) (by rw [i2]; exact hconn)
    exact ⟨by rw [s4]; exact k3, by rw [s2]; exact k4⟩

end

/-! ## `http.client` raising inside `_raw_read()` -/

theorem hSrc_close_isclosed (h : H) : hSrc.isclosed (hSrc.close h) = true := rfl

/-- an exception of `http.client`'s `read()` inside `_raw_read()` comes out mapped by
`_error_catcher` -/
theorem rawRead_h_error {δ : Type} (cfg : Cfg δ) (r : R H δ) (e : HErr) (h' : H)
    (hcl : r.fp.closed = false) (h : hRead r.fp none = (.error e, h')) :
    ∃ r1, rawRead hSrc cfg r none false = (.error (mapExc (.h e)), r1) := by
  rw [rawRead_eq]
  have hb : rawBody hSrc cfg r none false = (.error (.h e), { r with fp := h' }) := by
    simp [rawBody, hSrc, hcl, h]
  rw [hb]
  obtain ⟨r2, e1, _⟩ := errorCatcher_error_conn (α := Bytes) hSrc ({ r with fp := h' } : R H δ) (.h e)
  exact ⟨r2, by simp only [e1]⟩

/-! ## broken chunked wires -/

/-- the lenient reference reader's verdict **"the framing is incomplete or a chunk-size line is
unparseable"** on the bytes that are there (and after which the peer's FIN follows), from the three
positions of `http.client`'s chunk bookkeeping: `some (k+1)` = inside a chunk with `k+1` bytes owed,
`some 0` = before the CRLF that ends a chunk, `none` = at a size line.  (A negative size, or a
last-chunk line — complete or cut after its digit — are not `Broken`: DESIGN §6 C13.) -/
inductive Broken : Option Nat → Bytes → Prop
  | short (k : Nat) (c : Bytes) : c.length < k + 1 → Broken (some (k + 1)) c
  | data (k : Nat) (c : Bytes) : k + 1 ≤ c.length → Broken (some 0) (c.drop (k + 1)) → Broken (some (k + 1)) c
  | nosep (c : Bytes) : c.length < 2 → Broken (some 0) c
  | sep (c : Bytes) : 2 ≤ c.length → Broken none (c.drop 2) → Broken (some 0) c
  | badline (c : Bytes) : parseSize (cutExt (lineOf c)) = .valueError → Broken none c
  | line (c : Bytes) (n : Nat) : parseSize (cutExt (lineOf c)) = .ok (n + 1) →
      Broken (some (n + 1)) (c.drop (lineOf c).length) → Broken none c

/-- `_read_next_chunk_size` (and what follows) at a size line of a broken body -/
theorem lineStep_broken (h : H) (f : Fp) (hf : h.fp = some f) (hb : Broken none f.content) :
    (∃ h', lineStep h = (.error .incompleteRead, h')) ∨
    (∃ n f' h', lineStep h = (.ok (some (n + 1)), h') ∧ h'.fp = some f' ∧ h'.chunkLeft = some (n + 1) ∧
      Broken (some (n + 1)) f'.content ∧ f'.content.length < f.content.length ∧ SameFrame h h') := by
  unfold lineStep
  rw [hFpReadline_eq h f hf]
  simp only []
  cases hb with
  | badline _ hv =>
    left
    rw [hv]
    exact ⟨_, rfl⟩
  | line _ n hn hb1 =>
    right
    rw [hn]
    refine ⟨n, (fpReadline f).2, _, rfl, rfl, rfl, ?_, ?_, rfl, rfl, rfl, rfl⟩
    · rw [(fpReadline_spec f).2.1]; exact hb1
    · rw [(fpReadline_spec f).2.1, List.length_drop]
      have := lineOf_pos_of_size hn
      have := lineOf_length_le f.content
      omega

/-- `_get_chunk_left` on a broken body: it raises `IncompleteRead`, or a chunk is current whose
data (or what follows it) is broken -/
theorem hGetChunkLeft_broken (h : H) (f : Fp) (hf : h.fp = some f) (hb : Broken h.chunkLeft f.content) :
    (∃ h', hGetChunkLeft h = (.error .incompleteRead, h')) ∨
    (∃ n f' h', hGetChunkLeft h = (.ok (some (n + 1)), h') ∧ h'.fp = some f' ∧ h'.chunkLeft = some (n + 1) ∧
      Broken (some (n + 1)) f'.content ∧ f'.content.length ≤ f.content.length ∧ SameFrame h h') := by
  cases hcl : h.chunkLeft with
  | none =>
    rw [hcl] at hb
    rw [hGetChunkLeft_none h hcl]
    rcases lineStep_broken h f hf hb with h1 | ⟨n, f', h', e1, e2, e3, e4, e5, e6⟩
    · left; exact h1
    · right; exact ⟨n, f', h', e1, e2, e3, e4, by omega, e6⟩
  | some k =>
    cases k with
    | succ n =>
      right
      rw [hcl] at hb
      exact ⟨n, f, h, hGetChunkLeft_pos h n hcl, hf, hcl, hb, Nat.le_refl _, SameFrame.refl h⟩
    | zero =>
      rw [hcl] at hb
      rw [hGetChunkLeft_zero h hcl]
      cases hb with
      | nosep _ hlen =>
        left
        obtain ⟨f1, e1, _⟩ := hSafeRead_short h f 2 hf hlen
        rw [e1]
        exact ⟨_, rfl⟩
      | sep _ hlen hb2 =>
        obtain ⟨f1, e1, c1, _⟩ := hSafeRead_ok h f 2 hf hlen
        rw [e1]
        simp only []
        rw [← c1] at hb2
        rcases lineStep_broken { h with fp := some f1 } f1 rfl hb2 with
          ⟨h', a1⟩ | ⟨n, f', h', a1, a2, a3, a4, a5, a6⟩
        · left; exact ⟨h', a1⟩
        · right
          refine ⟨n, f', h', a1, a2, a3, a4, ?_, a6⟩
          rw [c1, List.length_drop] at a5
          omega

/-- **`_read_chunked(None)` on a broken body raises `IncompleteRead`** — from every position, for
every segmentation, however many whole chunks precede the damage -/
theorem hReadChunkedLoop_broken : ∀ (fuel : Nat) (h : H) (f : Fp) (acc : Bytes),
    h.fp = some f → Broken h.chunkLeft f.content → f.content.length < fuel →
    ∃ h', hReadChunkedLoop fuel h none acc = (.error .incompleteRead, h') := by
  intro fuel
  induction fuel with
  | zero => intro h f acc _ _ hl; omega
  | succ k ih =>
    intro h f acc hf hb hl
    unfold hReadChunkedLoop
    rcases hGetChunkLeft_broken h f hf hb with ⟨h1, e1⟩ | ⟨n, f1, h1, e1, e2, e3, e4, e5, e6⟩
    · rw [e1]
      exact ⟨h1, rfl⟩
    · rw [e1]
      simp only []
      cases e4 with
      | short _ _ hlen =>
        obtain ⟨f2, s1, _⟩ := hSafeRead_short h1 f1 (n + 1) e2 hlen
        rw [s1]
        exact ⟨_, rfl⟩
      | data _ _ hlen hb2 =>
        obtain ⟨f2, s1, s2, _⟩ := hSafeRead_ok h1 f1 (n + 1) e2 hlen
        rw [s1]
        simp only []
        exact ih { { h1 with fp := some f2 } with chunkLeft := some 0 } f2 (acc ++ f1.content.take (n + 1)) rfl
          (by show Broken (some 0) f2.content; rw [s2]; exact hb2)
          (by rw [s2, List.length_drop]; omega)

/-- `HTTPResponse.read()` on a broken chunked body raises `IncompleteRead` -/
theorem hRead_broken_none (h : H) (f : Fp) (hf : h.fp = some f) (hh : h.head = false)
    (hc : h.chunked = true) (hb : Broken h.chunkLeft f.content) :
    ∃ h', hRead h none = (.error .incompleteRead, h') := by
  obtain ⟨h', e1⟩ := hReadChunkedLoop_broken (h.avail + 2) h f [] hf hb (by simp [H.avail, hf])
  refine ⟨h', ?_⟩
  unfold hRead
  simp only [hf, hh, hc, Bool.false_eq_true, if_false, if_true]
  exact e1

/-- a broken wire is outside the well-framed domain of C12: the reference reader `refBody` does not
accept it -/
theorem Broken.not_complete {cl : Option Nat} {c : Bytes} (hb : Broken cl c) : refBody cl c = none := by
  induction hb with
  | short k c hlen =>
    unfold refBody
    rw [refChunks_pos, if_pos hlen]
  | data k c hlen _ ih =>
    unfold refBody at ih ⊢
    rw [refChunks_pos, if_neg (by omega)]
    rw [refChunks_fuel c.length _ (some 0) (c.drop (k + 1)) (by simp only [List.length_drop]; omega)
      (Nat.lt_succ_self _), ih]
    rfl
  | nosep c hlen =>
    unfold refBody
    rw [refChunks_zero, if_pos hlen]
  | sep c hlen _ ih =>
    unfold refBody at ih ⊢
    rw [refChunks_zero, if_neg (by omega)]
    rw [refChunks_fuel c.length _ none (c.drop 2) (by simp only [List.length_drop]; omega)
      (Nat.lt_succ_self _), ih]
  | badline c hv =>
    unfold refBody
    rw [refChunks_line, hv]
  | line c n hn _ ih =>
    unfold refBody at ih ⊢
    rw [refChunks_line, hn]
    simp only []
    have := lineOf_pos_of_size hn
    have := lineOf_length_le c
    rw [refChunks_fuel c.length _ (some (n + 1)) (c.drop (lineOf c).length)
      (by simp only [List.length_drop]; omega) (Nat.lt_succ_self _), ih]

end U3.Resp
