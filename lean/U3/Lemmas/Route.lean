import U3.Model.Route
import U3.Lemmas.PoolKey
import U3.Lemmas.Url
import U3.Lemmas.Wire
/-! Helper lemmas for `U3.Props.C15` (core Lean only). -/
namespace U3.Route
open U3

/-- one request through a fresh manager built with the pool keywords `extra` -/
def routeWith (idna : Str → Option Str) (proxy : Option ProxyCfg) (extra : PoolKey.Ctx) (u : Url.Url)
    (carried : List (Str × Str) := []) : Except Exc Route :=
  (route idna (Mgr.init proxy extra) u carried).2

theorem routeFresh_eq (idna : Str → Option Str) (proxy : Option ProxyCfg) (u : Url.Url) :
    routeFresh idna proxy u = routeWith idna proxy [] u := rfl

/-- the `(host, port, scheme)` handed to `connection_from_host` -/
def poolTarget (proxy : Option ProxyCfg) (u : Url.Url) : Option Str × PoolKey.Val × Option Str :=
  match proxy with
  | some p => if u.scheme = some https then (u.host, portVal u.port, u.scheme)
              else (p.host, .int p.port, some p.scheme)
  | none => (u.host, portVal u.port, u.scheme)

/-- `scheme or "http"` on an optional scheme -/
def schemeOrO (scheme : Option Str) : Str :=
  match scheme with
  | some s => if s.isEmpty then PoolKey.kHttp else s
  | none => PoolKey.kHttp


/-- `poolFor` after the request context has been built -/
def poolForRC (idna : Str → Option Str) (m : Mgr) (rcE : Except PoolKey.Exc PoolKey.Ctx) :
    Mgr × Except Exc (Nat × PoolKey.Key × Pool) :=
  match rcE with
  | .error e => (m, .error (ofKeyExc e))
  | .ok rc =>
    let rc' := if PoolKey.has rc PoolKey.kStrict then PoolKey.erase rc PoolKey.kStrict else rc
    match PoolKey.fromContext m.pk rc, PoolKey.normalize rc' with
    | (_, .exc e), _ => (m, .error (ofKeyExc e))
    | (_, .old id), .ok key =>
      (match m.pools[id]? with
       | some pl => (m, .ok (id, key, pl))
       | none => (m, .error .unmodelled))
    | (pk', .new id _), .ok key =>
      (match PoolKey.get rc PoolKey.kScheme, PoolKey.get rc PoolKey.kHost, PoolKey.get rc PoolKey.kPort with
       | some (.str s), some (.str h), some (.int p) =>
         (match newPool idna s h p.toNat with
          | .error e => (m, .error e)
          | .ok pl => ({ m with pk := pk', pools := m.pools ++ [pl] }, .ok (id, key, pl)))
       | _, _, _ => (m, .error .unmodelled))
    | _, .error e => (m, .error (ofKeyExc e))

theorem poolFor_eq (idna : Str → Option Str) (m : Mgr) (u : Url.Url) :
    poolFor idna m u = poolForRC idna m
      (PoolKey.requestContext m.pk.defaults (poolTarget m.proxy u).1 (poolTarget m.proxy u).2.1
        (poolTarget m.proxy u).2.2 none) := rfl

theorem requestContext_ok {d : PoolKey.Ctx} {host : Option Str} {port : PoolKey.Val} {scheme : Option Str}
    {rc : PoolKey.Ctx} (h : PoolKey.requestContext d host port scheme none = .ok rc) :
    ∃ hst, host = some hst ∧ hst ≠ [] ∧
      rc = PoolKey.hostCtx d (schemeOrO scheme) (PoolKey.portOr port (schemeOrO scheme)) hst := by
  unfold PoolKey.requestContext at h
  cases host with
  | none => simp at h
  | some hst =>
    by_cases he : hst.isEmpty = true
    · simp [he] at h
    · simp only [he] at h
      refine ⟨hst, rfl, by simpa using he, ?_⟩
      simp only [Bool.false_eq_true, if_false, Except.ok.injEq] at h
      rw [← h]
      cases scheme <;> rfl

theorem fromContext_new_id {m : PoolKey.Mgr} {rc : PoolKey.Ctx} {pk' : PoolKey.Mgr} {id : Nat} {kw : PoolKey.Ctx}
    (h : PoolKey.fromContext m rc = (pk', .new id kw)) : id = m.next := by
  unfold PoolKey.fromContext at h
  simp only at h
  split at h
  · simp at h
  · split at h
    · simp at h
    · split at h
      · simp at h
      · split at h
        · simp at h
        · split at h
          · split at h
            · simp at h
            · simp only [Prod.mk.injEq, PoolKey.Out.new.injEq] at h
              exact h.2.1.symm
          · simp at h
  · simp at h

theorem poolForRC_init_ok {idna : Str → Option Str} {proxy : Option ProxyCfg} {extra : PoolKey.Ctx}
    {rcE : Except PoolKey.Exc PoolKey.Ctx} {m' : Mgr} {id : Nat} {key : PoolKey.Key} {pl : Pool}
    (h : poolForRC idna (Mgr.init proxy extra) rcE = (m', .ok (id, key, pl))) :
    ∃ rc s hst p, rcE = .ok rc ∧ PoolKey.get rc PoolKey.kScheme = some (.str s) ∧
      PoolKey.get rc PoolKey.kHost = some (.str hst) ∧ PoolKey.get rc PoolKey.kPort = some (.int p) ∧
      newPool idna s hst p.toNat = .ok pl ∧ id = 0 := by
  unfold poolForRC at h
  split at h
  · simp at h
  · rename_i rc
    simp only at h
    split at h
    · simp at h
    · simp [Mgr.init] at h
    · rename_i pk' id' kw key' hf hn
      split at h
      · rename_i s hst p hs hh hp
        split at h
        · simp at h
        · simp only [Prod.mk.injEq, Except.ok.injEq] at h
          obtain ⟨-, rfl, rfl, rfl⟩ := h
          exact ⟨rc, s, hst, p, rfl, hs, hh, hp, by assumption, by
            have := fromContext_new_id hf; simpa [Mgr.init, PoolKey.Mgr.init] using this⟩
      · simp at h
    · simp at h
theorem poolFor_init_ok {idna : Str → Option Str} {proxy : Option ProxyCfg} {extra : PoolKey.Ctx}
    {u : Url.Url} {m' : Mgr} {id : Nat} {key : PoolKey.Key} {pl : Pool}
    (h : poolFor idna (Mgr.init proxy extra) u = (m', .ok (id, key, pl))) :
    ∃ hst pv, (poolTarget proxy u).1 = some hst ∧ hst ≠ [] ∧
      PoolKey.portOr (poolTarget proxy u).2.1 (schemeOrO (poolTarget proxy u).2.2) = .int pv ∧
      newPool idna (schemeOrO (poolTarget proxy u).2.2) hst pv.toNat = .ok pl ∧ id = 0 := by
  rw [poolFor_eq] at h
  obtain ⟨rc, s, hst, p, hrc, hs, hh, hp, hnp, hid⟩ := poolForRC_init_ok h
  obtain ⟨hst', hhost, hne, rfl⟩ := requestContext_ok hrc
  simp only [PoolKey.hostCtx, PoolKey.get_set, PoolKey.kne_sh, PoolKey.kne_sp, PoolKey.kne_hp,
    PoolKey.kne_hp.symm, PoolKey.kne_sp.symm, if_true, if_false, Option.some.injEq, PoolKey.Val.str.injEq] at hs hh hp
  subst hs hh
  exact ⟨hst', p, hhost, hne, hp, hnp, hid⟩


theorem classDefaultPort_eq (b : Bool) : classDefaultPort b = some (if b then 443 else 80) := by
  cases b <;> decide

/-- the `Cfg` of a connection of the pool's own class to `(host, port)` -/
def connCfg (isHttps : Bool) (dnsHost : Str) (port : Nat) : Wire.Cfg :=
  ⟨rstripDot dnsHost, port, if isHttps then 443 else 80, 16384, .error .assertionError, .error .unicodeError⟩

def hostVals (p : Wire.Prepared) : List Bytes :=
  (p.hdrs.filter fun h => lower h.1 == lit "host").map (·.2)

theorem send_direct_ok {u : Url.Url} {pl : Pool} {carried : List (Str × Str)}
    {res : Str × Nat × List Str × Option Bytes × Str × List Bytes × Bytes × List (Str × Str)}
    (h : send none u pl carried = .ok res) :
    ∃ target p dh dp, u.requestUri.head? = some 47 ∧ Url.encodeTarget u.requestUri = .ok target ∧
      Wire.prepare (connCfg pl.isHttps pl.host pl.port) methodGet target carried .none false = .ok p ∧
      dial pl.host pl.port = .ok (dh, dp) ∧
      res = (dh, dp, (if pl.isHttps then [sniNorm (rstripDot (rstripDot pl.host))] else []), none, target,
        hostVals p, writtenOf p, carried) := by
  unfold send at h
  simp only [Option.isSome_none, Bool.false_and, Bool.false_eq_true, if_false, classDefaultPort_eq] at h
  split at h
  · simp at h
  · rename_i target ht
    split at ht
    · rename_i h47
      split at ht
      · rename_i t het
        simp only [Except.ok.injEq] at ht
        subst ht
        split at h
        · simp at h
        · split at h
          · simp at h
          · simp at h
          · simp at h
          · rename_i p dh dp hp hdl
            simp only [Except.ok.injEq] at h
            exact ⟨t, p, dh, dp, h47, het, hp, hdl, h.symm⟩
      · simp at ht
    · simp at ht

/-- the host part of the `Host` value `http.client.putrequest` computes from `self.host` -/
def hostText (h : Str) : Str :=
  if h.contains 58 then
    (if h.contains 37 then 91 :: h.takeWhile (· != 37) ++ [93] else 91 :: h ++ [93])
  else h

def valBytes : Str ⊕ Bytes → Bytes
  | .inl s => s
  | .inr b => b

theorem hcPutheader_value {name : Str} {value : Str ⊕ Bytes} {h : Wire.Hdr}
    (e : Wire.hcPutheader name value = .ok h) :
    h = (name, valBytes value) := by
  have hn := Wire.hcPutheader_name e
  cases value with
  | inl s => exact Wire.hcPutheader_str_value e
  | inr b =>
    unfold Wire.hcPutheader at e
    split at e
    · simp at e
    · split at e
      · simp at e
      · simp only at e
        split at e
        · simp at e
        · simp only [Except.ok.injEq] at e
          rw [← e] at hn ⊢
          simp only at hn
          simp [hn, valBytes]

theorem takeWhile_append_of_mem (e s : Str) (h : e.contains 37 = true) :
    (e ++ s).takeWhile (· != 37) = e.takeWhile (· != 37) := by
  induction e with
  | nil => simp at h
  | cons x t ih =>
    by_cases hx : x = 37
    · subst hx; simp
    · have : t.contains 37 = true := by
        simp only [List.contains_cons] at h
        have : (37 == x) = false := by simpa using fun e => hx e.symm
        simpa [this] using h
      simp [hx, ih this]

theorem takeWhile_bracketed (e : Str) (h : e.contains 37 = true) :
    ([91] ++ e ++ [93]).takeWhile (· != 37) = 91 :: e.takeWhile (· != 37) := by
  simp only [List.cons_append, List.nil_append]
  rw [List.takeWhile_cons_of_pos (by decide), takeWhile_append_of_mem _ _ h]

theorem hostValue_origin (cfg : Wire.Cfg) (url : Str) (hu : isPrefix (lit "http") url = false)
    (ha : cfg.host.all (· < 128) = true) :
    Wire.hostValue cfg url = .ok
      (if cfg.port = cfg.defaultPort then .inr (hostText cfg.host)
       else .inl (hostText cfg.host ++ [58] ++ Wire.toDec cfg.port)) := by
  unfold Wire.hostValue
  simp only [hu, Bool.false_eq_true, if_false, bind, Except.bind, pure, Except.pure, bne_self_eq_false,
    Wire.asciiOrIdna, Wire.encodeAscii, ha, if_true]
  unfold hostText
  by_cases h58 : cfg.host.contains 58 = true
  · simp only [h58, if_true, Wire.stripIpv6Iface]
    by_cases h37 : cfg.host.contains 37 = true
    · have : ([91] ++ cfg.host ++ [93]).contains 37 = true := by
        simp only [List.contains_eq_mem, List.mem_append, decide_eq_true_eq] at h37 ⊢
        simp [h37]
      simp only [this, if_true, takeWhile_bracketed _ h37, List.head?_cons, h37]
      split <;> simp
    · have : ([91] ++ cfg.host ++ [93]).contains 37 = false := by
        simp only [List.contains_eq_mem, List.mem_append, decide_eq_true_eq] at h37 ⊢
        simp [h37]
      simp only [this, Bool.false_eq_true, if_false, h37]
      split <;> simp
  · simp only [h58, Bool.false_eq_true, if_false]
    split <;> simp


theorem putrequest_inv {cfg : Wire.Cfg} {meth url : Str} {sh sa : Bool} {r : Bytes × List Wire.Hdr}
    (e : Wire.putrequest cfg meth url sh sa = .ok r) :
    r.1 = meth ++ [32] ++ Wire.urlOrSlash url ++ [32] ++ Wire.httpVsn ∧
    ∃ hostL, (if sh then hostL = [] else ∃ hv, Wire.hostLine cfg (Wire.urlOrSlash url) = .ok hv ∧ hostL = [hv]) ∧
      r.2 = hostL ++ (if sa then [] else [(lit "Accept-Encoding", lit "identity")]) := by
  have h1 := (Wire.putrequest_ok e).1.eq
  refine ⟨h1, ?_⟩
  unfold Wire.putrequest at e
  split at e
  · simp at e
  · split at e
    · simp at e
    · split at e
      · simp at e
      · split at e
        · simp at e
        · split at e
          · simp at e
          · split at e
            · simp at e
            · rename_i hostL hhost
              split at e
              · simp at e
              · rename_i aeL hae
                simp only [Except.ok.injEq] at e
                subst e
                refine ⟨hostL, ?_, ?_⟩
                · cases sh with
                  | true => simpa using hhost.symm
                  | false =>
                    simp only [Bool.false_eq_true, if_false] at hhost ⊢
                    obtain ⟨a, ha, e2⟩ := Wire.map_ok hhost
                    exact ⟨a, ha, e2.symm⟩
                · cases sa with
                  | true => simp at hae; simp [hae]
                  | false =>
                    simp only [Bool.false_eq_true, if_false] at hae ⊢
                    obtain ⟨a, ha, e2⟩ := Wire.map_ok hae
                    subst e2
                    rw [Wire.hcPutheader_str_value ha]

/-- the three header lines `request` adds to a header-less GET besides `Host` -/
def aeHdr : Wire.Hdr := (lit "Accept-Encoding", lit "identity")
def uaHdr : Wire.Hdr := (lit "User-Agent", Gen.defaultUserAgent)

theorem prepare_eq_nv (cfg : Wire.Cfg) (meth url : Str) (headers : List (Str × Str)) :
    Wire.prepare cfg meth url headers .none false =
      if Wire.hcUrlBad cfg.host then .error .invalidURL else prepareNoValidate cfg meth url headers := by
  unfold Wire.prepare prepareNoValidate; rfl

theorem prepareNV_of_prepare {cfg : Wire.Cfg} {meth url : Str} {headers : List (Str × Str)} {p : Wire.Prepared}
    (e : Wire.prepare cfg meth url headers .none false = .ok p) :
    prepareNoValidate cfg meth url headers = .ok p := by
  rw [prepare_eq_nv] at e
  split at e
  · simp at e
  · exact e

theorem prepareNV_inv {cfg : Wire.Cfg} {meth url : Str} {headers : List (Str × Str)}
    {p : Wire.Prepared} (e : prepareNoValidate cfg meth url headers = .ok p) :
    ∃ l0 cc fr ua hs,
      Wire.putrequest cfg meth url ((Wire.headerKeys headers).contains (lit "host"))
        ((Wire.headerKeys headers).contains (lit "accept-encoding")) = .ok l0 ∧
      Wire.bodyToChunks .none meth cfg.blocksize = .ok cc ∧
      Wire.framing (Wire.headerKeys headers) false cc.chunks cc.contentLength = .ok fr ∧
      (if (Wire.headerKeys headers).contains (lit "user-agent") then .ok []
       else Wire.putheader (lit "User-Agent") Gen.defaultUserAgent) = .ok ua ∧
      Wire.putCallerHeaders headers = .ok hs ∧
      p = ⟨l0.1, l0.2 ++ fr.lines ++ ua ++ hs, fr.chunked, cc.chunks, cc.after⟩ := by
  unfold prepareNoValidate at e
  split at e
  · simp at e
  · rename_i l0 h0
    split at e
    · simp at e
    · rename_i cc hcc
      split at e
      · simp at e
      · rename_i fr hfr
        split at e
        · simp at e
        · rename_i ua hua
          split at e
          · simp at e
          · rename_i hs hhs
            injection e with e
            exact ⟨l0, cc, fr, ua, hs, h0, hcc, hfr, hua, hhs, e.symm⟩

theorem prepare_get_inv {cfg : Wire.Cfg} {url : Str} {headers : List (Str × Str)} {p : Wire.Prepared}
    (e : prepareNoValidate cfg methodGet url headers = .ok p)
    (hcl : (Wire.headerKeys headers).contains (lit "content-length") = false)
    (hte : (Wire.headerKeys headers).contains (lit "transfer-encoding") = false) :
    p.reqLine = methodGet ++ [32] ++ Wire.urlOrSlash url ++ [32] ++ Wire.httpVsn ∧
    p.chunked = false ∧ p.chunks = none ∧
    ∃ hostL, (if (Wire.headerKeys headers).contains (lit "host") then hostL = []
              else ∃ hv, Wire.hostLine cfg (Wire.urlOrSlash url) = .ok hv ∧ hostL = [hv]) ∧
      p.hdrs = hostL ++ (if (Wire.headerKeys headers).contains (lit "accept-encoding") then [] else [aeHdr]) ++
        (if (Wire.headerKeys headers).contains (lit "user-agent") then [] else [uaHdr]) ++
        Wire.callerHdrs headers := by
  obtain ⟨l0, cc, fr, ua, hs, h0, hcc, hfr, hua, hhs, rfl⟩ := prepareNV_inv e
  obtain ⟨hrl, hostL, hh, h2⟩ := putrequest_inv h0
  have hcc' : cc.chunks = none ∧ cc.contentLength = none := by
    have : Wire.bodyToChunks .none methodGet cfg.blocksize = .ok ⟨none, none, .none⟩ := by
      unfold Wire.bodyToChunks
      have : Gen.methodsNotExpectingBody.contains (upper methodGet) = true := by decide
      simp only [this, if_true]
    rw [this] at hcc
    simp only [Except.ok.injEq] at hcc
    subst hcc
    exact ⟨rfl, rfl⟩
  have hfr' : fr = ⟨false, []⟩ := by
    rw [hcc'.1, hcc'.2] at hfr
    unfold Wire.framing at hfr
    simp only [Bool.false_eq_true, if_false, hcl, hte, Option.isSome_none, Except.ok.injEq] at hfr
    exact hfr.symm
  subst hfr'
  refine ⟨hrl, rfl, hcc'.1, hostL, hh, ?_⟩
  have hua' : ua = if (Wire.headerKeys headers).contains (lit "user-agent") then [] else [uaHdr] := by
    split at hua
    · rename_i hk
      simp only [Except.ok.injEq] at hua
      rw [if_pos hk]; exact hua.symm
    · rename_i hk
      have := Wire.putheader_eq hua
      have hne : (Gen.defaultUserAgent != Gen.skipHeader) = true := by decide
      simp only [hne, if_true] at this
      rw [if_neg hk]; exact this
  simp only [h2, hua', Wire.putCallerHeaders_eq hhs, List.append_nil, aeHdr]



/-- `port_by_scheme.get(scheme.lower(), 80)` for `scheme or "http"` -/
def dfltPort (scheme : Option Str) : Nat :=
  (List.lookup (lower (schemeOrO scheme)) Gen.portByScheme).getD 80

/-- the port `connection_from_host` ends up with: `if not port:` replaces an absent port — and port 0 —
by the scheme default -/
def effPort (u : Url.Url) : Nat :=
  match u.port with
  | some p => if p ≠ 0 then p else dfltPort u.scheme
  | none => dfltPort u.scheme

theorem portOr_portVal (u : Url.Url) :
    PoolKey.portOr (portVal u.port) (schemeOrO u.scheme) = .int (effPort u) := by
  unfold PoolKey.portOr effPort dfltPort portVal
  cases u.port with
  | none => simp [PoolKey.Val.truthy]
  | some p =>
    by_cases hp : p = 0
    · subst hp; simp [PoolKey.Val.truthy]
    · have : ((p : Int) != 0) = true := by simp; omega
      simp [PoolKey.Val.truthy, this, hp]

theorem dial_ok {d : Str} {port : Nat} {dh : Str} {dp : Nat} (h : dial d port = .ok (dh, dp)) :
    dh = (if d.head? = some 91 then stripBr d else d) ∧ dp = port ∧ dh.all (· < 128) = true ∧
      idnaCodecOk dh = true := by
  unfold dial at h
  generalize (if d.head? = some 91 then stripBr d else d) = host at h ⊢
  simp only at h
  split at h
  · simp at h
  · rename_i ha
    split at h
    · simp at h
    · rename_i hi
      simp only [Except.ok.injEq, Prod.mk.injEq] at h
      obtain ⟨rfl, rfl⟩ := h
      exact ⟨rfl, rfl, by simpa using ha, by simpa using hi⟩

theorem mem_dropWhile_or {p : Nat → Bool} {l : List Nat} {x : Nat} (h : x ∈ l) :
    x ∈ l.dropWhile p ∨ p x = true := by
  induction l with
  | nil => simp at h
  | cons a t ih =>
    by_cases ha : p a = true
    · rw [List.dropWhile_cons_of_pos ha]
      rcases List.mem_cons.mp h with rfl | ht
      · exact Or.inr ha
      · exact ih ht
    · rw [List.dropWhile_cons_of_neg ha]; exact Or.inl h

theorem mem_stripBr_or {s : Str} {x : Nat} (h : x ∈ s) : x ∈ stripBr s ∨ isBr x = true := by
  unfold stripBr
  rcases mem_dropWhile_or (p := isBr) h with h1 | h1
  · have h2 : x ∈ (s.dropWhile isBr).reverse := List.mem_reverse.mpr h1
    rcases mem_dropWhile_or (p := isBr) h2 with h3 | h3
    · exact Or.inl (List.mem_reverse.mpr h3)
    · exact Or.inr h3
  · exact Or.inr h1

theorem mem_rstripDot {s : Str} {x : Nat} (h : x ∈ rstripDot s) : x ∈ s := by
  unfold rstripDot at h
  have := List.mem_reverse.mp h
  exact List.mem_reverse.mp (Wire.mem_dropWhile_mem this)

theorem dial_ascii {d : Str} {port : Nat} {dh : Str} {dp : Nat} (h : dial d port = .ok (dh, dp)) :
    d.all (· < 128) = true := by
  obtain ⟨h1, -, h3, -⟩ := dial_ok h
  simp only [List.all_eq_true, decide_eq_true_eq] at h3 ⊢
  intro x hx
  split at h1
  · subst h1
    rcases mem_stripBr_or hx with h | h
    · exact h3 x h
    · simp only [isBr, Bool.or_eq_true, beq_iff_eq] at h; omega
  · subst h1; exact h3 x hx


theorem encodeInvalidChars_slash (A : List Nat) (h47 : Url.mem A 47 = true) (s : Str) :
    ∃ r, Url.encodeInvalidChars A (47 :: s) = 47 :: r := by
  rw [Url.encodeInvalidChars_eq]
  have : Url.tokenize (47 :: s) = .chr 47 :: Url.tokenize s := by
    simp [Url.tokenize, Url.tokAux]
  rw [this, List.flatMap_cons, Url.encTok_slash A _ h47]
  exact ⟨_, rfl⟩

theorem encodeTarget_ok_eq {t s : Str} (h : Url.encodeTarget t = .ok s) :
    ∃ t', t = 47 :: t' ∧ s = Url.encodeInvalidChars Gen.pathChars (Url.splitPQF t).1 ++
      (match (Url.splitPQF t).2.1 with
       | some q => 63 :: Url.encodeInvalidChars Gen.queryChars q
       | none => []) := by
  unfold Url.encodeTarget at h
  split at h
  · rename_i t'
    refine ⟨t', rfl, ?_⟩
    simp only at h
    split at h
    · split at h
      · exact (Except.ok.inj h).symm
      · simp at h
    · simp only [if_true] at h
      exact (Except.ok.inj h).symm
  · simp at h

theorem encodeTarget_head {t s : Str} (h : Url.encodeTarget t = .ok s) : ∃ r, s = 47 :: r := by
  obtain ⟨t', rfl, hs⟩ := encodeTarget_ok_eq h
  have hp : (Url.splitPQF (47 :: t')).1 = 47 :: t'.takeWhile Url.pathChar := by
    simp [Url.splitPQF, Url.pathChar]
  obtain ⟨r, hr⟩ := encodeInvalidChars_slash Gen.pathChars (by decide) (t'.takeWhile Url.pathChar)
  rw [hs, hp, hr]
  exact ⟨_, rfl⟩

/-- the name `create_connection` finally dials: brackets stripped when the name starts with one -/
def dialName (d : Str) : Str := if d.head? = some 91 then stripBr d else d

/-- the `Host` value `http.client` computes for a connection to `(D, port)` of the pool's class -/
def hostHdrValue (isHttps : Bool) (D : Str) (port : Nat) : Bytes :=
  hostText (rstripDot D) ++ (if port = (if isHttps then 443 else 80) then [] else 58 :: Wire.toDec port)

/-- the bytes of a header-less GET -/
def requestBytes (target : Str) (hostV : Bytes) : Bytes :=
  Wire.headBytes [methodGet ++ [32] ++ target ++ [32] ++ Wire.httpVsn, Wire.hdrLine (lit "Host", hostV),
    Wire.hdrLine aeHdr, Wire.hdrLine uaHdr]

theorem hostLine_origin {cfg : Wire.Cfg} {url : Str} {hv : Wire.Hdr}
    (hu : isPrefix (lit "http") url = false) (ha : cfg.host.all (· < 128) = true)
    (h : Wire.hostLine cfg url = .ok hv) :
    hv = (lit "Host", hostText cfg.host ++
      (if cfg.port = cfg.defaultPort then [] else 58 :: Wire.toDec cfg.port)) := by
  unfold Wire.hostLine at h
  rw [hostValue_origin cfg url hu ha] at h
  simp only at h
  rw [hcPutheader_value h]
  split <;> simp [valBytes]

theorem isPrefix_http_slash (r : Str) : isPrefix (lit "http") (Wire.urlOrSlash (47 :: r)) = false := by
  have : lit "http" = [104, 116, 116, 112] := by decide
  simp [this, Wire.urlOrSlash, isPrefix]

/-- a header-less GET of an origin-form target on a connection whose `host` is ASCII -/
theorem prepare_get_origin {cfg : Wire.Cfg} {r : Str} {p : Wire.Prepared}
    (ha : cfg.host.all (· < 128) = true)
    (e : prepareNoValidate cfg methodGet (47 :: r) [] = .ok p) :
    hostVals p = [hostText cfg.host ++ (if cfg.port = cfg.defaultPort then [] else 58 :: Wire.toDec cfg.port)] ∧
    writtenOf p = requestBytes (47 :: r)
      (hostText cfg.host ++ (if cfg.port = cfg.defaultPort then [] else 58 :: Wire.toDec cfg.port)) := by
  obtain ⟨hrl, hch, hck, hostL, hh, hhd⟩ := prepare_get_inv e (by decide) (by decide)
  have hk1 : (Wire.headerKeys []).contains (lit "host") = false := by decide
  have hk2 : (Wire.headerKeys []).contains (lit "accept-encoding") = false := by decide
  have hk3 : (Wire.headerKeys []).contains (lit "user-agent") = false := by decide
  simp only [hk1, hk2, hk3, Bool.false_eq_true, if_false] at hh hhd
  obtain ⟨hv, hl, rfl⟩ := hh
  have hv' := hostLine_origin (isPrefix_http_slash r) ha hl
  have hcall : Wire.callerHdrs [] = [] := rfl
  have hf1 : (lower (lit "Host") == lit "host") = true := by decide
  have hf2 : (lower aeHdr.1 == lit "host") = false := by decide
  have hf3 : (lower uaHdr.1 == lit "host") = false := by decide
  constructor
  · simp only [hostVals, hhd, hcall, List.append_nil, List.cons_append, List.nil_append, hv',
      List.filter_cons, hf1, hf2, hf3, if_true, Bool.false_eq_true, if_false, List.filter_nil,
      List.map_cons, List.map_nil]
  · have hbp : (Wire.bodyPhase p).written = [] := by
      simp [Wire.bodyPhase, hck, hch]
    simp only [writtenOf, hbp, List.append_nil, requestBytes, Wire.Prepared.lines, hrl, hhd, hcall, hv',
      List.cons_append, List.nil_append, List.map_cons, List.map_nil, Wire.urlOrSlash, List.isEmpty_cons,
      Bool.false_eq_true, if_false]



theorem poolTarget_direct (u : Url.Url) : poolTarget none u = (u.host, portVal u.port, u.scheme) := rfl

theorem newPool_ok {idna : Str → Option Str} {s h : Str} {port : Nat} {pl : Pool}
    (e : newPool idna s h port = .ok pl) :
    ∃ h', Url.normalizeHost idna (some h) (some s) = .ok (some h') ∧
      pl = ⟨s == https, unbracket h', port, lower h'⟩ := by
  unfold newPool renorm at e
  split at e
  · simp at e
  · rename_i h' hr
    split at hr
    · rename_i h'' hn
      simp only [Except.ok.injEq] at hr e
      subst hr
      exact ⟨h'', hn, e.symm⟩
    · simp at hr
    · simp at hr

/-- everything a direct request of a fresh manager puts on the wire, in terms of the pool
`connection_from_host` builds -/
theorem route_direct_ok {idna : Str → Option Str} {extra : PoolKey.Ctx} {u : Url.Url} {r : Route}
    (h : routeWith idna none extra u = .ok r) :
    ∃ hst pl tr, u.host = some hst ∧ hst ≠ [] ∧
      newPool idna (schemeOrO u.scheme) hst (effPort u) = .ok pl ∧
      u.requestUri.head? = some 47 ∧ Url.encodeTarget u.requestUri = .ok (47 :: tr) ∧
      r.pool = 0 ∧ r.dialHost = dialName pl.host ∧ r.dialPort = pl.port ∧
      r.tls = (if pl.isHttps then [sniNorm (rstripDot (rstripDot pl.host))] else []) ∧
      r.connect = none ∧ r.target = 47 :: tr ∧
      r.hostHeader = [hostHdrValue pl.isHttps pl.host pl.port] ∧
      r.request = requestBytes (47 :: tr) (hostHdrValue pl.isHttps pl.host pl.port) ∧
      r.kwHeaders = [] := by
  unfold routeWith route at h
  simp only [Mgr.init, Option.isSome_none, Bool.false_and, Bool.false_eq_true, if_false] at h
  split at h
  · simp at h
  · rename_i m' id key pl hpf
    obtain ⟨hst, pv, hh, hne, hp, hnp, hid⟩ := poolFor_init_ok (proxy := none) (extra := extra) hpf
    rw [poolTarget_direct] at hh hp hnp
    simp only at hh hp hnp
    rw [portOr_portVal] at hp
    simp only [PoolKey.Val.int.injEq] at hp
    subst hp
    simp only [Int.toNat_natCast] at hnp
    split at h
    · simp at h
    · rename_i dh dp tls con target hhv req kwh hs
      simp only [Except.ok.injEq] at h
      obtain ⟨target', p, dh', dp', h47, het, hprep, hdial, hres⟩ := send_direct_ok hs
      simp only [Prod.mk.injEq] at hres
      obtain ⟨rfl, rfl, rfl, rfl, rfl, rfl, rfl, rfl⟩ := hres
      obtain ⟨tr, rfl⟩ := encodeTarget_head het
      obtain ⟨hd1, hd2, -, -⟩ := dial_ok hdial
      have hasc : (connCfg pl.isHttps pl.host pl.port).host.all (· < 128) = true := by
        have := dial_ascii hdial
        simp only [List.all_eq_true, decide_eq_true_eq, connCfg] at this ⊢
        exact fun x hx => this x (mem_rstripDot hx)
      obtain ⟨hv1, hv2⟩ := prepare_get_origin hasc (prepareNV_of_prepare hprep)
      subst h
      refine ⟨hst, pl, tr, hh, hne, hnp, h47, het, hid, hd1, hd2, rfl, rfl, rfl, ?_, ?_, rfl⟩
      · exact hv1
      · exact hv2



/-- every character of a normal-form component: allowed, `%`, or an upper-case hex digit -/
theorem normalForm_mem {A : List Nat} {s : Str} (h : Url.NormalForm A s) :
    ∀ c ∈ s, Url.mem A c = true ∨ c = 37 ∨ Url.isHexUp c = true := by
  obtain ⟨ts, hg, rfl⟩ := h
  intro c hc
  simp only [Url.renderToks, List.mem_flatMap] at hc
  obtain ⟨t, ht, hct⟩ := hc
  have := hg t ht
  cases t with
  | chr x =>
    simp only [Url.Tok.text, List.mem_singleton] at hct
    subst hct
    simp only [Url.Tok.good, Bool.and_eq_true] at this
    exact Or.inl this.1.1
  | esc a b =>
    simp only [Url.Tok.text, List.mem_cons, List.not_mem_nil, or_false] at hct
    simp only [Url.Tok.good, Bool.and_eq_true] at this
    rcases hct with rfl | rfl | rfl
    · exact Or.inr (Or.inl rfl)
    · exact Or.inr (Or.inr this.1)
    · exact Or.inr (Or.inr this.2)

theorem hexUp_not_delim {c : Nat} (h : Url.isHexUp c = true) : c ≠ 63 ∧ c ≠ 35 := by
  have := Url.isHexUp_cases h
  simp only [List.mem_cons, List.not_mem_nil, or_false] at this
  omega

theorem normal_path_chars {s : Str} (h : Url.NormalForm Gen.pathChars s) :
    ∀ c ∈ s, Url.pathChar c = true := by
  intro c hc
  have hA : ∀ c ∈ Gen.pathChars, c ≠ 63 ∧ c ≠ 35 := by decide
  rcases normalForm_mem h c hc with h1 | rfl | h1
  · have := hA c (by simpa [Url.mem] using h1); simp [Url.pathChar, this.1, this.2]
  · decide
  · have := hexUp_not_delim h1; simp [Url.pathChar, this.1, this.2]

theorem normal_query_chars {s : Str} (h : Url.NormalForm Gen.queryChars s) :
    ∀ c ∈ s, Url.queryChar c = true := by
  intro c hc
  have hA : ∀ c ∈ Gen.queryChars, c ≠ 35 := by decide
  rcases normalForm_mem h c hc with h1 | rfl | h1
  · have := hA c (by simpa [Url.mem] using h1); simp [Url.queryChar, this]
  · decide
  · have := hexUp_not_delim h1; simp [Url.queryChar, this.2]

theorem encode_keeps {A : List Nat} (hA : Url.EncSet A) {s : Str} (h : Url.NormalForm A s) :
    Url.encodeInvalidChars A s = s := by
  obtain ⟨ts, hg, rfl⟩ := h
  exact Url.encode_fixed A hA.2 ts hg

/-- `"?" + query` -/
def qSuffix : Option Str → Str
  | some x => 63 :: x
  | none => []

theorem splitPQF_normal (P : Str) (q : Option Str) (hP : ∀ c ∈ P, Url.pathChar c = true)
    (hq : ∀ x, q = some x → ∀ c ∈ x, Url.queryChar c = true) :
    Url.splitPQF (P ++ qSuffix q) = (P, q, none) := by
  cases q with
  | none =>
    simp only [qSuffix, List.append_nil, Url.splitPQF]
    rw [(Url.takeWhile_all P hP).1, (Url.takeWhile_all P hP).2]
  | some x =>
    have hx := hq x rfl
    simp only [qSuffix, Url.splitPQF]
    have h63 : Url.pathChar 63 = false := by decide
    rw [(Url.takeWhile_append_stop P 63 x hP h63).1, (Url.takeWhile_append_stop P 63 x hP h63).2]
    simp only
    rw [(Url.takeWhile_all x hx).1, (Url.takeWhile_all x hx).2]

/-- the path part of `request_uri` -/
def pathOrSlash (u : Url.Url) : Str :=
  match u.path with | some p => if p.isEmpty then [47] else p | none => [47]

theorem requestUri_eq (u : Url.Url) :
    u.requestUri = pathOrSlash u ++ qSuffix u.query := by
  unfold Url.Url.requestUri pathOrSlash qSuffix; cases u.query <;> rfl

theorem pathOrSlash_normal {u : Url.Url} (hp : ∀ x, u.path = some x → Url.NormalForm Gen.pathChars x) :
    Url.NormalForm Gen.pathChars (pathOrSlash u) := by
  have hs : Url.NormalForm Gen.pathChars [47] :=
    Url.normalForm_cons _ 47 [] (by decide) (Url.normalForm_nil _)
  unfold pathOrSlash
  cases h : u.path with
  | none => exact hs
  | some p =>
    simp only
    split
    · exact hs
    · exact hp p h

/-- a `request_uri` whose path and query are in normal form (every parsed http/https URL: C14) is
left alone by the pool's `_encode_target` -/
theorem encodeTarget_normal {u : Url.Url} (h47 : u.requestUri.head? = some 47)
    (hp : ∀ x, u.path = some x → Url.NormalForm Gen.pathChars x)
    (hq : ∀ x, u.query = some x → Url.NormalForm Gen.queryChars x) :
    Url.encodeTarget u.requestUri = .ok u.requestUri := by
  have hP := pathOrSlash_normal hp
  have hsp := splitPQF_normal (pathOrSlash u) u.query (normal_path_chars hP)
    (fun x hx => normal_query_chars (hq x hx))
  rw [← requestUri_eq] at hsp
  unfold Url.encodeTarget
  split
  · simp only [hsp]
    simp only [if_true, Except.ok.injEq]
    rw [encode_keeps Url.encSet_path hP, requestUri_eq]
    congr 1
    cases hqq : u.query with
    | none => rfl
    | some q => simp only; rw [encode_keeps Url.encSet_query (hq q hqq)]; rfl
  · rename_i hne
    cases hu : u.requestUri with
    | nil => rw [hu] at h47; simp at h47
    | cons a t =>
      rw [hu] at h47
      simp only [List.head?_cons, Option.some.injEq] at h47
      subst h47
      exact absurd hu (hne t)



theorem dropWhile_idem (p : Nat → Bool) (l : List Nat) : (l.dropWhile p).dropWhile p = l.dropWhile p := by
  induction l with
  | nil => rfl
  | cons a t ih =>
    by_cases ha : p a = true
    · simp [List.dropWhile_cons_of_pos ha, ih]
    · simp [List.dropWhile_cons_of_neg ha]

theorem rstripDot_idem (s : Str) : rstripDot (rstripDot s) = rstripDot s := by
  simp [rstripDot, dropWhile_idem]

theorem rpart_some_of_mem (c : Nat) (s : Str) (h : c ∈ s) : ∃ a b, Url.rpart c s = some (a, b) := by
  induction s with
  | nil => simp at h
  | cons x t ih =>
    unfold Url.rpart
    cases hr : Url.rpart c t with
    | some p => exact ⟨x :: p.1, p.2, rfl⟩
    | none =>
      by_cases hx : x = c
      · simp [hx]
      · rcases List.mem_cons.mp h with rfl | ht
        · exact absurd rfl hx
        · obtain ⟨a, b, e⟩ := ih ht; rw [hr] at e; simp at e

theorem rpart_mem {c : Nat} {s a b : Str} (h : Url.rpart c s = some (a, b)) : c ∈ s := by
  induction s generalizing a b with
  | nil => simp [Url.rpart] at h
  | cons x t ih =>
    unfold Url.rpart at h
    cases hr : Url.rpart c t with
    | some p => exact List.mem_cons_of_mem _ (ih (a := p.1) (b := p.2) (by rw [hr]))
    | none =>
      rw [hr] at h
      simp only at h
      split at h
      · rename_i hx; simp [hx]
      · simp at h

/-- with at most one `%`, cutting at the last one is cutting at the first one -/
theorem rpart_single {c : Nat} {s a b : Str} (h : Url.rpart c s = some (a, b)) (h1 : s.count c ≤ 1) :
    a = s.takeWhile (· != c) := by
  induction s generalizing a b with
  | nil => simp [Url.rpart] at h
  | cons x t ih =>
    unfold Url.rpart at h
    cases hr : Url.rpart c t with
    | some p =>
      rw [hr] at h
      simp only [Option.some.injEq, Prod.mk.injEq] at h
      have hm : c ∈ t := rpart_mem (a := p.1) (b := p.2) (by rw [hr])
      have hc : 0 < t.count c := List.count_pos_iff.mpr hm
      have hx : x ≠ c := by
        intro e; subst e
        simp only [List.count_cons_self] at h1; omega
      have h1' : t.count c ≤ 1 := by
        rw [List.count_cons_of_ne (fun e => hx e)] at h1; exact h1
      have := ih (a := p.1) (b := p.2) (by rw [hr]) h1'
      rw [← h.1, this]
      simp [hx]
    | none =>
      rw [hr] at h
      simp only at h
      split at h
      · rename_i hx
        simp only [Option.some.injEq, Prod.mk.injEq] at h
        simp [← h.1, hx]
      · simp at h

theorem cutLastPct_single {s : Str} (h1 : s.count 37 ≤ 1) :
    (if s.contains 37 then cutLastPct s else s) = s.takeWhile (· != 37) := by
  by_cases hc : s.contains 37 = true
  · simp only [hc, if_true, cutLastPct]
    obtain ⟨a, b, e⟩ := rpart_some_of_mem 37 s (by simpa using hc)
    rw [e]
    exact rpart_single e h1
  · simp only [hc, Bool.false_eq_true, if_false]
    have : ∀ x ∈ s, (x != 37) = true := by
      intro x hx
      simp only [bne_iff_ne, ne_eq]
      intro e; subst e
      exact hc (by simpa using hx)
    exact (Url.takeWhile_all s this).1.symm

theorem count_dropWhile_le (p : Nat → Bool) (c : Nat) (l : List Nat) : (l.dropWhile p).count c ≤ l.count c := by
  induction l with
  | nil => simp
  | cons a t ih =>
    by_cases ha : p a = true
    · rw [List.dropWhile_cons_of_pos ha]
      exact Nat.le_trans ih (List.count_le_count_cons ..)
    · rw [List.dropWhile_cons_of_neg ha]; exact Nat.le_refl _

theorem count_stripBr_le (c : Nat) (s : Str) : (stripBr s).count c ≤ s.count c := by
  unfold stripBr
  rw [List.count_reverse]
  refine Nat.le_trans (count_dropWhile_le _ _ _) ?_
  rw [List.count_reverse]
  exact count_dropWhile_le _ _ _

theorem count_rstripDot_le (c : Nat) (s : Str) : (rstripDot s).count c ≤ s.count c := by
  unfold rstripDot
  rw [List.count_reverse]
  refine Nat.le_trans (count_dropWhile_le _ _ _) ?_
  rw [List.count_reverse]
  exact Nat.le_refl _

/-- the TLS server name for a name with at most one `%`: the bracket-less name up to the `%` when that
is an IP literal, otherwise the name as it is -/
theorem sniNorm_single {sh : Str} (h1 : sh.count 37 ≤ 1) :
    sniNorm sh = (if isIpAddress ((stripBr sh).takeWhile (· != 37)) then (stripBr sh).takeWhile (· != 37) else sh) := by
  unfold sniNorm
  simp only
  rw [cutLastPct_single (Nat.le_trans (count_stripBr_le 37 sh) h1)]

theorem hostText_eq (h : Str) :
    hostText h = if h.contains 58 then 91 :: h.takeWhile (· != 37) ++ [93] else h := by
  unfold hostText
  by_cases h58 : h.contains 58 = true
  · simp only [h58, if_true]
    by_cases h37 : h.contains 37 = true
    · simp only [h37, if_true]
    · simp only [h37, Bool.false_eq_true, if_false]
      have : ∀ x ∈ h, (x != 37) = true := by
        intro x hx
        simp only [bne_iff_ne, ne_eq]
        intro e; subst e
        exact h37 (by simpa using hx)
      rw [(Url.takeWhile_all h this).1]
  · simp only [h58, Bool.false_eq_true, if_false]

theorem unbracket_bracketed (a : Str) : unbracket (91 :: a ++ [93]) = a := by
  unfold unbracket
  have h1 : (91 :: (a ++ [93])).getLast? = some 93 := by
    rw [show 91 :: (a ++ [93]) = (91 :: a) ++ [93] from rfl, List.getLast?_append]; simp
  simp only [List.cons_append, List.head?_cons, h1, decide_true, Bool.and_self, if_true, List.tail_cons]
  simp

theorem unbracket_of_head {h : Str} (hh : h.head? ≠ some 91) : unbracket h = h := by
  unfold unbracket
  simp [hh]



theorem mem_rstripDot_of_ne {s : Str} {x : Nat} (h : x ∈ s) (hx : x ≠ 46) : x ∈ rstripDot s := by
  unfold rstripDot
  rcases mem_dropWhile_or (p := (· == 46)) (List.mem_reverse.mpr h) with h1 | h1
  · exact List.mem_reverse.mpr h1
  · simp at h1; exact absurd h1 hx

theorem contains58_rstripDot (s : Str) : (rstripDot s).contains 58 = s.contains 58 := by
  rw [Bool.eq_iff_iff]
  simp only [List.contains_eq_mem, decide_eq_true_eq]
  exact ⟨mem_rstripDot, fun h => mem_rstripDot_of_ne h (by decide)⟩

/-- what `route_direct_ok` says once the scheme is known to be http or https -/
theorem route_direct_scheme {idna : Str → Option Str} {extra : PoolKey.Ctx} {u : Url.Url} {r : Route}
    {s hst : Str} (hs : u.scheme = some s) (hsch : s = http ∨ s = https) (hh : u.host = some hst)
    (h : routeWith idna none extra u = .ok r) :
    ∃ h' tr, Url.normalizeHost idna (some hst) (some s) = .ok (some h') ∧
      Url.encodeTarget u.requestUri = .ok (47 :: tr) ∧
      r.pool = 0 ∧ r.dialHost = dialName (unbracket h') ∧ r.dialPort = effPort u ∧
      r.tls = (if s = https then [sniNorm (rstripDot (unbracket h'))] else []) ∧
      r.connect = none ∧ r.target = 47 :: tr ∧
      r.hostHeader = [hostHdrValue (s == https) (unbracket h') (effPort u)] ∧
      r.request = requestBytes (47 :: tr) (hostHdrValue (s == https) (unbracket h') (effPort u)) ∧
      r.kwHeaders = [] := by
  obtain ⟨hst', pl, tr, hh', -, hnp, -, het, hid, hdh, hdp, htls, hcon, htg, hhh, hreq, hkw⟩ := route_direct_ok h
  rw [hh] at hh'
  simp only [Option.some.injEq] at hh'
  subst hh'
  have hso : schemeOrO u.scheme = s := by
    rw [hs]; rcases hsch with rfl | rfl <;> decide
  rw [hso] at hnp
  obtain ⟨h', hn, rfl⟩ := newPool_ok hnp
  simp only at hdh hdp htls hhh hreq
  refine ⟨h', tr, hn, het, hid, hdh, hdp, ?_, hcon, htg, hhh, hreq, hkw⟩
  rw [htls, rstripDot_idem]
  simp


/-- the scheme default used for an absent port -/
def schemeDefault (s : Str) : Nat := if s = https then 443 else 80

/-- `ProxyManager.urlopen` sends the absolute URL to the proxy (no tunnel) -/
def isForwarding (proxy : Option ProxyCfg) (scheme : Option Str) : Bool :=
  proxy.isSome && !requiresTunnel proxy scheme

theorem requestContext_port_congr (d : PoolKey.Ctx) (host : Option Str) (p₁ p₂ : PoolKey.Val) (scheme : Option Str)
    (hp : PoolKey.portOr p₁ (schemeOrO scheme) = PoolKey.portOr p₂ (schemeOrO scheme)) :
    PoolKey.requestContext d host p₁ scheme none = PoolKey.requestContext d host p₂ scheme none := by
  unfold PoolKey.requestContext
  cases host with
  | none => rfl
  | some h =>
    simp only
    split
    · rfl
    · have e : ∀ p, (if p.truthy = true then p else
          PoolKey.Val.int ↑((List.lookup (lower (schemeOrO scheme)) Gen.portByScheme).getD 80)) =
          PoolKey.portOr p (schemeOrO scheme) := fun p => rfl
      cases scheme with
      | none => simp only [schemeOrO] at e hp ⊢; rw [e, e, hp]
      | some s => simp only [schemeOrO] at e hp ⊢; rw [e, e, hp]

/-- the pool chosen depends on the URL only through scheme, host and the *defaulted* port -/
theorem poolFor_congr (idna : Str → Option Str) (m : Mgr) (u₁ u₂ : Url.Url)
    (hs : u₁.scheme = u₂.scheme) (hh : u₁.host = u₂.host)
    (hp : PoolKey.portOr (portVal u₁.port) (schemeOrO u₁.scheme) =
          PoolKey.portOr (portVal u₂.port) (schemeOrO u₁.scheme)) :
    poolFor idna m u₁ = poolFor idna m u₂ := by
  rw [poolFor_eq, poolFor_eq]
  congr 1
  unfold poolTarget
  cases m.proxy with
  | none =>
    simp only
    rw [← hs, ← hh]
    exact requestContext_port_congr _ _ _ _ _ hp
  | some p =>
    simp only
    rw [← hs]
    split
    · simp only
      rw [← hh]
      exact requestContext_port_congr _ _ _ _ _ hp
    · rfl

/-- without forwarding, what is sent depends on the URL only through scheme and `request_uri` -/
theorem send_congr (proxy : Option ProxyCfg) (u₁ u₂ : Url.Url) (pl : Pool) (carried : List (Str × Str))
    (hs : u₁.scheme = u₂.scheme) (hr : u₁.requestUri = u₂.requestUri)
    (hnf : isForwarding proxy u₁.scheme = false) :
    send proxy u₁ pl carried = send proxy u₂ pl carried := by
  have hnf2 : isForwarding proxy u₂.scheme = false := hs ▸ hnf
  unfold isForwarding at hnf hnf2
  unfold send
  simp only [hnf, hnf2, Bool.false_and, Bool.false_eq_true, if_false, hr]

theorem route_congr (idna : Str → Option Str) (m : Mgr) (u₁ u₂ : Url.Url) (carried : List (Str × Str))
    (hs : u₁.scheme = u₂.scheme) (hh : u₁.host = u₂.host)
    (hp : PoolKey.portOr (portVal u₁.port) (schemeOrO u₁.scheme) =
          PoolKey.portOr (portVal u₂.port) (schemeOrO u₁.scheme))
    (hr : u₁.requestUri = u₂.requestUri)
    (hnf : isForwarding m.proxy u₁.scheme = false) :
    route idna m u₁ carried = route idna m u₂ carried := by
  unfold route
  rw [← hs, poolFor_congr idna m u₁ u₂ hs hh hp]
  split
  · rfl
  · split
    · rfl
    · rw [send_congr m.proxy u₁ u₂ _ carried hs hr hnf]



theorem all_unbracket {p : Nat → Bool} {h : Str} (ha : h.all p = true) : (unbracket h).all p = true := by
  unfold unbracket
  split
  · simp only [List.all_eq_true] at ha ⊢
    intro x hx
    exact ha x (List.mem_of_mem_tail (List.dropLast_subset _ hx))
  · exact ha

/-- where the carrying connection of a proxied HTTPS pool goes: the proxy -/
def proxyAddr (p : ProxyCfg) (pl : Pool) : Str × Nat :=
  match p.host with
  | some ph => (ph, p.port)
  | none => (pl.host, pl.port)

/-- the `Cfg` `http.client` works with inside a tunnel: `set_tunnel(_tunnel_host, port)`, the
brackets of `_tunnel_host` hidden while `putrequest` computes the `Host` header -/
def tunnelCfg (pl : Pool) : Wire.Cfg :=
  ⟨unbracket pl.tunnelHost, pl.port, 443, 16384, .error .assertionError, .error .unicodeError⟩

theorem send_tunnel_ok {p : ProxyCfg} {u : Url.Url} {pl : Pool} {carried : List (Str × Str)}
    {res : Str × Nat × List Str × Option Bytes × Str × List Bytes × Bytes × List (Str × Str)}
    (hnf : isForwarding (some p) u.scheme = false) (hpl : pl.isHttps = true)
    (h : send (some p) u pl carried = .ok res) :
    ∃ target prep dh dp, u.requestUri.head? = some 47 ∧ Url.encodeTarget u.requestUri = .ok target ∧
      pl.tunnelHost.all (· < 128) = true ∧ idnaCodecOk pl.tunnelHost = true ∧
      dial (proxyAddr p pl).1 (proxyAddr p pl).2 = .ok (dh, dp) ∧
      prepareNoValidate (tunnelCfg pl) methodGet target carried = .ok prep ∧
      res = (dh, dp,
        (if p.scheme = https then [sniNorm (rstripDot (proxyAddr p pl).1)] else []) ++
          [sniNorm (rstripDot pl.tunnelHost)],
        some (connectBytes pl.tunnelHost pl.port), target, hostVals prep, writtenOf prep, carried) := by
  have hrt : requiresTunnel (some p) u.scheme = true := by
    simpa [isForwarding] using hnf
  unfold send at h
  simp only [hrt, Bool.not_true, Bool.and_false, Bool.false_and, Bool.false_eq_true, if_false,
    classDefaultPort_eq, hpl, if_true, Option.isSome_some, Bool.not_false, Bool.and_self] at h
  split at h
  · simp at h
  · rename_i target ht
    split at ht
    · rename_i h47
      split at ht
      · rename_i t het
        simp only [Except.ok.injEq] at ht
        subst ht
        have hpa : ∃ a b, proxyAddr p pl = (a, b) ∧ (match p.host with
            | some ph => (Except.ok (ph, p.port) : Except Exc (Str × Nat))
            | none => Except.ok (pl.host, pl.port)) = .ok (a, b) := by
          unfold proxyAddr; cases p.host <;> exact ⟨_, _, rfl, rfl⟩
        obtain ⟨a, b, hab, hca⟩ := hpa
        rw [hab]
        revert h
        cases hph : p.host <;> simp only [hph] at hca <;> simp only [Except.ok.injEq, Prod.mk.injEq] at hca <;>
          obtain ⟨rfl, rfl⟩ := hca <;> intro h <;> simp only at h
        all_goals
          split at h
          · simp at h
          · split at h
            · simp at h
            · rename_i hasc
              split at h
              · simp at h
              · rename_i hidna
                split at h
                · simp at h
                · split at h
                  · simp at h
                  · rename_i dh dp hdl
                    split at h
                    · simp at h
                    · rename_i prep hprep
                      simp only [Except.ok.injEq] at h
                      exact ⟨t, prep, dh, dp, h47, het, by simpa using hasc, by simpa using hidna, hdl, hprep, h.symm⟩
      · simp at ht
    · simp at ht


theorem poolTarget_https (proxy : Option ProxyCfg) (u : Url.Url) (hs : u.scheme = some https) :
    poolTarget proxy u = (u.host, portVal u.port, u.scheme) := by
  unfold poolTarget
  cases proxy with
  | none => rfl
  | some p => simp [hs]

/-- everything a tunnelled request (https URL through a proxy that does not forward https) of a fresh
`ProxyManager` puts on the wire -/
theorem route_tunnel_ok {idna : Str → Option Str} {extra : PoolKey.Ctx} {p : ProxyCfg} {u : Url.Url} {r : Route}
    {hst : Str} (hs : u.scheme = some https) (hh : u.host = some hst)
    (hnf : isForwarding (some p) (some https) = false)
    (h : routeWith idna (some p) extra u = .ok r) :
    ∃ h' tr pl, Url.normalizeHost idna (some hst) (some https) = .ok (some h') ∧
      pl = (⟨true, unbracket h', effPort u, lower h'⟩ : Pool) ∧
      Url.encodeTarget u.requestUri = .ok (47 :: tr) ∧
      r.pool = 0 ∧ r.dialHost = dialName (proxyAddr p pl).1 ∧ r.dialPort = (proxyAddr p pl).2 ∧
      r.tls = (if p.scheme = https then [sniNorm (rstripDot (proxyAddr p pl).1)] else []) ++
        [sniNorm (rstripDot (lower h'))] ∧
      r.connect = some (connectBytes (lower h') (effPort u)) ∧ r.target = 47 :: tr ∧
      r.hostHeader = [hostText (unbracket (lower h')) ++
        (if effPort u = 443 then [] else 58 :: Wire.toDec (effPort u))] ∧
      r.request = requestBytes (47 :: tr)
        (hostText (unbracket (lower h')) ++ (if effPort u = 443 then [] else 58 :: Wire.toDec (effPort u))) ∧
      r.kwHeaders = [] := by
  unfold routeWith route at h
  have hsc : (u.scheme = some http || u.scheme = some https) = true := by simp [hs]
  simp only [Mgr.init, Option.isSome_some, Bool.true_and, hsc, Bool.not_true, Bool.false_eq_true, if_false] at h
  split at h
  · simp at h
  · rename_i m' id key pl hpf
    obtain ⟨hst', pv, hh', hne, hp, hnp, hid⟩ := poolFor_init_ok (proxy := some p) (extra := extra) hpf
    rw [poolTarget_https _ _ hs] at hh' hp hnp
    simp only at hh' hp hnp
    rw [hh] at hh'
    simp only [Option.some.injEq] at hh'
    subst hh'
    rw [portOr_portVal] at hp
    simp only [PoolKey.Val.int.injEq] at hp
    subst hp
    simp only [Int.toNat_natCast] at hnp
    have hso : schemeOrO u.scheme = https := by rw [hs]; decide
    rw [hso] at hnp
    obtain ⟨h', hn, rfl⟩ := newPool_ok hnp
    have hb : (https == https) = true := by decide
    simp only [hb] at h hpf ⊢
    split at h
    · simp at h
    · rename_i dh dp tls con target hhv req kwh hsend
      simp only [Except.ok.injEq] at h
      obtain ⟨target', prep, dh', dp', h47, het, hasc, -, hdial, hprep, hres⟩ :=
        send_tunnel_ok (hs ▸ hnf) rfl hsend
      simp only [Prod.mk.injEq] at hres
      obtain ⟨rfl, rfl, rfl, rfl, rfl, rfl, rfl, rfl⟩ := hres
      obtain ⟨tr, rfl⟩ := encodeTarget_head het
      obtain ⟨hd1, hd2, -, -⟩ := dial_ok hdial
      obtain ⟨hv1, hv2⟩ := prepare_get_origin (cfg := tunnelCfg ⟨true, unbracket h', effPort u, lower h'⟩)
        (all_unbracket hasc) hprep
      subst h
      exact ⟨h', tr, _, hn, rfl, het, hid, hd1, hd2, rfl, rfl, rfl, hv1, hv2, rfl⟩



/-- where the carrying connection of a forwarded request goes -/
def fwdAddr (p : ProxyCfg) (pl : Pool) : Str × Nat :=
  if pl.isHttps then proxyAddr p pl else (pl.host, pl.port)

theorem send_forward_ok {p : ProxyCfg} {u : Url.Url} {pl : Pool} {carried : List (Str × Str)}
    {res : Str × Nat × List Str × Option Bytes × Str × List Bytes × Bytes × List (Str × Str)}
    (hf : isForwarding (some p) u.scheme = true)
    (h : send (some p) u pl carried = .ok res) :
    ∃ n prep dh dp, u.netloc = some n ∧ n ≠ [] ∧
      Wire.prepare (connCfg pl.isHttps (fwdAddr p pl).1 (fwdAddr p pl).2) methodGet (absTarget u)
        (proxyHeaders u carried) .none false = .ok prep ∧
      dial (fwdAddr p pl).1 (fwdAddr p pl).2 = .ok (dh, dp) ∧
      res = (dh, dp, (if pl.isHttps then [sniNorm (rstripDot (rstripDot (fwdAddr p pl).1))] else []), none,
        (absTarget u), hostVals prep, writtenOf prep, proxyHeaders u carried) := by
  have hrt : requiresTunnel (some p) u.scheme = false := by
    simpa [isForwarding] using hf
  unfold send at h
  simp only [hrt, Bool.not_false, Bool.and_true, Bool.true_and,
    classDefaultPort_eq, if_true, Option.isSome_some] at h
  cases hnn : u.netloc with
  | none => simp [hnn] at h
  | some n =>
    simp only [hnn] at h
    by_cases hn2 : n = []
    · simp [hn2] at h
    have hie : n.isEmpty = false := by simpa using hn2
    simp only [hie, Bool.false_eq_true, if_false] at h
    have hn1 : some n = some n := rfl
    simp only [Bool.not_true, Bool.and_false, Bool.false_eq_true, if_false] at h
    have key : ∀ a b, fwdAddr p pl = (a, b) →
        (if Wire.hcUrlBad (rstripDot a) = true then Except.error Exc.protocolError
          else
            match
              Wire.prepare (connCfg pl.isHttps a b) methodGet (absTarget u) (proxyHeaders u carried) Wire.Body.none false,
              dial a b with
            | Except.error e, Except.error e' => Except.error (if pl.isHttps = true then e' else ofWireExc e)
            | Except.error e, Except.ok _ => Except.error (ofWireExc e)
            | Except.ok _, Except.error e' => Except.error e'
            | Except.ok p, Except.ok (dh, dp) =>
              Except.ok
                (dh, dp, if pl.isHttps = true then [sniNorm (rstripDot (rstripDot a))] else [], none, absTarget u,
                  hostVals p, writtenOf p, proxyHeaders u carried)) = Except.ok res →
        ∃ prep dh dp,
          Wire.prepare (connCfg pl.isHttps (fwdAddr p pl).1 (fwdAddr p pl).2) methodGet (absTarget u)
            (proxyHeaders u carried) .none false = .ok prep ∧
          dial (fwdAddr p pl).1 (fwdAddr p pl).2 = .ok (dh, dp) ∧
          res = (dh, dp, (if pl.isHttps then [sniNorm (rstripDot (rstripDot (fwdAddr p pl).1))] else []), none,
            (absTarget u), hostVals prep, writtenOf prep, proxyHeaders u carried) := by
      intro a b hab h
      rw [hab]
      split at h
      · simp at h
      · split at h
        · simp at h
        · simp at h
        · simp at h
        · rename_i prep dh dp hp hdl
          simp only [Except.ok.injEq] at h
          exact ⟨prep, dh, dp, hp, hdl, h.symm⟩
    refine ⟨n, ?_⟩
    suffices hsuff : ∃ prep dh dp,
          Wire.prepare (connCfg pl.isHttps (fwdAddr p pl).1 (fwdAddr p pl).2) methodGet (absTarget u)
            (proxyHeaders u carried) .none false = .ok prep ∧
          dial (fwdAddr p pl).1 (fwdAddr p pl).2 = .ok (dh, dp) ∧
          res = (dh, dp, (if pl.isHttps then [sniNorm (rstripDot (rstripDot (fwdAddr p pl).1))] else []), none,
            (absTarget u), hostVals prep, writtenOf prep, proxyHeaders u carried) by
      obtain ⟨prep, dh, dp, h1, h2, h3⟩ := hsuff
      exact ⟨prep, dh, dp, rfl, hn2, h1, h2, h3⟩
    unfold fwdAddr proxyAddr at key ⊢
    cases hi : pl.isHttps
    · simp only [hi, Bool.false_eq_true, if_false] at h key
      exact key _ _ rfl h
    · simp only [hi, if_true] at h key
      cases hph : p.host
      · simp only [hph] at h key
        exact key _ _ rfl h
      · simp only [hph] at h key
        exact key _ _ rfl h


def acceptHdr : Str × Str := (lit "Accept", lit "*/*")

theorem proxyHeaders_fresh {u : Url.Url} {n : Str} (hn : u.netloc = some n) (hne : n ≠ []) :
    proxyHeaders u [] = [acceptHdr, (lit "Host", n)] := by
  unfold proxyHeaders dictUpdate
  have : n.isEmpty = false := by simpa using hne
  simp [hn, this, acceptHdr]

/-- the bytes of a forwarded GET: absolute-form target, the caller-side `Accept` and `Host` of
`_set_proxy_headers` after the automatic headers -/
def fwdRequestBytes (url n : Str) : Bytes :=
  Wire.headBytes ([methodGet ++ [32] ++ Wire.urlOrSlash url ++ [32] ++ Wire.httpVsn, Wire.hdrLine aeHdr,
    Wire.hdrLine uaHdr, Wire.hdrLine acceptHdr] ++
    (if n != Gen.skipHeader then [Wire.hdrLine (lit "Host", n)] else []))

theorem prepare_get_fwd {cfg : Wire.Cfg} {url n : Str} {p : Wire.Prepared}
    (e : prepareNoValidate cfg methodGet url [acceptHdr, (lit "Host", n)] = .ok p) :
    hostVals p = (if n != Gen.skipHeader then [n] else []) ∧ writtenOf p = fwdRequestBytes url n := by
  have hk : Wire.headerKeys [acceptHdr, (lit "Host", n)] = [lit "accept", lit "host"] := by
    simp only [Wire.headerKeys, List.map_cons, List.map_nil, acceptHdr]
    decide
  have hk1 : [lit "accept", lit "host"].contains (lit "host") = true := by decide
  have hk2 : [lit "accept", lit "host"].contains (lit "accept-encoding") = false := by decide
  have hk3 : [lit "accept", lit "host"].contains (lit "user-agent") = false := by decide
  have hk4 : [lit "accept", lit "host"].contains (lit "content-length") = false := by decide
  have hk5 : [lit "accept", lit "host"].contains (lit "transfer-encoding") = false := by decide
  obtain ⟨hrl, hch, hck, hostL, hh, hhd⟩ := prepare_get_inv e (by rw [hk]; exact hk4) (by rw [hk]; exact hk5)
  rw [hk] at hh hhd
  simp only [hk1, hk2, hk3, Bool.false_eq_true, if_false, if_true] at hh hhd
  subst hh
  have hcall : Wire.callerHdrs [acceptHdr, (lit "Host", n)] =
      acceptHdr :: (if n != Gen.skipHeader then [(lit "Host", n)] else []) := by
    have : (acceptHdr.2 != Gen.skipHeader) = true := by decide
    simp only [Wire.callerHdrs, List.filter_cons, this, if_true, List.filter_nil]
  have hf1 : (lower (lit "Host") == lit "host") = true := by decide
  have hf2 : (lower aeHdr.1 == lit "host") = false := by decide
  have hf3 : (lower uaHdr.1 == lit "host") = false := by decide
  have hf4 : (lower acceptHdr.1 == lit "host") = false := by decide
  constructor
  · simp only [hostVals, hhd, hcall, List.nil_append, List.cons_append, List.filter_cons, hf2, hf3, hf4,
      Bool.false_eq_true, if_false]
    split <;> simp [hf1]
  · have hbp : (Wire.bodyPhase p).written = [] := by
      simp [Wire.bodyPhase, hck, hch]
    simp only [writtenOf, hbp, List.append_nil, fwdRequestBytes, Wire.Prepared.lines, hrl, hhd, hcall,
      List.cons_append, List.nil_append, List.map_cons]
    split <;> simp



/-- everything a forwarded request (absolute-form target, no tunnel) of a fresh `ProxyManager` puts on
the wire, given the headers `_set_proxy_headers` ends up with -/
theorem route_forward_carried {idna : Str → Option Str} {extra : PoolKey.Ctx} {p : ProxyCfg} {u : Url.Url} {r : Route}
    {carried : List (Str × Str)} {n' : Str}
    (hsc : u.scheme = some http ∨ u.scheme = some https)
    (hf : isForwarding (some p) u.scheme = true)
    (hph : proxyHeaders u carried = [acceptHdr, (lit "Host", n')])
    (h : routeWith idna (some p) extra u carried = .ok r) :
    ∃ n pl hst pv, u.netloc = some n ∧ n ≠ [] ∧ r.pool = 0 ∧
      (poolTarget (some p) u).1 = some hst ∧
      PoolKey.portOr (poolTarget (some p) u).2.1 (schemeOrO (poolTarget (some p) u).2.2) = .int pv ∧
      newPool idna (schemeOrO (poolTarget (some p) u).2.2) hst pv.toNat = .ok pl ∧
      r.dialHost = dialName (fwdAddr p pl).1 ∧ r.dialPort = (fwdAddr p pl).2 ∧
      r.connect = none ∧ r.target = absTarget u ∧
      r.hostHeader = (if n' != Gen.skipHeader then [n'] else []) ∧
      r.request = fwdRequestBytes (absTarget u) n' ∧
      r.kwHeaders = [acceptHdr, (lit "Host", n')] := by
  unfold routeWith route at h
  have hsc' : (u.scheme = some http || u.scheme = some https) = true := by
    rcases hsc with e | e <;> simp [e]
  simp only [Mgr.init, Option.isSome_some, Bool.true_and, hsc', Bool.not_true, Bool.false_eq_true, if_false] at h
  split at h
  · simp at h
  · rename_i m' id key pl hpf
    obtain ⟨hst', pv, hpt1, -, hpt2, hpt3, hid⟩ := poolFor_init_ok (proxy := some p) (extra := extra) hpf
    split at h
    · simp at h
    · rename_i dh dp tls con target hhv req kwh hsend
      simp only [Except.ok.injEq] at h
      obtain ⟨n, prep, dh', dp', hn, hne, hprep, hdial, hres⟩ := send_forward_ok hf hsend
      simp only [Prod.mk.injEq] at hres
      obtain ⟨rfl, rfl, rfl, rfl, rfl, rfl, rfl, rfl⟩ := hres
      obtain ⟨hd1, hd2, -, -⟩ := dial_ok hdial
      rw [hph] at hprep h
      obtain ⟨hv1, hv2⟩ := prepare_get_fwd (prepareNV_of_prepare hprep)
      subst h
      exact ⟨n, pl, hst', pv, hn, hne, hid, hpt1, hpt2, hpt3, hd1, hd2, rfl, rfl, hv1, hv2, rfl⟩

/-- a fresh request (`carried = []`): the headers are `Accept` and the URL's own netloc as `Host` -/
theorem route_forward_ok {idna : Str → Option Str} {extra : PoolKey.Ctx} {p : ProxyCfg} {u : Url.Url} {r : Route}
    (hsc : u.scheme = some http ∨ u.scheme = some https)
    (hf : isForwarding (some p) u.scheme = true)
    (h : routeWith idna (some p) extra u = .ok r) :
    ∃ n pl hst pv, u.netloc = some n ∧ n ≠ [] ∧ r.pool = 0 ∧
      (poolTarget (some p) u).1 = some hst ∧
      PoolKey.portOr (poolTarget (some p) u).2.1 (schemeOrO (poolTarget (some p) u).2.2) = .int pv ∧
      newPool idna (schemeOrO (poolTarget (some p) u).2.2) hst pv.toNat = .ok pl ∧
      r.dialHost = dialName (fwdAddr p pl).1 ∧ r.dialPort = (fwdAddr p pl).2 ∧
      r.connect = none ∧ r.target = absTarget u ∧
      r.hostHeader = (if n != Gen.skipHeader then [n] else []) ∧
      r.request = fwdRequestBytes (absTarget u) n ∧
      r.kwHeaders = [acceptHdr, (lit "Host", n)] := by
  -- the netloc is known to be present once the request was sent; get it from the general lemma's
  -- own conclusion by first establishing the headers under a case split on `u.netloc`
  cases hn : u.netloc with
  | none =>
    exfalso
    unfold routeWith route at h
    have hsc' : (u.scheme = some http || u.scheme = some https) = true := by
      rcases hsc with e | e <;> simp [e]
    simp only [Mgr.init, Option.isSome_some, Bool.true_and, hsc', Bool.not_true, Bool.false_eq_true, if_false] at h
    split at h
    · simp at h
    · split at h
      · simp at h
      · rename_i hsend
        obtain ⟨n, _, _, _, hn', _⟩ := send_forward_ok hf hsend
        rw [hn] at hn'; simp at hn'
  | some n =>
    by_cases hne : n = []
    · exfalso
      unfold routeWith route at h
      have hsc' : (u.scheme = some http || u.scheme = some https) = true := by
        rcases hsc with e | e <;> simp [e]
      simp only [Mgr.init, Option.isSome_some, Bool.true_and, hsc', Bool.not_true, Bool.false_eq_true, if_false] at h
      split at h
      · simp at h
      · split at h
        · simp at h
        · rename_i hsend
          obtain ⟨n2, _, _, _, hn', hne', _⟩ := send_forward_ok hf hsend
          rw [hn] at hn'; simp only [Option.some.injEq] at hn'; subst hn'; exact hne' hne
    · obtain ⟨n2, pl, hst, pv, hn2, h1, h2, h3, h4, h5, h6, h7, h8, h9, h10, h11, h12⟩ :=
        route_forward_carried hsc hf (proxyHeaders_fresh hn hne) h
      rw [hn] at hn2; simp only [Option.some.injEq] at hn2; subst hn2
      exact ⟨n, pl, hst, pv, rfl, h1, h2, h3, h4, h5, h6, h7, h8, h9, h10, h11, h12⟩

/-- `_set_proxy_headers` when the caller's headers are a previous hop's computed `Accept` / `Host`: the
carried `Host` wins -/
theorem proxyHeaders_carried {u : Url.Url} {n n₀ : Str} (hn : u.netloc = some n) (hne : n ≠ []) :
    proxyHeaders u [acceptHdr, (lit "Host", n₀)] = [acceptHdr, (lit "Host", n₀)] := by
  have : n.isEmpty = false := by simpa using hne
  have e2 : lit "Host" ≠ lit "Accept" := by decide
  have e3 : lit "Accept" ≠ lit "Host" := by decide
  simp [proxyHeaders, dictUpdate, dictSet, hn, this, acceptHdr, e2, e3]

theorem lookup_append_new {α β : Type} [BEq α] [LawfulBEq α] (k : α) (v : β) (l : List (α × β))
    (h : List.lookup k l = none) : List.lookup k (l ++ [(k, v)]) = some v := by
  induction l with
  | nil => simp
  | cons p t ih =>
    obtain ⟨a, b⟩ := p
    simp only [List.cons_append, List.lookup_cons] at h ⊢
    cases hk : (k == a) with
    | true => simp [hk] at h
    | false => simp only [hk] at h ⊢; exact ih h

/-- a pool that was just created is found again under the same request context -/
theorem fromContext_new {m : PoolKey.Mgr} {rc : PoolKey.Ctx} {pk' : PoolKey.Mgr} {id : Nat} {kw : PoolKey.Ctx}
    (h : PoolKey.fromContext m rc = (pk', .new id kw)) :
    id = m.next ∧ pk'.defaults = m.defaults ∧ pk'.next = m.next + 1 ∧
      PoolKey.fromContext pk' rc = (pk', .old id) := by
  unfold PoolKey.fromContext at h
  simp only at h
  split at h
  · simp at h
  · rename_i s hsch
    split at h
    · simp at h
    · rename_i hkf
      split at h
      · simp at h
      · rename_i key hkey
        split at h
        · simp at h
        · rename_i hlk
          split at h
          · split at h
            · simp at h
            · simp only [Prod.mk.injEq, PoolKey.Out.new.injEq] at h
              obtain ⟨rfl, rfl, -⟩ := h
              refine ⟨rfl, rfl, rfl, ?_⟩
              unfold PoolKey.fromContext
              simp only [hsch, hkf, hkey, lookup_append_new key m.next m.pools hlk]
              simp
          · simp at h
  · simp at h

theorem fromContext_old {m : PoolKey.Mgr} {rc : PoolKey.Ctx} {pk' : PoolKey.Mgr} {id : Nat}
    (h : PoolKey.fromContext m rc = (pk', .old id)) : pk' = m := by
  unfold PoolKey.fromContext at h
  simp only at h
  split at h
  · simp at h
  · split at h
    · simp at h
    · split at h
      · simp at h
      · split at h
        · simp only [Prod.mk.injEq] at h; exact h.1.symm
        · split at h
          · split at h
            · simp at h
            · simp at h
          · simp at h
  · simp at h

/-- the manager invariant `route` maintains: pool identities are positions in `pools` -/
def Mgr.Sync (m : Mgr) : Prop := m.pk.next = m.pools.length

theorem Mgr.sync_init (proxy : Option ProxyCfg) (extra : PoolKey.Ctx) : (Mgr.init proxy extra).Sync := rfl

theorem poolForRC_repeat {idna : Str → Option Str} {m m1 : Mgr} {rcE : Except PoolKey.Exc PoolKey.Ctx}
    {id : Nat} {key : PoolKey.Key} {pl : Pool} (hw : m.Sync)
    (h : poolForRC idna m rcE = (m1, .ok (id, key, pl))) :
    poolForRC idna m1 rcE = (m1, .ok (id, key, pl)) ∧ m1.proxy = m.proxy ∧
      m1.pk.defaults = m.pk.defaults ∧ m1.Sync := by
  unfold poolForRC at h
  split at h
  · simp at h
  · rename_i rc
    simp only at h
    split at h
    · simp at h
    · rename_i pk' id' key' hf hn
      have hpk := fromContext_old hf
      split at h
      · rename_i pl' hpl
        simp only [Prod.mk.injEq, Except.ok.injEq] at h
        obtain ⟨rfl, rfl, rfl, rfl⟩ := h
        refine ⟨?_, rfl, rfl, hw⟩
        unfold poolForRC
        simp only
        rw [hpk] at hf
        rw [hf, hn]
        simp only [hpl]
      · simp at h
    · rename_i pk' id' kw key' hf hn
      obtain ⟨hid, hdef, hnext, hrep⟩ := fromContext_new hf
      split at h
      · rename_i s hst p hs hh hp
        split at h
        · simp at h
        · rename_i pl' hnp
          simp only [Prod.mk.injEq, Except.ok.injEq] at h
          obtain ⟨rfl, rfl, rfl, rfl⟩ := h
          refine ⟨?_, rfl, hdef, ?_⟩
          · unfold poolForRC
            simp only
            rw [hrep, hn]
            simp only
            have : (m.pools ++ [pl'])[id']? = some pl' := by
              rw [hid, hw]; simp
            rw [this]
          · unfold Mgr.Sync at hw ⊢
            simp only [List.length_append, List.length_cons, List.length_nil]
            rw [hnext, hw]
      · simp at h
    · simp at h


/-- **Same pool again.**  Repeating a request that was served finds the pool it was served by: the
observation is identical (pool id included) and the manager no longer changes. -/
theorem route_repeat {idna : Str → Option Str} {m m1 : Mgr} {u : Url.Url} {c : List (Str × Str)} {r : Route}
    (hw : m.Sync) (h : route idna m u c = (m1, .ok r)) :
    route idna m1 u c = (m1, .ok r) ∧ m1.Sync := by
  unfold route at h
  split at h
  · simp at h
  · rename_i hchk
    split at h
    · simp at h
    · rename_i m' id key pl hpf
      split at h
      · simp at h
      · rename_i dh dp tls con target hhv req kwh hsend
        simp only [Prod.mk.injEq, Except.ok.injEq] at h
        obtain ⟨rfl, rfl⟩ := h
        rw [poolFor_eq] at hpf
        obtain ⟨hrep, hpx, hdef, hsync⟩ := poolForRC_repeat hw hpf
        refine ⟨?_, hsync⟩
        unfold route
        rw [hpx, if_neg hchk, poolFor_eq, hpx, hdef, hrep]
        simp only [hsend]


theorem poolForRC_err {idna : Str → Option Str} {m m' : Mgr} {rcE : Except PoolKey.Exc PoolKey.Ctx} {e : Exc}
    (h : poolForRC idna m rcE = (m', .error e)) : m' = m := by
  unfold poolForRC at h
  split at h
  · simp only [Prod.mk.injEq] at h; exact h.1.symm
  · simp only at h
    split at h
    · simp only [Prod.mk.injEq] at h; exact h.1.symm
    · split at h
      · simp at h
      · simp only [Prod.mk.injEq] at h; exact h.1.symm
    · split at h
      · split at h
        · simp only [Prod.mk.injEq] at h; exact h.1.symm
        · simp at h
      · simp only [Prod.mk.injEq] at h; exact h.1.symm
    · simp only [Prod.mk.injEq] at h; exact h.1.symm

/-- every manager state reachable from a fresh manager is `Sync` -/
theorem route_sync (idna : Str → Option Str) (m : Mgr) (u : Url.Url) (c : List (Str × Str)) (hw : m.Sync) :
    (route idna m u c).1.Sync := by
  unfold route
  split
  · exact hw
  · split
    · rename_i m' e hpf
      rw [poolFor_eq] at hpf
      rw [poolForRC_err hpf]; exact hw
    · rename_i m' id key pl hpf
      rw [poolFor_eq] at hpf
      have := (poolForRC_repeat hw hpf).2.2.2
      split <;> exact this



theorem joinWith_cons_cons (sep x : Str) (L : List Str) (hL : L ≠ []) :
    joinWith sep (x :: L) = x ++ sep ++ joinWith sep L := by
  cases L with
  | nil => exact absurd rfl hL
  | cons y t => rfl

theorem join_split (c : Nat) (s : Str) : joinWith [c] (splitOn1 c s) = s := by
  induction s with
  | nil => rfl
  | cons x t ih =>
    unfold splitOn1
    split
    · rename_i hx
      rw [joinWith_cons_cons _ _ _ (splitOn1_ne_nil c t), ih, hx]; rfl
    · cases hs : splitOn1 c t with
      | nil => exact absurd hs (splitOn1_ne_nil c t)
      | cons p ps =>
        simp only
        rw [hs] at ih
        cases ps with
        | nil => simp only [joinWith] at ih ⊢; rw [ih]
        | cons q r =>
          simp only [joinWith] at ih ⊢
          rw [← ih]; simp

theorem mapM_idna_ascii (idna : Str → Option Str) (l : List Str) (h : ∀ x ∈ l, x.all (· < 128) = true) :
    l.mapM (Url.idnaEncode idna) = .ok (l.map lower) := by
  induction l with
  | nil => rfl
  | cons x r ih =>
    rw [List.mapM_cons]
    have hx : Url.idnaEncode idna x = .ok (lower x) := by
      unfold Url.idnaEncode; rw [if_pos (h x (List.mem_cons_self ..))]
    rw [hx, ih (fun y hy => h y (List.mem_cons_of_mem _ hy))]
    rfl

theorem mem_splitOn1_sub {c : Nat} {s p : Str} (hp : p ∈ splitOn1 c s) : ∀ x ∈ p, x ∈ s := by
  induction s generalizing p with
  | nil => simp [splitOn1] at hp; subst hp; simp
  | cons a t ih =>
    unfold splitOn1 at hp
    split at hp
    · rcases List.mem_cons.mp hp with rfl | hp
      · simp
      · intro x hx; exact List.mem_cons_of_mem _ (ih hp x hx)
    · cases hs : splitOn1 c t with
      | nil => exact absurd hs (splitOn1_ne_nil c t)
      | cons q qs =>
        rw [hs] at hp ih
        simp only at hp
        rcases List.mem_cons.mp hp with rfl | hp
        · intro x hx
          rcases List.mem_cons.mp hx with rfl | hx
          · exact List.mem_cons_self ..
          · exact List.mem_cons_of_mem _ (ih (List.mem_cons_self ..) x hx)
        · intro x hx; exact List.mem_cons_of_mem _ (ih (List.mem_cons_of_mem _ hp) x hx)

/-- the shapes of host `parse_url` returns for http/https URLs, for which the pool's second
`_normalize_host` is the identity: a lower-case ASCII reg-name, a dotted quad, an IPv6 literal without
zone in lower case -/
def StableHost (h : Str) : Prop :=
  (h.all (· < 128) = true ∧ lower h = h ∧ Url.ipv6AddrzMatch h = false) ∨
  (Url.ipv4Match h = true ∧ Url.ipv6AddrzMatch h = false) ∨
  (Url.ipv6AddrzMatch h = true ∧ 37 ∉ h ∧ lower h = h)

theorem normalizeHost_stable (idna : Str → Option Str) (h s : Str) (hsch : s = http ∨ s = https)
    (hst : StableHost h) : Url.normalizeHost idna (some h) (some s) = .ok (some h) := by
  have hn : Gen.normalizableSchemes.contains (some s) = true := by
    rcases hsch with rfl | rfl <;> decide
  unfold Url.normalizeHost
  simp only [hn, if_true]
  split
  · rfl
  · rcases hst with ⟨ha, hl, h6⟩ | ⟨h4, h6⟩ | ⟨h6, h37, hl⟩
    · simp only [h6, Bool.false_eq_true, if_false]
      split
      · rfl
      · have hlab : ∀ x ∈ splitOn1 46 h, x.all (· < 128) = true := by
          intro x hx
          simp only [List.all_eq_true, decide_eq_true_eq] at ha ⊢
          exact fun y hy => ha y (mem_splitOn1_sub hx y hy)
        simp only [bind, Except.bind, mapM_idna_ascii idna _ hlab]
        have : joinWith [46] ((splitOn1 46 h).map lower) = lower (joinWith [46] (splitOn1 46 h)) := by
          rw [Url.lower_joinWith]; rfl
        rw [this, join_split, hl]
    · simp only [h6, Bool.false_eq_true, if_false, h4, if_true]
    · have : h.dropWhile (· != 37) = [] := by
        have : ∀ x ∈ h, (x != 37) = true := by
          intro x hx
          simp only [bne_iff_ne, ne_eq]
          intro e; subst e; exact h37 hx
        exact (Url.takeWhile_all h this).2
      simp only [h6, if_true, this, List.isEmpty_nil, hl]



theorem isAlphaC_lowerC (c : Nat) : isAlphaC (lowerC c) = isAlphaC c := by
  rw [Bool.eq_iff_iff]
  simp only [isAlphaC, isUpperC, isLowerC, lowerC, Bool.or_eq_true, Bool.and_eq_true, decide_eq_true_eq]
  split <;> simp only [decide_eq_true_eq] <;> constructor <;> intro _ <;> omega

theorem isDigitC_lowerC (c : Nat) : isDigitC (lowerC c) = isDigitC c := by
  rw [Bool.eq_iff_iff]
  simp only [isDigitC, lowerC, Bool.and_eq_true, decide_eq_true_eq]
  split <;> simp only [decide_eq_true_eq] <;> constructor <;> intro _ <;> omega

theorem lowerC_eq_iff (c k : Nat) (hk : k < 65 ∨ (90 < k ∧ k < 97) ∨ 122 < k) : lowerC c = k ↔ c = k := by
  simp only [lowerC]
  split <;> constructor <;> intro _ <;> omega

theorem schemeChar1_lowerC (c : Nat) : Url.schemeChar1 (lowerC c) = Url.schemeChar1 c := by
  rw [Bool.eq_iff_iff]
  simp only [Url.schemeChar1, Bool.or_eq_true, beq_iff_eq, isAlphaC_lowerC, isDigitC_lowerC,
    lowerC_eq_iff c 43 (by omega), lowerC_eq_iff c 45 (by omega)]

theorem schemeChar1_schemeChar {c : Nat} (h : Url.schemeChar1 c = true) : Url.schemeChar c = true := by
  simp [Url.schemeChar, h]

/-- a well-formed scheme text: a letter followed by letters, digits, `+`, `-` (the class of `_SCHEME_RE`) -/
def SchemeText (sc : Str) : Prop :=
  ∃ c t, sc = c :: t ∧ isAlphaC c = true ∧ ∀ x ∈ t, Url.schemeChar1 x = true

theorem schemeText_lower {sc : Str} (h : SchemeText sc) : SchemeText (lower sc) := by
  obtain ⟨c, t, rfl, hc, ht⟩ := h
  refine ⟨lowerC c, lower t, rfl, by rw [isAlphaC_lowerC]; exact hc, ?_⟩
  intro x hx
  simp only [lower, List.mem_map] at hx
  obtain ⟨y, hy, rfl⟩ := hx
  rw [schemeChar1_lowerC]; exact ht y hy

theorem schemeText_of_lower {sc : Str} (h : SchemeText (lower sc)) : SchemeText sc := by
  obtain ⟨c, t, he, hc, ht⟩ := h
  cases sc with
  | nil => simp [lower] at he
  | cons a r =>
    simp only [lower, List.map_cons, List.cons.injEq] at he
    obtain ⟨rfl, rfl⟩ := he
    refine ⟨a, r, rfl, by rw [← isAlphaC_lowerC]; exact hc, ?_⟩
    intro x hx
    rw [← schemeChar1_lowerC]
    exact ht _ (List.mem_map_of_mem hx)

theorem parseCore_scheme (idna : Str → Option Str) (sc rest : Str) (h : SchemeText sc) :
    Url.parseCore idna (sc ++ 58 :: rest) = Url.parseCore idna (lower sc ++ 58 :: rest) := by
  have key : ∀ sc, SchemeText sc →
      Url.schemeRe (sc ++ 58 :: rest) = true ∧ Url.splitScheme (sc ++ 58 :: rest) = (some sc, rest) := by
    intro sc h
    obtain ⟨c, t, rfl, hc, ht⟩ := h
    have h58 : Url.schemeChar1 58 = false := by decide
    have h58' : Url.schemeChar 58 = false := by decide
    have hne : c ≠ 47 := Url.alpha_ne47 hc
    constructor
    · simp only [List.cons_append, Url.schemeRe, hne, if_false, hc, if_true]
      rw [(Url.takeWhile_append_stop t 58 rest ht h58).2]
      rfl
    · simp only [List.cons_append, Url.splitScheme, hc, if_true]
      have ht' : ∀ x ∈ t, Url.schemeChar x = true := fun x hx => schemeChar1_schemeChar (ht x hx)
      rw [(Url.takeWhile_append_stop t 58 rest ht' h58').2, (Url.takeWhile_append_stop t 58 rest ht' h58').1]
      rfl
  obtain ⟨h1, h2⟩ := key sc h
  obtain ⟨h3, h4⟩ := key (lower sc) (schemeText_lower h)
  unfold Url.parseCore
  simp only [h1, h2, h3, h4, if_true, Url.normalizeUriOf, Option.map_some, lower_idem]

/-- **The scheme's letter case does not influence the parse.** -/
theorem parseUrlWith_scheme_case (idna : Str → Option Str) (sc₁ sc₂ rest : Str) (h1 : SchemeText sc₁)
    (hl : lower sc₁ = lower sc₂) :
    Url.parseUrlWith idna (sc₁ ++ 58 :: rest) = Url.parseUrlWith idna (sc₂ ++ 58 :: rest) := by
  have h2 : SchemeText sc₂ := schemeText_of_lower (hl ▸ schemeText_lower h1)
  unfold Url.parseUrlWith
  have e1 : (sc₁ ++ 58 :: rest).isEmpty = false := by cases sc₁ <;> rfl
  have e2 : (sc₂ ++ 58 :: rest).isEmpty = false := by cases sc₂ <;> rfl
  rw [e1, e2, parseCore_scheme idna sc₁ rest h1, parseCore_scheme idna sc₂ rest h2, hl]



theorem route_proxy (idna : Str → Option Str) (m : Mgr) (u : Url.Url) (c : List (Str × Str)) (hw : m.Sync) :
    (route idna m u c).1.proxy = m.proxy := by
  unfold route
  split
  · rfl
  · split
    · rename_i m' e hpf
      rw [poolFor_eq] at hpf
      rw [poolForRC_err hpf]
    · rename_i m' id key pl hpf
      rw [poolFor_eq] at hpf
      have := (poolForRC_repeat hw hpf).2.1
      split <;> exact this



/-- characters of a plain host name: letters, digits, `-`, `.`, `_`, `~` -/
def hostPlainC (c : Nat) : Bool := isAlphaC c || isDigitC c || c == 45 || c == 46 || c == 95 || c == 126

theorem hostPlainC_facts {c : Nat} (h : hostPlainC c = true) :
    c ≠ 37 ∧ c ≠ 64 ∧ c ≠ 91 ∧ c ≠ 10 ∧ c < 128 ∧ Url.authChar c = true ∧ Url.regNameChar c = true := by
  simp only [hostPlainC, isAlphaC, isUpperC, isLowerC, isDigitC, Bool.or_eq_true, Bool.and_eq_true,
    decide_eq_true_eq, beq_iff_eq] at h
  refine ⟨by omega, by omega, by omega, by omega, by omega, ?_, ?_⟩
  · have : c ≠ 92 ∧ c ≠ 47 ∧ c ≠ 63 ∧ c ≠ 35 := by omega
    simp [Url.authChar, this]
  · have : c ≠ 91 ∧ c ≠ 93 ∧ c ≠ 37 ∧ c ≠ 58 ∧ c ≠ 47 ∧ c ≠ 63 ∧ c ≠ 35 := by omega
    simp [Url.regNameChar, this]

theorem tokenize_plain (H A : Str) (h37 : ∀ c ∈ H, c ≠ 37) :
    Url.tokenize (H ++ A) = H.map .chr ++ Url.tokenize A := by
  induction H with
  | nil => rfl
  | cons c t ih =>
    have hc := h37 c (List.mem_cons_self ..)
    have := ih (fun x hx => h37 x (List.mem_cons_of_mem _ hx))
    simp only [Url.tokenize] at this ⊢
    simp only [List.cons_append, Url.tokAux, hc, if_false, List.map_cons, this]

theorem takeWhile_append_stop' {α : Type} {p : α → Bool} (r : List α) (y : α) (b : List α)
    (hr : ∀ x ∈ r, p x = true) (hy : p y = false) :
    (r ++ y :: b).takeWhile p = r ∧ (r ++ y :: b).dropWhile p = y :: b := by
  induction r with
  | nil => simp [hy]
  | cons x t ih =>
    have hx := hr x (List.mem_cons_self ..)
    have := ih (fun z hz => hr z (List.mem_cons_of_mem _ hz))
    simp [hx, this]

theorem takeWhile_all' {α : Type} {p : α → Bool} (r : List α) (hr : ∀ x ∈ r, p x = true) :
    r.takeWhile p = r ∧ r.dropWhile p = [] := by
  induction r with
  | nil => simp
  | cons x t ih =>
    have hx := hr x (List.mem_cons_self ..)
    have := ih (fun z hz => hr z (List.mem_cons_of_mem _ hz))
    simp [hx, this]

theorem flatMap_text_chr (H : Str) : (H.map Url.Tok.chr).flatMap Url.Tok.text = H := by
  induction H with
  | nil => rfl
  | cons c t ih => simp [Url.Tok.text, ih]

/-- `_HOST_PORT_RE` on a plain, non-empty host followed by nothing or `:`… -/
theorem hostPortRe_plain (H A : Str) (hH : ∀ c ∈ H, hostPlainC c = true) (hne : H ≠ [])
    (hA : A = [] ∨ ∃ t, A = 58 :: t) :
    Url.hostPortRe (H ++ A) = (Url.portPart A).map (fun p => (H, p)) := by
  have h37 : ∀ c ∈ H, c ≠ 37 := fun c hc => (hostPlainC_facts (hH c hc)).1
  have hreg : ∀ t ∈ H.map Url.Tok.chr, Url.regNameTok t = true := by
    intro t ht
    simp only [List.mem_map] at ht
    obtain ⟨c, hc, rfl⟩ := ht
    exact (hostPlainC_facts (hH c hc)).2.2.2.2.2.2
  have hsplit : ((Url.tokenize (H ++ A)).takeWhile Url.regNameTok).flatMap Url.Tok.text = H ∧
      ((Url.tokenize (H ++ A)).dropWhile Url.regNameTok).flatMap Url.Tok.text = A := by
    rw [tokenize_plain H A h37]
    rcases hA with rfl | ⟨t, rfl⟩
    · have : Url.tokenize [] = [] := rfl
      rw [this, List.append_nil, (takeWhile_all' _ hreg).1, (takeWhile_all' _ hreg).2]
      exact ⟨flatMap_text_chr H, rfl⟩
    · have ht : Url.tokenize (58 :: t) = .chr 58 :: Url.tokAux 0 t := by
        simp [Url.tokenize, Url.tokAux]
      have h58 : Url.regNameTok (.chr 58) = false := by decide
      rw [ht, (takeWhile_append_stop' _ _ _ hreg h58).1, (takeWhile_append_stop' _ _ _ hreg h58).2]
      refine ⟨flatMap_text_chr H, ?_⟩
      rw [← ht]
      exact Url.render_tokenize (58 :: t)
  have hb : Url.hostPortBracket (H ++ A) = none := by
    apply Url.hostPortBracket_nb
    intro t e
    cases H with
    | nil => exact hne rfl
    | cons c r =>
      simp only [List.cons_append, List.cons.injEq] at e
      exact (hostPlainC_facts (hH c (List.mem_cons_self ..))).2.2.1 e.1
  unfold Url.hostPortRe
  simp only [hsplit.1, hsplit.2, hb]
  cases Url.portPart A <;> rfl


theorem rpart_none_of_not_mem (c : Nat) (s : Str) (h : c ∉ s) : Url.rpart c s = none := by
  induction s with
  | nil => rfl
  | cons x t ih =>
    have hx : x ≠ c := fun e => h (e ▸ List.mem_cons_self ..)
    have ht := ih (fun hm => h (List.mem_cons_of_mem _ hm))
    simp [Url.rpart, ht, hx]

theorem rpart_append (c : Nat) (a X : Str) (h : c ∉ X) : Url.rpart c (a ++ c :: X) = some (a, X) := by
  induction a with
  | nil => simp [Url.rpart, rpart_none_of_not_mem c X h]
  | cons x t ih => simp [Url.rpart, ih]

/-- the userinfo part of an authority text: nothing, or something ending in `@` -/
inductive UiPrefix : Str → Str → Prop
  | none : UiPrefix [] []
  | some (ui : Str) : UiPrefix (ui ++ [64]) ui

theorem rpartitionAt_prefix {P au X : Str} (hP : UiPrefix P au) (hX : 64 ∉ X) :
    Url.rpartitionAt (P ++ X) = (au, X) := by
  cases hP with
  | none => simp [Url.rpartitionAt, rpart_none_of_not_mem 64 X hX]
  | some =>
    have : au ++ [64] ++ X = au ++ 64 :: X := by simp
    rw [this]
    simp [Url.rpartitionAt, rpart_append 64 au X hX]

/-- `_normalize_host` of a non-empty ASCII name that is neither a bracketed literal nor a dotted quad:
the name in lower case -/
theorem normalizeHost_regname (idna : Str → Option Str) (h s : Str) (hsch : s = http ∨ s = https)
    (hne : h ≠ []) (ha : h.all (· < 128) = true) (h6 : Url.ipv6AddrzMatch h = false)
    (h4 : Url.ipv4Match h = false) :
    Url.normalizeHost idna (some h) (some s) = .ok (some (lower h)) := by
  have hn : Gen.normalizableSchemes.contains (some s) = true := by
    rcases hsch with rfl | rfl <;> decide
  have hie : h.isEmpty = false := by simpa using hne
  unfold Url.normalizeHost
  simp only [hn, if_true, hie, Bool.false_eq_true, if_false, h6, h4]
  have hlab : ∀ x ∈ splitOn1 46 h, x.all (· < 128) = true := by
    intro x hx
    simp only [List.all_eq_true, decide_eq_true_eq] at ha ⊢
    exact fun y hy => ha y (mem_splitOn1_sub hx y hy)
  simp only [bind, Except.bind, mapM_idna_ascii idna _ hlab]
  have : joinWith [46] ((splitOn1 46 h).map lower) = lower (joinWith [46] (splitOn1 46 h)) := by
    rw [Url.lower_joinWith]; rfl
  rw [this, join_split]

theorem plain_not_ipv6 {H : Str} (hH : ∀ c ∈ H, hostPlainC c = true) : Url.ipv6AddrzMatch H = false := by
  unfold Url.ipv6AddrzMatch
  cases H with
  | nil => rfl
  | cons c t =>
    have := (hostPlainC_facts (hH c (List.mem_cons_self ..))).2.2.1
    split
    · rename_i t' e
      simp only [List.cons.injEq] at e
      exact absurd e.1 this
    · rfl

theorem normalizeHost_plain (idna : Str → Option Str) (H s : Str) (hsch : s = http ∨ s = https)
    (hH : ∀ c ∈ H, hostPlainC c = true) (hne : H ≠ []) (h4 : Url.ipv4Match H = false) :
    Url.normalizeHost idna (some H) (some s) = .ok (some (lower H)) := by
  apply normalizeHost_regname idna H s hsch hne _ (plain_not_ipv6 hH) h4
  simp only [List.all_eq_true, decide_eq_true_eq]
  exact fun c hc => (hostPlainC_facts (hH c hc)).2.2.2.2.1


theorem parseAuthority_plain (n : Bool) {P au H A : Str} (hP : UiPrefix P au)
    (hH : ∀ c ∈ H, hostPlainC c = true) (hne : H ≠ []) (hA : A = [] ∨ ∃ t, A = 58 :: t) (h64 : 64 ∉ A) :
    Url.parseAuthority n (some (P ++ (H ++ A))) =
      match Url.portPart A with
      | none => .error .attributeError
      | some p => .ok (if au.isEmpty then none
                       else some (if n then Url.encodeInvalidChars Gen.userinfoChars au else au),
                       some H,
                       match p with
                       | some d => if d.isEmpty then none else some d
                       | none => none) := by
  have hX : 64 ∉ H ++ A := by
    intro hm
    rcases List.mem_append.mp hm with hm | hm
    · exact (hostPlainC_facts (hH 64 hm)).2.1 rfl
    · exact h64 hm
  have hie : (P ++ (H ++ A)).isEmpty = false := by
    cases P <;> cases H <;> simp_all
  have hHe : H.isEmpty = false := by cases H <;> simp_all
  unfold Url.parseAuthority
  simp only [hie, Bool.false_eq_true, if_false, rpartitionAt_prefix hP hX, hostPortRe_plain H A hH hne hA]
  -- a non-empty host is never replaced by `None` (the delimiters-only rule needs `host == ""`)
  cases Url.portPart A with
  | none => rfl
  | some v =>
    simp only [Option.map_some, hHe, Bool.and_false, Bool.false_eq_true, if_false]
    rfl

theorem takeWhile_append_all {p : Nat → Bool} (L rest : Str) (hL : ∀ x ∈ L, p x = true) :
    (L ++ rest).takeWhile p = L ++ rest.takeWhile p ∧ (L ++ rest).dropWhile p = rest.dropWhile p := by
  induction L with
  | nil => simp
  | cons x t ih =>
    have hx := hL x (List.mem_cons_self ..)
    have := ih (fun z hz => hL z (List.mem_cons_of_mem _ hz))
    simp [hx, this]

/-- the URL text `scheme://[userinfo@]HOST rest` -/
def urlText (sc P H rest : Str) : Str := sc ++ 58 :: 47 :: 47 :: (P ++ (H ++ rest))

theorem parseCore_host_case (idna : Str → Option Str) (sc P au H₁ H₂ rest : Str) (hsc : SchemeText sc)
    (hs : lower sc = http ∨ lower sc = https) (hP : UiPrefix P au) (hPa : ∀ c ∈ P, Url.authChar c = true)
    (hH₁ : ∀ c ∈ H₁, hostPlainC c = true) (hH₂ : ∀ c ∈ H₂, hostPlainC c = true)
    (hne₁ : H₁ ≠ []) (hne₂ : H₂ ≠ [])
    (hl : lower H₁ = lower H₂) (h4₁ : Url.ipv4Match H₁ = false) (h4₂ : Url.ipv4Match H₂ = false)
    (hrest : rest = [] ∨ ∃ c t, rest = c :: t ∧ (c = 58 ∨ Url.authChar c = false))
    (h64 : 64 ∉ rest.takeWhile Url.authChar) :
    Url.parseCore idna (urlText sc P H₁ rest) = Url.parseCore idna (urlText sc P H₂ rest) := by
  have hA : rest.takeWhile Url.authChar = [] ∨ ∃ t, rest.takeWhile Url.authChar = 58 :: t := by
    rcases hrest with rfl | ⟨c, t, rfl, hc | hc⟩
    · exact Or.inl rfl
    · subst hc
      have : Url.authChar 58 = true := by decide
      exact Or.inr ⟨_, by rw [List.takeWhile_cons_of_pos this]⟩
    · exact Or.inl (by rw [List.takeWhile_cons_of_neg (by simpa using hc)])
  have front : ∀ H, (∀ c ∈ H, hostPlainC c = true) →
      Url.schemeRe (urlText sc P H rest) = true ∧
      Url.splitScheme (urlText sc P H rest) = (some sc, 47 :: 47 :: (P ++ (H ++ rest))) ∧
      Url.splitAuthority (47 :: 47 :: (P ++ (H ++ rest))) =
        (some (P ++ (H ++ rest.takeWhile Url.authChar)), rest.dropWhile Url.authChar) := by
    intro H hH
    obtain ⟨c, t, rfl, hc, ht⟩ := hsc
    have h58 : Url.schemeChar1 58 = false := by decide
    have h58' : Url.schemeChar 58 = false := by decide
    have hne : c ≠ 47 := Url.alpha_ne47 hc
    have ht' : ∀ x ∈ t, Url.schemeChar x = true := fun x hx => schemeChar1_schemeChar (ht x hx)
    refine ⟨?_, ?_, ?_⟩
    · simp only [urlText, List.cons_append, Url.schemeRe, hne, if_false, hc, if_true]
      rw [(Url.takeWhile_append_stop t 58 (47 :: 47 :: (P ++ (H ++ rest))) ht h58).2]
      rfl
    · simp only [urlText, List.cons_append, Url.splitScheme, hc, if_true]
      rw [(Url.takeWhile_append_stop t 58 (47 :: 47 :: (P ++ (H ++ rest))) ht' h58').2,
        (Url.takeWhile_append_stop t 58 (47 :: 47 :: (P ++ (H ++ rest))) ht' h58').1]
      rfl
    · have hPH : ∀ x ∈ P ++ H, Url.authChar x = true := by
        intro x hx
        rcases List.mem_append.mp hx with hx | hx
        · exact hPa x hx
        · exact (hostPlainC_facts (hH x hx)).2.2.2.2.2.1
      have := takeWhile_append_all (p := Url.authChar) (P ++ H) rest hPH
      simp only [List.append_assoc] at this
      simp only [Url.splitAuthority, this.1, this.2]
  obtain ⟨f1, f2, f3⟩ := front H₁ hH₁
  obtain ⟨g1, g2, g3⟩ := front H₂ hH₂
  have hN : Url.normalizeHost idna (some H₁) (some (lower sc)) = Url.normalizeHost idna (some H₂) (some (lower sc)) := by
    rw [normalizeHost_plain idna H₁ _ hs hH₁ hne₁ h4₁, normalizeHost_plain idna H₂ _ hs hH₂ hne₂ h4₂, hl]
  unfold Url.parseCore
  simp only [f1, f2, f3, g1, g2, g3, if_true, Option.map_some,
    parseAuthority_plain _ hP hH₁ hne₁ hA h64, parseAuthority_plain _ hP hH₂ hne₂ hA h64]
  cases Url.portPart (rest.takeWhile Url.authChar) with
  | none => rfl
  | some p =>
    simp only [bind, Except.bind]
    split <;> simp only [hN]


/-- **The host's letter case does not influence the parse** (plain reg-names, http/https) -/
theorem parseUrlWith_host_case (idna : Str → Option Str) (sc P au H₁ H₂ rest : Str) (hsc : SchemeText sc)
    (hs : lower sc = http ∨ lower sc = https) (hP : UiPrefix P au) (hPa : ∀ c ∈ P, Url.authChar c = true)
    (hH₁ : ∀ c ∈ H₁, hostPlainC c = true) (hH₂ : ∀ c ∈ H₂, hostPlainC c = true)
    (hl : lower H₁ = lower H₂) (h4₁ : Url.ipv4Match H₁ = false) (h4₂ : Url.ipv4Match H₂ = false)
    (hrest : rest = [] ∨ ∃ c t, rest = c :: t ∧ (c = 58 ∨ Url.authChar c = false))
    (h64 : 64 ∉ rest.takeWhile Url.authChar) :
    Url.parseUrlWith idna (urlText sc P H₁ rest) = Url.parseUrlWith idna (urlText sc P H₂ rest) := by
  by_cases hne₁ : H₁ = []
  · have : H₂ = [] := by
      have := congrArg List.length hl
      simp only [lower_length, hne₁, List.length_nil] at this
      exact List.eq_nil_of_length_eq_zero this.symm
    rw [hne₁, this]
  · have hne₂ : H₂ ≠ [] := by
      intro e
      have := congrArg List.length hl
      simp only [lower_length, e, List.length_nil] at this
      exact hne₁ (List.eq_nil_of_length_eq_zero this)
    have e1 : ∀ H, (urlText sc P H rest).isEmpty = false := by
      intro H
      obtain ⟨c, t, rfl, -, -⟩ := hsc
      rfl
    unfold Url.parseUrlWith
    rw [e1, e1, parseCore_host_case idna sc P au H₁ H₂ rest hsc hs hP hPa hH₁ hH₂ hne₁ hne₂ hl h4₁ h4₂ hrest h64]



/-- a bracketed IPv6 literal with a zone id `z` in the form `parse_url` returns it — address part in
lower case, `%`, the zone id in normal form — whose zone id does not start with `25` (followed by
more): the shape excluded by the known finding `zone-25-prefix-stripped-twice` -/
def StableZoned (h : Str) : Prop :=
  Url.ipv6AddrzMatch h = true ∧ lower (h.takeWhile (· != 37)) = h.takeWhile (· != 37) ∧
  ∃ z, (h.dropWhile (· != 37)).takeWhile (· != 93) = 37 :: z ∧
    ¬ (isPrefix [50, 53] z = true ∧ z ≠ [50, 53]) ∧ Url.NormalForm Gen.unreservedChars z

theorem isPrefix_cons (c : Nat) (p s : Str) : isPrefix (c :: p) (c :: s) = isPrefix p s := by
  simp [isPrefix]

theorem normalizeHost_stable_zoned (idna : Str → Option Str) (h s : Str) (hsch : s = http ∨ s = https)
    (hst : StableZoned h) : Url.normalizeHost idna (some h) (some s) = .ok (some h) := by
  obtain ⟨h6, hl, z, hz, h25, hnf⟩ := hst
  have hn : Gen.normalizableSchemes.contains (some s) = true := by
    rcases hsch with rfl | rfl <;> decide
  have hr : h.dropWhile (· != 37) ≠ [] := by
    intro e; rw [e] at hz; simp at hz
  have hne : h.isEmpty = false := by
    cases h with
    | nil => simp at hr
    | cons a t => rfl
  have hzone : ∀ {zone : Str}, zone = 37 :: z →
      (if isPrefix Url.pct25 zone && zone != Url.pct25 then zone.drop 3 else zone.drop 1) = z := by
    intro zone e
    subst e
    have hp : isPrefix Url.pct25 (37 :: z) = isPrefix [50, 53] z := isPrefix_cons 37 [50, 53] z
    have hq : ((37 :: z) != Url.pct25) = (z != [50, 53]) := by
      rw [Bool.eq_iff_iff]
      simp only [Url.pct25, bne_iff_ne, ne_eq, List.cons.injEq, true_and]
    rw [hp, hq]
    by_cases hpre : isPrefix [50, 53] z = true
    · have : z = [50, 53] := by
        by_cases e : z = [50, 53]
        · exact e
        · exact absurd ⟨hpre, e⟩ h25
      subst this
      simp
    · simp [hpre]
  unfold Url.normalizeHost
  simp only [hn, if_true, hne, Bool.false_eq_true, if_false, h6]
  have hre : (h.dropWhile (· != 37)).isEmpty = false := by simpa using hr
  simp only [hre, Bool.false_eq_true, if_false, hz, hzone rfl, hl, encode_keeps Url.encSet_unreserved hnf]
  have e1 : [37] ++ z = (h.dropWhile (· != 37)).takeWhile (· != 93) := by rw [hz]; rfl
  rw [List.append_assoc, List.append_assoc, ← List.append_assoc [37] z, e1, List.takeWhile_append_dropWhile,
    List.takeWhile_append_dropWhile]

/-! ## after the repairs: the absolute-form target, the `Host` header inside a tunnel -/

/-- the absolute-form target spelled out: scheme, host, port as written, path, query — nothing else -/
theorem absTarget_eq (u : Url.Url) :
    absTarget u =
      (match u.scheme with | some s => s ++ [58, 47, 47] | none => []) ++
      (match u.host with | some h => h | none => []) ++
      (match u.port with | some n => 58 :: Url.natToDec n | none => []) ++
      (match u.path with | some x => x | none => []) ++ qSuffix u.query := by
  cases hq : u.query <;> simp [absTarget, Url.Url.render, qSuffix, hq] <;> rfl

/-- userinfo and fragment reach neither the pool choice nor anything `send` computes — on every kind of
route (the absolute-form target is rendered without them, `netloc` never contained them) -/
theorem route_auth_frag (idna : Str → Option Str) (m : Mgr) (u : Url.Url) (a f : Option Str)
    (carried : List (Str × Str)) :
    route idna m { u with auth := a, fragment := f } carried = route idna m u carried := rfl

theorem lowerC_eq_91 (c : Nat) : lowerC c = 91 ↔ c = 91 := by
  unfold lowerC; split <;> omega

theorem lowerC_eq_93 (c : Nat) : lowerC c = 93 ↔ c = 93 := by
  unfold lowerC; split <;> omega

/-- removing the enclosing brackets commutes with lower-casing -/
theorem unbracket_lower (h : Str) : unbracket (lower h) = lower (unbracket h) := by
  unfold unbracket lower
  have h1 : (h.map lowerC).head? = some 91 ↔ h.head? = some 91 := by
    cases h with
    | nil => simp
    | cons a t => simp [lowerC_eq_91]
  have h2 : (h.map lowerC).getLast? = some 93 ↔ h.getLast? = some 93 := by
    rw [List.getLast?_map]
    cases h.getLast? with
    | none => simp
    | some a => simp [lowerC_eq_93]
  have d1 : decide ((h.map lowerC).head? = some 91) = decide (h.head? = some 91) := decide_eq_decide.mpr h1
  have d2 : decide ((h.map lowerC).getLast? = some 93) = decide (h.getLast? = some 93) := decide_eq_decide.mpr h2
  rw [d1, d2]
  split
  · rw [List.map_dropLast, List.map_tail]
  · rfl

end U3.Route
