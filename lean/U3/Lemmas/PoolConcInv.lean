import U3.Lemmas.PoolConc
/-! Global invariants of `U3.PoolConc` (C02): every configuration reachable under any schedule
satisfies `Inv` (identity discipline), `InvB` (slot counting) and the bound on `maxOpen`. -/
namespace U3.PoolConc

/-! ## Lists -/

theorem getElem?_set_of_get {α} {l : List α} {t : Nat} {a x : α} (h : l[t]? = some a) (t2 : Nat) :
    (l.set t x)[t2]? = if t2 = t then some x else l[t2]? := by
  have hlt : t < l.length := (List.getElem?_eq_some_iff.mp h).1
  rw [List.getElem?_set]
  by_cases e : t = t2
  · subst e; simp [hlt]
  · simp [e, Ne.symm e]

theorem set_cases {α} {l : List α} {t : Nat} {a x y : α} (h : l[t]? = some a) {t2 : Nat}
    (h2 : (l.set t x)[t2]? = some y) : (t2 = t ∧ y = x) ∨ (t2 ≠ t ∧ l[t2]? = some y) := by
  rw [getElem?_set_of_get h] at h2
  by_cases e : t2 = t <;> simp_all

theorem sum_map_set {α} (f : α → Nat) {l : List α} {t : Nat} {a : α} (x : α) (h : l[t]? = some a) :
    ((l.set t x).map f).sum + f a = (l.map f).sum + f x := by
  induction l generalizing t with
  | nil => simp at h
  | cons b l ih =>
    cases t with
    | zero => simp at h; subst h; simp; omega
    | succ t =>
      simp at h; have := ih h
      simp only [List.set_cons_succ, List.map_cons, List.sum_cons]; omega

theorem le_sum_map {α} (f : α → Nat) {l : List α} {t : Nat} {a : α} (h : l[t]? = some a) :
    f a ≤ (l.map f).sum := by
  induction l generalizing t with
  | nil => simp at h
  | cons b l ih =>
    cases t with
    | zero => simp at h; subst h; simp
    | succ t => simp at h; have := ih h; simp; omega

theorem length_flatMap_owned_le (l : List Thread) :
    (l.flatMap Thread.owned).length ≤ (l.map Thread.slots).sum := by
  induction l with
  | nil => simp
  | cons a l ih =>
    have := a.owned_length_le_slots
    simp only [List.flatMap_cons, List.length_append, List.map_cons, List.sum_cons]; omega

theorem two_le_sum_map {α} (f : α → Nat) {l : List α} {a b : Nat} {x y : α} (ha : l[a]? = some x)
    (hb : l[b]? = some y) (hne : a ≠ b) : f x + f y ≤ (l.map f).sum := by
  induction l generalizing a b with
  | nil => simp at ha
  | cons c l ih =>
    cases a with
    | zero =>
      cases b with
      | zero => exact absurd rfl hne
      | succ b =>
        simp at ha hb; subst ha
        have := le_sum_map f hb
        simp only [List.map_cons, List.sum_cons]; omega
    | succ a =>
      cases b with
      | zero =>
        simp at ha hb; subst hb
        have := le_sum_map f ha
        simp only [List.map_cons, List.sum_cons]; omega
      | succ b =>
        simp at ha hb
        have := ih ha hb (by omega)
        simp only [List.map_cons, List.sum_cons]; omega

/-! ## Steps of the whole configuration -/

theorem step_some {s s' : State} {t : Nat} (h : step s t = some s') :
    ∃ th sh' th', s.threads[t]? = some th ∧ tstep s.cfg t s.sh th = some (sh', th') ∧
      s' = { s with sh := sh', threads := s.threads.set t th' } := by
  unfold step at h
  split at h
  · simp at h
  · rename_i th hth
    split at h
    · simp at h
    · rename_i sh' th' hts
      exact ⟨th, sh', th', hth, hts, by simpa using h.symm⟩

theorem runFrom_cons (s : State) (t : Nat) (σ : List Nat) :
    runFrom s (t :: σ) = runFrom ((step s t).getD s) σ := rfl

/-- invariant induction over a schedule -/
theorem runFrom_induction {P : State → Prop}
    (hstep : ∀ s t s', P s → step s t = some s' → P s') (s : State) (σ : List Nat) (h : P s) :
    P (runFrom s σ) := by
  induction σ generalizing s with
  | nil => exact h
  | cons t σ ih =>
    rw [runFrom_cons]
    cases hs : step s t with
    | none => simpa using ih s h
    | some s' => exact ih s' (hstep s t s' h hs)

@[simp] theorem runFrom_cfg (s : State) (σ : List Nat) : (runFrom s σ).cfg = s.cfg := by
  refine runFrom_induction (P := fun x => x.cfg = s.cfg) ?_ s σ rfl
  intro s1 t s2 h1 h2
  obtain ⟨th, sh', th', -, -, rfl⟩ := step_some h2
  exact h1

/-! ## The identity invariant -/

structure Inv (s : State) : Prop where
  qnodup : (queueConns s.sh).Nodup
  qlt : ∀ c ∈ queueConns s.sh, c < s.sh.nextId
  tnodup : ∀ (t : Nat) (th : Thread), s.threads[t]? = some th → th.owned.Nodup
  tlt : ∀ (t : Nat) (th : Thread), s.threads[t]? = some th → ∀ c ∈ th.owned, c < s.sh.nextId ∧ c ∉ queueConns s.sh
  disj : ∀ (t1 t2 : Nat) (th1 th2 : Thread), s.threads[t1]? = some th1 → s.threads[t2]? = some th2 → t1 ≠ t2 →
    ∀ c ∈ th1.owned, c ∉ th2.owned
  onodup : s.sh.openC.Nodup
  osub : ∀ c ∈ s.sh.openC, c ∈ queueConns s.sh ∨ ∃ (t : Nat) (th : Thread), s.threads[t]? = some th ∧ c ∈ th.owned
  rel : ∀ (t : Nat) (th : Thread), s.threads[t]? = some th → th.relOK
  warn : ∀ (t : Nat) (th : Thread), s.threads[t]? = some th → warnClosed s.sh th
  recv : ∀ (t : Nat) (th : Thread), s.threads[t]? = some th → recvOK s.sh th
  cont : ∀ (t : Nat) (th : Thread), s.threads[t]? = some th → contOK th
  tag : ∀ (t : Nat) (th : Thread), s.threads[t]? = some th → tagOK t th

theorem inv_init (cfg : Cfg) (progs : List (List Op)) : Inv (init cfg progs) := by
  have hq : queueConns (initShared cfg) = [] := by
    simp [queueConns, initShared]
  have hth : ∀ (t : Nat) (th : Thread), (init cfg progs).threads[t]? = some th → ∃ p, th = initThread p := by
    intro t th h
    simp [init, List.getElem?_map] at h
    obtain ⟨p, -, rfl⟩ := h
    exact ⟨p, rfl⟩
  have how : ∀ p, (initThread p).owned = [] := by intro p; simp [Thread.owned_eq, initThread]
  constructor
  · show (queueConns (initShared cfg)).Nodup
    simp [hq]
  · show ∀ c ∈ queueConns (initShared cfg), _
    simp [hq]
  · intro t th h; obtain ⟨p, rfl⟩ := hth t th h; simp [how]
  · intro t th h; obtain ⟨p, rfl⟩ := hth t th h; simp [how]
  · intro t1 t2 th1 th2 h _ _; obtain ⟨p, rfl⟩ := hth t1 th1 h; simp [how]
  · simp [init, initShared]
  · simp [init, initShared]
  · intro t th h; obtain ⟨p, rfl⟩ := hth t th h; simp [Thread.relOK, initThread]
  · intro t th h; obtain ⟨p, rfl⟩ := hth t th h; simp [warnClosed, initThread]
  · intro t th h; obtain ⟨p, rfl⟩ := hth t th h; simp [recvOK, initThread]
  · intro t th h; obtain ⟨p, rfl⟩ := hth t th h; simp [contOK, initThread]
  · intro t th h; obtain ⟨p, rfl⟩ := hth t th h; simp [tagOK, initThread]

theorem inv_step {s s' : State} {t : Nat} (hi : Inv s) (h : step s t = some s') : Inv s' := by
  obtain ⟨th, sh', th', hget, hts, rfl⟩ := step_some h
  have hnd0 : (queueConns s.sh ++ th.owned).Nodup := by
    rw [List.nodup_append]
    refine ⟨hi.qnodup, hi.tnodup t th hget, ?_⟩
    intro a ha b hb e
    exact (hi.tlt t th hget b hb).2 (e ▸ ha)
  have hlt0 : ∀ c, c ∈ queueConns s.sh ∨ c ∈ th.owned → c < s.sh.nextId := by
    rintro c (hc | hc)
    · exact hi.qlt c hc
    · exact (hi.tlt t th hget c hc).1
  have hnd := tstep_nodup hts hnd0 hlt0
  have hprov := tstep_prov hts
  have hmono := tstep_nextId_le hts
  rw [List.nodup_append] at hnd
  have hlt' : ∀ c, c ∈ queueConns sh' ∨ c ∈ th'.owned → c < sh'.nextId := by
    intro c hc
    rcases hprov c hc with h1 | ⟨rfl, h2⟩
    · exact Nat.lt_of_lt_of_le (hlt0 c h1) hmono
    · exact h2
  -- an id held by another thread is neither queued nor held by `t` after the step
  have hother : ∀ t2 th2, s.threads[t2]? = some th2 → t2 ≠ t → ∀ c ∈ th2.owned,
      c ∉ queueConns sh' ∧ c ∉ th'.owned := by
    intro t2 th2 h2 hne c hc
    have h3 := hi.tlt t2 th2 h2 c hc
    have h4 := hi.disj t2 t th2 th h2 hget hne c hc
    constructor <;> intro hc' <;> rcases hprov c (by simp [hc']) with h1 | ⟨rfl, -⟩ <;> grind
  have hdisj : ∀ (t1 t2 : Nat) (th1 th2 : Thread), (s.threads.set t th')[t1]? = some th1 →
      (s.threads.set t th')[t2]? = some th2 → t1 ≠ t2 → ∀ c ∈ th1.owned, c ∉ th2.owned := by
    intro t1 t2 th1 th2 h1 h2 hne c hc
    rcases set_cases hget h1 with ⟨rfl, rfl⟩ | ⟨n1, g1⟩ <;>
      rcases set_cases hget h2 with ⟨rfl, rfl⟩ | ⟨n2, g2⟩
    · exact absurd rfl hne
    · intro hc2; exact (hother t2 th2 g2 n2 c hc2).2 hc
    · exact (hother t1 th1 g1 n1 c hc).2
    · exact hi.disj t1 t2 th1 th2 g1 g2 hne c hc
  constructor
  · exact hnd.1
  · intro c hc; exact hlt' c (Or.inl hc)
  · intro t2 th2 h2
    rcases set_cases hget h2 with ⟨rfl, rfl⟩ | ⟨n2, g2⟩
    · exact hnd.2.1
    · exact hi.tnodup t2 th2 g2
  · intro t2 th2 h2 c hc
    rcases set_cases hget h2 with ⟨rfl, rfl⟩ | ⟨n2, g2⟩
    · exact ⟨hlt' c (Or.inr hc), fun hq => hnd.2.2 c hq c hc rfl⟩
    · exact ⟨Nat.lt_of_lt_of_le (hi.tlt t2 th2 g2 c hc).1 hmono, (hother t2 th2 g2 n2 c hc).1⟩
  · exact hdisj
  · exact tstep_open_nodup hts hi.onodup
  · intro c hc
    have hkeep := tstep_open_keep hts (hi.rel t th hget) (hi.warn t th hget) c hc
    have hfin : c ∈ queueConns sh' ∨ c ∈ th'.owned →
        c ∈ queueConns sh' ∨ ∃ (t2 : Nat) (th2 : Thread), (s.threads.set t th')[t2]? = some th2 ∧ c ∈ th2.owned := by
      rintro (h1 | h1)
      · exact Or.inl h1
      · exact Or.inr ⟨t, th', by simp [getElem?_set_of_get hget], h1⟩
    rcases tstep_open_sub hts c hc with h1 | h1
    · rcases hi.osub c h1 with h2 | ⟨t2, th2, g2, h2⟩
      · exact hfin (hkeep (Or.inl h2))
      · by_cases e : t2 = t
        · subst e
          rw [hget] at g2; cases g2
          exact hfin (hkeep (Or.inr h2))
        · exact Or.inr ⟨t2, th2, by simp [getElem?_set_of_get hget, e, g2], h2⟩
    · exact hfin (Or.inr h1)
  · intro t2 th2 h2
    rcases set_cases hget h2 with ⟨rfl, rfl⟩ | ⟨n2, g2⟩
    · exact tstep_relOK hts (hi.rel _ _ hget)
    · exact hi.rel t2 th2 g2
  · intro t2 th2 h2
    rcases set_cases hget h2 with ⟨rfl, rfl⟩ | ⟨n2, g2⟩
    · exact tstep_warnClosed hts
    · intro c k hpc hc
      have hown : c ∈ th2.owned := by simp [Thread.mem_owned, hpc]
      rcases tstep_open_sub hts c hc with h1 | h1
      · exact hi.warn t2 th2 g2 c k hpc h1
      · exact (hother t2 th2 g2 n2 c hown).2 h1
  · intro t2 th2 h2
    rcases set_cases hget h2 with ⟨rfl, rfl⟩ | ⟨n2, g2⟩
    · exact tstep_recvOK hts
    · exact recvOK_frame hts (fun c hc => hi.disj t2 t th2 th g2 hget n2 c hc) (hi.recv t2 th2 g2)
  · intro t2 th2 h2
    rcases set_cases hget h2 with ⟨rfl, rfl⟩ | ⟨n2, g2⟩
    · exact tstep_contOK hts (hi.recv _ _ hget) (hi.cont _ _ hget)
    · exact hi.cont t2 th2 g2
  · intro t2 th2 h2
    rcases set_cases hget h2 with ⟨rfl, rfl⟩ | ⟨n2, g2⟩
    · exact tstep_tagOK hts (hi.tag _ _ hget)
    · exact hi.tag t2 th2 g2

theorem inv_runFrom {s : State} (h : Inv s) (σ : List Nat) : Inv (runFrom s σ) :=
  runFrom_induction (fun _ _ _ hs hst => inv_step hs hst) s σ h

theorem inv_run (cfg : Cfg) (progs : List (List Op)) (σ : List Nat) : Inv (run cfg progs σ) :=
  inv_runFrom (inv_init cfg progs) σ

/-! ## The counting invariant -/

/-- pool slots held by all threads together (checkouts in flight + streaming responses) -/
def leases (s : State) : Nat := (s.threads.map Thread.slots).sum

structure InvB (s : State) : Prop where
  qle : s.sh.queue.length ≤ s.cfg.maxsize
  slots : s.cfg.block = true → s.sh.queue.length + leases s ≤ s.cfg.maxsize
  nofull : s.cfg.block = true → ∀ (t : Nat) (th : Thread), s.threads[t]? = some th →
    ∀ i k, th.pc ≠ .fullClose i k ∧ th.pc ≠ .warn i k

theorem leases_init (cfg : Cfg) (progs : List (List Op)) : leases (init cfg progs) = 0 := by
  simp only [leases, init, List.map_map]
  induction progs with
  | nil => rfl
  | cons p ps ih => simpa [Thread.slots, initThread] using ih

theorem invB_init (cfg : Cfg) (progs : List (List Op)) : InvB (init cfg progs) := by
  refine ⟨by simp [init, initShared], ?_, ?_⟩
  · intro _; rw [leases_init]; simp [init, initShared]
  · intro _ t th h
    simp [init, List.getElem?_map] at h
    obtain ⟨p, -, rfl⟩ := h
    simp [initThread]

theorem invB_step {s s' : State} {t : Nat} (hi : InvB s) (h : step s t = some s') : InvB s' := by
  obtain ⟨th, sh', th', hget, hts, rfl⟩ := step_some h
  have hsum := sum_map_set Thread.slots th' hget
  have hle := le_sum_map Thread.slots hget
  refine ⟨tstep_queue_le hts hi.qle, ?_, ?_⟩
  · intro hb
    have h1 := tstep_slots_block hts hb
    have h2 := hi.slots hb
    simp only [leases] at h2 ⊢
    omega
  · intro hb t2 th2 h2 i k
    rcases set_cases hget h2 with ⟨rfl, rfl⟩ | ⟨n2, g2⟩
    · constructor
      · intro hpc
        have h3 := tstep_pc_fullClose hts hpc
        have h4 := hi.slots hb
        have h5 : 1 ≤ th.slots := by simp [Thread.slots, h3.1]; omega
        simp only [leases] at h4
        omega
      · intro hpc
        have h3 := tstep_pc_warn hts hpc
        have hb' : s.cfg.block = true := hb
        simp [hb'] at h3
    · exact hi.nofull hb t2 th2 g2 i k

theorem length_queueConns_le (sh : Shared) : (queueConns sh).length ≤ sh.queue.length :=
  List.length_filterMap_le _ _

/-- with `block=True` the number of open sockets is bounded by `maxsize` -/
theorem open_le {s : State} (hi : Inv s) (hb : InvB s) (hblock : s.cfg.block = true) :
    s.sh.openC.length ≤ s.cfg.maxsize := by
  have hsub : s.sh.openC ⊆ queueConns s.sh ++ s.threads.flatMap Thread.owned := by
    intro c hc
    rcases hi.osub c hc with h | ⟨t, th, hget, h⟩
    · exact List.mem_append_left _ h
    · exact List.mem_append_right _ (List.mem_flatMap.mpr ⟨th, List.mem_of_getElem? hget, h⟩)
  have h1 := hi.onodup.length_le_of_subset hsub
  have h2 := length_queueConns_le s.sh
  have h3 := length_flatMap_owned_le s.threads
  have h4 := hb.slots hblock
  simp only [List.length_append, leases] at h1 h4
  omega

def InvM (s : State) : Prop := s.cfg.block = true → s.sh.maxOpen ≤ s.cfg.maxsize

theorem invM_step {s s' : State} {t : Nat} (hm : InvM s) (hi' : Inv s') (hb' : InvB s')
    (h : step s t = some s') : InvM s' := by
  intro hblock
  have ho := open_le hi' hb' hblock
  obtain ⟨th, sh', th', hget, hts, rfl⟩ := step_some h
  have := hm hblock
  rcases tstep_maxOpen hts with h1 | h1 <;> simp only [h1] <;> simp at ho ⊢ <;> omega

/-! ## Results -/

/-- number of `close` ops in all thread programs (finished or not); constant along a run -/
def closeTotal (s : State) : Nat := (s.threads.map opCloses).sum

/-- the result classes an op can end with: normal completion, `ClosedPoolError`, `EmptyPoolError`,
the scripted `MaxRetryError` — never `FullPoolError`, an internal error or a foreign response -/
def GoodRes (p : Op × Res) : Prop :=
  p.2 = .ok ∨ p.2 = .closedPool ∨ p.2 = .emptyPool ∨ p.2 = .failed

structure InvR (s : State) : Prop where
  prog : ∀ (t : Nat) (th : Thread), s.threads[t]? = some th → progOK th
  swap : s.sh.poolRef = none → ∃ (t : Nat) (th : Thread), s.threads[t]? = some th ∧ swapper th
  good : ∀ (t : Nat) (th : Thread), s.threads[t]? = some th →
    ∀ p ∈ th.results, GoodRes p

theorem init_thread {cfg : Cfg} {progs : List (List Op)} {t : Nat} {th : Thread}
    (h : (init cfg progs).threads[t]? = some th) : ∃ p, progs[t]? = some p ∧ th = initThread p := by
  simp [init, List.getElem?_map] at h
  obtain ⟨p, hp, rfl⟩ := h
  exact ⟨p, hp, rfl⟩

theorem invR_init (cfg : Cfg) (progs : List (List Op)) : InvR (init cfg progs) := by
  refine ⟨?_, ?_, ?_⟩
  · intro t th h; obtain ⟨p, -, rfl⟩ := init_thread h; simp [progOK, initThread]
  · intro h; simp [init, initShared] at h
  · intro t th h; obtain ⟨p, -, rfl⟩ := init_thread h; simp [initThread]

theorem closeTotal_step {s s' : State} {t : Nat} (h : step s t = some s') :
    closeTotal s' = closeTotal s := by
  obtain ⟨th, sh', th', hget, hts, rfl⟩ := step_some h
  have h1 := sum_map_set opCloses th' hget
  have h2 := tstep_opCloses hts
  simp only [closeTotal]
  omega

theorem opCloses_pos_of_result {th : Thread} {r : Res} (h : (Op.close, r) ∈ th.results) :
    1 ≤ closesIn (th.results.map Prod.fst) :=
  List.countP_pos_iff.mpr ⟨.close, List.mem_map.mpr ⟨_, h, rfl⟩, by simp⟩

theorem opCloses_pos_of_kind {th : Thread} (hp : progOK th) (hk : th.pc.kind = some 2) :
    1 ≤ closesIn th.prog := by
  obtain ⟨op, rest, hprog, hop⟩ := hp 2 hk
  rw [Op.kind_eq_two] at hop
  subst hop
  simp [hprog, closesIn]

theorem swapper_opCloses {th : Thread} (hp : progOK th) (hs : swapper th) : 1 ≤ opCloses th := by
  rcases hs with hs | ⟨x, hs⟩ | ⟨r, hs⟩
  · have := opCloses_pos_of_kind hp (by simp [hs]); simp only [opCloses]; omega
  · have := opCloses_pos_of_kind hp (by simp [hs]); simp only [opCloses]; omega
  · have := opCloses_pos_of_result hs; simp only [opCloses]; omega

theorem invR_step {s s' : State} {t : Nat} (hi : Inv s) (hb : InvB s) (hr : InvR s)
    (h : step s t = some s') : InvR s' := by
  obtain ⟨th, sh', th', hget, hts, rfl⟩ := step_some h
  refine ⟨?_, ?_, ?_⟩
  · intro t2 th2 h2
    rcases set_cases hget h2 with ⟨rfl, rfl⟩ | ⟨n2, g2⟩
    · exact tstep_progOK hts (hr.prog _ _ hget)
    · exact hr.prog t2 th2 g2
  · intro hnone
    have hnone : sh'.poolRef = none := hnone
    by_cases hold : s.sh.poolRef = none
    · obtain ⟨t0, th0, g0, hs0⟩ := hr.swap hold
      by_cases e : t0 = t
      · subst e
        rw [hget] at g0; cases g0
        exact ⟨t0, th', by simp [getElem?_set_of_get hget],
          tstep_swapper_keep hts (hr.prog _ _ hget) hs0⟩
      · exact ⟨t0, th0, by simp [getElem?_set_of_get hget, e, g0], hs0⟩
    · exact ⟨t, th', by simp [getElem?_set_of_get hget], tstep_swapper_new hts hold hnone⟩
  · intro t2 th2 h2 p hp
    rcases set_cases hget h2 with ⟨rfl, rfl⟩ | ⟨n2, g2⟩
    · rcases tstep_results_mem hts (hi.recv _ _ hget) (hi.cont _ _ hget) p hp with
        hold | h1 | h1 | h1 | h1 | ⟨-, hblock, i, k, hpc⟩
      · exact hr.good _ _ hget p hold
      · exact Or.inl h1
      · exact Or.inr (Or.inl h1)
      · exact Or.inr (Or.inr (Or.inl h1))
      · exact Or.inr (Or.inr (Or.inr h1))
      · exact absurd hpc (hb.nofull hblock _ _ hget i k).1
    · exact hr.good t2 th2 g2 p hp

/-- what a finished op's result says about the op and the configuration; `n` = number of `close`
ops in the programs -/
def ScriptedG (cfg : Cfg) (n : Nat) (p : Op × Res) : Prop :=
  (p.2 = .closedPool → 1 ≤ n ∧ p.1.kind = 0) ∧
  (p.2 = .emptyPool → cfg.block = true ∧ cfg.timeout = true ∧ p.1.kind = 0) ∧
  (p.2 = .failed → ∃ f st, p.1 = .req f .fail st) ∧
  (p.2 = .ok → ∀ f l st, p.1 = .req f l st → l ≠ .fail)

structure InvS (s : State) : Prop where
  last : ∀ (t : Nat) (th : Thread), s.threads[t]? = some th → lastOK th
  scr : ∀ (t : Nat) (th : Thread), s.threads[t]? = some th →
    ∀ p ∈ th.results, ScriptedG s.cfg (closeTotal s) p

theorem invS_init (cfg : Cfg) (progs : List (List Op)) : InvS (init cfg progs) := by
  refine ⟨?_, ?_⟩
  · intro t th h; obtain ⟨p, -, rfl⟩ := init_thread h; simp [lastOK, initThread]
  · intro t th h; obtain ⟨p, -, rfl⟩ := init_thread h; simp [initThread]

theorem invS_step {s s' : State} {t : Nat} (hi : Inv s) (hr : InvR s) (hs : InvS s)
    (h : step s t = some s') : InvS s' := by
  have hct := closeTotal_step h
  obtain ⟨th, sh', th', hget, hts, rfl⟩ := step_some h
  refine ⟨?_, ?_⟩
  · intro t2 th2 h2
    rcases set_cases hget h2 with ⟨rfl, rfl⟩ | ⟨n2, g2⟩
    · exact tstep_lastOK hts (hs.last _ _ hget)
    · exact hs.last t2 th2 g2
  · intro t2 th2 h2 p hp
    rw [hct]
    show ScriptedG s.cfg (closeTotal s) p
    rcases set_cases hget h2 with ⟨rfl, rfl⟩ | ⟨n2, g2⟩
    · rcases tstep_results_scripted hts (hi.recv _ _ hget) (hi.cont _ _ hget) (hr.prog _ _ hget)
        (hs.last _ _ hget) p hp with hold | ⟨h1, h2, h3, h4⟩
      · exact hs.scr _ _ hget p hold
      · refine ⟨?_, h2, h3, h4⟩
        intro hc
        obtain ⟨hnone, hk⟩ := h1 hc
        obtain ⟨t0, th0, g0, hs0⟩ := hr.swap hnone
        have h5 := swapper_opCloses (hr.prog _ _ g0) hs0
        have h6 := le_sum_map opCloses g0
        exact ⟨by simp only [closeTotal]; omega, hk⟩
    · exact hs.scr t2 th2 g2 p hp

/-- everything that holds in every reachable configuration -/
structure InvAll (s : State) : Prop where
  ids : Inv s
  cnt : InvB s
  mx : InvM s
  res : InvR s
  scr : InvS s

theorem invAll_init (cfg : Cfg) (progs : List (List Op)) : InvAll (init cfg progs) :=
  ⟨inv_init cfg progs, invB_init cfg progs, fun _ => by simp [init, initShared], invR_init cfg progs,
    invS_init cfg progs⟩

theorem invAll_step {s s' : State} {t : Nat} (hi : InvAll s) (h : step s t = some s') :
    InvAll s' :=
  have h1 := inv_step hi.ids h
  have h2 := invB_step hi.cnt h
  ⟨h1, h2, invM_step hi.mx h1 h2 h, invR_step hi.ids hi.cnt hi.res h,
    invS_step hi.ids hi.res hi.scr h⟩

theorem invAll_runFrom {s : State} (h : InvAll s) (σ : List Nat) : InvAll (runFrom s σ) :=
  runFrom_induction (fun _ _ _ hs hst => invAll_step hs hst) s σ h

theorem invAll_run (cfg : Cfg) (progs : List (List Op)) (σ : List Nat) :
    InvAll (run cfg progs σ) :=
  invAll_runFrom (invAll_init cfg progs) σ

theorem closeTotal_runFrom (s : State) (σ : List Nat) : closeTotal (runFrom s σ) = closeTotal s :=
  runFrom_induction (P := fun x => closeTotal x = closeTotal s)
    (fun _ _ _ hs hst => (closeTotal_step hst).trans hs) s σ rfl

/-! ## Runs without `close`: slot conservation and progress -/

/-- no thread program contains a `close` op -/
def NoClose (progs : List (List Op)) : Prop := ∀ p ∈ progs, Op.close ∉ p

/-- every thread releases each streaming response before its next request and before it ends,
and never calls `close` (`OneLeaseAtATime` ∧ `NoClose` of DESIGN.md) -/
def LeaseDiscipline (progs : List (List Op)) : Prop := ∀ p ∈ progs, disc false p = true

theorem LeaseDiscipline.noClose {progs : List (List Op)} (h : LeaseDiscipline progs) :
    NoClose progs := fun p hp => disc_no_close (h p hp)

structure InvNC (s : State) : Prop where
  pool : s.sh.poolRef ≠ none
  nc : ∀ (t : Nat) (th : Thread), s.threads[t]? = some th → th.noClose
  nodiscard : s.cfg.block = true → ∀ (t : Nat) (th : Thread), s.threads[t]? = some th →
    ∀ i k, th.pc ≠ .discard i k
  cons : s.cfg.block = true → s.sh.queue.length + leases s = s.cfg.maxsize

theorem invNC_init (cfg : Cfg) {progs : List (List Op)} (h : NoClose progs) :
    InvNC (init cfg progs) := by
  refine ⟨by simp [init, initShared], ?_, ?_, ?_⟩
  · intro t th g
    obtain ⟨p, hp, rfl⟩ := init_thread g
    exact ⟨h p (List.mem_of_getElem? hp), by simp [initThread]⟩
  · intro _ t th g
    obtain ⟨p, hp, rfl⟩ := init_thread g
    simp [initThread]
  · intro _; rw [leases_init]; simp [init, initShared]

theorem invNC_step {s s' : State} {t : Nat} (hb : InvB s) (hn : InvNC s)
    (h : step s t = some s') : InvNC s' := by
  obtain ⟨th, sh', th', hget, hts, rfl⟩ := step_some h
  have h1 := tstep_noClose hts (hn.nc t th hget)
  refine ⟨?_, ?_, ?_, ?_⟩
  · show sh'.poolRef ≠ none
    rw [h1.2]; exact hn.pool
  · intro t2 th2 h2
    rcases set_cases hget h2 with ⟨rfl, rfl⟩ | ⟨n2, g2⟩
    · exact h1.1
    · exact hn.nc t2 th2 g2
  · intro hblock t2 th2 h2
    have hblock : s.cfg.block = true := hblock
    rcases set_cases hget h2 with ⟨rfl, rfl⟩ | ⟨n2, g2⟩
    · exact (tstep_slots_eq hts hblock hn.pool (hn.nc _ _ hget) (fun i k =>
        ⟨(hb.nofull hblock _ _ hget i k).1, (hb.nofull hblock _ _ hget i k).2,
          hn.nodiscard hblock _ _ hget i k⟩)).2
    · exact hn.nodiscard hblock t2 th2 g2
  · intro hblock
    have hblock : s.cfg.block = true := hblock
    have h2 := (tstep_slots_eq hts hblock hn.pool (hn.nc _ _ hget) (fun i k =>
        ⟨(hb.nofull hblock _ _ hget i k).1, (hb.nofull hblock _ _ hget i k).2,
          hn.nodiscard hblock _ _ hget i k⟩)).1
    have h3 := hn.cons hblock
    have h4 := sum_map_set Thread.slots th' hget
    have h5 := le_sum_map Thread.slots hget
    simp only [leases] at h3 ⊢
    show sh'.queue.length + _ = s.cfg.maxsize
    omega

/-- every thread follows the lease discipline -/
def InvD (s : State) : Prop := ∀ (t : Nat) (th : Thread), s.threads[t]? = some th → Disc th

theorem invD_init (cfg : Cfg) {progs : List (List Op)} (h : LeaseDiscipline progs) :
    InvD (init cfg progs) := by
  intro t th g
  obtain ⟨p, hp, rfl⟩ := init_thread g
  have := h p (List.mem_of_getElem? hp)
  simp [Disc, initThread, this]

theorem invD_step {s s' : State} {t : Nat} (hb : InvB s) (hn : InvNC s) (hd : InvD s)
    (h : step s t = some s') : InvD s' := by
  obtain ⟨th, sh', th', hget, hts, rfl⟩ := step_some h
  intro t2 th2 h2
  rcases set_cases hget h2 with ⟨rfl, rfl⟩ | ⟨n2, g2⟩
  · exact tstep_disc hts hn.pool (fun hblock i k => (hb.nofull hblock _ _ hget i k).1) (hd _ _ hget)
  · exact hd t2 th2 g2

/-- invariants of runs whose threads follow the lease discipline -/
structure InvP (s : State) : Prop where
  all : InvAll s
  nc : InvNC s
  d : InvD s

theorem invP_step {s s' : State} {t : Nat} (hs : InvP s) (hst : step s t = some s') : InvP s' :=
  ⟨invAll_step hs.all hst, invNC_step hs.all.cnt hs.nc hst, invD_step hs.all.cnt hs.nc hs.d hst⟩

theorem invP_run (cfg : Cfg) {progs : List (List Op)} (h : LeaseDiscipline progs) (σ : List Nat) :
    InvP (run cfg progs σ) :=
  runFrom_induction (P := InvP) (fun _ _ _ hs hst => invP_step hs hst) _ σ
    ⟨invAll_init cfg progs, invNC_init cfg h.noClose, invD_init cfg h⟩

theorem invNC_run (cfg : Cfg) {progs : List (List Op)} (h : NoClose progs) (σ : List Nat) :
    InvNC (run cfg progs σ) := by
  have : InvAll (run cfg progs σ) ∧ InvNC (run cfg progs σ) := by
    refine runFrom_induction (P := fun s => InvAll s ∧ InvNC s) ?_ _ σ
      ⟨invAll_init cfg progs, invNC_init cfg h⟩
    intro s t s' hs hst
    exact ⟨invAll_step hs.1 hst, invNC_step hs.1.cnt hs.2 hst⟩
  exact this.2

theorem step_none_tstep {s : State} {t : Nat} {th : Thread} (hget : s.threads[t]? = some th)
    (h : step s t = none) : tstep s.cfg t s.sh th = none := by
  unfold step at h
  rw [hget] at h
  simp only at h
  split at h
  · assumption
  · simp at h

theorem sum_map_eq_zero {α} (f : α → Nat) {l : List α} (h : ∀ a ∈ l, f a = 0) :
    (l.map f).sum = 0 := by
  induction l with
  | nil => rfl
  | cons a l ih =>
    simp only [List.map_cons, List.sum_cons, h a (by simp), ih (fun b hb => h b (by simp [hb]))]

/-- a thread that is not enabled is finished, or waits in a blocking `get()` without timeout on
the empty queue -/
theorem not_enabled {s : State} {t : Nat} {th : Thread} (hget : s.threads[t]? = some th)
    (h : enabled s t = false) :
    th.done = true ∨ (∃ f l st, th.pc = .getQ f l st) ∧ s.sh.queue = [] ∧
      s.cfg.block = true ∧ s.cfg.timeout = false := by
  apply tstep_none (tid := t)
  apply step_none_tstep hget
  simpa [enabled] using h

/-- no deadlock: under the lease discipline, with `maxsize ≥ 1`, a configuration in which not
every thread is finished has an enabled thread -/
theorem progress {s : State} (hp : InvP s) (hN : 0 < s.cfg.maxsize) (hnd : allDone s = false) :
    ∃ t, enabled s t = true := by
  apply Classical.byContradiction
  intro hno
  have hno : ∀ t, enabled s t = false := by
    intro t
    cases he : enabled s t with
    | false => rfl
    | true => exact absurd ⟨t, he⟩ hno
  have hkey : ∀ (t : Nat) (th : Thread), s.threads[t]? = some th → th.done = true ∨
      (∃ f l st, th.pc = .getQ f l st) ∧ s.sh.queue = [] ∧ s.cfg.block = true ∧
        s.cfg.timeout = false :=
    fun t th g => not_enabled g (hno t)
  -- some thread is not finished, hence blocked
  have hex : ∃ th ∈ s.threads, th.done = false := by
    simpa [allDone] using hnd
  obtain ⟨th0, hmem0, hnd0⟩ := hex
  obtain ⟨t0, g0⟩ := List.getElem?_of_mem hmem0
  rcases hkey t0 th0 g0 with h | ⟨-, hq, hblock, -⟩
  · simp [h] at hnd0
  -- nobody holds a slot
  have hzero : leases s = 0 := by
    apply sum_map_eq_zero
    intro th hmem
    obtain ⟨t, g⟩ := List.getElem?_of_mem hmem
    rcases hkey t th g with h | ⟨⟨f, l, st, hpc⟩, -⟩
    · exact (hp.d t th g).slots_done h
    · exact (hp.d t th g).slots_getQ hpc
  have := hp.nc.cons hblock
  simp [hq, hzero] at this
  omega

/-! ## Termination -/

/-- termination measure of a configuration: `2 * qsize` + the steps the threads still have to do -/
def work (s : State) : Nat := 2 * s.sh.queue.length + (s.threads.map Thread.cost).sum

/-- every step of every thread strictly decreases `work` (no livelock, also with `close`) -/
theorem work_step {s s' : State} {t : Nat} (h : step s t = some s') : work s' < work s := by
  obtain ⟨th, sh', th', hget, hts, rfl⟩ := step_some h
  have h1 := tstep_cost hts
  have h2 := sum_map_set Thread.cost th' hget
  have h3 := le_sum_map Thread.cost hget
  simp only [work]
  omega

theorem step_cfg {s s' : State} {t : Nat} (h : step s t = some s') : s'.cfg = s.cfg := by
  obtain ⟨th, sh', th', -, -, rfl⟩ := step_some h
  rfl

/-- under the lease discipline every reachable configuration can be run to completion, and every
way of doing so (always choosing some enabled thread) is finite -/
theorem exists_completion (n : Nat) : ∀ s : State, InvP s → 0 < s.cfg.maxsize → work s ≤ n →
    ∃ σ', allDone (runFrom s σ') = true := by
  induction n with
  | zero =>
    intro s hp hN hw
    cases hd : allDone s with
    | true => exact ⟨[], hd⟩
    | false =>
      obtain ⟨t, ht⟩ := progress hp hN hd
      simp only [enabled, Option.isSome_iff_exists] at ht
      obtain ⟨s', hs'⟩ := ht
      have := work_step hs'
      omega
  | succ n ih =>
    intro s hp hN hw
    cases hd : allDone s with
    | true => exact ⟨[], hd⟩
    | false =>
      obtain ⟨t, ht⟩ := progress hp hN hd
      simp only [enabled, Option.isSome_iff_exists] at ht
      obtain ⟨s', hs'⟩ := ht
      have h1 := work_step hs'
      obtain ⟨σ', hσ'⟩ := ih s' (invP_step hp hs') (by rw [step_cfg hs']; exact hN) (by omega)
      exact ⟨t :: σ', by rw [runFrom_cons, hs']; exact hσ'⟩

/-! ## Results follow the program -/

theorem script_step {s s' : State} {t : Nat} (h : step s t = some s') :
    s'.threads.map Thread.script = s.threads.map Thread.script := by
  obtain ⟨th, sh', th', hget, hts, rfl⟩ := step_some h
  have h1 := tstep_script hts
  apply List.ext_getElem?
  intro i
  simp only [List.getElem?_map, getElem?_set_of_get hget]
  by_cases e : i = t
  · subst e; simp [hget, h1]
  · simp [e]

theorem script_run (cfg : Cfg) (progs : List (List Op)) (σ : List Nat) :
    (run cfg progs σ).threads.map Thread.script = progs := by
  refine runFrom_induction (P := fun s => s.threads.map Thread.script = progs) ?_ _ σ ?_
  · intro s t s' hs hst
    rw [script_step hst]; exact hs
  · simp only [init, List.map_map]
    conv => rhs; rw [← List.map_id progs]
    apply List.map_congr_left
    intro p _
    simp [Thread.script, initThread]

/-! ## Few disciplined threads never find the queue full (any `block`, with `close`) -/

theorem sum_map_le_length {α} (f : α → Nat) {l : List α} (h : ∀ a ∈ l, f a ≤ 1) :
    (l.map f).sum ≤ l.length := by
  induction l with
  | nil => simp
  | cons a l ih =>
    have h1 := h a (by simp)
    have h2 := ih (fun b hb => h b (by simp [hb]))
    simp only [List.map_cons, List.sum_cons, List.length_cons]; omega

/-- at most `maxsize` threads, each holding at most one lease at a time (`close` allowed) -/
def FewThreads (cfg : Cfg) (progs : List (List Op)) : Prop :=
  progs.length ≤ cfg.maxsize ∧ ∀ p ∈ progs, disc2 false p = true

structure InvQ (s : State) : Prop where
  len : s.threads.length ≤ s.cfg.maxsize
  d : ∀ (t : Nat) (th : Thread), s.threads[t]? = some th → Disc2 th
  nofull : ∀ (t : Nat) (th : Thread), s.threads[t]? = some th →
    ∀ i k, th.pc ≠ .fullClose i k ∧ th.pc ≠ .warn i k
  cnt : s.sh.queue.length + (s.threads.map Thread.slots2).sum ≤ s.cfg.maxsize

theorem invQ_init {cfg : Cfg} {progs : List (List Op)} (h : FewThreads cfg progs) :
    InvQ (init cfg progs) := by
  refine ⟨by simpa [init] using h.1, ?_, ?_, ?_⟩
  · intro t th g
    obtain ⟨p, hp, rfl⟩ := init_thread g
    have := h.2 p (List.mem_of_getElem? hp)
    simp [Disc2, initThread, this]
  · intro t th g
    obtain ⟨p, hp, rfl⟩ := init_thread g
    simp [initThread]
  · have : ((init cfg progs).threads.map Thread.slots2).sum = 0 := by
      apply sum_map_eq_zero
      intro th hth
      obtain ⟨t, g⟩ := List.getElem?_of_mem hth
      obtain ⟨p, hp, rfl⟩ := init_thread g
      simp [Thread.slots2, initThread]
    rw [this]; simp [init, initShared]

theorem invQ_step {s s' : State} {t : Nat} (hq : InvQ s)
    (h : step s t = some s') : InvQ s' := by
  obtain ⟨th, sh', th', hget, hts, rfl⟩ := step_some h
  have hd' : ∀ (t2 : Nat) (th2 : Thread), (s.threads.set t th')[t2]? = some th2 → Disc2 th2 := by
    intro t2 th2 h2
    rcases set_cases hget h2 with ⟨rfl, rfl⟩ | ⟨n2, g2⟩
    · exact tstep_disc2 hts (hq.nofull _ _ hget) (hq.d _ _ hget)
    · exact hq.d t2 th2 g2
  have hsum := sum_map_set Thread.slots2 th' hget
  have hle := le_sum_map Thread.slots2 hget
  refine ⟨by simpa using hq.len, hd', ?_, ?_⟩
  · intro t2 th2 h2 i k
    rcases set_cases hget h2 with ⟨rfl, rfl⟩ | ⟨n2, g2⟩
    · constructor
      · intro hpc
        have h3 := tstep_pc_fullClose hts hpc
        have h4 := hq.cnt
        have h5 : 1 ≤ th.slots2 := by simp [Thread.slots2, h3.1]; omega
        omega
      · intro hpc
        exact (hq.nofull _ _ hget i k).1 (tstep_pc_warn hts hpc).1
    · exact hq.nofull t2 th2 g2 i k
  · show sh'.queue.length + ((s.threads.set t th').map Thread.slots2).sum ≤ s.cfg.maxsize
    rcases tstep_slots2 hts with h1 | ⟨-, h1⟩
    · have := hq.cnt; omega
    · have h2 : ((s.threads.set t th').map Thread.slots2).sum ≤ (s.threads.set t th').length :=
        sum_map_le_length _ (fun a ha => by
          obtain ⟨t2, g2⟩ := List.getElem?_of_mem ha
          exact (hd' t2 a g2).slots2_le)
      have := hq.len
      simp only [List.length_set] at h2
      rw [h1, List.length_nil]; omega

theorem invQ_run {cfg : Cfg} {progs : List (List Op)} (h : FewThreads cfg progs) (σ : List Nat) :
    InvQ (run cfg progs σ) :=
  runFrom_induction (fun _ _ _ hs hst => invQ_step hs hst) _ σ (invQ_init h)

/-! ## Reading the invariants -/

theorem mem_holders {s : State} {c : ConnId} {t : Nat} :
    t ∈ holders s c ↔ ∃ th, s.threads[t]? = some th ∧ c ∈ th.owned := by
  simp only [holders, List.mem_filter, List.mem_range]
  constructor
  · rintro ⟨hlt, h⟩
    split at h
    · rename_i th hth
      exact ⟨th, hth, by simpa [holds] using h⟩
    · simp at h
  · rintro ⟨th, hth, hc⟩
    refine ⟨(List.getElem?_eq_some_iff.mp hth).1, ?_⟩
    simp [hth, holds, hc]

theorem holders_nodup (s : State) (c : ConnId) : (holders s c).Nodup :=
  List.Nodup.sublist List.filter_sublist List.nodup_range

theorem length_le_one_of_all_eq {α} {l : List α} (hn : l.Nodup) (h : ∀ a ∈ l, ∀ b ∈ l, a = b) :
    l.length ≤ 1 := by
  match l, hn, h with
  | [], _, _ => simp
  | [_], _, _ => simp
  | a :: b :: l, hn, h =>
    have := h a (by simp) b (by simp)
    subst this
    simp at hn

theorem closesIn_initThread (p : List Op) : opCloses (initThread p) = closesIn p := by
  simp [opCloses, initThread, closesIn]

theorem closeTotal_init (cfg : Cfg) (progs : List (List Op)) :
    closeTotal (init cfg progs) = (progs.map closesIn).sum := by
  simp only [closeTotal, init, List.map_map]
  congr 1
  apply List.map_congr_left
  intro p _
  exact closesIn_initThread p

end U3.PoolConc
