import U3.Model.PoolKey
/-! Helper lemmas for `U3.Props.C18` (core only). -/
namespace U3.PoolKey
open U3

/-! ### dict primitives through `get` -/

@[simp] theorem get_nil (k : Str) : get [] k = none := rfl

theorem get_cons (p : Str × Val) (c : Ctx) (k : Str) :
    get (p :: c) k = if k = p.1 then some p.2 else get c k := rfl

theorem mem_keys {c : Ctx} {k : Str} : k ∈ keys c ↔ has c k = true := by
  induction c with
  | nil => simp [keys, has]
  | cons p t ih =>
    simp only [keys, List.map_cons, List.mem_cons, has, get_cons] at *
    by_cases h : k = p.1 <;> simp [h, ih]

theorem get_eq_none {c : Ctx} {k : Str} : get c k = none ↔ k ∉ keys c := by
  rw [mem_keys, has]; cases get c k <;> simp

theorem get_isSome {c : Ctx} {k : Str} : (get c k).isSome = true ↔ k ∈ keys c := by
  rw [mem_keys, has]

theorem get_append (a b : Ctx) (k : Str) :
    get (a ++ b) k = match get a k with | some v => some v | none => get b k := by
  induction a with
  | nil => simp
  | cons p t ih =>
    simp only [List.cons_append, get_cons]
    by_cases h : k = p.1 <;> simp [h, ih]

theorem get_map_set (c : Ctx) (k x : Str) (v : Val) :
    get (c.map (fun p => if p.1 = k then (p.1, v) else p)) x =
      if x = k then (if has c k then some v else none) else get c x := by
  induction c with
  | nil => simp [has]
  | cons p t ih =>
    simp only [List.map_cons, get_cons, has] at *
    grind

theorem get_set (c : Ctx) (k x : Str) (v : Val) :
    get (set c k v) x = if x = k then some v else get c x := by
  unfold set
  by_cases h : has c k = true
  · simp only [h, if_true, get_map_set]
  · simp only [h, Bool.false_eq_true, if_false, get_append]
    have hk : get c k = none := by
      simp only [has] at h; cases hg : get c k <;> simp_all
    by_cases hx : x = k
    · subst hx; simp [hk, get_cons]
    · cases hg : get c x <;> simp [hx, get_cons]

theorem get_erase (c : Ctx) (k x : Str) :
    get (erase c k) x = if x = k then none else get c x := by
  induction c with
  | nil => simp [erase]
  | cons p t ih =>
    simp only [erase] at ih
    simp only [erase, List.filter_cons]
    by_cases hp : p.1 = k
    · simp only [hp, ne_eq, not_true_eq_false, decide_false, Bool.false_eq_true, if_false, ih, get_cons]
      by_cases hx : x = k <;> simp [hx]
    · simp only [ne_eq, hp, not_false_eq_true, decide_true, if_true, get_cons, ih]
      by_cases hx : x = k
      · have : x ≠ p.1 := by rw [hx]; exact fun e => hp e.symm
        simp [hx, this]
        intro e; exact absurd e.symm hp
      · simp [hx]

theorem has_set (c : Ctx) (k x : Str) (v : Val) :
    has (set c k v) x = (decide (x = k) || has c x) := by
  simp only [has, get_set]; by_cases h : x = k <;> simp [h]

theorem keys_set_of_has {c : Ctx} {k : Str} (v : Val) (h : has c k = true) :
    keys (set c k v) = keys c := by
  unfold set keys
  simp only [h, if_true, List.map_map]
  apply List.map_congr_left
  intro p _
  by_cases hp : p.1 = k <;> simp [hp]

/-! ### `toSet` has exactly the members of its argument -/

theorem strCmp_eq : ∀ {a b : Str}, strCmp a b = .eq → a = b
  | [], [], _ => rfl
  | [], _ :: _, h => by simp [strCmp] at h
  | _ :: _, [], h => by simp [strCmp] at h
  | a :: as, b :: bs, h => by
    simp only [strCmp] at h
    by_cases h1 : a < b
    · simp [h1] at h
    · by_cases h2 : b < a
      · simp [h1, h2] at h
      · simp only [h1, h2, if_false] at h
        have : a = b := by omega
        rw [this, strCmp_eq h]

theorem pairCmp_eq {p q : Str × Str} (h : pairCmp p q = .eq) : p = q := by
  unfold pairCmp at h
  cases h1 : strCmp p.1 q.1 <;> simp [h1] at h
  exact Prod.ext (strCmp_eq h1) (strCmp_eq h)

theorem mem_insertSet (p x : Str × Str) (l : List (Str × Str)) :
    x ∈ insertSet p l ↔ x = p ∨ x ∈ l := by
  induction l with
  | nil => simp [insertSet]
  | cons q t ih =>
    simp only [insertSet]
    cases h : pairCmp p q
    · simp
    · have := pairCmp_eq h; subst this; simp
    · simp only [List.mem_cons, ih]
      constructor
      · rintro (h | h | h) <;> simp [h]
      · rintro (h | h | h) <;> simp [h]

theorem mem_toSet (x : Str × Str) (d : List (Str × Str)) : x ∈ toSet d ↔ x ∈ d := by
  induction d with
  | nil => simp [toSet]
  | cons p t ih =>
    simp only [toSet, List.foldr_cons] at *
    rw [mem_insertSet, ih]; simp

/-! ### the pre-processing half of the normaliser -/

def lowerV : Val → Val
  | .str s => .str (lower s)
  | v => v
def freezeV : Val → Val
  | .dict d => .dict (toSet d)
  | v => v
def sockV (v : Val) : Val :=
  match asSeq v with
  | some l => .list l
  | none => v

def FrozenOk (o : Option Val) : Prop := o = none ∨ o = some .none ∨ ∃ d, o = some (.dict d)
def SockOk (o : Option Val) : Prop := o = none ∨ o = some .none ∨ ∃ v l, o = some v ∧ asSeq v = some l

theorem has_of_get {c : Ctx} {k : Str} {v : Val} (h : get c k = some v) : has c k = true := by
  simp [has, h]

theorem lowerKey_spec {c c' : Ctx} {k : Str} (h : lowerKey c k = .ok c') :
    (∃ s, get c k = some (.str s)) ∧ keys c' = keys c ∧
      ∀ x, get c' x = if x = k then (get c k).map lowerV else get c x := by
  unfold lowerKey at h
  split at h
  · cases h
  · rename_i s hs
    cases h
    refine ⟨⟨s, hs⟩, keys_set_of_has _ (has_of_get hs), fun x => ?_⟩
    rw [get_set, hs]; rfl
  · cases h

theorem freezeKey_spec {c c' : Ctx} {k : Str} (h : freezeKey c k = .ok c') :
    FrozenOk (get c k) ∧ keys c' = keys c ∧
      ∀ x, get c' x = if x = k then (get c k).map freezeV else get c x := by
  unfold freezeKey at h
  split at h
  · rename_i hs; cases h
    refine ⟨Or.inl hs, rfl, fun x => ?_⟩
    by_cases hx : x = k <;> simp [hx, hs]
  · rename_i hs; cases h
    refine ⟨Or.inr (Or.inl hs), rfl, fun x => ?_⟩
    by_cases hx : x = k <;> simp [hx, hs, freezeV]
  · rename_i d hs; cases h
    refine ⟨Or.inr (Or.inr ⟨d, hs⟩), keys_set_of_has _ (has_of_get hs), fun x => ?_⟩
    rw [get_set, hs]; rfl
  · cases h

theorem freezeSock_spec {c c' : Ctx} (h : freezeSockOpts c = .ok c') :
    SockOk (get c kSocketOptions) ∧ keys c' = keys c ∧
      ∀ x, get c' x = if x = kSocketOptions then (get c kSocketOptions).map sockV else get c x := by
  unfold freezeSockOpts at h
  split at h
  · rename_i hs; cases h
    refine ⟨Or.inl hs, rfl, fun x => ?_⟩
    by_cases hx : x = kSocketOptions <;> simp [hx, hs]
  · rename_i hs; cases h
    refine ⟨Or.inr (Or.inl hs), rfl, fun x => ?_⟩
    by_cases hx : x = kSocketOptions <;> simp [hx, hs, sockV, asSeq]
  · rename_i v _ hs
    split at h
    · rename_i l hl; cases h
      refine ⟨Or.inr (Or.inr ⟨v, l, hs, hl⟩), keys_set_of_has _ (has_of_get hs), fun x => ?_⟩
      rw [get_set, hs]; simp [sockV, hl]
    · cases h

theorem kne_sh : kScheme ≠ kHost := by decide
theorem kne_s1 : kScheme ≠ kHeaders := by decide
theorem kne_s2 : kScheme ≠ kProxyHeaders := by decide
theorem kne_s3 : kScheme ≠ kSocksOptions := by decide
theorem kne_s4 : kScheme ≠ kSocketOptions := by decide
theorem kne_h1 : kHost ≠ kHeaders := by decide
theorem kne_h2 : kHost ≠ kProxyHeaders := by decide
theorem kne_h3 : kHost ≠ kSocksOptions := by decide
theorem kne_h4 : kHost ≠ kSocketOptions := by decide
theorem kne_12 : kHeaders ≠ kProxyHeaders := by decide
theorem kne_13 : kHeaders ≠ kSocksOptions := by decide
theorem kne_14 : kHeaders ≠ kSocketOptions := by decide
theorem kne_23 : kProxyHeaders ≠ kSocksOptions := by decide
theorem kne_24 : kProxyHeaders ≠ kSocketOptions := by decide
theorem kne_34 : kSocksOptions ≠ kSocketOptions := by decide

/-- the value the normaliser stores for keyword `x`, from the value the context has -/
def W (x : Str) (o : Option Val) : Option Val :=
  if x = kScheme ∨ x = kHost then o.map lowerV
  else if x = kHeaders ∨ x = kProxyHeaders ∨ x = kSocksOptions then o.map freezeV
  else if x = kSocketOptions then o.map sockV
  else o

structure Good (c : Ctx) : Prop where
  scheme : ∃ s, get c kScheme = some (.str s)
  host : ∃ s, get c kHost = some (.str s)
  headers : FrozenOk (get c kHeaders)
  proxyHeaders : FrozenOk (get c kProxyHeaders)
  socksOptions : FrozenOk (get c kSocksOptions)
  socketOptions : SockOk (get c kSocketOptions)

theorem pre_spec {c0 c6 : Ctx} (h : pre c0 = .ok c6) :
    keys c6 = keys c0 ∧ (∀ x, get c6 x = W x (get c0 x)) ∧ Good c0 := by
  unfold pre at h
  split at h; · cases h
  rename_i c1 h1
  split at h; · cases h
  rename_i c2 h2
  split at h; · cases h
  rename_i c3 h3
  split at h; · cases h
  rename_i c4 h4
  split at h; · cases h
  rename_i c5 h5
  obtain ⟨g1, k1, e1⟩ := lowerKey_spec h1
  obtain ⟨g2, k2, e2⟩ := lowerKey_spec h2
  obtain ⟨g3, k3, e3⟩ := freezeKey_spec h3
  obtain ⟨g4, k4, e4⟩ := freezeKey_spec h4
  obtain ⟨g5, k5, e5⟩ := freezeKey_spec h5
  obtain ⟨g6, k6, e6⟩ := freezeSock_spec h
  have n := And.intro kne_sh (And.intro kne_s1 (And.intro kne_s2 (And.intro kne_s3 kne_s4)))
  have n' := And.intro kne_h1 (And.intro kne_h2 (And.intro kne_h3 kne_h4))
  have n'' := And.intro kne_12 (And.intro kne_13 (And.intro kne_14 (And.intro kne_23 (And.intro kne_24 kne_34))))
  refine ⟨by rw [k6, k5, k4, k3, k2, k1], fun x => ?_, ⟨g1, ?_, ?_, ?_, ?_, ?_⟩⟩
  · rw [e6, e5, e4, e3, e2, e1, e5, e4, e3, e2, e1]
    unfold W
    grind
  · simpa [e1, kne_sh.symm] using g2
  · simpa [e2, e1, kne_s1.symm, kne_h1.symm] using g3
  · simpa [e3, e2, e1, kne_s2.symm, kne_h2.symm, kne_12.symm] using g4
  · simpa [e4, e3, e2, e1, kne_s3.symm, kne_h3.symm, kne_13.symm, kne_23.symm] using g5
  · simpa [e5, e4, e3, e2, e1, kne_s4.symm, kne_h4.symm, kne_14.symm, kne_24.symm, kne_34.symm] using g6

/-! ### the renaming loop -/

theorem keyPrefix_inj {a b : Str} (h : keyPrefix ++ a = keyPrefix ++ b) : a = b :=
  List.append_cancel_left h

theorem renameLoop_spec (ks : List Str) (c : Ctx) (hnd : ks.Nodup)
    (hin : ∀ k ∈ ks, has c k = true) (hcl : ∀ k ∈ ks, keyPrefix ++ k ∉ ks) :
    ∃ out, renameLoop ks c = .ok out ∧
      (∀ k ∈ ks, get out (keyPrefix ++ k) = get c k) ∧
      (∀ x ∈ ks, get out x = none) ∧
      (∀ x, x ∉ ks → (∀ k ∈ ks, x ≠ keyPrefix ++ k) → get out x = get c x) := by
  induction ks generalizing c with
  | nil => exact ⟨c, rfl, by simp, by simp, by simp⟩
  | cons k ks ih =>
    have hk : has c k = true := hin k (by simp)
    obtain ⟨v, hv⟩ : ∃ v, get c k = some v := by
      simp only [has] at hk; exact Option.isSome_iff_exists.mp hk
    have hnd' := (List.nodup_cons.mp hnd)
    have hkk : keyPrefix ++ k ∉ k :: ks := hcl k (by simp)
    have hkne : k ≠ keyPrefix ++ k := fun e => hkk (by rw [← e]; simp)
    let c' := set (erase c k) (keyPrefix ++ k) v
    have hget : ∀ x, get c' x = if x = keyPrefix ++ k then some v else if x = k then none else get c x := by
      intro x; simp only [c', get_set, get_erase]
    have hin' : ∀ k' ∈ ks, has c' k' = true := by
      intro k' hk'
      have h1 : k' ≠ k := fun e => hnd'.1 (e ▸ hk')
      have h2 := hin k' (by simp [hk'])
      simp only [has, hget] at *
      by_cases e : k' = keyPrefix ++ k <;> simp [e, h1, h2]
    have hcl' : ∀ k' ∈ ks, keyPrefix ++ k' ∉ ks := fun k' hk' hm =>
      hcl k' (by simp [hk']) (by simp [hm])
    obtain ⟨out, ho, i1, i2, i3⟩ := ih c' hnd'.2 hin' hcl'
    refine ⟨out, ?_, ?_, ?_, ?_⟩
    · simp only [renameLoop, hv]; exact ho
    · intro k'' hk''
      rcases List.mem_cons.mp hk'' with e | hm
      · subst e
        have a1 : keyPrefix ++ k'' ∉ ks := fun hm => hkk (by simp [hm])
        have a2 : ∀ k' ∈ ks, keyPrefix ++ k'' ≠ keyPrefix ++ k' := fun k' hk' e =>
          hnd'.1 (keyPrefix_inj e ▸ hk')
        rw [i3 _ a1 a2, hget, hv]; simp
      · have b1 : k'' ≠ keyPrefix ++ k := fun e => hkk (by rw [← e]; simp [hm])
        have b2 : k'' ≠ k := fun e => hnd'.1 (e ▸ hm)
        rw [i1 _ hm, hget]; simp [b1, b2]
    · intro x hx
      rcases List.mem_cons.mp hx with e | hm
      · subst e
        have a2 : ∀ k' ∈ ks, x ≠ keyPrefix ++ k' := fun k' hk' e =>
          hcl k' (by simp [hk']) (by rw [← e]; simp)
        rw [i3 _ hnd'.1 a2, hget]; simp [hkne]
      · exact i2 _ hm
    · intro x hx hxk
      have c1 : x ∉ ks := fun hm => hx (by simp [hm])
      have c2 : x ≠ k := fun e => hx (by simp [e])
      have c3 : x ≠ keyPrefix ++ k := hxk k (by simp)
      rw [i3 _ c1 (fun k' hk' => hxk k' (by simp [hk'])), hget]; simp [c2, c3]

/-- the renaming loop on a dict without `key_` clashes: `out["key_" + kw] = c[kw]`, nothing else -/
theorem rename_spec {c : Ctx} (hd : IsDict c) (hc : NoClash c) :
    ∃ out, renameLoop (keys c) c = .ok out ∧
      (∀ kw, get out (keyPrefix ++ kw) = get c kw) ∧
      (∀ x ∈ keys out, ∃ kw ∈ keys c, x = keyPrefix ++ kw) := by
  obtain ⟨out, ho, i1, i2, i3⟩ := renameLoop_spec (keys c) c hd (fun k hk => mem_keys.mp hk) hc
  refine ⟨out, ho, fun kw => ?_, fun x hx => ?_⟩
  · by_cases hk : kw ∈ keys c
    · exact i1 kw hk
    · rw [get_eq_none.mpr hk]
      by_cases hx : keyPrefix ++ kw ∈ keys c
      · exact i2 _ hx
      · rw [i3 _ hx (fun k hk' e => hk (keyPrefix_inj e ▸ hk'))]
        exact get_eq_none.mpr hx
  · apply Classical.byContradiction
    intro hne
    have hne' : ∀ k ∈ keys c, x ≠ keyPrefix ++ k := fun k hk e => hne ⟨k, hk, e⟩
    have : get out x = none := by
      by_cases hm : x ∈ keys c
      · exact i2 _ hm
      · rw [i3 _ hm hne']; exact get_eq_none.mpr hm
    exact (get_eq_none.mp this) hx

/-! ### filling in the missing fields, the `blocksize` default, the named-tuple constructor -/

theorem fill_get (F : List Str) (c : Ctx) (x : Str) :
    get (fillMissing F c) x = if has c x then get c x else if x ∈ F then some .none else none := by
  induction F generalizing c with
  | nil =>
    simp only [fillMissing, List.not_mem_nil, if_false]
    by_cases h : has c x = true
    · simp [h]
    · simp only [h, Bool.false_eq_true, if_false]
      simp only [has] at h; cases hg : get c x <;> simp_all
  | cons f fs ih =>
    simp only [fillMissing, ih, List.mem_cons]
    by_cases hf : has c f = true
    · simp only [hf, if_true]
      by_cases hx : has c x = true
      · simp [hx]
      · have : x ≠ f := fun e => hx (e ▸ hf)
        simp [hx, this]
    · simp only [hf, Bool.false_eq_true, if_false, has_set, get_set]
      by_cases hxf : x = f
      · subst hxf; simp [hf]
      · simp [hxf]

theorem optV_fill (F : List Str) (c : Ctx) (x : Str) :
    optV (get (fillMissing F c) x) = optV (get c x) := by
  rw [fill_get]
  by_cases h : has c x = true
  · simp [h]
  · have : get c x = none := by simp only [has] at h; cases hg : get c x <;> simp_all
    simp only [h, Bool.false_eq_true, if_false, this]
    by_cases hx : x ∈ F <;> simp [hx, optV]

theorem mem_keys_fill {F : List Str} {c : Ctx} {x : Str} (h : x ∈ keys c) : x ∈ keys (fillMissing F c) := by
  rw [mem_keys] at *
  simp only [has, fill_get] at *
  simp [h]

theorem defaultBlock_get (c : Ctx) (x : Str) :
    get (defaultBlock c) x =
      if x = kKeyBlocksize ∧ optV (get c kKeyBlocksize) = .none then some (.int Gen.defaultBlocksize)
      else get c x := by
  unfold defaultBlock
  cases hg : get c kKeyBlocksize with
  | none => simp [get_set, optV]
  | some w => cases w <;> simp [get_set, optV]

theorem blockOf_of_ne {v : Val} (h : v ≠ .none) : blockOf v = v := by
  cases v <;> simp_all [blockOf]

theorem mem_keys_defaultBlock {c : Ctx} {x : Str} (h : x ∈ keys c) : x ∈ keys (defaultBlock c) := by
  rw [mem_keys] at *
  simp only [has, defaultBlock_get] at *
  split <;> simp_all

theorem collect_spec {F : List Str} {c : Ctx} {key : Key} (h : collect F c = .ok key) :
    key = F.map (fun f => optV (get c f)) := by
  induction F generalizing key with
  | nil => simp only [collect] at h; cases h; rfl
  | cons f fs ih =>
    simp only [collect] at h
    split at h
    · cases h
    · rename_i v hv
      split at h
      · rename_i vs hvs
        cases h
        simp [ih hvs, hv, optV]
      · cases h

theorem construct_spec {F : List Str} {c : Ctx} {key : Key} (h : construct F c = .ok key) :
    (∀ x ∈ keys c, x ∈ F) ∧ key = F.map (fun f => optV (get c f)) := by
  unfold construct at h
  split at h
  · rename_i hall
    refine ⟨fun x hx => ?_, collect_spec h⟩
    have := List.all_eq_true.mp hall x hx
    simpa using this
  · cases h

/-! ### the normaliser as a whole -/

/-- the `blocksize` default, applied to the field of keyword `kw` -/
def B (kw : Str) (v : Val) : Val := if kw = kBlocksize then blockOf v else v

theorem normalize_spec {F : List Str} {c : Ctx} {key : Key} (hd : IsDict c) (hc : NoClash c)
    (h : normalizeWith F c = .ok key) :
    Good c ∧ (∀ kw ∈ keys c, keyPrefix ++ kw ∈ F) ∧
      ∃ g : Str → Val, key = F.map g ∧ ∀ kw, g (keyPrefix ++ kw) = B kw (optV (W kw (get c kw))) := by
  unfold normalizeWith at h
  split at h; · cases h
  rename_i c6 h6
  obtain ⟨hk6, hg6, good⟩ := pre_spec h6
  have hd6 : IsDict c6 := by unfold IsDict; rw [hk6]; exact hd
  have hc6 : NoClash c6 := by unfold NoClash; rw [hk6]; exact hc
  obtain ⟨c7, h7, r1, r2⟩ := rename_spec hd6 hc6
  rw [h7] at h
  simp only at h
  obtain ⟨hall, hkey⟩ := construct_spec h
  refine ⟨good, fun kw hkw => ?_, fun f => optV (get (defaultBlock (fillMissing F c7)) f), hkey, fun kw => ?_⟩
  · apply hall
    apply mem_keys_defaultBlock
    apply mem_keys_fill
    rw [← get_isSome, r1, get_isSome, hk6]; exact hkw
  · have e8 : optV (get (fillMissing F c7) (keyPrefix ++ kw)) = optV (W kw (get c kw)) := by
      rw [optV_fill, r1, hg6]
    show optV (get (defaultBlock (fillMissing F c7)) (keyPrefix ++ kw)) = _
    rw [defaultBlock_get]
    unfold B
    by_cases hb : kw = kBlocksize
    · subst hb
      have hk : keyPrefix ++ kBlocksize = kKeyBlocksize := rfl
      rw [hk] at e8 ⊢
      by_cases hv : optV (get (fillMissing F c7) kKeyBlocksize) = .none
      · rw [if_pos ⟨rfl, hv⟩, if_pos rfl, ← e8, hv]; rfl
      · have hcond : ¬ (kKeyBlocksize = kKeyBlocksize ∧
            optV (get (fillMissing F c7) kKeyBlocksize) = Val.none) := fun h => hv h.2
        rw [if_neg hcond, if_pos rfl, e8]
        rw [e8] at hv
        exact (blockOf_of_ne hv).symm
    · have : keyPrefix ++ kw ≠ kKeyBlocksize := fun e => hb (keyPrefix_inj e)
      simp only [this, false_and, if_false, hb, e8]

theorem collect_error {F : List Str} {c : Ctx} {e : Exc} (h : collect F c = .error e) :
    e = .typeError := by
  induction F generalizing e with
  | nil => simp [collect] at h
  | cons f fs ih =>
    simp only [collect] at h
    split at h
    · cases h; rfl
    · split at h
      · cases h
      · rename_i e' he'; cases h; exact ih he'

theorem construct_error {F : List Str} {c : Ctx} {e : Exc} (h : construct F c = .error e) :
    e = .typeError := by
  unfold construct at h
  split at h
  · exact collect_error h
  · cases h; rfl

/-- a context that passes the pre-processing, is a dict without clash and has a keyword that is no
`PoolKey` field is rejected with `TypeError` -/
theorem normalize_unknown {F : List Str} {c c6 : Ctx} {kw : Str} (hd : IsDict c) (hc : NoClash c)
    (hk : kw ∈ keys c) (hf : keyPrefix ++ kw ∉ F) (h6 : pre c = .ok c6) :
    normalizeWith F c = .error .typeError := by
  cases hn : normalizeWith F c with
  | ok key => exact absurd ((normalize_spec hd hc hn).2.1 kw hk) hf
  | error e =>
    unfold normalizeWith at hn
    rw [h6] at hn
    obtain ⟨hk6, _, _⟩ := pre_spec h6
    have hd6 : IsDict c6 := by unfold IsDict; rw [hk6]; exact hd
    have hc6 : NoClash c6 := by unfold NoClash; rw [hk6]; exact hc
    obtain ⟨c7, h7, _, _⟩ := rename_spec hd6 hc6
    simp only [h7] at hn
    rw [construct_error hn]

/-! ### from equal field values to equivalent settings -/

theorem sockV_none : sockV .none = .none := rfl

theorem kne_b0 : kBlocksize ≠ kScheme := by decide
theorem kne_b1 : kBlocksize ≠ kHost := by decide
theorem kne_b2 : kBlocksize ≠ kHeaders := by decide
theorem kne_b3 : kBlocksize ≠ kProxyHeaders := by decide
theorem kne_b4 : kBlocksize ≠ kSocksOptions := by decide
theorem kne_b5 : kBlocksize ≠ kSocketOptions := by decide

/-- what a successful normalisation tells about the value of keyword `kw` -/
def OkAt (kw : Str) (o : Option Val) : Prop :=
  ((kw = kScheme ∨ kw = kHost) → ∃ s, o = some (.str s)) ∧
  ((kw = kHeaders ∨ kw = kProxyHeaders ∨ kw = kSocksOptions) → FrozenOk o) ∧
  (kw = kSocketOptions → SockOk o)

theorem Good.okAt {c : Ctx} (g : Good c) (kw : Str) : OkAt kw (get c kw) := by
  refine ⟨?_, ?_, ?_⟩
  · rintro (h | h) <;> subst h
    · exact g.scheme
    · exact g.host
  · rintro (h | h | h) <;> subst h
    · exact g.headers
    · exact g.proxyHeaders
    · exact g.socksOptions
  · intro h; subst h; exact g.socketOptions

theorem fieldEquiv_of_eq {kw : Str} {o1 o2 : Option Val} (h1 : OkAt kw o1) (h2 : OkAt kw o2)
    (h : B kw (optV (W kw o1)) = B kw (optV (W kw o2))) : FieldEquiv kw (optV o1) (optV o2) := by
  unfold FieldEquiv
  unfold B W at h
  by_cases c1 : kw = kScheme ∨ kw = kHost
  · have hb : kw ≠ kBlocksize := by
      rcases c1 with e | e <;> subst e <;> intro e
      · exact kne_b0 e.symm
      · exact kne_b1 e.symm
    obtain ⟨s, hs⟩ := h1.1 c1
    obtain ⟨t, ht⟩ := h2.1 c1
    subst hs ht
    simp only [c1, if_true, hb, if_false, Option.map_some, lowerV, optV, Option.getD_some] at h ⊢
    exact ⟨s, t, rfl, rfl, by injection h⟩
  · simp only [c1, if_false] at h ⊢
    by_cases c2 : kw = kHeaders ∨ kw = kProxyHeaders ∨ kw = kSocksOptions
    · have hb : kw ≠ kBlocksize := by
        rcases c2 with e | e | e <;> subst e <;> intro e
        · exact kne_b2 e.symm
        · exact kne_b3 e.symm
        · exact kne_b4 e.symm
      simp only [c2, if_true, hb, if_false] at h ⊢
      rcases h1.2.1 c2 with e1 | e1 | ⟨d, e1⟩ <;> rcases h2.2.1 c2 with e2 | e2 | ⟨e, e2⟩ <;> subst e1 e2
      all_goals first
        | exact Or.inl ⟨rfl, rfl⟩
        | (exfalso; simp [optV, freezeV] at h; done)
        | (refine Or.inr ⟨_, _, rfl, rfl, fun p => ?_⟩
           have h' : toSet d = toSet e := by simpa [optV, freezeV] using h
           rw [← mem_toSet p d, ← mem_toSet p e, h'])
    · simp only [c2, if_false] at h ⊢
      by_cases c3 : kw = kSocketOptions
      · subst c3
        have hb : kSocketOptions ≠ kBlocksize := fun e => kne_b5 e.symm
        simp only [if_true, hb, if_false] at h ⊢
        have c3 : kSocketOptions = kSocketOptions := rfl
        rcases h1.2.2 c3 with e1 | e1 | ⟨v, l, e1, a1⟩ <;> rcases h2.2.2 c3 with e2 | e2 | ⟨w, m, e2, a2⟩ <;>
          subst e1 e2
        all_goals try simp only [Option.map_some, Option.map_none, sockV_none] at h
        all_goals first
          | exact Or.inl ⟨rfl, rfl⟩
          | (exfalso; simp [optV, sockV, a1] at h; done)
          | (exfalso; simp [optV, sockV, a2] at h; done)
          | (have h' : l = m := by simpa [optV, sockV, a1, a2] using h
             subst h'; exact Or.inr ⟨l, a1, a2⟩)
      · simp only [c3, if_false] at h ⊢
        by_cases c4 : kw = kBlocksize
        · simpa [c4] using h
        · simpa [c4] using h

/-- both directions of the absent case: a keyword that is in neither context -/
theorem fieldEquiv_absent {kw : Str} (hs : kw ≠ kScheme) (hh : kw ≠ kHost) :
    FieldEquiv kw .none .none := by
  unfold FieldEquiv
  simp only [hs, hh, or_self, if_false]
  repeat' split
  all_goals first
    | trivial
    | exact Or.inl ⟨trivial, trivial⟩
    | exact Or.inl ⟨rfl, rfl⟩
    | rfl

theorem injective_with {F : List Str} {c1 c2 : Ctx} {k : Key}
    (d1 : IsDict c1) (d2 : IsDict c2) (n1 : NoClash c1) (n2 : NoClash c2)
    (h1 : normalizeWith F c1 = .ok k) (h2 : normalizeWith F c2 = .ok k) : CtxEquiv c1 c2 := by
  obtain ⟨g1, m1, f1, hf1, v1⟩ := normalize_spec d1 n1 h1
  obtain ⟨g2, m2, f2, hf2, v2⟩ := normalize_spec d2 n2 h2
  intro kw
  by_cases hk : keyPrefix ++ kw ∈ F
  · have : f1 (keyPrefix ++ kw) = f2 (keyPrefix ++ kw) :=
      (List.map_inj_left.mp (hf1 ▸ hf2)) _ hk
    rw [v1, v2] at this
    exact fieldEquiv_of_eq (g1.okAt kw) (g2.okAt kw) this
  · have a1 : kw ∉ keys c1 := fun hm => hk (m1 kw hm)
    have a2 : kw ∉ keys c2 := fun hm => hk (m2 kw hm)
    rw [get_eq_none.mpr a1, get_eq_none.mpr a2]
    have hs : kw ≠ kScheme := by
      intro e; subst e
      obtain ⟨s, hs⟩ := g1.scheme
      rw [get_eq_none.mpr a1] at hs; cases hs
    have hh : kw ≠ kHost := by
      intro e; subst e
      obtain ⟨s, hs⟩ := g1.host
      rw [get_eq_none.mpr a1] at hs; cases hs
    exact fieldEquiv_absent hs hh

/-! ### `_merge_pool_kwargs` through `get` -/

theorem get_mergeStep (b : Ctx) (kv : Str × Val) (x : Str) :
    get (mergeStep b kv) x =
      if x = kv.1 then (if kv.2 = .none then none else some kv.2) else get b x := by
  unfold mergeStep
  split
  · rename_i h; rw [get_erase]; simp [h]
  · rename_i h
    rw [get_set]
    by_cases hx : x = kv.1
    · have : kv.2 ≠ .none := by intro e; exact h e
      simp [hx, this]
    · simp [hx]

theorem get_foldl_merge (o : Ctx) (hd : IsDict o) (d : Ctx) (x : Str) :
    get (o.foldl mergeStep d) x =
      match get o x with
      | none => get d x
      | some .none => none
      | some v => some v := by
  induction o generalizing d with
  | nil => simp
  | cons p t ih =>
    have hnd := List.nodup_cons.mp hd
    simp only [List.foldl_cons]
    rw [ih hnd.2, get_cons]
    by_cases hx : x = p.1
    · have : get t x = none := get_eq_none.mpr (hx ▸ hnd.1)
      rw [this]
      simp only [hx, if_true, get_mergeStep]
      cases hv : p.2 <;> simp
    · simp only [hx, if_false, get_mergeStep]

/-! ### case / default-port normalisation of `connection_from_host` -/

/-- overwrite the value of a present key (the `has` branch of `set`) -/
def upd (k : Str) (v : Val) (c : Ctx) : Ctx := c.map (fun p => if p.1 = k then (p.1, v) else p)

theorem set_of_has {c : Ctx} {k : Str} (v : Val) (h : has c k = true) : set c k v = upd k v c := by
  unfold set upd; simp [h]

theorem has_upd (k : Str) (v : Val) (c : Ctx) (x : Str) : has (upd k v c) x = has c x := by
  unfold upd
  simp only [has, get_map_set]
  by_cases hx : x = k
  · subst hx
    simp only [if_true]
    by_cases hg : (get c x).isSome = true <;> simp [hg]
  · simp [hx]

theorem upd_set (k : Str) (v : Val) (c : Ctx) (k' : Str) (v' : Val) :
    upd k v (set c k' v') = set (upd k v c) k' (if k' = k then v else v') := by
  unfold set
  rw [has_upd]
  by_cases h : has c k' = true
  · simp only [h, if_true]
    unfold upd
    simp only [List.map_map]
    apply List.map_congr_left
    intro p _
    simp only [Function.comp]
    grind
  · simp only [h, Bool.false_eq_true, if_false]
    unfold upd
    simp only [List.map_append, List.map_cons, List.map_nil]
    grind

theorem kne_sp : kScheme ≠ kPort := by decide
theorem kne_hp : kHost ≠ kPort := by decide

/-- the context `connection_from_host` builds on top of the merged keyword arguments `m` -/
def hostCtx (m : Ctx) (s : Str) (p : Val) (h : Str) : Ctx :=
  set (set (set m kScheme (.str s)) kPort p) kHost (.str h)

theorem lower_scheme_hostCtx (m : Ctx) (s : Str) (p : Val) (h : Str) :
    lowerKey (hostCtx m s p h) kScheme =
      .ok (hostCtx (upd kScheme (.str (lower s)) m) (lower s) p h) := by
  have hg : get (hostCtx m s p h) kScheme = some (.str s) := by
    simp [hostCtx, get_set, kne_sh, kne_sp]
  unfold lowerKey
  rw [hg]
  simp only
  rw [set_of_has _ (has_of_get hg)]
  unfold hostCtx
  rw [upd_set, upd_set, upd_set]
  simp [kne_sh.symm, kne_sp.symm]

theorem lower_host_hostCtx (m : Ctx) (s : Str) (p : Val) (h : Str) :
    lowerKey (hostCtx m s p h) kHost =
      .ok (hostCtx (upd kHost (.str (lower h)) m) s p (lower h)) := by
  have hg : get (hostCtx m s p h) kHost = some (.str h) := by
    simp [hostCtx, get_set]
  unfold lowerKey
  rw [hg]
  simp only
  rw [set_of_has _ (has_of_get hg)]
  unfold hostCtx
  rw [upd_set, upd_set, upd_set]
  simp [kne_sh, kne_hp.symm]

theorem normalize_hostCtx_case (m : Ctx) (p : Val) {s₁ s₂ h₁ h₂ : Str}
    (hs : lower s₁ = lower s₂) (hh : lower h₁ = lower h₂) :
    normalize (hostCtx m s₁ p h₁) = normalize (hostCtx m s₂ p h₂) := by
  unfold normalize normalizeWith pre
  simp only [lower_scheme_hostCtx, lower_host_hostCtx, hs, hh]

/-- `scheme or "http"` -/
def schemeOr (s : Str) : Str := if s.isEmpty then kHttp else s

/-- `if not port: port = port_by_scheme.get(scheme.lower(), 80)` -/
def portOr (p : Val) (sch : Str) : Val :=
  if p.truthy then p else .int ((List.lookup (lower sch) Gen.portByScheme).getD 80)

theorem requestContext_eq (d : Ctx) (h : Str) (p : Val) (s : Str) (kw : Option Ctx) :
    requestContext d (some h) p (some s) kw =
      if h.isEmpty then .error .locationValueError
      else .ok (hostCtx (merge d kw) (schemeOr s) (portOr p (schemeOr s)) h) := rfl

theorem lower_schemeOr {s₁ s₂ : Str} (hs : lower s₁ = lower s₂) :
    lower (schemeOr s₁) = lower (schemeOr s₂) := by
  unfold schemeOr
  have hl : s₁.length = s₂.length := by rw [← lower_length s₁, hs, lower_length]
  cases s₁ <;> cases s₂ <;> simp_all

/-! ### small decision helpers for the non-vacuity examples -/

instance : DecidableEq (Except Exc Key) := fun a b =>
  match a, b with
  | .ok x, .ok y => if h : x = y then isTrue (h ▸ rfl) else isFalse (fun e => by cases e; exact h rfl)
  | .error x, .error y => if h : x = y then isTrue (h ▸ rfl) else isFalse (fun e => by cases e; exact h rfl)
  | .ok _, .error _ => isFalse (fun e => by cases e)
  | .error _, .ok _ => isFalse (fun e => by cases e)

def isOk : Except Exc Key → Bool
  | .ok _ => true
  | .error _ => false

theorem exists_of_isOk {x : Except Exc Key} (h : isOk x = true) : ∃ k, x = .ok k := by
  cases x with
  | ok k => exact ⟨k, rfl⟩
  | error e => cases h

/-- for a keyword without special treatment the settings are equivalent iff the values are equal -/
theorem fieldEquiv_plain {kw : Str} {a b : Val} (h1 : ¬(kw = kScheme ∨ kw = kHost))
    (h2 : ¬(kw = kHeaders ∨ kw = kProxyHeaders ∨ kw = kSocksOptions)) (h3 : kw ≠ kSocketOptions)
    (h4 : kw ≠ kBlocksize) : FieldEquiv kw a b ↔ a = b := by
  unfold FieldEquiv; simp [h1, h2, h3, h4]

end U3.PoolKey
