import U3.Lemmas.Resp
/-! The glue through `read()` / `read(n)` (`read_some_spec` of notes/C12.md): for ANY body source
obeying `RawReadSpec` / `RawReadAllSpec` and ANY content decoder obeying the `StreamLaw` (or no
decoder at all), one call of `read(n)` returns exactly the next `min n |rest|` bytes of the decoded
payload and re-establishes the invariant `buffered ++ still-owed = rest`; `read()` returns all of
`rest`.  Consequences: sequences of `read(n)` / `read(0)` / `readinto(k)` / `read()` concatenate to
the payload, reads after the end are empty, `.data` is the same bytes. -/
namespace U3.Resp
open U3

section
variable {σ δ : Type} (S : Src σ) (D : Dec δ) (cfg : Cfg δ)

/-- what the read family needs from `_raw_read()` (no amount) on a well-framed body: everything
that is left, without raising -/
structure RawReadAllSpec (rem : σ → Bytes) (I : σ → Option Int → Prop) : Prop where
  spec : ∀ (r : R σ δ), I r.fp r.lengthRemaining →
    ∃ r', rawRead S cfg r none false = (.ok (rem r.fp), r') ∧
      rem r'.fp = [] ∧ I r'.fp r'.lengthRemaining ∧
      r'.buf = r.buf ∧ r'.decoder = r.decoder ∧ r'.hasDecoded = r.hasDecoded ∧ r'.body = r.body

/-- the decoder `read` works with: the installed one, else what `_init_decoder` installs -/
def effDec (od : Option δ) : Option δ :=
  match od with
  | some d => some d
  | none => cfg.newDecoder

/-- "a response whose decoder slot is `od` and whose source still delivers `raw` still owes `p`":
with a decoder the streaming-law relation, without one the raw bytes themselves -/
def Owes (G : δ → Bytes → Bytes → Prop) (od : Option δ) (raw p : Bytes) : Prop :=
  match od with
  | some d => G d raw p
  | none => p = raw

/-- the read-family invariant: framing invariant + `buffered ++ owed = rest` -/
structure Inv (rem : σ → Bytes) (I : σ → Option Int → Prop) (G : δ → Bytes → Bytes → Prop)
    (r : R σ δ) (rest : Bytes) : Prop where
  framing : I r.fp r.lengthRemaining
  owes : ∃ p, Owes G (effDec cfg r.decoder) (rem r.fp) p ∧ bqAll r.buf ++ p = rest

theorem initDec_decoder (r : R σ δ) : (initDec cfg r).decoder = effDec cfg r.decoder := by
  unfold initDec effDec
  cases h : r.decoder <;> simp_all

theorem initDec_other (r : R σ δ) :
    (initDec cfg r).fp = r.fp ∧ (initDec cfg r).buf = r.buf ∧
    (initDec cfg r).lengthRemaining = r.lengthRemaining ∧ (initDec cfg r).hasDecoded = r.hasDecoded := by
  unfold initDec
  cases r.decoder <;> simp

theorem effDec_idem (od : Option δ) : effDec cfg (effDec cfg od) = effDec cfg od := by
  unfold effDec
  cases od with
  | some d => rfl
  | none => cases cfg.newDecoder <;> rfl

/-- a slot that is `some`, or `none` because nothing is to be installed, is stable under `_init_decoder` -/
def Settled (od : Option δ) : Prop := effDec cfg od = od

theorem settled_effDec (od : Option δ) : Settled cfg (effDec cfg od) := effDec_idem cfg od

theorem settled_some (d : δ) : Settled cfg (some d) := rfl

variable {G : δ → Bytes → Bytes → Prop}

/-- one `_decode(data, True, False)` step under the law -/
theorem decode_feed (hD : StreamLaw D G) (r : R σ δ) (a b p : Bytes)
    (hs : Settled cfg r.decoder) (h : Owes G r.decoder (a ++ b) p) :
    ∃ o r', decode D r a true false = (.ok o, r') ∧ ∃ p', p = o ++ p' ∧ Owes G r'.decoder b p' ∧
      Settled cfg r'.decoder ∧ r'.fp = r.fp ∧ r'.buf = r.buf ∧ r'.lengthRemaining = r.lengthRemaining := by
  cases hd : r.decoder with
  | none =>
    rw [hd] at h
    refine ⟨a, r, ?_, b, ?_, ?_, hs, rfl, rfl, rfl⟩
    · simp [decode, hd]
    · simpa [Owes] using h
    · simp [Owes, hd]
  | some d =>
    rw [hd] at h
    obtain ⟨o, d', hdec, p', hp, hG'⟩ := hD.feed d a b p h
    refine ⟨o, { r with decoder := some d', hasDecoded := true }, decode_ok D r d d' a o hd hdec,
      p', hp, hG', settled_some cfg d', rfl, rfl, rfl⟩

/-- `_flush_decoder` at the end of the input: nothing is held back, nothing raises -/
theorem flushDecoder_done (hD : StreamLaw D G) (r : R σ δ) (p : Bytes)
    (hs : Settled cfg r.decoder) (h : Owes G r.decoder [] p) :
    p = [] ∧ ∃ r', flushDecoder D r = (.ok [], r') ∧ Owes G r'.decoder [] [] ∧
      Settled cfg r'.decoder ∧ r'.fp = r.fp ∧ r'.buf = r.buf ∧ r'.lengthRemaining = r.lengthRemaining := by
  cases hd : r.decoder with
  | none =>
    rw [hd] at h
    refine ⟨by simpa [Owes] using h, r, by simp [flushDecoder, hd], by simp [Owes, hd], hs, rfl, rfl, rfl⟩
  | some d =>
    rw [hd] at h
    have hp := (hD.done d p (by simpa [Owes] using h)).1
    subst hp
    obtain ⟨o, d', hdec, p', hp', hG'⟩ := hD.feed d [] [] [] (by simpa [Owes] using h)
    have ho : o = [] := by
      have := congrArg List.length hp'
      simp at this
      exact List.eq_nil_of_length_eq_zero (by omega)
    have hp'' : p' = [] := by
      have := congrArg List.length hp'
      simp at this
      exact List.eq_nil_of_length_eq_zero (by omega)
    subst ho hp''
    obtain ⟨_, d'', hfl, hG''⟩ := hD.done d' [] hG'
    refine ⟨rfl, { r with decoder := some d'' }, ?_, hG'', settled_some cfg d'', rfl, rfl, rfl⟩
    simp [flushDecoder, hd, hdec, hfl]

/-- `_decode(data, True, True)` on the last piece of the input -/
theorem decode_last (hD : StreamLaw D G) (r : R σ δ) (a p : Bytes)
    (hs : Settled cfg r.decoder) (h : Owes G r.decoder a p) :
    ∃ r', decode D r a true true = (.ok p, r') ∧ Owes G r'.decoder [] [] ∧
      Settled cfg r'.decoder ∧ r'.fp = r.fp ∧ r'.buf = r.buf ∧ r'.lengthRemaining = r.lengthRemaining := by
  obtain ⟨o, r1, h1, p', hp, hO, hs1, e1, e2, e3⟩ :=
    decode_feed D cfg hD r a [] p hs (by simpa using h)
  obtain ⟨hp', r2, h2, hO2, hs2, f1, f2, f3⟩ := flushDecoder_done D cfg hD r1 p' hs1 hO
  subst hp'
  refine ⟨r2, ?_, hO2, hs2, by rw [f1, e1], by rw [f2, e2], by rw [f3, e3]⟩
  -- `decode … true` = the `false` step followed by `_flush_decoder`
  have key : decode D r a true true =
      match decode D r a true false with
      | (.error e, r) => (.error e, r)
      | (.ok data, r) =>
        match flushDecoder D r with
        | (.error e, r) => (.error e, r)
        | (.ok t, r) => (.ok (data ++ t), r) := by
    unfold decode
    simp only [Bool.not_true, Bool.false_eq_true, if_false]
    split <;> first | rfl | simp_all
  rw [key, h1]
  simp only [h2, hp, List.append_nil]

theorem initDec_body (r : R σ δ) : (initDec cfg r).body = r.body := by
  unfold initDec
  cases r.decoder <;> rfl

theorem flushDecoder_body (r : R σ δ) : (flushDecoder D r).2.body = r.body := by
  unfold flushDecoder
  split
  · rfl
  · split
    · rfl
    · rfl
    · split <;> rfl

theorem decode_body (r : R σ δ) (a : Bytes) (dc fl : Bool) : (decode D r a dc fl).2.body = r.body := by
  have key : ∀ (step : Except Exc Bytes × R σ δ), step.2.body = r.body →
      (match step with
        | (.error e, r) => (Except.error e, r)
        | (.ok data, r) =>
          if fl = true then
            match flushDecoder D r with
            | (.error e, r) => (.error e, r)
            | (.ok t, r) => (.ok (data ++ t), r)
          else (.ok data, r)).2.body = r.body := by
    intro step hs
    obtain ⟨res, r1⟩ := step
    cases res with
    | error e => exact hs
    | ok data =>
      simp only []
      by_cases hfl : fl = true
      · rw [if_pos hfl]
        have := flushDecoder_body D r1
        generalize flushDecoder D r1 = fr at this ⊢
        obtain ⟨x, r2⟩ := fr
        have hs' : r1.body = r.body := hs
        cases x <;> exact (show r2.body = r1.body from this).trans hs'
      · rw [if_neg hfl]; exact hs
  unfold decode
  split
  · split <;> rfl
  · apply key
    cases hd : r.decoder with
    | none => rfl
    | some d =>
      simp only []
      generalize D.decompress d a = z
      obtain ⟨x, d'⟩ := z
      cases x <;> rfl

theorem prependBuffered_body (r : R σ δ) (out : Bytes) : (prependBuffered r out).2.body = r.body := by
  unfold prependBuffered
  split <;> rfl

/-- source law used for `stream`: a `_raw_read(a)` at the end of the body closes the file -/
def ClosesN (rem : σ → Bytes) (I : σ → Option Int → Prop) : Prop :=
  ∀ (r : R σ δ) (a : Nat), 0 < a → I r.fp r.lengthRemaining → rem r.fp = [] →
    S.isclosed (rawRead S cfg r (some a) false).2.fp = true

/-- … and a `_raw_read()` always does -/
def ClosesAll (I : σ → Option Int → Prop) : Prop :=
  ∀ (r : R σ δ), I r.fp r.lengthRemaining → S.isclosed (rawRead S cfg r none false).2.fp = true

/-- the inner loop of `read(amt)` preserves `buffered ++ still-owed = const`, with or without a
decoder (generalises `readLoop_inv`) -/
theorem readLoop_inv' {rem : σ → Bytes} {I : σ → Option Int → Prop}
    (hR : RawReadSpec S cfg rem I) (hD : StreamLaw D G) (a : Nat) (ha : 0 < a) :
    ∀ (fuel : Nat) (r : R σ δ) (data p : Bytes),
      I r.fp r.lengthRemaining → Settled cfg r.decoder → Owes G r.decoder (rem r.fp) p →
      (rem r.fp).length + (if data = [] then 0 else 1) < fuel → (data = [] → rem r.fp = []) →
      ∃ r' p', readLoop S D cfg a true false fuel r data = (.ok (), r') ∧
        Settled cfg r'.decoder ∧ Owes G r'.decoder (rem r'.fp) p' ∧
        bqAll r'.buf ++ p' = bqAll r.buf ++ p ∧ I r'.fp r'.lengthRemaining ∧
        (bqLen r'.buf < a → rem r'.fp = []) ∧ (r.buf ≠ [] → r'.buf ≠ []) ∧
        (rem r'.fp).length ≤ (rem r.fp).length ∧
        (ClosesN S cfg rem I → (data = [] → S.isclosed r.fp = true) → bqLen r'.buf < a →
          S.isclosed r'.fp = true) := by
  intro fuel
  induction fuel with
  | zero => intro r data p _ _ _ hf; omega
  | succ k ih =>
    intro r data p hI hs hO hf hdata
    unfold readLoop
    by_cases hc : bqLen r.buf < a ∧ (!data.isEmpty) = true
    · rw [if_pos hc]
      obtain ⟨r1, h1, hrem1, hI1, hb1, hd1, _⟩ := hR.spec r a ha hI
      rw [h1]
      simp only []
      have hsplit : rem r.fp = (rem r.fp).take a ++ (rem r.fp).drop a := (List.take_append_drop a _).symm
      rw [hsplit, ← hd1] at hO
      obtain ⟨o, r2, hdec, p', hp, hO', hs2, e1, e2, e3⟩ :=
        decode_feed D cfg hD r1 _ _ p (hd1 ▸ hs) hO
      rw [hdec]
      simp only []
      have hdne : data ≠ [] := by
        intro h; simp [h] at hc
      have hlen : ((rem r.fp).drop a).length + (if (rem r.fp).take a = [] then 0 else 1) < k := by
        by_cases hrem0 : rem r.fp = []
        · simp [hrem0]; simp [hdne, hrem0] at hf; omega
        · have htk : (rem r.fp).take a ≠ [] := by
            intro h; rcases List.take_eq_nil_iff.mp h with h | h
            · omega
            · exact hrem0 h
          have : 0 < (rem r.fp).length := List.length_pos_iff.mpr hrem0
          simp [hdne] at hf
          simp [htk, List.length_drop]; omega
      have hnil : (rem r.fp).take a = [] → (rem r.fp).drop a = [] := by
        intro h; rcases List.take_eq_nil_iff.mp h with h | h
        · omega
        · simp [h]
      obtain ⟨r', p'', f1, f2, f3, f4, f5, f6, f7, f8, f9⟩ :=
        ih { r2 with buf := bqPut r2.buf o } ((rem r.fp).take a) p'
          (by show I r2.fp r2.lengthRemaining; rw [e1, e3]; exact hI1)
          hs2 (by show Owes G r2.decoder (rem r2.fp) p'; rw [e1, hrem1]; exact hO')
          (by show (rem r2.fp).length + _ < k; rw [e1, hrem1]; exact hlen)
          (by show _ → rem r2.fp = []; rw [e1, hrem1]; exact hnil)
      refine ⟨r', p'', f1, f2, f3, ?_, f5, f6, ?_, ?_, ?_⟩
      · rw [f4]
        show bqAll (bqPut r2.buf o) ++ p' = _
        rw [bqPut_all, e2, hb1, hp]; simp [List.append_assoc]
      · exact fun _ => f7 (by simp [bqPut])
      · have : (rem r2.fp).length ≤ (rem r.fp).length := by
          rw [e1, hrem1, List.length_drop]; omega
        exact Nat.le_trans f8 this
      · intro hC _ hlt
        apply f9 hC _ hlt
        intro h0
        show S.isclosed r2.fp = true
        rw [e1]
        have hrem0 : rem r.fp = [] := by
          rcases List.take_eq_nil_iff.mp h0 with h | h
          · omega
          · exact h
        have := hC r a ha hI hrem0
        rw [h1] at this
        exact this
    · rw [if_neg hc]
      have hd0 : bqLen r.buf < a → data = [] := by
        intro hlt
        have : ¬ ((!data.isEmpty) = true) := fun h => hc ⟨hlt, h⟩
        simpa using this
      exact ⟨r, p, rfl, hs, hO, rfl, hI, fun hlt => hdata (hd0 hlt), id, Nat.le_refl _,
        fun _ hcl hlt => hcl (hd0 hlt)⟩

theorem readLoop_nil (a : Nat) (dc fl : Bool) (fuel : Nat) (r : R σ δ) :
    readLoop S D cfg a dc fl (fuel + 1) r [] = (.ok (), r) := by
  unfold readLoop
  simp

theorem owes_nil (hD : StreamLaw D G) (od : Option δ) (p : Bytes) (h : Owes G od [] p) : p = [] := by
  cases od with
  | none => simpa [Owes] using h
  | some d => exact (hD.done d p (by simpa [Owes] using h)).1

/-- the final `self._decoded_buffer.get(amt)` of `read(amt)` -/
theorem bufGet_final {rem : σ → Bytes} {I : σ → Option Int → Prop} (hD : StreamLaw D G)
    (a : Nat) (r : R σ δ) (p rest : Bytes)
    (hI : I r.fp r.lengthRemaining) (hs : Settled cfg r.decoder) (hO : Owes G r.decoder (rem r.fp) p)
    (hrest : bqAll r.buf ++ p = rest) (hne : r.buf ≠ []) (hshort : bqLen r.buf < a → rem r.fp = []) :
    ∃ r', bufGet r a = (.ok (rest.take a), r') ∧ Inv cfg rem I G r' (rest.drop a) ∧ r'.fp = r.fp := by
  have hsome := bqGet_isSome r.buf a (Or.inl hne)
  obtain ⟨⟨d, q'⟩, hget⟩ := Option.isSome_iff_exists.mp hsome
  obtain ⟨hd, hq⟩ := bqGet_spec r.buf a d q' hget
  refine ⟨{ r with buf := q' }, ?_, ⟨hI, p, ?_, ?_⟩, rfl⟩
  · simp only [bufGet, hget]
    congr 2
    rw [hd, ← hrest]
    by_cases hlt : bqLen r.buf < a
    · have hp : p = [] := owes_nil D hD _ p (hshort hlt ▸ hO)
      simp [hp]
    · rw [bqLen_eq] at hlt
      rw [List.take_append_of_le_length (by omega)]
  · show Owes G (effDec cfg r.decoder) (rem r.fp) p
    rw [hs]; exact hO
  · show bqAll q' ++ p = _
    rw [hq, ← hrest]
    by_cases hlt : bqLen r.buf < a
    · have hp : p = [] := owes_nil D hD _ p (hshort hlt ▸ hO)
      simp [hp]
    · rw [bqLen_eq] at hlt
      rw [List.drop_append_of_le_length (by omega)]

theorem read_n_spec {rem : σ → Bytes} {I : σ → Option Int → Prop}
    (hR : RawReadSpec S cfg rem I) (hD : StreamLaw D G)
    (a : Nat) (ha : 0 < a) (r : R σ δ) (rest : Bytes) (dco : Option Bool)
    (hdc : dco.getD cfg.decodeDefault = true)
    (hinv : Inv cfg rem I G r rest) (hfuel : (rem r.fp).length + 1 < cfg.fuel) :
    ∃ r', read S D cfg r (some a) dco = (.ok (rest.take a), r') ∧ Inv cfg rem I G r' (rest.drop a) ∧
      (rem r'.fp).length ≤ (rem r.fp).length ∧
      (ClosesN S cfg rem I → rest.length < a → S.isclosed r'.fp = true) := by
  obtain ⟨hI, p, hO, hrest⟩ := hinv
  have hdec0 := initDec_decoder cfg r
  obtain ⟨g1, g2, g3, _⟩ := initDec_other cfg r
  unfold read
  simp only [hdc]
  generalize initDec cfg r = r0 at *
  have hs0 : Settled cfg r0.decoder := by rw [hdec0]; exact settled_effDec cfg _
  have hO0 : Owes G r0.decoder (rem r0.fp) p := by rw [hdec0, g1]; exact hO
  have hI0 : I r0.fp r0.lengthRemaining := by rw [g1, g3]; exact hI
  have hrest0 : bqAll r0.buf ++ p = rest := by rw [g2]; exact hrest
  by_cases hge : bqLen r0.buf ≥ a
  · rw [if_pos hge]
    simp only []
    have hne : r0.buf ≠ [] := by
      intro h; rw [h] at hge; simp [bqLen] at hge; omega
    obtain ⟨r', e1, e2, e3⟩ := bufGet_final D cfg hD a r0 p rest hI0 hs0 hO0 hrest0 hne (by omega)
    refine ⟨r', e1, e2, by rw [e3, g1]; exact Nat.le_refl _, fun _ hlt => ?_⟩
    exfalso
    have : bqLen r0.buf ≤ rest.length := by rw [bqLen_eq, ← hrest0, List.length_append]; omega
    omega
  · rw [if_neg hge]
    simp only []
    obtain ⟨r1, h1, hrem1, hI1, hb1, hd1, _⟩ := hR.spec r0 a ha hI0
    rw [h1]
    simp only []
    have hsplit : rem r0.fp = (rem r0.fp).take a ++ (rem r0.fp).drop a := (List.take_append_drop a _).symm
    have hs1 : Settled cfg r1.decoder := hd1 ▸ hs0
    by_cases hdata : (rem r0.fp).take a = []
    · -- the raw body is exhausted
      have hrem0 : rem r0.fp = [] := by
        rcases List.take_eq_nil_iff.mp hdata with h | h
        · omega
        · exact h
      have hrem1' : rem r1.fp = [] := by rw [hrem1, hrem0]; simp
      have hp : p = [] := owes_nil D hD _ p (hrem0 ▸ hO0)
      rw [hdata]
      by_cases hb : bqLen r1.buf = 0
      · rw [if_pos ⟨rfl, hb⟩]
        have hball : bqAll r0.buf = [] := by
          rw [← hb1]; exact List.eq_nil_of_length_eq_zero (by rw [← bqLen_eq]; exact hb)
        have hr : rest = [] := by rw [← hrest0, hball, hp]; rfl
        refine ⟨r1, by rw [hr]; simp, ⟨hI1, [], ?_, ?_⟩, by rw [hrem1', ]; exact Nat.zero_le _, fun hC _ => ?_⟩
        · rw [hs1, hd1, hrem1']; rw [hrem0, hp] at hO0; exact hO0
        · rw [hb1, hball, hr]; simp
        · have := hC r0 a ha hI0 hrem0
          rw [h1] at this
          exact this
      · rw [if_neg (by simp [hb])]
        simp only [Bool.not_true, Bool.false_eq_true, if_false, List.isEmpty_nil]
        have hfl : ((some a).isNone || decide (some a ≠ some 0) && true) = true := by
          simp; omega
        rw [hfl]
        obtain ⟨r2, hdec, hO2, hs2, e1, e2, e3⟩ :=
          decode_last D cfg hD r1 [] p hs1 (by rw [hd1, ← hrem0]; exact hO0)
        rw [hdec]
        simp only []
        obtain ⟨k, hk⟩ : ∃ k, cfg.fuel = k + 1 := ⟨cfg.fuel - 1, by omega⟩
        rw [hk, readLoop_nil]
        simp only []
        obtain ⟨r', f1, f2, f3⟩ := bufGet_final (rem := rem) (I := I) D cfg hD a
          { r2 with buf := bqPut r2.buf p } [] rest
          (by show I r2.fp r2.lengthRemaining; rw [e1, e3]; exact hI1) hs2
          (by show Owes G r2.decoder (rem r2.fp) []; rw [e1, hrem1']; exact hO2)
          (by show bqAll (bqPut r2.buf p) ++ [] = rest; rw [bqPut_all, e2, hb1, List.append_nil]; exact hrest0)
          (by simp [bqPut]) (by intro _; show rem r2.fp = []; rw [e1]; exact hrem1')
        refine ⟨r', f1, f2, ?_, fun hC _ => ?_⟩
        · rw [f3]; show (rem r2.fp).length ≤ _; rw [e1, hrem1']; exact Nat.zero_le _
        · rw [f3]; show S.isclosed r2.fp = true
          rw [e1]
          have := hC r0 a ha hI0 hrem0
          rw [h1] at this
          exact this
    · -- some raw bytes arrived: decode them, then loop
      have hne : ¬ (((rem r0.fp).take a).isEmpty = true ∧ bqLen r1.buf = 0) := by
        intro h; exact hdata (List.isEmpty_iff.mp h.1)
      rw [if_neg hne]
      simp only [Bool.not_true, Bool.false_eq_true, if_false]
      have hfl : ((some a).isNone || decide (some a ≠ some 0) && ((rem r0.fp).take a).isEmpty) = false := by
        have : ((rem r0.fp).take a).isEmpty = false := by
          simpa [List.isEmpty_iff] using hdata
        simp [this]
      rw [hfl]
      rw [hsplit] at hO0
      obtain ⟨o, r2, hdec, p', hp, hO2, hs2, e1, e2, e3⟩ :=
        decode_feed D cfg hD r1 _ _ p hs1 (hd1 ▸ hO0)
      rw [hdec]
      simp only []
      have hlen0 : 0 < (rem r0.fp).length := by
        apply List.length_pos_iff.mpr; intro h; exact hdata (by simp [h])
      obtain ⟨r3, p3, l1, l2, l3, l4, l5, l6, l7, l8, l9⟩ :=
        readLoop_inv' S D cfg hR hD a ha cfg.fuel { r2 with buf := bqPut r2.buf o } ((rem r0.fp).take a) p'
          (by show I r2.fp r2.lengthRemaining; rw [e1, e3]; exact hI1) hs2
          (by show Owes G r2.decoder (rem r2.fp) p'; rw [e1, hrem1]; exact hO2)
          (by show (rem r2.fp).length + _ < cfg.fuel
              rw [e1, hrem1, if_neg hdata, List.length_drop]; rw [g1] at hlen0 ⊢; omega)
          (by intro h; exact absurd h hdata)
      rw [l1]
      simp only []
      obtain ⟨r', f1, f2, f3⟩ := bufGet_final (rem := rem) (I := I) D cfg hD a r3 p3 rest l5 l2 l3
        (by rw [l4]; show bqAll (bqPut r2.buf o) ++ p' = rest
            rw [bqPut_all, e2, hb1, ← hrest0, hp]; simp [List.append_assoc])
        (l7 (by simp [bqPut])) l6
      have hall3 : bqAll r3.buf ++ p3 = rest := by
        rw [l4]; show bqAll (bqPut r2.buf o) ++ p' = rest
        rw [bqPut_all, e2, hb1, ← hrest0, hp]; simp [List.append_assoc]
      refine ⟨r', f1, f2, ?_, fun hC hlt => ?_⟩
      · rw [f3]
        refine Nat.le_trans l8 ?_
        show (rem r2.fp).length ≤ _
        rw [e1, hrem1, List.length_drop, g1]; omega
      · rw [f3]
        apply l9 hC (fun h => absurd h hdata)
        have : bqLen r3.buf ≤ rest.length := by rw [bqLen_eq, ← hall3, List.length_append]; omega
        omega

theorem prependBuffered_spec (r : R σ δ) (out : Bytes) :
    ∃ r', prependBuffered r out = (bqAll r.buf ++ out, r') ∧ bqAll r'.buf = [] ∧ r'.fp = r.fp ∧
      r'.decoder = r.decoder ∧ r'.lengthRemaining = r.lengthRemaining := by
  unfold prependBuffered
  by_cases h : bqLen r.buf > 0
  · rw [if_pos h]
    exact ⟨{ r with buf := [] }, by simp [bqGetAll, bqPut_all], rfl, rfl, rfl, rfl⟩
  · rw [if_neg h]
    have h0 : bqAll r.buf = [] := List.eq_nil_of_length_eq_zero (by rw [← bqLen_eq]; omega)
    exact ⟨r, by simp [h0], h0, rfl, rfl, rfl⟩

theorem read_all_spec {rem : σ → Bytes} {I : σ → Option Int → Prop}
    (hA : RawReadAllSpec S cfg rem I) (hD : StreamLaw D G)
    (r : R σ δ) (rest : Bytes) (dco : Option Bool) (cache : Bool)
    (hdc : dco.getD cfg.decodeDefault = true)
    (hinv : Inv cfg rem I G r rest) :
    ∃ r', read S D cfg r none dco cache = (.ok rest, r') ∧ Inv cfg rem I G r' [] ∧
      rem r'.fp = [] ∧ (cache = true → r'.body = some rest ∨ (rest = [] ∧ r'.body = r.body)) ∧
      (ClosesAll S cfg I → S.isclosed r'.fp = true) := by
  obtain ⟨hI, p, hO, hrest⟩ := hinv
  have hdec0 := initDec_decoder cfg r
  have hbody0 := initDec_body cfg r
  obtain ⟨g1, g2, g3, _⟩ := initDec_other cfg r
  unfold read
  simp only [hdc]
  generalize initDec cfg r = r0 at *
  have hs0 : Settled cfg r0.decoder := by rw [hdec0]; exact settled_effDec cfg _
  have hO0 : Owes G r0.decoder (rem r0.fp) p := by rw [hdec0, g1]; exact hO
  have hI0 : I r0.fp r0.lengthRemaining := by rw [g1, g3]; exact hI
  have hrest0 : bqAll r0.buf ++ p = rest := by rw [g2]; exact hrest
  obtain ⟨r1, h1, hrem1, hI1, hb1, hd1, _, hbody1⟩ := hA.spec r0 hI0
  rw [h1]
  simp only []
  have hs1 : Settled cfg r1.decoder := hd1 ▸ hs0
  by_cases hc : (rem r0.fp).isEmpty = true ∧ bqLen r1.buf = 0
  · rw [if_pos hc]
    have hrem0 : rem r0.fp = [] := List.isEmpty_iff.mp hc.1
    have hp : p = [] := owes_nil D hD _ p (hrem0 ▸ hO0)
    have hball : bqAll r0.buf = [] := by
      rw [← hb1]; exact List.eq_nil_of_length_eq_zero (by rw [← bqLen_eq]; exact hc.2)
    have hr : rest = [] := by rw [← hrest0, hball, hp]; rfl
    refine ⟨r1, by rw [hr, hrem0], ⟨hI1, [], ?_, ?_⟩, hrem1, fun _ => Or.inr ⟨hr, by rw [hbody1, hbody0]⟩,
      fun hC => ?_⟩
    · rw [hs1, hd1, hrem1]; rw [hrem0, hp] at hO0; exact hO0
    · rw [hb1, hball]; rfl
    · have := hC r0 hI0
      rw [h1] at this
      exact this
  · rw [if_neg hc]
    simp only [Option.isNone_none, Bool.true_or]
    obtain ⟨r2, hdec, hO2, hs2, e1, e2, e3⟩ :=
      decode_last D cfg hD r1 (rem r0.fp) p hs1 (hd1 ▸ hO0)
    rw [hdec]
    simp only []
    obtain ⟨r3, hpb, hb3, f1, f2, f3⟩ := prependBuffered_spec r2 p
    rw [hpb]
    simp only []
    have hout : bqAll r2.buf ++ p = rest := by rw [e2, hb1]; exact hrest0
    rw [hout]
    have hinv3 : ∀ b : Option Bytes, Inv cfg rem I G { r3 with body := b } [] := by
      intro b
      refine ⟨?_, [], ?_, ?_⟩
      · show I r3.fp r3.lengthRemaining; rw [f1, f3, e1, e3]; exact hI1
      · show Owes G (effDec cfg r3.decoder) (rem r3.fp) []
        rw [f2, hs2, f1, e1, hrem1]; exact hO2
      · show bqAll r3.buf ++ [] = []; rw [hb3]; rfl
    have hclosed : ClosesAll S cfg I → S.isclosed r3.fp = true := by
      intro hC
      rw [f1, e1]
      have := hC r0 hI0
      rw [h1] at this
      exact this
    cases cache with
    | true =>
      exact ⟨{ r3 with body := some rest }, rfl, hinv3 _, by show rem r3.fp = []; rw [f1, e1]; exact hrem1,
        fun _ => Or.inl rfl, hclosed⟩
    | false =>
      refine ⟨r3, rfl, ?_, by rw [f1, e1]; exact hrem1, fun h => by simp at h, hclosed⟩
      have := hinv3 r3.body
      exact this

/-- `read(0)`: returns b"" and changes nothing the invariant sees -/
theorem read_zero_spec {rem : σ → Bytes} {I : σ → Option Int → Prop}
    (r : R σ δ) (rest : Bytes) (dco : Option Bool) (hinv : Inv cfg rem I G r rest) :
    ∃ r', read S D cfg r (some 0) dco = (.ok [], r') ∧ Inv cfg rem I G r' rest ∧ r'.fp = r.fp := by
  obtain ⟨hI, p, hO, hrest⟩ := hinv
  have hdec0 := initDec_decoder cfg r
  obtain ⟨g1, g2, g3, _⟩ := initDec_other cfg r
  unfold read
  generalize initDec cfg r = r0 at *
  refine ⟨{ r0 with buf := r0.buf }, ?_, ⟨?_, p, ?_, ?_⟩, g1⟩
  · simp [bufGet, bqGet]
  · show I r0.fp r0.lengthRemaining; rw [g1, g3]; exact hI
  · show Owes G (effDec cfg r0.decoder) (rem r0.fp) p
    rw [hdec0, effDec_idem, g1]; exact hO
  · show bqAll r0.buf ++ p = rest; rw [g2]; exact hrest

/-- one call of the `read` family with decoding on: `read()`, `read(0)`, `read(n)` / `readinto(n)` -/
theorem read_any_spec {rem : σ → Bytes} {I : σ → Option Int → Prop}
    (hR : RawReadSpec S cfg rem I) (hA : RawReadAllSpec S cfg rem I) (hD : StreamLaw D G)
    (amt : Option Nat) (r : R σ δ) (rest : Bytes) (dco : Option Bool)
    (hdc : dco.getD cfg.decodeDefault = true)
    (hinv : Inv cfg rem I G r rest) (hfuel : (rem r.fp).length + 1 < cfg.fuel) :
    ∃ out r' rest', read S D cfg r amt dco = (.ok out, r') ∧ Inv cfg rem I G r' rest' ∧
      out ++ rest' = rest ∧ (rem r'.fp).length ≤ (rem r.fp).length ∧
      (∀ a, amt = some a → out = rest.take a) ∧ (amt = none → out = rest) := by
  cases amt with
  | none =>
    obtain ⟨r', h1, h2, h3, _⟩ := read_all_spec S D cfg hA hD r rest dco false hdc hinv
    exact ⟨rest, r', [], h1, h2, by simp, by rw [h3]; exact Nat.zero_le _, fun a h => by simp at h, fun _ => rfl⟩
  | some a =>
    by_cases ha : a = 0
    · subst ha
      obtain ⟨r', h1, h2, h3⟩ := read_zero_spec S D cfg r rest dco hinv
      exact ⟨[], r', rest, h1, h2, by simp, by rw [h3]; exact Nat.le_refl _,
        fun a h => by cases h; simp, fun h => by simp at h⟩
    · obtain ⟨r', h1, h2, h3, _⟩ := read_n_spec S D cfg hR hD a (Nat.pos_of_ne_zero ha) r rest dco hdc hinv hfuel
      exact ⟨rest.take a, r', rest.drop a, h1, h2, List.take_append_drop a rest, h3,
        fun b h => by cases h; rfl, fun h => by simp at h⟩

/-- `.data` (and preload): everything that is left, cached; asking again returns the same bytes -/
theorem data_spec {rem : σ → Bytes} {I : σ → Option Int → Prop}
    (hA : RawReadAllSpec S cfg rem I) (hD : StreamLaw D G)
    (r : R σ δ) (rest : Bytes) (hdc : cfg.decodeDefault = true) (hb : r.body = none)
    (hinv : Inv cfg rem I G r rest) :
    ∃ r', data S D cfg r = (.ok rest, r') ∧ (data S D cfg r').1 = .ok rest := by
  obtain ⟨r', h1, h2, _, h4, _⟩ := read_all_spec S D cfg hA hD r rest none true (by simpa using hdc) hinv
  refine ⟨r', by simp [data, hb, h1], ?_⟩
  obtain ⟨r'', g1, _⟩ := read_all_spec S D cfg hA hD r' [] none true (by simpa using hdc) h2
  rcases h4 rfl with hbody | ⟨hr, hbody⟩
  · by_cases hr : rest = []
    · subst hr
      simp [data, hbody, g1]
    · have : rest.isEmpty = false := by simpa [List.isEmpty_iff] using hr
      simp [data, hbody, this]
  · subst hr
    rw [hb] at hbody
    simp [data, hbody, g1]

/-! ## streaming never yields an empty piece (the `if data:` / `if decoded:` guards) -/

theorem streamLoop_nonempty (amt : Option Nat) (dco : Option Bool) :
    ∀ (fuel : Nat) (r : R σ δ) (acc : List Bytes), (∀ x ∈ acc, x ≠ []) →
      ∀ x ∈ (streamLoop S D cfg amt dco fuel r acc).1.1, x ≠ [] := by
  intro fuel
  induction fuel with
  | zero => intro r acc h; simpa [streamLoop] using h
  | succ k ih =>
    intro r acc h
    unfold streamLoop
    split
    · split
      · simpa using h
      · rename_i d r' _
        apply ih
        split
        · exact h
        · rename_i hd
          intro x hx
          rcases List.mem_append.mp hx with hx | hx
          · exact h x hx
          · have : x = d := by simpa using hx
            subst this
            intro h0; exact hd (by simp [h0])
    · simpa using h

theorem rcLoop_nonempty (amt : Option Nat) (dc : Bool) :
    ∀ (fuel : Nat) (r : R σ δ) (acc : List Bytes), (∀ x ∈ acc, x ≠ []) →
      ∀ x ∈ (rcLoop S D amt dc fuel r acc).1.1, x ≠ [] := by
  intro fuel
  induction fuel with
  | zero => intro r acc h; simpa [rcLoop] using h
  | succ k ih =>
    intro r acc h
    unfold rcLoop
    split
    · simpa using h
    · split
      · simpa using h
      · split
        · simpa using h
        · split
          · simpa using h
          · rename_i dd r' _
            apply ih
            split
            · exact h
            · rename_i hd
              intro x hx
              rcases List.mem_append.mp hx with hx | hx
              · exact h x hx
              · have : x = dd := by simpa using hx
                subst this
                intro h0; exact hd (by simp [h0])

theorem readChunked_nonempty (r : R σ δ) (amt : Option Nat) (dc : Bool) :
    ∀ x ∈ (readChunked S D cfg r amt dc).1.1, x ≠ [] := by
  unfold readChunked
  simp only []
  split
  · simp
  · -- the pieces are `body.1.1`, whatever `_error_catcher` does with the exception
    have hb : ∀ x ∈ (
        if cfg.head then ((([] : List Bytes), (Except.ok () : Except RawExc Unit)), { (initDec cfg r) with fp := S.close (initDec cfg r).fp })
        else if S.isclosed (initDec cfg r).fp then (([], .ok ()), initDec cfg r)
        else
          match rcLoop S D amt dc cfg.fuel (initDec cfg r) [] with
          | ((ps, .error e), r) => ((ps, .error e), r)
          | ((ps, .ok _), r) =>
            let fl : (List Bytes × Except RawExc Unit) × R σ δ :=
              if dc then
                match flushDecoder D r with
                | (.error e, r) => ((ps, .error (.exc e)), r)
                | (.ok d, r) => ((if d.isEmpty then ps else ps ++ [d], .ok ()), r)
              else ((ps, .ok ()), r)
            match fl with
            | ((ps, .error e), r) => ((ps, .error e), r)
            | ((ps, .ok _), r) =>
              match rcTrailer S cfg.fuel r with
              | (.error e, r) => ((ps, .error e), r)
              | (.ok _, r) => ((ps, .ok ()), { r with fp := S.close r.fp })).1.1, x ≠ [] := by
      split
      · simp
      · split
        · simp
        · have hrc := rcLoop_nonempty S D amt dc cfg.fuel (initDec cfg r) [] (by simp)
          generalize rcLoop S D amt dc cfg.fuel (initDec cfg r) [] = res at hrc ⊢
          obtain ⟨⟨ps, e⟩, r1⟩ := res
          cases e with
          | error e => simpa using hrc
          | ok u =>
            simp only []
            have hfl : ∀ x ∈ (
                if dc then
                  match flushDecoder D r1 with
                  | (.error e, r) => ((ps, (Except.error (.exc e) : Except RawExc Unit)), r)
                  | (.ok d, r) => ((if d.isEmpty then ps else ps ++ [d], .ok ()), r)
                else ((ps, .ok ()), r1)).1.1, x ≠ [] := by
              split
              · generalize flushDecoder D r1 = fr
                obtain ⟨x, r2⟩ := fr
                cases x with
                | error e => simpa using hrc
                | ok d =>
                  simp only []
                  split
                  · simpa using hrc
                  · rename_i hd
                    intro x hx
                    rcases List.mem_append.mp hx with hx | hx
                    · exact hrc x hx
                    · have : x = d := by simpa using hx
                      subst this
                      intro h0; exact hd (by simp [h0])
              · simpa using hrc
            generalize (if dc then
                  match flushDecoder D r1 with
                  | (.error e, r) => ((ps, (Except.error (.exc e) : Except RawExc Unit)), r)
                  | (.ok d, r) => ((if d.isEmpty then ps else ps ++ [d], .ok ()), r)
                else ((ps, .ok ()), r1)) = fl at hfl ⊢
            obtain ⟨⟨ps2, e2⟩, r2⟩ := fl
            cases e2 with
            | error e => simpa using hfl
            | ok u =>
              simp only []
              generalize rcTrailer S cfg.fuel r2 = tr
              obtain ⟨x, r3⟩ := tr
              cases x <;> simpa using hfl
    split <;> exact hb

theorem stream_nonempty (r : R σ δ) (amt : Option Nat) (dco : Option Bool) :
    ∀ x ∈ (stream S D cfg r amt dco).1.1, x ≠ [] := by
  unfold stream
  split
  · exact readChunked_nonempty S D cfg r amt _
  · exact streamLoop_nonempty S D cfg amt dco cfg.fuel r [] (by simp)

/-- source law used for `stream`: a closed file has nothing left -/
def ClosedNil (rem : σ → Bytes) (I : σ → Option Int → Prop) : Prop :=
  ∀ (h : σ) (lr : Option Int), I h lr → S.isclosed h = true → rem h = []

/-- the non-chunked branch of `stream(amt)` (`amt ≠ 0`, decoding on), started anywhere in the body:
it terminates, never raises, and the pieces it yields concatenate to everything that was left -/
theorem streamLoop_concat {rem : σ → Bytes} {I : σ → Option Int → Prop}
    (hR : RawReadSpec S cfg rem I) (hA : RawReadAllSpec S cfg rem I) (hD : StreamLaw D G)
    (hCN : ClosesN S cfg rem I) (hCA : ClosesAll S cfg I) (hZ : ClosedNil S rem I)
    (amt : Option Nat) (hamt : amt ≠ some 0) (dco : Option Bool) (hdc : dco.getD cfg.decodeDefault = true) :
    ∀ (fuel : Nat) (r : R σ δ) (rest : Bytes) (acc : List Bytes), Inv cfg rem I G r rest →
      2 * rest.length + (if S.isclosed r.fp = true then 0 else 1) < fuel →
      (rem r.fp).length + 1 < cfg.fuel →
      ∃ ps r', streamLoop S D cfg amt dco fuel r acc = ((acc ++ ps, none), r') ∧ ps.flatten = rest ∧
        Inv cfg rem I G r' [] := by
  intro fuel
  induction fuel with
  | zero => intro r rest acc _ h; omega
  | succ k ih =>
    intro r rest acc hinv hm hfuel
    unfold streamLoop
    by_cases hc : (!S.isclosed r.fp) = true ∨ bqLen r.buf > 0
    · rw [if_pos hc]
      -- the measure is positive here
      have hpos : rest ≠ [] ∨ S.isclosed r.fp = false := by
        rcases hc with h | h
        · right; simpa using h
        · left
          obtain ⟨_, p, _, hrest⟩ := hinv
          intro h0
          rw [← hrest] at h0
          have : bqAll r.buf = [] := (List.append_eq_nil_iff.mp h0).1
          rw [bqLen_eq, this] at h; simp at h
      cases amt with
      | none =>
        obtain ⟨r1, h1, hinv1, hrem1, _, hcl1⟩ := read_all_spec S D cfg hA hD r rest dco false hdc hinv
        rw [h1]
        simp only []
        have hcl := hcl1 hCA
        obtain ⟨ps, r', e1, e2, e3⟩ := ih r1 [] (if rest.isEmpty then acc else acc ++ [rest]) hinv1
          (by
            simp only [List.length_nil, hcl, if_true]
            rcases hpos with h | h
            · have : 0 < rest.length := List.length_pos_iff.mpr h
              omega
            · simp [h] at hm; omega)
          (by rw [hrem1]; simp; omega)
        rw [e1]
        by_cases hre : rest = []
        · subst hre
          exact ⟨ps, r', by simp, e2, e3⟩
        · have : rest.isEmpty = false := by simpa [List.isEmpty_iff] using hre
          refine ⟨[rest] ++ ps, r', by simp [this], by simp [e2], e3⟩
      | some a =>
        have ha : 0 < a := Nat.pos_of_ne_zero (fun h0 => hamt (by rw [h0]))
        obtain ⟨r1, h1, hinv1, hlen1, hcl1⟩ := read_n_spec S D cfg hR hD a ha r rest dco hdc hinv hfuel
        rw [h1]
        simp only []
        obtain ⟨ps, r', e1, e2, e3⟩ := ih r1 (rest.drop a)
          (if (rest.take a).isEmpty then acc else acc ++ [rest.take a]) hinv1
          (by
            by_cases hre : rest = []
            · subst hre
              have hcl := hcl1 hCN (by simp; exact ha)
              rcases hpos with h | h
              · exact absurd rfl h
              · simp [h] at hm; simp [hcl]; omega
            · have : 0 < rest.length := List.length_pos_iff.mpr hre
              have hd : (rest.drop a).length + 1 ≤ rest.length := by rw [List.length_drop]; omega
              split <;> split at hm <;> omega)
          (by omega)
        rw [e1]
        by_cases hte : rest.take a = []
        · have hre : rest = [] := by
            rcases List.take_eq_nil_iff.mp hte with h | h
            · omega
            · exact h
          subst hre
          exact ⟨ps, r', by simp, by simpa using e2, e3⟩
        · have : (rest.take a).isEmpty = false := by simpa [List.isEmpty_iff] using hte
          refine ⟨[rest.take a] ++ ps, r', by simp [this], ?_, e3⟩
          simp [e2]
    · rw [if_neg hc]
      have hcl : S.isclosed r.fp = true := by
        cases h : S.isclosed r.fp with
        | true => rfl
        | false => exact absurd (Or.inl (by simp [h])) hc
      have hb : bqLen r.buf = 0 := by
        have : ¬ bqLen r.buf > 0 := fun h => hc (Or.inr h)
        omega
      obtain ⟨hI, p, hO, hrest⟩ := hinv
      have hrem : rem r.fp = [] := hZ r.fp r.lengthRemaining hI hcl
      have hp : p = [] := owes_nil D hD _ p (hrem ▸ hO)
      have hball : bqAll r.buf = [] := List.eq_nil_of_length_eq_zero (by rw [← bqLen_eq]; exact hb)
      have hr : rest = [] := by rw [← hrest, hball, hp]; rfl
      subst hr
      exact ⟨[], r, by simp, rfl, ⟨hI, p, hO, hrest⟩⟩

theorem iterSplit_nonempty : ∀ (ps : List Bytes) (carry : Bytes), ∀ x ∈ iterSplit ps carry, x ≠ [] := by
  intro ps
  induction ps with
  | nil =>
    intro carry x hx
    unfold iterSplit at hx
    split at hx
    · simp at hx
    · rename_i hc
      have : x = carry := by simpa using hx
      subst this
      intro h0; exact hc (by simp [h0])
  | cons chunk rest ih =>
    intro carry x hx
    unfold iterSplit at hx
    split at hx
    · simp only [List.cons_append, List.mem_cons, List.mem_append, List.mem_map] at hx
      rcases hx with hx | ⟨y, _, hy⟩ | hx
      · subst hx; simp
      · subst hy; simp
      · exact ih _ x hx
    · exact ih _ x hx

theorem iterSplitErr_nonempty : ∀ (ps : List Bytes) (carry : Bytes), ∀ x ∈ iterSplitErr ps carry, x ≠ [] := by
  intro ps
  induction ps with
  | nil => intro carry x hx; simp [iterSplitErr] at hx
  | cons chunk rest ih =>
    intro carry x hx
    unfold iterSplitErr at hx
    split at hx
    · simp only [List.cons_append, List.mem_cons, List.mem_append, List.mem_map] at hx
      rcases hx with hx | ⟨y, _, hy⟩ | hx
      · subst hx; simp
      · subst hy; simp
      · exact ih _ x hx
    · exact ih _ x hx

theorem iter_nonempty (r : R σ δ) : ∀ x ∈ (iter S D cfg r).1.1, x ≠ [] := by
  unfold iter
  split
  · exact iterSplit_nonempty _ _
  · exact iterSplitErr_nonempty _ _

end
end U3.Resp
