import U3.Model.Manager
import U3.Lemmas.Headers
/-! Helper lemmas for C05 / C06 (`U3.Manager`). -/
namespace U3.Manager
open U3 U3.Headers U3.Retry

/-! ## `Retry.increment` on a redirect -/

theorem foldl_min_le (xs : List Int) (x n : Int) (h : n = x ∨ n ∈ xs) : xs.foldl min x ≤ n := by
  induction xs generalizing x n with
  | nil =>
    rcases h with h | h
    · subst h; exact Int.le_refl _
    · cases h
  | cons y ys ih =>
    simp only [List.foldl_cons]
    rcases h with h | h
    · subst h
      have := ih (min n y) (min n y) (Or.inl rfl)
      exact Int.le_trans this (Int.min_le_left _ _)
    · rcases List.mem_cons.mp h with h | h
      · subst h
        have := ih (min x n) (min x n) (Or.inl rfl)
        exact Int.le_trans this (Int.min_le_right _ _)
      · exact ih (min x y) n (Or.inr h)

theorem isExhausted_of_neg (r : Retry) (n : Int) (hn : n < 0) (hm : Count.num n ∈ r.counters) :
    r.isExhausted = true := by
  have hmem : n ∈ r.retryCounts := by
    unfold Retry.retryCounts
    rw [List.mem_filterMap]
    refine ⟨.num n, hm, ?_⟩
    have : (n != 0) = true := by simp; omega
    simp [this]
  unfold Retry.isExhausted
  cases hrc : r.retryCounts with
  | nil => rw [hrc] at hmem; cases hmem
  | cons x xs =>
    rw [hrc] at hmem
    have hle : xs.foldl min x ≤ n := foldl_min_le xs x n (by
      rcases List.mem_cons.mp hmem with h | h
      · exact Or.inl h
      · exact Or.inr h)
    simp only [decide_eq_true_eq]
    omega

theorem Count.dec_ne_disabled (c : Count) : c.dec ≠ .disabled := by
  cases c <;> simp [Count.dec]

/-- what a successful `increment` on a redirect response returns -/
theorem increment_redirect_ok {r r' : Retry} {m : Option Str} {st : Nat}
    (h : r.increment m (.redirect st) = .ok r') :
    r'.redirect = r.redirect.dec ∧ r'.total = r.total.dec ∧ r'.isExhausted = false ∧
    r'.raiseOnRedirect = r.raiseOnRedirect ∧
    r'.removeHeadersOnRedirect = r.removeHeadersOnRedirect.map lower := by
  simp only [Retry.increment, Retry.finish] at h
  split at h
  · cases h
  · rename_i hex
    injection h with h
    subst h
    refine ⟨?_, ?_, by simpa using hex, ?_, ?_⟩ <;>
    · simp only [Retry.new, Retry.init]
      split
      · rename_i hd
        rcases hd with hd | hd
        · exact absurd hd (Count.dec_ne_disabled _)
        · exact absurd hd (Count.dec_ne_disabled _)
      · rfl

theorem increment_redirect_err {r : Retry} {m : Option Str} {st : Nat} {e : Raise}
    (h : r.increment m (.redirect st) = .error e) : ∃ c, e = .maxRetry c := by
  simp only [Retry.increment, Retry.finish] at h
  split at h
  · injection h with h; exact ⟨_, h.symm⟩
  · cases h

theorem redirect_budget_step {r r' : Retry} {m : Option Str} {st b : Nat}
    (h : r.increment m (.redirect st) = .ok r') (hb : r.redirect.budget = some b) :
    ∃ b', r'.redirect.budget = some b' ∧ b' + 1 ≤ b := by
  obtain ⟨hr, _, hex, _, _⟩ := increment_redirect_ok h
  have hcnt : r'.redirect ∈ r'.counters := by simp [Retry.counters]
  cases hrd : r.redirect with
  | none => rw [hrd] at hb; cases hb
  | disabled =>
    rw [hrd] at hr
    simp only [Count.dec] at hr
    have := isExhausted_of_neg r' (-1) (by omega) (hr ▸ hcnt)
    rw [this] at hex; cases hex
  | num n =>
    rw [hrd] at hr hb
    simp only [Count.dec] at hr
    simp only [Count.budget, Option.some.injEq] at hb
    have hn : ¬ (n - 1 < 0) := by
      intro hneg
      have := isExhausted_of_neg r' (n - 1) hneg (hr ▸ hcnt)
      rw [this] at hex; cases hex
    refine ⟨(n - 1).toNat, by rw [hr]; rfl, ?_⟩
    omega

theorem total_budget_step {r r' : Retry} {m : Option Str} {st b : Nat}
    (h : r.increment m (.redirect st) = .ok r') (hb : r.total.budget = some b) :
    ∃ b', r'.total.budget = some b' ∧ b' + 1 ≤ b := by
  obtain ⟨_, hr, hex, _, _⟩ := increment_redirect_ok h
  have hcnt : r'.total ∈ r'.counters := by simp [Retry.counters]
  cases hrd : r.total with
  | none => rw [hrd] at hb; cases hb
  | disabled =>
    rw [hrd] at hr
    simp only [Count.dec] at hr
    have := isExhausted_of_neg r' (-1) (by omega) (hr ▸ hcnt)
    rw [this] at hex; cases hex
  | num n =>
    rw [hrd] at hr hb
    simp only [Count.dec] at hr
    simp only [Count.budget, Option.some.injEq] at hb
    have hn : ¬ (n - 1 < 0) := by
      intro hneg
      have := isExhausted_of_neg r' (n - 1) hneg (hr ▸ hcnt)
      rw [this] at hex; cases hex
    refine ⟨(n - 1).toNat, by rw [hr]; rfl, ?_⟩
    omega

end U3.Manager

namespace U3.Manager
open U3 U3.Headers U3.Retry

/-! ## one pass through the pool -/

@[simp] theorem deriveRetry_retry (r : Retry) (b : Bool) (d : Arg) : deriveRetry (.retry r) b d = r := rfl

theorem poolAttempt_ok {W : World} {p : Pool} {method url : Str} {body : Option Bytes}
    {headers : Option Hdrs} {retries : Arg} {redirect ash : Bool} {s : Sent} {r : Retry} {hs : Hdrs}
    (h : poolAttempt W p method url body headers retries redirect ash = .ok (s, r, hs)) :
    r = deriveRetry retries redirect p.retries ∧ s.method = method ∧ s.body = body ∧ s.url = url ∧
    s.headers = hs.items ∧ (ash = true → ∃ pu, W.parse url = some pu ∧ isSameHost p.id url pu = true) := by
  unfold poolAttempt at h
  split at h
  · cases h
  · rename_i pu hpu
    split at h
    · cases h
    · rename_i hsame
      simp only [Except.ok.injEq, Prod.mk.injEq] at h
      obtain ⟨hs1, hr, hh⟩ := h
      subst hs1 hr hh
      refine ⟨rfl, rfl, rfl, rfl, rfl, ?_⟩
      intro ha
      refine ⟨pu, hpu, ?_⟩
      subst ha
      simpa using hsame

/-- the recursive call of the pool's redirect branch -/
theorem poolStep_next {W : World} {p : Pool} {method url : Str} {body : Option Bytes}
    {headers : Option Hdrs} {retries : Arg} {redirect ash : Bool} {s : Sent} {m' u' : Str}
    {b' : Option Bytes} {h' : Hdrs} {r' : Retry}
    (h : poolStep W p method url body headers retries redirect ash = .next s m' u' b' h' r') :
    ∃ hs, poolAttempt W p method url body headers retries redirect ash
        = .ok (s, deriveRetry retries redirect p.retries, hs) ∧
      redirect = true ∧ s.reply.redirectLocation = some u' ∧
      (m', b', h') = rewrite303 s.reply.status method body hs ∧
      (deriveRetry retries redirect p.retries).increment (some m') (.redirect s.reply.status) = .ok r' := by
  unfold poolStep at h
  split at h
  · cases h
  · rename_i sent r hs hpa
    have hr := (poolAttempt_ok hpa).1
    split at h
    · rename_i loc hloc
      dsimp only at h
      split at h
      · cases h
      · cases h
      · rename_i r'' hinc
        simp only [PoolStep.next.injEq] at h
        obtain ⟨h1, h2, h3, h4, h5, h6⟩ := h
        subst h1 h3 h6
        refine ⟨hs, by rw [hpa, hr], ?_, ?_, ?_, ?_⟩
        · cases redirect <;> simp_all
        · cases redirect <;> simp_all
        · rw [← h2, ← h4, ← h5]
        · rw [← hr, ← h2]; exact hinc
    · cases h

/-- a pass that does not recurse has sent at most one request -/
theorem poolStep_done_len {W : World} {p : Pool} {method url : Str} {body : Option Bytes}
    {headers : Option Hdrs} {retries : Arg} {redirect ash : Bool} {R : Run}
    (h : poolStep W p method url body headers retries redirect ash = .done R) : R.log.length ≤ 1 := by
  unfold poolStep at h
  split at h
  · cases h; simp
  · split at h
    · dsimp only at h
      split at h
      · cases h; unfold onExhausted; split <;> simp
      · cases h; simp
      · cases h
    · cases h; unfold notFollowed; split <;> simp

@[simp] theorem Run.cons_log (s : Sent) (r : Run) : (r.cons s).log = s :: r.log := rfl
@[simp] theorem Run.cons_outcome (s : Sent) (r : Run) : (r.cons s).outcome = r.outcome := rfl
@[simp] theorem Run.append_log (l : List Sent) (r : Run) : (r.append l).log = l ++ r.log := rfl
@[simp] theorem Run.append_outcome (l : List Sent) (r : Run) : (r.append l).outcome = r.outcome := rfl
@[simp] theorem Run.withUrl_outcome (r : Run) (u : Str) : (r.withUrl u).outcome = r.outcome := rfl
@[simp] theorem Run.withUrl_length (r : Run) (u : Str) : (r.withUrl u).log.length = r.log.length := by
  simp [Run.withUrl]

/-- **pool-level budget**: requests sent ≤ 1 + redirect budget of the policy in force -/
theorem pool_len_redirect (W : World) (p : Pool) :
    ∀ (fuel : Nat) (method url : Str) (body : Option Bytes) (headers : Option Hdrs) (retries : Arg)
      (redirect ash : Bool) (b : Nat),
      (deriveRetry retries redirect p.retries).redirect.budget = some b →
      (poolUrlopen W p fuel method url body headers retries redirect ash).log.length ≤ b + 1 := by
  intro fuel
  induction fuel with
  | zero => intros; simp [poolUrlopen]
  | succ n ih =>
    intro method url body headers retries redirect ash b hb
    simp only [poolUrlopen]
    split
    · rename_i R hR
      have := poolStep_done_len hR
      omega
    · rename_i s m' u' b' h' r' hstep
      obtain ⟨hs, _, _, _, _, hinc⟩ := poolStep_next hstep
      obtain ⟨b2, hb2, hle⟩ := redirect_budget_step hinc hb
      have := ih m' u' b' (some h') (.retry r') redirect ash b2 (by simpa using hb2)
      simp only [Run.cons_log, List.length_cons]
      omega

theorem pool_len_total (W : World) (p : Pool) :
    ∀ (fuel : Nat) (method url : Str) (body : Option Bytes) (headers : Option Hdrs) (retries : Arg)
      (redirect ash : Bool) (b : Nat),
      (deriveRetry retries redirect p.retries).total.budget = some b →
      (poolUrlopen W p fuel method url body headers retries redirect ash).log.length ≤ b + 1 := by
  intro fuel
  induction fuel with
  | zero => intros; simp [poolUrlopen]
  | succ n ih =>
    intro method url body headers retries redirect ash b hb
    simp only [poolUrlopen]
    split
    · rename_i R hR
      have := poolStep_done_len hR
      omega
    · rename_i s m' u' b' h' r' hstep
      obtain ⟨hs, _, _, _, _, hinc⟩ := poolStep_next hstep
      obtain ⟨b2, hb2, hle⟩ := total_budget_step hinc hb
      have := ih m' u' b' (some h') (.retry r') redirect ash b2 (by simpa using hb2)
      simp only [Run.cons_log, List.length_cons]
      omega

/-- with `redirect=False` the pool never recurses -/
theorem poolStep_noredirect {W : World} {p : Pool} {method url : Str} {body : Option Bytes}
    {headers : Option Hdrs} {retries : Arg} {ash : Bool} :
    ∃ R, poolStep W p method url body headers retries false ash = .done R := by
  cases hst : poolStep W p method url body headers retries false ash with
  | done R => exact ⟨R, rfl⟩
  | next s m' u' b' h' r' =>
    obtain ⟨_, _, hred, _⟩ := poolStep_next hst
    cases hred

theorem poolOnce_eq {W : World} {p : Pool} {method url : Str} {body : Option Bytes}
    {headers : Option Hdrs} {retries : Arg} {ash : Bool} :
    poolStep W p method url body headers retries false ash
      = .done (poolUrlopen W p 1 method url body headers retries false ash) := by
  obtain ⟨R, hR⟩ := poolStep_noredirect (W := W) (p := p) (method := method) (url := url) (body := body)
    (headers := headers) (retries := retries) (ash := ash)
  simp only [poolUrlopen, hR]

theorem poolOnce_len {W : World} {p : Pool} {method url : Str} {body : Option Bytes}
    {headers : Option Hdrs} {retries : Arg} {ash : Bool} :
    (poolUrlopen W p 1 method url body headers retries false ash).log.length ≤ 1 :=
  poolStep_done_len poolOnce_eq

end U3.Manager

namespace U3.Manager
open U3 U3.Headers U3.Retry

/-! ## one pass through the manager -/

theorem notFollowed_log (r : Retry) (m : Str) (s : Sent) : (notFollowed r m s).log = [s] := by
  unfold notFollowed; split <;> rfl

theorem notFollowed_outcome (r : Retry) (m : Str) (s : Sent) :
    (notFollowed r m s).outcome = .response s.reply ∨ (notFollowed r m s).outcome = .statusRetry := by
  unfold notFollowed; split
  · exact Or.inr rfl
  · exact Or.inl rfl

/-- the single pass of the pool with `redirect=False` -/
theorem poolOnce_shape (W : World) (p : Pool) (method url : Str) (body : Option Bytes)
    (headers : Option Hdrs) (retries : Arg) (ash : Bool) :
    (∃ o, poolAttempt W p method url body headers retries false ash = .error o ∧
        poolUrlopen W p 1 method url body headers retries false ash = ⟨[], o⟩) ∨
    (∃ s r hs, poolAttempt W p method url body headers retries false ash = .ok (s, r, hs) ∧
        poolUrlopen W p 1 method url body headers retries false ash = notFollowed r method s) := by
  have h := poolOnce_eq (W := W) (p := p) (method := method) (url := url) (body := body)
    (headers := headers) (retries := retries) (ash := ash)
  unfold poolStep at h
  split at h
  · rename_i o ho
    left; refine ⟨o, ho, ?_⟩
    injection h with h; exact h.symm
  · rename_i s r hs hpa
    right; refine ⟨s, r, hs, hpa, ?_⟩
    simp only [Bool.false_eq_true, if_false] at h
    injection h with h; exact h.symm

@[simp] theorem proxyKw_body (m : Mgr) (u : PUrl) (kw : Kw) : (proxyKw m u kw).body = kw.body := by
  unfold proxyKw; split
  · split <;> rfl
  · rfl

@[simp] theorem proxyKw_retries (m : Mgr) (u : PUrl) (kw : Kw) : (proxyKw m u kw).retries = kw.retries := by
  unfold proxyKw; split
  · split <;> rfl
  · rfl

theorem proxyKw_noproxy (m : Mgr) (u : PUrl) (kw : Kw) (h : m.proxy = none) : proxyKw m u kw = kw := by
  unfold proxyKw; rw [h]

/-- the request target the manager hands to the pool -/
def mgrTarget (m : Mgr) (u : PUrl) (url : Str) : Str :=
  if (m.proxy.isSome && !requiresTunnel m.proxy u.scheme) = true then url else u.requestUri

/-- the headers the manager hands to the pool -/
def mgrHeaders (m : Mgr) (u : PUrl) (kw : Kw) : Hdrs := (proxyKw m u kw).headers.getD m.headers

theorem mgrSend_shape (W : World) (m : Mgr) (conn : Pool) (u : PUrl) (method url : Str) (kw : Kw) :
    (∃ o, mgrSend W m conn u method url kw = ⟨[], o⟩ ∧ ∀ r, o ≠ .response r) ∨
    (∃ s r hs, poolAttempt W conn method (mgrTarget m u url) kw.body (some (kw.headers.getD m.headers))
          kw.retries false false = .ok (s, r, hs) ∧
        (mgrSend W m conn u method url kw).log = [{ s with url := url }] ∧
        ((mgrSend W m conn u method url kw).outcome = .response s.reply ∨
         (mgrSend W m conn u method url kw).outcome = .statusRetry)) := by
  unfold mgrSend
  rcases poolOnce_shape W conn method (mgrTarget m u url) kw.body (some (kw.headers.getD m.headers))
      kw.retries false with ⟨o, ho, hR⟩ | ⟨s, r, hs, hpa, hR⟩
  · left
    refine ⟨o, ?_, ?_⟩
    · simp only [mgrTarget] at hR
      simp only [hR, Run.withUrl, List.map_nil]
    · intro r hr
      subst hr
      unfold poolAttempt at ho
      split at ho
      · cases ho
      · simp at ho
  · right
    refine ⟨s, r, hs, hpa, ?_, ?_⟩
    · simp only [mgrTarget] at hR
      simp only [hR, Run.withUrl, notFollowed_log, List.map_cons, List.map_nil]
    · simp only [mgrTarget] at hR
      simp only [hR, Run.withUrl_outcome]
      exact notFollowed_outcome r method s

/-- what is known when one pass of the manager ends in the recursive call -/
structure MgrNext (W : World) (m : Mgr) (method url : Str) (redirect : Bool) (kw : Kw)
    (log : List Sent) (m' u' : Str) (kw' : Kw) where
  u : PUrl
  conn : Pool
  s : Sent
  hs : Hdrs
  r0 : Retry
  loc : Str
  r' : Retry
  same : Bool
  parse : W.parse url = some u
  connOk : connectionFromHost m u.host u.port u.scheme = .ok conn
  attempt : poolAttempt W conn method (mgrTarget m u url) kw.body (some (mgrHeaders m u kw)) kw.retries
    false false = .ok (s, r0, hs)
  log_eq : log = [{ s with url := url }]
  redirect_on : redirect = true
  location : s.reply.redirectLocation = some loc
  joined : W.join url loc = some u'
  method_eq : m' = (rewrite303 s.reply.status method kw.body (mgrHeaders m u kw)).1
  body_eq : kw'.body = (rewrite303 s.reply.status method kw.body (mgrHeaders m u kw)).2.1
  headers_eq : kw'.headers = some (if same then (rewrite303 s.reply.status method kw.body (mgrHeaders m u kw)).2.2
    else strip (deriveRetry kw.retries redirect m.retries).removeHeadersOnRedirect
      (rewrite303 s.reply.status method kw.body (mgrHeaders m u kw)).2.2)
  same_eq : ((deriveRetry kw.retries redirect m.retries).removeHeadersOnRedirect.isEmpty = true ∧ same = true) ∨
    (∃ lu, W.parse u' = some lu ∧ same = isSameHost conn.id u' lu)
  retries_eq : kw'.retries = .retry r'
  incr : (deriveRetry kw.retries redirect m.retries).increment (some m') (.redirect s.reply.status) = .ok r'

theorem mgrRedirect_next {W : World} {m : Mgr} {conn : Pool} {method url : Str} {redirect : Bool} {headers : Hdrs}
    {kw : Kw} {first : Run} {reply : Reply} {loc : Str} {log : List Sent} {m' u' : Str} {kw' : Kw}
    (h : mgrRedirect W m conn method url redirect headers kw first reply loc = .next log m' u' kw') :
    log = first.log ∧ W.join url loc = some u' ∧
    m' = (rewrite303 reply.status method kw.body headers).1 ∧
    kw'.body = (rewrite303 reply.status method kw.body headers).2.1 ∧
    ∃ same r', kw'.headers = some (if same then (rewrite303 reply.status method kw.body headers).2.2
        else strip (deriveRetry kw.retries redirect m.retries).removeHeadersOnRedirect
          (rewrite303 reply.status method kw.body headers).2.2) ∧
      (((deriveRetry kw.retries redirect m.retries).removeHeadersOnRedirect.isEmpty = true ∧ same = true) ∨
        (∃ lu, W.parse u' = some lu ∧ same = isSameHost conn.id u' lu)) ∧
      kw'.retries = .retry r' ∧
      (deriveRetry kw.retries redirect m.retries).increment (some m') (.redirect reply.status) = .ok r' := by
  unfold mgrRedirect at h
  split at h
  · cases h
  · rename_i loc' hj
    dsimp only at h
    split at h
    · cases h
    · rename_i same hsame
      split at h
      · cases h
      · cases h
      · rename_i r' hinc
        simp only [MgrStep.next.injEq] at h
        obtain ⟨h1, h2, h3, h4⟩ := h
        subst h1 h2 h3 h4
        refine ⟨rfl, hj, rfl, rfl, same, r', rfl, ?_, rfl, hinc⟩
        split at hsame
        · rename_i he
          left; exact ⟨he, by injection hsame with h; exact h.symm⟩
        · right
          cases hp : W.parse loc' with
          | none => rw [hp] at hsame; cases hsame
          | some lu =>
            rw [hp] at hsame
            simp only [Option.map_some, Option.some.injEq] at hsame
            exact ⟨lu, rfl, hsame.symm⟩

theorem mgrStep_next {W : World} {m : Mgr} {method url : Str} {redirect : Bool} {kw : Kw}
    {log : List Sent} {m' u' : Str} {kw' : Kw}
    (h : mgrStep W m method url redirect kw = .next log m' u' kw') :
    Nonempty (MgrNext W m method url redirect kw log m' u' kw') := by
  unfold mgrStep at h
  split at h
  · cases h
  · rename_i u hu
    dsimp only at h
    split at h
    · cases h
    · rename_i conn hconn
      split at h
      · rename_i reply hout
        split at h
        · cases h
        · rename_i loc hloc
          obtain ⟨hlog, hj, hm, hb, same, r', hh, hs, hr, hinc⟩ := mgrRedirect_next h
          rcases mgrSend_shape W m conn u method url (proxyKw m u kw) with ⟨o, hR, hne⟩ | ⟨s, r0, hs0, hpa, hl, ho⟩
          · rw [hR] at hout
            exact absurd hout (hne reply)
          · have hrep : reply = s.reply := by
              rcases ho with ho | ho
              · rw [ho] at hout; injection hout with h; exact h.symm
              · rw [ho] at hout; cases hout
            subst hrep
            have hred : redirect = true := by cases redirect <;> simp_all
            subst hred
            simp only [if_true] at hloc
            simp only [proxyKw_body, proxyKw_retries] at hpa hm hb hh hs hr hinc
            exact ⟨{ u := u, conn := conn, s := s, hs := hs0, r0 := r0, loc := loc, r' := r', same := same,
                     parse := hu, connOk := hconn, attempt := hpa, log_eq := by rw [hlog, hl],
                     redirect_on := rfl, location := hloc, joined := hj, method_eq := hm, body_eq := hb,
                     headers_eq := hh, same_eq := hs, retries_eq := hr, incr := hinc }⟩
      · cases h

theorem mgrStep_done_len {W : World} {m : Mgr} {method url : Str} {redirect : Bool} {kw : Kw} {R : Run}
    (h : mgrStep W m method url redirect kw = .done R) : R.log.length ≤ 1 := by
  unfold mgrStep at h
  split at h
  · cases h; simp
  · rename_i u hu
    dsimp only at h
    split at h
    · cases h; simp
    · rename_i conn hconn
      have hlen : (mgrSend W m conn u method url (proxyKw m u kw)).log.length ≤ 1 := by
        unfold mgrSend
        simp only [Run.withUrl_length]
        exact poolOnce_len
      split at h
      · split at h
        · cases h; exact hlen
        · unfold mgrRedirect at h
          split at h
          · cases h; exact hlen
          · dsimp only at h
            split at h
            · cases h; exact hlen
            · split at h
              · cases h; unfold onExhausted; split
                · exact hlen
                · exact hlen
              · cases h; exact hlen
              · cases h
      · cases h; exact hlen

/-- **manager-level budget**: requests sent ≤ 1 + redirect budget of the policy the code derives -/
theorem mgr_len_redirect (W : World) (m : Mgr) :
    ∀ (fuel : Nat) (method url : Str) (redirect : Bool) (kw : Kw) (b : Nat),
      (deriveRetry kw.retries redirect m.retries).redirect.budget = some b →
      (mgrUrlopen W m fuel method url redirect kw).log.length ≤ b + 1 := by
  intro fuel
  induction fuel with
  | zero => intros; simp [mgrUrlopen]
  | succ n ih =>
    intro method url redirect kw b hb
    simp only [mgrUrlopen]
    split
    · rename_i R hR
      have := mgrStep_done_len hR
      omega
    · rename_i log m' u' kw' hstep
      obtain ⟨N⟩ := mgrStep_next hstep
      obtain ⟨b2, hb2, hle⟩ := redirect_budget_step N.incr hb
      have := ih m' u' redirect kw' b2 (by rw [N.retries_eq]; simpa using hb2)
      simp only [Run.append_log, List.length_append, N.log_eq, List.length_cons, List.length_nil]
      omega

theorem mgr_len_total (W : World) (m : Mgr) :
    ∀ (fuel : Nat) (method url : Str) (redirect : Bool) (kw : Kw) (b : Nat),
      (deriveRetry kw.retries redirect m.retries).total.budget = some b →
      (mgrUrlopen W m fuel method url redirect kw).log.length ≤ b + 1 := by
  intro fuel
  induction fuel with
  | zero => intros; simp [mgrUrlopen]
  | succ n ih =>
    intro method url redirect kw b hb
    simp only [mgrUrlopen]
    split
    · rename_i R hR
      have := mgrStep_done_len hR
      omega
    · rename_i log m' u' kw' hstep
      obtain ⟨N⟩ := mgrStep_next hstep
      obtain ⟨b2, hb2, hle⟩ := total_budget_step N.incr hb
      have := ih m' u' redirect kw' b2 (by rw [N.retries_eq]; simpa using hb2)
      simp only [Run.append_log, List.length_append, N.log_eq, List.length_cons, List.length_nil]
      omega

end U3.Manager

namespace U3.Manager
open U3 U3.Headers U3.Retry

/-! ## chains of requests -/

/-- `P` holds between every two consecutive requests -/
def Chain2 (P : Sent → Sent → Prop) : List Sent → Prop
  | [] => True
  | [_] => True
  | a :: b :: t => P a b ∧ Chain2 P (b :: t)

theorem Chain2.get {P : Sent → Sent → Prop} : ∀ {l : List Sent}, Chain2 P l →
    ∀ (i : Nat) (a b : Sent), l[i]? = some a → l[i + 1]? = some b → P a b
  | [], _, i, a, b, ha, _ => by simp at ha
  | [x], _, i, a, b, ha, hb => by cases i <;> simp at hb
  | x :: y :: t, h, 0, a, b, ha, hb => by
    simp at ha hb; subst ha hb; exact h.1
  | x :: y :: t, h, i + 1, a, b, ha, hb => by
    simp only [List.getElem?_cons_succ] at ha hb
    exact Chain2.get h.2 i a b ha hb

theorem Chain2.cons_of_head {P : Sent → Sent → Prop} {s : Sent} {l : List Sent}
    (hl : Chain2 P l) (hh : ∀ s', l.head? = some s' → P s s') : Chain2 P (s :: l) := by
  cases l with
  | nil => trivial
  | cons b t => exact ⟨hh b rfl, hl⟩

/-- the poolmerge of `HTTPConnectionPool.urlopen` -/
def poolMerge (p : Pool) (scheme : Option Str) (h : Hdrs) : Hdrs :=
  if requiresTunnel p.proxy scheme then h
  else h.copy.updateDict (match p.proxy with | some px => px.headers | none => [])

theorem poolAttempt_ok' {W : World} {p : Pool} {method url : Str} {body : Option Bytes}
    {headers : Option Hdrs} {retries : Arg} {redirect ash : Bool} {s : Sent} {r : Retry} {hs : Hdrs}
    (h : poolAttempt W p method url body headers retries redirect ash = .ok (s, r, hs)) :
    ∃ pu, W.parse url = some pu ∧ hs = poolMerge p pu.scheme (headers.getD p.headers) ∧
      s.target = pu.target ∧ s.headers = hs.items ∧
      (p.proxy = none → s.dest = p.id.origin ∧ s.dial = p.id.origin ∧ s.tunnel = false ∧
        s.reply = W.serve p.id.origin method pu.target) := by
  unfold poolAttempt at h
  split at h
  · cases h
  · rename_i pu hpu
    split at h
    · cases h
    · simp only [Except.ok.injEq, Prod.mk.injEq] at h
      obtain ⟨hs1, hr, hh⟩ := h
      subst hs1 hr hh
      refine ⟨pu, hpu, ?_, rfl, rfl, ?_⟩
      · unfold poolMerge; split <;> rfl
      · intro hp
        simp [hp, requiresTunnel]

/-- the first request of a pool-level run is the one asked for -/
theorem pool_head (W : World) (p : Pool) (fuel : Nat) (method url : Str) (body : Option Bytes)
    (headers : Option Hdrs) (retries : Arg) (redirect ash : Bool) (s : Sent)
    (h : (poolUrlopen W p fuel method url body headers retries redirect ash).log.head? = some s) :
    s.method = method ∧ s.body = body ∧ s.url = url := by
  cases fuel with
  | zero => simp [poolUrlopen] at h
  | succ n =>
    simp only [poolUrlopen] at h
    split at h
    · rename_i R hR
      unfold poolStep at hR
      split at hR
      · cases hR; simp at h
      · rename_i s0 r0 hs0 hpa
        obtain ⟨_, hm, hb, hu, _⟩ := poolAttempt_ok hpa
        have hlog : R.log = [s0] := by
          split at hR
          · dsimp only at hR
            split at hR
            · cases hR; unfold onExhausted; split <;> rfl
            · cases hR; rfl
            · cases hR
          · cases hR; exact notFollowed_log _ _ _
        rw [hlog] at h
        simp at h; subst h
        exact ⟨hm, hb, hu⟩
    · rename_i s0 m' u' b' h' r' hstep
      obtain ⟨hs, hpa, _⟩ := poolStep_next hstep
      obtain ⟨_, hm, hb, hu, _⟩ := poolAttempt_ok hpa
      simp at h; subst h
      exact ⟨hm, hb, hu⟩

/-- **per-hop facts of the pool-level redirect branch** -/
theorem pool_chain (W : World) (p : Pool) (P : Sent → Sent → Prop)
    (hP : ∀ a b : Sent, a.reply.redirectLocation.isSome →
      b.method = (rewrite303 a.reply.status a.method a.body (.dict [])).1 →
      b.body = (rewrite303 a.reply.status a.method a.body (.dict [])).2.1 →
      some b.url = a.reply.redirectLocation → P a b) :
    ∀ (fuel : Nat) (method url : Str) (body : Option Bytes) (headers : Option Hdrs) (retries : Arg)
      (redirect ash : Bool), Chain2 P (poolUrlopen W p fuel method url body headers retries redirect ash).log := by
  intro fuel
  induction fuel with
  | zero => intros; simp [poolUrlopen, Chain2]
  | succ n ih =>
    intro method url body headers retries redirect ash
    simp only [poolUrlopen]
    split
    · rename_i R hR
      have := poolStep_done_len hR
      match hl : R.log with
      | [] => trivial
      | [_] => trivial
      | _ :: _ :: _ => rw [hl] at this; simp at this
    · rename_i s m' u' b' h' r' hstep
      obtain ⟨hs, hpa, _, hloc, hrw, _⟩ := poolStep_next hstep
      obtain ⟨_, hm, hb, _, _⟩ := poolAttempt_ok hpa
      simp only [Run.cons_log]
      refine Chain2.cons_of_head (ih m' u' b' (some h') (.retry r') redirect ash) ?_
      intro s' hs'
      obtain ⟨hm', hb', hu'⟩ := pool_head W p n m' u' b' (some h') (.retry r') redirect ash s' hs'
      have h1 : m' = (rewrite303 s.reply.status method body hs).1 := by rw [← hrw]
      have h2 : b' = (rewrite303 s.reply.status method body hs).2.1 := by rw [← hrw]
      apply hP s s' (by rw [hloc]; rfl)
      · rw [hm', h1, hm, hb]; unfold rewrite303; split <;> rfl
      · rw [hb', h2, hm, hb]; unfold rewrite303; split <;> rfl
      · rw [hu', hloc]

end U3.Manager

namespace U3.Manager
open U3 U3.Headers U3.Retry

/-! ## induction principles that follow the two loops -/

theorem pool_induct (W : World) (p : Pool) (redirect ash : Bool)
    (M : Str → Str → Option Bytes → Option Hdrs → Arg → Run → Prop)
    (h0 : ∀ method url body headers retries, M method url body headers retries ⟨[], .outOfFuel⟩)
    (hdone : ∀ method url body headers retries R,
      poolStep W p method url body headers retries redirect ash = .done R →
      M method url body headers retries R)
    (hnext : ∀ method url body headers retries s m' u' b' h' r' R',
      poolStep W p method url body headers retries redirect ash = .next s m' u' b' h' r' →
      M m' u' b' (some h') (.retry r') R' → M method url body headers retries (R'.cons s)) :
    ∀ fuel method url body headers retries,
      M method url body headers retries
        (poolUrlopen W p fuel method url body headers retries redirect ash) := by
  intro fuel
  induction fuel with
  | zero => intros; exact h0 _ _ _ _ _
  | succ n ih =>
    intro method url body headers retries
    simp only [poolUrlopen]
    split
    · rename_i R hR; exact hdone _ _ _ _ _ R hR
    · rename_i s m' u' b' h' r' hstep
      exact hnext _ _ _ _ _ s m' u' b' h' r' _ hstep (ih m' u' b' (some h') (.retry r'))

theorem mgr_induct (W : World) (m : Mgr) (redirect : Bool)
    (M : Str → Str → Kw → Run → Prop)
    (h0 : ∀ method url kw, M method url kw ⟨[], .outOfFuel⟩)
    (hdone : ∀ method url kw R, mgrStep W m method url redirect kw = .done R → M method url kw R)
    (hnext : ∀ method url kw log m' u' kw' R',
      mgrStep W m method url redirect kw = .next log m' u' kw' →
      M m' u' kw' R' → M method url kw (R'.append log)) :
    ∀ fuel method url kw, M method url kw (mgrUrlopen W m fuel method url redirect kw) := by
  intro fuel
  induction fuel with
  | zero => intros; exact h0 _ _ _
  | succ n ih =>
    intro method url kw
    simp only [mgrUrlopen]
    split
    · rename_i R hR; exact hdone _ _ _ R hR
    · rename_i log m' u' kw' hstep
      exact hnext _ _ _ log m' u' kw' _ hstep (ih m' u' kw')

/-! ## how a pass that does not recurse ends -/

/-- the three ways a request that was sent is *not* followed -/
def EndsWith (R : Run) (s : Sent) (redirect : Bool) (r : Retry) : Prop :=
  R.outcome = .statusRetry ∨ R.outcome = .oracleMissing ∨
  (R.outcome = .response s.reply ∧ (redirect = false ∨ s.reply.redirectLocation = none)) ∨
  (redirect = true ∧ s.reply.redirectLocation.isSome = true ∧
    (∃ m' c, r.increment (some m') (.redirect s.reply.status) = .error (.maxRetry c)) ∧
    R.outcome = (if r.raiseOnRedirect then .maxRetry else .response s.reply))

theorem poolStep_done_shape {W : World} {p : Pool} {method url : Str} {body : Option Bytes}
    {headers : Option Hdrs} {retries : Arg} {redirect ash : Bool} {R : Run}
    (h : poolStep W p method url body headers retries redirect ash = .done R) :
    (∃ o, poolAttempt W p method url body headers retries redirect ash = .error o ∧ R = ⟨[], o⟩) ∨
    (∃ s hs, poolAttempt W p method url body headers retries redirect ash
        = .ok (s, deriveRetry retries redirect p.retries, hs) ∧ R.log = [s] ∧
      EndsWith R s redirect (deriveRetry retries redirect p.retries)) := by
  unfold poolStep at h
  split at h
  · rename_i o ho
    left; refine ⟨o, ho, ?_⟩; injection h with h; exact h.symm
  · rename_i sent r hs hpa
    have hr := (poolAttempt_ok hpa).1
    subst hr
    right
    refine ⟨sent, hs, hpa, ?_⟩
    split at h
    · rename_i loc hloc
      have hred : redirect = true ∧ sent.reply.redirectLocation = some loc := by
        cases redirect <;> simp_all
      dsimp only at h
      split at h
      · rename_i c hinc
        injection h with h
        subst h
        refine ⟨by unfold onExhausted; split <;> rfl, Or.inr (Or.inr (Or.inr ⟨hred.1, by rw [hred.2]; rfl, ⟨_, c, hinc⟩, ?_⟩))⟩
        unfold onExhausted; split <;> rfl
      · rename_i e hinc
        obtain ⟨c, hc⟩ := increment_redirect_err hinc
        cases hc
      · cases h
    · rename_i hloc
      injection h with h
      subst h
      refine ⟨notFollowed_log _ _ _, ?_⟩
      unfold notFollowed
      split
      · exact Or.inl rfl
      · refine Or.inr (Or.inr (Or.inl ⟨rfl, ?_⟩))
        cases redirect
        · exact Or.inl rfl
        · right
          simpa using hloc

theorem poolAttempt_error {W : World} {p : Pool} {method url : Str} {body : Option Bytes}
    {headers : Option Hdrs} {retries : Arg} {redirect ash : Bool} {o : Outcome}
    (h : poolAttempt W p method url body headers retries redirect ash = .error o) :
    (o = .oracleMissing ∧ W.parse url = none) ∨
    (o = .hostChanged ∧ ash = true ∧ ∃ pu, W.parse url = some pu ∧ isSameHost p.id url pu = false) := by
  unfold poolAttempt at h
  split at h
  · rename_i hp; injection h with h; exact Or.inl ⟨h.symm, hp⟩
  · rename_i pu hpu
    split at h
    · rename_i hc
      injection h with h
      refine Or.inr ⟨h.symm, ?_, pu, hpu, ?_⟩ <;> cases ash <;> simp_all
    · cases h

end U3.Manager

namespace U3.Manager
open U3 U3.Headers U3.Retry

/-! ## one pass of the manager, revisited: the request it sends and how it ends -/

/-- the request one pass of `PoolManager.urlopen` puts on the wire -/
def MgrPass (W : World) (m : Mgr) (method url : Str) (kw : Kw) (s : Sent) : Prop :=
  ∃ u conn s0 r0 hs, W.parse url = some u ∧ connectionFromHost m u.host u.port u.scheme = .ok conn ∧
    poolAttempt W conn method (mgrTarget m u url) kw.body (some (mgrHeaders m u kw)) kw.retries false false
      = .ok (s0, r0, hs) ∧ s = { s0 with url := url }

theorem MgrNext.pass {W : World} {m : Mgr} {method url : Str} {redirect : Bool} {kw : Kw}
    {log : List Sent} {m' u' : Str} {kw' : Kw} (N : MgrNext W m method url redirect kw log m' u' kw') :
    MgrPass W m method url kw { N.s with url := url } :=
  ⟨N.u, N.conn, N.s, N.r0, N.hs, N.parse, N.connOk, N.attempt, rfl⟩

theorem pmConnectionFromHost_error {m : Mgr} {host : Option Str} {port : Option Nat} {scheme : Option Str}
    {o : Outcome} (h : pmConnectionFromHost m host port scheme = .error o) :
    o = .locationValue ∨ o = .schemeUnknown := by
  unfold pmConnectionFromHost at h
  split at h
  · injection h with h; exact Or.inl h.symm
  · dsimp only at h
    repeat' split at h
    all_goals first | (injection h with h; exact Or.inr h.symm) | cases h

theorem connectionFromHost_error {m : Mgr} {host : Option Str} {port : Option Nat} {scheme : Option Str}
    {o : Outcome} (h : connectionFromHost m host port scheme = .error o) :
    o = .locationValue ∨ o = .schemeUnknown := by
  unfold connectionFromHost at h
  split at h
  · exact pmConnectionFromHost_error h
  · split at h <;> exact pmConnectionFromHost_error h

theorem mgrSend_shape2 (W : World) (m : Mgr) (conn : Pool) (u : PUrl) (method url : Str) (kw : Kw) :
    (∃ o, mgrSend W m conn u method url kw = ⟨[], o⟩ ∧ (o = .oracleMissing ∨ o = .hostChanged)) ∨
    (∃ s r hs, poolAttempt W conn method (mgrTarget m u url) kw.body (some (kw.headers.getD m.headers))
          kw.retries false false = .ok (s, r, hs) ∧
        (mgrSend W m conn u method url kw).log = [{ s with url := url }] ∧
        ((mgrSend W m conn u method url kw).outcome = .response s.reply ∨
         (mgrSend W m conn u method url kw).outcome = .statusRetry)) := by
  unfold mgrSend
  rcases poolOnce_shape W conn method (mgrTarget m u url) kw.body (some (kw.headers.getD m.headers))
      kw.retries false with ⟨o, ho, hR⟩ | ⟨s, r, hs, hpa, hR⟩
  · left
    refine ⟨o, ?_, ?_⟩
    · simp only [mgrTarget] at hR
      simp only [hR, Run.withUrl, List.map_nil]
    · rcases poolAttempt_error ho with h | h
      · exact Or.inl h.1
      · exact Or.inr h.1
  · right
    refine ⟨s, r, hs, hpa, ?_, ?_⟩
    · simp only [mgrTarget] at hR
      simp only [hR, Run.withUrl, notFollowed_log, List.map_cons, List.map_nil]
    · simp only [mgrTarget] at hR
      simp only [hR, Run.withUrl_outcome]
      exact notFollowed_outcome r method s

theorem mgrRedirect_done {W : World} {m : Mgr} {conn : Pool} {method url : Str} {redirect : Bool} {headers : Hdrs}
    {kw : Kw} {first : Run} {reply : Reply} {loc : Str} {R : Run}
    (h : mgrRedirect W m conn method url redirect headers kw first reply loc = .done R) :
    R.log = first.log ∧
    (R.outcome = .oracleMissing ∨
      ((∃ m' c, (deriveRetry kw.retries redirect m.retries).increment (some m') (.redirect reply.status)
          = .error (.maxRetry c)) ∧
        R.outcome = (if (deriveRetry kw.retries redirect m.retries).raiseOnRedirect then .maxRetry
          else first.outcome))) := by
  unfold mgrRedirect at h
  split at h
  · injection h with h; subst h; exact ⟨rfl, Or.inl rfl⟩
  · dsimp only at h
    split at h
    · injection h with h; subst h; exact ⟨rfl, Or.inl rfl⟩
    · split at h
      · rename_i c hinc
        injection h with h; subst h
        refine ⟨by unfold onExhausted; split <;> rfl, Or.inr ⟨⟨_, c, hinc⟩, ?_⟩⟩
        unfold onExhausted; split <;> rfl
      · rename_i e hinc
        obtain ⟨c, hc⟩ := increment_redirect_err hinc
        cases hc
      · cases h

theorem mgrStep_done_shape {W : World} {m : Mgr} {method url : Str} {redirect : Bool} {kw : Kw} {R : Run}
    (h : mgrStep W m method url redirect kw = .done R) :
    (R.log = [] ∧ (∀ r, R.outcome ≠ .response r) ∧ R.outcome ≠ .maxRetry ∧ R.outcome ≠ .statusRetry) ∨
    (∃ s, MgrPass W m method url kw s ∧ R.log = [s] ∧
      EndsWith R s redirect (deriveRetry kw.retries redirect m.retries)) := by
  unfold mgrStep at h
  split at h
  · injection h with h; subst h
    exact Or.inl ⟨rfl, by simp, by simp, by simp⟩
  · rename_i u hu
    dsimp only at h
    split at h
    · rename_i o ho
      injection h with h; subst h
      rcases connectionFromHost_error ho with ho | ho <;> subst ho <;>
        exact Or.inl ⟨rfl, by simp, by simp, by simp⟩
    · rename_i conn hconn
      rcases mgrSend_shape2 W m conn u method url (proxyKw m u kw) with ⟨o, hR, ho⟩ | ⟨s, r0, hs0, hpa, hl, ho⟩
      · rw [hR] at h
        rcases ho with ho | ho <;> subst ho <;> simp only at h <;> injection h with h <;> subst h <;>
          exact Or.inl ⟨rfl, by simp, by simp, by simp⟩
      · right
        simp only [proxyKw_body, proxyKw_retries] at hpa
        have hpass : MgrPass W m method url kw { s with url := url } :=
          ⟨u, conn, s, r0, hs0, hu, hconn, hpa, rfl⟩
        refine ⟨_, hpass, ?_⟩
        split at h
        · rename_i reply hout
          have hrep : reply = s.reply := by
            rcases ho with ho | ho
            · rw [ho] at hout; injection hout with h; exact h.symm
            · rw [ho] at hout; cases hout
          subst hrep
          split at h
          · rename_i hloc
            injection h with h; subst h
            refine ⟨hl, Or.inr (Or.inr (Or.inl ⟨hout, ?_⟩))⟩
            cases redirect
            · exact Or.inl rfl
            · right; simpa using hloc
          · rename_i loc hloc
            have hred : redirect = true ∧ s.reply.redirectLocation = some loc := by
              cases redirect <;> simp_all
            obtain ⟨hlog, hcase⟩ := mgrRedirect_done h
            refine ⟨by rw [hlog, hl], ?_⟩
            rcases hcase with hc | ⟨hinc, hc⟩
            · exact Or.inr (Or.inl hc)
            · simp only [proxyKw_retries] at hinc hc
              refine Or.inr (Or.inr (Or.inr ⟨hred.1, by rw [hred.2]; rfl, hinc, ?_⟩))
              rw [hc, hout]
        · rename_i hno
          injection h with h; subst h
          refine ⟨hl, ?_⟩
          rcases ho with ho | ho
          · exact absurd ho (hno s.reply)
          · exact Or.inl ho

/-- the first request of a manager-level run is the one of its first pass -/
theorem mgr_head (W : World) (m : Mgr) (redirect : Bool) (fuel : Nat) (method url : Str) (kw : Kw) (s : Sent)
    (h : (mgrUrlopen W m fuel method url redirect kw).log.head? = some s) : MgrPass W m method url kw s := by
  cases fuel with
  | zero => simp [mgrUrlopen] at h
  | succ n =>
    simp only [mgrUrlopen] at h
    split at h
    · rename_i R hR
      rcases mgrStep_done_shape hR with ⟨hl, _⟩ | ⟨s', hp, hl, _⟩
      · rw [hl] at h; cases h
      · rw [hl] at h; simp at h; subst h; exact hp
    · rename_i log m' u' kw' hstep
      obtain ⟨N⟩ := mgrStep_next hstep
      rw [Run.append_log, N.log_eq] at h
      simp at h; subst h; exact N.pass

/-- **per-hop facts of the manager's redirect branch**: `I` is an invariant of the arguments the
recursion threads through, `P` is established between each request and its follow-up -/
theorem mgr_chain (W : World) (m : Mgr) (redirect : Bool) (I : Str → Str → Kw → Prop)
    (P : Sent → Sent → Prop)
    (hI : ∀ {method url kw log m' u' kw'}, I method url kw →
      MgrNext W m method url redirect kw log m' u' kw' → I m' u' kw')
    (hP : ∀ {method url kw log m' u' kw'} (N : MgrNext W m method url redirect kw log m' u' kw') (b : Sent),
      I method url kw → MgrPass W m m' u' kw' b → P { N.s with url := url } b) :
    ∀ (fuel : Nat) (method url : Str) (kw : Kw), I method url kw →
      Chain2 P (mgrUrlopen W m fuel method url redirect kw).log := by
  intro fuel
  induction fuel with
  | zero => intros; simp [mgrUrlopen, Chain2]
  | succ n ih =>
    intro method url kw hi
    simp only [mgrUrlopen]
    split
    · rename_i R hR
      have := mgrStep_done_len hR
      match hl : R.log with
      | [] => trivial
      | [_] => trivial
      | _ :: _ :: _ => rw [hl] at this; simp at this
    · rename_i log m' u' kw' hstep
      obtain ⟨N⟩ := mgrStep_next hstep
      rw [Run.append_log, N.log_eq]
      refine Chain2.cons_of_head (ih m' u' kw' (hI hi N)) ?_
      intro s' hs'
      exact hP N s' hi (mgr_head W m redirect n m' u' kw' s' hs')

/-- a fact about every request of a manager-level run -/
theorem mgr_all (W : World) (m : Mgr) (redirect : Bool) (I : Str → Str → Kw → Prop) (Q : Sent → Prop)
    (hI : ∀ {method url kw log m' u' kw'}, I method url kw →
      MgrNext W m method url redirect kw log m' u' kw' → I m' u' kw')
    (hQ : ∀ {method url kw s}, I method url kw → MgrPass W m method url kw s → Q s) :
    ∀ (fuel : Nat) (method url : Str) (kw : Kw), I method url kw →
      ∀ s ∈ (mgrUrlopen W m fuel method url redirect kw).log, Q s := by
  intro fuel
  induction fuel with
  | zero => intros _ _ _ _ s hs; simp [mgrUrlopen] at hs
  | succ n ih =>
    intro method url kw hi s hs
    simp only [mgrUrlopen] at hs
    split at hs
    · rename_i R hR
      rcases mgrStep_done_shape hR with ⟨hl, _⟩ | ⟨s', hp, hl, _⟩
      · rw [hl] at hs; cases hs
      · rw [hl] at hs; simp at hs; subst hs; exact hQ hi hp
    · rename_i log m' u' kw' hstep
      obtain ⟨N⟩ := mgrStep_next hstep
      rw [Run.append_log, N.log_eq] at hs
      simp only [List.cons_append, List.nil_append, List.mem_cons] at hs
      rcases hs with hs | hs
      · subst hs; exact hQ hi N.pass
      · exact ih m' u' kw' (hI hi N) s hs

/-- **once a hop has the property `X`, every later request has `Q`**: `X` at a hop establishes the
invariant `J` of the follow-up's arguments, `J` is preserved and implies `Q` of the request sent -/
theorem mgr_after (W : World) (m : Mgr) (redirect : Bool) (I J : Str → Str → Kw → Prop)
    (X : Sent → Sent → Prop) (Q : Sent → Prop)
    (hI : ∀ {method url kw log m' u' kw'}, I method url kw →
      MgrNext W m method url redirect kw log m' u' kw' → I m' u' kw')
    (hJ : ∀ {method url kw log m' u' kw'}, J method url kw →
      MgrNext W m method url redirect kw log m' u' kw' → J m' u' kw')
    (hX : ∀ {method url kw log m' u' kw'} (N : MgrNext W m method url redirect kw log m' u' kw') (b : Sent),
      I method url kw → MgrPass W m m' u' kw' b → X { N.s with url := url } b → J m' u' kw')
    (hQ : ∀ {method url kw s}, J method url kw → MgrPass W m method url kw s → Q s) :
    ∀ (fuel : Nat) (method url : Str) (kw : Kw), I method url kw →
      ∀ (i j : Nat) (a b c : Sent), i < j →
        (mgrUrlopen W m fuel method url redirect kw).log[i]? = some a →
        (mgrUrlopen W m fuel method url redirect kw).log[i + 1]? = some b → X a b →
        (mgrUrlopen W m fuel method url redirect kw).log[j]? = some c → Q c := by
  intro fuel
  induction fuel with
  | zero => intros _ _ _ _ i j a b c _ ha; simp [mgrUrlopen] at ha
  | succ n ih =>
    intro method url kw hi i j a b c hij ha hb hx hc
    cases hstep : mgrStep W m method url redirect kw with
    | done R =>
      simp only [mgrUrlopen, hstep] at ha hb hc
      have := mgrStep_done_len hstep
      have hlt : i + 1 < R.log.length := by
        rcases Nat.lt_or_ge (i + 1) R.log.length with h | h
        · exact h
        · rw [List.getElem?_eq_none h] at hb; cases hb
      omega
    | next log m' u' kw' =>
      simp only [mgrUrlopen, hstep] at ha hb hc
      obtain ⟨N⟩ := mgrStep_next hstep
      rw [Run.append_log, N.log_eq] at ha hb hc
      simp only [List.cons_append, List.nil_append] at ha hb hc
      cases j with
      | zero => omega
      | succ j' =>
        simp only [List.getElem?_cons_succ] at hb hc
        cases i with
        | zero =>
          simp only [List.getElem?_cons_zero, Option.some.injEq] at ha
          subst ha
          have hbh : (mgrUrlopen W m n m' u' redirect kw').log.head? = some b := by
            rw [List.head?_eq_getElem?]; exact hb
          have hpb := mgr_head W m redirect n m' u' kw' b hbh
          have hj := hX N b hi hpb hx
          exact mgr_all W m redirect J Q hJ hQ n m' u' kw' hj c (List.mem_of_getElem? hc)
        | succ i' =>
          simp only [List.getElem?_cons_succ] at ha
          exact ih m' u' kw' (hI hi N) i' j' a b c (by omega) ha hb hx hc

end U3.Manager

namespace U3.Manager
open U3 U3.Headers U3.Retry

/-! ## redirects disabled / exhausted -/

/-- a counter that pays for no further redirect makes `increment` raise `MaxRetryError` -/
theorem increment_redirect_zero {r : Retry} {m : Option Str} {st : Nat}
    (h : r.redirect.budget = some 0 ∨ r.total.budget = some 0) :
    ∃ c, r.increment m (.redirect st) = .error (.maxRetry c) := by
  cases hinc : r.increment m (.redirect st) with
  | error e => obtain ⟨c, hc⟩ := increment_redirect_err hinc; exact ⟨c, by rw [hc]⟩
  | ok r' =>
    rcases h with h | h
    · obtain ⟨b', _, hle⟩ := redirect_budget_step hinc h; omega
    · obtain ⟨b', _, hle⟩ := total_budget_step hinc h; omega

/-- what `Retry.__init__` does with `redirect=False` / `total=False` -/
theorem init_disabled (p : Retry) (h : p.redirect = .disabled ∨ p.total = .disabled) :
    (Retry.init p).redirect.budget = some 0 ∧ (Retry.init p).raiseOnRedirect = false := by
  unfold Retry.init
  simp only [h, if_true]
  exact ⟨rfl, trivial⟩

/-- `retries=False` (per request, or as the pool's default) -/
theorem fromInt_false (redirect : Bool) (d : Arg) :
    (Retry.fromInt .false redirect d).redirect.budget = some 0 ∧
    (Retry.fromInt .false redirect d).raiseOnRedirect = false := by
  unfold Retry.fromInt Retry.ofTotal
  exact init_disabled _ (Or.inr rfl)

/-- the policy in force does not change `raise_on_redirect` along the chain, and no pass after the
first one has budget left when the first one had none: pool level -/
theorem pool_disabled (W : World) (p : Pool) (fuel : Nat) (method url : Str) (body : Option Bytes)
    (headers : Option Hdrs) (retries : Arg) (redirect ash : Bool)
    (h : redirect = false ∨
      ((deriveRetry retries redirect p.retries).redirect.budget = some 0 ∨
       (deriveRetry retries redirect p.retries).total.budget = some 0)) :
    (poolUrlopen W p fuel method url body headers retries redirect ash).log = [] ∨
    ∃ s, (poolUrlopen W p fuel method url body headers retries redirect ash).log = [s] ∧
      s.url = url ∧ s.method = method ∧ s.body = body ∧
      EndsWith (poolUrlopen W p fuel method url body headers retries redirect ash) s redirect
        (deriveRetry retries redirect p.retries) := by
  cases fuel with
  | zero => left; rfl
  | succ n =>
    simp only [poolUrlopen]
    cases hstep : poolStep W p method url body headers retries redirect ash with
    | done R =>
      simp only
      rcases poolStep_done_shape hstep with ⟨o, _, hR⟩ | ⟨s, hs, hpa, hl, he⟩
      · left; rw [hR]
      · right
        obtain ⟨_, hm, hb, hu, _⟩ := poolAttempt_ok hpa
        exact ⟨s, hl, hu, hm, hb, he⟩
    | next s m' u' b' h' r' =>
      obtain ⟨hs, _, hred, _, _, hinc⟩ := poolStep_next hstep
      rcases h with h | h
      · rw [h] at hred; cases hred
      · obtain ⟨c, hc⟩ := increment_redirect_zero (m := some m') (st := s.reply.status) h
        rw [hc] at hinc; cases hinc

theorem mgr_disabled (W : World) (m : Mgr) (fuel : Nat) (method url : Str) (redirect : Bool) (kw : Kw)
    (h : redirect = false ∨
      ((deriveRetry kw.retries redirect m.retries).redirect.budget = some 0 ∨
       (deriveRetry kw.retries redirect m.retries).total.budget = some 0)) :
    (mgrUrlopen W m fuel method url redirect kw).log = [] ∨
    ∃ s, (mgrUrlopen W m fuel method url redirect kw).log = [s] ∧ MgrPass W m method url kw s ∧
      EndsWith (mgrUrlopen W m fuel method url redirect kw) s redirect
        (deriveRetry kw.retries redirect m.retries) := by
  cases fuel with
  | zero => left; rfl
  | succ n =>
    simp only [mgrUrlopen]
    cases hstep : mgrStep W m method url redirect kw with
    | done R =>
      simp only
      rcases mgrStep_done_shape hstep with ⟨hl, _⟩ | ⟨s, hp, hl, he⟩
      · left; exact hl
      · right; exact ⟨s, hl, hp, he⟩
    | next log m' u' kw' =>
      obtain ⟨N⟩ := mgrStep_next hstep
      rcases h with h | h
      · have := N.redirect_on; rw [h] at this; cases this
      · obtain ⟨c, hc⟩ := increment_redirect_zero (m := some m') (st := N.s.reply.status) h
        have := N.incr
        rw [hc] at this; cases this

theorem MgrPass.facts {W : World} {m : Mgr} {method url : Str} {kw : Kw} {s : Sent}
    (h : MgrPass W m method url kw s) : s.url = url ∧ s.method = method ∧ s.body = kw.body := by
  obtain ⟨u, conn, s0, r0, hs, _, _, hpa, hs0⟩ := h
  obtain ⟨_, hm, hb, _, _⟩ := poolAttempt_ok hpa
  subst hs0
  exact ⟨rfl, hm, hb⟩

end U3.Manager

namespace U3.Manager
open U3 U3.Headers U3.Retry

/-! ## the exhaustion surface: exact accounting of the counters along the chain -/

/-- none of the counters a redirect does not touch is negative (a `Retry` built with a negative
`connect=` / `read=` / `status=` / `other=` is exhausted before anything happened) -/
def SaneCounters (r : Retry) : Prop :=
  ∀ n : Int, (r.connect = .num n ∨ r.read = .num n ∨ r.status = .num n ∨ r.other = .num n) → 0 ≤ n

theorem foldl_min_mem (xs : List Int) (x : Int) : xs.foldl min x = x ∨ xs.foldl min x ∈ xs := by
  induction xs generalizing x with
  | nil => exact Or.inl rfl
  | cons y ys ih =>
    simp only [List.foldl_cons]
    rcases ih (min x y) with h | h
    · rw [h]
      rcases Int.le_total x y with hxy | hxy
      · left; exact Int.min_eq_left hxy
      · right; rw [Int.min_eq_right hxy]; exact List.mem_cons_self
    · right; exact List.mem_cons_of_mem _ h

theorem isExhausted_exists_neg (r : Retry) (h : r.isExhausted = true) :
    ∃ n : Int, n < 0 ∧ Count.num n ∈ r.counters := by
  unfold Retry.isExhausted at h
  split at h
  · cases h
  · rename_i x xs hrc
    simp only [decide_eq_true_eq] at h
    have hmem : xs.foldl min x ∈ r.retryCounts := by
      rw [hrc]
      rcases foldl_min_mem xs x with h' | h'
      · rw [h']; exact List.mem_cons_self
      · exact List.mem_cons_of_mem _ h'
    unfold Retry.retryCounts at hmem
    rw [List.mem_filterMap] at hmem
    obtain ⟨c, hc, hcv⟩ := hmem
    refine ⟨xs.foldl min x, h, ?_⟩
    cases c with
    | none => simp at hcv
    | disabled => simp at hcv
    | num k =>
      simp only at hcv
      split at hcv
      · injection hcv with hcv; rw [← hcv]; exact hc
      · cases hcv

/-- the counters a redirect does not touch are copied by a successful `increment` -/
theorem increment_redirect_others {r r' : Retry} {m : Option Str} {st : Nat}
    (h : r.increment m (.redirect st) = .ok r') :
    r'.connect = r.connect ∧ r'.read = r.read ∧ r'.status = r.status ∧ r'.other = r.other := by
  simp only [Retry.increment, Retry.finish] at h
  split at h
  · cases h
  · injection h with h
    subst h
    refine ⟨?_, ?_, ?_, ?_⟩ <;>
    · simp only [Retry.new, Retry.init]
      split <;> rfl

theorem Count.dec_neg_budget (c : Count) (n : Int) (h : c.dec = .num n) (hn : n < 0) : c.budget = some 0 := by
  cases c with
  | none => simp [Count.dec] at h
  | disabled => rfl
  | num k =>
    simp only [Count.dec, Count.num.injEq] at h
    simp only [Count.budget, Option.some.injEq]
    omega

/-- `MaxRetryError` on a redirect is never premature: one of the two counters that pay for redirects
is used up -/
theorem increment_redirect_fail {r : Retry} {m : Option Str} {st : Nat} {e : Raise}
    (hs : SaneCounters r) (h : r.increment m (.redirect st) = .error e) :
    r.redirect.budget = some 0 ∨ r.total.budget = some 0 := by
  simp only [Retry.increment, Retry.finish] at h
  split at h
  · rename_i hex
    obtain ⟨n, hn, hmem⟩ := isExhausted_exists_neg _ hex
    have hcs : ∀ c ∈ (r.new r.total.dec r.connect r.read r.redirect.dec r.status r.other
        (r.history ++ [⟨Option.none, some st, true⟩])).counters,
        c = r.total.dec ∨ c = r.connect ∨ c = r.read ∨ c = r.redirect.dec ∨ c = r.status ∨ c = r.other := by
      intro c hc
      simp only [Retry.new, Retry.init] at hc
      split at hc
      · rename_i hd
        rcases hd with hd | hd
        · exact absurd hd (Count.dec_ne_disabled _)
        · exact absurd hd (Count.dec_ne_disabled _)
      · simpa [Retry.counters] using hc
    rcases hcs _ hmem with hc | hc | hc | hc | hc | hc
    · exact Or.inr (Count.dec_neg_budget _ n hc.symm hn)
    · have := hs n (Or.inl hc.symm); omega
    · have := hs n (Or.inr (Or.inl hc.symm)); omega
    · exact Or.inl (Count.dec_neg_budget _ n hc.symm hn)
    · have := hs n (Or.inr (Or.inr (Or.inl hc.symm))); omega
    · have := hs n (Or.inr (Or.inr (Or.inr hc.symm))); omega
  · cases h

theorem Count.budget_of_dec (c : Count) (b : Nat) (hnn : ∀ n, c.dec = .num n → 0 ≤ n)
    (h : c.dec.budget = some b) : c.budget = some (b + 1) := by
  cases c with
  | none => simp [Count.dec, Count.budget] at h
  | disabled => have := hnn (-1) rfl; omega
  | num k =>
    have := hnn (k - 1) rfl
    simp only [Count.dec, Count.budget, Option.some.injEq] at h ⊢
    omega

/-- `rk` is what `n` successful redirect increments made of `r0` -/
def Descends (r0 rk : Retry) (n : Nat) : Prop :=
  rk.raiseOnRedirect = r0.raiseOnRedirect ∧
  (∀ b, rk.redirect.budget = some b → r0.redirect.budget = some (b + n)) ∧
  (∀ b, rk.total.budget = some b → r0.total.budget = some (b + n)) ∧
  (SaneCounters r0 → SaneCounters rk)

theorem Descends.refl (r : Retry) : Descends r r 0 :=
  ⟨rfl, fun _ h => h, fun _ h => h, fun h => h⟩

theorem Descends.step {r r' rk : Retry} {m : Option Str} {st n : Nat}
    (h : r.increment m (.redirect st) = .ok r') (hd : Descends r' rk n) : Descends r rk (n + 1) := by
  obtain ⟨hrd, htot, hex, hraise, _⟩ := increment_redirect_ok h
  obtain ⟨hc, hr, hst, ho⟩ := increment_redirect_others h
  obtain ⟨d1, d2, d3, d4⟩ := hd
  have hnn : ∀ (c : Count) (k : Int), c ∈ r'.counters → c = .num k → 0 ≤ k := by
    intro c k hc hk
    by_cases hlt : k < 0
    · have := isExhausted_of_neg r' k hlt (hk ▸ hc)
      rw [this] at hex; cases hex
    · omega
  refine ⟨by rw [d1, hraise], ?_, ?_, ?_⟩
  · intro b hb
    have h1 := d2 b hb
    rw [hrd] at h1
    have := Count.budget_of_dec r.redirect (b + n)
      (fun k hk => hnn r'.redirect k (by simp [Retry.counters]) (by rw [hrd, hk])) h1
    rw [this, Nat.add_assoc]
  · intro b hb
    have h1 := d3 b hb
    rw [htot] at h1
    have := Count.budget_of_dec r.total (b + n)
      (fun k hk => hnn r'.total k (by simp [Retry.counters]) (by rw [htot, hk])) h1
    rw [this, Nat.add_assoc]
  · intro hs
    apply d4
    intro k hk
    rw [hc, hr, hst, ho] at hk
    exact hs k hk

/-- how a run ends, seen from its last request -/
def Surface (R : Run) (redirect : Bool) (r0 : Retry) : Prop :=
  (R.log = [] → R.outcome ≠ .maxRetry ∧ ∀ x, R.outcome ≠ .response x) ∧
  (∀ pre s, R.log = pre ++ [s] → (R.outcome = .maxRetry ∨ ∃ x, R.outcome = .response x) →
    ∃ rk, Descends r0 rk pre.length ∧ EndsWith R s redirect rk)

theorem EndsWith.congr {R R' : Run} {s : Sent} {redirect : Bool} {r : Retry}
    (h : EndsWith R s redirect r) (ho : R'.outcome = R.outcome) : EndsWith R' s redirect r := by
  unfold EndsWith at h ⊢
  rw [ho]; exact h

theorem Surface.cons {R' : Run} {s : Sent} {redirect : Bool} {r r' : Retry} {m : Option Str} {st : Nat}
    (hinc : r.increment m (.redirect st) = .ok r') (h : Surface R' redirect r') (log : List Sent)
    (hlog : log = [s]) : Surface (R'.append log) redirect r := by
  subst hlog
  obtain ⟨h1, h2⟩ := h
  constructor
  · intro hl; simp at hl
  · intro pre sl hl hout
    simp only [Run.append_log, List.cons_append, List.nil_append] at hl
    simp only [Run.append_outcome] at hout
    cases pre with
    | nil =>
      simp only [List.nil_append, List.cons.injEq] at hl
      have := h1 hl.2
      rcases hout with ho | ⟨x, ho⟩
      · exact absurd ho this.1
      · exact absurd ho (this.2 x)
    | cons a pre' =>
      simp only [List.cons_append, List.cons.injEq] at hl
      obtain ⟨rk, hd, he⟩ := h2 pre' sl hl.2 hout
      exact ⟨rk, by simpa using Descends.step hinc hd, he.congr rfl⟩

theorem pool_surface (W : World) (p : Pool) (redirect ash : Bool) :
    ∀ (fuel : Nat) (method url : Str) (body : Option Bytes) (headers : Option Hdrs) (retries : Arg),
      Surface (poolUrlopen W p fuel method url body headers retries redirect ash) redirect
        (deriveRetry retries redirect p.retries) := by
  apply pool_induct W p redirect ash
    (fun _ _ _ _ retries R => Surface R redirect (deriveRetry retries redirect p.retries))
  · intro _ _ _ _ _
    exact ⟨fun _ => ⟨by simp, by simp⟩, fun pre s hl => by simp at hl⟩
  · intro method url body headers retries R hR
    rcases poolStep_done_shape hR with ⟨o, ho, hRo⟩ | ⟨s, hs, hpa, hl, he⟩
    · subst hRo
      refine ⟨fun _ => ?_, fun pre s hl => by simp at hl⟩
      rcases poolAttempt_error ho with h | h <;> rw [h.1] <;> exact ⟨by simp, by simp⟩
    · refine ⟨fun h => (by rw [hl] at h; cases h), ?_⟩
      intro pre sl hpre _
      rw [hl] at hpre
      cases pre with
      | nil =>
        simp only [List.nil_append, List.cons.injEq, and_true] at hpre
        subst hpre
        exact ⟨_, Descends.refl _, he⟩
      | cons a t =>
        simp only [List.cons_append, List.cons.injEq] at hpre
        have := hpre.2
        cases t <;> simp at this
  · intro method url body headers retries s m' u' b' h' r' R' hstep ih
    obtain ⟨hs, _, _, _, _, hinc⟩ := poolStep_next hstep
    simp only [deriveRetry_retry] at ih
    exact Surface.cons hinc ih [s] rfl

theorem mgr_surface (W : World) (m : Mgr) (redirect : Bool) :
    ∀ (fuel : Nat) (method url : Str) (kw : Kw),
      Surface (mgrUrlopen W m fuel method url redirect kw) redirect
        (deriveRetry kw.retries redirect m.retries) := by
  apply mgr_induct W m redirect (fun _ _ kw R => Surface R redirect (deriveRetry kw.retries redirect m.retries))
  · intro _ _ _
    exact ⟨fun _ => ⟨by simp, by simp⟩, fun pre s hl => by simp at hl⟩
  · intro method url kw R hR
    rcases mgrStep_done_shape hR with ⟨hl, h1, h2, _⟩ | ⟨s, hp, hl, he⟩
    · exact ⟨fun _ => ⟨h2, h1⟩, fun pre s hpre => by rw [hl] at hpre; simp at hpre⟩
    · refine ⟨fun h => (by rw [hl] at h; cases h), ?_⟩
      intro pre sl hpre _
      rw [hl] at hpre
      cases pre with
      | nil =>
        simp only [List.nil_append, List.cons.injEq, and_true] at hpre
        subst hpre
        exact ⟨_, Descends.refl _, he⟩
      | cons a t =>
        simp only [List.cons_append, List.cons.injEq] at hpre
        have := hpre.2
        cases t <;> simp at this
  · intro method url kw log m' u' kw' R' hstep ih
    obtain ⟨N⟩ := mgrStep_next hstep
    rw [N.retries_eq] at ih
    simp only [deriveRetry_retry] at ih
    exact Surface.cons N.incr ih log N.log_eq

end U3.Manager

namespace U3.Manager
open U3 U3.Headers U3.Retry

/-! ## statements about `run` (one user call), ready for the property files -/

theorem run_manager (W : World) (m : Mgr) (fuel : Nat) (req : Req) :
    run W (.manager m) fuel req = mgrUrlopen W m fuel (requestWrap (.manager m) req).1 req.url
      (req.redirect.getD true) ⟨req.body, (requestWrap (.manager m) req).2, req.retries⟩ := rfl

theorem run_pool (W : World) (p : Pool) (fuel : Nat) (req : Req) :
    run W (.pool p) fuel req = poolUrlopen W p fuel (requestWrap (.pool p) req).1 req.url req.body
      (requestWrap (.pool p) req).2 req.retries (req.redirect.getD true) (req.assertSameHost.getD true) := rfl

/-- the policy the code consults is the one the caller supplied, wherever it was placed: per request,
on the bare pool, or on the `PoolManager` / `ProxyManager` constructor (`PoolManager.urlopen` falls back
to `connection_pool_kw["retries"]` just as the pool falls back to `self.retries`) -/
theorem effective_eq_supplied (c : Client) (req : Req) : effective c req = supplied c req := by
  cases c <;> rfl

theorem run_surface (W : World) (c : Client) (fuel : Nat) (req : Req) :
    Surface (run W c fuel req) (req.redirect.getD true) (effective c req) := by
  cases c with
  | manager m => rw [run_manager]; exact mgr_surface W m _ fuel _ _ _
  | pool p => rw [run_pool]; exact pool_surface W p _ _ fuel _ _ _ _ _

/-- the follow-up of a request, hop by hop (manager and pool level) -/
def Hop (W : World) (c : Client) (a b : Sent) : Prop :=
  a.reply.redirectLocation.isSome = true ∧
  b.method = (rewrite303 a.reply.status a.method a.body (.dict [])).1 ∧
  b.body = (rewrite303 a.reply.status a.method a.body (.dict [])).2.1 ∧
  (match c with
   | .pool _ => some b.url = a.reply.redirectLocation
   | .manager _ => ∃ loc, a.reply.redirectLocation = some loc ∧ W.join a.url loc = some b.url)

theorem rewrite303_hdr_irrel (st : Nat) (method : Str) (body : Option Bytes) (h h' : Hdrs) :
    (rewrite303 st method body h).1 = (rewrite303 st method body h').1 ∧
    (rewrite303 st method body h).2.1 = (rewrite303 st method body h').2.1 := by
  unfold rewrite303; split <;> exact ⟨rfl, rfl⟩

theorem run_hops (W : World) (c : Client) (fuel : Nat) (req : Req) :
    Chain2 (Hop W c) (run W c fuel req).log := by
  cases c with
  | pool p =>
    rw [run_pool]
    apply pool_chain W p
    intro a b h1 h2 h3 h4
    exact ⟨h1, h2, h3, h4⟩
  | manager m =>
    rw [run_manager]
    apply mgr_chain W m _ (fun _ _ _ => True) (Hop W (.manager m)) (fun _ _ => trivial)
    · intro method url kw log m' u' kw' N b _ hb
      obtain ⟨hu, hm, hbd⟩ := hb.facts
      obtain ⟨_, hma, hba, _, _⟩ := poolAttempt_ok N.attempt
      refine ⟨by rw [N.location]; rfl, ?_, ?_, N.loc, N.location, ?_⟩
      · rw [hm]
        refine N.method_eq.trans ?_
        show _ = (rewrite303 N.s.reply.status N.s.method N.s.body _).1
        rw [hma, hba]
        exact (rewrite303_hdr_irrel _ _ _ _ _).1
      · rw [hbd]
        refine N.body_eq.trans ?_
        show _ = (rewrite303 N.s.reply.status N.s.method N.s.body _).2.1
        rw [hma, hba]
        exact (rewrite303_hdr_irrel _ _ _ _ _).2
      · rw [hu]; exact N.joined
    · trivial

/-- with redirects disabled (or no budget at all) one request goes out and its reply comes back -/
theorem run_disabled (W : World) (c : Client) (fuel : Nat) (req : Req)
    (h : req.redirect.getD true = false ∨
      ((effective c req).redirect.budget = some 0 ∨ (effective c req).total.budget = some 0)) :
    (run W c fuel req).log = [] ∨
    ∃ s, (run W c fuel req).log = [s] ∧ s.url = req.url ∧
      EndsWith (run W c fuel req) s (req.redirect.getD true) (effective c req) := by
  cases c with
  | pool p =>
    rw [run_pool]
    rcases pool_disabled W p fuel (requestWrap (.pool p) req).1 req.url req.body
      (requestWrap (.pool p) req).2 req.retries (req.redirect.getD true) (req.assertSameHost.getD true) h
      with h' | ⟨s, hl, hu, _, _, he⟩
    · exact Or.inl h'
    · exact Or.inr ⟨s, hl, hu, he⟩
  | manager m =>
    rw [run_manager]
    rcases mgr_disabled W m fuel (requestWrap (.manager m) req).1 req.url (req.redirect.getD true)
      ⟨req.body, (requestWrap (.manager m) req).2, req.retries⟩ h with h' | ⟨s, hl, hp, he⟩
    · exact Or.inl h'
    · exact Or.inr ⟨s, hl, hp.facts.1, he⟩

/-- where the request of a manager pass goes (no proxy): the pool `connection_from_host` makes for the
parsed URL, with the request target of its `request_uri` -/
theorem MgrPass.noproxy {W : World} {m : Mgr} {method url : Str} {kw : Kw} {s : Sent}
    (h : MgrPass W m method url kw s) (hp : m.proxy = none) :
    ∃ u conn pu, W.parse s.url = some u ∧ connectionFromHost m u.host u.port u.scheme = .ok conn ∧
      W.parse u.requestUri = some pu ∧ s.dest = conn.id.origin ∧ s.dial = conn.id.origin ∧
      s.tunnel = false ∧ s.target = pu.target ∧ s.reply = W.serve conn.id.origin method pu.target := by
  obtain ⟨u, conn, s0, r0, hs, hu, hconn, hpa, hs0⟩ := h
  have hcp : conn.proxy = none := by
    unfold connectionFromHost at hconn
    rw [hp] at hconn
    simp only at hconn
    unfold pmConnectionFromHost at hconn
    split at hconn
    · cases hconn
    · dsimp only at hconn
      repeat' split at hconn
      all_goals first | (injection hconn with hconn; rw [← hconn]; exact hp) | cases hconn
  have htgt : mgrTarget m u url = u.requestUri := by simp [mgrTarget, hp]
  rw [htgt] at hpa
  obtain ⟨pu, hpu, _, ht, _, hx⟩ := poolAttempt_ok' hpa
  obtain ⟨h1, h2, h3, h4⟩ := hx hcp
  subst hs0
  exact ⟨u, conn, pu, hu, hconn, hpu, h1, h2, h3, ht, h4⟩

end U3.Manager

namespace U3.Manager
open U3 U3.Headers U3.Retry

/-! ## the policies of the property's quantifier have sane counters -/

theorem sane_of_none (r : Retry)
    (h : r.connect = .none ∧ r.read = .none ∧ r.status = .none ∧ r.other = .none) : SaneCounters r := by
  intro n hn
  obtain ⟨h1, h2, h3, h4⟩ := h
  rw [h1, h2, h3, h4] at hn
  rcases hn with h | h | h | h <;> cases h

/-- `Retry(total, redirect=…)`: the other counters keep their default `None` -/
theorem sane_ofTotal (t rd : Count) : SaneCounters (Retry.ofTotal t rd) := by
  apply sane_of_none
  unfold Retry.ofTotal Retry.init
  dsimp only
  split <;> exact ⟨rfl, rfl, rfl, rfl⟩

theorem fromInt_none_false (redirect : Bool) :
    Retry.fromInt .none redirect .false = Retry.fromInt .false redirect .none := by
  cases redirect <;> rfl

theorem fromInt_none_retry (redirect : Bool) (r : Retry) : Retry.fromInt .none redirect (.retry r) = r := by
  cases redirect <;> rfl

/-- `None`, `False` and integers (per request or as a default) give sane counters -/
theorem sane_fromInt (a d : Arg) (redirect : Bool) (ha : ∀ r, a ≠ .retry r)
    (hd : a = .none → ∀ r, d = .retry r → SaneCounters r) : SaneCounters (Retry.fromInt a redirect d) := by
  cases a with
  | retry r => exact absurd rfl (ha r)
  | false => cases redirect <;> exact sane_ofTotal _ _
  | int n => cases redirect <;> exact sane_ofTotal _ _
  | none =>
    cases d with
    | none => cases redirect <;> exact sane_ofTotal _ _
    | false => cases redirect <;> exact sane_ofTotal _ _
    | int n => cases redirect <;> exact sane_ofTotal _ _
    | retry r => rw [fromInt_none_retry]; exact hd rfl r rfl

end U3.Manager
