import U3.Model.Manager
import U3.Lemmas.Headers
/-! Helper lemmas for C05 / C06 (`U3.Manager`). -/
namespace U3.Manager
open U3 U3.Headers U3.Retry

/-! ## `Retry.increment` on a redirect -/

theorem foldl_min_le (xs : List Int) (x n : Int) (h : n = x ∨ n ∈ xs) : xs.foldl min x ≤ n := by
  induction xs generalizing x n with
  | nil =>
    rcases h with h | h
    · subst h; exact Int.le_refl _
    · cases h
  | cons y ys ih =>
    simp only [List.foldl_cons]
    rcases h with h | h
    · subst h
      have := ih (min n y) (min n y) (Or.inl rfl)
      exact Int.le_trans this (Int.min_le_left _ _)
    · rcases List.mem_cons.mp h with h | h
      · subst h
        have := ih (min x n) (min x n) (Or.inl rfl)
        exact Int.le_trans this (Int.min_le_right _ _)
      · exact ih (min x y) n (Or.inr h)

theorem isExhausted_of_neg (r : Retry) (n : Int) (hn : n < 0) (hm : Count.num n ∈ r.counters) :
    r.isExhausted = true := by
  have hmem : n ∈ r.retryCounts := by
    unfold Retry.retryCounts
    rw [List.mem_filterMap]
    refine ⟨.num n, hm, ?_⟩
    have : (n != 0) = true := by simp; omega
    simp [this]
  unfold Retry.isExhausted
  cases hrc : r.retryCounts with
  | nil => rw [hrc] at hmem; cases hmem
  | cons x xs =>
    rw [hrc] at hmem
    have hle : xs.foldl min x ≤ n := foldl_min_le xs x n (by
      rcases List.mem_cons.mp hmem with h | h
      · exact Or.inl h
      · exact Or.inr h)
    simp only [decide_eq_true_eq]
    omega

theorem Count.dec_ne_disabled (c : Count) : c.dec ≠ .disabled := by
  cases c <;> simp [Count.dec]

/-- what a successful `increment` on a redirect response returns -/
theorem increment_redirect_ok {r r' : Retry} {m : Option Str} {st : Nat}
    (h : r.increment m (.redirect st) = .ok r') :
    r'.redirect = r.redirect.dec ∧ r'.total = r.total.dec ∧ r'.isExhausted = false ∧
    r'.raiseOnRedirect = r.raiseOnRedirect ∧
    r'.removeHeadersOnRedirect = r.removeHeadersOnRedirect.map lower := by
  simp only [Retry.increment, Retry.finish] at h
  split at h
  · cases h
  · rename_i hex
    injection h with h
    subst h
    refine ⟨?_, ?_, by simpa using hex, ?_, ?_⟩ <;>
    · simp only [Retry.new, Retry.init]
      split
      · rename_i hd
        rcases hd with hd | hd
        · exact absurd hd (Count.dec_ne_disabled _)
        · exact absurd hd (Count.dec_ne_disabled _)
      · rfl

theorem increment_redirect_err {r : Retry} {m : Option Str} {st : Nat} {e : Raise}
    (h : r.increment m (.redirect st) = .error e) : ∃ c, e = .maxRetry c := by
  simp only [Retry.increment, Retry.finish] at h
  split at h
  · injection h with h; exact ⟨_, h.symm⟩
  · cases h

theorem redirect_budget_step {r r' : Retry} {m : Option Str} {st b : Nat}
    (h : r.increment m (.redirect st) = .ok r') (hb : r.redirect.budget = some b) :
    ∃ b', r'.redirect.budget = some b' ∧ b' + 1 ≤ b := by
  obtain ⟨hr, _, hex, _, _⟩ := increment_redirect_ok h
  have hcnt : r'.redirect ∈ r'.counters := by simp [Retry.counters]
  cases hrd : r.redirect with
  | none => rw [hrd] at hb; cases hb
  | disabled =>
    rw [hrd] at hr
    simp only [Count.dec] at hr
    have := isExhausted_of_neg r' (-1) (by omega) (hr ▸ hcnt)
    rw [this] at hex; cases hex
  | num n =>
    rw [hrd] at hr hb
    simp only [Count.dec] at hr
    simp only [Count.budget, Option.some.injEq] at hb
    have hn : ¬ (n - 1 < 0) := by
      intro hneg
      have := isExhausted_of_neg r' (n - 1) hneg (hr ▸ hcnt)
      rw [this] at hex; cases hex
    refine ⟨(n - 1).toNat, by rw [hr]; rfl, ?_⟩
    omega

theorem total_budget_step {r r' : Retry} {m : Option Str} {st b : Nat}
    (h : r.increment m (.redirect st) = .ok r') (hb : r.total.budget = some b) :
    ∃ b', r'.total.budget = some b' ∧ b' + 1 ≤ b := by
  obtain ⟨_, hr, hex, _, _⟩ := increment_redirect_ok h
  have hcnt : r'.total ∈ r'.counters := by simp [Retry.counters]
  cases hrd : r.total with
  | none => rw [hrd] at hb; cases hb
  | disabled =>
    rw [hrd] at hr
    simp only [Count.dec] at hr
    have := isExhausted_of_neg r' (-1) (by omega) (hr ▸ hcnt)
    rw [this] at hex; cases hex
  | num n =>
    rw [hrd] at hr hb
    simp only [Count.dec] at hr
    simp only [Count.budget, Option.some.injEq] at hb
    have hn : ¬ (n - 1 < 0) := by
      intro hneg
      have := isExhausted_of_neg r' (n - 1) hneg (hr ▸ hcnt)
      rw [this] at hex; cases hex
    refine ⟨(n - 1).toNat, by rw [hr]; rfl, ?_⟩
    omega

end U3.Manager

namespace U3.Manager
open U3 U3.Headers U3.Retry

/-! ## one pass through the pool -/

@[simp] theorem deriveRetry_retry (r : Retry) (b : Bool) (d : Arg) : deriveRetry (.retry r) b d = r := rfl

theorem poolAttempt_ok {W : World} {p : Pool} {method url : Str} {body : Option Bytes}
    {headers : Option Hdrs} {retries : Arg} {redirect ash : Bool} {s : Sent} {r : Retry} {hs : Hdrs}
    (h : poolAttempt W p method url body headers retries redirect ash = .ok (s, r, hs)) :
    r = deriveRetry retries redirect p.retries ∧ s.method = method ∧ s.body = body ∧ s.url = url ∧
    s.headers = hs.items ∧ (ash = true → ∃ pu, W.parse url = some pu ∧ isSameHost p.id url pu = true) := by
  unfold poolAttempt at h
  split at h
  · cases h
  · rename_i pu hpu
    split at h
    · cases h
    · rename_i hsame
      simp only [Except.ok.injEq, Prod.mk.injEq] at h
      obtain ⟨hs1, hr, hh⟩ := h
      subst hs1 hr hh
      refine ⟨rfl, rfl, rfl, rfl, rfl, ?_⟩
      intro ha
      refine ⟨pu, hpu, ?_⟩
      subst ha
      simpa using hsame

/-- the recursive call of the pool's redirect branch -/
theorem poolStep_next {W : World} {p : Pool} {method url : Str} {body : Option Bytes}
    {headers : Option Hdrs} {retries : Arg} {redirect ash : Bool} {s : Sent} {m' u' : Str}
    {b' : Option Bytes} {h' : Hdrs} {r' : Retry}
    (h : poolStep W p method url body headers retries redirect ash = .next s m' u' b' h' r') :
    ∃ hs, poolAttempt W p method url body headers retries redirect ash
        = .ok (s, deriveRetry retries redirect p.retries, hs) ∧
      redirect = true ∧ s.reply.redirectLocation = some u' ∧
      (m', b', h') = rewrite303 s.reply.status method body hs ∧
      (deriveRetry retries redirect p.retries).increment (some m') (.redirect s.reply.status) = .ok r' := by
  unfold poolStep at h
  split at h
  · cases h
  · rename_i sent r hs hpa
    have hr := (poolAttempt_ok hpa).1
    split at h
    · rename_i loc hloc
      dsimp only at h
      split at h
      · cases h
      · cases h
      · rename_i r'' hinc
        simp only [PoolStep.next.injEq] at h
        obtain ⟨h1, h2, h3, h4, h5, h6⟩ := h
        subst h1 h3 h6
        refine ⟨hs, by rw [hpa, hr], ?_, ?_, ?_, ?_⟩
        · cases redirect <;> simp_all
        · cases redirect <;> simp_all
        · rw [← h2, ← h4, ← h5]
        · rw [← hr, ← h2]; exact hinc
    · cases h

/-- a pass that does not recurse has sent at most one request -/
theorem poolStep_done_len {W : World} {p : Pool} {method url : Str} {body : Option Bytes}
    {headers : Option Hdrs} {retries : Arg} {redirect ash : Bool} {R : Run}
    (h : poolStep W p method url body headers retries redirect ash = .done R) : R.log.length ≤ 1 := by
  unfold poolStep at h
  split at h
  · cases h; simp
  · split at h
    · dsimp only at h
      split at h
      · cases h; unfold onExhausted; split <;> simp
      · cases h; simp
      · cases h
    · cases h; unfold notFollowed; split <;> simp

@[simp] theorem Run.cons_log (s : Sent) (r : Run) : (r.cons s).log = s :: r.log := rfl
@[simp] theorem Run.cons_outcome (s : Sent) (r : Run) : (r.cons s).outcome = r.outcome := rfl
@[simp] theorem Run.append_log (l : List Sent) (r : Run) : (r.append l).log = l ++ r.log := rfl
@[simp] theorem Run.append_outcome (l : List Sent) (r : Run) : (r.append l).outcome = r.outcome := rfl
@[simp] theorem Run.withUrl_outcome (r : Run) (u : Str) : (r.withUrl u).outcome = r.outcome := rfl
@[simp] theorem Run.withUrl_length (r : Run) (u : Str) : (r.withUrl u).log.length = r.log.length := by
  simp [Run.withUrl]

/-- **pool-level budget**: requests sent ≤ 1 + redirect budget of the policy in force -/
theorem pool_len_redirect (W : World) (p : Pool) :
    ∀ (fuel : Nat) (method url : Str) (body : Option Bytes) (headers : Option Hdrs) (retries : Arg)
      (redirect ash : Bool) (b : Nat),
      (deriveRetry retries redirect p.retries).redirect.budget = some b →
      (poolUrlopen W p fuel method url body headers retries redirect ash).log.length ≤ b + 1 := by
  intro fuel
  induction fuel with
  | zero => intros; simp [poolUrlopen]
  | succ n ih =>
    intro method url body headers retries redirect ash b hb
    simp only [poolUrlopen]
    split
    · rename_i R hR
      have := poolStep_done_len hR
      omega
    · rename_i s m' u' b' h' r' hstep
      obtain ⟨hs, _, _, _, _, hinc⟩ := poolStep_next hstep
      obtain ⟨b2, hb2, hle⟩ := redirect_budget_step hinc hb
      have := ih m' u' b' (some h') (.retry r') redirect ash b2 (by simpa using hb2)
      simp only [Run.cons_log, List.length_cons]
      omega

theorem pool_len_total (W : World) (p : Pool) :
    ∀ (fuel : Nat) (method url : Str) (body : Option Bytes) (headers : Option Hdrs) (retries : Arg)
      (redirect ash : Bool) (b : Nat),
      (deriveRetry retries redirect p.retries).total.budget = some b →
      (poolUrlopen W p fuel method url body headers retries redirect ash).log.length ≤ b + 1 := by
  intro fuel
  induction fuel with
  | zero => intros; simp [poolUrlopen]
  | succ n ih =>
    intro method url body headers retries redirect ash b hb
    simp only [poolUrlopen]
    split
    · rename_i R hR
      have := poolStep_done_len hR
      omega
    · rename_i s m' u' b' h' r' hstep
      obtain ⟨hs, _, _, _, _, hinc⟩ := poolStep_next hstep
      obtain ⟨b2, hb2, hle⟩ := total_budget_step hinc hb
      have := ih m' u' b' (some h') (.retry r') redirect ash b2 (by simpa using hb2)
      simp only [Run.cons_log, List.length_cons]
      omega

/-- with `redirect=False` the pool never recurses -/
theorem poolStep_noredirect {W : World} {p : Pool} {method url : Str} {body : Option Bytes}
    {headers : Option Hdrs} {retries : Arg} {ash : Bool} :
    ∃ R, poolStep W p method url body headers retries false ash = .done R := by
  cases hst : poolStep W p method url body headers retries false ash with
  | done R => exact ⟨R, rfl⟩
  | next s m' u' b' h' r' =>
    obtain ⟨_, _, hred, _⟩ := poolStep_next hst
    cases hred

theorem poolOnce_eq {W : World} {p : Pool} {method url : Str} {body : Option Bytes}
    {headers : Option Hdrs} {retries : Arg} {ash : Bool} :
    poolStep W p method url body headers retries false ash
      = .done (poolUrlopen W p 1 method url body headers retries false ash) := by
  obtain ⟨R, hR⟩ := poolStep_noredirect (W := W) (p := p) (method := method) (url := url) (body := body)
    (headers := headers) (retries := retries) (ash := ash)
  simp only [poolUrlopen, hR]

theorem poolOnce_len {W : World} {p : Pool} {method url : Str} {body : Option Bytes}
    {headers : Option Hdrs} {retries : Arg} {ash : Bool} :
    (poolUrlopen W p 1 method url body headers retries false ash).log.length ≤ 1 :=
  poolStep_done_len poolOnce_eq

end U3.Manager

namespace U3.Manager
open U3 U3.Headers U3.Retry

/-! ## one pass through the manager -/

theorem notFollowed_log (r : Retry) (m : Str) (s : Sent) : (notFollowed r m s).log = [s] := by
  unfold notFollowed; split <;> rfl

theorem notFollowed_outcome (r : Retry) (m : Str) (s : Sent) :
    (notFollowed r m s).outcome = .response s.reply ∨ (notFollowed r m s).outcome = .statusRetry := by
  unfold notFollowed; split
  · exact Or.inr rfl
  · exact Or.inl rfl

/-- the single pass of the pool with `redirect=False` -/
theorem poolOnce_shape (W : World) (p : Pool) (method url : Str) (body : Option Bytes)
    (headers : Option Hdrs) (retries : Arg) (ash : Bool) :
    (∃ o, poolAttempt W p method url body headers retries false ash = .error o ∧
        poolUrlopen W p 1 method url body headers retries false ash = ⟨[], o⟩) ∨
    (∃ s r hs, poolAttempt W p method url body headers retries false ash = .ok (s, r, hs) ∧
        poolUrlopen W p 1 method url body headers retries false ash = notFollowed r method s) := by
  have h := poolOnce_eq (W := W) (p := p) (method := method) (url := url) (body := body)
    (headers := headers) (retries := retries) (ash := ash)
  unfold poolStep at h
  split at h
  · rename_i o ho
    left; refine ⟨o, ho, ?_⟩
    injection h with h; exact h.symm
  · rename_i s r hs hpa
    right; refine ⟨s, r, hs, hpa, ?_⟩
    simp only [Bool.false_eq_true, if_false] at h
    injection h with h; exact h.symm

@[simp] theorem proxyKw_body (m : Mgr) (u : PUrl) (kw : Kw) : (proxyKw m u kw).body = kw.body := by
  unfold proxyKw; split
  · split <;> rfl
  · rfl

@[simp] theorem proxyKw_retries (m : Mgr) (u : PUrl) (kw : Kw) : (proxyKw m u kw).retries = kw.retries := by
  unfold proxyKw; split
  · split <;> rfl
  · rfl

theorem proxyKw_noproxy (m : Mgr) (u : PUrl) (kw : Kw) (h : m.proxy = none) : proxyKw m u kw = kw := by
  unfold proxyKw; rw [h]

/-- the request target the manager hands to the pool -/
def mgrTarget (m : Mgr) (u : PUrl) (url : Str) : Str :=
  if (m.proxy.isSome && !requiresTunnel m.proxy u.scheme) = true then url else u.requestUri

/-- the headers the manager hands to the pool -/
def mgrHeaders (m : Mgr) (u : PUrl) (kw : Kw) : Hdrs := (proxyKw m u kw).headers.getD m.headers

theorem mgrSend_shape (W : World) (m : Mgr) (conn : Pool) (u : PUrl) (method url : Str) (kw : Kw) :
    (∃ o, mgrSend W m conn u method url kw = ⟨[], o⟩ ∧ ∀ r, o ≠ .response r) ∨
    (∃ s r hs, poolAttempt W conn method (mgrTarget m u url) kw.body (some (kw.headers.getD m.headers))
          kw.retries false false = .ok (s, r, hs) ∧
        (mgrSend W m conn u method url kw).log = [{ s with url := url }] ∧
        ((mgrSend W m conn u method url kw).outcome = .response s.reply ∨
         (mgrSend W m conn u method url kw).outcome = .statusRetry)) := by
  unfold mgrSend
  rcases poolOnce_shape W conn method (mgrTarget m u url) kw.body (some (kw.headers.getD m.headers))
      kw.retries false with ⟨o, ho, hR⟩ | ⟨s, r, hs, hpa, hR⟩
  · left
    refine ⟨o, ?_, ?_⟩
    · simp only [mgrTarget] at hR
      simp only [hR, Run.withUrl, List.map_nil]
    · intro r hr
      subst hr
      unfold poolAttempt at ho
      split at ho
      · cases ho
      · simp at ho
  · right
    refine ⟨s, r, hs, hpa, ?_, ?_⟩
    · simp only [mgrTarget] at hR
      simp only [hR, Run.withUrl, notFollowed_log, List.map_cons, List.map_nil]
    · simp only [mgrTarget] at hR
      simp only [hR, Run.withUrl_outcome]
      exact notFollowed_outcome r method s

/-- what is known when one pass of the manager ends in the recursive call -/
structure MgrNext (W : World) (m : Mgr) (method url : Str) (redirect : Bool) (kw : Kw)
    (log : List Sent) (m' u' : Str) (kw' : Kw) where
  u : PUrl
  conn : Pool
  s : Sent
  hs : Hdrs
  r0 : Retry
  loc : Str
  r' : Retry
  same : Bool
  parse : W.parse url = some u
  connOk : connectionFromHost m u.host u.port u.scheme = .ok conn
  attempt : poolAttempt W conn method (mgrTarget m u url) kw.body (some (mgrHeaders m u kw)) kw.retries
    false false = .ok (s, r0, hs)
  log_eq : log = [{ s with url := url }]
  redirect_on : redirect = true
  location : s.reply.redirectLocation = some loc
  joined : W.join url loc = some u'
  method_eq : m' = (rewrite303 s.reply.status method kw.body (mgrHeaders m u kw)).1
  body_eq : kw'.body = (rewrite303 s.reply.status method kw.body (mgrHeaders m u kw)).2.1
  headers_eq : kw'.headers = some (if same then (rewrite303 s.reply.status method kw.body (mgrHeaders m u kw)).2.2
    else strip (deriveRetry kw.retries redirect .none).removeHeadersOnRedirect
      (rewrite303 s.reply.status method kw.body (mgrHeaders m u kw)).2.2)
  same_eq : ((deriveRetry kw.retries redirect .none).removeHeadersOnRedirect.isEmpty = true ∧ same = true) ∨
    (∃ lu, W.parse u' = some lu ∧ same = isSameHost conn.id u' lu)
  retries_eq : kw'.retries = .retry r'
  incr : (deriveRetry kw.retries redirect .none).increment (some m') (.redirect s.reply.status) = .ok r'

theorem mgrRedirect_next {W : World} {conn : Pool} {method url : Str} {redirect : Bool} {headers : Hdrs}
    {kw : Kw} {first : Run} {reply : Reply} {loc : Str} {log : List Sent} {m' u' : Str} {kw' : Kw}
    (h : mgrRedirect W conn method url redirect headers kw first reply loc = .next log m' u' kw') :
    log = first.log ∧ W.join url loc = some u' ∧
    m' = (rewrite303 reply.status method kw.body headers).1 ∧
    kw'.body = (rewrite303 reply.status method kw.body headers).2.1 ∧
    ∃ same r', kw'.headers = some (if same then (rewrite303 reply.status method kw.body headers).2.2
        else strip (deriveRetry kw.retries redirect .none).removeHeadersOnRedirect
          (rewrite303 reply.status method kw.body headers).2.2) ∧
      (((deriveRetry kw.retries redirect .none).removeHeadersOnRedirect.isEmpty = true ∧ same = true) ∨
        (∃ lu, W.parse u' = some lu ∧ same = isSameHost conn.id u' lu)) ∧
      kw'.retries = .retry r' ∧
      (deriveRetry kw.retries redirect .none).increment (some m') (.redirect reply.status) = .ok r' := by
  unfold mgrRedirect at h
  split at h
  · cases h
  · rename_i loc' hj
    dsimp only at h
    split at h
    · cases h
    · rename_i same hsame
      split at h
      · cases h
      · cases h
      · rename_i r' hinc
        simp only [MgrStep.next.injEq] at h
        obtain ⟨h1, h2, h3, h4⟩ := h
        subst h1 h2 h3 h4
        refine ⟨rfl, hj, rfl, rfl, same, r', rfl, ?_, rfl, hinc⟩
        split at hsame
        · rename_i he
          left; exact ⟨he, by injection hsame with h; exact h.symm⟩
        · right
          cases hp : W.parse loc' with
          | none => rw [hp] at hsame; cases hsame
          | some lu =>
            rw [hp] at hsame
            simp only [Option.map_some, Option.some.injEq] at hsame
            exact ⟨lu, rfl, hsame.symm⟩

theorem mgrStep_next {W : World} {m : Mgr} {method url : Str} {redirect : Bool} {kw : Kw}
    {log : List Sent} {m' u' : Str} {kw' : Kw}
    (h : mgrStep W m method url redirect kw = .next log m' u' kw') :
    Nonempty (MgrNext W m method url redirect kw log m' u' kw') := by
  unfold mgrStep at h
  split at h
  · cases h
  · rename_i u hu
    dsimp only at h
    split at h
    · cases h
    · rename_i conn hconn
      split at h
      · rename_i reply hout
        split at h
        · cases h
        · rename_i loc hloc
          obtain ⟨hlog, hj, hm, hb, same, r', hh, hs, hr, hinc⟩ := mgrRedirect_next h
          rcases mgrSend_shape W m conn u method url (proxyKw m u kw) with ⟨o, hR, hne⟩ | ⟨s, r0, hs0, hpa, hl, ho⟩
          · rw [hR] at hout
            exact absurd hout (hne reply)
          · have hrep : reply = s.reply := by
              rcases ho with ho | ho
              · rw [ho] at hout; injection hout with h; exact h.symm
              · rw [ho] at hout; cases hout
            subst hrep
            have hred : redirect = true := by cases redirect <;> simp_all
            subst hred
            simp only [if_true] at hloc
            simp only [proxyKw_body, proxyKw_retries] at hpa hm hb hh hs hr hinc
            exact ⟨{ u := u, conn := conn, s := s, hs := hs0, r0 := r0, loc := loc, r' := r', same := same,
                     parse := hu, connOk := hconn, attempt := hpa, log_eq := by rw [hlog, hl],
                     redirect_on := rfl, location := hloc, joined := hj, method_eq := hm, body_eq := hb,
                     headers_eq := hh, same_eq := hs, retries_eq := hr, incr := hinc }⟩
      · cases h

theorem mgrStep_done_len {W : World} {m : Mgr} {method url : Str} {redirect : Bool} {kw : Kw} {R : Run}
    (h : mgrStep W m method url redirect kw = .done R) : R.log.length ≤ 1 := by
  unfold mgrStep at h
  split at h
  · cases h; simp
  · rename_i u hu
    dsimp only at h
    split at h
    · cases h; simp
    · rename_i conn hconn
      have hlen : (mgrSend W m conn u method url (proxyKw m u kw)).log.length ≤ 1 := by
        unfold mgrSend
        simp only [Run.withUrl_length]
        exact poolOnce_len
      split at h
      · split at h
        · cases h; exact hlen
        · unfold mgrRedirect at h
          split at h
          · cases h; exact hlen
          · dsimp only at h
            split at h
            · cases h; exact hlen
            · split at h
              · cases h; unfold onExhausted; split
                · exact hlen
                · exact hlen
              · cases h; exact hlen
              · cases h
      · cases h; exact hlen

/-- **manager-level budget**: requests sent ≤ 1 + redirect budget of the policy the code derives -/
theorem mgr_len_redirect (W : World) (m : Mgr) :
    ∀ (fuel : Nat) (method url : Str) (redirect : Bool) (kw : Kw) (b : Nat),
      (deriveRetry kw.retries redirect .none).redirect.budget = some b →
      (mgrUrlopen W m fuel method url redirect kw).log.length ≤ b + 1 := by
  intro fuel
  induction fuel with
  | zero => intros; simp [mgrUrlopen]
  | succ n ih =>
    intro method url redirect kw b hb
    simp only [mgrUrlopen]
    split
    · rename_i R hR
      have := mgrStep_done_len hR
      omega
    · rename_i log m' u' kw' hstep
      obtain ⟨N⟩ := mgrStep_next hstep
      obtain ⟨b2, hb2, hle⟩ := redirect_budget_step N.incr hb
      have := ih m' u' redirect kw' b2 (by rw [N.retries_eq]; simpa using hb2)
      simp only [Run.append_log, List.length_append, N.log_eq, List.length_cons, List.length_nil]
      omega

theorem mgr_len_total (W : World) (m : Mgr) :
    ∀ (fuel : Nat) (method url : Str) (redirect : Bool) (kw : Kw) (b : Nat),
      (deriveRetry kw.retries redirect .none).total.budget = some b →
      (mgrUrlopen W m fuel method url redirect kw).log.length ≤ b + 1 := by
  intro fuel
  induction fuel with
  | zero => intros; simp [mgrUrlopen]
  | succ n ih =>
    intro method url redirect kw b hb
    simp only [mgrUrlopen]
    split
    · rename_i R hR
      have := mgrStep_done_len hR
      omega
    · rename_i log m' u' kw' hstep
      obtain ⟨N⟩ := mgrStep_next hstep
      obtain ⟨b2, hb2, hle⟩ := total_budget_step N.incr hb
      have := ih m' u' redirect kw' b2 (by rw [N.retries_eq]; simpa using hb2)
      simp only [Run.append_log, List.length_append, N.log_eq, List.length_cons, List.length_nil]
      omega

end U3.Manager

namespace U3.Manager
open U3 U3.Headers U3.Retry

/-! ## chains of requests -/

/-- `P` holds between every two consecutive requests -/
def Chain2 (P : Sent → Sent → Prop) : List Sent → Prop
  | [] => True
  | [_] => True
  | a :: b :: t => P a b ∧ Chain2 P (b :: t)

theorem Chain2.get {P : Sent → Sent → Prop} : ∀ {l : List Sent}, Chain2 P l →
    ∀ (i : Nat) (a b : Sent), l[i]? = some a → l[i + 1]? = some b → P a b
  | [], _, i, a, b, ha, _ => by simp at ha
  | [x], _, i, a, b, ha, hb => by cases i <;> simp at hb
  | x :: y :: t, h, 0, a, b, ha, hb => by
    simp at ha hb; subst ha hb; exact h.1
  | x :: y :: t, h, i + 1, a, b, ha, hb => by
    simp only [List.getElem?_cons_succ] at ha hb
    exact Chain2.get h.2 i a b ha hb

theorem Chain2.cons_of_head {P : Sent → Sent → Prop} {s : Sent} {l : List Sent}
    (hl : Chain2 P l) (hh : ∀ s', l.head? = some s' → P s s') : Chain2 P (s :: l) := by
  cases l with
  | nil => trivial
  | cons b t => exact ⟨hh b rfl, hl⟩

/-- the poolmerge of `HTTPConnectionPool.urlopen` -/
def poolMerge (p : Pool) (scheme : Option Str) (h : Hdrs) : Hdrs :=
  if requiresTunnel p.proxy scheme then h
  else h.copy.updateDict (match p.proxy with | some px => px.headers | none => [])

theorem poolAttempt_ok' {W : World} {p : Pool} {method url : Str} {body : Option Bytes}
    {headers : Option Hdrs} {retries : Arg} {redirect ash : Bool} {s : Sent} {r : Retry} {hs : Hdrs}
    (h : poolAttempt W p method url body headers retries redirect ash = .ok (s, r, hs)) :
    ∃ pu, W.parse url = some pu ∧ hs = poolMerge p pu.scheme (headers.getD p.headers) ∧
      s.target = pu.target ∧ s.headers = hs.items ∧
      (p.proxy = none → s.dest = p.id.origin ∧ s.dial = p.id.origin ∧ s.tunnel = false ∧
        s.reply = W.serve p.id.origin method pu.target) := by
  unfold poolAttempt at h
  split at h
  · cases h
  · rename_i pu hpu
    split at h
    · cases h
    · simp only [Except.ok.injEq, Prod.mk.injEq] at h
      obtain ⟨hs1, hr, hh⟩ := h
      subst hs1 hr hh
      refine ⟨pu, hpu, ?_, rfl, rfl, ?_⟩
      · unfold poolMerge; split <;> rfl
      · intro hp
        simp [hp, requiresTunnel]

/-- the first request of a pool-level run is the one asked for -/
theorem pool_head (W : World) (p : Pool) (fuel : Nat) (method url : Str) (body : Option Bytes)
    (headers : Option Hdrs) (retries : Arg) (redirect ash : Bool) (s : Sent)
    (h : (poolUrlopen W p fuel method url body headers retries redirect ash).log.head? = some s) :
    s.method = method ∧ s.body = body ∧ s.url = url := by
  cases fuel with
  | zero => simp [poolUrlopen] at h
  | succ n =>
    simp only [poolUrlopen] at h
    split at h
    · rename_i R hR
      unfold poolStep at hR
      split at hR
      · cases hR; simp at h
      · rename_i s0 r0 hs0 hpa
        obtain ⟨_, hm, hb, hu, _⟩ := poolAttempt_ok hpa
        have hlog : R.log = [s0] := by
          split at hR
          · dsimp only at hR
            split at hR
            · cases hR; unfold onExhausted; split <;> rfl
            · cases hR; rfl
            · cases hR
          · cases hR; exact notFollowed_log _ _ _
        rw [hlog] at h
        simp at h; subst h
        exact ⟨hm, hb, hu⟩
    · rename_i s0 m' u' b' h' r' hstep
      obtain ⟨hs, hpa, _⟩ := poolStep_next hstep
      obtain ⟨_, hm, hb, hu, _⟩ := poolAttempt_ok hpa
      simp at h; subst h
      exact ⟨hm, hb, hu⟩

/-- **per-hop facts of the pool-level redirect branch** -/
theorem pool_chain (W : World) (p : Pool) (P : Sent → Sent → Prop)
    (hP : ∀ a b : Sent, a.reply.redirectLocation.isSome →
      b.method = (rewrite303 a.reply.status a.method a.body (.dict [])).1 →
      b.body = (rewrite303 a.reply.status a.method a.body (.dict [])).2.1 →
      some b.url = a.reply.redirectLocation → P a b) :
    ∀ (fuel : Nat) (method url : Str) (body : Option Bytes) (headers : Option Hdrs) (retries : Arg)
      (redirect ash : Bool), Chain2 P (poolUrlopen W p fuel method url body headers retries redirect ash).log := by
  intro fuel
  induction fuel with
  | zero => intros; simp [poolUrlopen, Chain2]
  | succ n ih =>
    intro method url body headers retries redirect ash
    simp only [poolUrlopen]
    split
    · rename_i R hR
      have := poolStep_done_len hR
      match hl : R.log with
      | [] => trivial
      | [_] => trivial
      | _ :: _ :: _ => rw [hl] at this; simp at this
    · rename_i s m' u' b' h' r' hstep
      obtain ⟨hs, hpa, _, hloc, hrw, _⟩ := poolStep_next hstep
      obtain ⟨_, hm, hb, _, _⟩ := poolAttempt_ok hpa
      simp only [Run.cons_log]
      refine Chain2.cons_of_head (ih m' u' b' (some h') (.retry r') redirect ash) ?_
      intro s' hs'
      obtain ⟨hm', hb', hu'⟩ := pool_head W p n m' u' b' (some h') (.retry r') redirect ash s' hs'
      have h1 : m' = (rewrite303 s.reply.status method body hs).1 := by rw [← hrw]
      have h2 : b' = (rewrite303 s.reply.status method body hs).2.1 := by rw [← hrw]
      apply hP s s' (by rw [hloc]; rfl)
      · rw [hm', h1, hm, hb]; unfold rewrite303; split <;> rfl
      · rw [hb', h2, hm, hb]; unfold rewrite303; split <;> rfl
      · rw [hu', hloc]

end U3.Manager
