import U3.Lemmas.RespGzip
/-! The stored-block gzip encoder and its round trip through the `GzipDecoder` semantics, for EVERY
payload: `gzMember p` (10-byte header, one final stored block, CRC-32, ISIZE) for `|p| ≤ 65535`, and
`gzStream ps` = the concatenation of the members of a list of payloads.  This ties the relation
`GzG` (and with it `Inv`) to concrete wire bytes for all payloads, not only for evaluated examples. -/
namespace U3.Resp
open U3

def le16 (n : Nat) : Bytes := [n % 256, n / 256 % 256]
def le32 (n : Nat) : Bytes := [n % 256, n / 256 % 256, n / 65536 % 256, n / 16777216 % 256]
def gzHeader : Bytes := [31, 139, 8, 0, 0, 0, 0, 0, 0, 255]
def HC : Nat := gzHeader.foldl crcStep 0xFFFFFFFF

def mkS (ph : IPh) (acc : Bytes) (cnt : Nat) (last : Bool) (crc : Nat) (adler : Nat × Nat) (total : Nat) : Inf :=
  { wrap := .gzip, ph := ph, acc := acc, flags := 0, hcrc := HC, cnt := cnt, last := last, crc := crc,
    adler := adler, total := total }

set_option maxRecDepth 100000 in
/-- the 10-byte header (no optional fields) -/
theorem feed_hdr : feedLoop gzipO gzipO.init gzHeader [] = .ok (mkS .block [] 0 false 0xFFFFFFFF (1, 0) 0, [], []) := by
  rfl

set_option maxRecDepth 100000 in
theorem feed_blk (c : Nat) (a : Nat × Nat) (t : Nat) :
    feedLoop gzipO (mkS .block [] 0 false c a t) [1] [] = .ok (mkS .storedLen [] 0 true c a t, [], []) := by
  rfl

theorem le_le16 (n : Nat) (h : n < 65536) : le (le16 n) = n := by
  simp [le, le16]; omega

theorem le_le32 (n : Nat) (h : n < 4294967296) : le (le32 n) = n := by
  simp [le, le32]; omega

theorem gz_noteof (ph : IPh) (h : ph ≠ .done) (acc : Bytes) (cnt : Nat) (last : Bool) (c : Nat) (a : Nat × Nat) (t : Nat) :
    gzipO.eof (mkS ph acc cnt last c a t) = false := by
  simp [gzipO, inflateObj, mkS, h]

theorem feed_len (len : Nat) (hl : 0 < len) (hle : len ≤ 65535) (c : Nat) (a : Nat × Nat) (t : Nat) :
    feedLoop gzipO (mkS .storedLen [] 0 true c a t) (le16 len ++ le16 (65535 - len)) [] =
      .ok (mkS .stored [] len true c a t, [], []) := by
  have h1 : le [len % 256, len / 256 % 256] = len := le_le16 len (by omega)
  have h2 : le [(65535 - len) % 256, (65535 - len) / 256 % 256] = 65535 - len := le_le16 _ (by omega)
  have h3 : len + (65535 - len) = 65535 := by omega
  have h4 : len ≠ 0 := by omega
  simp [feedLoop, gzipO, inflateObj, infStep, mkS, le16, h1, h2, h3, h4]

theorem feed_len0 (c : Nat) (a : Nat × Nat) (t : Nat) :
    feedLoop gzipO (mkS .storedLen [] 0 true c a t) (le16 0 ++ le16 65535) [] =
      .ok (mkS .gzCrc [] 0 true c a t, [], []) := by
  simp [feedLoop, gzipO, inflateObj, infStep, mkS, le16, le, Inf.afterBlock]

/-- the bytes of a stored block -/
theorem feed_data : ∀ (data : Bytes) (c : Nat) (a : Nat × Nat) (t : Nat), data ≠ [] →
    feedLoop gzipO (mkS .stored [] data.length true c a t) data [] =
      .ok (mkS .gzCrc [] 0 true (data.foldl crcStep c) (data.foldl adlerStep a) (t + data.length), data, []) := by
  intro data
  induction data with
  | nil => intro c a t h; exact absurd rfl h
  | cons b rest ih =>
    intro c a t _
    rw [feedLoop_cons, gz_noteof _ (by decide)]
    simp only [Bool.false_eq_true, if_false]
    cases rest with
    | nil =>
      simp [feedLoop, gzipO, inflateObj, infStep, mkS, Inf.afterBlock]
    | cons b2 rest2 =>
      have hstep : gzipO.step (mkS .stored [] (b :: b2 :: rest2).length true c a t) b =
          .ok (mkS .stored [] (b2 :: rest2).length true (crcStep c b) (adlerStep a b) (t + 1), [b]) := by
        simp [gzipO, inflateObj, infStep, mkS]
      rw [hstep]
      simp only []
      rw [feedLoop_acc, ih (crcStep c b) (adlerStep a b) (t + 1) (by simp)]
      simp [Except.map, Nat.add_assoc, Nat.add_comm 1]

theorem feed_crc (c : Nat) (hc : c ^^^ 0xFFFFFFFF < 4294967296) (a : Nat × Nat) (t : Nat) :
    feedLoop gzipO (mkS .gzCrc [] 0 true c a t) (le32 (c ^^^ 0xFFFFFFFF)) [] =
      .ok (mkS .gzLen [] 0 true c a t, [], []) := by
  have h := le_le32 _ hc
  simp only [le32] at h
  simp [feedLoop, gzipO, inflateObj, infStep, mkS, le32, h]

theorem feed_isize (c : Nat) (a : Nat × Nat) (t : Nat) (ht : t < 4294967296) :
    feedLoop gzipO (mkS .gzLen [] 0 true c a t) (le32 t) [] =
      .ok (mkS .done [] 0 true c a t, [], []) := by
  have h := le_le32 _ ht
  simp only [le32] at h
  have h2 : t % 4294967296 = t := Nat.mod_eq_of_lt ht
  simp [feedLoop, gzipO, inflateObj, infStep, mkS, le32, h, h2]

/-! ## the CRC-32 register stays below 2³² -/

theorem crcByteLoop_lt : ∀ (k c : Nat), c < 4294967296 → crcByteLoop k c < 4294967296 := by
  intro k
  induction k with
  | zero => intro c h; simpa [crcByteLoop] using h
  | succ k ih =>
    intro c h
    rw [crcByteLoop]
    apply ih
    have h1 : c >>> 1 < 4294967296 := by rw [Nat.shiftRight_eq_div_pow]; omega
    split
    · exact Nat.xor_lt_two_pow (n := 32) h1 (by decide)
    · exact h1

theorem crcStep_lt (c b : Nat) (hc : c < 4294967296) (hb : b < 256) : crcStep c b < 4294967296 := by
  unfold crcStep
  apply crcByteLoop_lt
  exact Nat.xor_lt_two_pow (n := 32) hc (by omega)

theorem crcFold_lt : ∀ (data : Bytes) (c : Nat), c < 4294967296 → (∀ b ∈ data, b < 256) →
    data.foldl crcStep c < 4294967296 := by
  intro data
  induction data with
  | nil => intro c h _; simpa using h
  | cons b t ih =>
    intro c h hb
    simp only [List.foldl_cons]
    exact ih _ (crcStep_lt c b h (hb b (by simp))) (fun x hx => hb x (by simp [hx]))

theorem crc32_lt (data : Bytes) (hb : ∀ b ∈ data, b < 256) : crc32 data < 4294967296 := by
  unfold crc32
  exact Nat.xor_lt_two_pow (n := 32) (crcFold_lt data _ (by decide) hb) (by decide)

/-! ## one member -/

/-- a gzip member holding `p` in one final stored block -/
def gzMember (p : Bytes) : Bytes :=
  gzHeader ++ ([1] ++ (le16 p.length ++ le16 (65535 - p.length) ++ (p ++ (le32 (crc32 p) ++ le32 p.length))))

theorem feedLoop_seq {ρ} (O : RawObj ρ) (s s1 s2 : ρ) (a b o1 o2 r : Bytes)
    (h1 : feedLoop O s a [] = .ok (s1, o1, [])) (h2 : feedLoop O s1 b [] = .ok (s2, o2, r)) :
    feedLoop O s (a ++ b) [] = .ok (s2, o1 ++ o2, r) := by
  rw [feedLoop_append, h1]
  simp [h2, Except.map]

/-- the `decompressobj` decodes a member to its payload and ends at `eof` with nothing unused -/
theorem feed_gzMember (p : Bytes) (hlen : p.length ≤ 65535) (hb : ∀ b ∈ p, b < 256) :
    ∃ s, feedLoop gzipO gzipO.init (gzMember p) [] = .ok (s, p, []) ∧ gzipO.eof s = true := by
  have hcrc : (p.foldl crcStep 0xFFFFFFFF) ^^^ 0xFFFFFFFF < 4294967296 := crc32_lt p hb
  refine ⟨mkS .done [] 0 true (p.foldl crcStep 0xFFFFFFFF) (p.foldl adlerStep (1, 0)) p.length, ?_, by
    simp [gzipO, inflateObj, mkS]⟩
  unfold gzMember
  -- trailer
  have htrail : feedLoop gzipO (mkS .gzCrc [] 0 true (p.foldl crcStep 0xFFFFFFFF) (p.foldl adlerStep (1, 0)) p.length)
      (le32 (crc32 p) ++ le32 p.length) [] =
      .ok (mkS .done [] 0 true (p.foldl crcStep 0xFFFFFFFF) (p.foldl adlerStep (1, 0)) p.length, [], []) :=
    feedLoop_seq gzipO _ _ _ _ _ [] [] [] (feed_crc _ hcrc _ _) (feed_isize _ _ _ (by omega))
  -- block
  have hblock : feedLoop gzipO (mkS .storedLen [] 0 true 0xFFFFFFFF (1, 0) 0)
      (le16 p.length ++ le16 (65535 - p.length) ++ (p ++ (le32 (crc32 p) ++ le32 p.length))) [] =
      .ok (mkS .done [] 0 true (p.foldl crcStep 0xFFFFFFFF) (p.foldl adlerStep (1, 0)) p.length, p, []) := by
    by_cases hp : p = []
    · subst hp
      have := feedLoop_seq gzipO _ _ _ _ _ [] [] [] (feed_len0 0xFFFFFFFF (1, 0) 0) htrail
      simpa using this
    · have hpos : 0 < p.length := List.length_pos_iff.mpr hp
      have hd := feed_data p 0xFFFFFFFF (1, 0) 0 hp
      rw [Nat.zero_add] at hd
      have h2 := feedLoop_seq gzipO _ _ _ _ _ p [] [] hd htrail
      have h3 := feedLoop_seq gzipO _ _ _ _ _ [] _ [] (feed_len p.length hpos hlen 0xFFFFFFFF (1, 0) 0) h2
      simpa using h3
  have h4 := feedLoop_seq gzipO _ _ _ _ _ [] _ [] (feed_blk 0xFFFFFFFF (1, 0) 0) hblock
  have h5 := feedLoop_seq gzipO _ _ _ _ _ [] _ [] feed_hdr h4
  simpa using h5

/-! ## from the `decompressobj` to the wrapper semantics -/

section
variable {ρ : Type} (O : RawObj ρ)

/-- a feed that consumed everything without raising is a run of `gzRun` -/
theorem gzRun_of_feedLoop : ∀ (data : Bytes) (s : ρ) (gs : GzState) (d : Bool) (s' : ρ) (out : Bytes),
    gs ≠ .swallowData → feedLoop O s data [] = .ok (s', out, []) →
    gzRun O s gs d data = some (s', gs, d || !out.isEmpty, out) := by
  intro data
  induction data with
  | nil =>
    intro s gs d s' out _ h
    simp only [feedLoop, Except.ok.injEq, Prod.mk.injEq] at h
    obtain ⟨rfl, rfl, _⟩ := h
    simp [gzRun_nil]
  | cons b t ih =>
    intro s gs d s' out hgs h
    rw [feedLoop_cons] at h
    by_cases he : O.eof s = true
    · rw [if_pos he] at h
      simp at h
    · rw [if_neg he] at h
      rw [gzRun_cons_live O s gs d b t hgs (by simpa using he)]
      cases hs : O.step s b with
      | error e => rw [hs] at h; cases h
      | ok r1 =>
        obtain ⟨s1, ob⟩ := r1
        rw [hs] at h
        simp only [] at h ⊢
        rw [feedLoop_acc] at h
        cases hf : feedLoop O s1 t [] with
        | error e => rw [hf] at h; simp [Except.map] at h
        | ok v =>
          obtain ⟨s2, o2, r2⟩ := v
          rw [hf] at h
          simp only [Except.map, List.nil_append, Except.ok.injEq, Prod.mk.injEq] at h
          obtain ⟨rfl, rfl, rfl⟩ := h
          rw [ih s1 gs _ s2 o2 hgs hf]
          simp only [Option.some.injEq, Prod.mk.injEq, true_and, and_true]
          have hemp : (ob ++ o2).isEmpty = (ob.isEmpty && o2.isEmpty) := by cases ob <;> rfl
          rw [hemp]
          cases d <;> cases ob.isEmpty <;> cases o2.isEmpty <;> rfl

theorem gzRun_compose (a b : Bytes) : ∀ (s : ρ) (gs : GzState) (d : Bool) (s1 : ρ) (gs1 : GzState) (d1 : Bool) (o1 : Bytes)
    (s2 : ρ) (gs2 : GzState) (d2 : Bool) (o2 : Bytes),
    gzRun O s gs d a = some (s1, gs1, d1, o1) → gzRun O s1 gs1 d1 b = some (s2, gs2, d2, o2) →
    gzRun O s gs d (a ++ b) = some (s2, gs2, d2, o1 ++ o2) := by
  induction a with
  | nil =>
    intro s gs d s1 gs1 d1 o1 s2 gs2 d2 o2 h1 h2
    rw [gzRun_nil] at h1
    simp only [Option.some.injEq, Prod.mk.injEq] at h1
    obtain ⟨rfl, rfl, rfl, rfl⟩ := h1
    simpa using h2
  | cons x t ih =>
    intro s gs d s1 gs1 d1 o1 s2 gs2 d2 o2 h1 h2
    by_cases hgs : gs = .swallowData
    · subst hgs
      rw [gzRun_swallow] at h1
      simp only [Option.some.injEq, Prod.mk.injEq] at h1
      obtain ⟨rfl, rfl, rfl, rfl⟩ := h1
      rw [gzRun_swallow] at h2 ⊢
      simpa using h2
    · rw [gzRun] at h1
      rw [List.cons_append, gzRun]
      simp only [hgs, if_false] at h1 ⊢
      generalize (if O.eof s = true then O.init else s) = s0 at h1 ⊢
      generalize (if O.eof s = true then GzState.otherMembers else gs) = gs0 at h1 ⊢
      generalize (if O.eof s = true then false else d) = d0 at h1 ⊢
      by_cases he : O.eof s0 = true
      · rw [if_pos he] at h1; cases h1
      · rw [if_neg he] at h1 ⊢
        cases hstep : O.step s0 x with
        | error e =>
          rw [hstep] at h1
          cases e with
          | unsupported => cases h1
          | error =>
            simp only [] at h1 ⊢
            by_cases hc : gs0 = .otherMembers ∧ d0 = false
            · rw [if_pos hc] at h1 ⊢
              simp only [Option.some.injEq, Prod.mk.injEq] at h1
              obtain ⟨rfl, rfl, rfl, rfl⟩ := h1
              rw [gzRun_swallow] at h2
              simpa using h2
            · rw [if_neg hc] at h1; cases h1
        | ok r1 =>
          obtain ⟨sa, o⟩ := r1
          rw [hstep] at h1
          simp only [] at h1 ⊢
          cases hrun : gzRun O sa gs0 (d0 || !o.isEmpty) t with
          | none => rw [hrun] at h1; cases h1
          | some r2 =>
            obtain ⟨sb, gsb, db, ob⟩ := r2
            rw [hrun] at h1
            simp only [Option.some.injEq, Prod.mk.injEq] at h1
            obtain ⟨rfl, rfl, rfl, rfl⟩ := h1
            rw [ih sa gs0 _ sb gsb db ob s2 gs2 d2 o2 hrun h2]
            simp [List.append_assoc]

end

/-! ## any number of members -/

/-- the gzip stream of a list of payloads: one member each -/
def gzStream (ps : List Bytes) : Bytes := (ps.map gzMember).flatten

theorem gzMember_cons (p : Bytes) : ∃ t, gzMember p = 31 :: t := ⟨_, rfl⟩

theorem gzRun_gzStream : ∀ (ps : List Bytes), (∀ p ∈ ps, p.length ≤ 65535 ∧ ∀ b ∈ p, b < 256) →
    ∀ (s : Inf) (gs : GzState) (d : Bool), gs ≠ .swallowData → (s = gzipO.init ∨ gzipO.eof s = true) →
    ∃ s2 gs2 d2, gzRun gzipO s gs d (gzStream ps) = some (s2, gs2, d2, ps.flatten) := by
  intro ps
  induction ps with
  | nil => intro _ s gs d _ _; exact ⟨s, gs, d, by simp [gzStream, gzRun_nil]⟩
  | cons p t ih =>
    intro hps s gs d hgs hs
    obtain ⟨hlen, hb⟩ := hps p (by simp)
    obtain ⟨sd, hfeed, heof⟩ := feed_gzMember p hlen hb
    have hstream : gzStream (p :: t) = gzMember p ++ gzStream t := by simp [gzStream]
    -- a run from the fresh object over the member, then the rest from `eof`
    have hfresh : ∀ (gs' : GzState) (d' : Bool), gs' ≠ .swallowData →
        ∃ s2 gs2 d2, gzRun gzipO gzipO.init gs' d' (gzStream (p :: t)) = some (s2, gs2, d2, (p :: t).flatten) := by
      intro gs' d' hgs'
      have h1 := gzRun_of_feedLoop gzipO (gzMember p) gzipO.init gs' d' sd p hgs' hfeed
      obtain ⟨s2, gs2, d2, h2⟩ := ih (fun x hx => hps x (by simp [hx])) sd gs' (d' || !p.isEmpty) hgs' (Or.inr heof)
      refine ⟨s2, gs2, d2, ?_⟩
      rw [hstream, gzRun_compose gzipO _ _ _ _ _ _ _ _ _ _ _ _ _ h1 h2]
      simp
    rcases hs with hs | hs
    · subst hs; exact hfresh gs d hgs
    · obtain ⟨tl, htl⟩ := gzMember_cons p
      have hcons : gzStream (p :: t) = 31 :: (tl ++ gzStream t) := by rw [hstream, htl]; rfl
      obtain ⟨s2, gs2, d2, h2⟩ := hfresh .otherMembers false (by decide)
      refine ⟨s2, gs2, d2, ?_⟩
      rw [hcons, gzRun_restart gzipO s gs d 31 _ hgs hs, ← hcons]
      exact h2

/-- **every** list of payloads (each at most 65535 bytes), gzip-encoded member by member, is
decoded to their concatenation by a fresh `GzipDecoder` — in the sense of `GzG`, i.e. under every
segmentation of the stream -/
theorem GzG_gzStream (ps : List Bytes) (hps : ∀ p ∈ ps, p.length ≤ 65535 ∧ ∀ b ∈ p, b < 256) :
    GzG gzipO (Gz.new gzipO) (gzStream ps) ps.flatten := by
  obtain ⟨s2, gs2, d2, h⟩ := gzRun_gzStream ps hps gzipO.init .firstMember false (by decide) (Or.inl rfl)
  exact ⟨rfl, false, s2, gs2, d2, h⟩

end U3.Resp
