import U3.Lemmas.RespDrain
import U3.Lemmas.RespReadChunked
/-! C13, the read family on a *broken* body source: whatever the calls, amounts and decoder, no
call ever signals a normal end of body — each call either raises or returns a non-empty piece and
leaves the source broken; `read()` always raises.

Part 1 is generic in the source (`RawBrokenSpec`: `_raw_read` on a broken source raises or returns a
non-empty piece and stays broken) and in the decoder (ANY `Dec δ`, no streaming law needed: a
decoder can only add exceptions).  Part 2 discharges `RawBrokenSpec` for `http.client` on a body
short of its Content-Length and on a broken chunked body. -/
namespace U3.Resp
open U3

section
variable {σ δ : Type} (S : Src σ) (D : Dec δ) (cfg : Cfg δ)

/-! ## what decoding may touch -/

/-- the result `x` of a step that started in `r`: file, `length_remaining`, buffer, `chunk_left` and
connection untouched, and if it raised, neither the model's `fuel` outcome nor ProtocolError -/
def DecStep (r : R σ δ) {α : Type} (x : Except Exc α × R σ δ) : Prop :=
  x.2.fp = r.fp ∧ x.2.lengthRemaining = r.lengthRemaining ∧ x.2.buf = r.buf ∧ x.2.chunkLeft = r.chunkLeft ∧
  x.2.conn = r.conn ∧ ∀ e, x.1 = .error e → e ≠ .fuel ∧ e ≠ .protocolError

theorem excOfDecompress_ne (e : DErr) : excOfDecompress e ≠ .fuel ∧ excOfDecompress e ≠ .protocolError := by
  cases e <;> simp [excOfDecompress]

theorem flushDecoder_decStep (r : R σ δ) : DecStep r (flushDecoder D r) := by
  unfold flushDecoder DecStep
  split
  · exact ⟨rfl, rfl, rfl, rfl, rfl, fun e h => by cases h⟩
  · split
    · exact ⟨rfl, rfl, rfl, rfl, rfl, fun e h => by cases h; simp⟩
    · exact ⟨rfl, rfl, rfl, rfl, rfl, fun e h => by cases h; simp⟩
    · split
      · refine ⟨rfl, rfl, rfl, rfl, rfl, fun e h => ?_⟩
        simp only [Except.error.injEq] at h
        rw [← h]; exact excOfDecompress_ne _
      · exact ⟨rfl, rfl, rfl, rfl, rfl, fun e h => by cases h⟩

theorem decode_decStep (r : R σ δ) (a : Bytes) (dc fl : Bool) : DecStep r (decode D r a dc fl) := by
  have key : ∀ (step : Except Exc Bytes × R σ δ), DecStep r step →
      DecStep r (match step with
        | (.error e, r) => (Except.error e, r)
        | (.ok data, r) =>
          if fl = true then
            match flushDecoder D r with
            | (.error e, r) => (.error e, r)
            | (.ok t, r) => (.ok (data ++ t), r)
          else (.ok data, r)) := by
    intro step hs
    obtain ⟨res, r1⟩ := step
    cases res with
    | error e => exact hs
    | ok data =>
      simp only []
      by_cases hfl : fl = true
      · rw [if_pos hfl]
        have hf := flushDecoder_decStep D r1
        generalize flushDecoder D r1 = fr at hf ⊢
        obtain ⟨x, r2⟩ := fr
        obtain ⟨s1, s2, s3, s5, s6, _⟩ := hs
        obtain ⟨f1, f2, f3, f5, f6, f4⟩ := hf
        simp only [] at s1 s2 s3 s5 s6 f1 f2 f3 f4 f5 f6
        cases x with
        | error e =>
          exact ⟨f1.trans s1, f2.trans s2, f3.trans s3, f5.trans s5, f6.trans s6, fun e' h => f4 e' h⟩
        | ok t =>
          exact ⟨f1.trans s1, f2.trans s2, f3.trans s3, f5.trans s5, f6.trans s6, fun e' h => by cases h⟩
      · rw [if_neg hfl]
        exact ⟨hs.1, hs.2.1, hs.2.2.1, hs.2.2.2.1, hs.2.2.2.2.1, fun e h => by cases h⟩
  unfold decode
  split
  · split
    · exact ⟨rfl, rfl, rfl, rfl, rfl, fun e h => by cases h; simp⟩
    · exact ⟨rfl, rfl, rfl, rfl, rfl, fun e h => by cases h⟩
  · apply key
    cases hd : r.decoder with
    | none => exact ⟨rfl, rfl, rfl, rfl, rfl, fun e h => by cases h⟩
    | some d =>
      simp only []
      generalize D.decompress d a = z
      obtain ⟨x, d'⟩ := z
      cases x with
      | error e =>
        refine ⟨rfl, rfl, rfl, rfl, rfl, fun e' h => ?_⟩
        simp only [Except.error.injEq] at h
        rw [← h]; exact excOfDecompress_ne _
      | ok o => exact ⟨rfl, rfl, rfl, rfl, rfl, fun e h => by cases h⟩

/-- `self._decoded_buffer.get(a)` with at least one byte buffered and `a > 0`: a non-empty piece -/
theorem bufGet_nonempty (r : R σ δ) (a : Nat) (ha : 0 < a) (hb : 0 < bqLen r.buf) :
    ∃ d r', bufGet r a = (.ok d, r') ∧ d ≠ [] ∧ r'.fp = r.fp ∧ r'.lengthRemaining = r.lengthRemaining ∧
      r'.conn = r.conn := by
  have hne : r.buf ≠ [] := by
    intro h; rw [h] at hb; simp [bqLen] at hb
  obtain ⟨⟨d, q'⟩, hget⟩ := Option.isSome_iff_exists.mp (bqGet_isSome r.buf a (Or.inl hne))
  obtain ⟨hd, _⟩ := bqGet_spec r.buf a d q' hget
  refine ⟨d, { r with buf := q' }, by simp only [bufGet, hget], ?_, rfl, rfl, rfl⟩
  intro h0
  rw [h0] at hd
  rw [bqLen_eq] at hb
  rcases List.take_eq_nil_iff.mp hd.symm with h | h
  · omega
  · rw [h] at hb; simp at hb

/-! ## the broken-source contract -/

/-- the connection has been closed and handed back (closed) to the pool -/
def ConnDone (r : R σ δ) : Prop := r.connClosed = true ∧ r.released = true ∧ r.conn = false

/-- what `_raw_read` does on a **broken** source (`B` = the source is broken, over `_fp` and
`length_remaining`; `size` = a measure that every successful read decreases): with an amount (or in
`read1` mode) it raises ProtocolError — closing and handing back the connection it held — or returns
a non-empty piece, leaves the source broken and keeps the connection; without an amount (`read()`) it
raises ProtocolError; the file of a broken source is open -/
structure RawBrokenSpec (B : σ → Option Int → Prop) (size : σ → Nat) : Prop where
  step : ∀ (r : R σ δ) (amt : Option Nat) (rd1 : Bool), amt ≠ some 0 → (rd1 = true ∨ amt ≠ none) →
    B r.fp r.lengthRemaining →
    (∃ r', rawRead S cfg r amt rd1 = (.error .protocolError, r') ∧ (r.conn = true → ConnDone r')) ∨
    (∃ d r', rawRead S cfg r amt rd1 = (.ok d, r') ∧ d ≠ [] ∧ B r'.fp r'.lengthRemaining ∧
      size r'.fp < size r.fp ∧ r'.buf = r.buf ∧ r'.conn = r.conn)
  all : ∀ (r : R σ δ), B r.fp r.lengthRemaining →
    ∃ r', rawRead S cfg r none false = (.error .protocolError, r') ∧ (r.conn = true → ConnDone r')
  opened : ∀ (h : σ) (lr : Option Int), B h lr → S.isclosed h = false

/-- an exception on a broken response that held its connection: never the model's `fuel`, and if it
is ProtocolError the connection has been closed and handed back -/
def BrokenErr (e : Exc) (r' : R σ δ) : Prop := e ≠ .fuel ∧ (e = .protocolError → ConnDone r')

/-- the outcome of one call on a broken response that holds its connection: an exception
(`BrokenErr`), or a non-empty piece with the source still broken (and not larger) and the connection
still held -/
def BrokenOut (B : σ → Option Int → Prop) (size : σ → Nat) (n : Nat) (x : Except Exc Bytes × R σ δ) : Prop :=
  (∃ e r', x = (.error e, r') ∧ BrokenErr e r') ∨
  (∃ d r', x = (.ok d, r') ∧ d ≠ [] ∧ B r'.fp r'.lengthRemaining ∧ size r'.fp ≤ n ∧ r'.conn = true)

variable {B : σ → Option Int → Prop} {size : σ → Nat}

theorem brokenErr_dec {e : Exc} (r' : R σ δ) (h : e ≠ .fuel ∧ e ≠ .protocolError) : BrokenErr e r' :=
  ⟨h.1, fun h0 => absurd h0 h.2⟩

theorem brokenErr_runtime (r' : R σ δ) : BrokenErr .runtimeError r' := ⟨by simp, fun h => by cases h⟩

/-- the `while len(self._decoded_buffer) < amt and data:` loop on a broken source: it raises, or it
ends with `amt` bytes buffered -/
theorem readLoop_broken (hB : RawBrokenSpec S cfg B size) (a : Nat) (ha : 0 < a) (dc fl : Bool) :
    ∀ (fuel : Nat) (r : R σ δ) (data : Bytes), B r.fp r.lengthRemaining → size r.fp < fuel → data ≠ [] →
      r.conn = true →
      (∃ e r', readLoop S D cfg a dc fl fuel r data = (.error e, r') ∧ BrokenErr e r') ∨
      (∃ r', readLoop S D cfg a dc fl fuel r data = (.ok (), r') ∧ B r'.fp r'.lengthRemaining ∧
        size r'.fp ≤ size r.fp ∧ a ≤ bqLen r'.buf ∧ r'.conn = true) := by
  intro fuel
  induction fuel with
  | zero => intro r data _ h; omega
  | succ k ih =>
    intro r data hb hsz hdata hconn
    unfold readLoop
    by_cases hc : bqLen r.buf < a ∧ (!data.isEmpty) = true
    · rw [if_pos hc]
      rcases hB.step r (some a) false (by simp; omega) (Or.inr (by simp)) hb with
        ⟨r1, e1, c1⟩ | ⟨d, r1, e1, hd, hb1, hs1, _, hc1⟩
      · left; rw [e1]; exact ⟨_, r1, rfl, by simp, fun _ => c1 hconn⟩
      · rw [e1]
        simp only []
        have hdec := decode_decStep D r1 d dc fl
        generalize decode D r1 d dc fl = x at hdec ⊢
        obtain ⟨y, r2⟩ := x
        obtain ⟨s1, s2, _, _, s6, s4⟩ := hdec
        simp only [] at s1 s2 s4 s6
        cases y with
        | error e => left; exact ⟨e, r2, rfl, brokenErr_dec r2 (s4 e rfl)⟩
        | ok dd =>
          simp only []
          rcases ih { r2 with buf := bqPut r2.buf dd } d (by show B r2.fp r2.lengthRemaining; rw [s1, s2]; exact hb1)
            (by show size r2.fp < k; rw [s1]; omega) hd (by show r2.conn = true; rw [s6, hc1]; exact hconn) with
            ⟨e, r', h1, h2⟩ | ⟨r', h1, h2, h3, h4, h5⟩
          · left; exact ⟨e, r', h1, h2⟩
          · right
            refine ⟨r', h1, h2, ?_, h4, h5⟩
            have : size r2.fp ≤ size r.fp := by rw [s1]; omega
            exact Nat.le_trans h3 this
    · rw [if_neg hc]
      right
      refine ⟨r, rfl, hb, Nat.le_refl _, ?_, hconn⟩
      by_cases hlt : bqLen r.buf < a
      · exfalso
        apply hc
        refine ⟨hlt, ?_⟩
        cases data with
        | nil => exact absurd rfl hdata
        | cons _ _ => rfl
      · omega

/-- `read(a)`, `a > 0`, on a broken source — any decoder, decoding on or off -/
theorem read_some_broken (hB : RawBrokenSpec S cfg B size) (a : Nat) (ha : 0 < a) (dco : Option Bool)
    (r : R σ δ) (hb : B r.fp r.lengthRemaining) (hfuel : size r.fp < cfg.fuel) (hconn : r.conn = true) :
    BrokenOut B size (size r.fp) (read S D cfg r (some a) dco) := by
  obtain ⟨g1, g2, g3, _⟩ := initDec_other cfg r
  obtain ⟨_, i2, _, _⟩ := initDec_sameConn cfg r
  unfold read
  generalize initDec cfg r = r0 at *
  have hb0 : B r0.fp r0.lengthRemaining := by rw [g1, g3]; exact hb
  have hconn0 : r0.conn = true := by rw [i2]; exact hconn
  simp only []
  by_cases hge : bqLen r0.buf ≥ a
  · rw [if_pos hge]
    simp only []
    obtain ⟨d, r', e1, e2, e3, e4, e5⟩ := bufGet_nonempty r0 a ha (by omega)
    right
    exact ⟨d, r', e1, e2, by rw [e3, e4]; exact hb0, by rw [e3, g1]; exact Nat.le_refl _, by rw [e5]; exact hconn0⟩
  · rw [if_neg hge]
    simp only []
    rcases hB.step r0 (some a) false (by simp; omega) (Or.inr (by simp)) hb0 with
      ⟨r1, e1, c1⟩ | ⟨d, r1, e1, hd, hb1, hs1, hbuf1, hc1⟩
    · left; rw [e1]; exact ⟨_, r1, rfl, by simp, fun _ => c1 hconn0⟩
    · rw [e1]
      simp only []
      have hconn1 : r1.conn = true := by rw [hc1]; exact hconn0
      have hde : d.isEmpty = false := by
        cases d with
        | nil => exact absurd rfl hd
        | cons _ _ => rfl
      have hne : ¬ (d.isEmpty = true ∧ bqLen r1.buf = 0) := by simp [hde]
      rw [if_neg hne]
      by_cases hdc : (!(dco.getD cfg.decodeDefault)) = true
      · rw [if_pos hdc]
        by_cases hh : r1.hasDecoded = true
        · rw [if_pos hh]; left; exact ⟨_, r1, rfl, brokenErr_runtime r1⟩
        · rw [if_neg hh]; right
          exact ⟨d, r1, rfl, hd, hb1, by rw [g1] at hs1; omega, hconn1⟩
      · rw [if_neg hdc]
        have hdec := decode_decStep D r1 d (dco.getD cfg.decodeDefault)
          ((some a).isNone || (decide (some a ≠ some 0) && d.isEmpty))
        generalize decode D r1 d (dco.getD cfg.decodeDefault)
          ((some a).isNone || (decide (some a ≠ some 0) && d.isEmpty)) = x at hdec ⊢
        obtain ⟨y, r2⟩ := x
        obtain ⟨s1, s2, _, _, s6, s4⟩ := hdec
        simp only [] at s1 s2 s4 s6
        cases y with
        | error e => left; exact ⟨e, r2, rfl, brokenErr_dec r2 (s4 e rfl)⟩
        | ok dd =>
          simp only []
          rcases readLoop_broken S D cfg hB a ha (dco.getD cfg.decodeDefault)
              ((some a).isNone || (decide (some a ≠ some 0) && d.isEmpty)) cfg.fuel
              { r2 with buf := bqPut r2.buf dd } d
              (by show B r2.fp r2.lengthRemaining; rw [s1, s2]; exact hb1)
              (by show size r2.fp < cfg.fuel; rw [s1]; rw [g1] at hs1; omega) hd
              (by show r2.conn = true; rw [s6]; exact hconn1) with
            ⟨e, r', h1, h2⟩ | ⟨r', h1, h2, h3, h4, h5⟩
          · left; rw [h1]; exact ⟨e, r', rfl, h2⟩
          · rw [h1]
            simp only []
            obtain ⟨o, r'', e1', e2', e3', e4', e5'⟩ := bufGet_nonempty r' a ha (by omega)
            right
            refine ⟨o, r'', e1', e2', by rw [e3', e4']; exact h2, ?_, by rw [e5']; exact h5⟩
            rw [e3']
            have : size r2.fp ≤ size r.fp := by rw [s1]; rw [g1] at hs1; omega
            exact Nat.le_trans h3 this

/-- `read()` on a broken source raises ProtocolError and closes / hands back the connection -/
theorem read_none_broken (hB : RawBrokenSpec S cfg B size) (dco : Option Bool) (cache : Bool)
    (r : R σ δ) (hb : B r.fp r.lengthRemaining) :
    ∃ r', read S D cfg r none dco cache = (.error .protocolError, r') ∧ (r.conn = true → ConnDone r') := by
  obtain ⟨g1, _, g3, _⟩ := initDec_other cfg r
  obtain ⟨_, i2, _, _⟩ := initDec_sameConn cfg r
  obtain ⟨r1, e1, c1⟩ := hB.all (initDec cfg r) (by rw [g1, g3]; exact hb)
  exact ⟨r1, read_none_error S D cfg r dco cache _ r1 e1, fun h => c1 (by rw [i2]; exact h)⟩

/-- `read(0)` changes nothing a broken source sees -/
theorem read_zero_broken (dco : Option Bool) (r : R σ δ) (hb : B r.fp r.lengthRemaining) :
    ∃ r', read S D cfg r (some 0) dco = (.ok [], r') ∧ B r'.fp r'.lengthRemaining ∧ r'.fp = r.fp ∧
      r'.conn = r.conn := by
  obtain ⟨g1, _, g3, _⟩ := initDec_other cfg r
  obtain ⟨_, i2, _, _⟩ := initDec_sameConn cfg r
  unfold read
  generalize initDec cfg r = r0 at *
  refine ⟨{ r0 with buf := r0.buf }, by simp [bufGet, bqGet], ?_, g1, i2⟩
  show B r0.fp r0.lengthRemaining
  rw [g1, g3]; exact hb

theorem bqLen_put (q : BQ) (d : Bytes) : bqLen (bqPut q d) = bqLen q + d.length := by
  rw [bqLen_eq, bqLen_eq, bqPut_all, List.length_append]

/-- the `while True:` loop of `read1` on a broken source: it raises, or it ends with something in
the buffer -/
theorem read1Loop_broken (hB : RawBrokenSpec S cfg B size) (dc : Bool) :
    ∀ (fuel : Nat) (r : R σ δ) (data : Bytes), B r.fp r.lengthRemaining → size r.fp < fuel → data ≠ [] →
      r.conn = true →
      (∃ e r', read1Loop S D cfg dc fuel r data = (.error e, r') ∧ BrokenErr e r') ∨
      (∃ r', read1Loop S D cfg dc fuel r data = (.ok (), r') ∧ B r'.fp r'.lengthRemaining ∧
        size r'.fp ≤ size r.fp ∧ 0 < bqLen r'.buf ∧ r'.conn = true) := by
  intro fuel
  induction fuel with
  | zero => intro r data _ h; omega
  | succ k ih =>
    intro r data hb hsz hdata hconn
    unfold read1Loop
    simp only []
    have hde : data.isEmpty = false := by
      cases data with
      | nil => exact absurd rfl hdata
      | cons _ _ => rfl
    have hdec := decode_decStep D r data dc data.isEmpty
    generalize decode D r data dc data.isEmpty = x at hdec ⊢
    obtain ⟨y, r1⟩ := x
    obtain ⟨s1, s2, _, _, s6, s4⟩ := hdec
    simp only [] at s1 s2 s4 s6
    cases y with
    | error e => left; exact ⟨e, r1, rfl, brokenErr_dec r1 (s4 e rfl)⟩
    | ok dd =>
      simp only []
      have hconn1 : r1.conn = true := by rw [s6]; exact hconn
      by_cases hdd : (!dd.isEmpty) = true ∨ data.isEmpty = true
      · rw [if_pos hdd]
        right
        refine ⟨_, rfl, by show B r1.fp r1.lengthRemaining; rw [s1, s2]; exact hb,
          by show size r1.fp ≤ _; rw [s1]; exact Nat.le_refl _, ?_, hconn1⟩
        show 0 < bqLen (bqPut r1.buf dd)
        rw [bqLen_put]
        rcases hdd with h | h
        · cases dd with
          | nil => simp at h
          | cons _ _ => simp only [List.length_cons]; omega
        · rw [hde] at h; cases h
      · rw [if_neg hdd]
        rcases hB.step { r1 with buf := bqPut r1.buf dd } (some 8192) true (by simp) (Or.inl rfl)
            (by show B r1.fp r1.lengthRemaining; rw [s1, s2]; exact hb) with
          ⟨r2, e1, c1⟩ | ⟨d, r2, e1, hd, hb2, hs2, _, hc2⟩
        · left; rw [e1]; exact ⟨_, r2, rfl, by simp, fun _ => c1 hconn1⟩
        · rw [e1]
          simp only []
          have hs2' : size r2.fp < size r.fp := by
            have : size r2.fp < size r1.fp := hs2
            rw [s1] at this; exact this
          have hconn2 : r2.conn = true := by rw [hc2]; exact hconn1
          rcases ih r2 d hb2 (by omega) hd hconn2 with ⟨e, r', h1, h2⟩ | ⟨r', h1, h2, h3, h4, h5⟩
          · left; exact ⟨e, r', h1, h2⟩
          · right; exact ⟨r', h1, h2, by omega, h4, h5⟩

/-- handing out of a non-empty decoded buffer (`get_all()` / `get(a)`, `a > 0`): a non-empty piece -/
theorem serve_nonempty (amt : Option Nat) (hamt : amt ≠ some 0) (r : R σ δ) (hb : 0 < bqLen r.buf) :
    ∃ d r', (match amt with
        | none => (Except.ok (bqGetAll r.buf).1, { r with buf := (bqGetAll r.buf).2 })
        | some a => bufGet r a) = (.ok d, r') ∧ d ≠ [] ∧ r'.fp = r.fp ∧ r'.lengthRemaining = r.lengthRemaining ∧
      r'.conn = r.conn := by
  cases amt with
  | none =>
    refine ⟨bqAll r.buf, { r with buf := [] }, rfl, ?_, rfl, rfl, rfl⟩
    intro h; rw [bqLen_eq, h] at hb; simp at hb
  | some a =>
    exact bufGet_nonempty r a (Nat.pos_of_ne_zero (fun h => hamt (by rw [h]))) hb

/-- `read1(amt)` / `read1()` (`amt ≠ 0`) on a broken source — any decoder, decoding on or off -/
theorem read1_broken (hB : RawBrokenSpec S cfg B size) (amt : Option Nat) (hamt : amt ≠ some 0)
    (dco : Option Bool) (r : R σ δ) (hb : B r.fp r.lengthRemaining) (hfuel : size r.fp < cfg.fuel)
    (hconn : r.conn = true) :
    BrokenOut B size (size r.fp) (read1 S D cfg r amt dco) := by
  unfold read1
  simp only []
  generalize dco.getD cfg.decodeDefault = dc
  by_cases hrt : r.hasDecoded = true ∧ (!dc) = true
  · left
    refine ⟨.runtimeError, r, ?_, brokenErr_runtime r⟩
    simp [hrt.1, hrt.2]
  · by_cases hearly : r.hasDecoded = true ∧ bqLen r.buf > 0
    · obtain ⟨hhd, hbuf⟩ := hearly
      have hdc : (!dc) = false := by
        cases h : (!dc) with
        | false => rfl
        | true => exact absurd ⟨hhd, h⟩ hrt
      obtain ⟨d, r', e1, e2, e3, e4, e5⟩ := serve_nonempty amt hamt r hbuf
      right
      refine ⟨d, r', ?_, e2, by rw [e3, e4]; exact hb, by rw [e3]; exact Nat.le_refl _, by rw [e5]; exact hconn⟩
      rw [← e1]
      simp only [hhd, if_true, hdc, Bool.false_eq_true, if_false, hbuf]
      cases amt <;> rfl
    · split
      · rename_i res heq
        exfalso
        by_cases h1 : r.hasDecoded = true
        · have h2 : ¬ bqLen r.buf > 0 := fun h2 => hearly ⟨h1, h2⟩
          have h3 : (!dc) = false := by
            cases h : (!dc) with
            | false => rfl
            | true => exact absurd ⟨h1, h⟩ hrt
          simp [h1, h2, h3] at heq
        · simp [h1] at heq
      · rw [if_neg hamt]
        rcases hB.step r amt true hamt (Or.inl rfl) hb with ⟨r1, e1, c1⟩ | ⟨d, r1, e1, hd, hb1, hs1, _, hc1⟩
        · left; rw [e1]; exact ⟨_, r1, rfl, by simp, fun _ => c1 hconn⟩
        · rw [e1]
          simp only []
          have hconn1 : r1.conn = true := by rw [hc1]; exact hconn
          by_cases hdc : (!dc) = true
          · rw [if_pos hdc]
            right; exact ⟨d, r1, rfl, hd, hb1, by omega, hconn1⟩
          · rw [if_neg hdc]
            obtain ⟨g1, _, g3, _⟩ := initDec_other cfg r1
            obtain ⟨_, i2, _, _⟩ := initDec_sameConn cfg r1
            generalize initDec cfg r1 = r0 at *
            rcases read1Loop_broken S D cfg hB dc cfg.fuel r0 d (by rw [g1, g3]; exact hb1)
                (by rw [g1]; omega) hd (by rw [i2]; exact hconn1) with ⟨e, r', h1, h2⟩ | ⟨r', h1, h2, h3, h4, h5⟩
            · left; rw [h1]; exact ⟨e, r', rfl, h2⟩
            · rw [h1]
              simp only []
              obtain ⟨o, r'', e1', e2', e3', e4', e5'⟩ := serve_nonempty amt hamt r' h4
              right
              refine ⟨o, r'', ?_, e2', by rw [e3', e4']; exact h2, ?_, by rw [e5']; exact h5⟩
              · rw [← e1']; cases amt <;> rfl
              · rw [e3']; rw [g1] at h3; omega

/-! ## call sequences -/

/-- does this call, returning `out`, tell the caller that the body is over?  `read()` returning at
all, or `read(n)` / `read1(n)` / `read1()` (`n ≠ 0`) returning b"" -/
def EndSignal (c : RCall) (out : Bytes) : Prop :=
  match c with
  | .read none => True
  | .read (some a) => a ≠ 0 ∧ out = []
  | .read1 a => a ≠ some 0 ∧ out = []

/-- one call of the read family on a broken response: an exception, or a piece that is no end
signal, with the source still broken and the connection still held -/
theorem runRCall_broken (hB : RawBrokenSpec S cfg B size) (dco : Option Bool) (c : RCall)
    (r : R σ δ) (hb : B r.fp r.lengthRemaining) (hfuel : size r.fp < cfg.fuel) (hconn : r.conn = true) :
    (∃ e r', runRCall S D cfg dco r c = (.error e, r') ∧ BrokenErr e r') ∨
    (∃ out r', runRCall S D cfg dco r c = (.ok out, r') ∧ ¬ EndSignal c out ∧ B r'.fp r'.lengthRemaining ∧
      size r'.fp ≤ size r.fp ∧ r'.conn = true) := by
  cases c with
  | read amt =>
    cases amt with
    | none =>
      obtain ⟨r', e1, c1⟩ := read_none_broken S D cfg hB dco false r hb
      left; exact ⟨_, r', e1, by simp, fun _ => c1 hconn⟩
    | some a =>
      by_cases ha : a = 0
      · subst ha
        obtain ⟨r', e1, e2, e3, e4⟩ := read_zero_broken S D cfg dco r hb
        right
        exact ⟨[], r', e1, by simp [EndSignal], e2, by rw [e3]; exact Nat.le_refl _, by rw [e4]; exact hconn⟩
      · rcases read_some_broken S D cfg hB a (Nat.pos_of_ne_zero ha) dco r hb hfuel hconn with
          ⟨e, r', e1, e2⟩ | ⟨d, r', e1, e2, e3, e4, e5⟩
        · left; exact ⟨e, r', e1, e2⟩
        · right; exact ⟨d, r', e1, by simp [EndSignal, e2], e3, e4, e5⟩
  | read1 amt =>
    by_cases ha : amt = some 0
    · subst ha
      -- `read1(0)`: b"" (or RuntimeError), nothing read
      have : (∃ r', runRCall S D cfg dco r (.read1 (some 0)) = (.error .runtimeError, r')) ∨
          (∃ r', runRCall S D cfg dco r (.read1 (some 0)) = (.ok [], r') ∧ r'.fp = r.fp ∧
            r'.lengthRemaining = r.lengthRemaining ∧ r'.conn = r.conn) := by
        show (∃ r', read1 S D cfg r (some 0) dco = _) ∨ (∃ r', read1 S D cfg r (some 0) dco = _ ∧ _)
        unfold read1
        simp only []
        generalize dco.getD cfg.decodeDefault = dc
        have hg : bufGet r 0 = (.ok [], r) := by simp [bufGet, bqGet]
        by_cases h1 : r.hasDecoded = true
        · cases dc with
          | false => left; exact ⟨r, by simp [h1]⟩
          | true =>
            by_cases h2 : bqLen r.buf > 0
            · right
              refine ⟨r, ?_, rfl, rfl, rfl⟩
              simp only [h1, if_true, Bool.not_true, Bool.false_eq_true, if_false, h2, hg]
            · right; exact ⟨r, by simp [h1, h2], rfl, rfl, rfl⟩
        · right; exact ⟨r, by simp [h1], rfl, rfl, rfl⟩
      rcases this with ⟨r', e1⟩ | ⟨r', e1, e2, e3, e4⟩
      · left; exact ⟨_, r', e1, brokenErr_runtime r'⟩
      · right
        exact ⟨[], r', e1, by simp [EndSignal], by rw [e2, e3]; exact hb, by rw [e2]; exact Nat.le_refl _,
          by rw [e4]; exact hconn⟩
    · rcases read1_broken S D cfg hB amt ha dco r hb hfuel hconn with ⟨e, r', e1, e2⟩ | ⟨d, r', e1, e2, e3, e4, e5⟩
      · left; exact ⟨e, r', e1, e2⟩
      · right; exact ⟨d, r', e1, by simp [EndSignal, e2], e3, e4, e5⟩

/-- **no call sequence of the read family ends normally on a broken response**: an exception ends
it (never the model's `fuel`; if it is ProtocolError, the connection the response held has been closed
and handed back closed), or the sequence runs through, none of its calls has signalled an end of
body, the source is still broken and the connection still held — the next `read()` raises -/
theorem callSeq_broken (hB : RawBrokenSpec S cfg B size) (dco : Option Bool) :
    ∀ (calls : List RCall) (r : R σ δ), B r.fp r.lengthRemaining → size r.fp < cfg.fuel → r.conn = true →
      (∃ e r', callSeq S D cfg dco calls r = (.error e, r') ∧ BrokenErr e r') ∨
      (∃ outs r', callSeq S D cfg dco calls r = (.ok outs, r') ∧ outs.length = calls.length ∧
        (∀ i (hi : i < calls.length) (ho : i < outs.length), ¬ EndSignal calls[i] outs[i]) ∧
        B r'.fp r'.lengthRemaining ∧ size r'.fp ≤ size r.fp ∧ r'.conn = true) := by
  intro calls
  induction calls with
  | nil =>
    intro r hb _ hconn
    right; exact ⟨[], r, rfl, rfl, fun i hi => by simp at hi, hb, Nat.le_refl _, hconn⟩
  | cons c t ih =>
    intro r hb hf hconn
    unfold callSeq
    rcases runRCall_broken S D cfg hB dco c r hb hf hconn with ⟨e, r1, e1, e2⟩ | ⟨out, r1, e1, e2, e3, e4, e5⟩
    · left; rw [e1]; exact ⟨e, r1, rfl, e2⟩
    · rw [e1]
      simp only []
      rcases ih r1 e3 (by omega) e5 with ⟨e, r2, f1, f2⟩ | ⟨outs, r2, f1, f2, f3, f4, f5, f6⟩
      · left; rw [f1]; exact ⟨e, r2, rfl, f2⟩
      · right
        rw [f1]
        refine ⟨out :: outs, r2, rfl, by simp [f2], ?_, f4, by omega, f6⟩
        intro i hi ho
        cases i with
        | zero => exact e2
        | succ j => exact f3 j (by simpa using hi) (by simpa using ho)

/-! ## the generators on a non-chunked broken response -/

/-- `stream(amt)` (`amt ≠ 0`) on a non-chunked broken response never ends normally: the generator
is ended by an exception (with an arbitrary decoder the model's fuel may run out first — the decoded
output is not bounded by the input —; that is the outcome `fuel`, an error too, never a normal end) -/
theorem streamLoop_broken (hB : RawBrokenSpec S cfg B size) (amt : Option Nat) (hamt : amt ≠ some 0)
    (dco : Option Bool) :
    ∀ (fuel : Nat) (r : R σ δ) (acc : List Bytes), B r.fp r.lengthRemaining → size r.fp < cfg.fuel →
      r.conn = true →
      ∃ e, (streamLoop S D cfg amt dco fuel r acc).1.2 = some e := by
  intro fuel
  induction fuel with
  | zero => intro r acc _ _ _; exact ⟨.fuel, rfl⟩
  | succ k ih =>
    intro r acc hb hf hconn
    unfold streamLoop
    have hop := hB.opened r.fp r.lengthRemaining hb
    have hc : (!S.isclosed r.fp) = true ∨ bqLen r.buf > 0 := Or.inl (by simp [hop])
    rw [if_pos hc]
    have hstep : (∃ e r', read S D cfg r amt dco = (.error e, r')) ∨
        (∃ d r', read S D cfg r amt dco = (.ok d, r') ∧ B r'.fp r'.lengthRemaining ∧ size r'.fp ≤ size r.fp ∧
          r'.conn = true) := by
      cases amt with
      | none =>
        obtain ⟨r', e1, _⟩ := read_none_broken S D cfg hB dco false r hb
        left; exact ⟨_, r', e1⟩
      | some a =>
        have ha : 0 < a := Nat.pos_of_ne_zero (fun h0 => hamt (by rw [h0]))
        rcases read_some_broken S D cfg hB a ha dco r hb hf hconn with ⟨e, r', e1, _⟩ | ⟨d, r', e1, _, e3, e4, e5⟩
        · left; exact ⟨e, r', e1⟩
        · right; exact ⟨d, r', e1, e3, e4, e5⟩
    rcases hstep with ⟨e, r', e1⟩ | ⟨d, r', e1, e2, e3, e4⟩
    · rw [e1]; exact ⟨e, rfl⟩
    · rw [e1]
      simp only []
      exact ih r' _ e2 (by omega) e4

/-- … hence `stream` and iteration on a non-chunked broken response end in an exception -/
theorem stream_broken (hB : RawBrokenSpec S cfg B size) (hnc : cfg.chunked = false) (amt : Option Nat)
    (hamt : amt ≠ some 0) (dco : Option Bool) (r : R σ δ) (hb : B r.fp r.lengthRemaining)
    (hf : size r.fp < cfg.fuel) (hconn : r.conn = true) :
    (∃ e, (stream S D cfg r amt dco).1.2 = some e) ∧ (∃ e, (iter S D cfg r).1.2 = some e) := by
  have h1 : ∀ amt' dco', amt' ≠ some 0 → ∃ e, (stream S D cfg r amt' dco').1.2 = some e := by
    intro amt' dco' ha'
    unfold stream
    simp only [hnc, Bool.false_eq_true, if_false]
    exact streamLoop_broken S D cfg hB amt' ha' dco' cfg.fuel r [] hb hf hconn
  refine ⟨h1 amt dco hamt, ?_⟩
  obtain ⟨e, he⟩ := h1 (some 65536) (some true) (by simp)
  unfold iter
  generalize stream S D cfg r (some 65536) (some true) = x at he ⊢
  obtain ⟨⟨ps, oe⟩, r'⟩ := x
  simp only [] at he
  subst he
  exact ⟨e, rfl⟩

/-- a normal return of `_raw_read` that leaves the file open has not touched the connection -/
theorem rawRead_ok_open (r : R σ δ) (amt : Option Nat) (rd1 : Bool) (d : Bytes) (r' : R σ δ)
    (h : rawRead S cfg r amt rd1 = (.ok d, r')) (hop : S.isclosed r'.fp = false) : r'.conn = r.conn := by
  rw [rawRead_eq] at h
  obtain ⟨c1, _, _⟩ := rawBody_conn S cfg r amt rd1
  generalize rawBody S cfg r amt rd1 = b at h c1
  obtain ⟨res, r1⟩ := b
  simp only [] at c1 h
  cases res with
  | error e0 =>
    obtain ⟨r2, e1, _⟩ := errorCatcher_error_conn (α := Bytes) S r1 e0
    rw [e1] at h
    simp at h
  | ok d0 =>
    obtain ⟨r2, e1, e2, _, _, e5⟩ := errorCatcher_ok_conn S r1 d0
    rw [e1] at h
    simp only [] at h
    split at h
    · simp only [Prod.mk.injEq] at h
      obtain ⟨_, rfl⟩ := h
      rw [(e5 (by rw [← e2]; exact hop)).1, c1]
    · simp only [Prod.mk.injEq] at h
      obtain ⟨_, rfl⟩ := h
      show r2.conn = _
      rw [(e5 (by rw [← e2]; exact hop)).1, c1]

end

/-! ## Part 2: `http.client` on broken bodies -/

section
variable {δ : Type} (cfg : Cfg δ)

/-- an exception of `http.client`'s `read(amt)` / `read1(amt)` inside `_raw_read` comes out mapped by
`_error_catcher` -/
theorem rawRead_h_error' (r : R H δ) (amt : Option Nat) (rd1 : Bool) (e : HErr) (h' : H)
    (hcl : r.fp.closed = false)
    (h : (if rd1 then hRead1 r.fp amt else hRead r.fp amt) = (.error e, h')) :
    ∃ r1, rawRead hSrc cfg r amt rd1 = (.error (mapExc (.h e)), r1) := by
  rw [rawRead_eq]
  have hb : rawBody hSrc cfg r amt rd1 = (.error (.h e), { r with fp := h' }) := by
    cases rd1 with
    | true => simp only [if_true] at h; simp [rawBody, hSrc, hcl, h]
    | false => simp only [Bool.false_eq_true, if_false] at h; simp [rawBody, hSrc, hcl, h]
  rw [hb]
  obtain ⟨r2, e1, _⟩ := errorCatcher_error_conn (α := Bytes) hSrc ({ r with fp := h' } : R H δ) (.h e)
  exact ⟨r2, by simp only [e1]⟩

/-- `_raw_read` sees the end of the stream (`http.client` returns b"") while `length_remaining` says
body bytes are owed: (IncompleteRead →) ProtocolError (the `rawRead` half of
`C13_eof_before_length_raises`) -/
theorem rawRead_eof_raises (r : R H δ) (amt : Option Nat) (rd1 : Bool) (h' : H)
    (hcl : r.fp.closed = false)
    (hread : (if rd1 then hRead1 r.fp amt else hRead r.fp amt) = (.ok [], h'))
    (hamt : amt ≠ some 0) (hapi : rd1 = true ∨ amt ≠ none)
    (henf : cfg.enforce = true) (hlr : r.lengthRemaining ≠ none ∧ r.lengthRemaining ≠ some 0) :
    ∃ r1, rawRead hSrc cfg r amt rd1 = (.error .protocolError, r1) := by
  rw [rawRead_eq]
  have hb1 : (rawBody hSrc cfg r amt rd1).1 = .error .u3Incomplete := by
    unfold rawBody
    have hread' : (if hSrc.closed r.fp = true then ((Except.ok [] : Except HErr Bytes), r.fp)
        else if rd1 = true then hSrc.read1 r.fp amt else hSrc.read r.fp amt) = (.ok [], h') := by
      simp only [hSrc, hcl, Bool.false_eq_true, if_false]; exact hread
    simp only [hread']
    by_cases ha : amt = none
    · have hr1 : rd1 = true := by
        rcases hapi with h | h
        · exact h
        · exact absurd ha h
      subst ha hr1
      simp [henf, hlr.1, hlr.2]
    · have hc : amt ≠ none ∧ amt ≠ some 0 ∧ ([] : Bytes).isEmpty = true := ⟨ha, hamt, rfl⟩
      simp [hc, henf, hlr.1, hlr.2]
  obtain ⟨r0, hb⟩ : ∃ r0, rawBody hSrc cfg r amt rd1 = (.error .u3Incomplete, r0) := ⟨_, Prod.ext hb1 rfl⟩
  rw [hb]
  obtain ⟨r2, e1, _⟩ := errorCatcher_error_conn (α := Bytes) hSrc r0 .u3Incomplete
  exact ⟨r2, by simp only [e1]; rfl⟩

/-- an exception out of `_raw_read` over `http.client`: the connection the response held is closed
and handed back -/
theorem rawRead_error_done (r : R H δ) (amt : Option Nat) (rd1 : Bool) (e : Exc) (r' : R H δ)
    (h : rawRead hSrc cfg r amt rd1 = (.error e, r')) (hconn : r.conn = true) : ConnDone r' := by
  obtain ⟨c1, fp0, _, c3⟩ := rawRead_error_conn hSrc cfg r amt rd1 e r' h
  obtain ⟨c4, c5⟩ := c3 (hSrc_close_isclosed fp0) hconn
  exact ⟨by rw [c1, hconn]; simp, c4, c5⟩

/-! ### a body short of its Content-Length -/

/-- a non-chunked body that ends before its Content-Length: `l` bytes are owed, fewer are there
before the peer's FIN, and `length_remaining` is in step with `http.client` -/
structure LShort (h : H) (lr : Option Int) : Prop where
  head : h.head = false
  chunked : h.chunked = false
  closed : h.closed = false
  short : ∃ f l, h.fp = some f ∧ h.length = some l ∧ f.content.length < l ∧ lr = some (l : Int)

/-- what is left of a short body after `d` (a non-empty prefix of what was there) has been read -/
theorem LShort_step (h : H) (lr : Option Int) (f f' : Fp) (l : Nat) (d : Bytes)
    (hh : h.head = false) (hc : h.chunked = false) (hcl : h.closed = false) (hf : h.fp = some f)
    (hlen : f.content.length < l) (hlr : lr = some (l : Int))
    (hd : d ++ f'.content = f.content) (hne : d ≠ []) :
    LShort ({ { h with fp := some f' } with length := some (l - d.length) } : H) (lr.map (· - (d.length : Int))) ∧
    ({ { h with fp := some f' } with length := some (l - d.length) } : H).avail < h.avail ∧
    lr ≠ some (d.length : Int) ∧ ¬ (l - d.length = 0) := by
  have hl2 := congrArg List.length hd
  rw [List.length_append] at hl2
  have hpos : 0 < d.length := List.length_pos_iff.mpr hne
  refine ⟨⟨hh, hc, hcl, f', l - d.length, rfl, rfl, by omega, ?_⟩, ?_, ?_, by omega⟩
  · rw [hlr]
    simp only [Option.map_some, Option.some.injEq]
    omega
  · simp only [H.avail, hf]
    omega
  · rw [hlr]
    simp only [ne_eq, Option.some.injEq]
    omega

theorem hRead_short_some (h : H) (lr : Option Int) (a : Nat) (ha : 0 < a) (hs : LShort h lr) :
    (∃ h', hRead h (some a) = (.ok [], h')) ∨
    (∃ d h', hRead h (some a) = (.ok d, h') ∧ d ≠ [] ∧ LShort h' (lr.map (· - (d.length : Int))) ∧
      h'.avail < h.avail) := by
  obtain ⟨hh, hc, hcl, f, l, hf, hl, hlen, hlr⟩ := hs
  -- the amount asked of the BufferedReader
  obtain ⟨m, hm0, hm⟩ : ∃ m, 0 < m ∧ (if a > l then l else a) = m := ⟨_, by split <;> omega, rfl⟩
  have key : hRead h (some a) =
      (if (fpRead f m).1.isEmpty = true then (.ok (fpRead f m).1, ({ h with fp := some (fpRead f m).2 } : H).closeConn)
       else if l - (fpRead f m).1.length = 0 then
         (.ok (fpRead f m).1, ({ { h with fp := some (fpRead f m).2 } with length := some (l - (fpRead f m).1.length) } : H).closeConn)
       else (.ok (fpRead f m).1, { { h with fp := some (fpRead f m).2 } with length := some (l - (fpRead f m).1.length) })) := by
    have hm' : ¬ (m = 0) := by omega
    unfold hRead
    simp only [hf, hh, hc, hl, Bool.false_eq_true, if_false, hm]
    by_cases he : (fpRead f m).1.isEmpty = true
    · simp [he, hm']
    · by_cases h0 : l - (fpRead f m).1.length = 0 <;> simp [he, h0]
  obtain ⟨s1, s2, _⟩ := fpRead_spec f m
  generalize fpRead f m = res at key s1 s2
  obtain ⟨s, f'⟩ := res
  simp only [] at key s1 s2
  have hd : s ++ f'.content = f.content := by rw [s1, s2, List.take_append_drop]
  by_cases hse : s = []
  · left
    subst hse
    exact ⟨_, by rw [key]; rfl⟩
  · right
    have hsne : s.isEmpty = false := by
      cases s with
      | nil => exact absurd rfl hse
      | cons _ _ => rfl
    obtain ⟨t1, t2, _, t4⟩ := LShort_step h lr f f' l s hh hc hcl hf hlen hlr hd hse
    refine ⟨s, _, ?_, hse, t1, t2⟩
    rw [key]
    simp only [hsne, Bool.false_eq_true, if_false, t4]

theorem hRead1_short (h : H) (lr : Option Int) (n : Option Nat) (hn : n ≠ some 0) (hs : LShort h lr) :
    (∃ h', hRead1 h n = (.ok [], h')) ∨
    (∃ d h', hRead1 h n = (.ok d, h') ∧ d ≠ [] ∧ LShort h' (lr.map (· - (d.length : Int))) ∧
      h'.avail < h.avail ∧ lr ≠ some (d.length : Int)) := by
  obtain ⟨hh, hc, hcl, f, l, hf, hl, hlen, hlr⟩ := hs
  -- the amount asked of the BufferedReader
  have key : ∃ m, 0 < m ∧ hRead1 h n =
      (if (fpRead1 f m).1.isEmpty = true then (.ok (fpRead1 f m).1, ({ h with fp := some (fpRead1 f m).2 } : H).closeConn)
       else (.ok (fpRead1 f m).1, { { h with fp := some (fpRead1 f m).2 } with length := some (l - (fpRead1 f m).1.length) })) := by
    cases n with
    | none =>
      refine ⟨l, by omega, ?_⟩
      have hl0 : ¬ (l = 0) := by omega
      unfold hRead1
      simp only [hf, hh, hc, hl, Bool.false_eq_true, if_false, Option.getD_some]
      by_cases he : (fpRead1 f l).1.isEmpty = true
      · simp [he, hl0]
      · simp [he]
    | some k =>
      have hk : ¬ (k = 0) := fun h0 => hn (by rw [h0])
      by_cases hkl : k > l
      · refine ⟨l, by omega, ?_⟩
        have hl0 : ¬ (l = 0) := by omega
        unfold hRead1
        simp only [hf, hh, hc, hl, Bool.false_eq_true, if_false, hkl, if_true, Option.getD_some]
        by_cases he : (fpRead1 f l).1.isEmpty = true
        · simp [he, hl0]
        · simp [he]
      · refine ⟨k, by omega, ?_⟩
        unfold hRead1
        simp only [hf, hh, hc, hl, Bool.false_eq_true, if_false, hkl, Option.getD_some]
        by_cases he : (fpRead1 f k).1.isEmpty = true
        · simp [he, hk]
        · simp [he]
  obtain ⟨m, hm0, key⟩ := key
  obtain ⟨d, hd1, hd2, _, hd4, _⟩ := fpRead1_spec f m
  generalize fpRead1 f m = res at key hd1 hd2
  obtain ⟨d', f'⟩ := res
  simp only [] at key hd1 hd2
  subst hd1
  by_cases hde : d' = []
  · left
    subst hde
    exact ⟨_, by rw [key]; rfl⟩
  · right
    have hdne : d'.isEmpty = false := by
      cases d' with
      | nil => exact absurd rfl hde
      | cons _ _ => rfl
    obtain ⟨t1, t2, t3, _⟩ := LShort_step h lr f f' l d' hh hc hcl hf hlen hlr hd2 hde
    refine ⟨d', _, ?_, hde, t1, t2, t3⟩
    rw [key]
    simp only [hdne, Bool.false_eq_true, if_false]

/-- **`http.client` on a body short of its Content-Length obeys the broken-source contract**
(with `enforce_content_length`, the default) -/
theorem LShort.opened {h : H} {lr : Option Int} (hs : LShort h lr) : hSrc.isclosed h = false := by
  obtain ⟨f, _, hf, _⟩ := hs.short
  simp [hSrc, H.isclosed, hf]

theorem hSrc_rawBroken_short (henf : cfg.enforce = true) : RawBrokenSpec (δ := δ) hSrc cfg LShort H.avail := by
  constructor
  · intro r amt rd1 hamt hapi hs
    have hcl := hs.closed
    obtain ⟨_, l, _, _, hlen, hlr⟩ := hs.short
    have hlrne : r.lengthRemaining ≠ none ∧ r.lengthRemaining ≠ some 0 := by
      rw [hlr]; refine ⟨by simp, ?_⟩
      simp only [ne_eq, Option.some.injEq]; omega
    cases rd1 with
    | false =>
      obtain ⟨a, rfl⟩ : ∃ a, amt = some a := by
        rcases hapi with h | h
        · cases h
        · cases amt with
          | none => exact absurd rfl h
          | some a => exact ⟨a, rfl⟩
      have ha : 0 < a := Nat.pos_of_ne_zero (fun h0 => hamt (by rw [h0]))
      rcases hRead_short_some r.fp r.lengthRemaining a ha hs with ⟨h', e1⟩ | ⟨d, h', e1, e2, e3, e4⟩
      · left
        obtain ⟨r1, e⟩ := rawRead_eof_raises cfg r (some a) false h' hcl (by simpa using e1) hamt hapi henf hlrne
        exact ⟨r1, e, rawRead_error_done cfg r _ _ _ r1 e⟩
      · right
        have hde : d.isEmpty = false := by
          cases d with
          | nil => exact absurd rfl e2
          | cons _ _ => rfl
        obtain ⟨r', f0, f1, f2, f3, _⟩ := rawRead_ok hSrc cfg r (some a) d h'
          (by simp [hSrc, hcl, e1]) (by simp [hde])
        have hb' : LShort r'.fp r'.lengthRemaining := by
          rw [f1, f2]; simp only [hde, Bool.false_eq_true, and_false, if_false]; exact e3
        refine ⟨d, r', f0, e2, hb', ?_, f3, rawRead_ok_open hSrc cfg r _ _ d r' f0 hb'.opened⟩
        rw [f1]; simp only [hde, Bool.false_eq_true, and_false, if_false]; exact e4
    | true =>
      rcases hRead1_short r.fp r.lengthRemaining amt hamt hs with ⟨h', e1⟩ | ⟨d, h', e1, e2, e3, e4, e5⟩
      · left
        obtain ⟨r1, e⟩ := rawRead_eof_raises cfg r amt true h' hcl (by simpa using e1) hamt hapi henf hlrne
        exact ⟨r1, e, rawRead_error_done cfg r _ _ _ r1 e⟩
      · right
        have hde : d.isEmpty = false := by
          cases d with
          | nil => exact absurd rfl e2
          | cons _ _ => rfl
        obtain ⟨r', f0, f1, f2, f3, _⟩ := rawRead1_ok hSrc cfg r amt d h'
          (by simp [hSrc, hcl, e1]) (by simp [hde])
        have hnc : ¬ ((amt ≠ some 0 ∧ d.isEmpty = true) ∨ r.lengthRemaining = some (d.length : Int)) := by
          rintro (⟨_, h0⟩ | h0)
          · rw [hde] at h0; cases h0
          · exact e5 h0
        have hb' : LShort r'.fp r'.lengthRemaining := by
          rw [f1, f2, if_neg hnc]; simp only [hde, Bool.false_eq_true, if_false]; exact e3
        refine ⟨d, r', f0, e2, hb', ?_, f3, rawRead_ok_open hSrc cfg r _ _ d r' f0 hb'.opened⟩
        rw [f1, if_neg hnc]; exact e4
  · intro r hs
    obtain ⟨f, l, hf, hl, hlen, _⟩ := hs.short
    have h1 := hRead_length_short r.fp f l hf hs.head hs.chunked hl hlen
    have e : hRead r.fp none = (.error .incompleteRead, (hRead r.fp none).2) := Prod.ext h1.1 rfl
    obtain ⟨r1, e'⟩ := rawRead_h_error cfg r .incompleteRead _ hs.closed e
    exact ⟨r1, e', rawRead_error_done cfg r _ _ _ r1 e'⟩
  · intro h lr hs
    exact hs.opened

/-! ### a broken chunked body -/

/-- reading `a` bytes of chunk data (`a` at most what the chunk still owes and at most what is
there) leaves a broken body broken -/
theorem Broken.advance {k : Nat} {c : Bytes} (a : Nat) (ha : a ≤ k) (hac : a ≤ c.length)
    (hb : Broken (some k) c) : Broken (some (k - a)) (c.drop a) := by
  cases k with
  | zero =>
    have : a = 0 := by omega
    subst this
    simpa using hb
  | succ k =>
    cases hb with
    | short _ _ hlen =>
      obtain ⟨j, hj⟩ : ∃ j, k + 1 - a = j + 1 := ⟨k - a, by omega⟩
      rw [hj]
      exact .short j _ (by simp only [List.length_drop]; omega)
    | data _ _ hlen hb2 =>
      by_cases hak : a = k + 1
      · subst hak
        simpa using hb2
      · obtain ⟨j, hj⟩ : ∃ j, k + 1 - a = j + 1 := ⟨k - a, by omega⟩
        rw [hj]
        refine .data j _ (by simp only [List.length_drop]; omega) ?_
        rw [List.drop_drop]
        have : a + (j + 1) = k + 1 := by omega
        rw [this]
        exact hb2

/-- `_read_chunked(a)`, `a > 0`, on a broken body: `IncompleteRead`, or a non-empty piece with the
body still broken -/
theorem hReadChunkedLoop_broken_some : ∀ (fuel : Nat) (h : H) (f : Fp) (a : Nat) (acc : Bytes),
    0 < a → h.fp = some f → Broken h.chunkLeft f.content → f.content.length < fuel →
    (∃ h', hReadChunkedLoop fuel h (some a) acc = (.error .incompleteRead, h')) ∨
    (∃ d h' f', hReadChunkedLoop fuel h (some a) acc = (.ok (acc ++ d), h') ∧ d ≠ [] ∧ h'.fp = some f' ∧
      Broken h'.chunkLeft f'.content ∧ f'.content.length < f.content.length ∧ SameFrame h h') := by
  intro fuel
  induction fuel with
  | zero => intro h f a acc _ _ _ hl; omega
  | succ k ih =>
    intro h f a acc ha hf hb hl
    unfold hReadChunkedLoop
    rcases hGetChunkLeft_broken h f hf hb with ⟨h1, e1⟩ | ⟨n, f1, h1, e1, e2, e3, e4, e5, e6⟩
    · left; rw [e1]; exact ⟨h1, rfl⟩
    · rw [e1]
      simp only []
      by_cases hle : a ≤ n + 1
      · rw [if_pos hle]
        by_cases hav : a ≤ f1.content.length
        · obtain ⟨f2, s1, s2, _⟩ := hSafeRead_ok h1 f1 a e2 hav
          rw [s1]
          right
          refine ⟨f1.content.take a, _, f2, rfl, ?_, rfl, ?_, ?_, ⟨e6.1, e6.2.1, e6.2.2.1, e6.2.2.2⟩⟩
          · intro h0
            rcases List.take_eq_nil_iff.mp h0 with h | h
            · omega
            · rw [h] at hav; simp at hav; omega
          · show Broken (some (n + 1 - a)) f2.content
            rw [s2]; exact Broken.advance a hle hav e4
          · rw [s2, List.length_drop]; omega
        · obtain ⟨f2, s1, _⟩ := hSafeRead_short h1 f1 a e2 (by omega)
          rw [s1]
          left; exact ⟨_, rfl⟩
      · rw [if_neg hle]
        by_cases hav : n + 1 ≤ f1.content.length
        · obtain ⟨f2, s1, s2, _⟩ := hSafeRead_ok h1 f1 (n + 1) e2 hav
          rw [s1]
          simp only []
          have hb2 : Broken (some 0) f2.content := by
            rw [s2]
            have := Broken.advance (n + 1) (Nat.le_refl _) hav e4
            simpa using this
          rcases ih { { h1 with fp := some f2 } with chunkLeft := some 0 } f2 (a - (n + 1))
              (acc ++ f1.content.take (n + 1)) (by omega) rfl hb2 (by rw [s2, List.length_drop]; omega) with
            ⟨h', i1⟩ | ⟨d, h', f', i1, i2, i3, i4, i5, i6⟩
          · left; exact ⟨h', i1⟩
          · right
            refine ⟨f1.content.take (n + 1) ++ d, h', f', by rw [i1, List.append_assoc], by simp [i2], i3, i4, ?_,
              SameFrame.trans e6 i6⟩
            rw [s2, List.length_drop] at i5
            omega
        · obtain ⟨f2, s1, _⟩ := hSafeRead_short h1 f1 (n + 1) e2 (by omega)
          rw [s1]
          left; exact ⟨_, rfl⟩

/-- `read1(n)` (`n ≠ 0`) on a broken chunked body (`_read1_chunked`) -/
theorem hRead1_broken (h : H) (n : Option Nat) (hn : n ≠ some 0) (f : Fp) (hf : h.fp = some f)
    (hh : h.head = false) (hc : h.chunked = true) (hb : Broken h.chunkLeft f.content) :
    (∃ h', hRead1 h n = (.error .incompleteRead, h')) ∨
    (∃ d h' f', hRead1 h n = (.ok d, h') ∧ d ≠ [] ∧ h'.fp = some f' ∧ Broken h'.chunkLeft f'.content ∧
      f'.content.length < f.content.length ∧ SameFrame h h') := by
  rcases hGetChunkLeft_broken h f hf hb with ⟨h1, e1⟩ | ⟨m, f1, h1, e1, e2, e3, e4, e5, e6⟩
  · left
    refine ⟨h1, ?_⟩
    unfold hRead1
    simp only [hf, hh, hc, Bool.false_eq_true, if_false, if_true, e1]
  · have key : ∀ nn, 0 < nn → nn ≤ m + 1 →
        hRead1 h n =
          (if (fpRead1 f1 nn).1.isEmpty = true then
            (.error .incompleteRead, { { h1 with fp := some (fpRead1 f1 nn).2 } with
                chunkLeft := some (m + 1 - (fpRead1 f1 nn).1.length) })
           else (.ok (fpRead1 f1 nn).1, { { h1 with fp := some (fpRead1 f1 nn).2 } with
                chunkLeft := some (m + 1 - (fpRead1 f1 nn).1.length) })) →
        (∃ h', hRead1 h n = (.error .incompleteRead, h')) ∨
        (∃ d h' f', hRead1 h n = (.ok d, h') ∧ d ≠ [] ∧ h'.fp = some f' ∧ Broken h'.chunkLeft f'.content ∧
          f'.content.length < f.content.length ∧ SameFrame h h') := by
      intro nn hnn1 hnn2 heq
      obtain ⟨d, hd1, hd2, hd3, _, _⟩ := fpRead1_spec f1 nn
      generalize fpRead1 f1 nn = res at heq hd1 hd2
      obtain ⟨d', f2⟩ := res
      simp only [] at heq hd1 hd2
      subst hd1
      by_cases hde : d' = []
      · left
        subst hde
        exact ⟨_, by rw [heq]; rfl⟩
      · right
        have hdne : d'.isEmpty = false := by
          cases d' with
          | nil => exact absurd rfl hde
          | cons _ _ => rfl
        obtain ⟨t1, t2⟩ := split_eq_take_drop hd2 (Or.inl rfl)
        have hlen2 := congrArg List.length hd2
        rw [List.length_append] at hlen2
        have hpos : 0 < d'.length := List.length_pos_iff.mpr hde
        refine ⟨d', { { h1 with fp := some f2 } with chunkLeft := some (m + 1 - d'.length) }, f2,
          by rw [heq]; simp only [hdne, Bool.false_eq_true, if_false], hde, rfl, ?_, by omega,
          ⟨e6.1, e6.2.1, e6.2.2.1, e6.2.2.2⟩⟩
        show Broken (some (m + 1 - d'.length)) f2.content
        rw [t2]
        exact Broken.advance d'.length (by omega) (by omega) e4
    cases n with
    | none =>
      apply key (m + 1) (by omega) (Nat.le_refl _)
      unfold hRead1
      simp only [hf, hh, hc, Bool.false_eq_true, if_false, if_true, e1, e2]
      simp
    | some k =>
      have hk : k ≠ 0 := fun h0 => hn (by rw [h0])
      by_cases hkm : k ≤ m + 1
      · apply key k (by omega) hkm
        unfold hRead1
        simp only [hf, hh, hc, Bool.false_eq_true, if_false, if_true, e1, e2]
        simp [hk, hkm]
      · apply key (m + 1) (by omega) (Nat.le_refl _)
        unfold hRead1
        simp only [hf, hh, hc, Bool.false_eq_true, if_false, if_true, e1, e2]
        simp [hk, hkm]

/-- a chunked body the lenient reference reader finds incomplete / unparseable, as `_raw_read`
sees it (`length_remaining` of a chunked response is `None`) -/
structure CBroken (h : H) (lr : Option Int) : Prop where
  head : h.head = false
  chunked : h.chunked = true
  closed : h.closed = false
  broken : ∃ f, h.fp = some f ∧ Broken h.chunkLeft f.content
  lr : lr = none

/-- **`http.client`'s chunk reader on a broken chunked body obeys the broken-source contract** -/
theorem CBroken.opened {h : H} {lr : Option Int} (hs : CBroken h lr) : hSrc.isclosed h = false := by
  obtain ⟨f, hf, _⟩ := hs.broken
  simp [hSrc, H.isclosed, hf]

theorem hSrc_rawBroken_chunked : RawBrokenSpec (δ := δ) hSrc cfg CBroken H.avail := by
  constructor
  · intro r amt rd1 hamt hapi hs
    have hcl := hs.closed
    obtain ⟨f, hf, hb⟩ := hs.broken
    have hav : r.fp.avail = f.content.length := by simp [H.avail, hf]
    cases rd1 with
    | false =>
      obtain ⟨a, rfl⟩ : ∃ a, amt = some a := by
        rcases hapi with h | h
        · cases h
        · cases amt with
          | none => exact absurd rfl h
          | some a => exact ⟨a, rfl⟩
      have ha : 0 < a := Nat.pos_of_ne_zero (fun h0 => hamt (by rw [h0]))
      have hrd : hRead r.fp (some a) = hReadChunkedLoop (r.fp.avail + 2) r.fp (some a) [] := by
        unfold hRead
        simp only [hf, hs.head, hs.chunked, Bool.false_eq_true, if_false, if_true]
      rcases hReadChunkedLoop_broken_some (r.fp.avail + 2) r.fp f a [] ha hf hb (by omega) with
        ⟨h', e1⟩ | ⟨d, h', f', e1, e2, e3, e4, e5, e6⟩
      · left
        obtain ⟨r1, e⟩ := rawRead_h_error' cfg r (some a) false .incompleteRead h' hcl (by simp [hrd, e1])
        exact ⟨r1, e, rawRead_error_done cfg r _ _ _ r1 e⟩
      · right
        have hde : d.isEmpty = false := by
          cases d with
          | nil => exact absurd rfl e2
          | cons _ _ => rfl
        obtain ⟨r', f0, f1, f2, f3, _⟩ := rawRead_ok hSrc cfg r (some a) d h'
          (by simp [hSrc, hcl, hrd, e1]) (by simp [hde])
        have hb' : CBroken r'.fp r'.lengthRemaining := by
          rw [f1, f2]
          simp only [hde, Bool.false_eq_true, and_false, if_false]
          exact ⟨by rw [e6.1]; exact hs.head, by rw [e6.2.1]; exact hs.chunked, by rw [e6.2.2.1]; exact hcl,
            ⟨f', e3, e4⟩, by rw [hs.lr]; rfl⟩
        refine ⟨d, r', f0, e2, hb', ?_, f3, rawRead_ok_open hSrc cfg r _ _ d r' f0 hb'.opened⟩
        rw [f1]
        simp only [hde, Bool.false_eq_true, and_false, if_false]
        simp only [H.avail, e3, hf]; exact e5
    | true =>
      rcases hRead1_broken r.fp amt hamt f hf hs.head hs.chunked hb with
        ⟨h', e1⟩ | ⟨d, h', f', e1, e2, e3, e4, e5, e6⟩
      · left
        obtain ⟨r1, e⟩ := rawRead_h_error' cfg r amt true .incompleteRead h' hcl (by simp [e1])
        exact ⟨r1, e, rawRead_error_done cfg r _ _ _ r1 e⟩
      · right
        have hde : d.isEmpty = false := by
          cases d with
          | nil => exact absurd rfl e2
          | cons _ _ => rfl
        obtain ⟨r', f0, f1, f2, f3, _⟩ := rawRead1_ok hSrc cfg r amt d h'
          (by simp [hSrc, hcl, e1]) (by simp [hde])
        have hnc : ¬ ((amt ≠ some 0 ∧ d.isEmpty = true) ∨ r.lengthRemaining = some (d.length : Int)) := by
          rintro (⟨_, h0⟩ | h0)
          · rw [hde] at h0; cases h0
          · rw [hs.lr] at h0; cases h0
        have hb' : CBroken r'.fp r'.lengthRemaining := by
          rw [f1, f2, if_neg hnc]
          simp only [hde, Bool.false_eq_true, if_false]
          exact ⟨by rw [e6.1]; exact hs.head, by rw [e6.2.1]; exact hs.chunked, by rw [e6.2.2.1]; exact hcl,
            ⟨f', e3, e4⟩, by rw [hs.lr]; rfl⟩
        refine ⟨d, r', f0, e2, hb', ?_, f3, rawRead_ok_open hSrc cfg r _ _ d r' f0 hb'.opened⟩
        rw [f1, if_neg hnc]
        simp only [H.avail, e3, hf]; exact e5
  · intro r hs
    obtain ⟨f, hf, hb⟩ := hs.broken
    obtain ⟨h', e⟩ := hRead_broken_none r.fp f hf hs.head hs.chunked hb
    obtain ⟨r1, e'⟩ := rawRead_h_error cfg r .incompleteRead h' hs.closed e
    exact ⟨r1, e', rawRead_error_done cfg r _ _ _ r1 e'⟩
  · intro h lr hs
    exact hs.opened

/-! ### urllib3's own chunk parser (`read_chunked`) on a broken chunked body -/

variable (D : Dec δ)

/-- the verdict `Broken` over urllib3's own bookkeeping (`self.chunk_left`): `none` = at a size line,
`some (k+1)` = inside a chunk; `some 0` = the last-chunk line has been seen (never a broken state) -/
def BrokenU (cl : Option Nat) (c : Bytes) : Prop :=
  match cl with
  | none => Broken none c
  | some 0 => False
  | some (k + 1) => Broken (some (k + 1)) c

theorem safeRead'_short (r : R H δ) (f : Fp) (n : Nat) (hf : r.fp.fp = some f) (hlen : f.content.length < n) :
    ∃ r', safeRead' hSrc r n = (.error (.h .incompleteRead), r') := by
  obtain ⟨f', e, _⟩ := hSafeRead_short r.fp f n hf hlen
  unfold safeRead'
  have hsr : hSrc.safeRead r.fp n = hSafeRead r.fp n := rfl
  rw [hsr, e]
  exact ⟨_, rfl⟩

/-- `_update_chunk_length` on a broken body: it raises (unparseable size line / EOF), or a chunk
with broken data is current -/
theorem updateChunkLength_broken (r : R H δ) (f : Fp) (hf : r.fp.fp = some f)
    (hb : BrokenU r.chunkLeft f.content) :
    (∃ e r', updateChunkLength hSrc r = (.error e, r')) ∨
    (∃ k f' r', updateChunkLength hSrc r = (.ok (), r') ∧ r'.chunkLeft = some (k + 1) ∧ r'.fp.fp = some f' ∧
      Broken (some (k + 1)) f'.content ∧ f'.content.length ≤ f.content.length) := by
  cases hc : r.chunkLeft with
  | some k =>
    rw [hc] at hb
    cases k with
    | zero => exact absurd hb (by simp [BrokenU])
    | succ n =>
      right
      exact ⟨n, f, r, by simp [updateChunkLength, hc], hc, hf, hb, Nat.le_refl _⟩
  | none =>
    rw [hc] at hb
    have hb' : Broken none f.content := hb
    have hrl : hSrc.readline r.fp = (.ok (lineOf f.content), { r.fp with fp := some (fpReadline f).2 }) :=
      hFpReadline_eq r.fp f hf
    cases hb' with
    | badline _ hv =>
      left
      unfold updateChunkLength
      simp only [hc, hrl, hv]
      split <;> exact ⟨_, _, rfl⟩
    | line _ n hn hb1 =>
      right
      refine ⟨n, (fpReadline f).2,
        { r with fp := { r.fp with fp := some (fpReadline f).2 }, chunkLeft := some (n + 1) }, ?_, rfl, rfl, ?_, ?_⟩
      · unfold updateChunkLength
        simp only [hc, hrl, hn]
      · rw [(fpReadline_spec f).2.1]; exact hb1
      · rw [(fpReadline_spec f).2.1, List.length_drop]; omega

/-- read the rest of the chunk and toss the CRLF, on a broken body: it raises, or the next size line
is where the damage is -/
theorem readAndToss_broken (r : R H δ) (f : Fp) (n : Nat) (hf : r.fp.fp = some f)
    (hb : Broken (some (n + 1)) f.content) :
    (∃ e r', readAndToss hSrc r (n + 1) = (.error e, r')) ∨
    (∃ d r' f', readAndToss hSrc r (n + 1) = (.ok d, r') ∧ r'.fp.fp = some f' ∧ r'.chunkLeft = none ∧
      Broken none f'.content ∧ f'.content.length ≤ f.content.length) := by
  unfold readAndToss
  cases hb with
  | short _ _ hlen =>
    left
    obtain ⟨r', e⟩ := safeRead'_short r f (n + 1) hf hlen
    rw [e]
    exact ⟨_, r', rfl⟩
  | data _ _ hlen hb2 =>
    obtain ⟨f1, e1, c1⟩ := safeRead'_ok r f (n + 1) hf hlen
    rw [e1]
    simp only []
    rw [← c1] at hb2
    cases hb2 with
    | nosep _ hlen2 =>
      left
      obtain ⟨r', e⟩ := safeRead'_short { r with fp := { r.fp with fp := some f1 } } f1 2 rfl hlen2
      rw [e]
      exact ⟨_, r', rfl⟩
    | sep _ hlen2 hb3 =>
      right
      obtain ⟨f2, e2, c2⟩ := safeRead'_ok { r with fp := { r.fp with fp := some f1 } } f1 2 rfl hlen2
      rw [e2]
      refine ⟨_, _, f2, rfl, rfl, rfl, by rw [c2]; exact hb3, ?_⟩
      rw [c2, c1, List.length_drop, List.length_drop]; omega

/-- `_handle_chunk(amt)` inside a chunk of a broken body -/
theorem handleChunk_broken (r : R H δ) (f : Fp) (n : Nat) (amt : Option Nat) (hf : r.fp.fp = some f)
    (hcl : r.chunkLeft = some (n + 1)) (hb : Broken (some (n + 1)) f.content) :
    (∃ e r', handleChunk hSrc r amt = (.error e, r')) ∨
    (∃ d r' f', handleChunk hSrc r amt = (.ok d, r') ∧ r'.fp.fp = some f' ∧ BrokenU r'.chunkLeft f'.content ∧
      f'.content.length ≤ f.content.length) := by
  have whole : (∃ e r', readAndToss hSrc r (n + 1) = (.error e, r')) ∨
      (∃ d r' f', readAndToss hSrc r (n + 1) = (.ok d, r') ∧ r'.fp.fp = some f' ∧ BrokenU r'.chunkLeft f'.content ∧
        f'.content.length ≤ f.content.length) := by
    rcases readAndToss_broken r f n hf hb with h1 | ⟨d, r', f', e1, e2, e3, e4, e5⟩
    · left; exact h1
    · right; exact ⟨d, r', f', e1, e2, by rw [e3]; exact e4, e5⟩
  unfold handleChunk
  rw [hcl]
  simp only []
  cases amt with
  | none => exact whole
  | some a =>
    simp only []
    by_cases hlt : a < n + 1
    · rw [if_pos hlt]
      by_cases hav : a ≤ f.content.length
      · obtain ⟨f1, e1, c1⟩ := safeRead'_ok r f a hf hav
        rw [e1]
        simp only []
        right
        obtain ⟨j, hj⟩ : ∃ j, n + 1 - a = j + 1 := ⟨n - a, by omega⟩
        refine ⟨_, _, f1, rfl, rfl, ?_, by rw [c1, List.length_drop]; omega⟩
        show BrokenU (some (n + 1 - a)) f1.content
        have := Broken.advance a (Nat.le_of_lt hlt) hav hb
        rw [hj] at this ⊢
        rw [c1]; exact this
      · left
        obtain ⟨r', e⟩ := safeRead'_short r f a hf (by omega)
        rw [e]
        exact ⟨_, r', rfl⟩
    · rw [if_neg hlt]
      by_cases heq : a = n + 1
      · rw [if_pos heq, heq]; exact whole
      · rw [if_neg heq]; exact whole

/-- **the chunk loop of `read_chunked` on a broken body never ends normally** — whatever the amount,
the decoder and the segmentation, it ends in an exception -/
theorem rcLoop_broken (amt : Option Nat) (dc : Bool) :
    ∀ (fuel : Nat) (r : R H δ) (acc : List Bytes),
      (∃ f, r.fp.fp = some f ∧ BrokenU r.chunkLeft f.content) →
      ∃ ps e r', rcLoop hSrc D amt dc fuel r acc = ((ps, .error e), r') := by
  intro fuel
  induction fuel with
  | zero => intro r acc _; exact ⟨acc, _, r, rfl⟩
  | succ k ih =>
    intro r acc ⟨f, hf, hb⟩
    unfold rcLoop
    rcases updateChunkLength_broken r f hf hb with ⟨e, r1, e1⟩ | ⟨n, f1, r1, e1, e2, e3, e4, _⟩
    · rw [e1]; exact ⟨acc, e, r1, rfl⟩
    · rw [e1]
      simp only []
      rw [if_neg (by rw [e2]; simp)]
      rcases handleChunk_broken r1 f1 n amt e3 e2 e4 with ⟨e, r2, g1⟩ | ⟨d, r2, f2, g1, g2, g3, _⟩
      · rw [g1]; exact ⟨acc, e, r2, rfl⟩
      · rw [g1]
        simp only []
        have hdec := decode_decStep D r2 d dc false
        generalize decode D r2 d dc false = x at hdec ⊢
        obtain ⟨y, r3⟩ := x
        obtain ⟨s1, _, _, s5, _, _⟩ := hdec
        simp only [] at s1 s5
        cases y with
        | error e => exact ⟨acc, _, r3, rfl⟩
        | ok dd =>
          simp only []
          exact ih r3 _ ⟨f2, by rw [s1]; exact g2, by rw [s5]; exact g3⟩

/-! nothing inside the chunk loop touches `_connection` (only `_error_catcher` around it does) -/

theorem updateChunkLength_conn (r : R H δ) : (updateChunkLength hSrc r).2.conn = r.conn := by
  unfold updateChunkLength
  split
  · rfl
  · split
    · rfl
    · simp only []
      split
      · rfl
      · rfl
      · unfold closeResp
        simp only []
        split <;> split <;> rfl

theorem safeRead'_conn (r : R H δ) (n : Nat) : (safeRead' hSrc r n).2.conn = r.conn := by
  unfold safeRead'
  split <;> rfl

theorem readAndToss_conn (r : R H δ) (n : Nat) : (readAndToss hSrc r n).2.conn = r.conn := by
  unfold readAndToss
  have h1 := safeRead'_conn r n
  generalize safeRead' hSrc r n = x at h1 ⊢
  obtain ⟨y, r1⟩ := x
  cases y with
  | error e => exact h1
  | ok d =>
    simp only []
    have h2 := safeRead'_conn r1 2
    generalize safeRead' hSrc r1 2 = x2 at h2 ⊢
    obtain ⟨y2, r2⟩ := x2
    cases y2 with
    | error e => exact h2.trans h1
    | ok _ => exact h2.trans h1

theorem handleChunk_conn (r : R H δ) (amt : Option Nat) : (handleChunk hSrc r amt).2.conn = r.conn := by
  unfold handleChunk
  split
  · rfl
  · split
    · exact readAndToss_conn r _
    · split
      · rename_i a _
        have h1 := safeRead'_conn r a
        generalize safeRead' hSrc r a = x at h1 ⊢
        obtain ⟨y, r1⟩ := x
        cases y <;> exact h1
      · split
        · exact readAndToss_conn r _
        · exact readAndToss_conn r _

theorem rcLoop_conn (amt : Option Nat) (dc : Bool) :
    ∀ (fuel : Nat) (r : R H δ) (acc : List Bytes), (rcLoop hSrc D amt dc fuel r acc).2.conn = r.conn := by
  intro fuel
  induction fuel with
  | zero => intro r acc; rfl
  | succ k ih =>
    intro r acc
    unfold rcLoop
    have h1 := updateChunkLength_conn r
    generalize updateChunkLength hSrc r = x at h1 ⊢
    obtain ⟨y, r1⟩ := x
    cases y with
    | error e => exact h1
    | ok _ =>
      simp only []
      split
      · exact h1
      · have h2 := handleChunk_conn r1 amt
        generalize handleChunk hSrc r1 amt = x2 at h2 ⊢
        obtain ⟨y2, r2⟩ := x2
        cases y2 with
        | error e => exact h2.trans h1
        | ok chunk =>
          simp only []
          have h3 := (decode_decStep D r2 chunk dc false).2.2.2.2.1
          generalize decode D r2 chunk dc false = x3 at h3 ⊢
          obtain ⟨y3, r3⟩ := x3
          cases y3 with
          | error e => exact h3.trans (h2.trans h1)
          | ok dd =>
            simp only []
            rw [ih]
            exact h3.trans (h2.trans h1)

theorem initDec_chunkLeft (r : R H δ) : (initDec cfg r).chunkLeft = r.chunkLeft := by
  unfold initDec
  cases r.decoder <;> rfl

/-- **`read_chunked(amt)`, `stream(amt)` and iteration on a broken chunked response end in an
exception** (urllib3's own chunk parser; any amount, any decoder, decoding on or off), and — the whole
loop runs inside `_error_catcher` — the connection the response held is closed and handed back -/
theorem readChunked_broken (hch : cfg.chunked = true) (hhd : cfg.head = false) (amt : Option Nat)
    (r : R H δ) (f : Fp) (hf : r.fp.fp = some f) (hb : BrokenU r.chunkLeft f.content) :
    (∀ dc, (∃ e, (readChunked hSrc D cfg r amt dc).1.2 = some e) ∧
      (r.conn = true → ConnDone (readChunked hSrc D cfg r amt dc).2)) ∧
    (∀ dco, (∃ e, (stream hSrc D cfg r amt dco).1.2 = some e) ∧
      (r.conn = true → ConnDone (stream hSrc D cfg r amt dco).2)) := by
  have h1 : ∀ dc, (∃ e, (readChunked hSrc D cfg r amt dc).1.2 = some e) ∧
      (r.conn = true → ConnDone (readChunked hSrc D cfg r amt dc).2) := by
    intro dc
    obtain ⟨g1, _⟩ := initDec_other cfg r
    obtain ⟨_, i2, _, _⟩ := initDec_sameConn cfg r
    have g2 := initDec_chunkLeft cfg r
    have hcn := rcLoop_conn D amt dc cfg.fuel (initDec cfg r) []
    obtain ⟨ps, e, r', hrc⟩ := rcLoop_broken D amt dc cfg.fuel (initDec cfg r) []
      ⟨f, by rw [g1]; exact hf, by rw [g2]; exact hb⟩
    rw [hrc] at hcn
    simp only [] at hcn
    have hopen : hSrc.isclosed (initDec cfg r).fp = false := by
      rw [g1]; simp [hSrc, H.isclosed, hf]
    unfold readChunked
    simp only [hch, hhd, hopen, hrc, Bool.not_true, Bool.false_eq_true, if_false]
    obtain ⟨r2, e1, _, e3, e4⟩ := errorCatcher_error_conn (α := Unit) hSrc r' e
    rw [e1]
    refine ⟨⟨_, rfl⟩, fun hconn => ?_⟩
    have hc' : r'.conn = true := by rw [hcn, i2]; exact hconn
    obtain ⟨e5, e6⟩ := e4 (hSrc_close_isclosed _) hc'
    exact ⟨by show r2.connClosed = true; rw [e3, hc']; simp, e5, e6⟩
  refine ⟨h1, fun dco => ?_⟩
  unfold stream
  simp only [hch, if_true]
  exact h1 _

theorem iter_broken_chunked (hch : cfg.chunked = true) (hhd : cfg.head = false)
    (r : R H δ) (f : Fp) (hf : r.fp.fp = some f) (hb : BrokenU r.chunkLeft f.content) :
    ∃ e, (iter hSrc D cfg r).1.2 = some e := by
  obtain ⟨e, he⟩ := ((readChunked_broken cfg D hch hhd (some 65536) r f hf hb).2 (some true)).1
  unfold iter
  generalize stream hSrc D cfg r (some 65536) (some true) = x at he ⊢
  obtain ⟨⟨ps, oe⟩, r'⟩ := x
  simp only [] at he
  subst he
  exact ⟨e, rfl⟩

end
end U3.Resp
