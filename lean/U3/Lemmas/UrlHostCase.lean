import U3.Model.Url
import U3.Lemmas.Url
import U3.Lemmas.UrlCase
import U3.Lemmas.UrlHost
/-!
# Host texts inside an authority, and their case variants

`_HOST_PORT_RE` on `HOST` followed by nothing or `:`…, for the two kinds of host text it accepts — a
reg-name (characters outside the delimiters and `%HH` escapes) and a bracketed IPv6 literal — and the
equality of `_normalize_host` on two ASCII spellings of one host that differ in letter case only.
Helper lemmas for the text-level case theorem of `U3.Props.C15` (core Lean only).
-/
namespace U3.Url
open U3

/-! ## reg-name texts -/

theorem takeWhile_append_stop_g {α : Type} {p : α → Bool} (r : List α) (y : α) (b : List α)
    (hr : ∀ x ∈ r, p x = true) (hy : p y = false) :
    (r ++ y :: b).takeWhile p = r ∧ (r ++ y :: b).dropWhile p = y :: b := by
  induction r with
  | nil => simp [hy]
  | cons x t ih =>
    have hx := hr x (List.mem_cons_self ..)
    have := ih (fun z hz => hr z (List.mem_cons_of_mem _ hz))
    simp [hx, this]

theorem takeWhile_all_g {α : Type} {p : α → Bool} (r : List α) (hr : ∀ x ∈ r, p x = true) :
    r.takeWhile p = r ∧ r.dropWhile p = [] := by
  induction r with
  | nil => simp
  | cons x t ih =>
    have hx := hr x (List.mem_cons_self ..)
    have := ih (fun z hz => hr z (List.mem_cons_of_mem _ hz))
    simp [hx, this]

/-- a reg-name as it can stand in an authority: scanned into reg-name tokens (every `%` starts an
escape), no backslash (it would end the authority), no `@` (it would end the userinfo) -/
def regText (H : Str) : Bool := (tokenize H).all regNameTok && !H.contains 92 && !H.contains 64

theorem regNameTok_stable {t : Tok} (hk : t.ok = true) (hr : regNameTok t = true) : t.stable = true := by
  cases t with
  | chr c =>
    simp only [regNameTok, regNameChar, Bool.not_eq_true', Bool.or_eq_false_iff, beq_eq_false_iff_ne] at hr
    simp only [Tok.stable, bne_iff_ne, ne_eq]
    exact hr.1.1.1.1.2
  | esc a b => exact hk

/-- scanning a stable token text followed by anything: the tokens, then the scan of the rest -/
theorem tokenize_render_append (ts : List Tok) (A : Str) (h : ∀ t ∈ ts, t.stable = true) :
    tokenize (renderToks ts ++ A) = ts ++ tokenize A := by
  induction ts with
  | nil => rfl
  | cons t r ih =>
    have hr := ih (fun x hx => h x (List.mem_cons_of_mem _ hx))
    have ht := h t (List.mem_cons_self ..)
    cases t with
    | chr c =>
      simp only [Tok.stable, bne_iff_ne, ne_eq] at ht
      simp only [tokenize] at hr ⊢
      simp [Tok.text, tokAux, ht, hr]
    | esc a b =>
      simp only [Tok.stable, Bool.and_eq_true] at ht
      simp only [tokenize] at hr ⊢
      simp only [render_cons, Tok.text, List.cons_append, List.nil_append, tokAux, if_true]
      rw [hex2_cons a b _ ht.1 ht.2]
      simp [hr]

/-- the reg-name run contains no character of the excluded class -/
theorem regName_not_mem (k : Nat) (hk : regNameChar k = false) (hk37 : k ≠ 37) (hkh : isHexC k = false)
    (ts : List Tok) (hok : ∀ t ∈ ts, t.ok = true) (hr : ∀ t ∈ ts, regNameTok t = true) :
    k ∉ renderToks ts := by
  simp only [renderToks, List.mem_flatMap, not_exists, not_and]
  intro t ht
  have hkt := hok t ht
  have hrt := hr t ht
  cases t with
  | chr c =>
    simp only [Tok.text, List.mem_singleton]
    intro e; subst e
    simp only [regNameTok] at hrt
    rw [hk] at hrt; simp at hrt
  | esc a b =>
    simp only [Tok.ok, Bool.and_eq_true] at hkt
    simp only [Tok.text, List.mem_cons, List.not_mem_nil, or_false, not_or]
    refine ⟨hk37, ?_, ?_⟩
    · intro e; subst e; rw [hkt.1] at hkh; simp at hkh
    · intro e; subst e; rw [hkt.2] at hkh; simp at hkh

theorem regText_facts {H : Str} (h : regText H = true) :
    (∀ t ∈ tokenize H, regNameTok t = true) ∧ 92 ∉ H ∧ 64 ∉ H ∧ 91 ∉ H ∧ 47 ∉ H ∧ 63 ∉ H ∧ 35 ∉ H := by
  simp only [regText, Bool.and_eq_true, List.all_eq_true, Bool.not_eq_true', List.contains_eq_mem,
    decide_eq_false_iff_not] at h
  obtain ⟨⟨h1, h2⟩, h3⟩ := h
  have hr := render_tokenize H
  have key : ∀ k, regNameChar k = false → k ≠ 37 → isHexC k = false → k ∉ H := by
    intro k a b c
    rw [← hr]
    exact regName_not_mem k a b c _ (tokenize_ok H) h1
  exact ⟨h1, h2, h3, key 91 (by decide) (by decide) (by decide), key 47 (by decide) (by decide) (by decide),
    key 63 (by decide) (by decide) (by decide), key 35 (by decide) (by decide) (by decide)⟩

theorem authChar_of_ne {c : Nat} (h : c ≠ 92 ∧ c ≠ 47 ∧ c ≠ 63 ∧ c ≠ 35) : authChar c = true := by
  simp [authChar, h]

theorem regText_authChar {H : Str} (h : regText H = true) : ∀ c ∈ H, authChar c = true := by
  obtain ⟨-, h92, -, -, h47, h63, h35⟩ := regText_facts h
  intro c hc
  apply authChar_of_ne
  refine ⟨?_, ?_, ?_, ?_⟩ <;> (intro e; subst e; contradiction)

/-- **`_HOST_PORT_RE` on a reg-name followed by nothing or `:`…** -/
theorem hostPortRe_regText {H : Str} (h : regText H = true) (A : Str) (hA : A = [] ∨ ∃ t, A = 58 :: t) :
    hostPortRe (H ++ A) = (portPart A).map (fun p => (H, p)) := by
  obtain ⟨hreg, -, -, h91, -, -, -⟩ := regText_facts h
  have hst : ∀ t ∈ tokenize H, t.stable = true := fun t ht => regNameTok_stable (tokenize_ok H t ht) (hreg t ht)
  have htok : tokenize (H ++ A) = tokenize H ++ tokenize A := by
    conv => lhs; rw [← render_tokenize H]
    exact tokenize_render_append _ A hst
  have hsplit : ((tokenize (H ++ A)).takeWhile regNameTok).flatMap Tok.text = H ∧
      ((tokenize (H ++ A)).dropWhile regNameTok).flatMap Tok.text = A := by
    rw [htok]
    rcases hA with rfl | ⟨t, rfl⟩
    · have e0 : tokenize [] = [] := rfl
      rw [e0, List.append_nil, (takeWhile_all_g _ hreg).1, (takeWhile_all_g _ hreg).2]
      exact ⟨render_tokenize H, rfl⟩
    · have ht : tokenize (58 :: t) = .chr 58 :: tokAux 0 t := by simp [tokenize, tokAux]
      have h58 : regNameTok (.chr 58) = false := by decide
      have e12 := takeWhile_append_stop_g (tokenize H) (.chr 58) (tokAux 0 t) hreg h58
      rw [ht, e12.1, e12.2]
      refine ⟨render_tokenize H, ?_⟩
      rw [← ht]; exact render_tokenize (58 :: t)
  have hb : portPart A = none → hostPortBracket (H ++ A) = none := by
    intro hp
    apply hostPortBracket_nb
    intro t e
    cases H with
    | nil =>
      rcases hA with rfl | ⟨t', rfl⟩
      · simp [portPart] at hp
      · simp at e
    | cons c r =>
      simp only [List.cons_append, List.cons.injEq] at e
      exact h91 (by rw [e.1]; exact List.mem_cons_self ..)
  unfold hostPortRe
  simp only [hsplit.1, hsplit.2]
  cases hp : portPart A with
  | none => simp [hb hp]
  | some p => rfl

/-! ## bracketed literals -/

theorem unreserved_auth : ∀ c, mem Gen.unreservedChars c = true → authChar c = true ∧ c ≠ 64 := by
  intro c hc
  have key : ∀ d ∈ Gen.unreservedChars, authChar d = true ∧ d ≠ 64 := by decide
  exact key c (by simpa [mem] using hc)

theorem hexC_auth {c : Nat} (h : isHexC c = true ∨ c = 58 ∨ c = 46) : authChar c = true ∧ c ≠ 64 := by
  have : c ≠ 92 ∧ c ≠ 47 ∧ c ≠ 63 ∧ c ≠ 35 ∧ c ≠ 64 := by
    rcases h with h | h | h
    · simp only [isHexC, isDigitC, Bool.or_eq_true, Bool.and_eq_true, decide_eq_true_eq] at h; omega
    · omega
    · omega
  exact ⟨authChar_of_ne ⟨this.1, this.2.1, this.2.2.1, this.2.2.2.1⟩, this.2.2.2.2⟩

theorem zoneToks_auth (ts : List Tok) (hok : ∀ t ∈ ts, t.ok = true) (hz : ∀ t ∈ ts, zoneTok t = true) :
    ∀ c ∈ renderToks ts, authChar c = true ∧ c ≠ 64 := by
  intro c hc
  simp only [renderToks, List.mem_flatMap] at hc
  obtain ⟨t, ht, hct⟩ := hc
  have hkt := hok t ht
  have hzt := hz t ht
  cases t with
  | chr d =>
    simp only [Tok.text, List.mem_singleton] at hct
    subst hct
    exact unreserved_auth c hzt
  | esc a b =>
    simp only [Tok.ok, Bool.and_eq_true] at hkt
    simp only [Tok.text, List.mem_cons, List.not_mem_nil, or_false] at hct
    rcases hct with rfl | rfl | rfl
    · decide
    · exact hexC_auth (Or.inl hkt.1)
    · exact hexC_auth (Or.inl hkt.2)

/-- the characters of a matched literal may all stand in an authority, and none is `@` -/
theorem literal_auth {H : Str} (hm : ipv6AddrzMatch H = true) : ∀ c ∈ H, authChar c = true ∧ c ≠ 64 := by
  obtain ⟨c, rfl, -, hb⟩ := (ipv6AddrzMatch_iff H).mp hm
  have inner : ∀ x ∈ c, authChar x = true ∧ x ≠ 64 := by
    rcases bracket_cases c hb with ⟨-, h6⟩ | ⟨a, z, rfl, -, ha6, -, hztok⟩
    · exact fun x hx => hexC_auth (isIPv6_chars h6 x hx)
    · intro x hx
      simp only [List.mem_append, List.mem_cons] at hx
      rcases hx with hx | rfl | hx
      · exact hexC_auth (isIPv6_chars ha6 x hx)
      · decide
      · rw [← render_tokenize z] at hx
        exact zoneToks_auth _ (tokenize_ok z) (by simpa [List.all_eq_true] using hztok) x hx
  intro x hx
  simp only [List.cons_append, List.mem_cons, List.mem_append, List.not_mem_nil, or_false] at hx
  rcases hx with rfl | hx | rfl
  · decide
  · exact inner x hx
  · decide

/-- **`_HOST_PORT_RE` on a bracketed literal followed by nothing or `:`…** -/
theorem hostPortRe_literal {H : Str} (hm : ipv6AddrzMatch H = true) (A : Str) :
    hostPortRe (H ++ A) = (portPart A).map (fun p => (H, p)) := by
  obtain ⟨c, rfl, h93, hb⟩ := (ipv6AddrzMatch_iff H).mp hm
  have e : 91 :: c ++ [93] ++ A = 91 :: (c ++ 93 :: A) := by simp
  rw [e]
  have hp0 : portPart (91 :: (c ++ 93 :: A)) = none := by simp [portPart]
  have hr : List.flatMap Tok.text (Tok.chr 91 :: tokenize (c ++ 93 :: A)) = 91 :: (c ++ 93 :: A) := by
    have := render_tokenize (91 :: (c ++ 93 :: A))
    rw [tokenize_bracket] at this
    exact this
  have hs := split_at_ne 93 c A h93
  unfold hostPortRe
  simp only [tokenize_bracket, List.dropWhile, regNameTok, regNameChar, beq_self_eq_true,
    Bool.true_or, Bool.not_true, hr, hp0]
  simp only [hostPortBracket, hs.1, hs.2, hb, if_true]

/-! ## two spellings of one host -/

/-- `_normalize_host` gives the same answer on two ASCII spellings of a host that differ in letter
case only, when the zone id (if the host is a bracketed literal with one) is spelled identically -/
theorem normalizeHost_case (idna : Str → Option Str) {sc : Option Str} (hs : Normalizable sc) {H₁ H₂ : Str}
    (ha₁ : H₁.all (· < 128) = true) (ha₂ : H₂.all (· < 128) = true) (hl : lower H₁ = lower H₂)
    (hz : ipv6AddrzMatch H₁ = true → H₁.dropWhile (· != 37) = H₂.dropWhile (· != 37)) :
    normalizeHost idna (some H₁) sc = normalizeHost idna (some H₂) sc := by
  have h6 := ipv6AddrzMatch_case hl
  have h4 := ipv4Match_case hl
  by_cases hm : ipv6AddrzMatch H₁ = true
  · have hm₂ : ipv6AddrzMatch H₂ = true := h6 ▸ hm
    have hd := hz hm
    have htl : lower (H₁.takeWhile (· != 37)) = lower (H₂.takeWhile (· != 37)) := by
      rw [← takeWhile_lower 37 (by omega), ← takeWhile_lower 37 (by omega), hl]
    rcases dropWhile_ne_cases 37 H₁ with hd1 | ⟨r, hd1⟩
    · have n1 := not_mem_of_dropWhile_nil hd1
      have n2 := not_mem_of_dropWhile_nil (hd ▸ hd1)
      rw [normalizeHost_literal_nozone idna hs hm n1, normalizeHost_literal_nozone idna hs hm₂ n2, hl]
    · -- both are `[` a `%` z `]` with the same `%` z `]`
      obtain ⟨c₁, e₁, -, hb₁⟩ := (ipv6AddrzMatch_iff H₁).mp hm
      obtain ⟨c₂, e₂, -, hb₂⟩ := (ipv6AddrzMatch_iff H₂).mp hm₂
      have shape : ∀ (H c : Str), H = 91 :: c ++ [93] → bracketOk c = true → 37 ∈ H →
          ∃ a z, 37 ∉ a ∧ H = 91 :: (a ++ 37 :: (z ++ [93])) := by
        intro H c e hb h37
        rcases bracket_cases c hb with ⟨n37, -⟩ | ⟨a, z, rfl, ha37, -, -, -⟩
        · exfalso; rw [e] at h37; simp [n37] at h37
        · exact ⟨a, z, ha37, by rw [e]; simp⟩
      have m1 : 37 ∈ H₁ := by
        apply Classical.byContradiction; intro n
        rw [dropWhile_ne_nil_of_not_mem n] at hd1; simp at hd1
      have m2 : 37 ∈ H₂ := by
        apply Classical.byContradiction; intro n
        rw [hd, dropWhile_ne_nil_of_not_mem n] at hd1; simp at hd1
      obtain ⟨a₁, z₁, n₁, rfl⟩ := shape H₁ c₁ e₁ hb₁ m1
      obtain ⟨a₂, z₂, n₂, rfl⟩ := shape H₂ c₂ e₂ hb₂ m2
      have s1 := split_at_ne 37 (91 :: a₁) (z₁ ++ [93]) (by simp [n₁])
      have s2 := split_at_ne 37 (91 :: a₂) (z₂ ++ [93]) (by simp [n₂])
      simp only [List.cons_append] at s1 s2
      rw [s1.2, s2.2] at hd
      rw [s1.1, s2.1] at htl
      have hzz : z₁ = z₂ := by
        simp only [List.cons.injEq, true_and] at hd
        exact List.append_cancel_right hd
      have haa : lower a₁ = lower a₂ := by
        simp only [lower_cons, List.cons.injEq, true_and] at htl
        exact htl
      rw [normalizeHost_literal_zone' idna hs a₁ z₁ n₁ hm, normalizeHost_literal_zone' idna hs a₂ z₂ n₂ hm₂,
        haa, hzz]
  · have hm1 : ipv6AddrzMatch H₁ = false := by simpa using hm
    have hm2 : ipv6AddrzMatch H₂ = false := h6 ▸ hm1
    by_cases h41 : ipv4Match H₁ = true
    · have h42 : ipv4Match H₂ = true := h4 ▸ h41
      have n1 := ipv4Match_name h41
      have n2 := ipv4Match_name h42
      have : H₁ = H₂ := by rw [← n1.2.1, ← n2.2.1, hl]
      rw [this]
    · have h41' : ipv4Match H₁ = false := by simpa using h41
      have h42' : ipv4Match H₂ = false := h4 ▸ h41'
      by_cases hne : H₁ = []
      · have : H₂ = [] := by
          have := congrArg List.length hl
          simp only [lower_length, hne, List.length_nil] at this
          exact List.eq_nil_of_length_eq_zero this.symm
        rw [hne, this]
      · have hne₂ : H₂ ≠ [] := by
          intro e
          have := congrArg List.length hl
          simp only [lower_length, e, List.length_nil] at this
          exact hne (List.eq_nil_of_length_eq_zero this)
        rw [normalizeHost_ascii_name idna hs hne ha₁ hm1 h41', normalizeHost_ascii_name idna hs hne₂ ha₂ hm2 h42',
          hl]

end U3.Url
